/-
Line-protocol helpers shared by every property driver (core-only, no Mathlib).

A harness trace is a sequence of lines.  Drivers read stdin to EOF, fold a
state over the lines and print report lines:

  MISMATCH <case> <detail>   model and implementation disagree (correspondence)
  MONITOR  <case> <clause> <detail>  property monitor failed on the implementation trace
  STAT <key>=<nat>           counters for the evidence file
  SAMPLE <text>              a sample case for the evidence file
-/
namespace LndModel.Lines

/-- Fold `f` over every line of stdin (newline stripped). -/
partial def foldStdin {σ : Type} (f : σ → String → IO σ) (init : σ) : IO σ := do
  let h ← IO.getStdin
  let rec loop (s : σ) : IO σ := do
    let line ← h.getLine
    if line.isEmpty then return s
    let line := String.ofList ((line.toList.reverse.dropWhile (fun c => c == '\n' || c == '\r')).reverse)
    loop (← f s line)
  loop init

def words (s : String) : List String :=
  (s.splitOn " ").filter (· ≠ "")

def hexDigit? (c : Char) : Option Nat :=
  if '0' ≤ c ∧ c ≤ '9' then some (c.toNat - '0'.toNat)
  else if 'a' ≤ c ∧ c ≤ 'f' then some (c.toNat - 'a'.toNat + 10)
  else if 'A' ≤ c ∧ c ≤ 'F' then some (c.toNat - 'A'.toNat + 10)
  else none

/-- Parse a hex string into bytes (as `Nat < 256`); `none` on odd length or bad digit.
    The literal `-` denotes the empty byte string. -/
def hexBytes? (s : String) : Option (List Nat) :=
  if s == "-" then some [] else
  let rec go : List Char → List Nat → Option (List Nat)
    | [], acc => some acc.reverse
    | [_], _ => none
    | a :: b :: rest, acc =>
      match hexDigit? a, hexDigit? b with
      | some x, some y => go rest ((x * 16 + y) :: acc)
      | _, _ => none
  go s.toList []

def hexOfNibble (n : Nat) : Char :=
  if n < 10 then Char.ofNat ('0'.toNat + n) else Char.ofNat ('a'.toNat + n - 10)

def bytesHex (bs : List Nat) : String :=
  if bs.isEmpty then "-" else
  String.ofList (bs.foldr (fun b acc => hexOfNibble (b / 16) :: hexOfNibble (b % 16) :: acc) [])

/-- Parse a hex number (no prefix). -/
def hexNat? (s : String) : Option Nat :=
  if s.isEmpty then none else
  s.toList.foldl (fun acc c => match acc, hexDigit? c with
    | some a, some d => some (a * 16 + d)
    | _, _ => none) (some 0)

def int? (s : String) : Option Int := s.toInt?
def nat? (s : String) : Option Nat := s.toNat?

/-- `key=value` lookup in a word list. -/
def kv? (ws : List String) (key : String) : Option String :=
  ws.findSome? fun w =>
    match w.splitOn "=" with
    | [k, v] => if k == key then some v else none
    | _ => none

def kvNat? (ws : List String) (key : String) : Option Nat := (kv? ws key).bind nat?
def kvInt? (ws : List String) (key : String) : Option Int := (kv? ws key).bind int?

end LndModel.Lines
