/-
C17 — helper lemmas: int64 arithmetic without wrap-around on the realistic fee
domain, the decision table of one negotiation step, sorting facts.
-/
import LndModel.C17.Model
import LndModel.C17.Spec

namespace LndModel.C17

/-! ### int64 arithmetic on the realistic domain -/

/-- fees / balances below 2^60 sat (the total supply is < 2^51 sat). -/
def Dom (x : Int) : Prop := 0 ≤ x ∧ x < 1152921504606846976

theorem wrap64_id {x : Int} (h1 : -9223372036854775808 ≤ x) (h2 : x < 9223372036854775808) :
    wrap64 x = x := by
  unfold wrap64; omega

theorem tenth_eq {x : Int} (h : Dom x) : div64 (mul64 x 1) 10 = x / 10 := by
  obtain ⟨h0, h1⟩ := h
  have e1 : mul64 x 1 = x := by unfold mul64; rw [Int.mul_one]; exact wrap64_id (by omega) (by omega)
  unfold div64
  rw [e1, Int.tdiv_eq_ediv_of_nonneg h0]
  exact wrap64_id (by omega) (by omega)

theorem three_tenths_eq {x : Int} (h : Dom x) : div64 (mul64 x 3) 10 = x * 3 / 10 := by
  obtain ⟨h0, h1⟩ := h
  have e1 : mul64 x 3 = x * 3 := by unfold mul64; exact wrap64_id (by omega) (by omega)
  unfold div64
  rw [e1, Int.tdiv_eq_ediv_of_nonneg (by omega)]
  exact wrap64_id (by omega) (by omega)

theorem ratchet_up {x : Int} (h : Dom x) : ratchetFee x true = x + x / 10 := by
  have h' := h
  obtain ⟨h0, h1⟩ := h'
  simp only [ratchetFee, if_true, tenth_eq h, add64]
  exact wrap64_id (by omega) (by omega)

theorem ratchet_down {x : Int} (h : Dom x) : ratchetFee x false = x - x / 10 := by
  have h' := h
  obtain ⟨h0, h1⟩ := h'
  simp only [ratchetFee, Bool.false_eq_true, if_false, tenth_eq h, sub64]
  exact wrap64_id (by omega) (by omega)

theorem inRange_of_lt {l r : Int} (h : Dom l) (hlt : l < r) :
    feeInAcceptableRange l r = decide (r ≤ l + l * 3 / 10) := by
  have h' := h
  obtain ⟨h0, h1⟩ := h'
  simp only [feeInAcceptableRange, hlt, if_true, three_tenths_eq h, add64]
  rw [wrap64_id (by omega) (by omega)]

theorem inRange_of_not_lt {l r : Int} (h : Dom l) (hlt : ¬ l < r) :
    feeInAcceptableRange l r = decide (r ≥ l - l * 3 / 10) := by
  have h' := h
  obtain ⟨h0, h1⟩ := h'
  simp only [feeInAcceptableRange, hlt, if_false, three_tenths_eq h, sub64]
  rw [wrap64_id (by omega) (by omega)]


/-! ### one negotiation step -/

/-- the outcome of `calcCompromiseFee` for a node that already made an offer `x ≥ 10·k`,
    against a remote offer `y`: either it adopts `y`, or it ratchets strictly toward `y`
    by at least `k` without reaching it. -/
theorem compromise_step {ideal x y k : Int} (hx : Dom x) (hk : 1 ≤ k) (hxk : 10 * k ≤ x) :
    calcCompromiseFee ideal x y = y ∨
    (y < x ∧ y < calcCompromiseFee ideal x y ∧ calcCompromiseFee ideal x y + k ≤ x) ∨
    (x < y ∧ calcCompromiseFee ideal x y < y ∧ x + k ≤ calcCompromiseFee ideal x y) := by
  have hx' := hx
  obtain ⟨h0, h1⟩ := hx'
  have hx0 : x ≠ 0 := by omega
  unfold calcCompromiseFee
  by_cases hi : ideal = y
  · simp [hi]
  · by_cases hyx : y = x
    · simp [hx0, hyx]
    · by_cases hlt : y < x
      · have hnlt : ¬ x < y := by omega
        simp only [hi, hx0, or_self, if_false, hyx, hlt, if_true, inRange_of_not_lt hx hnlt,
          ratchet_down hx]
        by_cases hr : y ≥ x - x * 3 / 10
        · simp [hr]
        · simp only [hr, decide_false, Bool.false_eq_true, if_false]
          right; left
          refine ⟨trivial, ?_, ?_⟩ <;> omega
      · have hgt : x < y := by omega
        have hgt' : y > x := hgt
        simp only [hi, hx0, or_self, if_false, hyx, hlt, hgt', if_true, inRange_of_lt hx hgt,
          ratchet_up hx]
        by_cases hr : y ≤ x + x * 3 / 10
        · simp [hr]
        · simp only [hr, decide_false, Bool.false_eq_true, if_false]
          right; right
          refine ⟨trivial, ?_, ?_⟩ <;> omega


theorem propose_ok {n : Node} {p : Int} (h : p ≤ n.budget) :
    n.propose p = some { n with last := p, offers := if n.offers.contains p then n.offers else p :: n.offers } := by
  unfold Node.propose
  have : ¬ p > n.budget := by omega
  simp [this]

theorem mem_propose_offers (l : List Int) (p : Int) :
    p ∈ (if l.contains p then l else p :: l) := by
  by_cases h : p ∈ l <;> simp [h]

/-- what an honest, unfinished, non-taproot closer does with a remote offer `y` when its own
    last offer and `y` both lie in `[L, M]`, `10·k ≤ L`, `M` within its cap and budget. -/
theorem recv_honest {n : Node} {y k L M : Int}
    (hd : n.done = none) (ht : n.taproot = false)
    (hk : 1 ≤ k) (hLk : 10 * k ≤ L) (hxL : L ≤ n.last) (hxM : n.last ≤ M)
    (hyL : L ≤ y) (hyM : y ≤ M) (hM : M < 1152921504606846976)
    (hmax : n.isInit = true → M ≤ n.maxFee) (hbud : M ≤ n.budget) :
    (∃ n', n.recv y = (n', .final y) ∧ n'.done = some y ∧ y ∈ n'.offers) ∨
    (∃ n' p, n.recv y = (n', .send p) ∧ n'.last = p ∧ p ∈ n'.offers ∧ n'.done = none ∧
        n'.taproot = false ∧ n'.isInit = n.isInit ∧ n'.maxFee = n.maxFee ∧ n'.budget = n.budget ∧
        L ≤ p ∧ p ≤ M ∧
        ((y < n.last ∧ y < p ∧ p + k ≤ n.last) ∨ (n.last < y ∧ p < y ∧ n.last + k ≤ p))) := by
  have hx : Dom n.last := ⟨by omega, by omega⟩
  have hstep := @compromise_step n.ideal n.last y k hx hk (by omega)
  by_cases hc : y ∈ n.offers
  · left
    refine ⟨{ n with done := some y }, ?_, rfl, hc⟩
    simp [Node.recv, hd, ht, hc]
  · generalize hpe : calcCompromiseFee n.ideal n.last y = p at hstep
    have hpL : L ≤ p := by omega
    have hpM : p ≤ M := by omega
    have hcap : (n.isInit && decide (p > n.maxFee)) = false := by
      cases hi : n.isInit
      · simp
      · have := hmax hi
        have : ¬ p > n.maxFee := by omega
        simp [this]
    have hprop := propose_ok (n := n) (p := p) (by omega)
    by_cases hpy : p = y
    · left
      subst hpy
      refine ⟨{ n with last := p, offers := if n.offers.contains p then n.offers else p :: n.offers,
                       done := some p }, ?_, rfl, mem_propose_offers _ _⟩
      simp only [Node.recv, hd, Option.isSome_none, Bool.false_eq_true, if_false, ht, Bool.false_and,
        List.contains_iff_mem, hc, hpe, hcap, hprop]
      simp
    · right
      refine ⟨{ n with last := p, offers := if n.offers.contains p then n.offers else p :: n.offers },
        p, ?_, rfl, mem_propose_offers _ _, hd, ht, rfl, rfl, rfl, hpL, hpM, ?_⟩
      · simp only [Node.recv, hd, Option.isSome_none, Bool.false_eq_true, if_false, ht, Bool.false_and,
          List.contains_iff_mem, hc, hpe, hcap, hprop]
        simp [hpy]
      · omega


/-! ### the two-party system -/

/-- one side has completed the close with fee `f` and its matching offer is in flight to the
    other side, which has offered `f` itself. -/
structure Closing (f : Int) (s : Net) : Prop where
  msg : s.msg = some f
  failed : s.failed = none
  rdone : s.rcv.done = none
  rtap : s.rcv.taproot = false
  rmem : f ∈ s.rcv.offers
  sdone : s.snd.done = some f
  smem : f ∈ s.snd.offers

theorem run_add (a b : Nat) (s : Net) : Net.run (a + b) s = Net.run b (Net.run a s) := by
  induction a generalizing s with
  | zero => simp [Net.run]
  | succ n ih => rw [Nat.succ_add]; simp only [Net.run]; exact ih _

theorem step_of_msg_none {s : Net} (h : s.msg = none) : s.step = s := by
  simp [Net.step, h]

theorem run_of_msg_none (n : Nat) {s : Net} (h : s.msg = none) : Net.run n s = s := by
  induction n with
  | zero => rfl
  | succ n ih => simp only [Net.run, step_of_msg_none h, ih]

/-- from a `Closing` state the echo is delivered, the other side completes with the same fee, and
    its echo is ignored: two deliveries. -/
theorem closing_agreed {f : Int} {s : Net} (h : Closing f s) : (Net.run 2 s).Agreed f := by
  obtain ⟨hm, hf, hrd, hrt, hrm, hsd, hsm⟩ := h
  have h1 : s.rcv.recv f = ({ s.rcv with done := some f }, .final f) := by
    simp [Node.recv, hrd, hrt, hrm]
  have e1 : s.step = { rcv := s.snd, snd := { s.rcv with done := some f }, msg := some f,
                        failed := s.failed, delivered := s.delivered + 1 } := by
    simp [Net.step, hm, h1]
  have h2 : s.snd.recv f = (s.snd, .silent) := by
    simp [Node.recv, hsd]
  simp only [Net.run, e1]
  simp only [Net.step, h2]
  exact ⟨rfl, hf, rfl, hsd, hrm, hsm⟩

/-- the negotiation invariant between two honest legacy closers: both have made an offer, the
    sender's last offer is in flight, every offer lies in `[L, M]` with `10·k ≤ L`, and `M` is
    within the opener's cap and budget. -/
structure Mid (k L M : Int) (s : Net) : Prop where
  msg : s.msg = some s.snd.last
  failed : s.failed = none
  rdone : s.rcv.done = none
  sdone : s.snd.done = none
  rtap : s.rcv.taproot = false
  stap : s.snd.taproot = false
  smem : s.snd.last ∈ s.snd.offers
  rL : L ≤ s.rcv.last
  sL : L ≤ s.snd.last
  rM : s.rcv.last ≤ M
  sM : s.snd.last ≤ M
  rmax : s.rcv.isInit = true → M ≤ s.rcv.maxFee
  smax : s.snd.isInit = true → M ≤ s.snd.maxFee
  rbud : M ≤ s.rcv.budget
  sbud : M ≤ s.snd.budget
  kpos : 1 ≤ k
  kL : 10 * k ≤ L
  Mdom : M < 1152921504606846976

/-- one delivery from a `Mid` state: either the receiver accepts (→ `Closing`), or it ratchets
    and the distance between the two standing offers shrinks by at least `k`. -/
theorem mid_step {k L M : Int} {s : Net} (h : Mid k L M s) :
    (∃ f, L ≤ f ∧ f ≤ M ∧ Closing f s.step) ∨
    (Mid k L M s.step ∧
      ((s.snd.last < s.rcv.last ∧ s.step.rcv.last < s.step.snd.last ∧
          s.step.snd.last - s.step.rcv.last + k ≤ s.rcv.last - s.snd.last) ∨
       (s.rcv.last < s.snd.last ∧ s.step.snd.last < s.step.rcv.last ∧
          s.step.rcv.last - s.step.snd.last + k ≤ s.snd.last - s.rcv.last))) := by
  have hr := @recv_honest s.rcv s.snd.last k L M h.rdone h.rtap h.kpos h.kL h.rL h.rM h.sL h.sM
    h.Mdom h.rmax h.rbud
  rcases hr with ⟨n', he, hd, hmem⟩ | ⟨n', p, he, hlast, hmem, hd, ht, hi, hmx, hb, hpL, hpM, hgap⟩
  · left
    refine ⟨s.snd.last, h.sL, h.sM, ?_⟩
    have e1 : s.step = { rcv := s.snd, snd := n', msg := some s.snd.last,
                          failed := s.failed, delivered := s.delivered + 1 } := by
      simp [Net.step, h.msg, he]
    rw [e1]
    exact ⟨rfl, h.failed, h.sdone, h.stap, h.smem, hd, hmem⟩
  · right
    have e1 : s.step = { rcv := s.snd, snd := n', msg := some p,
                          failed := s.failed, delivered := s.delivered + 1 } := by
      simp [Net.step, h.msg, he]
    rw [e1]
    refine ⟨⟨?_, h.failed, h.sdone, hd, h.stap, ht, ?_, h.sL, ?_, h.sM, ?_, h.smax, ?_, h.sbud, ?_,
      h.kpos, h.kL, h.Mdom⟩, ?_⟩
    · simp [hlast]
    · simpa [hlast] using hmem
    · simpa [hlast] using hpL
    · simpa [hlast] using hpM
    · intro hi'; have := h.rmax (by simpa [hi] using hi'); simpa [hmx] using this
    · simpa [hb] using h.rbud
    · simp only [hlast]; omega


theorem agreed_stable {f : Int} {s : Net} (m : Nat) (h : s.Agreed f) : (Net.run m s).Agreed f := by
  rw [run_of_msg_none m h.1]; exact h

/-- the decreasing-measure argument: from a `Mid` state whose standing offers are at most
    `k·n` apart, agreement is reached within `n + 3` deliveries. -/
theorem mid_terminates {k L M : Int} : ∀ (n : Nat) (s : Net), Mid k L M s →
    s.rcv.last - s.snd.last ≤ k * (n : Int) → s.snd.last - s.rcv.last ≤ k * (n : Int) →
    ∃ f, L ≤ f ∧ f ≤ M ∧ (Net.run (n + 3) s).Agreed f := by
  intro n
  induction n with
  | zero =>
    intro s h h1 h2
    rcases mid_step h with ⟨f, hfL, hfM, hc⟩ | ⟨_, hgap⟩
    · exact ⟨f, hfL, hfM, by simpa [Net.run] using closing_agreed hc⟩
    · exfalso
      simp only [Int.natCast_zero, Int.mul_zero] at h1 h2
      omega
  | succ n ih =>
    intro s h h1 h2
    have hk := h.kpos
    have hkn : 0 ≤ k * (n : Int) := Int.mul_nonneg (by omega) (by omega)
    have hexp : k * ((n + 1 : Nat) : Int) = k * (n : Int) + k := by
      rw [Int.natCast_add, Int.mul_add]; simp
    rw [hexp] at h1 h2
    rcases mid_step h with ⟨f, hfL, hfM, hc⟩ | ⟨hmid, hgap⟩
    · refine ⟨f, hfL, hfM, ?_⟩
      have : n + 1 + 3 = 1 + (2 + (n + 1)) := by omega
      rw [this, run_add 1, run_add 2]
      exact agreed_stable _ (closing_agreed hc)
    · have := ih s.step hmid (by omega) (by omega)
      obtain ⟨f, hfL, hfM, hag⟩ := this
      refine ⟨f, hfL, hfM, ?_⟩
      have e : n + 1 + 3 = 1 + (n + 3) := by omega
      rw [e, run_add 1]
      exact hag


/-! ### BIP 69 ordering of the (at most two) outputs -/

theorem scriptLt_asymm : ∀ {a b : Script}, scriptLt a b = true → scriptLt b a = false
  | [], [], h => by simp [scriptLt] at h
  | [], _ :: _, _ => by simp [scriptLt]
  | _ :: _, [], h => by simp [scriptLt] at h
  | x :: xs, y :: ys, h => by
    unfold scriptLt at h ⊢
    by_cases h1 : x < y
    · have : ¬ y < x := by omega
      simp [this, h1]
    · by_cases h2 : y < x
      · simp [h1, h2] at h
      · simp only [h1, h2, if_false] at h ⊢
        exact scriptLt_asymm h

theorem scriptLt_trichotomy : ∀ {a b : Script}, scriptLt a b = false → scriptLt b a = false → a = b
  | [], [], _, _ => rfl
  | [], _ :: _, h, _ => by simp [scriptLt] at h
  | _ :: _, [], _, h => by simp [scriptLt] at h
  | x :: xs, y :: ys, h1, h2 => by
    unfold scriptLt at h1 h2
    by_cases a1 : x < y
    · simp [a1] at h1
    · by_cases a2 : y < x
      · simp [a2] at h2
      · simp only [a1, a2, if_false] at h1 h2
        have : x = y := by omega
        rw [this, scriptLt_trichotomy h1 h2]

theorem outLt_asymm {a b : TxOut} (h : outLt a b = true) : outLt b a = false := by
  unfold outLt at h ⊢
  simp only [Bool.or_eq_true, Bool.and_eq_true, decide_eq_true_eq] at h
  rcases h with h | ⟨h1, h2⟩
  · have h1 : ¬ b.value < a.value := by omega
    have h2 : ¬ b.value = a.value := by omega
    simp [h1, h2]
  · have h3 : ¬ b.value < a.value := by omega
    simp [h3, scriptLt_asymm h2]

theorem outLt_trichotomy {a b : TxOut} (h1 : outLt a b = false) (h2 : outLt b a = false) : a = b := by
  unfold outLt at h1 h2
  simp only [Bool.or_eq_false_iff, decide_eq_false_iff_not, Bool.and_eq_false_imp,
    decide_eq_true_eq] at h1 h2
  have hv : a.value = b.value := by omega
  have hs := scriptLt_trichotomy (h1.2 hv) (h2.2 hv.symm)
  cases a; cases b; simp_all

theorem sumOuts_insert (x : TxOut) (l : List TxOut) : sumOuts (insertOut x l) = x.value + sumOuts l := by
  induction l with
  | nil => rfl
  | cons y ys ih =>
    unfold insertOut
    split
    · rfl
    · simp only [sumOuts, ih]; omega

theorem sumOuts_sort (l : List TxOut) : sumOuts (sortOuts l) = sumOuts l := by
  induction l with
  | nil => rfl
  | cons x xs ih => simp only [sortOuts, sumOuts_insert, ih, sumOuts]

theorem sumOuts_append (a b : List TxOut) : sumOuts (a ++ b) = sumOuts a + sumOuts b := by
  induction a with
  | nil => simp [sumOuts]
  | cons x xs ih => simp only [List.cons_append, sumOuts, ih]; omega

theorem insertOut_perm (x : TxOut) (l : List TxOut) : (insertOut x l).Perm (x :: l) := by
  induction l with
  | nil => exact List.Perm.refl _
  | cons y ys ih =>
    unfold insertOut
    split
    · exact List.Perm.refl _
    · exact (ih.cons y).trans (List.Perm.swap x y ys)

theorem sortOuts_perm (l : List TxOut) : (sortOuts l).Perm l := by
  induction l with
  | nil => exact List.Perm.refl _
  | cons x xs ih => exact (insertOut_perm x _).trans (ih.cons x)

/-- adjacent elements are in BIP 69 order. -/
def SortedOuts : List TxOut → Prop
  | a :: b :: rest => outLt b a = false ∧ SortedOuts (b :: rest)
  | _ => True

theorem insertOut_sorted (x : TxOut) : ∀ (l : List TxOut), SortedOuts l → SortedOuts (insertOut x l)
  | [], _ => trivial
  | [y], _ => by
    unfold insertOut
    by_cases h : outLt x y
    · simp only [h, if_true]; exact ⟨outLt_asymm h, trivial⟩
    · simp only [h, insertOut]; exact ⟨by simpa using h, trivial⟩
  | y :: z :: rest, hs => by
    unfold insertOut
    by_cases h : outLt x y
    · simp only [h, if_true]; exact ⟨outLt_asymm h, hs⟩
    · simp only [h]
      have ih := insertOut_sorted x (z :: rest) hs.2
      unfold insertOut at ih ⊢
      by_cases h2 : outLt x z
      · simp only [h2, if_true] at ih ⊢
        exact ⟨by simpa using h, ih⟩
      · simp only [h2] at ih ⊢
        exact ⟨hs.1, ih⟩

theorem sortOuts_sorted (l : List TxOut) : SortedOuts (sortOuts l) := by
  induction l with
  | nil => trivial
  | cons x xs ih => exact insertOut_sorted x _ ih

/-- with at most one output per party the result does not depend on who lists its output first. -/
theorem sortOuts_comm_small (A B : List TxOut) (hA : A.length ≤ 1) (hB : B.length ≤ 1) :
    sortOuts (A ++ B) = sortOuts (B ++ A) := by
  match A, B, hA, hB with
  | [], B, _, _ => simp
  | [a], [], _, _ => simp
  | [a], [b], _, _ =>
    simp only [List.cons_append, List.nil_append, sortOuts, insertOut]
    by_cases h1 : outLt a b
    · simp [h1, outLt_asymm h1]
    · by_cases h2 : outLt b a
      · simp [h1, h2]
      · have := outLt_trichotomy (by simpa using h1) (by simpa using h2)
        subst this
        simp


/-! ### mirror views, owed balances -/

theorem mirror_mirror_view (v : View) : v.mirror.mirror = v := by
  cases v; simp [View.mirror]

theorem mirror_mirror_req (r : CloseReq) : r.mirror.mirror = r := by
  obtain ⟨fee, ls, rs, lop, rop, payer, cs, cl⟩ := r
  cases payer with
  | none => simp [CloseReq.mirror]
  | some p => cases p <;> simp [CloseReq.mirror, Party.other]

theorem payerOf_mirror (isInit : Bool) (payer : Option Party) :
    payerOf (!isInit) (payer.map Party.other) = (payerOf isInit payer).other := by
  cases payer with
  | none => cases isInit <;> rfl
  | some p => cases p <;> rfl

/-- `CoopCloseBalance` seen from the other side returns the swapped pair. -/
theorem coopCloseBalance_mirror (anchors isInit : Bool) (fee our their cf : Int) (payer : Option Party) :
    coopCloseBalance anchors (!isInit) fee their our cf (payer.map Party.other) =
      (coopCloseBalance anchors isInit fee our their cf payer).map Prod.swap := by
  unfold coopCloseBalance
  rw [payerOf_mirror]
  cases isInit <;> cases hp : payerOf _ payer <;>
    simp only [Party.other, Bool.not_false, Bool.not_true, if_true, if_false, Bool.false_eq_true,
      reduceCtorEq] <;>
    split <;> split <;> first | rfl | omega | (simp_all; done) | (exfalso; omega)

/-- `CreateCooperativeCloseTx` with the two parties' arguments exchanged builds the same tx. -/
theorem createCloseTx_swap (o : TxOpts) (ld rd our their : Int) (ls rs : Script) (lop rop : Bool) :
    createCloseTx o rd ld their our rs ls rop lop = createCloseTx o ld rd our their ls rs lop rop := by
  have h1 : (partyOut o rd their rs rop).length ≤ 1 := by unfold partyOut; split <;> simp
  have h2 : (partyOut o ld our ls lop).length ≤ 1 := by unfold partyOut; split <;> simp
  simp only [createCloseTx]
  rw [sortOuts_comm_small _ _ h1 h2]


/-- the model's `CoopCloseBalance` computes exactly the owed amounts of Spec.lean (this is where
    the model's default-payer rule, anchor size and msat truncation meet the specification). -/
theorem coopCloseBalance_eq (v : View) (r : CloseReq) :
    coopCloseBalance v.anchors v.isInit r.fee (toSat v.localMsat) (toSat v.remoteMsat) v.commitFee r.payer =
      if finalLocal v r < 0 ∨ finalRemote v r < 0 then none else some (finalLocal v r, finalRemote v r) := by
  obtain ⟨lm, rm, cf, isInit, anchors, tap, ld, rd⟩ := v
  obtain ⟨fee, ls, rs, lop, rop, payer, cs, cl⟩ := r
  simp only [coopCloseBalance, finalLocal, finalRemote, initiatorDelta, openerCredit, localPays,
    payerOf, anchorSize, toSat]
  cases isInit <;> cases anchors <;> rcases payer with _ | p <;> (try cases p) <;>
    simp only [Option.getD_none, Option.getD_some, if_true, if_false, Bool.false_eq_true,
      reduceCtorEq] <;>
    (split <;> split <;> first | rfl | (exfalso; omega) | (simp only [Option.some.injEq, Prod.mk.injEq]; constructor <;> omega))

/-- a party's output exists iff its balance reaches its own dust limit, and carries that balance. -/
theorem mem_partyOut (o : TxOpts) (dust bal : Int) (s : Script) (op : Bool) (x : TxOut) :
    x ∈ partyOut o dust bal s op ↔
      dust ≤ bal ∧ x = ⟨if o.customSeq.isSome && op then 0 else bal, s⟩ := by
  unfold partyOut
  by_cases h : bal ≥ dust
  · simp [h]
  · simp [h]

/-- legacy flow (no custom sequence): the output value is the balance itself. -/
theorem partyOut_legacy (o : TxOpts) (ho : o.customSeq = none) (dust bal : Int) (s : Script) (op : Bool) :
    partyOut o dust bal s op = if bal ≥ dust then [⟨bal, s⟩] else [] := by
  simp [partyOut, ho]


end LndModel.C17
