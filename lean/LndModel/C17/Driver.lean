/-
C17 driver: replays a harness trace on the model (correspondence, `MISMATCH`)
and evaluates the property monitor on the implementation's answers (`MONITOR`).
Usage: `drv_c17 lnwallet|chancloser < trace`.
-/
import LndModel.Prelude.Lines
import LndModel.C17.Model
import LndModel.C17.DriverSched

open LndModel LndModel.Lines LndModel.C17

namespace LndModel.C17.Driver

/-- what the harness printed about one side's channel state. -/
structure ViewL where
  v : View
  capacity : Int
  deriving Repr

structure PropRes where
  ok : Bool
  err : String := ""
  bal : Int := 0
  tx : String := ""       -- canonical tx text as printed
  outs : List (Int × String) := []
  seq : Nat := 0
  lock : Nat := 0

structure St where
  stream : String := ""
  caseId : String := "0"
  kind : String := ""
  hdr : List String := []
  lines : Nat := 0
  cases : Nat := 0
  mismatches : Nat := 0
  monitorFails : Nat := 0
  ops : Nat := 0
  samples : Nat := 0
  nontrivial : Nat := 0
  -- lnwallet stream
  viewA : Option ViewL := none
  viewB : Option ViewL := none
  propA : Option PropRes := none
  propB : Option PropRes := none
  compA : Option PropRes := none
  compB : Option PropRes := none
  ccbOk : Nat := 0
  ccbErr : Nat := 0
  cctx0 : Nat := 0
  cctx1 : Nat := 0
  cctx2 : Nat := 0
  chanCases : Nat := 0
  chanAfford : Nat := 0
  chanNoOut : Nat := 0
  chanOneOut : Nat := 0
  chanTwoOut : Nat := 0
  chanTaproot : Nat := 0
  chanRbf : Nat := 0
  chanPayments : Nat := 0
  crossOk : Nat := 0
  crossRej : Nat := 0
  -- chancloser stream
  nI : Option Node := none
  nR : Option Node := none
  implMaxI : Int := 0
  negErr : Option String := none
  lastFinal : Option Int := none
  finals : Nat := 0
  gridLines : Nat := 0
  negCases : Nat := 0
  negAgreed : Nat := 0
  negErrs : Nat := 0
  negCapped : Nat := 0
  negRealistic : Nat := 0
  negMaxDelivered : Nat := 0
  negTaproot : Nat := 0
  negBudget : Int := 0
  negSkipBelow10 : Nat := 0
  negSkipOverBudget : Nat := 0
  negSkipOwnCap : Nat := 0
  negSkipOtherCap : Nat := 0
  negChecked : Nat := 0
  negOverBudgetAborts : Nat := 0
  negDustOther : Nat := 0
  factSeen : Bool := false
  fundsChecked : Nat := 0
  feeUpdateCases : Nat := 0
  feeUpdateAsym : Nat := 0
  -- rbf stream
  rbfStuck : List String := []
  rbfPending : Option (String × Int × String × Nat × String) := none  -- closer, fee, label, lock, model tx
  rbfAcceptTx : Option String := none
  rbfCases : Nat := 0
  rbfSent : Nat := 0
  rbfSkips : Nat := 0
  rbfOfferErrs : Nat := 0
  rbfAccepted : Nat := 0
  rbfFinished : Nat := 0
  rbfTaproot : Nat := 0
  rbfLabelCloserOnly : Nat := 0
  rbfLabelCloseeOnly : Nat := 0
  rbfLabelBoth : Nat := 0
  rbfLabelDisagree : Nat := 0
  rbfLatentLock : Nat := 0
  rbfLatentLockRejected : Nat := 0

def mismatch (s : St) (detail : String) : IO St := do
  IO.println s!"MISMATCH case={s.caseId} line={s.lines} {detail}"
  return { s with mismatches := s.mismatches + 1 }

def monitor (s : St) (clause detail : String) : IO St := do
  IO.println s!"MONITOR case={s.caseId} clause={clause} line={s.lines} {detail}"
  return { s with monitorFails := s.monitorFails + 1 }

/-- words after `=>`. -/
def resOf (ws : List String) : List String :=
  match ws.dropWhile (· ≠ "=>") with
  | _ :: r => r
  | _ => []

def optNat (ws : List String) (key : String) : Option Nat :=
  match kv? ws key with
  | some "none" => none
  | some v => nat? v
  | none => none

def b01 (ws : List String) (key : String) : Bool := kvNat? ws key == some 1

def scriptOf (ws : List String) (key : String) : Script :=
  ((kv? ws key).bind hexBytes?).getD []

def renderOuts (outs : List TxOut) : String :=
  if outs.isEmpty then "-" else
  ",".intercalate (outs.map fun o => s!"{o.value}:{bytesHex o.script}")

def renderTx (t : CloseTx) : String :=
  s!"ver=2 nin=1 seq={t.sequence} lock={t.lockTime} outs={renderOuts t.outs}"

def parseOuts (s : String) : List (Int × String) :=
  if s == "-" then [] else
  (s.splitOn ",").filterMap fun w =>
    match w.splitOn ":" with
    | [v, sc] => (int? v).map (·, sc)
    | _ => none

/-- text of the tx part of a result (everything from `ver=`). -/
def txText (ws : List String) : String :=
  " ".intercalate (ws.dropWhile (fun w => !w.startsWith "ver="))

def parseProp (r : List String) : PropRes :=
  match r with
  | "ok" :: rest =>
    { ok := true, bal := (kvInt? rest "bal").getD 0, tx := txText rest,
      outs := parseOuts ((kv? rest "outs").getD "-"),
      seq := (kvNat? rest "seq").getD 0, lock := (kvNat? rest "lock").getD 0 }
  | "err" :: e :: _ => { ok := false, err := e }
  | e :: _ => { ok := false, err := e }
  | [] => { ok := false, err := "?" }

def errName : CloseErr → String
  | .afford => "afford" | .noOutputs => "nooutputs" | .sanity => "sanity"

def payerOfName : String → Option Party
  | "local" => some .local | "remote" => some .remote | _ => none

/-- lexicographic comparison of hex strings of whole bytes = comparison of the bytes. -/
def hexLt (a b : String) : Bool :=
  let a := if a == "-" then "" else a
  let b := if b == "-" then "" else b
  a < b

def pairLe (a b : Int × String) : Bool :=
  a.1 < b.1 || (a.1 == b.1 && !(hexLt b.2 a.2))

def sortedPairs : List (Int × String) → Bool
  | a :: b :: rest => pairLe a b && sortedPairs (b :: rest)
  | _ => true

def insPair (x : Int × String) : List (Int × String) → List (Int × String)
  | [] => [x]
  | y :: ys => if pairLe x y then x :: y :: ys else y :: insPair x ys

def sortPairs (l : List (Int × String)) : List (Int × String) := l.foldr insPair []

def hxOf (ws : List String) (key : String) : String := (kv? ws key).getD "-"

/-- the close request of side `A` (`me = true`) or `B` for the current chan case. -/
def reqOf (hdr : List String) (me : Bool) (fee : Int) : CloseReq :=
  let mode := (kv? hdr "mode").getD "legacy"
  let sA := scriptOf hdr "sA"
  let sB := scriptOf hdr "sB"
  let opA := b01 hdr "opA"
  let opB := b01 hdr "opB"
  let rbf := mode != "legacy"
  let payerA : Option Party :=
    if mode == "rbfA" then some .local else if mode == "rbfB" then some .remote else none
  { fee := fee
    localScript := if me then sA else sB
    remoteScript := if me then sB else sA
    lop := if me then opA else opB
    rop := if me then opB else opA
    payer := if me then payerA else payerA.map Party.other
    customSeq := if rbf then some maxRBFSequence else none
    customLock := if rbf then some ((kvNat? hdr "lock").getD 0) else none }

def optsOf (r : CloseReq) : CloseOpts :=
  { customSeq := r.customSeq, customLock := r.customLock, customPayer := r.payer }

/-- `CreateCloseProposal` on a channel that has not latched `isClosed` (`Chan.proposalTx`, the
    model function with CreateCloseProposal's own option plumbing). -/
def modelProp (v : View) (r : CloseReq) : String × String × Int :=
  match ({ v := v } : Chan).proposalTx r.fee r.localScript r.remoteScript r.lop r.rop (optsOf r) with
  | .ok (tx, bal) => ("ok", renderTx tx, bal)
  | .error (.close e) => (errName e, "", 0)
  | .error .closing => ("closing", "", 0)
  | .error .sigReject => ("sigreject", "", 0)

/-- `CompleteCooperativeClose` on side `me` with the signatures both sides made for their own
    proposals (`Chan.complete`: its own plumbing and dust arguments, then the signature check). -/
def modelComplete (vMe vOther : View) (rMe rOther : CloseReq) : String :=
  let own := ({ v := vMe } : Chan).proposalTx rMe.fee rMe.localScript rMe.remoteScript rMe.lop rMe.rop (optsOf rMe)
  let oth := ({ v := vOther } : Chan).proposalTx rOther.fee rOther.localScript rOther.remoteScript rOther.lop rOther.rop (optsOf rOther)
  match own, oth with
  | .ok (txo, _), .ok (txr, _) =>
    match ({ v := vMe } : Chan).complete txo txr rMe.fee rMe.localScript rMe.remoteScript rMe.lop rMe.rop (optsOf rMe) with
    | .ok (tx, bal, c') => s!"ok bal={bal} closed={if c'.isClosed then 1 else 0} {renderTx tx}"
    | .error _ => "err"
  | _, _ => "skip"

/-- monitor for one real-channel close case, evaluated at END from the trace alone. -/
def chanMonitor (s : St) : IO St := do
  let some va := s.viewA | return s
  let some vb := s.viewB | return s
  let hdr := s.hdr
  let mut s := s
  let a := va.v
  -- precondition of the property: both sides hold the same HTLC-free state, i.e. the same
  -- parameters and the same CREDITED sat balances (Spec `Counterpart`; a pending update_fee
  -- changes commit fee and opener balance together and keeps this)
  let b := vb.v
  let credit (w : View) : Int := w.commitFee + (if w.anchors then 660 else 0)
  let aLoc : Int := Int.ofNat (a.localMsat / 1000) + (if a.isInit then credit a else 0)
  let aRem : Int := Int.ofNat (a.remoteMsat / 1000) + (if a.isInit then 0 else credit a)
  let bLoc : Int := Int.ofNat (b.localMsat / 1000) + (if b.isInit then credit b else 0)
  let bRem : Int := Int.ofNat (b.remoteMsat / 1000) + (if b.isInit then 0 else credit b)
  let reached := (kv? hdr "reached").getD ""
  if reached.startsWith "feeupdate" then
    s := { s with feeUpdateCases := s.feeUpdateCases + 1,
                  feeUpdateAsym := s.feeUpdateAsym + (if b != a.mirror then 1 else 0) }
  if b.isInit == a.isInit || b.anchors != a.anchors || b.taproot != a.taproot ||
      b.localDust != a.remoteDust || b.remoteDust != a.localDust || va.capacity != vb.capacity ||
      aLoc != bRem || aRem != bLoc then
    s ← monitor s "state-sync" s!"the two sides' credited balances / parameters do not correspond (A {aLoc}/{aRem}, B {bLoc}/{bRem})"
    return s
  -- states produced by the real state machine must account for the whole capacity
  if reached != "forced" then
    s := { s with fundsChecked := s.fundsChecked + 1 }
    for w in [a, b] do
      if Int.ofNat (w.localMsat + w.remoteMsat) + 1000 * credit w != 1000 * va.capacity then
        s ← monitor s "funds" s!"balances + commit fee + anchors do not add up to the capacity {va.capacity}: {w.localMsat}+{w.remoteMsat} msat, credit {credit w}"
  let some fee := kvInt? hdr "fee" | return s
  let mode := (kv? hdr "mode").getD "legacy"
  let rbf := mode != "legacy"
  let aSat : Int := Int.ofNat (a.localMsat / 1000)
  let bSat : Int := Int.ofNat (a.remoteMsat / 1000)
  let delta : Int := a.commitFee + (if a.anchors then 660 else 0)
  let aOpener := a.isInit
  let aPays := if mode == "rbfA" then true else if mode == "rbfB" then false else aOpener
  let aFinal := aSat + (if aOpener then delta else 0) - (if aPays then fee else 0)
  let bFinal := bSat + (if aOpener then 0 else delta) - (if aPays then 0 else fee)
  let cannotPay := aFinal < 0 || bFinal < 0
  let sA := hxOf hdr "sA"
  let sB := hxOf hdr "sB"
  let aOut : List (Int × String) :=
    if aFinal ≥ a.localDust then [(if rbf && b01 hdr "opA" then 0 else aFinal, sA)] else []
  let bOut : List (Int × String) :=
    if bFinal ≥ a.remoteDust then [(if rbf && b01 hdr "opB" then 0 else bFinal, sB)] else []
  let want := sortPairs (aOut ++ bOut)
  let realistic := fee ≥ 0 && a.localDust ≥ 0 && a.remoteDust ≥ 0 && a.commitFee ≥ 0
  let some pa := s.propA | return s
  let some pb := s.propB | return s
  -- error iff the payer cannot pay (or nothing would be left to pay out)
  if realistic then
    if cannotPay then
      if pa.ok || pb.ok then
        s ← monitor s "error-iff" s!"payer cannot afford fee={fee} (A={aFinal} B={bFinal}) but a proposal was created"
    else if want.isEmpty then
      if pa.ok || pb.ok then
        s ← monitor s "error-iff" "both outputs are dust but a proposal was created"
    else
      if !pa.ok || !pb.ok then
        s ← monitor s "error-iff" s!"payer can afford fee={fee} (A={aFinal} B={bFinal}) but proposal failed: A={pa.err} B={pb.err}"
  if pa.ok != pb.ok then
    s ← monitor s "same-tx" s!"one side builds a proposal, the other fails (A={pa.err} B={pb.err})"
  if pa.ok && pb.ok then
    if pa.tx != pb.tx then
      s ← monitor s "same-tx" s!"proposals differ: A[{pa.tx}] B[{pb.tx}]"
    -- signatures / completed tx
    match s.compA, s.compB with
    | some ca, some cb =>
      if !ca.ok || !cb.ok then
        s ← monitor s "sig-valid" s!"CompleteCooperativeClose failed: A={ca.err} B={cb.err}"
      else
        if ca.tx != cb.tx || ca.tx != pa.tx then
          s ← monitor s "same-tx" s!"completed txs differ: A[{ca.tx}] B[{cb.tx}] proposal[{pa.tx}]"
    | _, _ => s ← monitor s "sig-valid" "missing completion"
    if realistic && !cannotPay then
      -- value identity
      if pa.bal != aFinal || pb.bal != bFinal then
        s ← monitor s "value" s!"final balances A={pa.bal} B={pb.bal}, want A={aFinal} B={bFinal}"
      for p in [pa, pb] do
        if sortPairs p.outs != want then
          s ← monitor s "value" s!"outputs [{p.tx}] want {want}"
        let total := p.outs.foldl (fun acc o => acc + o.1) (0 : Int)
        if Int.ofNat (a.localMsat + a.remoteMsat) + delta * 1000 ≤ va.capacity * 1000 then
          if total + fee > va.capacity then
            s ← monitor s "capacity" s!"outputs {total} + fee {fee} exceed capacity {va.capacity}"
  return s

/-- exact-arithmetic reference for the 30 % / 10 % rules on the domain `0 ≤ x < 2^60`. -/
def inDom (x : Int) : Bool := 0 ≤ x && x < 1152921504606846976

def specInRange (l r : Int) : Bool :=
  if l < r then r ≤ l + (l * 3).toNat / 10 else r ≥ l - (l * 3).toNat / 10

def specRatchet (f : Int) (up : Bool) : Int :=
  if up then f + f.toNat / 10 else f - f.toNat / 10

def negErrName : NegErr → String
  | .exceedsMax => "exceedsmax" | .cannotAfford => "cannotsign" | .taprootMismatch => "taprootmismatch"

def replyStr : Reply → String
  | .send f => s!"send {f}" | .final f => s!"final {f}" | .silent => "none"
  | .err e => s!"err {negErrName e}"

def intList (s : String) : List Int :=
  if s == "-" then [] else (s.splitOn ",").filterMap int?

def sortInts (l : List Int) : List Int :=
  l.foldr (fun x acc => (acc.takeWhile (· < x)) ++ x :: acc.dropWhile (· < x)) []

def natAbs (x : Int) : Nat := x.natAbs

/-- one side's RBF close terms, from the case header and the `view` lines. -/
def rbfTermsOf (s : St) (who : String) : Option RbfTerms := do
  let va ← s.viewA
  let vb ← s.viewB
  let sA := scriptOf s.hdr "sA"
  let sB := scriptOf s.hdr "sB"
  let sdA := (kvInt? s.hdr "sdA").getD 0
  let sdB := (kvInt? s.hdr "sdB").getD 0
  if who == "A" then
    pure { v := va.v, localScript := sA, remoteScript := sB, sdLocal := sdA, sdRemote := sdB }
  else
    pure { v := vb.v, localScript := sB, remoteScript := sA, sdLocal := sdB, sdRemote := sdA }

def labelName : SigLabel → String
  | .closerOnly => "closerOnly" | .closeeOnly => "closeeOnly" | .both => "both"

def labelOf : String → Option SigLabel
  | "closerOnly" => some .closerOnly | "closeeOnly" => some .closeeOnly | "both" => some .both
  | _ => none

def otherSide (w : String) : String := if w == "A" then "B" else "A"

/-- the fee of a side's automatic first offer (made when the channel is flushed). -/
def rbfFirstFee (hdr : List String) (who : String) (capacity : Int) : Int :=
  let ws := ((kv? hdr "who").getD "").splitOn ","
  let fs := intList ((kv? hdr "fees").getD "-")
  match (ws.zip fs).find? (fun p => p.1 == who) with
  | some p => p.2
  | none => capacity + 1

/-- outputs the property requires for an RBF iteration with closer view `v` (independent of the
    model: plain arithmetic on the trace). -/
def rbfWantOuts (v : View) (fee : Int) (closerScript closeeScript : String) : List (Int × String) :=
  let credit : Int := v.commitFee + (if v.anchors then 660 else 0)
  let closerOwed : Int := Int.ofNat (v.localMsat / 1000) + (if v.isInit then credit else 0) - fee
  let closeeOwed : Int := Int.ofNat (v.remoteMsat / 1000) + (if v.isInit then 0 else credit)
  sortPairs ((if closerOwed ≥ v.localDust then [(closerOwed, closerScript)] else []) ++
             (if closeeOwed ≥ v.remoteDust then [(closeeOwed, closeeScript)] else []))

/-- end of a legacy negotiation case: correspondence of the final state + the monitor. -/
def negEnd (s : St) (rest : List String) : IO St := do
  let s := { s with ops := s.ops + 1 }
  let hdr := s.hdr
  let delivered := (kvNat? rest "delivered").getD 0
  let capped := b01 rest "capped"
  let stI := (kv? rest "stateI").getD "?"
  let stR := (kv? rest "stateR").getD "?"
  let offI := intList ((kv? rest "offersI").getD "-")
  let offR := intList ((kv? rest "offersR").getD "-")
  let txeq := (kvInt? rest "txeq").getD (-1)
  let txfI := (kvInt? rest "txfeeI").getD (-1)
  let txfR := (kvInt? rest "txfeeR").getD (-1)
  let mut s := { s with negMaxDelivered := max s.negMaxDelivered delivered }
  -- correspondence: final model state
  if let (some nI, some nR) := (s.nI, s.nR) then
    if sortInts nI.offers != offI || sortInts nR.offers != offR then
      s ← mismatch s s!"end: offers model I={sortInts nI.offers} R={sortInts nR.offers} impl I={offI} R={offR}"
    if nI.last != (kvInt? rest "lastI").getD 0 || nR.last != (kvInt? rest "lastR").getD 0 then
      s ← mismatch s s!"end: last proposals model I={nI.last} R={nR.last}"
    if nI.done.isSome != (stI == "fin") || nR.done.isSome != (stR == "fin") then
      s ← mismatch s s!"end: finished model I={nI.done.isSome} R={nR.done.isSome} impl I={stI} R={stR}"
  -- monitor, from the trace alone
  let idealI := (kvInt? hdr "idealI").getD 0
  let idealR := (kvInt? hdr "idealR").getD 0
  let openerSat := (kvInt? hdr "openerSat").getD 0
  let dustI := (kvInt? hdr "dustI").getD 0
  let tap := b01 hdr "taproot"
  let bothFin := stI == "fin" && stR == "fin"
  if capped then s := { s with negCapped := s.negCapped + 1 }
  if s.negErr.isSome then s := { s with negErrs := s.negErrs + 1 }
  if bothFin then
    s := { s with negAgreed := s.negAgreed + 1 }
    match s.lastFinal with
    | none => s ← monitor s "agreed-fee" "both finished without a final offer"
    | some f =>
      if !(offI.contains f && offR.contains f) then
        s ← monitor s "agreed-fee" s!"agreed fee {f} was not offered (signed) by both: I={offI} R={offR}"
      if txeq != 1 then
        s ← monitor s "same-tx" "the two closers hold different closing transactions"
      if txfI != txfR then
        s ← monitor s "agreed-fee" s!"closing txs pay different fees {txfI} / {txfR}"
      if openerSat - f ≥ dustI && dustI ≥ 0 && (kvInt? hdr "otherSat").getD 0 ≥ (kvInt? hdr "dustR").getD 0 && txfI != f then
        s ← monitor s "agreed-fee" s!"closing tx pays fee {txfI}, agreed {f}"
  else if (stI == "fin") != (stR == "fin") && !capped && s.negErr.isNone then
    s ← monitor s "half-closed" s!"negotiation stopped with only one side finished (I={stI} R={stR})"
  -- the termination clause. Hypotheses of `negotiation_terminates` (declared in checks/C17.json):
  -- both ideals >= 10 sat, both <= the opener's cap, both <= what the opener can pay.
  let lo := min idealI idealR
  let hi := max idealI idealR
  let budget := s.negBudget
  if lo < 10 then s := { s with negSkipBelow10 := s.negSkipBelow10 + 1 }
  else if idealI > s.implMaxI then s := { s with negSkipOwnCap := s.negSkipOwnCap + 1 }
  else if idealR > s.implMaxI then s := { s with negSkipOtherCap := s.negSkipOtherCap + 1 }
  else if hi > budget then s := { s with negSkipOverBudget := s.negSkipOverBudget + 1 }
  -- realistic ideals within the caps, but the opener cannot pay the larger one: the real code
  -- aborts ("unable to sign new co op close offer: initiator cannot afford ..."). Reported, not
  -- judged: the affordability hypothesis is declared in checks/C17.json.
  if lo ≥ 100 && idealI ≤ s.implMaxI && idealR ≤ s.implMaxI && hi > budget && !bothFin then
    IO.println s!"INFO case={s.caseId} clause=over-budget-abort idealI={idealI} idealR={idealR} maxI={s.implMaxI} budget={budget} stateI={stI} stateR={stR} err={s.negErr.getD "-"}"
    s := { s with negOverBudgetAborts := s.negOverBudgetAborts + 1 }
  let withinCaps := hi ≤ s.implMaxI && hi ≤ budget
  if lo ≥ 10 && withinCaps && hi < 1152921504606846976 then
    s := { s with negChecked := s.negChecked + 1 }
    if lo ≥ 100 then s := { s with negRealistic := s.negRealistic + 1 }
    let k := lo.toNat / 10
    let bound := if tap then 3 else 5 + (hi - lo).toNat / k
    if !bothFin || capped || s.negErr.isSome then
      s ← monitor s "terminates" s!"honest negotiation idealI={idealI} idealR={idealR} maxI={s.implMaxI} budget={budget} did not reach agreement (I={stI} R={stR} capped={capped} err={s.negErr.getD "-"})"
    else if delivered > bound then
      s ← monitor s "terminates" s!"needed {delivered} messages, bound {bound}"
    if let some f := s.lastFinal then
      if f < lo || f > hi then
        s ← monitor s "agreed-fee" s!"agreed fee {f} outside [{lo},{hi}]"
  return s

def step (s : St) (line : String) : IO St := do
  let s := { s with lines := s.lines + 1 }
  let ws := words line
  match ws with
  | "FACT" :: rest =>
    -- every constant the stream must report has to be present AND equal to the model's
    let required : List (String × Int) :=
      if s.stream == "lnwallet" then
        [("anchorSize", anchorSize), ("maxRBFSequence", maxRBFSequence),
         ("defaultSequence", defaultSequence), ("maxSatoshi", maxSatoshi)]
      else if s.stream == "chancloser" then [("maxFeeMult", defaultMaxFeeMultiplier)]
      else if s.stream == "rbf" then [("anchorSize", anchorSize), ("maxRBFSequence", maxRBFSequence)]
      else []
    let mut s := { s with factSeen := true }
    for (key, v) in required do
      match kvInt? rest key with
      | none => s ← mismatch s s!"fact {key}: not reported by the harness"
      | some x => if x != v then s ← mismatch s s!"fact {key}: model={v} impl={x}"
    return s
  | "CASE" :: id :: rest =>
    let kind := (kv? rest "kind").getD ""
    let mut s := { s with caseId := id, kind := kind, hdr := rest, cases := s.cases + 1,
                          viewA := none, viewB := none, propA := none, propB := none,
                          compA := none, compB := none, nI := none, nR := none,
                          negErr := none, lastFinal := none, finals := 0 }
    if kind == "chan" then
      s := { s with chanCases := s.chanCases + 1,
                    chanRbf := s.chanRbf + (if (kv? rest "mode").getD "" != "legacy" then 1 else 0),
                    chanPayments := s.chanPayments + (if (kv? rest "reached").getD "" == "payments" then 1 else 0) }
    if kind == "rbf" then
      s := { s with rbfCases := s.rbfCases + 1, rbfStuck := [], rbfPending := none, rbfAcceptTx := none }
    if kind == "neg" then
      let idealI := (kvInt? rest "idealI").getD 0
      let idealR := (kvInt? rest "idealR").getD 0
      -- the largest fee for which CreateCloseProposal succeeds (Props.proposal_ok_iff_fee_le_budget[_dust])
      let openerSat := (kvInt? rest "openerSat").getD 0
      let otherDust := (kvInt? rest "otherSat").getD 0 < (kvInt? rest "dustR").getD 0
      let budget := if otherDust then openerSat - (kvInt? rest "dustI").getD 0 else openerSat
      s := { s with negBudget := budget, negDustOther := s.negDustOther + (if otherDust then 1 else 0) }
      let tap := b01 rest "taproot"
      s := { s with negCases := s.negCases + 1, negTaproot := s.negTaproot + (if tap then 1 else 0),
                    nI := some (mkNode idealI (maxFeeOf idealI ((kvInt? rest "maxCfgI").getD 0)) budget true tap),
                    nR := some (mkNode idealR (maxFeeOf idealR ((kvInt? rest "maxCfgR").getD 0)) budget false tap) }
    if (kind == "chan" || kind == "neg" || kind == "rbf") && s.samples < 6 && s.cases % 7 == 3 then
      IO.println s!"SAMPLE {line}"
      s := { s with samples := s.samples + 1 }
    return s
  -- ------------------------------------------------------------------ lnwallet
  | "ccb" :: rest =>
    let s := { s with ops := s.ops + 1 }
    let anchors := b01 rest "anchors"
    let isInit := b01 rest "init"
    let some fee := kvInt? rest "fee" | mismatch s "bad ccb"
    let some our := kvInt? rest "our" | mismatch s "bad ccb"
    let some their := kvInt? rest "their" | mismatch s "bad ccb"
    let some cf := kvInt? rest "commitFee" | mismatch s "bad ccb"
    let payer := payerOfName ((kv? rest "payer").getD "none")
    let impl := " ".intercalate (resOf ws)
    let model := match coopCloseBalance anchors isInit fee our their cf payer with
      | some (o, t) => s!"ok {o} {t}" | none => "err"
    let mut s ← if model == impl then pure s else mismatch s s!"ccb: model=[{model}] impl=[{impl}] {line}"
    s := if impl == "err" then { s with ccbErr := s.ccbErr + 1 } else { s with ccbOk := s.ccbOk + 1, nontrivial := s.nontrivial + 1 }
    -- monitor: value identity with exact arithmetic, on the realistic domain
    if fee ≥ 0 && our ≥ 0 && their ≥ 0 && cf ≥ 0 then
      let delta := cf + (if anchors then 660 else 0)
      let localPays := match payer with | some .local => true | some .remote => false | none => isInit
      let o := our + (if isInit then delta else 0) - (if localPays then fee else 0)
      let t := their + (if isInit then 0 else delta) - (if localPays then 0 else fee)
      let want := if o < 0 || t < 0 then "err" else s!"ok {o} {t}"
      if want != impl then
        s ← monitor s "value" s!"CoopCloseBalance gives [{impl}], balance identity requires [{want}]: {line}"
    return s
  | "cctx" :: rest =>
    let s := { s with ops := s.ops + 1 }
    let some ld := kvInt? rest "ldust" | mismatch s "bad cctx"
    let some rd := kvInt? rest "rdust" | mismatch s "bad cctx"
    let some our := kvInt? rest "our" | mismatch s "bad cctx"
    let some their := kvInt? rest "their" | mismatch s "bad cctx"
    let o : TxOpts := { rbf := b01 rest "rbf", customSeq := optNat rest "cseq", customLock := optNat rest "clock" }
    let tx := createCloseTx o ld rd our their (scriptOf rest "ls") (scriptOf rest "rs") (b01 rest "lop") (b01 rest "rop")
    let model := s!"ok {renderTx tx}"
    let impl := " ".intercalate (resOf ws)
    let mut s ← if model == impl then pure s else mismatch s s!"cctx: model=[{model}] impl=[{impl}]"
    let r := resOf ws
    let outs := parseOuts ((kv? r "outs").getD "-")
    s := match outs.length with
      | 0 => { s with cctx0 := s.cctx0 + 1 }
      | 1 => { s with cctx1 := s.cctx1 + 1, nontrivial := s.nontrivial + 1 }
      | _ => { s with cctx2 := s.cctx2 + 1, nontrivial := s.nontrivial + 1 }
    -- monitor: dust rule per owner + order
    let cs := o.customSeq.isSome
    let lo : List (Int × String) := if our ≥ ld then [(if cs && b01 rest "lop" then 0 else our, hxOf rest "ls")] else []
    let ro : List (Int × String) := if their ≥ rd then [(if cs && b01 rest "rop" then 0 else their, hxOf rest "rs")] else []
    if r.head? == some "ok" then
      if sortPairs outs != sortPairs (lo ++ ro) then
        s ← monitor s "dust" s!"outputs {outs}, own-dust rule requires {sortPairs (lo ++ ro)}: {line}"
    else
      s ← monitor s "dust" s!"CreateCooperativeCloseTx failed: {line}"
    return s
  | "view" :: who :: rest =>
    let s := { s with ops := s.ops + 1 }
    let some lm := kvNat? rest "localMsat" | mismatch s "bad view"
    let some rm := kvNat? rest "remoteMsat" | mismatch s "bad view"
    let v : View := { localMsat := lm, remoteMsat := rm, commitFee := (kvInt? rest "commitFee").getD 0,
                      isInit := b01 rest "isInit", anchors := b01 rest "anchors", taproot := b01 rest "taproot",
                      localDust := (kvInt? rest "localDust").getD 0, remoteDust := (kvInt? rest "remoteDust").getD 0 }
    let vl : ViewL := { v := v, capacity := (kvInt? rest "capacity").getD 0 }
    if who == "A" then
      return { s with viewA := some vl, chanTaproot := s.chanTaproot + (if v.taproot then 1 else 0) }
    else return { s with viewB := some vl }
  | "propose" :: who :: _ =>
    let s := { s with ops := s.ops + 1 }
    let p := parseProp (resOf ws)
    let me := who == "A"
    let some vl := (if me then s.viewA else s.viewB) | mismatch s "propose without view"
    let some fee := kvInt? s.hdr "fee" | mismatch s "no fee"
    let (mres, mtx, mbal) := modelProp vl.v (reqOf s.hdr me fee)
    let mut s := s
    if p.ok then
      if mres != "ok" || mtx != p.tx || mbal != p.bal then
        s ← mismatch s s!"propose {who}: model={mres} bal={mbal} [{mtx}] impl=ok bal={p.bal} [{p.tx}]"
    else if mres != p.err then
      s ← mismatch s s!"propose {who}: model={mres} impl={p.err}"
    if me then
      if p.ok then
        s := match p.outs.length with
          | 1 => { s with chanOneOut := s.chanOneOut + 1, nontrivial := s.nontrivial + 1 }
          | _ => { s with chanTwoOut := s.chanTwoOut + 1, nontrivial := s.nontrivial + 1 }
      else if p.err == "afford" then s := { s with chanAfford := s.chanAfford + 1, nontrivial := s.nontrivial + 1 }
      else if p.err == "nooutputs" then s := { s with chanNoOut := s.chanNoOut + 1, nontrivial := s.nontrivial + 1 }
      return { s with propA := some p }
    else return { s with propB := some p }
  | "proposeq" :: _ =>
    let s := { s with ops := s.ops + 1 }
    if resOf ws == ["1"] then return s
    else monitor s "same-tx" "serialized proposals of the two sides differ"
  | "complete" :: who :: _ =>
    let s := { s with ops := s.ops + 1 }
    let r := resOf ws
    let p := parseProp r
    let mut s := s
    -- correspondence: CompleteCooperativeClose as its own model function
    let me := who == "A"
    if let (some vMe, some vOth, some fee) := ((if me then s.viewA else s.viewB), (if me then s.viewB else s.viewA), kvInt? s.hdr "fee") then
      let model := modelComplete vMe.v vOth.v (reqOf s.hdr me fee) (reqOf s.hdr (!me) fee)
      let impl := if p.ok then s!"ok bal={p.bal} closed={(kvNat? r "closed").getD 0} {p.tx}" else "err"
      if model != "skip" && model != impl then
        s ← mismatch s s!"complete {who}: model=[{model}] impl=[{impl}]"
    if p.ok then
      if kv? r "engine" != some "ok" then
        s ← monitor s "sig-valid" s!"completed close tx rejected by the script engine against the funding output ({(kv? r "engine").getD "?"})"
      if kvNat? r "closed" != some 1 then
        s ← mismatch s "complete: channel not marked closed"
    if who == "A" then return { s with compA := some p } else return { s with compB := some p }
  | "completeq" :: _ =>
    let s := { s with ops := s.ops + 1 }
    if resOf ws == ["1"] then return s
    else monitor s "same-tx" "fully signed close transactions of the two sides are not byte-identical"
  | "crossfee" :: _ =>
    let s := { s with ops := s.ops + 1 }
    let some vl := s.viewA | mismatch s "crossfee without view"
    let some fee := kvInt? s.hdr "fee" | mismatch s "no fee"
    let r := resOf ws
    let res := r.headD "?"
    -- what the real CreateCloseProposal built for fee+1 (trace), `;` for spaces
    let alt := (((kv? r "alt").getD "?").replace ";" " ").replace "~" "="
    let m1 := modelProp vl.v (reqOf s.hdr true (fee + 1))
    let m1s := if m1.1 == "ok" then m1.2.1 else "err-" ++ m1.1
    let mut s ← if m1s == alt then pure s else mismatch s s!"crossfee: proposal for fee+1 model=[{m1s}] impl=[{alt}]"
    let some pa := s.propA | return s
    let sameTx := pa.ok && alt == pa.tx
    if res == "ok" then
      s := { s with crossOk := s.crossOk + 1 }
      -- monitor, trace against trace: signatures for fee must not complete a DIFFERENT tx
      if !sameTx then
        s ← monitor s "sig-valid" s!"signatures made for [{pa.tx}] completed the close for fee+1 [{alt}]"
    else
      s := { s with crossRej := s.crossRej + 1 }
      if sameTx then
        s ← monitor s "sig-valid" s!"same transaction for fee and fee+1 but the exchanged signatures were rejected ({res})"
    return s
  | "musig" :: _ => mismatch s "musig session setup failed in the harness"
  -- ---------------------------------------------------------------- chancloser
  | "ratchet" :: rest =>
    let s := { s with ops := s.ops + 1, gridLines := s.gridLines + 1 }
    let some fee := kvInt? rest "fee" | mismatch s "bad ratchet"
    let up := b01 rest "up"
    let some impl := (resOf ws).head?.bind int? | mismatch s "bad ratchet"
    let model := ratchetFee fee up
    let mut s ← if model == impl then pure s else mismatch s s!"ratchet: model={model} impl={impl} {line}"
    if inDom fee then
      s := { s with nontrivial := s.nontrivial + 1 }
      if impl != specRatchet fee up then
        s ← monitor s "ratchet" s!"ratchetFee({fee},{up})={impl}, the 10% rule gives {specRatchet fee up}"
    return s
  | "inrange" :: rest =>
    let s := { s with ops := s.ops + 1, gridLines := s.gridLines + 1 }
    let some l := kvInt? rest "local" | mismatch s "bad inrange"
    let some r := kvInt? rest "remote" | mismatch s "bad inrange"
    let impl := resOf ws == ["1"]
    let model := feeInAcceptableRange l r
    let mut s ← if model == impl then pure s else mismatch s s!"inrange: model={model} impl={impl} {line}"
    if inDom l then
      s := { s with nontrivial := s.nontrivial + 1 }
      if impl != specInRange l r then
        s ← monitor s "accept-range" s!"feeInAcceptableRange({l},{r})={impl}, the 30% rule gives {specInRange l r}"
    return s
  | "compromise" :: rest =>
    let s := { s with ops := s.ops + 1, gridLines := s.gridLines + 1 }
    let some ideal := kvInt? rest "ideal" | mismatch s "bad compromise"
    let some last := kvInt? rest "last" | mismatch s "bad compromise"
    let some rem := kvInt? rest "remote" | mismatch s "bad compromise"
    let some impl := (resOf ws).head?.bind int? | mismatch s "bad compromise"
    let model := calcCompromiseFee ideal last rem
    let mut s ← if model == impl then pure s else mismatch s s!"compromise: model={model} impl={impl} {line}"
    if inDom ideal && inDom last && inDom rem then
      s := { s with nontrivial := s.nontrivial + 1 }
      -- decision table of the negotiation step, from the 30 % / 10 % rules
      let want :=
        if ideal == rem || last == 0 then ideal
        else if rem == last then last
        else if specInRange last rem then rem
        else specRatchet last (rem > last)
      if impl != want then
        s ← monitor s "compromise" s!"calcCompromiseFee(ideal={ideal},last={last},remote={rem})={impl}, rules give {want}"
    return s
  | "init" :: who :: rest =>
    let s := { s with ops := s.ops + 1 }
    let some ideal := kvInt? rest "ideal" | mismatch s "bad init"
    let some mx := kvInt? rest "max" | mismatch s "bad init"
    let some n := (if who == "I" then s.nI else s.nR) | mismatch s "init without node"
    let s := if who == "I" then { s with implMaxI := mx } else s
    if n.ideal != ideal || n.maxFee != mx then
      mismatch s s!"init {who}: model ideal={n.ideal} max={n.maxFee} impl ideal={ideal} max={mx}"
    else return s
  | "begin" :: who :: _ =>
    let s := { s with ops := s.ops + 1 }
    let impl := " ".intercalate (resOf ws)
    if who == "I" then
      let some n := s.nI | mismatch s "begin without node"
      match n.propose n.ideal with
      | some n' =>
        let model := s!"send {n.ideal}"
        let s := { s with nI := some n' }
        if model == impl then return s else mismatch s s!"begin I: model={model} impl={impl}"
      | none =>
        let s := { s with negErr := some "cannotsign" }
        if impl.startsWith "err" then return s else mismatch s s!"begin I: model=err impl={impl}"
    else
      if impl == "none" then return s else mismatch s s!"begin R: model=none impl={impl}"
  | "cache" :: _ =>
    let s := { s with ops := s.ops + 1 }
    if resOf ws == ["none"] then return s else mismatch s s!"cache: expected none: {line}"
  | "recv" :: who :: rest =>
    let s := { s with ops := s.ops + 1, nontrivial := s.nontrivial + 1 }
    let some f := kvInt? rest "fee" | mismatch s "bad recv"
    let impl := " ".intercalate (resOf ws)
    let some n := (if who == "I" then s.nI else s.nR) | mismatch s "recv without node"
    let (n', rep) := n.recv f
    let mut s := if who == "I" then { s with nI := some n' } else { s with nR := some n' }
    if replyStr rep != impl then
      s ← mismatch s s!"recv {who} fee={f}: model={replyStr rep} impl={impl}"
    match resOf ws with
    | "final" :: v :: _ =>
      let fv := (int? v).getD 0
      if let some prev := s.lastFinal then
        if prev != fv then
          s ← monitor s "agreed-fee" s!"the two sides completed the close with different fees {prev} / {fv}"
      s := { s with lastFinal := some fv, finals := s.finals + 1 }
    | "err" :: e :: _ => s := { s with negErr := some e }
    | _ => pure ()
    return s
  -- ----------------------------------------------------------------------- rbf
  | "shutdown" :: _ =>
    let s := { s with ops := s.ops + 1 }
    let some va := s.viewA | mismatch s "shutdown without view"
    let first := (kv? s.hdr "firstShutdown").getD "A"
    -- the side that receives the first shutdown reaches the negotiation state (and makes its
    -- automatic offer) first
    let order := [otherSide first, first]
    let mut expect := "ok"
    for w in order do
      if expect == "ok" then
        if let some t := rbfTermsOf s w then
          match rbfOffer t (rbfFirstFee s.hdr w va.capacity) with
          | .err e => expect := s!"{w} err {errName e}"
          | _ => pure ()
    let impl := match ws with
      | _ :: "=>" :: "ok" :: _ => "ok"
      | _ :: w :: "=>" :: "err" :: e :: _ => s!"{w} err {e}"
      | _ => "?"
    if va.v.taproot then return { s with rbfTaproot := s.rbfTaproot + 1 } else
    if impl == expect then return s else mismatch s s!"shutdown: model=[{expect}] impl=[{impl}]"
  | "offer" :: w :: rest =>
    let s := { s with ops := s.ops + 1, nontrivial := s.nontrivial + 1, rbfPending := none, rbfAcceptTx := none }
    let some fee := kvInt? rest "fee" | mismatch s "bad offer"
    let some t := rbfTermsOf s w | mismatch s "offer without views"
    let r := resOf ws
    let envH := (kvNat? s.hdr "envHeight").getD 0
    let model := if s.rbfStuck.contains w then "err invalidtransition" else
      match rbfOffer t fee with
      | .skip => "skip"
      | .err e => s!"err {errName e}"
      | .sent l _ _ => s!"sent fee={fee} lock={envH} label={labelName l}"
    let impl := match r with
      | "skip" :: _ => "skip"
      | "err" :: e :: _ => s!"err {e}"
      | "sent" :: rr => s!"sent fee={(kvInt? rr "fee").getD (-1)} lock={(kvNat? rr "lock").getD 0} label={(kv? rr "label").getD "?"}"
      | _ => "?"
    let mut s ← if model == impl then pure s else mismatch s s!"offer {w} fee={fee}: model=[{model}] impl=[{impl}]"
    match r with
    | "skip" :: _ => s := { s with rbfSkips := s.rbfSkips + 1 }
    | "err" :: _ => s := { s with rbfOfferErrs := s.rbfOfferErrs + 1 }
    | "sent" :: rr =>
      let label := (kv? rr "label").getD "?"
      let lock := (kvNat? rr "lock").getD 0
      let mtx := match rbfOffer t fee with
        | .sent _ tx _ => renderTx tx
        | _ => "?"
      s := { s with rbfSent := s.rbfSent + 1, rbfPending := some (w, fee, label, lock, mtx),
                    rbfLabelCloserOnly := s.rbfLabelCloserOnly + (if label == "closerOnly" then 1 else 0),
                    rbfLabelCloseeOnly := s.rbfLabelCloseeOnly + (if label == "closeeOnly" then 1 else 0),
                    rbfLabelBoth := s.rbfLabelBoth + (if label == "both" then 1 else 0),
                    rbfLatentLock := s.rbfLatentLock + (if lock != 0 then 1 else 0) }
      -- monitor: the closer offers exactly the fee it was asked to pay and can pay it
      if (kvInt? rr "fee").getD (-1) != fee then
        s ← monitor s "rbf-fee" s!"closer {w} was asked to offer {fee} but closing_complete carries {(kvInt? rr "fee").getD (-1)}"
      if Int.ofNat (t.v.localMsat / 1000) < fee then
        s ← monitor s "value" s!"closer {w} offers fee {fee} above its balance {t.v.localMsat / 1000}"
      if (labelOf label).isNone then
        s ← monitor s "rbf-label" s!"closing_complete carries sig fields [{label}], exactly one expected"
    | _ => pure ()
    return s
  | "accept" :: w :: _ =>
    let s := { s with ops := s.ops + 1, nontrivial := s.nontrivial + 1 }
    let some (closer, fee, label, lock, mtx) := s.rbfPending | mismatch s "accept without offer"
    let some t := rbfTermsOf s w | mismatch s "accept without views"
    let some tc := rbfTermsOf s closer | mismatch s "accept without views"
    let r := resOf ws
    let model := match labelOf label with
      | none => "err sigfield"
      | some l =>
        match rbfAccept t fee l lock with
        | .cannotPay => "err remotecannotpay"
        | .badLabel => "err sigfield"
        | .err e => s!"err {errName e}"
        | .ok tx => if renderTx tx == mtx then s!"ok {renderTx tx}" else "err sigreject"
    let impl := match r with
      | "ok" :: rr => s!"ok {txText rr}"
      | "err" :: e :: _ => s!"err {e}"
      | _ => "?"
    let mut s ← if model == impl then pure s else mismatch s s!"accept {w}: model=[{model}] impl=[{impl}]"
    let production := lock == 0   -- Environment.BlockHeight is never set by lnd
    match r with
    | "ok" :: rr =>
      let p := parseProp r
      s := { s with rbfAccepted := s.rbfAccepted + 1, rbfAcceptTx := some p.tx }
      if kv? rr "engine" != some "ok" then
        s ← monitor s "sig-valid" s!"closee {w} broadcast a close tx the script engine rejects"
      if (kvInt? rr "fee").getD (-1) != fee then
        s ← monitor s "rbf-fee" s!"closing_sig carries fee {(kvInt? rr "fee").getD (-1)}, closer offered {fee}"
      -- value identity: closer pays, each output present iff >= its owner's channel dust limit
      let want := rbfWantOuts tc.v fee (hxOf s.hdr (if closer == "A" then "sA" else "sB"))
                    (hxOf s.hdr (if closer == "A" then "sB" else "sA"))
      if sortPairs p.outs != want then
        s ← monitor s "value" s!"RBF close (closer {closer}, fee {fee}) outputs [{p.tx}], want {want}"
      let total := p.outs.foldl (fun acc o => acc + o.1) (0 : Int)
      if let some va := s.viewA then
        if Int.ofNat (tc.v.localMsat + tc.v.remoteMsat) + 1000 * (tc.v.commitFee + (if tc.v.anchors then 660 else 0)) ≤ va.capacity * 1000
            && total + fee > va.capacity then
          s ← monitor s "capacity" s!"outputs {total} + fee {fee} exceed capacity {va.capacity}"
      -- diagnostic: does the sig-field label describe the outputs actually present?
      let credit : Int := tc.v.commitFee + (if tc.v.anchors then 660 else 0)
      let closerOwed : Int := Int.ofNat (tc.v.localMsat / 1000) + (if tc.v.isInit then credit else 0) - fee
      let closeeOwed : Int := Int.ofNat (tc.v.remoteMsat / 1000) + (if tc.v.isInit then 0 else credit)
      let hasCloser := closerOwed ≥ tc.v.localDust
      let hasClosee := closeeOwed ≥ tc.v.remoteDust
      let agrees := (label == "both" && hasCloser && hasClosee) || (label == "closerOnly" && hasCloser && !hasClosee)
                    || (label == "closeeOnly" && !hasCloser && hasClosee)
      if !agrees then s := { s with rbfLabelDisagree := s.rbfLabelDisagree + 1 }
    | _ =>
      s := { s with rbfStuck := closer :: s.rbfStuck }
      if production then
        s ← monitor s "sig-valid" s!"closee {w} rejected the honest closer's closing_complete (fee {fee}, label {label}): {impl}"
      else
        s := { s with rbfLatentLockRejected := s.rbfLatentLockRejected + 1 }
    return s
  | "finish" :: w :: _ =>
    let s := { s with ops := s.ops + 1, nontrivial := s.nontrivial + 1 }
    let r := resOf ws
    let mut s := s
    match r with
    | "ok" :: rr =>
      let p := parseProp r
      s := { s with rbfFinished := s.rbfFinished + 1 }
      if kv? rr "engine" != some "ok" then
        s ← monitor s "sig-valid" s!"closer {w} broadcast a close tx the script engine rejects"
      if kvNat? rr "txeq" != some 1 || some p.tx != s.rbfAcceptTx then
        s ← monitor s "same-tx" s!"closer's and closee's close transactions differ: [{p.tx}] vs [{s.rbfAcceptTx.getD "-"}]"
    | _ =>
      if s.rbfAcceptTx.isSome then
        s ← monitor s "sig-valid" s!"closer {w} could not complete the close with the closee's closing_sig: {r}"
      s ← mismatch s s!"finish {w}: model=ok impl={r}"
    return s
  | "setup" :: _ => mismatch s s!"negotiation setup failed: {line}"
  | "end" :: _ =>
    if s.kind == "rbf" then return { s with ops := s.ops + 1 } else negEnd s (ws.drop 1)
  | ["END"] =>
    if s.kind == "chan" then chanMonitor s else return s
  | [] => return s
  | _ => mismatch s s!"unparsed line: {line.take 80}"

end LndModel.C17.Driver

open LndModel.C17.Driver in
def main (args : List String) : IO Unit := do
  if args.headD "" == "sched" then
    LndModel.C17.DriverSched.mainSched
    return
  let s ← LndModel.Lines.foldStdin step { stream := args.headD "" }
  IO.println s!"STAT lines={s.lines}"
  IO.println s!"STAT cases={s.cases}"
  IO.println s!"STAT evaluations={s.ops}"
  IO.println s!"STAT nontrivial={s.nontrivial}"
  if s.stream == "lnwallet" then
    IO.println s!"STAT ccb_ok={s.ccbOk}"
    IO.println s!"STAT ccb_err={s.ccbErr}"
    IO.println s!"STAT cctx_outputs0={s.cctx0}"
    IO.println s!"STAT cctx_outputs1={s.cctx1}"
    IO.println s!"STAT cctx_outputs2={s.cctx2}"
    IO.println s!"STAT chan_cases={s.chanCases}"
    IO.println s!"STAT chan_reached_by_payments={s.chanPayments}"
    IO.println s!"STAT chan_taproot={s.chanTaproot}"
    IO.println s!"STAT chan_rbf_flow={s.chanRbf}"
    IO.println s!"STAT chan_cannot_afford={s.chanAfford}"
    IO.println s!"STAT chan_no_outputs={s.chanNoOut}"
    IO.println s!"STAT chan_one_output={s.chanOneOut}"
    IO.println s!"STAT chan_two_outputs={s.chanTwoOut}"
    IO.println s!"STAT crossfee_accepted_same_tx={s.crossOk}"
    IO.println s!"STAT crossfee_rejected={s.crossRej}"
    IO.println s!"STAT funds_identity_checked={s.fundsChecked}"
    IO.println s!"STAT pending_update_fee_cases={s.feeUpdateCases}"
    IO.println s!"STAT pending_update_fee_asymmetric_commitments={s.feeUpdateAsym}"
  if s.stream == "chancloser" then
    IO.println s!"STAT fee_fn_grid_lines={s.gridLines}"
    IO.println s!"STAT neg_cases={s.negCases}"
    IO.println s!"STAT neg_taproot={s.negTaproot}"
    IO.println s!"STAT neg_agreed={s.negAgreed}"
    IO.println s!"STAT neg_realistic_ideal_ge_100_within_caps={s.negRealistic}"
    IO.println s!"STAT neg_errors={s.negErrs}"
    IO.println s!"STAT neg_capped_nonterminating={s.negCapped}"
    IO.println s!"STAT neg_max_messages={s.negMaxDelivered}"
    IO.println s!"STAT neg_termination_clause_checked={s.negChecked}"
    IO.println s!"STAT neg_skipped_ideal_below_10={s.negSkipBelow10}"
    IO.println s!"STAT neg_skipped_opener_ideal_above_own_cap={s.negSkipOwnCap}"
    IO.println s!"STAT neg_skipped_other_ideal_above_opener_cap={s.negSkipOtherCap}"
    IO.println s!"STAT neg_skipped_fee_above_opener_budget={s.negSkipOverBudget}"
    IO.println s!"STAT neg_other_side_below_dust={s.negDustOther}"
    IO.println s!"STAT neg_realistic_over_budget_aborts={s.negOverBudgetAborts}"
  if s.stream == "rbf" then
    IO.println s!"STAT rbf_cases={s.rbfCases}"
    IO.println s!"STAT rbf_taproot_cases={s.rbfTaproot}"
    IO.println s!"STAT rbf_offers_sent={s.rbfSent}"
    IO.println s!"STAT rbf_offers_skipped_cannot_pay={s.rbfSkips}"
    IO.println s!"STAT rbf_offer_errors={s.rbfOfferErrs}"
    IO.println s!"STAT rbf_closee_accepted={s.rbfAccepted}"
    IO.println s!"STAT rbf_closer_finished={s.rbfFinished}"
    IO.println s!"STAT rbf_label_closer_only={s.rbfLabelCloserOnly}"
    IO.println s!"STAT rbf_label_closee_only={s.rbfLabelCloseeOnly}"
    IO.println s!"STAT rbf_label_both={s.rbfLabelBoth}"
    IO.println s!"STAT rbf_label_disagrees_with_outputs_present={s.rbfLabelDisagree}"
    IO.println s!"STAT rbf_nonzero_locktime_offers_not_production={s.rbfLatentLock}"
    IO.println s!"STAT rbf_nonzero_locktime_rejected_not_production={s.rbfLatentLockRejected}"
  if !s.factSeen then
    IO.println s!"MISMATCH case=0 line=0 no FACT line in stream {s.stream}"
  IO.println s!"STAT mismatches={s.mismatches + (if s.factSeen then 0 else 1)}"
  IO.println s!"STAT monitor_failures={s.monitorFails}"
