/-
C17 — theorems about persistence and restart of the legacy co-op close (`Restart.lean`).

* `restart_eq_closes`: what `peer` rebuilds after a connection drop (no close tx on record) is the
  state the idle system reaches by the local close requests of exactly the sides that have a
  `ShutdownInfo` on record — with the recorded delivery scripts.
* `close_after_restart`: hence every schedule after the restart is finite with the explicit bound of
  `close_any_order`, never fails, and can only stop in agreement on the fee of the rebuilt closers.
* `restart_inv` (all schedules, any number of restarts at arbitrary points): the delivery script of
  a side never changes, the `ShutdownInfo` on record names exactly that script, it is on record as
  soon as the closer left closeIdle, and the co-op close tx on record is the transaction the closer
  completed the close with (present iff the closer is in closeFinished).
* `agreed_same_tx_on_record`: in agreement both databases hold the same transaction.
-/
import LndModel.C17.Restart
import LndModel.C17.CloserProps

set_option linter.unusedSimpArgs false

namespace LndModel.C17

/-! ### what one closer call does to the delivery script and to a finished closer -/

theorem shutdownChan_ok {p p' : Peer} {m : Msg} (h : p.shutdownChan = .ok (p', m)) :
    p'.script = p.script ∧ p.st = .idle ∧ p'.st = .shutdownInitiated ∧ m = p.shutdownMsg := by
  unfold Peer.shutdownChan at h
  split at h
  · cases h
  · rename_i hst
    simp only [Except.ok.injEq, Prod.mk.injEq] at h
    obtain ⟨rfl, rfl⟩ := h
    exact ⟨rfl, by simpa using hst, rfl, rfl⟩

theorem receiveShutdown_ok {p p' : Peer} {sc : Script} {n : Bool} {out : Option Msg}
    (h : p.receiveShutdown sc n = .ok (p', out)) :
    p'.script = p.script ∧ p.st ≠ .finished := by
  unfold Peer.receiveShutdown at h
  cases hst : p.st <;> simp only [hst] at h <;> first | cases h | refine ⟨?_, by simp⟩
  · split at h
    · cases h
    · split at h
      · cases h
      · simp only [Except.ok.injEq, Prod.mk.injEq] at h
        obtain ⟨rfl, _⟩ := h
        rfl
  · split at h
    · cases h
    · split at h
      · cases h
      · simp only [Except.ok.injEq, Prod.mk.injEq] at h
        obtain ⟨rfl, _⟩ := h
        rfl

theorem recvCS_ok {p p' : Peer} {f : Int} {ps : Bool} {out : Option Msg} {b : Bool}
    (h : p.recvCS f ps = .ok (p', out, b)) :
    p'.script = p.script ∧ (p.st = .finished → p' = p) := by
  unfold Peer.recvCS at h
  cases hst : p.st <;> simp only [hst] at h
  case awaitingFlush =>
    simp only [Except.ok.injEq, Prod.mk.injEq] at h
    obtain ⟨rfl, _⟩ := h
    exact ⟨rfl, fun hf => by cases hf⟩
  case feeNegotiation =>
    refine ⟨?_, fun hf => by cases hf⟩
    split at h
    · cases h
    · split at h <;> first | (simp only [Except.ok.injEq, Prod.mk.injEq] at h; obtain ⟨rfl, _⟩ := h; rfl) | cases h
  case finished =>
    simp only [Except.ok.injEq, Prod.mk.injEq] at h
    obtain ⟨rfl, _⟩ := h
    exact ⟨rfl, fun _ => rfl⟩
  all_goals cases h
theorem beginNegotiation_ok {p p' : Peer} {out : Option Msg} {b : Bool}
    (h : p.beginNegotiation = .ok (p', out, b)) :
    p'.script = p.script ∧ p.st ≠ .finished := by
  unfold Peer.beginNegotiation at h
  split at h
  · rename_i hst
    refine ⟨?_, by rw [hst]; decide⟩
    split at h
    · split at h
      · simp only [Except.ok.injEq, Prod.mk.injEq] at h
        obtain ⟨rfl, _⟩ := h
        rfl
      · exact (recvCS_ok h).1
    · split at h
      · cases h
      · simp only [Except.ok.injEq, Prod.mk.injEq] at h
        obtain ⟨rfl, _⟩ := h
        rfl
  · cases h

/-- a scheduler step never changes a delivery script and never touches a finished closer. -/
theorem step_peer {s s' : Sys} {ev : Ev} (h : s.step ev = some s') (w : Who) :
    (s'.peer w).script = (s.peer w).script ∧ ((s.peer w).st = .finished → s'.peer w = s.peer w) := by
  unfold Sys.step at h
  split at h
  · cases h
  · cases ev with
    | userClose w' =>
      simp only at h
      split at h
      · cases h
      · rename_i p m hsc
        obtain ⟨h1, h2, _, _⟩ := shutdownChan_ok hsc
        cases h
        cases w' <;> cases w <;> simp only [Sys.put, Sys.peer] at h1 h2 ⊢ <;>
          first | exact ⟨h1, fun hf => by rw [h2] at hf; cases hf⟩ | exact ⟨rfl, fun _ => rfl⟩ | simp
    | flush w' =>
      simp only at h
      split at h
      · cases h
      · split at h
        · cases h
          cases w <;> exact ⟨rfl, fun _ => rfl⟩
        · rename_i p out proc hbn
          obtain ⟨h1, h2⟩ := beginNegotiation_ok hbn
          cases h
          cases w' <;> cases w <;> simp only [Sys.put, Sys.peer] at h1 h2 ⊢ <;>
            first | exact ⟨h1, fun hf => absurd hf h2⟩ | exact ⟨rfl, fun _ => rfl⟩ | simp
    | deliver w' =>
      simp only at h
      split at h
      · cases h
      · rename_i m rest hq
        split at h
        · -- shutdown
          split at h
          · cases h
            cases w' <;> cases w <;> exact ⟨rfl, fun _ => rfl⟩
          · rename_i p out hrs
            obtain ⟨h1, h2⟩ := receiveShutdown_ok hrs
            cases h
            cases w' <;> cases w <;> simp only [Sys.put, Sys.peer] at h1 h2 ⊢ <;>
              first | exact ⟨h1, fun hf => absurd hf h2⟩ | exact ⟨rfl, fun _ => rfl⟩ | simp
        · split at h
          · cases h
            cases w' <;> cases w <;> exact ⟨rfl, fun _ => rfl⟩
          · rename_i p out proc hrc
            obtain ⟨h1, h2⟩ := recvCS_ok hrc
            cases h
            cases w' <;> cases w <;> simp only [Sys.put, Sys.peer] at h1 h2 ⊢ <;>
              first | exact ⟨h1, h2⟩ | exact ⟨rfl, fun _ => rfl⟩ | simp

/-! ### a restart without a close tx on record is a fresh start with the recorded scripts -/

theorem runEvs_append (a b : List Ev) (s : Sys) :
    Sys.runEvs (a ++ b) s = (Sys.runEvs a s).bind (Sys.runEvs b) := by
  induction a generalizing s with
  | nil => simp [Sys.runEvs]
  | cons e a ih =>
    simp only [List.cons_append, Sys.runEvs]
    cases s.step e <;> simp [ih]

/-- the idle closer `peer` re-creates for one side: from the `ShutdownInfo` on record (with the
    recorded delivery script), else the ordinary fresh closer. -/
def reSide (d : Db) (fresh0 fresh1 : Peer) : Peer :=
  match d.info with
  | none => fresh0
  | some (sc, _) => { fresh1 with script := sc }

/-- both re-created closers, idle, nothing in flight. -/
def RSys.reSys (r : RSys) : Sys := { i := reSide r.dbI r.i0 r.i1, r := reSide r.dbR r.r0 r.r1 }

/-- the close requests `peer` issues on reconnect: one per side with a `ShutdownInfo` on record. -/
def RSys.reEvs (r : RSys) : List Ev :=
  (if r.dbI.info.isSome then [Ev.userClose .I] else []) ++
  (if r.dbR.info.isSome then [Ev.userClose .R] else [])

/-- `restart_eq_closes`: with no co-op close tx on record, the state after a connection drop is
    exactly the state the idle system of the re-created closers reaches by the local close
    requests of the sides that had sent a Shutdown before (either, both — then the Shutdowns
    cross — or none). -/
theorem restart_eq_closes (r : RSys) (hi : r.i1.st = .idle) (hr : r.r1.st = .idle)
    (hg : r.goneI = false ∧ r.goneR = false) (ht : r.dbI.tx = none ∧ r.dbR.tx = none) :
    Sys.runEvs r.reEvs r.reSys = some r.restart.s := by
  obtain ⟨hgI, hgR⟩ := hg
  obtain ⟨htI, htR⟩ := ht
  cases hiI : r.dbI.info with
  | none =>
    cases hiR : r.dbR.info with
    | none =>
      simp [RSys.reEvs, RSys.reSys, reSide, RSys.restart, restartSide, Sys.runEvs, hiI, hiR, hgI, hgR, htI, htR]
    | some x =>
      obtain ⟨sc, l⟩ := x
      simp [RSys.reEvs, RSys.reSys, reSide, RSys.restart, restartSide, Sys.runEvs, Sys.step, Sys.peer, Sys.put,
        Peer.shutdownChan, hiI, hiR, hgI, hgR, htI, htR, hi, hr]
  | some x =>
    obtain ⟨sc, l⟩ := x
    cases hiR : r.dbR.info with
    | none =>
      simp [RSys.reEvs, RSys.reSys, reSide, RSys.restart, restartSide, Sys.runEvs, Sys.step, Sys.peer, Sys.put,
        Peer.shutdownChan, hiI, hiR, hgI, hgR, htI, htR, hi, hr]
    | some y =>
      obtain ⟨sc', l'⟩ := y
      simp [RSys.reEvs, RSys.reSys, reSide, RSys.restart, restartSide, Sys.runEvs, Sys.step, Sys.peer, Sys.put,
        Peer.shutdownChan, hiI, hiR, hgI, hgR, htI, htR, hi, hr]

/--
`close_after_restart`: the connection drops at an arbitrary point of a close (state `r`; no co-op
close tx on record yet) and is re-established. If the closers `peer` re-creates from the database
are two honest closers `c` (the recorded delivery scripts, the re-estimated ideal fees, default
fee cap) whose negotiation agrees on `f` within `B` deliveries, then for EVERY schedule after the
reconnect: nothing fails, at most `B` closing_signed are processed, the schedule has at most
`6 + B` events, and it can only stop in agreement on `f`.
-/
theorem close_after_restart (c : Cfg) (hon : Honest c) (B : Nat) (f : Int)
    (hT : (Net.run B c.net0).Agreed f) (r : RSys) (hre : r.reSys = c.init)
    (hi : r.i1.st = .idle) (hr : r.r1.st = .idle)
    (hg : r.goneI = false ∧ r.goneR = false) (ht : r.dbI.tx = none ∧ r.dbR.tx = none)
    (evs : List Ev) (s : Sys) (hrun : Sys.runEvs evs r.restart.s = some s) :
    s.failed = none ∧ s.delivered ≤ B ∧ evs.length ≤ 6 + B ∧ (s.Quiescent → s.Agreed f) := by
  have h1 := restart_eq_closes r hi hr hg ht
  have h2 : Sys.runEvs (r.reEvs ++ evs) c.init = some s := by
    rw [runEvs_append, ← hre, h1]; exact hrun
  obtain ⟨a, b, cc, d⟩ := close_any_order c hon B f hT _ s h2
  exact ⟨a, b, by simp only [List.length_append] at cc; omega, d⟩

/-! ### the database along every run, across any number of restarts -/

/-- one side: its closer `p`, its database record `d`, the closers `peer` would re-create. -/
structure SideInv (sc : Script) (p : Peer) (d : Db) (f0 f1 : Peer) : Prop where
  f0idle : f0.st = .idle
  f1idle : f1.st = .idle
  f0sc : f0.script = sc
  /-- the delivery script of the close never changes -/
  psc : p.script = sc
  /-- the `ShutdownInfo` on record names it -/
  info : ∀ x l, d.info = some (x, l) → x = sc
  /-- and is on record as soon as the closer left closeIdle (a Shutdown was sent) -/
  sent : p.st ≠ .idle → d.info.isSome = true
  /-- the close tx on record is the one the closer completed the close with -/
  tx : d.tx = if p.st = .finished then p.node.done else none

theorem update_info (d : Db) (p p' : Peer) (loc : Bool) :
    (d.update p p' loc).info = if p.st = .idle ∧ p'.st ≠ .idle then some (p'.script, loc) else d.info := by
  unfold Db.update
  by_cases h1 : p.st = .idle ∧ p'.st ≠ .idle
  · by_cases h2 : p.st ≠ .finished ∧ p'.st = .finished
    · simp only [if_pos h1, if_pos h2]
    · simp only [if_pos h1, if_neg h2]
  · by_cases h2 : p.st ≠ .finished ∧ p'.st = .finished
    · simp only [if_neg h1, if_pos h2]
    · simp only [if_neg h1, if_neg h2]

theorem update_tx (d : Db) (p p' : Peer) (loc : Bool) :
    (d.update p p' loc).tx = if p.st ≠ .finished ∧ p'.st = .finished then p'.node.done else d.tx := by
  unfold Db.update
  by_cases h1 : p.st = .idle ∧ p'.st ≠ .idle
  · by_cases h2 : p.st ≠ .finished ∧ p'.st = .finished
    · simp only [if_pos h1, if_pos h2]
    · simp only [if_pos h1, if_neg h2]
  · by_cases h2 : p.st ≠ .finished ∧ p'.st = .finished
    · simp only [if_neg h1, if_pos h2]
    · simp only [if_neg h1, if_neg h2]

theorem sideInv_update {sc : Script} {p p' : Peer} {d : Db} {f0 f1 : Peer} (loc : Bool)
    (h : SideInv sc p d f0 f1) (hs : p'.script = p.script) (hf : p.st = .finished → p' = p) :
    SideInv sc p' (d.update p p' loc) f0 f1 := by
  obtain ⟨a1, a2, a3, a4, a5, a6, a7⟩ := h
  by_cases hfin : p.st = .finished
  · have := hf hfin
    subst this
    have : d.update p' p' loc = d := by simp [Db.update, hfin]
    rw [this]
    exact ⟨a1, a2, a3, a4, a5, a6, a7⟩
  · refine ⟨a1, a2, a3, hs.trans a4, ?_, ?_, ?_⟩
    · intro x l hx
      rw [update_info] at hx
      split at hx
      · simp only [Option.some.injEq, Prod.mk.injEq] at hx
        rw [← hx.1, hs, a4]
      · exact a5 x l hx
    · intro hne
      rw [update_info]
      split
      · rfl
      · rename_i h1
        apply a6
        intro hid
        exact h1 ⟨hid, hne⟩
    · rw [update_tx]
      have ht : d.tx = none := by rw [a7]; simp [hfin]
      by_cases h2 : p'.st = .finished
      · simp [hfin, h2]
      · simp [h2, ht]

theorem sideInv_restart {sc : Script} {p : Peer} {d : Db} {f0 f1 : Peer} (gone loc : Bool)
    (h : SideInv sc p d f0 f1) : SideInv sc (restartSide gone d p f0 f1 loc).1 d f0 f1 := by
  obtain ⟨a1, a2, a3, a4, a5, a6, a7⟩ := h
  unfold restartSide
  by_cases hg : (gone || d.tx.isSome) = true
  · simp only [hg, if_true]
    exact ⟨a1, a2, a3, a4, a5, a6, a7⟩
  · simp only [hg, if_false]
    have htx : d.tx = none := by
      cases ht : d.tx with
      | none => rfl
      | some g => simp [ht] at hg
    cases hi : d.info with
    | none =>
      simp only
      exact ⟨a1, a2, a3, a3, a5, fun hne => absurd a1 hne, by rw [htx]; simp [a1]⟩
    | some x =>
      obtain ⟨y, l⟩ := x
      have hy : y = sc := a5 y l hi
      simp only [Peer.shutdownChan, a2, ne_eq, not_true_eq_false, if_false]
      exact ⟨a1, a2, a3, hy, a5, fun _ => by simp [hi], by rw [htx]; simp⟩

/-- both sides. -/
def RInv (sI sR : Script) (r : RSys) : Prop :=
  SideInv sI r.s.i r.dbI r.i0 r.i1 ∧ SideInv sR r.s.r r.dbR r.r0 r.r1

theorem rinv_step {sI sR : Script} {r r' : RSys} {e : REv} (h : RInv sI sR r) (hs : r.step e = some r') :
    RInv sI sR r' := by
  obtain ⟨hI, hR⟩ := h
  cases e with
  | restart =>
    simp only [RSys.step] at hs
    split at hs
    · cases hs
    · cases hs
      exact ⟨sideInv_restart _ _ hI, sideInv_restart _ _ hR⟩
  | ev e =>
    simp only [RSys.step] at hs
    split at hs
    · split at hs
      · cases hs
      · split at hs
        · split at hs
          · cases hs
          · cases hs; exact ⟨hI, hR⟩
        · split at hs
          · cases hs
          · cases hs; exact ⟨hI, hR⟩
        · cases hs
    · split at hs
      · cases hs
      · rename_i s' hst
        cases hs
        have pI := step_peer hst .I
        have pR := step_peer hst .R
        exact ⟨sideInv_update _ hI pI.1 pI.2, sideInv_update _ hR pR.1 pR.2⟩

/--
`restart_inv`: two closers with delivery scripts `sI` / `sR`, empty databases, any schedule of
close requests, deliveries, flush notifications and ANY number of connection drops at arbitrary
points. In every reachable state, on both sides: the closer's delivery script is still the
original one (also the closer re-created after a restart); a `ShutdownInfo` on record names that
script and is on record whenever the closer has left closeIdle (so the Shutdown sent again after a
restart is the same Shutdown); the co-op close tx on record is present iff the closer is in
closeFinished and is the transaction the closer completed the close with (so what the chain
arbitrator re-broadcasts after a restart is the transaction both sides signed).
-/
theorem restart_inv (s0 : Sys) (i1 r1 : Peer)
    (h0 : s0.i.st = .idle ∧ s0.r.st = .idle) (h1 : i1.st = .idle ∧ r1.st = .idle)
    (evs : List REv) (r : RSys) (hrun : RSys.run evs (RSys.init s0 i1 r1) = some r) :
    RInv s0.i.script s0.r.script r := by
  have hinit : RInv s0.i.script s0.r.script (RSys.init s0 i1 r1) := by
    refine ⟨⟨h0.1, h1.1, rfl, rfl, ?_, ?_, ?_⟩, ⟨h0.2, h1.2, rfl, rfl, ?_, ?_, ?_⟩⟩ <;>
      simp [RSys.init, h0.1, h0.2]
  have gen : ∀ (evs : List REv) (a b : RSys), RInv s0.i.script s0.r.script a → RSys.run evs a = some b →
      RInv s0.i.script s0.r.script b := by
    intro evs
    induction evs with
    | nil => intro a b ha hr; simp [RSys.run] at hr; subst hr; exact ha
    | cons e es ih =>
      intro a b ha hr
      simp only [RSys.run] at hr
      cases hst : a.step e with
      | none => rw [hst] at hr; cases hr
      | some a' =>
        rw [hst] at hr
        exact ih a' b (rinv_step ha hst) hr
  exact gen evs _ r hinit hrun

/-- in agreement both databases hold the transaction of the agreed fee: the two sides re-broadcast
    the same transaction. -/
theorem agreed_same_tx_on_record {sI sR : Script} {r : RSys} {f : Int} (h : RInv sI sR r)
    (ha : r.s.Agreed f) : r.dbI.tx = some f ∧ r.dbR.tx = some f := by
  obtain ⟨_, _, _, hi, hr, di, dr, _, _⟩ := ha
  exact ⟨by rw [h.1.tx, hi, di]; simp, by rw [h.2.tx, hr, dr]; simp⟩

/-- a Shutdown sent again after a restart carries the original delivery script. -/
theorem resend_same_script {sI sR : Script} {r : RSys} (h : RInv sI sR r) (m : Msg) :
    (m ∈ r.restart.s.toR → m = .shutdown sI r.i1.node.taproot) ∧
    (m ∈ r.restart.s.toI → m = .shutdown sR r.r1.node.taproot) := by
  have key : ∀ (sc : Script) (p : Peer) (d : Db) (f0 f1 : Peer) (gone loc : Bool), SideInv sc p d f0 f1 →
      ∀ m, m ∈ (restartSide gone d p f0 f1 loc).2.1.toList → m = .shutdown sc f1.node.taproot := by
    intro sc p d f0 f1 gone loc hs m hm
    unfold restartSide at hm
    split at hm
    · simp at hm
    · cases hi : d.info with
      | none => simp [hi] at hm
      | some x =>
        obtain ⟨y, l⟩ := x
        have hy : y = sc := hs.info y l hi
        simp [hi, Peer.shutdownChan, hs.f1idle, Peer.shutdownMsg] at hm
        rw [hm, hy]
  exact ⟨fun h1 => key _ _ _ _ _ _ _ h.1 m h1, fun h2 => key _ _ _ _ _ _ _ h.2 m h2⟩

/-! ### the capstone: a close interrupted by a connection drop, end to end -/

theorem rinv_run {sI sR : Script} : ∀ (evs : List REv) (a b : RSys), RInv sI sR a → RSys.run evs a = some b →
    RInv sI sR b := by
  intro evs
  induction evs with
  | nil => intro a b ha hr; simp [RSys.run] at hr; subst hr; exact ha
  | cons e es ih =>
    intro a b ha hr
    simp only [RSys.run] at hr
    cases hst : a.step e with
    | none => rw [hst] at hr; cases hr
    | some a' =>
      rw [hst] at hr
      exact ih a' b (rinv_step ha hst) hr

/-- while both channels are loaded, a restart-free run of the system with databases is a run of the
    scheduler model. -/
theorem run_proj : ∀ (post : List Ev) (r r2 : RSys), r.goneI = false → r.goneR = false →
    RSys.run (post.map .ev) r = some r2 →
    Sys.runEvs post r.s = some r2.s ∧ r2.goneI = false ∧ r2.goneR = false := by
  intro post
  induction post with
  | nil => intro r r2 hI hR h; simp [RSys.run] at h; subst h; exact ⟨rfl, hI, hR⟩
  | cons e es ih =>
    intro r r2 hI hR h
    simp only [List.map_cons, RSys.run] at h
    have hg : r.gone e.who = false := by cases e <;> rename_i w <;> cases w <;> simp [Ev.who, RSys.gone, hI, hR]
    cases hst : r.step (.ev e) with
    | none => rw [hst] at h; cases h
    | some r' =>
      rw [hst] at h
      simp only [Option.bind_some] at h
      simp only [RSys.step, hg, Bool.false_eq_true, if_false] at hst
      cases hs : r.s.step e with
      | none => rw [hs] at hst; cases hst
      | some s' =>
        rw [hs] at hst
        simp only [Option.some.injEq] at hst
        subst hst
        have key := fun hh1 hh2 => ih _ r2 hh1 hh2 h
        obtain ⟨a, b, c⟩ := key hI hR
        exact ⟨by simp only [Sys.runEvs, hs, Option.bind_some]; exact a, b, c⟩

/--
`close_any_order_with_restart` — the legacy close of two honest closers `c` (whose negotiation
agrees on `f` within `B` deliveries; `peer` re-creates closers with the same fee parameters),
interrupted by a connection drop: ANY schedule `pre` (which may itself contain earlier restarts)
up to a point where no co-op close tx is on record, the restart, then ANY schedule `post`.
Nothing fails after the restart, at most `B` closing_signed are processed and `post` has at most
`6 + B` events; whenever nothing more is enabled, both closers completed the close with `f`, both
signed `f`, and BOTH databases hold the transaction for `f` — the transaction each side
re-broadcasts after any later restart is the same one. Throughout, each side's delivery script is
the original one (`restart_inv`).
-/
theorem close_any_order_with_restart (c : Cfg) (hon : Honest c) (B : Nat) (f : Int)
    (hT : (Net.run B c.net0).Agreed f) (pre : List REv) (post : List Ev) (r1 r2 : RSys)
    (h1 : RSys.run pre (RSys.init c.init c.init.i c.init.r) = some r1)
    (hnt : r1.dbI.tx = none ∧ r1.dbR.tx = none) (hng : r1.goneI = false ∧ r1.goneR = false)
    (h2 : RSys.run (post.map .ev) r1.restart = some r2) :
    r2.s.failed = none ∧ r2.s.delivered ≤ B ∧ post.length ≤ 6 + B ∧
    (r2.s.Quiescent → r2.s.Agreed f ∧ r2.dbI.tx = some f ∧ r2.dbR.tx = some f) := by
  have hidle : c.init.i.st = .idle ∧ c.init.r.st = .idle := ⟨rfl, rfl⟩
  have inv1 : RInv c.init.i.script c.init.r.script r1 := restart_inv c.init _ _ hidle hidle pre r1 h1
  -- the constant parts of the record
  have const : ∀ (evs : List REv) (a b : RSys), RSys.run evs a = some b →
      b.i0 = a.i0 ∧ b.i1 = a.i1 ∧ b.r0 = a.r0 ∧ b.r1 = a.r1 := by
    intro evs
    induction evs with
    | nil => intro a b h; simp [RSys.run] at h; subst h; exact ⟨rfl, rfl, rfl, rfl⟩
    | cons e es ih =>
      intro a b h
      simp only [RSys.run] at h
      cases hst : a.step e with
      | none => rw [hst] at h; cases h
      | some a' =>
        rw [hst] at h
        obtain ⟨x1, x2, x3, x4⟩ := ih a' b h
        have : a'.i0 = a.i0 ∧ a'.i1 = a.i1 ∧ a'.r0 = a.r0 ∧ a'.r1 = a.r1 := by
          cases e with
          | restart =>
            simp only [RSys.step] at hst
            split at hst
            · cases hst
            · cases hst; exact ⟨rfl, rfl, rfl, rfl⟩
          | ev e =>
            simp only [RSys.step] at hst
            split at hst
            · split at hst
              · cases hst
              · split at hst
                · split at hst
                  · cases hst
                  · cases hst; exact ⟨rfl, rfl, rfl, rfl⟩
                · split at hst
                  · cases hst
                  · cases hst; exact ⟨rfl, rfl, rfl, rfl⟩
                · cases hst
            · split at hst
              · cases hst
              · cases hst; exact ⟨rfl, rfl, rfl, rfl⟩
        exact ⟨x1.trans this.1, x2.trans this.2.1, x3.trans this.2.2.1, x4.trans this.2.2.2⟩
  obtain ⟨e0, e1, e2, e3⟩ := const pre _ r1 h1
  simp only [RSys.init] at e0 e1 e2 e3
  -- what `peer` re-creates is the idle system of `c`
  have side : ∀ (sc : Script) (p : Peer) (d : Db) (f0 : Peer), SideInv sc p d f0 f0 → reSide d f0 f0 = f0 := by
    intro sc p d f0 hs
    unfold reSide
    cases hi : d.info with
    | none => rfl
    | some x =>
      obtain ⟨y, l⟩ := x
      have : y = f0.script := (hs.info y l hi).trans hs.f0sc.symm
      simp [this]
  have hre : r1.reSys = c.init := by
    have hI := inv1.1
    have hR := inv1.2
    rw [e0, e1] at hI
    rw [e2, e3] at hR
    simp only [RSys.reSys, e0, e1, e2, e3, side _ _ _ _ hI, side _ _ _ _ hR]
    rfl
  have sgone : ∀ (d : Db) (p f0 f1 : Peer) (loc : Bool), d.tx = none →
      (restartSide false d p f0 f1 loc).2.2.1 = false := by
    intro d p f0 f1 loc ht
    unfold restartSide
    simp only [ht, Option.isSome_none, Bool.or_self, Bool.false_eq_true, if_false]
    cases d.info with
    | none => rfl
    | some x =>
      obtain ⟨y, l⟩ := x
      simp only
      split <;> rfl
  have hgone : r1.restart.goneI = false ∧ r1.restart.goneR = false := by
    constructor
    · have := sgone r1.dbI r1.s.i r1.i0 r1.i1 r1.locI hnt.1
      simpa [RSys.restart, hng.1] using this
    · have := sgone r1.dbR r1.s.r r1.r0 r1.r1 r1.locR hnt.2
      simpa [RSys.restart, hng.2] using this
  obtain ⟨hp, _, _⟩ := run_proj post r1.restart r2 hgone.1 hgone.2 h2
  have hi1 : r1.i1.st = .idle := by rw [e1]; rfl
  have hr1 : r1.r1.st = .idle := by rw [e3]; rfl
  obtain ⟨a, b, cc, d⟩ := close_after_restart c hon B f hT r1 hre hi1 hr1 hng hnt post r2.s hp
  have inv2 : RInv c.init.i.script c.init.r.script r2 :=
    rinv_run _ _ _ ⟨sideInv_restart _ _ inv1.1, sideInv_restart _ _ inv1.2⟩ h2
  exact ⟨a, b, cc, fun hq => ⟨d hq, agreed_same_tx_on_record inv2 (d hq)⟩⟩

/-! ### non-vacuity -/

set_option maxRecDepth 16384 in
/-- a concrete run: I requests the close, R answers, both are flushed and negotiate (1000 / 1200
    sat); the connection drops after I's first offer was sent; both sides re-send their Shutdown
    with the recorded scripts (crossing), are flushed again and agree on 1200, which both record. -/
example :
    (RSys.run [.ev (.userClose .I), .ev (.deliver .R), .ev (.deliver .I), .ev (.flush .I), .restart,
               .ev (.deliver .I), .ev (.deliver .R), .ev (.flush .I), .ev (.flush .R), .ev (.deliver .R),
               .ev (.deliver .I), .ev (.deliver .R), .ev (.deliver .I)]
        (RSys.init (legacyCfg 1000 1200 3000 500000 3600 false (0 :: 20 :: List.replicate 20 1)
                      (0 :: 20 :: List.replicate 20 2) [] []).init
          (legacyCfg 1000 1200 3000 500000 3600 false (0 :: 20 :: List.replicate 20 1)
                      (0 :: 20 :: List.replicate 20 2) [] []).init.i
          (legacyCfg 1000 1200 3000 500000 3600 false (0 :: 20 :: List.replicate 20 1)
                      (0 :: 20 :: List.replicate 20 2) [] []).init.r)).map
      (fun r => (r.s.i.st, r.s.r.st, r.dbI.tx, r.dbR.tx, r.dbI.info.map (·.2), r.dbR.info.map (·.2), r.s.failed)) =
      some (.finished, .finished, some 1200, some 1200, some true, some false, none) := by
  rfl

set_option maxRecDepth 16384 in
/-- the hypotheses of `close_after_restart` are satisfiable: the connection drops after I's first
    offer; both sides have a `ShutdownInfo` and no close tx on record, and what `peer` re-creates
    is the idle system of the same two honest closers. -/
example :
    ∃ r, RSys.run [.ev (.userClose .I), .ev (.deliver .R), .ev (.deliver .I), .ev (.flush .I)]
        (RSys.init (legacyCfg 1000 1200 3000 500000 3600 false (0 :: 20 :: List.replicate 20 1)
                      (0 :: 20 :: List.replicate 20 2) [] []).init
          (legacyCfg 1000 1200 3000 500000 3600 false (0 :: 20 :: List.replicate 20 1)
                      (0 :: 20 :: List.replicate 20 2) [] []).init.i
          (legacyCfg 1000 1200 3000 500000 3600 false (0 :: 20 :: List.replicate 20 1)
                      (0 :: 20 :: List.replicate 20 2) [] []).init.r) = some r ∧
      r.reSys = (legacyCfg 1000 1200 3000 500000 3600 false (0 :: 20 :: List.replicate 20 1)
                      (0 :: 20 :: List.replicate 20 2) [] []).init ∧
      r.reEvs = [.userClose .I, .userClose .R] ∧ r.s.toR ≠ [] ∧
      r.goneI = false ∧ r.goneR = false ∧ r.dbI.tx = none ∧ r.dbR.tx = none :=
  ⟨_, rfl, rfl, rfl, by decide, rfl, rfl, rfl, rfl⟩

end LndModel.C17
