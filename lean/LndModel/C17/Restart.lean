/-
C17 — persistence and restart of the legacy co-op close (core Lean only):

* what a `ChanCloser` writes to the channel database: `MarkShutdownSent(ShutdownInfo{delivery
  script, locally initiated})` in `initChanShutdown` (reached from `ShutdownChan` and from the
  closeIdle arm of `ReceiveShutdown`), and `MarkCoopBroadcasted(closeTx, closer)` in
  `ReceiveClosingSigned` right after `CompleteCooperativeClose` and before `BroadcastTx`
  (`ChanStatusCoopBroadcasted` + `ChanStatusLocalCloseInitiator` / `RemoteCloseInitiator` + the tx)
* what `peer/brontide.go` does with it after the connection dropped (`loadActiveChannels`,
  `restartCoopClose`): messages in flight are lost, both closer objects are gone; a side with a
  co-op close tx on record does not load the channel any more (the chain arbitrator re-broadcasts
  the recorded tx), a side with a `ShutdownInfo` on record creates a new closer from it (persisted
  delivery script, persisted `closer`, default max fee) and sends its Shutdown again, a side with
  neither is idle again.

The database view `Db` is a function of the before / after closer of every step (`Db.update`), so
the real database can be compared with it after every event of the `sched` stream.
-/
import LndModel.C17.Closer

namespace LndModel.C17

/-- the close-related part of one side's channel database record. -/
structure Db where
  /-- `ShutdownInfo`: delivery script, `LocalInitiator`. -/
  info : Option (Script × Bool) := none
  /-- the recorded co-op close tx, identified by its fee (the transaction itself is a function of
      the fee, the channel state and the two delivery scripts: `closeProposal`). -/
  tx : Option Int := none
  coop : Bool := false    -- ChanStatusCoopBroadcasted
  li : Bool := false      -- ChanStatusLocalCloseInitiator
  ri : Bool := false      -- ChanStatusRemoteCloseInitiator
  deriving DecidableEq, Repr

/-- the database after one closer call that took the closer from `before` to `after`; `loc` is
    the `closer` argument the closer object was created with (`lntypes.Local` = true). -/
def Db.update (d : Db) (before after : Peer) (loc : Bool) : Db :=
  let d1 : Db := if before.st = .idle ∧ after.st ≠ .idle then { d with info := some (after.script, loc) } else d
  if before.st ≠ .finished ∧ after.st = .finished then
    { d1 with tx := after.node.done, coop := true, li := d1.li || loc, ri := d1.ri || !loc }
  else d1

/-- two closers with their databases, across connection drops. -/
structure RSys where
  s : Sys
  /-- the fresh closer `peer` creates for a local close request or on receipt of a Shutdown. -/
  i0 : Peer
  r0 : Peer
  /-- the fresh closer `peer` creates from a `ShutdownInfo` after a restart (no close request, so
      the default max fee); its delivery script is replaced by the recorded one. -/
  i1 : Peer
  r1 : Peer
  /-- the `closer` argument of the current closer object. -/
  locI : Bool := false
  locR : Bool := false
  dbI : Db := {}
  dbR : Db := {}
  /-- the channel is not loaded any more (a co-op close tx is on record). -/
  goneI : Bool := false
  goneR : Bool := false
  /-- closing_signed processed before the last restart. -/
  deliveredBefore : Nat := 0
  deriving DecidableEq, Repr

inductive REv where
  | ev (e : Ev)
  | restart
  deriving DecidableEq, Repr

def Ev.who : Ev → Who
  | .userClose w => w
  | .deliver w => w
  | .flush w => w

def RSys.gone (r : RSys) : Who → Bool
  | .I => r.goneI
  | .R => r.goneR

def RSys.db (r : RSys) : Who → Db
  | .I => r.dbI
  | .R => r.dbR

/-- one side after a reconnect: (closer, Shutdown sent again, channel not loaded, `closer`). -/
def restartSide (gone : Bool) (d : Db) (old fresh0 fresh1 : Peer) (loc : Bool) :
    Peer × Option Msg × Bool × Bool :=
  if gone || d.tx.isSome then (old, none, true, loc)
  else
    match d.info with
    | none => (fresh0, none, false, false)
    | some (sc, l) =>
      match ({ fresh1 with script := sc } : Peer).shutdownChan with
      | .ok (p, m) => (p, some m, false, l)
      | .error _ => (fresh1, none, false, l)

/-- the connection drops and is re-established. -/
def RSys.restart (r : RSys) : RSys :=
  let a := restartSide r.goneI r.dbI r.s.i r.i0 r.i1 r.locI
  let b := restartSide r.goneR r.dbR r.s.r r.r0 r.r1 r.locR
  { r with
    s := { i := a.1, r := b.1, toI := b.2.1.toList, toR := a.2.1.toList, failed := none, delivered := 0 },
    goneI := a.2.2.1, goneR := b.2.2.1, locI := a.2.2.2, locR := b.2.2.2,
    deliveredBefore := r.deliveredBefore + r.s.delivered }

/-- one step. A message addressed to a side whose channel is not loaded is dropped; that side has
    no other events. A restart is possible whenever the connection is not torn down by a failure. -/
def RSys.step (r : RSys) : REv → Option RSys
  | .restart => if r.s.failed.isSome then none else some r.restart
  | .ev e =>
    if r.gone e.who then
      if r.s.failed.isSome then none
      else
        match e with
        | .deliver .I =>
          match r.s.toI with
          | [] => none
          | _ :: rest => some { r with s := { r.s with toI := rest } }
        | .deliver .R =>
          match r.s.toR with
          | [] => none
          | _ :: rest => some { r with s := { r.s with toR := rest } }
        | _ => none
    else
      match r.s.step e with
      | none => none
      | some s' =>
        let locI := r.locI || (e == .userClose .I)
        let locR := r.locR || (e == .userClose .R)
        some { r with s := s', locI := locI, locR := locR,
                      dbI := r.dbI.update r.s.i s'.i locI, dbR := r.dbR.update r.s.r s'.r locR }

def RSys.run : List REv → RSys → Option RSys
  | [], r => some r
  | e :: es, r => (r.step e).bind (RSys.run es)

/-- idle closers, empty databases. -/
def RSys.init (s0 : Sys) (i1 r1 : Peer) : RSys :=
  { s := s0, i0 := s0.i, r0 := s0.r, i1 := i1, r1 := r1 }

end LndModel.C17
