/-
C17 — lemmas for the scheduler-level model (`Closer.lean`): every reachable state of two honest
closers under an ARBITRARY schedule is either one of the (few) shutdown / flush phase shapes
`mk1` or the image `mk2` of a state of the single-message negotiation model `Net`, and scheduler
steps of `mk2` states are exactly `Net.step`.
-/
import LndModel.C17.Closer
import LndModel.C17.Lemmas

namespace LndModel.C17

/-! ### facts about `Node.recv` / `Net` -/

theorem propose_fields {n n' : Node} {p : Int} (h : n.propose p = some n') :
    n'.isInit = n.isInit ∧ n'.taproot = n.taproot ∧ n'.done = n.done ∧ n'.ideal = n.ideal := by
  unfold Node.propose at h
  split at h
  · cases h
  · cases h; exact ⟨rfl, rfl, rfl, rfl⟩

/-- what `Node.recv` can return, and what it does to the fields the glue looks at. -/
theorem recv_cases (n : Node) (f : Int) :
    (n.recv f).1.isInit = n.isInit ∧ (n.recv f).1.taproot = n.taproot ∧
    (match (n.recv f).2 with
     | .send _ => n.done = none ∧ (n.recv f).1.done = none
     | .final _ => n.done = none ∧ (n.recv f).1.done.isSome = true
     | .silent => n.done.isSome = true ∧ (n.recv f).1 = n
     | .err _ => (n.recv f).1 = n) := by
  unfold Node.recv
  cases hd : n.done.isSome
  · have hdn : n.done = none := by simpa using hd
    simp only [Bool.false_eq_true, if_false]
    cases h1 : (n.taproot && !n.isInit)
    · simp only [Bool.false_eq_true, if_false]
      cases h2 : (n.taproot && !n.offers.contains f)
      · simp only [Bool.false_eq_true, if_false]
        cases h3 : n.offers.contains f
        · simp only [Bool.false_eq_true, if_false]
          cases h4 : (n.isInit && decide (calcCompromiseFee n.ideal n.last f > n.maxFee))
          · simp only [Bool.false_eq_true, if_false]
            cases hp : n.propose (calcCompromiseFee n.ideal n.last f) with
            | none => simp
            | some n' =>
              obtain ⟨a, b, c, _⟩ := propose_fields hp
              by_cases h5 : calcCompromiseFee n.ideal n.last f = f
              · simp [h5, a, b, hdn]
              · simp [h5, a, b, c, hdn]
          · simp
        · simp [hdn]
      · simp
    · simp only [if_true]
      cases hp : n.propose f with
      | none => simp
      | some n' =>
        obtain ⟨a, b, _, _⟩ := propose_fields hp
        simp [a, b, hdn]
  · simp

/-- well-formed two-party state: one opener, same channel type on both sides, a failure leaves
    nothing in flight. -/
structure NetWF (tap : Bool) (s : Net) : Prop where
  roles : s.rcv.isInit = !s.snd.isInit
  rtap : s.rcv.taproot = tap
  stap : s.snd.taproot = tap
  fail : s.failed.isSome = true → s.msg = none

theorem netWF_step {tap : Bool} {s : Net} (h : NetWF tap s) : NetWF tap s.step := by
  obtain ⟨hr, h1, h2, hf⟩ := h
  unfold Net.step
  cases hm : s.msg with
  | none => exact ⟨hr, h1, h2, hf⟩
  | some f =>
    have hc := recv_cases s.rcv f
    simp only
    rcases hrec : s.rcv.recv f with ⟨n, rep⟩
    rw [hrec] at hc
    obtain ⟨hi, ht, _⟩ := hc
    simp only at hi ht
    have hfm : ¬ s.failed.isSome = true := by
      intro hh; rw [hf hh] at hm; cases hm
    cases rep <;> simp only <;>
      refine ⟨by rw [hi, hr]; cases s.snd.isInit <;> rfl, h2, by rw [ht]; exact h1, ?_⟩
    · intro hh; exact absurd hh hfm
    · intro hh; exact absurd hh hfm
    · intro _; rfl
    · intro _; rfl

theorem netWF_run {tap : Bool} : ∀ (j : Nat) {s : Net}, NetWF tap s → NetWF tap (Net.run j s)
  | 0, _, h => h
  | j + 1, _, h => netWF_run j (netWF_step h)

/-- once nothing is in flight the run is over. -/
theorem run_absorb {s : Net} {j : Nat} (h : (Net.run j s).msg = none) (m : Nat) (hm : j ≤ m) :
    Net.run m s = Net.run j s := by
  obtain ⟨d, rfl⟩ := Nat.exists_eq_add_of_le hm
  rw [run_add, run_of_msg_none d h]

theorem run_succ (j : Nat) (s : Net) : Net.run (j + 1) s = (Net.run j s).step := by
  rw [run_add]; rfl

/-! ### the shapes -/

/-- the static data of a close: the two fresh closers and the shutdown scripts. -/
structure Cfg where
  opener : Node
  other : Node
  sI : Script
  sR : Script
  upI : Script := []    -- what the opener has on record as the other side's upfront script
  upR : Script := []
  deriving Repr

/-- two honest lnd nodes: roles, same channel type, fresh closers, each delivery script is valid
    and equals the upfront script the other side has on record (if any). -/
structure Honest (c : Cfg) : Prop where
  iInit : c.opener.isInit = true
  rInit : c.other.isInit = false
  tap : c.other.taproot = c.opener.taproot
  iDone : c.opener.done = none
  rDone : c.other.done = none
  vI : validateShutdownScript c.upI c.sR = none
  vR : validateShutdownScript c.upR c.sI = none

def Cfg.init (c : Cfg) : Sys := Sys.init c.opener c.other c.sI c.sR c.upI c.upR

/-- progress of one closer through the shutdown / flush phase. -/
inductive Pg where
  | p0 | p1 | p2 | p3
  deriving DecidableEq, Repr

def Pg.st : Pg → CState
  | .p0 => .idle
  | .p1 => .shutdownInitiated
  | .p2 => .awaitingFlush
  | .p3 => .feeNegotiation

def Pg.sent : Pg → Bool
  | .p0 => false
  | _ => true

def Pg.got : Pg → Bool
  | .p2 => true
  | .p3 => true
  | _ => false

def Pg.rank : Pg → Nat
  | .p0 => 0 | .p1 => 1 | .p2 => 2 | .p3 => 3

/-- the state of the two closers in the shutdown / flush phase as a function of the two progress
    values and "the opener's first offer is cached at the other side". `o'` is the opener after
    signing its ideal fee. -/
def mk1 (c : Cfg) (o' : Node) (pI pR : Pg) (cd : Bool) : Sys :=
  { i := { st := pI.st, node := if pI = .p3 then o' else c.opener, cached := none,
           script := c.sI, upfrontRemote := c.upI, remoteScript := if pI.got then c.sR else [] },
    r := { st := pR.st, node := c.other,
           cached := if cd then some (c.opener.ideal, c.opener.taproot) else none,
           script := c.sR, upfrontRemote := c.upR, remoteScript := if pR.got then c.sI else [] },
    toI := if pR.sent && !pI.got then [.shutdown c.sR c.opener.taproot] else [],
    toR := (if pI.sent && !pR.got then [.shutdown c.sI c.opener.taproot] else []) ++
           (if pI = .p3 && !cd then [.closingSigned c.opener.ideal c.opener.taproot] else []),
    failed := none, delivered := 0 }

/-- consistent progress pairs. -/
def V (pI pR : Pg) (cd : Bool) : Prop :=
  (pI.got = true → pR.sent = true) ∧ (pR.got = true → pI.sent = true) ∧
  (cd = true → pI = .p3 ∧ pR = .p2)

instance (pI pR : Pg) (cd : Bool) : Decidable (V pI pR cd) := by unfold V; exact inferInstance

/-- the abstract transition table of the shutdown / flush phase (the cached replay at `flush R`
    is handled separately). -/
def next1 (pI pR : Pg) (cd : Bool) : Ev → Option (Pg × Pg × Bool)
  | .userClose .I => if pI = .p0 then some (.p1, pR, cd) else none
  | .userClose .R => if pR = .p0 then some (pI, .p1, cd) else none
  | .deliver .I => if pR.sent && !pI.got then some (.p2, pR, cd) else none
  | .deliver .R =>
    if pI.sent && !pR.got then some (pI, .p2, cd)
    else if pI = .p3 && !cd && pR = .p2 then some (pI, pR, true) else none
  | .flush .I => if pI = .p2 then some (.p3, pR, cd) else none
  | .flush .R => if pR = .p2 && !cd then some (pI, .p3, cd) else none

/-- a closer in the negotiation phase. -/
def peerOf (n : Node) (script up rs : Script) (cached : Option (Int × Bool)) : Peer :=
  { st := if n.done.isSome then .finished else .feeNegotiation, node := n, cached := cached,
    script := script, upfrontRemote := up, remoteScript := rs }

/-- the scheduler-level state that corresponds to a `Net` state. -/
def mk2 (c : Cfg) (net : Net) (rc : Option (Int × Bool)) : Sys :=
  let m := (net.msg.map (fun f => Msg.closingSigned f c.opener.taproot)).toList
  { i := peerOf (if net.rcv.isInit then net.rcv else net.snd) c.sI c.upI c.sR none,
    r := peerOf (if net.rcv.isInit then net.snd else net.rcv) c.sR c.upR c.sI rc,
    toI := if net.rcv.isInit then m else [],
    toR := if net.rcv.isInit then [] else m,
    failed := net.failed.map .neg, delivered := net.delivered }

def rcvWho (net : Net) : Who := if net.rcv.isInit then .I else .R

end LndModel.C17
