/-
C17 — theorems about the transaction-building glue (`Closer.lean`, second half):
`CreateCloseProposal` and `CompleteCooperativeClose` as two functions with duplicated plumbing and
their own dust-limit arguments, swap symmetry of `CreateCooperativeCloseTx` for asymmetric dust
limits, exact value conservation, repeated RBF iterations, shutdown-script validation.
-/
import LndModel.C17.Closer
import LndModel.C17.Props

set_option linter.unusedSimpArgs false

namespace LndModel.C17

/-! ## `CreateCooperativeCloseTx`: dust rule per argument, swap symmetry -/

/--
`close_tx_outputs_iff`: for ALL dust-limit pairs (asymmetric included), balances, scripts and
options: an output is in the transaction `CreateCooperativeCloseTx` builds iff it is the first
party's (its balance reaches the FIRST dust argument) or the second party's (SECOND dust argument);
there are no other outputs and none is duplicated.
-/
theorem close_tx_outputs_iff (o : TxOpts) (ld rd our their : Int) (ls rs : Script) (lop rop : Bool)
    (x : TxOut) :
    (x ∈ (createCloseTx o ld rd our their ls rs lop rop).outs ↔
      (ld ≤ our ∧ x = ⟨if o.customSeq.isSome && lop then 0 else our, ls⟩) ∨
      (rd ≤ their ∧ x = ⟨if o.customSeq.isSome && rop then 0 else their, rs⟩)) ∧
    (createCloseTx o ld rd our their ls rs lop rop).outs.length =
      (if ld ≤ our then 1 else 0) + (if rd ≤ their then 1 else 0) := by
  have hperm := sortOuts_perm (partyOut o ld our ls lop ++ partyOut o rd their rs rop)
  constructor
  · simp only [createCloseTx]
    rw [hperm.mem_iff, List.mem_append, mem_partyOut, mem_partyOut]
  · simp only [createCloseTx]
    rw [hperm.length_eq, List.length_append]
    by_cases ha : ld ≤ our <;> by_cases hb : rd ≤ their <;> simp [partyOut, ha, hb]

/--
`close_tx_swap_symmetric`: the two sides call `CreateCooperativeCloseTx` with the same
(dust, balance, script) triples in exchanged positions — (localDust, ourBalance, ourScript) of one
side is (remoteDust, theirBalance, theirScript) of the other. For every pair of dust limits,
however different, the transactions are IDENTICAL (same outputs in the same BIP 69 order, same
sequence and locktime).
-/
theorem close_tx_swap_symmetric (o : TxOpts) (ld rd our their : Int) (ls rs : Script) (lop rop : Bool) :
    createCloseTx o rd ld their our rs ls rop lop = createCloseTx o ld rd our their ls rs lop rop :=
  createCloseTx_swap o ld rd our their ls rs lop rop

/-- … and exchanging ONLY the dust limits (what a swapped-argument call does) changes the output
    set exactly when a balance lies between the two limits: the counter-example family. -/
example :
    createCloseTx {} 354 546 400 100000 [1] [2] false false ≠
    createCloseTx {} 546 354 400 100000 [1] [2] false false := by
  decide

/-! ## `CreateCloseProposal` and `CompleteCooperativeClose` -/

/-- the request a set of close options denotes. -/
def reqOfOpts (fee : Int) (ls rs : Script) (lop rop : Bool) (o : CloseOpts) : CloseReq :=
  { fee := fee, localScript := ls, remoteScript := rs, lop := lop, rop := rop,
    payer := o.customPayer, customSeq := o.customSeq, customLock := o.customLock }

theorem reqOfOpts_mirror (fee : Int) (ls rs : Script) (lop rop : Bool) (o : CloseOpts) :
    (reqOfOpts fee ls rs lop rop o).mirror = reqOfOpts fee rs ls rop lop o.mirror := rfl

/-- `CreateCloseProposal` (own plumbing) computes `closeProposal` unless the channel latched
    `isClosed` and no custom payer is given. -/
theorem proposalTx_eq (c : Chan) (fee : Int) (ls rs : Script) (lop rop : Bool) (o : CloseOpts) :
    c.proposalTx fee ls rs lop rop o =
      if c.isClosed && o.customPayer.isNone then .error .closing
      else match closeProposal c.v (reqOfOpts fee ls rs lop rop o) with
        | .ok p => .ok p
        | .error e => .error (.close e) := by
  unfold Chan.proposalTx closeProposal
  simp only [reqOfOpts, View.txOpts]
  split
  · rfl
  · generalize coopCloseBalance c.v.anchors c.v.isInit fee (toSat c.v.localMsat) (toSat c.v.remoteMsat)
      c.v.commitFee o.customPayer = b
    cases b with
    | none => rfl
    | some p =>
      obtain ⟨our, their⟩ := p
      simp only
      split <;> simp [*]

/-- `CompleteCooperativeClose` (its own copy of the plumbing and dust arguments) rebuilds exactly
    the transaction `CreateCloseProposal` signs, and accepts iff both signatures are for it. -/
theorem complete_eq (c : Chan) (sl sr : CloseTx) (fee : Int) (ls rs : Script) (lop rop : Bool)
    (o : CloseOpts) :
    c.complete sl sr fee ls rs lop rop o =
      match c.proposalTx fee ls rs lop rop o with
      | .error e => .error e
      | .ok (tx, bal) =>
        if sl = tx ∧ sr = tx then .ok (tx, bal, { c with isClosed := true }) else .error .sigReject := by
  unfold Chan.complete Chan.proposalTx
  split
  · rfl
  · generalize coopCloseBalance c.v.anchors c.v.isInit fee (toSat c.v.localMsat) (toSat c.v.remoteMsat)
      c.v.commitFee o.customPayer = b
    cases b with
    | none => rfl
    | some p =>
      obtain ⟨our, their⟩ := p
      simp only
      split <;> simp [*]

/--
`close_completes_both_sides`: if both sides (views mirror images, options mirrored: each names the
same paying party) obtain a proposal for the same fee and scripts, then the two proposals are the
same transaction, and `CompleteCooperativeClose` on EITHER side — given its own and the other
side's signature — rebuilds that very transaction, accepts both signatures, returns it with the
side's own balance and latches `isClosed`. Holds for all balances, asymmetric dust limits, channel
types, payers, sequence / locktime options.
-/
theorem close_completes_both_sides (c : Chan) (d : Chan) (hd : d.v = c.v.mirror)
    (fee : Int) (ls rs : Script) (lop rop : Bool) (o : CloseOpts) (txA txB : CloseTx) (balA balB : Int)
    (hA : c.proposalTx fee ls rs lop rop o = .ok (txA, balA))
    (hB : d.proposalTx fee rs ls rop lop o.mirror = .ok (txB, balB)) :
    txB = txA ∧
    c.complete txA txB fee ls rs lop rop o = .ok (txA, balA, { c with isClosed := true }) ∧
    d.complete txB txA fee rs ls rop lop o.mirror = .ok (txA, balB, { d with isClosed := true }) := by
  have hAB : txB = txA := by
    rw [proposalTx_eq] at hA hB
    split at hA
    · cases hA
    · split at hB
      · cases hB
      · have hs := same_tx_both_sides c.v (reqOfOpts fee ls rs lop rop o)
        rw [reqOfOpts_mirror, ← hd] at hs
        cases hpa : closeProposal c.v (reqOfOpts fee ls rs lop rop o) with
        | error e => rw [hpa] at hA; cases hA
        | ok pa =>
          cases hpb : closeProposal d.v (reqOfOpts fee rs ls rop lop o.mirror) with
          | error e => rw [hpb] at hB; cases hB
          | ok pb =>
            rw [hpa] at hA; rw [hpb] at hB
            rw [hpa, hpb] at hs
            simp only [Except.ok.injEq] at hA hB
            subst hA hB
            simp only [Except.map, Except.ok.injEq] at hs
            exact hs
  subst hAB
  refine ⟨rfl, ?_, ?_⟩
  · rw [complete_eq, hA]; simp
  · rw [complete_eq, hB]; simp

/-- a signature made for a different transaction (another fee, other outputs, another locktime …)
    never completes the close. -/
theorem complete_rejects_other_tx (c : Chan) (sl sr : CloseTx) (fee : Int) (ls rs : Script)
    (lop rop : Bool) (o : CloseOpts) (tx : CloseTx) (bal : Int)
    (hP : c.proposalTx fee ls rs lop rop o = .ok (tx, bal)) (hne : sl ≠ tx ∨ sr ≠ tx) :
    c.complete sl sr fee ls rs lop rop o = .error .sigReject := by
  rw [complete_eq, hP]
  have : ¬ (sl = tx ∧ sr = tx) := by
    intro h; rcases hne with h1 | h1
    · exact h1 h.1
    · exact h1 h.2
  simp [this]

/-- the legacy flow latches: after a completed close a second legacy proposal is refused, an RBF
    iteration (custom payer) is not. -/
theorem isClosed_latch (c : Chan) (hc : c.isClosed = true) (fee : Int) (ls rs : Script)
    (lop rop : Bool) (o : CloseOpts) :
    (o.customPayer = none → c.proposalTx fee ls rs lop rop o = .error .closing) ∧
    (o.customPayer.isSome = true → c.proposalTx fee ls rs lop rop o =
        ({ c with isClosed := false } : Chan).proposalTx fee ls rs lop rop o) := by
  constructor
  · intro hp; simp [Chan.proposalTx, hc, hp]
  · intro hp
    have : o.customPayer.isNone = false := by
      cases h : o.customPayer with
      | none => rw [h] at hp; cases hp
      | some _ => rfl
    simp [Chan.proposalTx, hc, this]

/-! ## Exact value conservation -/

/-- what is NOT paid out to a party: its whole owed amount if that is below its own dust limit,
    or — RBF flow with an OP_RETURN delivery script — the amount burnt in the zero-value output. -/
def trimmed (r : CloseReq) (dust owed : Int) (opRet : Bool) : Int :=
  if dust ≤ owed then (if r.customSeq.isSome ∧ opRet = true then owed else 0) else owed

/--
`close_conservation_exact`: whenever a close transaction is built,
  Σ outputs + fee + trimmed(local) + trimmed(remote) = local sat + remote sat + commit fee (+ 660
  for anchor channels),
the reported balance is the local party's owed amount, the PAYING party (the named payer, else
the opener) is the one whose owed amount is reduced by the fee and the opener the one credited
with commit fee + anchors, and nothing trimmed is negative. If the state satisfies the funds
identity of an HTLC-free channel (msat balances + 1000·(commit fee + anchors) = 1000·capacity),
then Σ outputs + fee + trimmed = capacity − ρ with ρ ∈ {0, 1} the sub-satoshi remainders.
-/
theorem close_conservation_exact (v : View) (r : CloseReq) (tx : CloseTx) (bal : Int)
    (h : closeProposal v r = .ok (tx, bal)) :
    let lsat : Int := ((v.localMsat / 1000 : Nat) : Int)
    let rsat : Int := ((v.remoteMsat / 1000 : Nat) : Int)
    let tl := trimmed r v.localDust (finalLocal v r) r.lop
    let tr := trimmed r v.remoteDust (finalRemote v r) r.rop
    sumOuts tx.outs + r.fee + tl + tr = lsat + rsat + openerCredit v ∧
    0 ≤ tl ∧ 0 ≤ tr ∧ bal = finalLocal v r ∧
    finalLocal v r = lsat + (if v.isInit then openerCredit v else 0) - (if localPays v r then r.fee else 0) ∧
    finalRemote v r = rsat + (if v.isInit then 0 else openerCredit v) - (if localPays v r then 0 else r.fee) ∧
    (∀ capacity : Int,
      (v.localMsat : Int) + v.remoteMsat + 1000 * openerCredit v = 1000 * capacity →
      ∃ ρ : Int, 0 ≤ ρ ∧ ρ ≤ 1 ∧ sumOuts tx.outs + r.fee + tl + tr = capacity - ρ) := by
  intro lsat rsat tl tr
  obtain ⟨hbal, hl, hr, _, _, _, _, _, _⟩ := close_value v r tx bal h
  unfold closeProposal at h
  rw [coopCloseBalance_eq] at h
  have hneg : ¬ (finalLocal v r < 0 ∨ finalRemote v r < 0) := by omega
  simp only [hneg, if_false] at h
  split at h
  · cases h
  · simp only [Except.ok.injEq, Prod.mk.injEq] at h
    obtain ⟨h1, _⟩ := h
    subst h1
    have hsum : ∀ (dust b : Int) (s : Script) (op : Bool),
        sumOuts (partyOut (v.txOpts r) dust b s op) + trimmed r dust b op = b := by
      intro dust b s op
      unfold partyOut trimmed
      by_cases hd : b ≥ dust
      · have hd' : dust ≤ b := hd
        by_cases hz : r.customSeq.isSome = true ∧ op = true
        · have hz' : (r.customSeq.isSome && op) = true := by simp [hz.1, hz.2]
          simp [hd, hd', hz, View.txOpts, sumOuts]
        · have hz' : ¬ ((r.customSeq.isSome && op) = true) := by
            intro hh; apply hz; simpa using hh
          simp [hd, hd', hz, View.txOpts, sumOuts]
      · have hd' : ¬ dust ≤ b := hd
        simp [hd, hd', sumOuts]
    have ha := hsum v.localDust (finalLocal v r) r.localScript r.lop
    have hb := hsum v.remoteDust (finalRemote v r) r.remoteScript r.rop
    have htl : 0 ≤ tl := by
      simp only [tl, trimmed]; split <;> (try split) <;> omega
    have htr : 0 ≤ tr := by
      simp only [tr, trimmed]; split <;> (try split) <;> omega
    have htot : sumOuts (createCloseTx (v.txOpts r) v.localDust v.remoteDust (finalLocal v r)
        (finalRemote v r) r.localScript r.remoteScript r.lop r.rop).outs + r.fee + tl + tr =
        lsat + rsat + openerCredit v := by
      simp only [createCloseTx, sumOuts_sort, sumOuts_append]
      have e : finalLocal v r + finalRemote v r + r.fee = lsat + rsat + openerCredit v := by
        unfold finalLocal finalRemote
        cases v.isInit <;> cases localPays v r <;>
          simp only [if_true, if_false, Bool.false_eq_true] <;> omega
      simp only [tl, tr]
      omega
    refine ⟨htot, htl, htr, hbal, rfl, rfl, ?_⟩
    intro capacity hcap
    refine ⟨capacity - (lsat + rsat + openerCredit v), ?_, ?_, by rw [htot]; omega⟩
    · simp only [lsat, rsat]; omega
    · simp only [lsat, rsat]; omega

/-! ## Repeated RBF iterations -/

theorem rbfPair_round_terms (p : RbfPair) (w : Bool) (fee : Int) : (p.round w fee).1.t = p.t := by
  simp only [RbfPair.round]
  generalize (if w = true then p.t else p.t.mirror) = tc
  cases rbfOffer tc fee with
  | skip => rfl
  | err e => rfl
  | sent label tx bal =>
    simp only
    cases rbfAccept tc.mirror fee label 0 with
    | ok tx' => simp only; split <;> rfl
    | cannotPay => rfl
    | badLabel => rfl
    | err e => rfl

/--
`rbf_rounds`: for EVERY sequence of RBF iterations (any number, either side as closer each time,
any absolute fees — the state machine puts no constraint on successive fees, `ClosePending` hands
the unchanged `CloseChannelTerms` to the next `LocalCloseStart` / `RemoteCloseStart`), between two
lnd nodes with mirror-image terms and announced locktime 0: no iteration is ever rejected by the
closee — each one is either not offered (the closer cannot pay) or ends with BOTH sides holding the
same transaction — and that transaction satisfies `rbf_close_value` for the ORIGINAL terms: the
closer of that iteration pays that iteration's fee out of its unchanged balance, nothing
accumulates from earlier iterations.
-/
theorem rbf_rounds (p : RbfPair) (rounds : List (Bool × Int)) :
    ∀ res ∈ p.run rounds,
      (∀ r, res ≠ .rejected r) ∧
      (∀ fee label tx, res = .closed fee label tx →
        ∃ (aCloses : Bool) (bal : Int), rbfOffer (if aCloses then p.t else p.t.mirror) fee = .sent label tx bal ∧
          rbfAccept (if aCloses then p.t else p.t.mirror).mirror fee label 0 = .ok tx) := by
  induction rounds generalizing p with
  | nil => intro res h; simp [RbfPair.run] at h
  | cons hd rest ih =>
    obtain ⟨w, fee⟩ := hd
    intro res hres
    simp only [RbfPair.run, List.mem_cons] at hres
    rcases hres with rfl | hres
    · simp only [RbfPair.round]
      cases ho : rbfOffer (if w = true then p.t else p.t.mirror) fee with
      | skip => simp
      | err e => simp
      | sent label tx bal =>
        have hacc := rbf_same_tx _ fee label tx bal ho
        simp only [hacc, if_true]
        refine ⟨by simp, ?_⟩
        intro fee' label' tx' he
        simp only [RbfRound.closed.injEq] at he
        obtain ⟨rfl, rfl, rfl⟩ := he
        exact ⟨w, bal, ho, hacc⟩
    · have := ih (p.round w fee).1 res hres
      rw [rbfPair_round_terms] at this
      exact this

/-- the closer's and closee's owed amounts of an offered RBF transaction, and its output sum. -/
theorem rbf_sum (t : RbfTerms) (fee : Int) (label : SigLabel) (tx : CloseTx) (bal : Int)
    (h : rbfOffer t fee = .sent label tx bal) :
    let closerOwed := ((t.v.localMsat / 1000 : Nat) : Int)
                        + (if t.v.isInit then openerCredit t.v else 0) - fee
    let closeeOwed := ((t.v.remoteMsat / 1000 : Nat) : Int)
                        + (if t.v.isInit then 0 else openerCredit t.v)
    0 ≤ closerOwed ∧
    sumOuts tx.outs = (if t.v.localDust ≤ closerOwed then closerOwed else 0) +
                      (if t.v.remoteDust ≤ closeeOwed then closeeOwed else 0) := by
  intro closerOwed closeeOwed
  unfold rbfOffer at h
  by_cases hpay : toSat t.v.localMsat < fee
  · simp [hpay] at h
  · simp only [hpay, if_false] at h
    cases hcp : closeProposal t.v (rbfReq t fee .local none) with
    | error e => simp [hcp] at h
    | ok p =>
      obtain ⟨tx', bal'⟩ := p
      simp only [hcp, RbfOffer.sent.injEq] at h
      obtain ⟨_, htx, _⟩ := h
      subst htx
      have hfl : finalLocal t.v (rbfReq t fee .local none) = closerOwed := by
        simp [finalLocal, localPays, rbfReq, closerOwed]
      have hfr : finalRemote t.v (rbfReq t fee .local none) = closeeOwed := by
        simp [finalRemote, localPays, rbfReq, closeeOwed]
      have hv := close_value t.v (rbfReq t fee .local none) tx' bal' hcp
      have hc := close_conservation_exact t.v (rbfReq t fee .local none) tx' bal' hcp
      simp only at hc
      obtain ⟨hc1, _, _, _, hc5, hc6, _⟩ := hc
      rw [hfl] at hv
      refine ⟨hv.2.1, ?_⟩
      rw [hfl, hfr] at hc1
      have e : closerOwed + closeeOwed + fee = ((t.v.localMsat / 1000 : Nat) : Int) +
          ((t.v.remoteMsat / 1000 : Nat) : Int) + openerCredit t.v := by
        simp only [closerOwed, closeeOwed]
        cases t.v.isInit <;> simp
        all_goals omega
      have e2 : (rbfReq t fee .local none).fee = fee := rfl
      rw [e2] at hc1
      simp only [trimmed, rbfReq] at hc1
      simp only [Bool.false_eq_true, and_false, if_false] at hc1
      by_cases ha : t.v.localDust ≤ closerOwed <;> by_cases hb : t.v.remoteDust ≤ closeeOwed <;>
        simp only [ha, hb, if_true, if_false] at hc1 ⊢ <;> omega

/--
`rbf_fee_bump`: two RBF offers by the same closer over the same terms with fees `f₁ < f₂` (a fee
bump): the replacement pays out no more than the replaced transaction, strictly less — i.e. a
strictly higher absolute fee goes to the miners — whenever the closer's output is present in the
replaced transaction; the closee's owed amount is not touched by either.
-/
theorem rbf_fee_bump (t : RbfTerms) (f1 f2 : Int) (hlt : f1 < f2)
    (l1 l2 : SigLabel) (tx1 tx2 : CloseTx) (b1 b2 : Int)
    (h1 : rbfOffer t f1 = .sent l1 tx1 b1) (h2 : rbfOffer t f2 = .sent l2 tx2 b2) :
    sumOuts tx2.outs ≤ sumOuts tx1.outs ∧
    (t.v.localDust ≤ ((t.v.localMsat / 1000 : Nat) : Int)
        + (if t.v.isInit then openerCredit t.v else 0) - f1 → sumOuts tx2.outs < sumOuts tx1.outs) := by
  have s1 := rbf_sum t f1 l1 tx1 b1 h1
  have s2 := rbf_sum t f2 l2 tx2 b2 h2
  simp only at s1 s2
  obtain ⟨p1, e1⟩ := s1
  obtain ⟨p2, e2⟩ := s2
  rw [e1, e2]
  generalize ((t.v.localMsat / 1000 : Nat) : Int) + (if t.v.isInit then openerCredit t.v else 0) = C at *
  constructor
  · by_cases a1 : t.v.localDust ≤ C - f1 <;> by_cases a2 : t.v.localDust ≤ C - f2 <;>
      simp only [a1, a2, if_true, if_false] <;> omega
  · intro a1
    by_cases a2 : t.v.localDust ≤ C - f2 <;> simp only [a1, a2, if_true, if_false] <;> omega

/-- RBF iterations are unaffected by the `isClosed` latch of an earlier completed iteration. -/
theorem rbf_ignores_latch (c : Chan) (fee : Int) (ls rs : Script) (payer : Party) (lock : Option Nat) :
    ({ c with isClosed := true } : Chan).proposalTx fee ls rs false false
        { customSeq := some maxRBFSequence, customLock := lock, customPayer := some payer } =
    ({ c with isClosed := false } : Chan).proposalTx fee ls rs false false
        { customSeq := some maxRBFSequence, customLock := lock, customPayer := some payer } := by
  simp [Chan.proposalTx]

/-! ## Shutdown script validation -/

/--
`shutdown_script_accepted_iff`: the peer's shutdown script is accepted iff it is empty or a
permitted witness program AND, when an upfront shutdown script is on record, that one is valid
and the peer's script is byte-identical to it.
-/
theorem shutdown_script_accepted_iff (upfront peer : Script) :
    validateShutdownScript upfront peer = none ↔
      (peer = [] ∨ validShutdownScript peer = true) ∧
      (upfront = [] ∨ (validShutdownScript upfront = true ∧ peer = upfront)) := by
  unfold validateShutdownScript
  cases upfront with
  | nil =>
    cases peer with
    | nil => simp
    | cons a as =>
      cases hv : validShutdownScript (a :: as) <;> simp [hv]
  | cons u us =>
    cases hu : validShutdownScript (u :: us)
    · simp [hu]
    · cases peer with
      | nil => simp [hu]
      | cons a as =>
        cases hv : validShutdownScript (a :: as)
        · simp [hu, hv]
        · by_cases he : u :: us = a :: as
          · simp [hu, hv, he]
          · simp [hu, hv, he]
            intro h1 h2; exact he (by rw [h1, h2])

/-- a mismatch with the recorded upfront script is always refused (BOLT 2), whatever the script. -/
theorem upfront_mismatch_rejected (upfront peer : Script) (hu : upfront ≠ []) (hne : peer ≠ upfront) :
    validateShutdownScript upfront peer ≠ none := by
  intro h
  have := (shutdown_script_accepted_iff upfront peer).mp h
  rcases this.2 with h1 | ⟨_, h2⟩
  · exact hu h1
  · exact hne h2

/-- the permitted script classes, concretely. -/
example : validShutdownScript (0 :: 20 :: List.replicate 20 7) = true ∧          -- P2WPKH
    validShutdownScript (0 :: 32 :: List.replicate 32 7) = true ∧                 -- P2WSH
    validShutdownScript (81 :: 32 :: List.replicate 32 7) = true ∧                -- P2TR
    validShutdownScript (96 :: 2 :: [1, 2]) = true ∧                              -- v16, 2-byte program
    validShutdownScript (0 :: 25 :: List.replicate 25 7) = false ∧                -- v0, odd length
    validShutdownScript (118 :: 169 :: 20 :: List.replicate 20 7 ++ [136, 172]) = false ∧  -- P2PKH
    validShutdownScript (81 :: 41 :: List.replicate 41 7) = false := by           -- 43 bytes
  decide

end LndModel.C17
