/-
C17 driver, stream `sched`: two real legacy ChanClosers driven by a random scheduler (local close
requests, message deliveries of either direction, flush notifications), replayed on
`LndModel.C17.Sys` (Closer.lean); plus the `validateShutdownScript` grid.

(X) correspondence: every `ev` line is one `Sys.step`; the event must be enabled in the model, the
    consumed message must be the head of the model's queue, the answer (reply / error / final) and
    the state line after it (both closer states, both queue lengths, both cache flags) must agree.
(S) monitor: evaluated on the words of the trace only (never on the model's verdicts).
-/
import LndModel.Prelude.Lines
import LndModel.C17.Closer
import LndModel.C17.Restart

open LndModel LndModel.Lines LndModel.C17

namespace LndModel.C17.DriverSched

structure St where
  caseId : String := "0"
  kind : String := ""
  hdr : List String := []
  lines : Nat := 0
  cases : Nat := 0
  mismatches : Nat := 0
  monitorFails : Nat := 0
  ops : Nat := 0
  samples : Nat := 0
  nontrivial : Nat := 0
  factSeen : Bool := false
  -- the current sched case: model side
  rs : Option RSys := none
  budget : Int := 0
  -- restart / persistence facts of the current case (trace only)
  sentI : Option String := none          -- script of the first Shutdown I sent in this case
  sentR : Option String := none
  finalBy : List String := []            -- sides whose last call returned `final` (this event)
  everFinal : List String := []          -- sides that completed the close in this case
  goneSeen : Bool := false               -- a restart found a co-op close tx on record
  restartsSeen : Nat := 0
  minMaxI : Option Int := none           -- smallest opener cap of any epoch
  restartCases : Nat := 0
  restartEvents : Nat := 0
  restartResend : Nat := 0
  restartGone : Nat := 0
  restartIdle : Nat := 0
  restartDropped : Nat := 0
  dbLines : Nat := 0
  dbTxPersisted : Nat := 0
  dbBothTxEqual : Nat := 0
  lastFailed : Option String := none      -- side whose call failed in the last event
  -- the current sched case: facts collected from the trace for the monitor
  tap : Bool := false
  implMaxI : Option Int := none
  errSeen : Option String := none
  lastFinal : Option Int := none
  evs : Nat := 0
  delivers : Nat := 0
  closesBeforeDeliver : Nat := 0
  flushes : Nat := 0
  rFlushedFirst : Bool := false
  cachedSeen : Bool := false
  rejUpfront : Bool := false
  rejInvalid : Bool := false
  stI : String := "idle"
  stR : String := "idle"
  qI : Nat := 0
  qR : Nat := 0
  -- distribution
  schedCases : Nat := 0
  taproot : Nat := 0
  earlyCached : Nat := 0
  rFirst : Nat := 0
  crossing : Nat := 0
  closeByBoth : Nat := 0
  upfrontSet : Nat := 0
  upfrontMismatchRejected : Nat := 0
  invalidScriptRejected : Nat := 0
  emptyScriptAccepted : Nat := 0
  agreed : Nat := 0
  errors : Nat := 0
  errExceedsMax : Nat := 0
  errCannotSign : Nat := 0
  capped : Nat := 0
  legit : Nat := 0
  termChecked : Nat := 0
  skipBelow10 : Nat := 0
  skipCap : Nat := 0
  skipBudget : Nat := 0
  maxProcessed : Nat := 0
  maxEvents : Nat := 0
  evLines : Nat := 0
  csProcessed : Nat := 0
  vssLines : Nat := 0
  vssOk : Nat := 0
  vssInvalid : Nat := 0
  vssMismatch : Nat := 0
  vusLines : Nat := 0
  vusValid : Nat := 0

def St.sys (s : St) : Option Sys := s.rs.map (·.s)

def mismatch (s : St) (detail : String) : IO St := do
  IO.println s!"MISMATCH case={s.caseId} line={s.lines} {detail}"
  return { s with mismatches := s.mismatches + 1 }

def monitor (s : St) (clause detail : String) : IO St := do
  IO.println s!"MONITOR case={s.caseId} clause={clause} line={s.lines} {detail}"
  return { s with monitorFails := s.monitorFails + 1 }

def b01 (ws : List String) (key : String) : Bool := kvNat? ws key == some 1
def hx (ws : List String) (key : String) : String := (kv? ws key).getD "-"
def bit (x : Bool) : String := if x then "1" else "0"

def resOf (ws : List String) : List String :=
  match ws.dropWhile (· ≠ "=>") with
  | _ :: r => r
  | _ => []

def argsOf (ws : List String) : List String := ws.takeWhile (· ≠ "=>")

/-- drop the `sig=` word (the model has no main signature field). -/
def noSig (ws : List String) : String := " ".intercalate (ws.filter fun w => !w.startsWith "sig=")

/-! ### model side -/

def closerErrName : CloserErr → String
  | .alreadyClosing => "alreadyclosing"
  | .invalidState => "invalidstate"
  | .invalidScript => "invalidscript"
  | .upfrontMismatch => "upfrontmismatch"
  | .noNonce => "nononce"
  | .noPartialSig => "nopartialsig"
  | .neg .exceedsMax => "exceedsmax"
  | .neg .cannotAfford => "cannotsign"
  | .neg .taprootMismatch => "taprootmismatch"

def stName : CState → String
  | .idle => "idle" | .shutdownInitiated => "shutdown" | .awaitingFlush => "flush"
  | .feeNegotiation => "neg" | .finished => "fin"

def whoOf : String → Option Who
  | "I" => some .I | "R" => some .R | _ => none

def ownQ (s : Sys) : Who → List Msg
  | .I => s.toI | .R => s.toR

def otherQ (s : Sys) : Who → List Msg
  | .I => s.toR | .R => s.toI

def msgStr : Msg → String
  | .shutdown sc n => s!"sd script={bytesHex sc} nonce={bit n}"
  | .closingSigned f ps => s!"cs fee={f} psig={bit ps}"

/-- the model's answer of one step, in the words of the trace. -/
def modelResult (shutdownCall : Bool) (before after : Sys) (w : Who) : String :=
  match after.failed with
  | some e => s!"err {closerErrName e}"
  | none =>
    let out := if (otherQ after w).length > (otherQ before w).length then (otherQ after w).getLast? else none
    let fin := (before.peer w).st != .finished && (after.peer w).st == .finished
    match out with
    | none => if shutdownCall then "ok none" else "none"
    | some (.shutdown sc n) => s!"ok sd script={bytesHex sc} nonce={bit n}"
    | some (.closingSigned f ps) => s!"{if fin then "final" else "send"} {f} psig={bit ps}"

def sortInts (l : List Int) : List Int :=
  l.foldr (fun x acc => (acc.takeWhile (· < x)) ++ x :: acc.dropWhile (· < x)) []

def intList (s : String) : List Int :=
  if s == "-" then [] else (s.splitOn ",").filterMap int?

/-! ### monitor side: an independent reading of the shutdown script rule -/

/-- BOLT 2 shutdown scripts as lnd accepts them: p2wpkh, p2wsh, or a witness program of version
    1..16: `OP_1..OP_16`, then one direct push of 2..40 bytes that makes up the rest. -/
def indepValidBytes : List Nat → Bool
  | v :: l :: prog =>
    let n := prog.length
    l == n && 2 ≤ n && n ≤ 40 &&
      ((v == 0 && (n == 20 || n == 32)) || (81 ≤ v && v ≤ 96))
  | _ => false

/-- on the hex text of the trace (`-` = empty, never valid). -/
def indepValid (h : String) : Bool :=
  if h == "-" then false else
  match hexBytes? h with
  | some bs => indepValidBytes bs
  | none => false

/-- the decision `validateShutdownScript` has to make, from the two hex texts. -/
def indepVss (up peer : String) : String :=
  if (up != "-" && !indepValid up) || (peer != "-" && !indepValid peer) then "err invalidscript"
  else if up == "-" then "ok"
  else if up != peer then "err upfrontmismatch"
  else "ok"

def parseOuts (s : String) : List (Int × String) :=
  if s == "-" then [] else
  (s.splitOn ",").filterMap fun w =>
    match w.splitOn ":" with
    | [v, sc] => (int? v).map (·, sc)
    | _ => none

/-- sig-field rule for one printed message (`sd … nonce=` / `… sig= psig=`). -/
def sigFieldsOk (tap : Bool) (ws : List String) : Bool :=
  match kvNat? ws "nonce", kvNat? ws "sig", kvNat? ws "psig" with
  | some n, _, _ => (n == 1) == tap
  | none, some sg, some ps => ((ps == 1) == tap) && ((sg == 1) == !tap)
  | _, _, _ => true

/-! ### one line -/

/-- `ev restart both => rI=… rR=…`: the connection dropped and was re-established. -/
def restartLine (s : St) (rest : List String) : IO St := do
  let mut s := { s with ops := s.ops + 1, evs := s.evs + 1, evLines := s.evLines + 1, lastFailed := none,
                        finalBy := [], restartsSeen := s.restartsSeen + 1, restartEvents := s.restartEvents + 1,
                        nontrivial := s.nontrivial + 1 }
  let res := resOf rest
  let implRes := " ".intercalate res
  -- ------------------------------------------------------------ (X) correspondence
  if let some r := s.rs then
    match r.step .restart with
    | none =>
      s ← mismatch s "restart is not enabled in the model (a closer failed)"
      s := { s with rs := none }
    | some r' =>
      let part (n : String) (gone : Bool) (p : Peer) (out : List Msg) : String :=
        if gone then s!"r{n}=gone"
        else match out with
          | [.shutdown sc nn] => s!"r{n}=resend sd{n}={bytesHex sc} n{n}={bit nn}"
          | _ => s!"r{n}={stName p.st}"
      let m := s!"{part "I" r'.goneI r'.s.i r'.s.toR} {part "R" r'.goneR r'.s.r r'.s.toI}"
      if m != implRes then
        s ← mismatch s s!"restart: model=[{m}] impl=[{implRes}]"
      s := { s with rs := some r' }
  -- ------------------------------------------------------------ (S) monitor, trace only
  for (n, sent, ever) in [("I", s.sentI, s.everFinal.contains "I"), ("R", s.sentR, s.everFinal.contains "R")] do
    let what := hx res s!"r{n}"
    if what == "gone" then
      s := { s with goneSeen := true, restartGone := s.restartGone + 1 }
      -- the channel may only be treated as closed if this side completed the close
      if !ever then
        s ← monitor s "restart" s!"{n} treats the channel as co-op closed after the restart, but it never completed a close in this case"
    else if what == "resend" then
      s := { s with restartResend := s.restartResend + 1 }
      let sc := hx res s!"sd{n}"
      -- the Shutdown sent again names the delivery script of the first Shutdown
      match sent with
      | none => s ← monitor s "restart" s!"{n} sends a Shutdown after the restart although it never sent one before"
      | some sc0 =>
        if sc0 != sc then
          s ← monitor s "resend-script" s!"{n} announced delivery script {sc0} before the restart and {sc} after it"
      if ever then
        s ← monitor s "restart" s!"{n} completed the close (tx on record) but negotiates again after the restart"
      if (kvNat? res s!"n{n}" == some 1) != s.tap then
        s ← monitor s "sig-fields" s!"taproot={bit s.tap}: Shutdown sent again by {n} carries the wrong nonce field"
    else if what == "idle" then
      s := { s with restartIdle := s.restartIdle + 1 }
      if sent.isSome then
        s ← monitor s "restart" s!"{n} sent a Shutdown (script {sent.getD "-"}) before the restart and forgot the close after it"
    else
      s ← monitor s "restart" s!"{n}: restart failed: {implRes}"
  return s

def evLine (s : St) (line : String) (kind wS : String) (rest : List String) : IO St := do
  let mut s := { s with ops := s.ops + 1, evs := s.evs + 1, evLines := s.evLines + 1, lastFailed := none }
  let args := argsOf rest
  let res := resOf rest
  let implRes := noSig res
  let isErr := res.head? == some "err" || res.head? == some "panic"
  let isSd := args.head? == some "sd"
  let isCs := args.head? == some "cs"
  -- ------------------------------------------------------------ (X) correspondence
  if let some r := s.rs then
    let sys := r.s
    match whoOf wS with
    | none => s ← mismatch s s!"bad side in: {line.take 60}"
    | some w =>
      let ev? : Option Ev := match kind with
        | "close" => some (.userClose w) | "deliver" => some (.deliver w) | "flush" => some (.flush w)
        | _ => none
      match ev? with
      | none => s ← mismatch s s!"unknown event: {line.take 60}"
      | some ev =>
        if kind == "deliver" && !r.gone w then
          let consumed := noSig args
          let head := (ownQ sys w).head?.map msgStr
          if head != some consumed then
            s ← mismatch s s!"deliver {wS}: model queue head=[{head.getD "empty"}] impl consumed=[{consumed}]"
        match r.step (.ev ev) with
        | none =>
          s ← mismatch s s!"event `{kind} {wS}` is not enabled in the model (I={stName sys.i.st} R={stName sys.r.st} toI={sys.toI.length} toR={sys.toR.length} failed={sys.failed.isSome} gone={r.gone w})"
          s := { s with rs := none }
        | some r' =>
          let m := if r.gone w then "dropped" else modelResult (kind == "close" || isSd) sys r'.s w
          if m != implRes then
            s ← mismatch s s!"{kind} {wS} {noSig args}: model=[{m}] impl=[{implRes}]"
          s := { s with rs := some r' }
  -- ------------------------------------------------------------ (S) monitor, trace only
  if isErr then
    s := { s with lastFailed := some wS }
    if s.errSeen.isNone then s := { s with errSeen := some (res.getD 1 "panic") }
  if kind == "deliver" then s := { s with delivers := s.delivers + 1, nontrivial := s.nontrivial + 1 }
  -- a message addressed to a side whose channel is not loaded any more
  if res.head? == some "dropped" then
    if !s.goneSeen then
      s ← monitor s "restart" s!"{wS} dropped a message although no restart found a close tx on record"
    return { s with restartDropped := s.restartDropped + 1, finalBy := [] }
  -- the delivery script a side announces never changes within one close
  if !isErr then
    if let "ok" :: "sd" :: _ := res then
      let sc := hx res "script"
      let prev := if wS == "I" then s.sentI else s.sentR
      match prev with
      | none => s := if wS == "I" then { s with sentI := some sc } else { s with sentR := some sc }
      | some sc0 =>
        if sc0 != sc then
          s ← monitor s "resend-script" s!"{wS} announced delivery script {sc0} first and {sc} later"
  s := { s with finalBy := [] }
  if let "final" :: _ := res then
    s := { s with finalBy := [wS], everFinal := if s.everFinal.contains wS then s.everFinal else wS :: s.everFinal }
  if kind == "close" && s.delivers == 0 then s := { s with closesBeforeDeliver := s.closesBeforeDeliver + 1 }
  if kind == "flush" then
    if s.flushes == 0 && wS == "R" then s := { s with rFlushedFirst := true }
    s := { s with flushes := s.flushes + 1, nontrivial := s.nontrivial + 1 }
  -- sig fields of every message printed on this line
  if !sigFieldsOk s.tap args then
    s ← monitor s "sig-fields" s!"taproot={bit s.tap}: received message carries the wrong signature fields: {" ".intercalate args}"
  if !isErr && !sigFieldsOk s.tap res then
    s ← monitor s "sig-fields" s!"taproot={bit s.tap}: sent message carries the wrong signature fields: {" ".intercalate res}"
  -- upfront shutdown rule
  if kind == "deliver" && isSd then
    let script := hx args "script"
    let up := hx s.hdr (if wS == "I" then "upfrontI" else "upfrontR")
    let differs := up != "-" && up != script
    let invalid := script != "-" && !indepValid script
    if differs || invalid then
      if !isErr then
        s ← monitor s "upfront-shutdown" s!"{wS} accepted a Shutdown to script {script} (upfront on record {up}; differs={differs} invalid={invalid})"
      else if res.getD 1 "" == "upfrontmismatch" then s := { s with rejUpfront := true }
      else if res.getD 1 "" == "invalidscript" then s := { s with rejInvalid := true }
    else if indepValid script then
      let e := res.getD 1 ""
      if isErr && (e == "upfrontmismatch" || e == "invalidscript") then
        s ← monitor s "upfront-shutdown" s!"{wS} rejected ({e}) a valid Shutdown script {script} that matches its upfront record {up}"
    else if script == "-" && !isErr then
      s := { s with emptyScriptAccepted := s.emptyScriptAccepted + 1 }
  -- agreed fee: every `final` of a case names the same fee
  if isCs || kind == "flush" then
    if let "final" :: v :: _ := res then
      let fv := (int? v).getD 0
      if let some prev := s.lastFinal then
        if prev != fv then
          s ← monitor s "agreed-fee" s!"the two sides completed the close with different fees {prev} / {fv}"
      s := { s with lastFinal := some fv }
  return s

def stLine (s : St) (rest : List String) : IO St := do
  let mut s := { s with ops := s.ops + 1 }
  let iS := hx rest "I"
  let rS := hx rest "R"
  let qI := (kvNat? rest "qI").getD 0
  let qR := (kvNat? rest "qR").getD 0
  let cI := b01 rest "cachedI"
  let cR := b01 rest "cachedR"
  if cI || cR then s := { s with cachedSeen := true }
  s := { s with stI := iS, stR := rS, qI := qI, qR := qR }
  if let some sys := s.sys then
    -- after a failed call the connection is torn down; the model keeps the failing closer's state
    -- as it was, the code may have advanced it (BeginNegotiation enters closeFeeNegotiation before
    -- signing): that closer's state is not compared.
    let cmpI := s.lastFailed != some "I"
    let cmpR := s.lastFailed != some "R"
    if (cmpI && stName sys.i.st != iS) || (cmpR && stName sys.r.st != rS) then
      s ← mismatch s s!"states: model I={stName sys.i.st} R={stName sys.r.st} impl I={iS} R={rS}"
    if sys.toI.length != qI || sys.toR.length != qR then
      s ← mismatch s s!"queues: model toI={sys.toI.length} toR={sys.toR.length} impl qI={qI} qR={qR}"
    if sys.i.cached.isSome != cI || sys.r.cached.isSome != cR then
      s ← mismatch s s!"cache: model I={sys.i.cached.isSome} R={sys.r.cached.isSome} impl I={cI} R={cR}"
  if let some r := s.rs then
    if r.goneI != b01 rest "goneI" || r.goneR != b01 rest "goneR" then
      s ← mismatch s s!"gone: model I={r.goneI} R={r.goneR} impl I={b01 rest "goneI"} R={b01 rest "goneR"}"
  return s

def dbModel (n : String) (d : Db) : String :=
  let info := match d.info with
    | none => s!"info{n}=- loc{n}=0"
    | some (sc, l) => s!"info{n}={if sc.isEmpty then "empty" else bytesHex sc} loc{n}={bit l}"
  s!"{info} tx{n}={bit d.tx.isSome} coop{n}={bit d.coop} li{n}={bit d.li} ri{n}={bit d.ri}"

def dbImpl (n : String) (ws : List String) : String :=
  s!"info{n}={hx ws s!"info{n}"} loc{n}={hx ws s!"loc{n}"} tx{n}={bit (hx ws s!"tx{n}" != "-")} coop{n}={hx ws s!"coop{n}"} li{n}={hx ws s!"li{n}"} ri{n}={hx ws s!"ri{n}"}"

/-- `db infoI= locI= txI= sameI= coopI= liI= riI= infoR= …`: the close-related database record of
    both sides, read back from the real channel database after every event. -/
def dbLine (s : St) (rest : List String) : IO St := do
  let mut s := { s with ops := s.ops + 1, dbLines := s.dbLines + 1 }
  -- ------------------------------------------------------------ (X) correspondence
  if let some r := s.rs then
    for (n, d) in [("I", r.dbI), ("R", r.dbR)] do
      -- a failing call may have written before it failed; the model leaves the record unchanged
      if s.lastFailed != some n then
        if dbModel n d != dbImpl n rest then
          s ← mismatch s s!"db: model=[{dbModel n d}] impl=[{dbImpl n rest}]"
        -- the fee of the recorded transaction (when no output is trimmed, outputs = funds - fee)
        if let (some f, some tf) := (d.tx, kvInt? rest s!"tx{n}") then
          let openerSat := (kvInt? s.hdr "openerSat").getD 0
          let dustI := (kvInt? s.hdr "dustI").getD 0
          if openerSat - f ≥ dustI && dustI ≥ 0 && (kvInt? s.hdr "otherSat").getD 0 ≥ (kvInt? s.hdr "dustR").getD 0 && tf != f then
            s ← mismatch s s!"db: recorded close tx of {n} pays fee {tf}, model {f}"
  -- ------------------------------------------------------------ (S) monitor, trace only
  for n in ["I", "R"] do
    let tx := hx rest s!"tx{n}"
    let same := hx rest s!"same{n}"
    let coop := b01 rest s!"coop{n}"
    if s.everFinal.contains n then
      -- the completed transaction is on record, byte for byte, for re-broadcast after a restart
      if tx == "-" || !coop then
        s ← monitor s "persist-tx" s!"{n} completed the close but no co-op close tx is on record (tx={tx} coop={bit coop})"
      else if same != "1" then
        s ← monitor s "persist-tx" s!"the co-op close tx on record for {n} is not the transaction it completed and broadcast"
      else if s.finalBy.contains n then
        s := { s with dbTxPersisted := s.dbTxPersisted + 1, nontrivial := s.nontrivial + 1 }
    else if tx != "-" || coop then
      -- a close tx on record makes a restart abandon the negotiation
      s ← monitor s "persist-tx" s!"{n} has a co-op close tx on record (tx={tx} coop={bit coop}) before it completed the close"
  return s

def dbEndLine (s : St) (rest : List String) : IO St := do
  let mut s := { s with ops := s.ops + 1 }
  let dbeq := (kvInt? rest "dbeq").getD (-1)
  if dbeq == 0 then
    s ← monitor s "persist-tx" "the two sides have different co-op close transactions on record"
  if dbeq == 1 then s := { s with dbBothTxEqual := s.dbBothTxEqual + 1 }
  if let some r := s.rs then
    if (kvNat? rest "restarts").getD 0 != s.restartsSeen then
      s ← mismatch s "dbend: restart count"
    if r.goneI != b01 rest "goneI" || r.goneR != b01 rest "goneR" then
      s ← mismatch s "dbend: gone flags"
  return s

def endLine (s : St) (rest : List String) : IO St := do
  let hdr := s.hdr
  let processed := (kvNat? rest "processed").getD 0
  let capped := b01 rest "capped"
  let stI := hx rest "stateI"
  let stR := hx rest "stateR"
  let offI := intList (hx rest "offersI")
  let offR := intList (hx rest "offersR")
  let txeq := (kvInt? rest "txeq").getD (-1)
  let txfI := (kvInt? rest "txfeeI").getD (-1)
  let txfR := (kvInt? rest "txfeeR").getD (-1)
  let mut s := { s with ops := s.ops + 1, maxProcessed := max s.maxProcessed processed,
                        maxEvents := max s.maxEvents s.evs, csProcessed := s.csProcessed + processed }
  -- ------------------------------------------------------------ (X) final model state
  if let some sys := s.sys then
    let before := (s.rs.map (·.deliveredBefore)).getD 0
    if before + sys.delivered != processed then
      s ← mismatch s s!"end: processed model={before + sys.delivered} impl={processed}"
    let nI := sys.i.node
    let nR := sys.r.node
    if sortInts nI.offers != offI || sortInts nR.offers != offR then
      s ← mismatch s s!"end: offers model I={sortInts nI.offers} R={sortInts nR.offers} impl I={offI} R={offR}"
    if nI.last != (kvInt? rest "lastI").getD 0 || nR.last != (kvInt? rest "lastR").getD 0 then
      s ← mismatch s s!"end: last proposals model I={nI.last} R={nR.last}"
    if nI.done.isSome != (stI == "fin") || nR.done.isSome != (stR == "fin") then
      s ← mismatch s s!"end: finished model I={nI.done.isSome} R={nR.done.isSome} impl I={stI} R={stR}"
    if (sys.i.st == .finished) != (stI == "fin") || (sys.r.st == .finished) != (stR == "fin") then
      s ← mismatch s s!"end: states model I={stName sys.i.st} R={stName sys.r.st} impl I={stI} R={stR}"
  -- ------------------------------------------------------------ (S) monitor, trace only
  let idealI := (kvInt? hdr "idealI").getD 0
  let idealR := (kvInt? hdr "idealR").getD 0
  let openerSat := (kvInt? hdr "openerSat").getD 0
  let dustI := (kvInt? hdr "dustI").getD 0
  let scriptI := hx hdr "scriptI"
  let scriptR := hx hdr "scriptR"
  let upI := hx hdr "upfrontI"
  let upR := hx hdr "upfrontR"
  let tap := s.tap
  let bothFin := stI == "fin" && stR == "fin"
  -- a restart found one side's close completed (tx on record): that side is done, the other one
  -- learns of the close from the chain; it cannot finish the negotiation any more
  let oneGone := s.goneSeen && (stI == "fin" || stR == "fin")
  if s.restartsSeen > 0 then s := { s with restartCases := s.restartCases + 1 }
  if capped then s := { s with capped := s.capped + 1 }
  if let some e := s.errSeen then
    s := { s with errors := s.errors + 1,
                  errExceedsMax := s.errExceedsMax + (if e == "exceedsmax" then 1 else 0),
                  errCannotSign := s.errCannotSign + (if e == "cannotsign" then 1 else 0) }
  if s.cachedSeen then s := { s with earlyCached := s.earlyCached + 1 }
  if s.rFlushedFirst then s := { s with rFirst := s.rFirst + 1 }
  if s.closesBeforeDeliver ≥ 2 then s := { s with crossing := s.crossing + 1 }
  if s.rejUpfront then s := { s with upfrontMismatchRejected := s.upfrontMismatchRejected + 1 }
  if s.rejInvalid then s := { s with invalidScriptRejected := s.invalidScriptRejected + 1 }
  if bothFin then
    s := { s with agreed := s.agreed + 1 }
    -- the close transaction pays to the two announced delivery scripts only
    for (who, key) in [("I", "outsI"), ("R", "outsR")] do
      for (_, sc) in parseOuts (hx rest key) do
        if sc != scriptI && sc != scriptR then
          s ← monitor s "scripts" s!"{who}'s closing tx pays to {sc}, which is neither side's delivery script"
  -- no shutdown could legitimately be rejected: both delivery scripts acceptable, and each upfront
  -- record empty or equal to the peer's script
  let legit := indepValid scriptI && indepValid scriptR &&
    (upI == "-" || upI == scriptR) && (upR == "-" || upR == scriptI)
  if !legit then return s
  s := { s with legit := s.legit + 1 }
  if bothFin then
    match s.lastFinal with
    | none => s ← monitor s "agreed-fee" "both finished without a final offer"
    | some f =>
      if !(offI.contains f && offR.contains f) then
        s ← monitor s "agreed-fee" s!"agreed fee {f} was not offered (signed) by both: I={offI} R={offR}"
      if txeq != 1 then
        s ← monitor s "same-tx" "the two closers hold different closing transactions"
      if txfI != txfR then
        s ← monitor s "agreed-fee" s!"closing txs pay different fees {txfI} / {txfR}"
      if openerSat - f ≥ dustI && dustI ≥ 0 && (kvInt? hdr "otherSat").getD 0 ≥ (kvInt? hdr "dustR").getD 0 && txfI != f then
        s ← monitor s "agreed-fee" s!"closing tx pays fee {txfI}, agreed {f}"
  else if (stI == "fin") != (stR == "fin") && !capped && s.errSeen.isNone && !oneGone then
    s ← monitor s "half-closed" s!"the run stopped with only one side finished (I={stI} R={stR})"
  -- termination. Hypotheses as for kind=neg (checks/C17.json): both ideals >= 10 sat, both within
  -- the opener's cap, both within what the opener can pay.
  let lo := min idealI idealR
  let hi := max idealI idealR
  let budget := s.budget
  let maxCfgI := (kvInt? hdr "maxCfgI").getD 0
  let implMaxI0 := s.implMaxI.getD (if maxCfgI > 0 then maxCfgI else 3 * idealI)
  let implMaxI := match s.minMaxI with | some m => min m implMaxI0 | none => implMaxI0
  if lo < 10 then s := { s with skipBelow10 := s.skipBelow10 + 1 }
  else if hi > implMaxI then s := { s with skipCap := s.skipCap + 1 }
  else if hi > budget then s := { s with skipBudget := s.skipBudget + 1 }
  if lo ≥ 10 && hi ≤ implMaxI && hi ≤ budget && hi < 1152921504606846976 then
    s := { s with termChecked := s.termChecked + 1 }
    let k := lo.toNat / 10
    let bound := (if tap then 3 else 5 + (hi - lo).toNat / k) * (s.restartsSeen + 1)
    if oneGone && !capped && s.errSeen.isNone then
      -- the finished side holds the completed transaction (clause persist-tx); nothing in flight
      if s.qI != 0 || s.qR != 0 then
        s ← monitor s "terminates" s!"final state not quiescent: qI={s.qI} qR={s.qR}"
    else if !bothFin || capped || s.errSeen.isSome then
      s ← monitor s "terminates" s!"honest close idealI={idealI} idealR={idealR} maxI={implMaxI} budget={budget} did not reach agreement under this schedule (I={stI} R={stR} capped={capped} err={s.errSeen.getD "-"} events={s.evs})"
    else if processed > bound then
      s ← monitor s "terminates" s!"needed {processed} processed closing_signed, bound {bound}"
    else if s.qI != 0 || s.qR != 0 then
      s ← monitor s "terminates" s!"final state not quiescent: qI={s.qI} qR={s.qR}"
    if let some f := s.lastFinal then
      if f < lo || f > hi then
        s ← monitor s "agreed-fee" s!"agreed fee {f} outside [{lo},{hi}]"
  return s

def step (s : St) (line : String) : IO St := do
  let s := { s with lines := s.lines + 1 }
  let ws := words line
  match ws with
  | "FACT" :: rest =>
    let s := { s with factSeen := true }
    match kvInt? rest "maxFeeMult" with
    | none => mismatch s "fact maxFeeMult: not reported by the harness"
    | some x =>
      if x != defaultMaxFeeMultiplier then mismatch s s!"fact maxFeeMult: model={defaultMaxFeeMultiplier} impl={x}"
      else return s
  | "CASE" :: id :: rest =>
    let kind := (kv? rest "kind").getD ""
    let mut s := { s with caseId := id, kind := kind, hdr := rest, cases := s.cases + 1, rs := none,
                          lastFailed := none, implMaxI := none, errSeen := none, lastFinal := none,
                          evs := 0, delivers := 0, closesBeforeDeliver := 0, flushes := 0,
                          rFlushedFirst := false, cachedSeen := false, rejUpfront := false,
                          rejInvalid := false, stI := "idle", stR := "idle", qI := 0, qR := 0,
                          sentI := none, sentR := none, finalBy := [], everFinal := [], goneSeen := false,
                          restartsSeen := 0, minMaxI := none }
    if kind == "sched" then
      let idealI := (kvInt? rest "idealI").getD 0
      let idealR := (kvInt? rest "idealR").getD 0
      let openerSat := (kvInt? rest "openerSat").getD 0
      let otherDust := (kvInt? rest "otherSat").getD 0 < (kvInt? rest "dustR").getD 0
      let budget := if otherDust then openerSat - (kvInt? rest "dustI").getD 0 else openerSat
      let tap := b01 rest "taproot"
      let sc (key : String) : Option Script := (kv? rest key).bind hexBytes?
      match sc "scriptI", sc "scriptR", sc "upfrontI", sc "upfrontR" with
      | some sI, some sR, some uI, some uR =>
        let sys := Sys.init (mkNode idealI (maxFeeOf idealI ((kvInt? rest "maxCfgI").getD 0)) budget true tap)
                            (mkNode idealR (maxFeeOf idealR ((kvInt? rest "maxCfgR").getD 0)) budget false tap)
                            sI sR uI uR
        -- closers re-created from a ShutdownInfo after a restart: no close request, default cap
        let i1 : Peer := { sys.i with node := mkNode idealI (maxFeeOf idealI 0) budget true tap }
        let r1 : Peer := { sys.r with node := mkNode idealR (maxFeeOf idealR 0) budget false tap }
        s := { s with rs := some (RSys.init sys i1 r1) }
      | _, _, _, _ => s ← mismatch s "bad script hex in the case header"
      s := { s with budget := budget, tap := tap, schedCases := s.schedCases + 1,
                    taproot := s.taproot + (if tap then 1 else 0),
                    closeByBoth := s.closeByBoth + (if kv? rest "closeBy" == some "both" then 1 else 0),
                    upfrontSet := s.upfrontSet +
                      (if hx rest "upfrontI" != "-" || hx rest "upfrontR" != "-" then 1 else 0) }
      if s.samples < 5 && s.cases % 41 == 5 then
        IO.println s!"SAMPLE {line}"
        s := { s with samples := s.samples + 1 }
    return s
  | "ev" :: "restart" :: _ :: rest => restartLine s rest
  | "ev" :: kind :: w :: rest => evLine s line kind w rest
  | "st" :: rest => stLine s rest
  | "db" :: rest => dbLine s rest
  | "dbend" :: rest => dbEndLine s rest
  | "init" :: who :: rest =>
    let s := { s with ops := s.ops + 1 }
    let some ideal := kvInt? rest "ideal" | mismatch s "bad init"
    let some mx := kvInt? rest "max" | mismatch s "bad init"
    let s := if who == "I" then
        { s with implMaxI := some mx, minMaxI := some (match s.minMaxI with | some m => min m mx | none => mx) }
      else s
    match s.sys with
    | none => return s
    | some sys =>
      let n := if who == "I" then sys.i.node else sys.r.node
      if n.ideal != ideal || n.maxFee != mx then
        mismatch s s!"init {who}: model ideal={n.ideal} max={n.maxFee} impl ideal={ideal} max={mx}"
      else return s
  | "end" :: rest => endLine s rest
  | "vss" :: rest =>
    let s := { s with ops := s.ops + 1, vssLines := s.vssLines + 1 }
    let upH := hx rest "upfront"
    let peerH := hx rest "peer"
    let impl := " ".intercalate (resOf ws)
    let mut s := s
    match hexBytes? upH, hexBytes? peerH with
    | some up, some peer =>
      let model := match validateShutdownScript up peer with
        | none => "ok" | some e => s!"err {closerErrName e}"
      if model != impl then
        s ← mismatch s s!"vss: model=[{model}] impl=[{impl}] upfront={upH} peer={peerH}"
    | _, _ => s ← mismatch s "vss: bad hex"
    let want := indepVss upH peerH
    if want != impl then
      s ← monitor s "vss" s!"validateShutdownScript(upfront={upH}, peer={peerH}) gives [{impl}], the shutdown script rule requires [{want}]"
    s := if impl == "ok" then { s with vssOk := s.vssOk + 1 }
         else if impl == "err invalidscript" then { s with vssInvalid := s.vssInvalid + 1 }
         else { s with vssMismatch := s.vssMismatch + 1 }
    if upH != "-" then s := { s with nontrivial := s.nontrivial + 1 }
    return s
  | "vus" :: rest =>
    let s := { s with ops := s.ops + 1, vusLines := s.vusLines + 1 }
    let h := hx rest "script"
    let impl := resOf ws == ["1"]
    let mut s := s
    match hexBytes? h with
    | some bs =>
      if validShutdownScript bs != impl then
        s ← mismatch s s!"vus: model={validShutdownScript bs} impl={impl} script={h}"
    | none => s ← mismatch s "vus: bad hex"
    if indepValid h != impl then
      s ← monitor s "vss" s!"ValidateUpfrontShutdown({h}) = {impl}, the shutdown script rule says {indepValid h}"
    if impl then s := { s with vusValid := s.vusValid + 1 }
    return s
  | ["END"] => return s
  | [] => return s
  | _ => mismatch s s!"unparsed line: {line.take 80}"

def mainSched : IO Unit := do
  let s ← foldStdin step ({} : St)
  IO.println s!"STAT lines={s.lines}"
  IO.println s!"STAT cases={s.cases}"
  IO.println s!"STAT evaluations={s.ops}"
  IO.println s!"STAT nontrivial={s.nontrivial}"
  IO.println s!"STAT sched_cases={s.schedCases}"
  IO.println s!"STAT sched_events={s.evLines}"
  IO.println s!"STAT sched_closing_signed_processed={s.csProcessed}"
  IO.println s!"STAT taproot={s.taproot}"
  IO.println s!"STAT close_by_both={s.closeByBoth}"
  IO.println s!"STAT early_offer_cached={s.earlyCached}"
  IO.println s!"STAT r_flushed_first={s.rFirst}"
  IO.println s!"STAT crossing_shutdowns={s.crossing}"
  IO.println s!"STAT upfront_set={s.upfrontSet}"
  IO.println s!"STAT upfront_mismatch_rejected={s.upfrontMismatchRejected}"
  IO.println s!"STAT invalid_script_rejected={s.invalidScriptRejected}"
  IO.println s!"STAT empty_script_accepted={s.emptyScriptAccepted}"
  IO.println s!"STAT no_legitimate_rejection_cases={s.legit}"
  IO.println s!"STAT agreed={s.agreed}"
  IO.println s!"STAT errors={s.errors}"
  IO.println s!"STAT errors_exceedsmax={s.errExceedsMax}"
  IO.println s!"STAT errors_cannotsign={s.errCannotSign}"
  IO.println s!"STAT capped={s.capped}"
  IO.println s!"STAT termination_clause_checked={s.termChecked}"
  IO.println s!"STAT termination_skipped_ideal_below_10={s.skipBelow10}"
  IO.println s!"STAT termination_skipped_ideal_above_opener_cap={s.skipCap}"
  IO.println s!"STAT termination_skipped_fee_above_opener_budget={s.skipBudget}"
  IO.println s!"STAT max_processed={s.maxProcessed}"
  IO.println s!"STAT max_events={s.maxEvents}"
  IO.println s!"STAT restart_cases={s.restartCases}"
  IO.println s!"STAT restart_events={s.restartEvents}"
  IO.println s!"STAT restart_side_resent_shutdown={s.restartResend}"
  IO.println s!"STAT restart_side_idle={s.restartIdle}"
  IO.println s!"STAT restart_side_close_tx_on_record={s.restartGone}"
  IO.println s!"STAT restart_messages_dropped={s.restartDropped}"
  IO.println s!"STAT db_lines={s.dbLines}"
  IO.println s!"STAT db_close_tx_persisted_checked={s.dbTxPersisted}"
  IO.println s!"STAT db_both_sides_same_tx={s.dbBothTxEqual}"
  IO.println s!"STAT vss_lines={s.vssLines}"
  IO.println s!"STAT vss_ok={s.vssOk}"
  IO.println s!"STAT vss_invalidscript={s.vssInvalid}"
  IO.println s!"STAT vss_upfrontmismatch={s.vssMismatch}"
  IO.println s!"STAT vus_lines={s.vusLines}"
  IO.println s!"STAT vus_valid={s.vusValid}"
  if !s.factSeen then
    IO.println "MISMATCH case=0 line=0 no FACT line in stream sched"
  IO.println s!"STAT mismatches={s.mismatches + (if s.factSeen then 0 else 1)}"
  IO.println s!"STAT monitor_failures={s.monitorFails}"

end LndModel.C17.DriverSched
