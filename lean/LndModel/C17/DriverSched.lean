/-
C17 driver, stream `sched`: two real legacy ChanClosers driven by a random scheduler (local close
requests, message deliveries of either direction, flush notifications), replayed on
`LndModel.C17.Sys` (Closer.lean); plus the `validateShutdownScript` grid.

(X) correspondence: every `ev` line is one `Sys.step`; the event must be enabled in the model, the
    consumed message must be the head of the model's queue, the answer (reply / error / final) and
    the state line after it (both closer states, both queue lengths, both cache flags) must agree.
(S) monitor: evaluated on the words of the trace only (never on the model's verdicts).
-/
import LndModel.Prelude.Lines
import LndModel.C17.Closer

open LndModel LndModel.Lines LndModel.C17

namespace LndModel.C17.DriverSched

structure St where
  caseId : String := "0"
  kind : String := ""
  hdr : List String := []
  lines : Nat := 0
  cases : Nat := 0
  mismatches : Nat := 0
  monitorFails : Nat := 0
  ops : Nat := 0
  samples : Nat := 0
  nontrivial : Nat := 0
  factSeen : Bool := false
  -- the current sched case: model side
  sys : Option Sys := none
  budget : Int := 0
  lastFailed : Option String := none      -- side whose call failed in the last event
  -- the current sched case: facts collected from the trace for the monitor
  tap : Bool := false
  implMaxI : Option Int := none
  errSeen : Option String := none
  lastFinal : Option Int := none
  evs : Nat := 0
  delivers : Nat := 0
  closesBeforeDeliver : Nat := 0
  flushes : Nat := 0
  rFlushedFirst : Bool := false
  cachedSeen : Bool := false
  rejUpfront : Bool := false
  rejInvalid : Bool := false
  stI : String := "idle"
  stR : String := "idle"
  qI : Nat := 0
  qR : Nat := 0
  -- distribution
  schedCases : Nat := 0
  taproot : Nat := 0
  earlyCached : Nat := 0
  rFirst : Nat := 0
  crossing : Nat := 0
  closeByBoth : Nat := 0
  upfrontSet : Nat := 0
  upfrontMismatchRejected : Nat := 0
  invalidScriptRejected : Nat := 0
  emptyScriptAccepted : Nat := 0
  agreed : Nat := 0
  errors : Nat := 0
  errExceedsMax : Nat := 0
  errCannotSign : Nat := 0
  capped : Nat := 0
  legit : Nat := 0
  termChecked : Nat := 0
  skipBelow10 : Nat := 0
  skipCap : Nat := 0
  skipBudget : Nat := 0
  maxProcessed : Nat := 0
  maxEvents : Nat := 0
  evLines : Nat := 0
  csProcessed : Nat := 0
  vssLines : Nat := 0
  vssOk : Nat := 0
  vssInvalid : Nat := 0
  vssMismatch : Nat := 0
  vusLines : Nat := 0
  vusValid : Nat := 0

def mismatch (s : St) (detail : String) : IO St := do
  IO.println s!"MISMATCH case={s.caseId} line={s.lines} {detail}"
  return { s with mismatches := s.mismatches + 1 }

def monitor (s : St) (clause detail : String) : IO St := do
  IO.println s!"MONITOR case={s.caseId} clause={clause} line={s.lines} {detail}"
  return { s with monitorFails := s.monitorFails + 1 }

def b01 (ws : List String) (key : String) : Bool := kvNat? ws key == some 1
def hx (ws : List String) (key : String) : String := (kv? ws key).getD "-"
def bit (x : Bool) : String := if x then "1" else "0"

def resOf (ws : List String) : List String :=
  match ws.dropWhile (· ≠ "=>") with
  | _ :: r => r
  | _ => []

def argsOf (ws : List String) : List String := ws.takeWhile (· ≠ "=>")

/-- drop the `sig=` word (the model has no main signature field). -/
def noSig (ws : List String) : String := " ".intercalate (ws.filter fun w => !w.startsWith "sig=")

/-! ### model side -/

def closerErrName : CloserErr → String
  | .alreadyClosing => "alreadyclosing"
  | .invalidState => "invalidstate"
  | .invalidScript => "invalidscript"
  | .upfrontMismatch => "upfrontmismatch"
  | .noNonce => "nononce"
  | .noPartialSig => "nopartialsig"
  | .neg .exceedsMax => "exceedsmax"
  | .neg .cannotAfford => "cannotsign"
  | .neg .taprootMismatch => "taprootmismatch"

def stName : CState → String
  | .idle => "idle" | .shutdownInitiated => "shutdown" | .awaitingFlush => "flush"
  | .feeNegotiation => "neg" | .finished => "fin"

def whoOf : String → Option Who
  | "I" => some .I | "R" => some .R | _ => none

def ownQ (s : Sys) : Who → List Msg
  | .I => s.toI | .R => s.toR

def otherQ (s : Sys) : Who → List Msg
  | .I => s.toR | .R => s.toI

def msgStr : Msg → String
  | .shutdown sc n => s!"sd script={bytesHex sc} nonce={bit n}"
  | .closingSigned f ps => s!"cs fee={f} psig={bit ps}"

/-- the model's answer of one step, in the words of the trace. -/
def modelResult (shutdownCall : Bool) (before after : Sys) (w : Who) : String :=
  match after.failed with
  | some e => s!"err {closerErrName e}"
  | none =>
    let out := if (otherQ after w).length > (otherQ before w).length then (otherQ after w).getLast? else none
    let fin := (before.peer w).st != .finished && (after.peer w).st == .finished
    match out with
    | none => if shutdownCall then "ok none" else "none"
    | some (.shutdown sc n) => s!"ok sd script={bytesHex sc} nonce={bit n}"
    | some (.closingSigned f ps) => s!"{if fin then "final" else "send"} {f} psig={bit ps}"

def sortInts (l : List Int) : List Int :=
  l.foldr (fun x acc => (acc.takeWhile (· < x)) ++ x :: acc.dropWhile (· < x)) []

def intList (s : String) : List Int :=
  if s == "-" then [] else (s.splitOn ",").filterMap int?

/-! ### monitor side: an independent reading of the shutdown script rule -/

/-- BOLT 2 shutdown scripts as lnd accepts them: p2wpkh, p2wsh, or a witness program of version
    1..16: `OP_1..OP_16`, then one direct push of 2..40 bytes that makes up the rest. -/
def indepValidBytes : List Nat → Bool
  | v :: l :: prog =>
    let n := prog.length
    l == n && 2 ≤ n && n ≤ 40 &&
      ((v == 0 && (n == 20 || n == 32)) || (81 ≤ v && v ≤ 96))
  | _ => false

/-- on the hex text of the trace (`-` = empty, never valid). -/
def indepValid (h : String) : Bool :=
  if h == "-" then false else
  match hexBytes? h with
  | some bs => indepValidBytes bs
  | none => false

/-- the decision `validateShutdownScript` has to make, from the two hex texts. -/
def indepVss (up peer : String) : String :=
  if (up != "-" && !indepValid up) || (peer != "-" && !indepValid peer) then "err invalidscript"
  else if up == "-" then "ok"
  else if up != peer then "err upfrontmismatch"
  else "ok"

def parseOuts (s : String) : List (Int × String) :=
  if s == "-" then [] else
  (s.splitOn ",").filterMap fun w =>
    match w.splitOn ":" with
    | [v, sc] => (int? v).map (·, sc)
    | _ => none

/-- sig-field rule for one printed message (`sd … nonce=` / `… sig= psig=`). -/
def sigFieldsOk (tap : Bool) (ws : List String) : Bool :=
  match kvNat? ws "nonce", kvNat? ws "sig", kvNat? ws "psig" with
  | some n, _, _ => (n == 1) == tap
  | none, some sg, some ps => ((ps == 1) == tap) && ((sg == 1) == !tap)
  | _, _, _ => true

/-! ### one line -/

def evLine (s : St) (line : String) (kind wS : String) (rest : List String) : IO St := do
  let mut s := { s with ops := s.ops + 1, evs := s.evs + 1, evLines := s.evLines + 1, lastFailed := none }
  let args := argsOf rest
  let res := resOf rest
  let implRes := noSig res
  let isErr := res.head? == some "err" || res.head? == some "panic"
  let isSd := args.head? == some "sd"
  let isCs := args.head? == some "cs"
  -- ------------------------------------------------------------ (X) correspondence
  if let some sys := s.sys then
    match whoOf wS with
    | none => s ← mismatch s s!"bad side in: {line.take 60}"
    | some w =>
      let ev? : Option Ev := match kind with
        | "close" => some (.userClose w) | "deliver" => some (.deliver w) | "flush" => some (.flush w)
        | _ => none
      match ev? with
      | none => s ← mismatch s s!"unknown event: {line.take 60}"
      | some ev =>
        if kind == "deliver" then
          let consumed := noSig args
          let head := (ownQ sys w).head?.map msgStr
          if head != some consumed then
            s ← mismatch s s!"deliver {wS}: model queue head=[{head.getD "empty"}] impl consumed=[{consumed}]"
        match sys.step ev with
        | none =>
          s ← mismatch s s!"event `{kind} {wS}` is not enabled in the model (I={stName sys.i.st} R={stName sys.r.st} toI={sys.toI.length} toR={sys.toR.length} failed={sys.failed.isSome})"
          s := { s with sys := none }
        | some sys' =>
          let m := modelResult (kind == "close" || isSd) sys sys' w
          if m != implRes then
            s ← mismatch s s!"{kind} {wS} {noSig args}: model=[{m}] impl=[{implRes}]"
          s := { s with sys := some sys' }
  -- ------------------------------------------------------------ (S) monitor, trace only
  if isErr then
    s := { s with lastFailed := some wS }
    if s.errSeen.isNone then s := { s with errSeen := some (res.getD 1 "panic") }
  if kind == "deliver" then s := { s with delivers := s.delivers + 1, nontrivial := s.nontrivial + 1 }
  if kind == "close" && s.delivers == 0 then s := { s with closesBeforeDeliver := s.closesBeforeDeliver + 1 }
  if kind == "flush" then
    if s.flushes == 0 && wS == "R" then s := { s with rFlushedFirst := true }
    s := { s with flushes := s.flushes + 1, nontrivial := s.nontrivial + 1 }
  -- sig fields of every message printed on this line
  if !sigFieldsOk s.tap args then
    s ← monitor s "sig-fields" s!"taproot={bit s.tap}: received message carries the wrong signature fields: {" ".intercalate args}"
  if !isErr && !sigFieldsOk s.tap res then
    s ← monitor s "sig-fields" s!"taproot={bit s.tap}: sent message carries the wrong signature fields: {" ".intercalate res}"
  -- upfront shutdown rule
  if kind == "deliver" && isSd then
    let script := hx args "script"
    let up := hx s.hdr (if wS == "I" then "upfrontI" else "upfrontR")
    let differs := up != "-" && up != script
    let invalid := script != "-" && !indepValid script
    if differs || invalid then
      if !isErr then
        s ← monitor s "upfront-shutdown" s!"{wS} accepted a Shutdown to script {script} (upfront on record {up}; differs={differs} invalid={invalid})"
      else if res.getD 1 "" == "upfrontmismatch" then s := { s with rejUpfront := true }
      else if res.getD 1 "" == "invalidscript" then s := { s with rejInvalid := true }
    else if indepValid script then
      let e := res.getD 1 ""
      if isErr && (e == "upfrontmismatch" || e == "invalidscript") then
        s ← monitor s "upfront-shutdown" s!"{wS} rejected ({e}) a valid Shutdown script {script} that matches its upfront record {up}"
    else if script == "-" && !isErr then
      s := { s with emptyScriptAccepted := s.emptyScriptAccepted + 1 }
  -- agreed fee: every `final` of a case names the same fee
  if isCs || kind == "flush" then
    if let "final" :: v :: _ := res then
      let fv := (int? v).getD 0
      if let some prev := s.lastFinal then
        if prev != fv then
          s ← monitor s "agreed-fee" s!"the two sides completed the close with different fees {prev} / {fv}"
      s := { s with lastFinal := some fv }
  return s

def stLine (s : St) (rest : List String) : IO St := do
  let mut s := { s with ops := s.ops + 1 }
  let iS := hx rest "I"
  let rS := hx rest "R"
  let qI := (kvNat? rest "qI").getD 0
  let qR := (kvNat? rest "qR").getD 0
  let cI := b01 rest "cachedI"
  let cR := b01 rest "cachedR"
  if cI || cR then s := { s with cachedSeen := true }
  s := { s with stI := iS, stR := rS, qI := qI, qR := qR }
  if let some sys := s.sys then
    -- after a failed call the connection is torn down; the model keeps the failing closer's state
    -- as it was, the code may have advanced it (BeginNegotiation enters closeFeeNegotiation before
    -- signing): that closer's state is not compared.
    let cmpI := s.lastFailed != some "I"
    let cmpR := s.lastFailed != some "R"
    if (cmpI && stName sys.i.st != iS) || (cmpR && stName sys.r.st != rS) then
      s ← mismatch s s!"states: model I={stName sys.i.st} R={stName sys.r.st} impl I={iS} R={rS}"
    if sys.toI.length != qI || sys.toR.length != qR then
      s ← mismatch s s!"queues: model toI={sys.toI.length} toR={sys.toR.length} impl qI={qI} qR={qR}"
    if sys.i.cached.isSome != cI || sys.r.cached.isSome != cR then
      s ← mismatch s s!"cache: model I={sys.i.cached.isSome} R={sys.r.cached.isSome} impl I={cI} R={cR}"
  return s

def endLine (s : St) (rest : List String) : IO St := do
  let hdr := s.hdr
  let processed := (kvNat? rest "processed").getD 0
  let capped := b01 rest "capped"
  let stI := hx rest "stateI"
  let stR := hx rest "stateR"
  let offI := intList (hx rest "offersI")
  let offR := intList (hx rest "offersR")
  let txeq := (kvInt? rest "txeq").getD (-1)
  let txfI := (kvInt? rest "txfeeI").getD (-1)
  let txfR := (kvInt? rest "txfeeR").getD (-1)
  let mut s := { s with ops := s.ops + 1, maxProcessed := max s.maxProcessed processed,
                        maxEvents := max s.maxEvents s.evs, csProcessed := s.csProcessed + processed }
  -- ------------------------------------------------------------ (X) final model state
  if let some sys := s.sys then
    if sys.delivered != processed then
      s ← mismatch s s!"end: processed model={sys.delivered} impl={processed}"
    let nI := sys.i.node
    let nR := sys.r.node
    if sortInts nI.offers != offI || sortInts nR.offers != offR then
      s ← mismatch s s!"end: offers model I={sortInts nI.offers} R={sortInts nR.offers} impl I={offI} R={offR}"
    if nI.last != (kvInt? rest "lastI").getD 0 || nR.last != (kvInt? rest "lastR").getD 0 then
      s ← mismatch s s!"end: last proposals model I={nI.last} R={nR.last}"
    if nI.done.isSome != (stI == "fin") || nR.done.isSome != (stR == "fin") then
      s ← mismatch s s!"end: finished model I={nI.done.isSome} R={nR.done.isSome} impl I={stI} R={stR}"
    if (sys.i.st == .finished) != (stI == "fin") || (sys.r.st == .finished) != (stR == "fin") then
      s ← mismatch s s!"end: states model I={stName sys.i.st} R={stName sys.r.st} impl I={stI} R={stR}"
  -- ------------------------------------------------------------ (S) monitor, trace only
  let idealI := (kvInt? hdr "idealI").getD 0
  let idealR := (kvInt? hdr "idealR").getD 0
  let openerSat := (kvInt? hdr "openerSat").getD 0
  let dustI := (kvInt? hdr "dustI").getD 0
  let scriptI := hx hdr "scriptI"
  let scriptR := hx hdr "scriptR"
  let upI := hx hdr "upfrontI"
  let upR := hx hdr "upfrontR"
  let tap := s.tap
  let bothFin := stI == "fin" && stR == "fin"
  if capped then s := { s with capped := s.capped + 1 }
  if let some e := s.errSeen then
    s := { s with errors := s.errors + 1,
                  errExceedsMax := s.errExceedsMax + (if e == "exceedsmax" then 1 else 0),
                  errCannotSign := s.errCannotSign + (if e == "cannotsign" then 1 else 0) }
  if s.cachedSeen then s := { s with earlyCached := s.earlyCached + 1 }
  if s.rFlushedFirst then s := { s with rFirst := s.rFirst + 1 }
  if s.closesBeforeDeliver ≥ 2 then s := { s with crossing := s.crossing + 1 }
  if s.rejUpfront then s := { s with upfrontMismatchRejected := s.upfrontMismatchRejected + 1 }
  if s.rejInvalid then s := { s with invalidScriptRejected := s.invalidScriptRejected + 1 }
  if bothFin then
    s := { s with agreed := s.agreed + 1 }
    -- the close transaction pays to the two announced delivery scripts only
    for (who, key) in [("I", "outsI"), ("R", "outsR")] do
      for (_, sc) in parseOuts (hx rest key) do
        if sc != scriptI && sc != scriptR then
          s ← monitor s "scripts" s!"{who}'s closing tx pays to {sc}, which is neither side's delivery script"
  -- no shutdown could legitimately be rejected: both delivery scripts acceptable, and each upfront
  -- record empty or equal to the peer's script
  let legit := indepValid scriptI && indepValid scriptR &&
    (upI == "-" || upI == scriptR) && (upR == "-" || upR == scriptI)
  if !legit then return s
  s := { s with legit := s.legit + 1 }
  if bothFin then
    match s.lastFinal with
    | none => s ← monitor s "agreed-fee" "both finished without a final offer"
    | some f =>
      if !(offI.contains f && offR.contains f) then
        s ← monitor s "agreed-fee" s!"agreed fee {f} was not offered (signed) by both: I={offI} R={offR}"
      if txeq != 1 then
        s ← monitor s "same-tx" "the two closers hold different closing transactions"
      if txfI != txfR then
        s ← monitor s "agreed-fee" s!"closing txs pay different fees {txfI} / {txfR}"
      if openerSat - f ≥ dustI && dustI ≥ 0 && (kvInt? hdr "otherSat").getD 0 ≥ (kvInt? hdr "dustR").getD 0 && txfI != f then
        s ← monitor s "agreed-fee" s!"closing tx pays fee {txfI}, agreed {f}"
  else if (stI == "fin") != (stR == "fin") && !capped && s.errSeen.isNone then
    s ← monitor s "half-closed" s!"the run stopped with only one side finished (I={stI} R={stR})"
  -- termination. Hypotheses as for kind=neg (checks/C17.json): both ideals >= 10 sat, both within
  -- the opener's cap, both within what the opener can pay.
  let lo := min idealI idealR
  let hi := max idealI idealR
  let budget := s.budget
  let maxCfgI := (kvInt? hdr "maxCfgI").getD 0
  let implMaxI := s.implMaxI.getD (if maxCfgI > 0 then maxCfgI else 3 * idealI)
  if lo < 10 then s := { s with skipBelow10 := s.skipBelow10 + 1 }
  else if hi > implMaxI then s := { s with skipCap := s.skipCap + 1 }
  else if hi > budget then s := { s with skipBudget := s.skipBudget + 1 }
  if lo ≥ 10 && hi ≤ implMaxI && hi ≤ budget && hi < 1152921504606846976 then
    s := { s with termChecked := s.termChecked + 1 }
    let k := lo.toNat / 10
    let bound := if tap then 3 else 5 + (hi - lo).toNat / k
    if !bothFin || capped || s.errSeen.isSome then
      s ← monitor s "terminates" s!"honest close idealI={idealI} idealR={idealR} maxI={implMaxI} budget={budget} did not reach agreement under this schedule (I={stI} R={stR} capped={capped} err={s.errSeen.getD "-"} events={s.evs})"
    else if processed > bound then
      s ← monitor s "terminates" s!"needed {processed} processed closing_signed, bound {bound}"
    else if s.qI != 0 || s.qR != 0 then
      s ← monitor s "terminates" s!"final state not quiescent: qI={s.qI} qR={s.qR}"
    if let some f := s.lastFinal then
      if f < lo || f > hi then
        s ← monitor s "agreed-fee" s!"agreed fee {f} outside [{lo},{hi}]"
  return s

def step (s : St) (line : String) : IO St := do
  let s := { s with lines := s.lines + 1 }
  let ws := words line
  match ws with
  | "FACT" :: rest =>
    let s := { s with factSeen := true }
    match kvInt? rest "maxFeeMult" with
    | none => mismatch s "fact maxFeeMult: not reported by the harness"
    | some x =>
      if x != defaultMaxFeeMultiplier then mismatch s s!"fact maxFeeMult: model={defaultMaxFeeMultiplier} impl={x}"
      else return s
  | "CASE" :: id :: rest =>
    let kind := (kv? rest "kind").getD ""
    let mut s := { s with caseId := id, kind := kind, hdr := rest, cases := s.cases + 1, sys := none,
                          lastFailed := none, implMaxI := none, errSeen := none, lastFinal := none,
                          evs := 0, delivers := 0, closesBeforeDeliver := 0, flushes := 0,
                          rFlushedFirst := false, cachedSeen := false, rejUpfront := false,
                          rejInvalid := false, stI := "idle", stR := "idle", qI := 0, qR := 0 }
    if kind == "sched" then
      let idealI := (kvInt? rest "idealI").getD 0
      let idealR := (kvInt? rest "idealR").getD 0
      let openerSat := (kvInt? rest "openerSat").getD 0
      let otherDust := (kvInt? rest "otherSat").getD 0 < (kvInt? rest "dustR").getD 0
      let budget := if otherDust then openerSat - (kvInt? rest "dustI").getD 0 else openerSat
      let tap := b01 rest "taproot"
      let sc (key : String) : Option Script := (kv? rest key).bind hexBytes?
      match sc "scriptI", sc "scriptR", sc "upfrontI", sc "upfrontR" with
      | some sI, some sR, some uI, some uR =>
        let sys := Sys.init (mkNode idealI (maxFeeOf idealI ((kvInt? rest "maxCfgI").getD 0)) budget true tap)
                            (mkNode idealR (maxFeeOf idealR ((kvInt? rest "maxCfgR").getD 0)) budget false tap)
                            sI sR uI uR
        s := { s with sys := some sys }
      | _, _, _, _ => s ← mismatch s "bad script hex in the case header"
      s := { s with budget := budget, tap := tap, schedCases := s.schedCases + 1,
                    taproot := s.taproot + (if tap then 1 else 0),
                    closeByBoth := s.closeByBoth + (if kv? rest "closeBy" == some "both" then 1 else 0),
                    upfrontSet := s.upfrontSet +
                      (if hx rest "upfrontI" != "-" || hx rest "upfrontR" != "-" then 1 else 0) }
      if s.samples < 5 && s.cases % 41 == 5 then
        IO.println s!"SAMPLE {line}"
        s := { s with samples := s.samples + 1 }
    return s
  | "ev" :: kind :: w :: rest => evLine s line kind w rest
  | "st" :: rest => stLine s rest
  | "init" :: who :: rest =>
    let s := { s with ops := s.ops + 1 }
    let some ideal := kvInt? rest "ideal" | mismatch s "bad init"
    let some mx := kvInt? rest "max" | mismatch s "bad init"
    let s := if who == "I" then { s with implMaxI := some mx } else s
    match s.sys with
    | none => return s
    | some sys =>
      let n := if who == "I" then sys.i.node else sys.r.node
      if n.ideal != ideal || n.maxFee != mx then
        mismatch s s!"init {who}: model ideal={n.ideal} max={n.maxFee} impl ideal={ideal} max={mx}"
      else return s
  | "end" :: rest => endLine s rest
  | "vss" :: rest =>
    let s := { s with ops := s.ops + 1, vssLines := s.vssLines + 1 }
    let upH := hx rest "upfront"
    let peerH := hx rest "peer"
    let impl := " ".intercalate (resOf ws)
    let mut s := s
    match hexBytes? upH, hexBytes? peerH with
    | some up, some peer =>
      let model := match validateShutdownScript up peer with
        | none => "ok" | some e => s!"err {closerErrName e}"
      if model != impl then
        s ← mismatch s s!"vss: model=[{model}] impl=[{impl}] upfront={upH} peer={peerH}"
    | _, _ => s ← mismatch s "vss: bad hex"
    let want := indepVss upH peerH
    if want != impl then
      s ← monitor s "vss" s!"validateShutdownScript(upfront={upH}, peer={peerH}) gives [{impl}], the shutdown script rule requires [{want}]"
    s := if impl == "ok" then { s with vssOk := s.vssOk + 1 }
         else if impl == "err invalidscript" then { s with vssInvalid := s.vssInvalid + 1 }
         else { s with vssMismatch := s.vssMismatch + 1 }
    if upH != "-" then s := { s with nontrivial := s.nontrivial + 1 }
    return s
  | "vus" :: rest =>
    let s := { s with ops := s.ops + 1, vusLines := s.vusLines + 1 }
    let h := hx rest "script"
    let impl := resOf ws == ["1"]
    let mut s := s
    match hexBytes? h with
    | some bs =>
      if validShutdownScript bs != impl then
        s ← mismatch s s!"vus: model={validShutdownScript bs} impl={impl} script={h}"
    | none => s ← mismatch s "vus: bad hex"
    if indepValid h != impl then
      s ← monitor s "vss" s!"ValidateUpfrontShutdown({h}) = {impl}, the shutdown script rule says {indepValid h}"
    if impl then s := { s with vusValid := s.vusValid + 1 }
    return s
  | ["END"] => return s
  | [] => return s
  | _ => mismatch s s!"unparsed line: {line.take 80}"

def mainSched : IO Unit := do
  let s ← foldStdin step ({} : St)
  IO.println s!"STAT lines={s.lines}"
  IO.println s!"STAT cases={s.cases}"
  IO.println s!"STAT evaluations={s.ops}"
  IO.println s!"STAT nontrivial={s.nontrivial}"
  IO.println s!"STAT sched_cases={s.schedCases}"
  IO.println s!"STAT sched_events={s.evLines}"
  IO.println s!"STAT sched_closing_signed_processed={s.csProcessed}"
  IO.println s!"STAT taproot={s.taproot}"
  IO.println s!"STAT close_by_both={s.closeByBoth}"
  IO.println s!"STAT early_offer_cached={s.earlyCached}"
  IO.println s!"STAT r_flushed_first={s.rFirst}"
  IO.println s!"STAT crossing_shutdowns={s.crossing}"
  IO.println s!"STAT upfront_set={s.upfrontSet}"
  IO.println s!"STAT upfront_mismatch_rejected={s.upfrontMismatchRejected}"
  IO.println s!"STAT invalid_script_rejected={s.invalidScriptRejected}"
  IO.println s!"STAT empty_script_accepted={s.emptyScriptAccepted}"
  IO.println s!"STAT no_legitimate_rejection_cases={s.legit}"
  IO.println s!"STAT agreed={s.agreed}"
  IO.println s!"STAT errors={s.errors}"
  IO.println s!"STAT errors_exceedsmax={s.errExceedsMax}"
  IO.println s!"STAT errors_cannotsign={s.errCannotSign}"
  IO.println s!"STAT capped={s.capped}"
  IO.println s!"STAT termination_clause_checked={s.termChecked}"
  IO.println s!"STAT termination_skipped_ideal_below_10={s.skipBelow10}"
  IO.println s!"STAT termination_skipped_ideal_above_opener_cap={s.skipCap}"
  IO.println s!"STAT termination_skipped_fee_above_opener_budget={s.skipBudget}"
  IO.println s!"STAT max_processed={s.maxProcessed}"
  IO.println s!"STAT max_events={s.maxEvents}"
  IO.println s!"STAT vss_lines={s.vssLines}"
  IO.println s!"STAT vss_ok={s.vssOk}"
  IO.println s!"STAT vss_invalidscript={s.vssInvalid}"
  IO.println s!"STAT vss_upfrontmismatch={s.vssMismatch}"
  IO.println s!"STAT vus_lines={s.vusLines}"
  IO.println s!"STAT vus_valid={s.vusValid}"
  if !s.factSeen then
    IO.println "MISMATCH case=0 line=0 no FACT line in stream sched"
  IO.println s!"STAT mismatches={s.mismatches + (if s.factSeen then 0 else 1)}"
  IO.println s!"STAT monitor_failures={s.monitorFails}"

end LndModel.C17.DriverSched
