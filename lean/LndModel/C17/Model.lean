/-
C17 — executable model of lnd's cooperative close (core Lean only).

Modelled code (what it does, not what it should do):

* `lnwallet/commitment.go`  `CoopCloseBalance`
* `lnwallet/channel.go`     `CreateCooperativeCloseTx` (without aux "extra outputs" / custom sort),
                            `CreateCloseProposal` / `CompleteCooperativeClose` up to the signature
                            (balances from `LocalCommitment` truncated msat→sat, `CheckTransactionSanity`)
* `lnwallet/chancloser/chancloser.go`  `feeInAcceptableRange`, `ratchetFee`, `calcCompromiseFee`
                            (exact int64 semantics of `btcutil.Amount`), `ReceiveClosingSigned`
                            / `proposeCloseSigned` / `BeginNegotiation` as a two-party system `Net`.

Signatures / musig2 are not modelled (they are exercised for real by the harness); a close
transaction is the abstract triple (sequence, locktime, sorted outputs).
-/
namespace LndModel.C17

/-! ### Go `int64` arithmetic (`btcutil.Amount`) -/

/-- two's complement wrap-around into `[-2^63, 2^63)`. -/
def wrap64 (x : Int) : Int :=
  (x + 9223372036854775808) % 18446744073709551616 - 9223372036854775808

def add64 (a b : Int) : Int := wrap64 (a + b)
def sub64 (a b : Int) : Int := wrap64 (a - b)
def mul64 (a b : Int) : Int := wrap64 (a * b)
/-- Go `/` on signed integers truncates toward zero. -/
def div64 (a b : Int) : Int := wrap64 (Int.tdiv a b)

/-- `feeInAcceptableRange(localFee, remoteFee)`: remote within 30 % of local. -/
def feeInAcceptableRange (localFee remoteFee : Int) : Bool :=
  if localFee < remoteFee then
    decide (remoteFee ≤ add64 localFee (div64 (mul64 localFee 3) 10))
  else
    decide (remoteFee ≥ sub64 localFee (div64 (mul64 localFee 3) 10))

/-- `ratchetFee(fee, up)`: ±10 %, integer division. -/
def ratchetFee (fee : Int) (up : Bool) : Int :=
  if up then add64 fee (div64 (mul64 fee 1) 10) else sub64 fee (div64 (mul64 fee 1) 10)

/-- `calcCompromiseFee(ourIdealFee, lastSentFee, remoteFee)`. -/
def calcCompromiseFee (ideal last remote : Int) : Int :=
  if ideal = remote ∨ last = 0 then ideal
  else if remote = last then last
  else if remote < last then
    if feeInAcceptableRange last remote then remote else ratchetFee last false
  else if remote > last then
    if feeInAcceptableRange last remote then remote else ratchetFee last true
  else remote

/-! ### `CoopCloseBalance` -/

inductive Party where
  | «local» | remote
  deriving DecidableEq, Repr

def Party.other : Party → Party
  | .local => .remote
  | .remote => .local

/-- `AnchorSize` (sat). -/
def anchorSize : Int := 330

/-- what is credited back to the channel opener: the dangling commitment fee and, for anchor
    channels, both anchor outputs. -/
def initiatorDelta (anchors : Bool) (commitFee : Int) : Int :=
  commitFee + (if anchors then 2 * anchorSize else 0)

/-- the party charged with the closing fee. -/
def payerOf (isInit : Bool) (payer : Option Party) : Party :=
  payer.getD (if isInit then .local else .remote)

/-- `CoopCloseBalance(chanType, isInitiator, fee, ourBalance, theirBalance, commitFee, feePayer)`;
    `none` = "initiator cannot afford proposed coop close fee". -/
def coopCloseBalance (anchors isInit : Bool) (fee our their commitFee : Int)
    (payer : Option Party) : Option (Int × Int) :=
  let delta := initiatorDelta anchors commitFee
  let our1 := if isInit then our + delta else our
  let their1 := if isInit then their else their + delta
  let our2 := if payerOf isInit payer = .local then our1 - fee else our1
  let their2 := if payerOf isInit payer = .remote then their1 - fee else their1
  if our2 < 0 ∨ their2 < 0 then none else some (our2, their2)

/-! ### the abstract close transaction -/

abbrev Script := List Nat

structure TxOut where
  value : Int
  script : Script
  deriving DecidableEq, Repr

structure CloseTx where
  sequence : Nat
  lockTime : Nat
  outs : List TxOut
  deriving DecidableEq, Repr

/-- `bytes.Compare(a, b) < 0`. -/
def scriptLt : Script → Script → Bool
  | [], [] => false
  | [], _ :: _ => true
  | _ :: _, [] => false
  | a :: as, b :: bs => if a < b then true else if b < a then false else scriptLt as bs

/-- BIP 69 output order (`txsort`): by amount, then by script bytes. -/
def outLt (a b : TxOut) : Bool :=
  decide (a.value < b.value) || (decide (a.value = b.value) && scriptLt a.script b.script)

def insertOut (x : TxOut) : List TxOut → List TxOut
  | [] => [x]
  | y :: ys => if outLt x y then x :: y :: ys else y :: insertOut x ys

/-- insertion sort (what `sort.Sort` does on the ≤ 2 outputs that occur here). -/
def sortOuts : List TxOut → List TxOut
  | [] => []
  | x :: xs => insertOut x (sortOuts xs)

def maxRBFSequence : Nat := 4294967293
def defaultSequence : Nat := 4294967295

structure TxOpts where
  rbf : Bool := false
  customSeq : Option Nat := none
  customLock : Option Nat := none
  deriving DecidableEq, Repr

def TxOpts.sequence (o : TxOpts) : Nat :=
  match o.customSeq with
  | some s => s
  | none => if o.rbf then maxRBFSequence else defaultSequence

/-- one party's output: omitted below the OWNER's dust limit; zeroed for an OP_RETURN script
    when a custom sequence is set (RBF flow). -/
def partyOut (o : TxOpts) (dust bal : Int) (script : Script) (opRet : Bool) : List TxOut :=
  if bal ≥ dust then
    [⟨if o.customSeq.isSome && opRet then 0 else bal, script⟩]
  else []

/-- `CreateCooperativeCloseTx(localDust, remoteDust, ourBalance, theirBalance, ourScript,
    theirScript, opts…)`; `lop`/`rop` are `input.ScriptIsOpReturn` of the two scripts. -/
def createCloseTx (o : TxOpts) (localDust remoteDust our their : Int)
    (ls rs : Script) (lop rop : Bool) : CloseTx :=
  { sequence := o.sequence
    lockTime := o.customLock.getD 0
    outs := sortOuts (partyOut o localDust our ls lop ++ partyOut o remoteDust their rs rop) }

/-! ### `CreateCloseProposal` / `CompleteCooperativeClose` (up to signing) -/

/-- one side's view of the channel (`channelState`). -/
structure View where
  localMsat : Nat
  remoteMsat : Nat
  commitFee : Int
  isInit : Bool
  anchors : Bool
  taproot : Bool
  localDust : Int
  remoteDust : Int
  deriving DecidableEq, Repr

/-- the arguments of one close attempt as seen from one side. -/
structure CloseReq where
  fee : Int
  localScript : Script
  remoteScript : Script
  lop : Bool
  rop : Bool
  payer : Option Party := none
  customSeq : Option Nat := none
  customLock : Option Nat := none
  deriving DecidableEq, Repr

inductive CloseErr where
  | afford      -- CoopCloseBalance: payer cannot afford the fee
  | noOutputs   -- CheckTransactionSanity: ErrNoTxOutputs
  | sanity      -- CheckTransactionSanity: amount out of range
  deriving DecidableEq, Repr

def maxSatoshi : Int := 2100000000000000

def sumOuts : List TxOut → Int
  | [] => 0
  | o :: os => o.value + sumOuts os

/-- the value checks of `blockchain.CheckTransactionSanity`. -/
def sanityErr (outs : List TxOut) : Option CloseErr :=
  if outs.isEmpty then some .noOutputs
  else if outs.any (fun o => o.value < 0 || o.value > maxSatoshi) then some .sanity
  else if sumOuts outs > maxSatoshi then some .sanity
  else none

def View.txOpts (v : View) (r : CloseReq) : TxOpts :=
  { rbf := v.taproot, customSeq := r.customSeq, customLock := r.customLock }

/-- msat → sat truncation (`MilliSatoshi.ToSatoshis`). -/
def toSat (m : Nat) : Int := ((m / 1000 : Nat) : Int)

/-- the unsigned close transaction and "our" final balance. -/
def closeProposal (v : View) (r : CloseReq) : Except CloseErr (CloseTx × Int) :=
  match coopCloseBalance v.anchors v.isInit r.fee (toSat v.localMsat) (toSat v.remoteMsat)
          v.commitFee r.payer with
  | none => .error .afford
  | some (our, their) =>
    let tx := createCloseTx (v.txOpts r) v.localDust v.remoteDust our their
                r.localScript r.remoteScript r.lop r.rop
    match sanityErr tx.outs with
    | some e => .error e
    | none => .ok (tx, our)

/-- the other side's view of the same channel state. -/
def View.mirror (v : View) : View :=
  { v with localMsat := v.remoteMsat, remoteMsat := v.localMsat, isInit := !v.isInit,
           localDust := v.remoteDust, remoteDust := v.localDust }

/-- the other side's arguments for the same close attempt. -/
def CloseReq.mirror (r : CloseReq) : CloseReq :=
  { r with localScript := r.remoteScript, remoteScript := r.localScript, lop := r.rop, rop := r.lop,
           payer := r.payer.map Party.other }

/-! ### RBF co-op close (`rbf_coop_transitions.go`), balance / fee / sig-field level -/

/-- which sig field of closing_complete / closing_sig is used. -/
inductive SigLabel where
  | closerOnly   -- closer_output_only      (`CloserNoClosee`)
  | closeeOnly   -- closee_output_only      (`NoCloserClosee`)
  | both         -- closer_and_closee_outputs (`CloserAndClosee`)
  deriving DecidableEq, Repr

/-- one side's `CloseChannelTerms` together with its channel view. `sdLocal` / `sdRemote` are
    `lnwallet.DustLimitForSize(len(script))` of the two delivery scripts (shutdown scripts are
    witness programs, never OP_RETURN). -/
structure RbfTerms where
  v : View
  localScript : Script
  remoteScript : Script
  sdLocal : Int
  sdRemote : Int
  deriving DecidableEq, Repr

def RbfTerms.mirror (t : RbfTerms) : RbfTerms :=
  { v := t.v.mirror, localScript := t.remoteScript, remoteScript := t.localScript,
    sdLocal := t.sdRemote, sdRemote := t.sdLocal }

/-- the lnwallet request both roles make: custom payer, `MaxRBFSequence`, optional locktime. -/
def rbfReq (t : RbfTerms) (fee : Int) (payer : Party) (lock : Option Nat) : CloseReq :=
  { fee := fee, localScript := t.localScript, remoteScript := t.remoteScript, lop := false,
    rop := false, payer := some payer, customSeq := some maxRBFSequence, customLock := lock }

inductive RbfOffer where
  | skip                         -- `!LocalCanPayFees`: no closing_complete (CloseErr state)
  | err (e : CloseErr)           -- CreateCloseProposal failed
  | sent (label : SigLabel) (tx : CloseTx) (bal : Int)
  deriving DecidableEq, Repr

/-- `LocalCloseStart` on `SendOfferEvent` with absolute fee `fee`: the closer pays, signs a tx
    WITHOUT a custom locktime, and picks the sig field from the RAW remote balance against the
    remote script's dust limit, else from its own post-fee balance against its script's dust. -/
def rbfOffer (t : RbfTerms) (fee : Int) : RbfOffer :=
  if toSat t.v.localMsat < fee then .skip
  else
    match closeProposal t.v (rbfReq t fee .local none) with
    | .error e => .err e
    | .ok (tx, bal) =>
      let label :=
        if toSat t.v.remoteMsat < t.sdRemote then SigLabel.closerOnly
        else if bal < t.sdLocal then SigLabel.closeeOnly
        else SigLabel.both
      .sent label tx bal

inductive RbfAccept where
  | cannotPay                    -- ErrRemoteCannotPay
  | badLabel                     -- validateSigFields
  | err (e : CloseErr)
  | ok (tx : CloseTx)
  deriving DecidableEq, Repr

/-- `RemoteCloseStart` on closing_complete(fee, label, locktime): the closee checks the closer's
    RAW balance against the fee, the sig field against its own RAW balance's dust status, then
    builds the tx with the remote as payer and the ANNOUNCED locktime (signature checking is left
    to the harness: it succeeds iff this tx equals the closer's). -/
def rbfAccept (t : RbfTerms) (fee : Int) (label : SigLabel) (lock : Nat) : RbfAccept :=
  if toSat t.v.remoteMsat < fee then .cannotPay
  else
    let localIsDust := decide (toSat t.v.localMsat < t.sdLocal)
    if (localIsDust && label != .closerOnly) || (!localIsDust && label == .closerOnly) then .badLabel
    else
      match closeProposal t.v (rbfReq t fee .remote (some lock)) with
      | .error e => .err e
      | .ok (tx, _) => .ok tx

/-! ### legacy fee negotiation (`ChanCloser`) -/

inductive NegErr where
  | exceedsMax       -- ErrProposalExceedsMaxFee
  | cannotAfford     -- CreateCloseProposal failed: the opener cannot pay this fee
  | taprootMismatch  -- taproot opener did not get its own offer echoed
  deriving DecidableEq, Repr

/-- the negotiation-relevant part of a `ChanCloser`. -/
structure Node where
  ideal : Int                 -- idealFeeSat
  maxFee : Int                -- maxFee (only consulted by the channel opener)
  isInit : Bool               -- channel opener: sends the first offer
  taproot : Bool := false
  budget : Int                -- largest fee the opener can pay (CreateCloseProposal fails above)
  last : Int := 0             -- lastFeeProposal
  offers : List Int := []     -- keys of priorFeeOffers
  done : Option Int := none   -- closeFinished, fee of the completed close
  deriving DecidableEq, Repr

inductive Reply where
  | send (fee : Int)    -- another offer, negotiation continues
  | final (fee : Int)   -- the matching offer; this node completed the close with `fee`
  | silent
  | err (e : NegErr)
  deriving DecidableEq, Repr

/-- `proposeCloseSigned(fee)`: sign, remember. -/
def Node.propose (n : Node) (fee : Int) : Option Node :=
  if fee > n.budget then none
  else some { n with last := fee, offers := if n.offers.contains fee then n.offers else fee :: n.offers }

/-- `ReceiveClosingSigned` in state closeFeeNegotiation / closeFinished. -/
def Node.recv (n : Node) (f : Int) : Node × Reply :=
  if n.done.isSome then (n, .silent)
  else if n.taproot && !n.isInit then
    match n.propose f with
    | none => (n, .err .cannotAfford)
    | some n' => ({ n' with done := some f }, .final f)
  else if n.taproot && !n.offers.contains f then (n, .err .taprootMismatch)
  else if n.offers.contains f then ({ n with done := some f }, .final f)
  else
    let p := calcCompromiseFee n.ideal n.last f
    if n.isInit && decide (p > n.maxFee) then (n, .err .exceedsMax)
    else
      match n.propose p with
      | none => (n, .err .cannotAfford)
      | some n' =>
        if p ≠ f then (n', .send p) else ({ n' with done := some f }, .final f)

/-- two closers and the closing_signed in flight (`msg`, addressed to `rcv`). -/
structure Net where
  rcv : Node
  snd : Node
  msg : Option Int
  failed : Option NegErr := none
  delivered : Nat := 0
  deriving DecidableEq, Repr

/-- `BeginNegotiation` on both sides: the opener offers its ideal fee. -/
def Net.start (opener other : Node) : Net :=
  match opener.propose opener.ideal with
  | none => { rcv := other, snd := opener, msg := none, failed := some .cannotAfford }
  | some o => { rcv := other, snd := o, msg := some opener.ideal }

/-- deliver the message in flight. -/
def Net.step (s : Net) : Net :=
  match s.msg with
  | none => s
  | some f =>
    match s.rcv.recv f with
    | (n, .send p) => { rcv := s.snd, snd := n, msg := some p, failed := s.failed, delivered := s.delivered + 1 }
    | (n, .final p) => { rcv := s.snd, snd := n, msg := some p, failed := s.failed, delivered := s.delivered + 1 }
    | (n, .silent) => { rcv := s.snd, snd := n, msg := none, failed := s.failed, delivered := s.delivered + 1 }
    | (n, .err e) => { rcv := s.snd, snd := n, msg := none, failed := some e, delivered := s.delivered + 1 }

def Net.run : Nat → Net → Net
  | 0, s => s
  | k + 1, s => Net.run k s.step

/-- both sides completed the close with the same fee, which both signed for. -/
def Net.Agreed (s : Net) (f : Int) : Prop :=
  s.msg = none ∧ s.failed = none ∧ s.rcv.done = some f ∧ s.snd.done = some f ∧
    f ∈ s.rcv.offers ∧ f ∈ s.snd.offers

/-- a fresh closer after `initFeeBaseline`. -/
def mkNode (ideal maxFee budget : Int) (isInit : Bool) (taproot : Bool := false) : Node :=
  { ideal := ideal, maxFee := maxFee, isInit := isInit, taproot := taproot, budget := budget }

/-- `initFeeBaseline`: explicit cap if configured, else 3 × ideal. -/
def defaultMaxFeeMultiplier : Int := 3
def maxFeeOf (ideal cfgMax : Int) : Int :=
  if cfgMax > 0 then cfgMax else mul64 ideal defaultMaxFeeMultiplier

end LndModel.C17
