/-
C17 — the glue around the modelled core (core Lean only):

* `lnwallet/wallet.go`      `ValidateUpfrontShutdown` (byte level)
* `lnwallet/chancloser/chancloser.go`  `validateShutdownScript`, and the legacy `ChanCloser` as a
  state machine with its five states closeIdle / closeShutdownInitiated / closeAwaitingFlush /
  closeFeeNegotiation / closeFinished: `ShutdownChan`, `ReceiveShutdown`, `BeginNegotiation`
  (incl. the replay of a cached early closing_signed), `ReceiveClosingSigned` (incl. the caching
  arm), with the musig2 fields of the messages (`Shutdown.ShutdownNonce`,
  `ClosingSigned.PartialSig`) as booleans
* two such closers connected by two FIFO queues, driven by an arbitrary scheduler (`Sys`):
  the events of `peer/brontide.go` — a local close request (`ShutdownChan`), delivery of the
  next message of either direction, the link's flush notification of either side
  (`handleChanFlushed` → `BeginNegotiation`)
* `lnwallet/channel.go`     `CreateCloseProposal` / `CompleteCooperativeClose` as TWO functions
  with their own (duplicated) option plumbing and dust-limit arguments, the `isClosed` latch
  (`ErrChanClosing` unless a custom payer is set), signatures as "valid for exactly the
  transaction they were made for"
* repeated RBF iterations over unchanged `CloseChannelTerms`.
-/
import LndModel.C17.Model

namespace LndModel.C17

/-! ### shutdown script validation -/

/-- `txscript.IsSmallInt`: OP_0 or OP_1..OP_16. -/
def isSmallIntOp (b : Nat) : Bool := b == 0 || (81 ≤ b && b ≤ 96)

/-- `txscript.IsWitnessProgram`: 4..42 bytes, a small-int opcode, then ONE canonical direct push
    of the rest (a length byte 2..40 equal to the number of remaining bytes). -/
def isWitnessProgram (s : Script) : Bool :=
  4 ≤ s.length && s.length ≤ 42 && isSmallIntOp (s.getD 0 0) && s.getD 1 0 == s.length - 2

/-- witness version of a witness program. -/
def witnessVersion (s : Script) : Nat := if s.getD 0 0 == 0 then 0 else s.getD 0 0 - 80

/-- `lnwallet.ValidateUpfrontShutdown`: P2WPKH, P2WSH, P2TR, or any witness program of version
    1..16 (a version-0 program of another length is rejected). -/
def validShutdownScript (s : Script) : Bool :=
  (s.length == 22 && s.getD 0 1 == 0 && s.getD 1 0 == 20) ||
  (s.length == 34 && s.getD 0 1 == 0 && s.getD 1 0 == 32) ||
  (isWitnessProgram s && 1 ≤ witnessVersion s && witnessVersion s ≤ 16)

inductive CloserErr where
  | alreadyClosing     -- ErrChanAlreadyClosing
  | invalidState       -- ErrInvalidState
  | invalidScript      -- ErrInvalidShutdownScript
  | upfrontMismatch    -- ErrUpfrontShutdownScriptMismatch
  | noNonce            -- errNoShutdownNonce
  | noPartialSig       -- "partial sig not set for taproot chan"
  | neg (e : NegErr)
  deriving DecidableEq, Repr

/-- `validateShutdownScript(upfrontScript, peerScript)`; `none` = accepted. -/
def validateShutdownScript (upfront peer : Script) : Option CloserErr :=
  if !upfront.isEmpty && !validShutdownScript upfront then some .invalidScript
  else if !peer.isEmpty && !validShutdownScript peer then some .invalidScript
  else if upfront.isEmpty then none
  else if upfront ≠ peer then some .upfrontMismatch
  else none

/-! ### one legacy `ChanCloser` -/

inductive CState where
  | idle | shutdownInitiated | awaitingFlush | feeNegotiation | finished
  deriving DecidableEq, Repr

inductive Msg where
  | shutdown (script : Script) (nonce : Bool)
  | closingSigned (fee : Int) (partialSig : Bool)
  deriving DecidableEq, Repr

structure Peer where
  st : CState := .idle
  node : Node
  /-- `cachedClosingSigned` (never cleared by the code). -/
  cached : Option (Int × Bool) := none
  /-- `localDeliveryScript`. -/
  script : Script
  /-- `Channel.RemoteUpfrontShutdownScript()`. -/
  upfrontRemote : Script := []
  /-- `remoteDeliveryScript`. -/
  remoteScript : Script := []
  deriving DecidableEq, Repr

/-- the Shutdown `initChanShutdown` builds: our script, a nonce iff taproot. -/
def Peer.shutdownMsg (p : Peer) : Msg := .shutdown p.script p.node.taproot

/-- the ClosingSigned `proposeCloseSigned` builds: partial sig iff taproot (main sig blank). -/
def Peer.csMsg (p : Peer) (fee : Int) : Msg := .closingSigned fee p.node.taproot

/-- `ShutdownChan`. -/
def Peer.shutdownChan (p : Peer) : Except CloserErr (Peer × Msg) :=
  if p.st ≠ .idle then .error .alreadyClosing
  else .ok ({ p with st := .shutdownInitiated }, p.shutdownMsg)

/-- `ReceiveShutdown` (thaw-height check of frozen channels not modelled). -/
def Peer.receiveShutdown (p : Peer) (script : Script) (nonce : Bool) :
    Except CloserErr (Peer × Option Msg) :=
  match p.st with
  | .idle =>
    match validateShutdownScript p.upfrontRemote script with
    | some e => .error e
    | none =>
      if p.node.taproot && !nonce then .error .noNonce
      else .ok ({ p with st := .awaitingFlush, remoteScript := script }, some p.shutdownMsg)
  | .shutdownInitiated =>
    match validateShutdownScript p.upfrontRemote script with
    | some e => .error e
    | none =>
      if p.node.taproot && !nonce then .error .noNonce
      else .ok ({ p with st := .awaitingFlush, remoteScript := script }, none)
  | _ => .error .invalidState

/-- `ReceiveClosingSigned`; the `Bool` says whether the offer was processed by the negotiation
    logic (as opposed to cached / ignored). -/
def Peer.recvCS (p : Peer) (fee : Int) (partialSig : Bool) :
    Except CloserErr (Peer × Option Msg × Bool) :=
  match p.st with
  | .awaitingFlush => .ok ({ p with cached := some (fee, partialSig) }, none, false)
  | .feeNegotiation =>
    if p.node.taproot && !partialSig then .error .noPartialSig
    else
      match p.node.recv fee with
      | (n, .send f) => .ok ({ p with node := n }, some (p.csMsg f), true)
      | (n, .final f) => .ok ({ p with node := n, st := .finished }, some (p.csMsg f), true)
      | (n, .silent) => .ok ({ p with node := n }, none, true)
      | (_, .err e) => .error (.neg e)
  | .finished => .ok (p, none, true)
  | _ => .error .invalidState

/-- `BeginNegotiation`: enter closeFeeNegotiation; the opener signs its ideal fee; the other side
    replays a cached early offer through `ReceiveClosingSigned` (already in the new state). -/
def Peer.beginNegotiation (p : Peer) : Except CloserErr (Peer × Option Msg × Bool) :=
  match p.st with
  | .awaitingFlush =>
    let p1 := { p with st := .feeNegotiation }
    if !p.node.isInit then
      match p.cached with
      | none => .ok (p1, none, false)
      | some (f, ps) => p1.recvCS f ps
    else
      match p.node.propose p.node.ideal with
      | none => .error (.neg .cannotAfford)
      | some n => .ok ({ p1 with node := n }, some (p.csMsg p.node.ideal), false)
  | _ => .error .invalidState

/-! ### two closers, two FIFO queues, an arbitrary scheduler -/

inductive Who where
  | I   -- the channel opener
  | R
  deriving DecidableEq, Repr

structure Sys where
  i : Peer
  r : Peer
  toI : List Msg := []
  toR : List Msg := []
  failed : Option CloserErr := none
  /-- closing_signed messages processed by the negotiation logic (incl. a cache replay). -/
  delivered : Nat := 0
  deriving DecidableEq, Repr

inductive Ev where
  | userClose (w : Who)   -- local close request: `ShutdownChan`
  | deliver (w : Who)     -- the oldest message addressed to `w` is processed
  | flush (w : Who)       -- `w`'s link reports the channel flushed: `BeginNegotiation`
  deriving DecidableEq, Repr

def Sys.peer (s : Sys) : Who → Peer
  | .I => s.i
  | .R => s.r

/-- store `p` as `w`'s closer and queue `out` for the other side. -/
def Sys.put (s : Sys) (w : Who) (p : Peer) (out : Option Msg) (proc : Bool) : Sys :=
  match w with
  | .I => { s with i := p, toR := s.toR ++ out.toList, delivered := s.delivered + (if proc then 1 else 0) }
  | .R => { s with r := p, toI := s.toI ++ out.toList, delivered := s.delivered + (if proc then 1 else 0) }

def Sys.fail (s : Sys) (e : CloserErr) : Sys := { s with failed := some e }

/-- one scheduler step; `none` = the event is not enabled. After a failure the peer connection
    is torn down (`negotiateCloseErrHandler`), nothing is enabled. -/
def Sys.step (s : Sys) (ev : Ev) : Option Sys :=
  if s.failed.isSome then none
  else
    match ev with
    | .userClose w =>
      match (s.peer w).shutdownChan with
      | .error _ => none
      | .ok (p, m) => some (s.put w p (some m) false)
    | .flush w =>
      if (s.peer w).st ≠ .awaitingFlush then none
      else
        match (s.peer w).beginNegotiation with
        | .error e => some (s.fail e)
        | .ok (p, out, proc) => some (s.put w p out proc)
    | .deliver w =>
      let q := match w with | .I => s.toI | .R => s.toR
      match q with
      | [] => none
      | m :: rest =>
        let s1 : Sys := match w with | .I => { s with toI := rest } | .R => { s with toR := rest }
        match m with
        | .shutdown sc nonce =>
          match (s.peer w).receiveShutdown sc nonce with
          | .error e => some (s1.fail e)
          | .ok (p, out) => some (s1.put w p out false)
        | .closingSigned f ps =>
          match (s.peer w).recvCS f ps with
          | .error e => some (s1.fail e)
          | .ok (p, out, proc) => some (s1.put w p out proc)

/-- run a schedule; `none` if some event was not enabled when scheduled. -/
def Sys.runEvs : List Ev → Sys → Option Sys
  | [], s => some s
  | ev :: evs, s => (s.step ev).bind (Sys.runEvs evs)

/-- both closers idle, nothing in flight. -/
def Sys.init (opener other : Node) (sI sR upI upR : Script) : Sys :=
  { i := { node := opener, script := sI, upfrontRemote := upI },
    r := { node := other, script := sR, upfrontRemote := upR } }

/-- no event is enabled. -/
def Sys.Quiescent (s : Sys) : Prop := ∀ ev, s.step ev = none

/-- both closers finished with the same fee, which both signed for; nothing in flight. -/
def Sys.Agreed (s : Sys) (f : Int) : Prop :=
  s.failed = none ∧ s.toI = [] ∧ s.toR = [] ∧
  s.i.st = .finished ∧ s.r.st = .finished ∧
  s.i.node.done = some f ∧ s.r.node.done = some f ∧
  f ∈ s.i.node.offers ∧ f ∈ s.r.node.offers

/-! ### `CreateCloseProposal` / `CompleteCooperativeClose` as two functions -/

/-- `chanCloseOpt` after the option functions ran (aux outputs / custom sort not modelled). -/
structure CloseOpts where
  customSeq : Option Nat := none
  customLock : Option Nat := none
  customPayer : Option Party := none
  deriving DecidableEq, Repr

structure Chan where
  v : View
  isClosed : Bool := false
  deriving DecidableEq, Repr

inductive ChanErr where
  | closing                 -- ErrChanClosing
  | close (e : CloseErr)
  | sigReject               -- script engine rejects the witness
  deriving DecidableEq, Repr

/-- the transaction `CreateCloseProposal` builds and signs: ITS option plumbing, ITS dust-limit
    arguments (`LocalChanCfg.DustLimit`, `RemoteChanCfg.DustLimit`). -/
def Chan.proposalTx (c : Chan) (fee : Int) (ls rs : Script) (lop rop : Bool) (o : CloseOpts) :
    Except ChanErr (CloseTx × Int) :=
  if c.isClosed && o.customPayer.isNone then .error .closing
  else
    match coopCloseBalance c.v.anchors c.v.isInit fee (toSat c.v.localMsat) (toSat c.v.remoteMsat)
            c.v.commitFee o.customPayer with
    | none => .error (.close .afford)
    | some (our, their) =>
      let txo : TxOpts := { rbf := c.v.taproot, customSeq := o.customSeq, customLock := o.customLock }
      let tx := createCloseTx txo c.v.localDust c.v.remoteDust our their ls rs lop rop
      match sanityErr tx.outs with
      | some e => .error (.close e)
      | none => .ok (tx, our)

/-- `CompleteCooperativeClose`: rebuilds the transaction with its OWN copy of the plumbing, then
    verifies the two signatures against it. A signature is represented by the transaction it was
    made for and verifies against exactly that transaction. On success the channel latches
    `isClosed`. -/
def Chan.complete (c : Chan) (localSig remoteSig : CloseTx) (fee : Int) (ls rs : Script)
    (lop rop : Bool) (o : CloseOpts) : Except ChanErr (CloseTx × Int × Chan) :=
  if c.isClosed && o.customPayer.isNone then .error .closing
  else
    match coopCloseBalance c.v.anchors c.v.isInit fee (toSat c.v.localMsat) (toSat c.v.remoteMsat)
            c.v.commitFee o.customPayer with
    | none => .error (.close .afford)
    | some (our, their) =>
      let txo : TxOpts := { rbf := c.v.taproot, customSeq := o.customSeq, customLock := o.customLock }
      let tx := createCloseTx txo c.v.localDust c.v.remoteDust our their ls rs lop rop
      match sanityErr tx.outs with
      | some e => .error (.close e)
      | none =>
        if localSig = tx ∧ remoteSig = tx then .ok (tx, our, { c with isClosed := true })
        else .error .sigReject

def CloseOpts.mirror (o : CloseOpts) : CloseOpts := { o with customPayer := o.customPayer.map Party.other }

def Chan.mirror (c : Chan) : Chan := { c with v := c.v.mirror }

/-! ### repeated RBF iterations -/

/-- the two sides of an RBF co-op close: `a`'s terms (`b` holds the mirror image) and the
    `isClosed` latches of the two channels. `CloseChannelTerms` are copied unchanged from
    `ClosePending` into the next `LocalCloseStart` / `RemoteCloseStart`. -/
structure RbfPair where
  t : RbfTerms
  closedA : Bool := false
  closedB : Bool := false
  deriving DecidableEq, Repr

inductive RbfRound where
  | skipped                       -- closer cannot pay: no closing_complete
  | offerErr (e : CloseErr)
  | rejected (r : RbfAccept)      -- the closee did not accept
  | closed (fee : Int) (label : SigLabel) (tx : CloseTx)   -- both hold the same signed tx
  deriving DecidableEq, Repr

/-- one iteration: `aCloses` says which side sends closing_complete (production: announced
    locktime 0). Both sides latch `isClosed` after a completed iteration. -/
def RbfPair.round (p : RbfPair) (aCloses : Bool) (fee : Int) : RbfPair × RbfRound :=
  let tc := if aCloses then p.t else p.t.mirror
  match rbfOffer tc fee with
  | .skip => (p, .skipped)
  | .err e => (p, .offerErr e)
  | .sent label tx _ =>
    match rbfAccept tc.mirror fee label 0 with
    | .ok tx' => if tx' = tx then ({ p with closedA := true, closedB := true }, .closed fee label tx)
                 else (p, .rejected (.ok tx'))
    | r => (p, .rejected r)

def RbfPair.run : RbfPair → List (Bool × Int) → List RbfRound
  | _, [] => []
  | p, (w, fee) :: rest => (p.round w fee).2 :: RbfPair.run (p.round w fee).1 rest

end LndModel.C17
