/-
C17 — refinement of the regenerated closing-fee arithmetic (LndModel.Gen.C17, produced by
tools/go2lean from lnwallet/chancloser/chancloser.go `feeInAcceptableRange`, `ratchetFee`,
`calcCompromiseFee`, chanstate/channel_type.go `ChannelType.HasAnchors` and
lnwallet/commitment.go `CoopCloseBalance`) to the hand-written model `LndModel.C17`.
-/
import LndModel.Gen.C17
import LndModel.Gen.GoIntLemmas
import LndModel.C17.Model

namespace LndModel.C17.GenRefine
open LndModel.Gen LndModel.Gen.GoInt

theorem tdiv10_range (z : Int) (h : IsI64 z) : IsI64 (Int.tdiv z 10) := by
  simp only [IsI64] at h ⊢
  by_cases hz : 0 ≤ z
  · rw [Int.tdiv_eq_ediv_of_nonneg hz]; omega
  · have e : Int.tdiv z 10 = -(Int.tdiv (-z) 10) := by rw [Int.neg_tdiv]; omega
    rw [e, Int.tdiv_eq_ediv_of_nonneg (by omega)]; omega

theorem wrap64_eq (x : Int) : C17.wrap64 x = wrapI64 x := rfl

theorem wrap_tdiv10 (y : Int) : wrapI64 (Int.tdiv (wrapI64 y) 10) = Int.tdiv (wrapI64 y) 10 := by
  have h := tdiv10_range _ (wrapI64_range y)
  simp only [IsI64] at h
  generalize Int.tdiv (wrapI64 y) 10 = q at h ⊢
  simp only [wrapI64]; omega

/-- `feeInAcceptableRange`: equal to the model for ALL int64 (indeed all integer) arguments. -/
theorem feeInAcceptableRange_refines (l r : Int) :
    Gen.C17.feeInAcceptableRange l r = C17.feeInAcceptableRange l r := by
  simp only [Gen.C17.feeInAcceptableRange, C17.feeInAcceptableRange, C17.add64, C17.sub64, C17.mul64,
    C17.div64, wrap64_eq, wrap_tdiv10]

/-- `ratchetFee`: equal to the model for all arguments. -/
theorem ratchetFee_refines (fee : Int) (up : Bool) :
    Gen.C17.ratchetFee fee up = C17.ratchetFee fee up := by
  simp only [Gen.C17.ratchetFee, C17.ratchetFee, C17.add64, C17.sub64, C17.mul64,
    C17.div64, wrap64_eq, wrap_tdiv10]

/-- `calcCompromiseFee`: equal to the model for all arguments. -/
theorem calcCompromiseFee_refines (ideal last remote : Int) :
    Gen.C17.calcCompromiseFee ideal last remote = C17.calcCompromiseFee ideal last remote := by
  simp only [Gen.C17.calcCompromiseFee, C17.calcCompromiseFee, feeInAcceptableRange_refines,
    ratchetFee_refines]

example : Gen.C17.calcCompromiseFee 1000 1000 2000 = 1100 := by decide
example : Gen.C17.feeInAcceptableRange 1000 1300 = true ∧ Gen.C17.feeInAcceptableRange 1000 1301 = false := by
  decide

/-! ## `CoopCloseBalance` -/

/-- `ChannelType.HasAnchors` tests bit 3 (`AnchorOutputsBit = 1 << 3`) of the channel type
    (exact spec; the model takes the predicate as a boolean). -/
theorem HasAnchors_exact (c : Nat) : Gen.C17.ChannelType_HasAnchors c = c.testBit 3 := by
  have e : andU (c : Int) 8 = ((c &&& 2 ^ 3 : Nat) : Int) := andU_cast c 8
  have h := and_two_pow_eq_iff c 3
  simp only [Gen.C17.ChannelType_HasAnchors, e]
  by_cases hb : c.testBit 3 = true
  · have h1 : c &&& 2 ^ 3 = 2 ^ 3 := h.mpr hb
    rw [h1, hb]; rfl
  · have h1 : ¬ c &&& 2 ^ 3 = 2 ^ 3 := fun hh => hb (h.mp hh)
    have h2 : ¬ ((c &&& 2 ^ 3 : Nat) : Int) = 8 := by omega
    simp only [h2, decide_false]
    simp only [Bool.not_eq_true] at hb
    exact hb.symm

theorem AnchorOutputsBit_value : Gen.C17.AnchorOutputsBit = 2 ^ 3 := by decide
theorem AnchorSize_refines : Gen.C17.AnchorSize = C17.anchorSize := by
  simp only [Gen.C17.AnchorSize, C17.anchorSize]

/-- `fn.Option[lntypes.ChannelParty]` as flattened by the translator. -/
def payerIsSome : Option Party → Bool
  | none => false
  | some _ => true
def payerVal : Option Party → Int
  | some .remote => Gen.C17.Remote
  | _ => Gen.C17.Local

def ofOpt : Option (Int × Int) → Except Gen.C17.Err (Int × Int)
  | none => .error .cannotAffordFee
  | some v => .ok v

/-- amounts far from the int64 boundary (|x| ≤ 2^60 sat; all bitcoin is < 2^51 sat). -/
def Small (x : Int) : Prop := -1152921504606846976 ≤ x ∧ x ≤ 1152921504606846976

/-- `CoopCloseBalance`: on amounts far from the int64 boundary the regenerated int64 computation
    is the model's exact-integer `coopCloseBalance` (for every channel type, initiator flag and
    fee payer option). -/
theorem CoopCloseBalance_refines (chanType : Nat) (isInit : Bool) (fee our their commitFee : Int)
    (payer : Option Party)
    (hf : Small fee) (ho : Small our) (ht : Small their) (hc : Small commitFee) :
    Gen.C17.CoopCloseBalance chanType isInit fee our their commitFee (payerIsSome payer) (payerVal payer)
      = ofOpt (C17.coopCloseBalance (chanType.testBit 3) isInit fee our their commitFee payer) := by
  simp only [Small] at hf ho ht hc
  have hw : ∀ x : Int, -9223372036854775808 ≤ x → x < 9223372036854775808 → wrapI64 x = x := wrapI64_id
  simp only [Gen.C17.CoopCloseBalance, C17.coopCloseBalance, C17.initiatorDelta, C17.payerOf,
    C17.anchorSize, HasAnchors_exact]
  cases hA : chanType.testBit 3 <;> cases isInit <;>
    (first | rcases payer with _ | (_ | _)) <;>
    simp only [payerIsSome, payerVal, Gen.C17.Local, Gen.C17.Remote, Option.getD, if_true, if_false,
      Bool.false_eq_true, reduceCtorEq, Int.reduceEq, Int.add_zero] <;>
    simp (disch := omega) only [hw] <;>
    split <;> (try split) <;>
    first
    | rfl
    | (exfalso; omega)
    | (simp only [ofOpt, Except.ok.injEq, Prod.mk.injEq]; constructor <;> omega)

example := CoopCloseBalance_refines 8 true 500 1000000 2000000 3000 (some .remote)
  (by simp only [Small]; omega) (by simp only [Small]; omega) (by simp only [Small]; omega)
  (by simp only [Small]; omega)
example : Gen.C17.CoopCloseBalance 8 true 500 1000000 2000000 3000 true 1 = .ok (1003660, 1999500) := rfl
example : Gen.C17.CoopCloseBalance 0 false 500 100 200 3000 false 0 = .ok (100, 2700) := rfl
example : Gen.C17.CoopCloseBalance 0 false 5000 100 200 3000 false 0 = .error .cannotAffordFee := rfl

end LndModel.C17.GenRefine
