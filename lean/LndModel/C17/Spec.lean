/-
C17 — specification-level definitions, written from the property statement and NOT in terms of
the model's functions (`payerOf`, `initiatorDelta`, `anchorSize`, `toSat`, `partyOut` are not
used here): who pays, what each party is owed, which outputs must exist.
Only the record types `View`, `CloseReq`, `Party`, `TxOut` are shared with the model.
-/
import LndModel.C17.Model

namespace LndModel.C17

/-- does the local party pay the closing fee? The explicitly named payer (RBF flow: the closer),
    otherwise the channel opener. -/
def localPays (v : View) (r : CloseReq) : Bool :=
  match r.payer with
  | none => v.isInit
  | some .local => true
  | some .remote => false

/-- what is credited back to the opener: the dangling commitment fee and, for anchor channels,
    the two 330 sat anchors. -/
def openerCredit (v : View) : Int := v.commitFee + (if v.anchors then 660 else 0)

/-- what the local party is owed: its balance (msat truncated to sat), plus the opener credit if
    it opened the channel, minus the closing fee if it is the paying party. -/
def finalLocal (v : View) (r : CloseReq) : Int :=
  ((v.localMsat / 1000 : Nat) : Int) + (if v.isInit then openerCredit v else 0)
    - (if localPays v r then r.fee else 0)

def finalRemote (v : View) (r : CloseReq) : Int :=
  ((v.remoteMsat / 1000 : Nat) : Int) + (if v.isInit then 0 else openerCredit v)
    - (if localPays v r then 0 else r.fee)

/-- the paying party's credited balance before the fee is charged. -/
def payerCredit (v : View) (r : CloseReq) : Int :=
  if localPays v r then finalLocal v r + r.fee else finalRemote v r + r.fee

/-- the value an existing output carries: the owed amount, except that in the RBF flow (custom
    sequence) an OP_RETURN delivery script gets a zero-value output. -/
def outValue (r : CloseReq) (opRet : Bool) (owed : Int) : Int :=
  if r.customSeq.isSome ∧ opRet = true then 0 else owed

/-- the output the local party must get, if any: present iff owed ≥ the LOCAL dust limit. -/
def wantLocalOut (v : View) (r : CloseReq) (x : TxOut) : Prop :=
  v.localDust ≤ finalLocal v r ∧ x = ⟨outValue r r.lop (finalLocal v r), r.localScript⟩

/-- the output the remote party must get, if any: present iff owed ≥ the REMOTE dust limit. -/
def wantRemoteOut (v : View) (r : CloseReq) (x : TxOut) : Prop :=
  v.remoteDust ≤ finalRemote v r ∧ x = ⟨outValue r r.rop (finalRemote v r), r.remoteScript⟩

/-- how many outputs the transaction must have. -/
def wantOutCount (v : View) (r : CloseReq) : Nat :=
  (if v.localDust ≤ finalLocal v r then 1 else 0) + (if v.remoteDust ≤ finalRemote v r then 1 else 0)

/-- the sat amounts the two parties hold before any closing fee, as one side sees them. -/
def creditedLocal (v : View) : Int :=
  ((v.localMsat / 1000 : Nat) : Int) + (if v.isInit then openerCredit v else 0)

def creditedRemote (v : View) : Int :=
  ((v.remoteMsat / 1000 : Nat) : Int) + (if v.isInit then 0 else openerCredit v)

/-- `w` is the other side's view of the same HTLC-free channel: opposite role, same channel
    type, dust limits exchanged, and the same CREDITED sat balances. This is weaker than
    `w = v.mirror`: while an `update_fee` is pending the two local commitments carry different
    commit fees and opener balances, but commit fee + opener balance is the same on both. -/
def Counterpart (v w : View) : Prop :=
  w.isInit = !v.isInit ∧ w.anchors = v.anchors ∧ w.taproot = v.taproot ∧
  w.localDust = v.remoteDust ∧ w.remoteDust = v.localDust ∧
  creditedLocal w = creditedRemote v ∧ creditedRemote w = creditedLocal v

end LndModel.C17
