/-
C17 — theorems about the scheduler-level model of two legacy closers (`Closer.lean`):
for EVERY schedule of local close requests, message deliveries (FIFO per direction) and flush
notifications — including the early-offer interleaving where the opener's closing_signed reaches
the other side while it is still in closeAwaitingFlush, is cached, and is replayed by
`BeginNegotiation` — the run is finite with an explicit bound, never fails, and can only stop in
agreement.
-/
import LndModel.C17.CloserLemmas
import LndModel.C17.Props

set_option linter.unusedSimpArgs false

namespace LndModel.C17

/-- Lemma A: a scheduler step of a shutdown / flush phase state follows the abstract table. -/
theorem phase1_step (c : Cfg) (o' : Node) (hon : Honest c)
    (hprop : c.opener.propose c.opener.ideal = some o')
    (pI pR : Pg) (cd : Bool) (hV : V pI pR cd) (h33 : ¬ (pI = .p3 ∧ pR = .p3)) (ev : Ev)
    (hev : ¬ (ev = .flush .R ∧ cd = true)) :
    (mk1 c o' pI pR cd).step ev = (next1 pI pR cd ev).map (fun x => mk1 c o' x.1 x.2.1 x.2.2) := by
  obtain ⟨hiI, hrI, htap, hiD, hrD, hvI, hvR⟩ := hon
  cases pI <;> cases pR <;> cases cd <;> first | (exfalso; revert hV; decide) | (exfalso; exact h33 ⟨rfl, rfl⟩) | skip
  all_goals (rcases ev with w | w | w <;> cases w)
  all_goals first
    | (exfalso; exact hev ⟨rfl, rfl⟩)
    | simp [mk1, next1, Sys.step, Sys.peer, Sys.put, Sys.fail, Peer.shutdownChan, Peer.receiveShutdown,
        Peer.recvCS, Peer.beginNegotiation, Peer.shutdownMsg, Peer.csMsg, Pg.st, Pg.sent, Pg.got,
        hiI, hrI, htap, hvI, hvR, hprop]

/-- Lemma E1: the only scheduler step enabled in a negotiation-phase state is the delivery of
    the message in flight, and it is `Net.step` (or both fail). -/
theorem phase2_step (c : Cfg) (net : Net) (rc : Option (Int × Bool))
    (hwf : NetWF c.opener.taproot net) (ev : Ev) (s' : Sys)
    (h : (mk2 c net rc).step ev = some s') :
    ev = .deliver (rcvWho net) ∧ net.msg.isSome = true ∧
      ((net.step.failed = none ∧ s' = mk2 c net.step rc) ∨
       (s'.failed.isSome = true ∧ net.step.failed.isSome = true)) := by
  obtain ⟨hroles, hrt, hst, hfail⟩ := hwf
  cases hf : net.failed with
  | some e => simp [mk2, Sys.step, hf] at h
  | none =>
    have hsb : net.snd.isInit = !net.rcv.isInit := by
      rw [hroles]; cases net.snd.isInit <;> rfl
    cases hb : net.rcv.isInit <;> rw [hb] at hsb <;> simp only [Bool.not_false, Bool.not_true] at hsb
    all_goals (rcases ev with w | w | w <;> cases w)
    all_goals (cases hm : net.msg)
    all_goals first
      | (exfalso
         cases h1 : net.rcv.done.isSome <;> cases h2 : net.snd.done.isSome <;>
           simp [mk2, Sys.step, Sys.peer, peerOf, Peer.shutdownChan, hf, hb, hm, h1, h2] at h
         done)
      | skip
    all_goals (
      rename_i f
      refine ⟨by simp [rcvWho, hb], by simp [hm], ?_⟩
      have hc := recv_cases net.rcv f
      rcases hrec : net.rcv.recv f with ⟨n', rep⟩
      rw [hrec] at hc
      obtain ⟨hi, ht, hrep⟩ := hc
      simp only at hi ht hrep
      rw [hb] at hi
      cases rep with
      | send p =>
        obtain ⟨hd0, hd1⟩ := hrep
        left
        simp [mk2, Sys.step, Sys.peer, peerOf, Peer.recvCS, Sys.put, Sys.fail, Peer.csMsg, hf, hb, hsb, hm,
          hd0, hrt, hrec] at h
        subst h
        refine ⟨by simp [Net.step, hm, hrec, hf], ?_⟩
        simp [mk2, Net.step, hm, hrec, hf, hsb, hi, hd1, peerOf, hrt]
      | final p =>
        obtain ⟨hd0, hd1⟩ := hrep
        left
        simp [mk2, Sys.step, Sys.peer, peerOf, Peer.recvCS, Sys.put, Sys.fail, Peer.csMsg, hf, hb, hsb, hm,
          hd0, hrt, hrec] at h
        subst h
        refine ⟨by simp [Net.step, hm, hrec, hf], ?_⟩
        simp [mk2, Net.step, hm, hrec, hf, hsb, hi, hd1, peerOf, hrt]
      | silent =>
        obtain ⟨hd0, hd1⟩ := hrep
        left
        subst hd1
        simp [mk2, Sys.step, Sys.peer, peerOf, Peer.recvCS, Sys.put, Sys.fail, Peer.csMsg, hf, hb, hsb, hm,
          hd0, hrt, hrec] at h
        subst h
        refine ⟨by simp [Net.step, hm, hrec, hf], ?_⟩
        simp [mk2, Net.step, hm, hrec, hf, hsb, hb, hd0, peerOf, hrt]
      | err e =>
        right
        subst hrep
        cases hd0 : net.rcv.done.isSome
        · simp [mk2, Sys.step, Sys.peer, peerOf, Peer.recvCS, Sys.put, Sys.fail, Peer.csMsg, hf, hb, hsb, hm,
            hd0, hrt, hrec] at h
          subst h
          exact ⟨by simp [Sys.fail], by simp [Net.step, hm, hrec]⟩
        · exfalso
          have := recv_cases net.rcv f
          rw [hrec] at this
          simp [Node.recv, hd0] at hrec)

/-- the negotiation model's start state for a configuration. -/
def Cfg.net0 (c : Cfg) : Net := Net.start c.opener c.other

theorem net0_eq (c : Cfg) {o' : Node} (hprop : c.opener.propose c.opener.ideal = some o') :
    c.net0 = { rcv := c.other, snd := o', msg := some c.opener.ideal } := by
  simp [Cfg.net0, Net.start, hprop]

theorem net0_wf (c : Cfg) (hon : Honest c) {o' : Node}
    (hprop : c.opener.propose c.opener.ideal = some o') : NetWF c.opener.taproot c.net0 := by
  obtain ⟨a, b, _, _⟩ := propose_fields hprop
  rw [net0_eq c hprop]
  exact ⟨by simp [hon.rInit, a, hon.iInit], hon.tap, b, by simp⟩

/-- Lemma C: both closers in closeFeeNegotiation with the opener's first offer in flight IS the
    start state of the negotiation model. -/
theorem mk1_33_eq (c : Cfg) (hon : Honest c) {o' : Node}
    (hprop : c.opener.propose c.opener.ideal = some o') :
    mk1 c o' .p3 .p3 false = mk2 c (Net.run 0 c.net0) none := by
  obtain ⟨a, b, d, _⟩ := propose_fields hprop
  simp [Net.run, net0_eq c hprop, mk1, mk2, peerOf, hon.rInit, hon.rDone, d, hon.iDone, Pg.st, Pg.got,
    Pg.sent]

/-- Lemma B: the replay of the cached early offer by `BeginNegotiation` is the first delivery of
    the negotiation model. -/
theorem replay_step (c : Cfg) (hon : Honest c) {o' : Node}
    (hprop : c.opener.propose c.opener.ideal = some o') :
    ∃ s', (mk1 c o' .p3 .p2 true).step (.flush .R) = some s' ∧
      ((c.net0.step.failed = none ∧
          s' = mk2 c (Net.run 1 c.net0) (some (c.opener.ideal, c.opener.taproot))) ∨
       (s'.failed.isSome = true ∧ c.net0.step.failed.isSome = true)) := by
  obtain ⟨hiI, hrI, htap, hiD, hrD, hvI, hvR⟩ := hon
  obtain ⟨a, b, d, _⟩ := propose_fields hprop
  have hc := recv_cases c.other c.opener.ideal
  rcases hrec : c.other.recv c.opener.ideal with ⟨n', rep⟩
  rw [hrec] at hc
  obtain ⟨hi, ht, hrep⟩ := hc
  simp only at hi ht hrep
  rw [hrI] at hi
  have hrdn : c.other.done.isSome = false := by simp [hrD]
  cases rep with
  | send p =>
    obtain ⟨_, hd1⟩ := hrep
    refine ⟨_, by simp [mk1, Sys.step, Sys.peer, Peer.beginNegotiation, Peer.recvCS, Sys.put, Peer.csMsg,
      Pg.st, Pg.got, Pg.sent, hrI, htap, hrec]; rfl, Or.inl ⟨?_, ?_⟩⟩
    · simp [net0_eq c hprop, Net.step, hrec]
    · simp [Net.run, net0_eq c hprop, Net.step, hrec, mk2, peerOf, a, hiI, hi, hd1, d, hiD, htap]
  | final p =>
    obtain ⟨_, hd1⟩ := hrep
    refine ⟨_, by simp [mk1, Sys.step, Sys.peer, Peer.beginNegotiation, Peer.recvCS, Sys.put, Peer.csMsg,
      Pg.st, Pg.got, Pg.sent, hrI, htap, hrec]; rfl, Or.inl ⟨?_, ?_⟩⟩
    · simp [net0_eq c hprop, Net.step, hrec]
    · simp [Net.run, net0_eq c hprop, Net.step, hrec, mk2, peerOf, a, hiI, hi, hd1, d, hiD, htap]
  | silent =>
    exfalso
    simp [hrdn] at hrep
  | err e =>
    refine ⟨_, by simp [mk1, Sys.step, Sys.peer, Peer.beginNegotiation, Peer.recvCS, Sys.put, Peer.csMsg,
      Pg.st, Pg.got, Pg.sent, hrI, htap, hrec]; rfl, Or.inr ⟨by simp [Sys.fail], ?_⟩⟩
    simp [net0_eq c hprop, Net.step, hrec]

/-- a delivery is enabled whenever the queue is non-empty and nothing failed. -/
theorem deliver_enabled (s : Sys) (w : Who) (hf : s.failed = none)
    (hq : (match w with | .I => s.toI | .R => s.toR) ≠ []) : (s.step (.deliver w)).isSome = true := by
  unfold Sys.step
  simp only [hf, Option.isSome_none, Bool.false_eq_true, if_false]
  cases w <;> simp only at hq ⊢
  · cases hq' : s.toI with
    | nil => exact absurd hq' hq
    | cons m rest =>
      cases m <;> simp only <;> split <;> simp
  · cases hq' : s.toR with
    | nil => exact absurd hq' hq
    | cons m rest =>
      cases m <;> simp only <;> split <;> simp

/-- Lemma E2. -/
theorem phase2_enabled (c : Cfg) (net : Net) (rc : Option (Int × Bool))
    (hwf : NetWF c.opener.taproot net) (hm : net.msg.isSome = true) :
    ((mk2 c net rc).step (.deliver (rcvWho net))).isSome = true := by
  have hf : net.failed = none := by
    cases hf : net.failed with
    | none => rfl
    | some e => have := hwf.fail (by simp [hf]); rw [this] at hm; cases hm
  obtain ⟨f, hmf⟩ := Option.isSome_iff_exists.mp hm
  apply deliver_enabled
  · simp [mk2, hf]
  · cases hb : net.rcv.isInit <;> simp [mk2, rcvWho, hb, hmf]

/-- the abstract table preserves consistency and makes progress. -/
theorem next1_V (pI pR : Pg) (cd : Bool) (ev : Ev) (x : Pg × Pg × Bool) (hV : V pI pR cd)
    (h : next1 pI pR cd ev = some x) :
    V x.1 x.2.1 x.2.2 ∧
      pI.rank + pR.rank + (if cd then 1 else 0) + 1 ≤ x.1.rank + x.2.1.rank + (if x.2.2 then 1 else 0) := by
  cases pI <;> cases pR <;> cases cd <;> first | (exfalso; revert hV; decide) | skip
  all_goals (rcases ev with w | w | w <;> cases w)
  all_goals first
    | (simp [next1, Pg.sent, Pg.got] at h; done)
    | (simp [next1, Pg.sent, Pg.got] at h
       subst h
       decide)

/-- in the shutdown / flush phase something is always enabled. -/
theorem next1_enabled (pI pR : Pg) (hV : V pI pR false) (h33 : ¬ (pI = .p3 ∧ pR = .p3)) :
    ∃ ev, (next1 pI pR false ev).isSome = true := by
  cases pI <;> cases pR <;> first | (exfalso; revert hV; decide) | (exfalso; exact h33 ⟨rfl, rfl⟩) | skip
  all_goals first
    | exact ⟨.userClose .I, by decide⟩
    | exact ⟨.userClose .R, by decide⟩
    | exact ⟨.deliver .I, by decide⟩
    | exact ⟨.deliver .R, by decide⟩
    | exact ⟨.flush .I, by decide⟩
    | exact ⟨.flush .R, by decide⟩

theorem delivered_run (j : Nat) : ∀ (s : Net), (Net.run j s).delivered ≤ s.delivered + j := by
  induction j with
  | zero => intro s; simp [Net.run]
  | succ j ih =>
    intro s
    have h1 : s.step.delivered ≤ s.delivered + 1 := by
      unfold Net.step
      split
      · omega
      · split <;> simp
    have := ih s.step
    simp only [Net.run]
    omega

/-- while a message is in flight the run has not reached its agreed end, and the next state has
    not failed. -/
theorem alive {tap : Bool} {n0 : Net} {B : Nat} {f : Int} (hwf : NetWF tap n0)
    (hT : (Net.run B n0).Agreed f) (j : Nat) (hj : j ≤ B) (hm : (Net.run j n0).msg.isSome = true) :
    j + 1 ≤ B ∧ (Net.run (j + 1) n0).failed = none := by
  have hjB : j ≠ B := by
    intro e; subst e; rw [hT.1] at hm; cases hm
  refine ⟨by omega, ?_⟩
  cases hf : (Net.run (j + 1) n0).failed with
  | none => rfl
  | some e =>
    exfalso
    have hmn := (netWF_run (j + 1) hwf).fail (by simp [hf])
    have := run_absorb hmn B (by omega)
    have h2 := hT.2.1
    rw [this, hf] at h2
    cases h2

theorem agreed_mk2 (c : Cfg) (net : Net) (rc : Option (Int × Bool)) (f : Int)
    (h : net.Agreed f) : (mk2 c net rc).Agreed f := by
  obtain ⟨h1, h2, h3, h4, h5, h6⟩ := h
  cases hb : net.rcv.isInit <;>
    simp [mk2, Sys.Agreed, peerOf, hb, h1, h2, h3, h4, h5, h6]

/-- the shape of every reachable state, with a progress measure. -/
inductive Shape (c : Cfg) (o' : Node) (B : Nat) : Sys → Nat → Prop where
  | ph1 (pI pR : Pg) (cd : Bool) (hV : V pI pR cd) :
      Shape c o' B (mk1 c o' pI pR cd) (pI.rank + pR.rank + (if cd then 1 else 0))
  | ph2 (j : Nat) (rc : Option (Int × Bool)) (hj : j ≤ B) (hf : (Net.run j c.net0).failed = none) :
      Shape c o' B (mk2 c (Net.run j c.net0) rc) (6 + j)

theorem shape_step (c : Cfg) (hon : Honest c) {o' : Node}
    (hprop : c.opener.propose c.opener.ideal = some o') {B : Nat} {f : Int}
    (hT : (Net.run B c.net0).Agreed f) {s s' : Sys} {m : Nat} {ev : Ev}
    (hs : Shape c o' B s m) (hstep : s.step ev = some s') :
    ∃ m', Shape c o' B s' m' ∧ m + 1 ≤ m' := by
  have hwf := net0_wf c hon hprop
  have hmsg0 : (Net.run 0 c.net0).msg.isSome = true := by simp [Net.run, net0_eq c hprop]
  -- the negotiation phase
  have ph2case : ∀ (j : Nat) (rc : Option (Int × Bool)), j ≤ B → (Net.run j c.net0).failed = none →
      (mk2 c (Net.run j c.net0) rc).step ev = some s' → ∃ m', Shape c o' B s' m' ∧ 6 + j + 1 ≤ m' := by
    intro j rc hj hf hst
    obtain ⟨_, hm, hcase⟩ := phase2_step c _ rc (netWF_run j hwf) ev s' hst
    obtain ⟨hj1, hf1⟩ := alive hwf hT j hj hm
    rcases hcase with ⟨_, rfl⟩ | ⟨_, hbad⟩
    · rw [← run_succ]
      exact ⟨6 + (j + 1), Shape.ph2 (j + 1) rc hj1 hf1, by omega⟩
    · rw [← run_succ, hf1] at hbad
      cases hbad
  cases hs with
  | ph2 j rc hj hf => exact ph2case j rc hj hf hstep
  | ph1 pI pR cd hV =>
    by_cases h33 : pI = .p3 ∧ pR = .p3
    · obtain ⟨rfl, rfl⟩ := h33
      have hcd : cd = false := by
        cases cd
        · rfl
        · exact absurd (hV.2.2 rfl).2 (by decide)
      subst hcd
      rw [mk1_33_eq c hon hprop] at hstep
      have hf0 : (Net.run 0 c.net0).failed = none := by simp [Net.run, net0_eq c hprop]
      obtain ⟨m', hsh, hle⟩ := ph2case 0 none (Nat.zero_le _) hf0 hstep
      exact ⟨m', hsh, by simp [Pg.rank] at hle ⊢; omega⟩
    · by_cases hev : ev = .flush .R ∧ cd = true
      · obtain ⟨rfl, rfl⟩ := hev
        obtain ⟨rfl, rfl⟩ := hV.2.2 rfl
        obtain ⟨s'', hst, hcase⟩ := replay_step c hon hprop
        rw [hst] at hstep
        cases hstep
        obtain ⟨hj1, hf1⟩ := alive hwf hT 0 (Nat.zero_le _) hmsg0
        rcases hcase with ⟨_, rfl⟩ | ⟨_, hbad⟩
        · exact ⟨6 + 1, Shape.ph2 1 _ hj1 hf1, by simp [Pg.rank]⟩
        · have : (Net.run (0 + 1) c.net0).failed = none := hf1
          simp only [Net.run] at this
          rw [this] at hbad
          cases hbad
      · rw [phase1_step c o' hon hprop pI pR cd hV h33 ev hev] at hstep
        cases hn : next1 pI pR cd ev with
        | none => rw [hn] at hstep; cases hstep
        | some x =>
          rw [hn] at hstep
          simp only [Option.map_some, Option.some.injEq] at hstep
          subst hstep
          obtain ⟨hV', hrank⟩ := next1_V pI pR cd ev x hV hn
          exact ⟨_, Shape.ph1 x.1 x.2.1 x.2.2 hV', hrank⟩

/--
`close_any_order`: two honest closers (`Honest c`: one opener, same channel type, fresh closers,
valid delivery scripts that respect the recorded upfront scripts) whose single-message negotiation
`Net` reaches agreement on `f` within `B` deliveries. Then for EVERY schedule `evs` of enabled
events (local close requests of either or both sides, deliveries in FIFO order per direction,
flush notifications — all interleavings, incl. crossing shutdowns and the early offer that is
cached and replayed) from the idle state:
* nothing ever fails, at most `B` closing_signed are processed, the schedule has at most `6 + B`
  events (so every run is finite), and
* if no further event is enabled, both closers are in closeFinished with the same fee `f`, which
  both signed for, and nothing is in flight (no deadlock short of agreement).
-/
theorem close_any_order (c : Cfg) (hon : Honest c) (B : Nat) (f : Int)
    (hT : (Net.run B c.net0).Agreed f) (evs : List Ev) (s : Sys)
    (hrun : Sys.runEvs evs c.init = some s) :
    s.failed = none ∧ s.delivered ≤ B ∧ evs.length ≤ 6 + B ∧ (s.Quiescent → s.Agreed f) := by
  -- the opener can sign its own ideal fee (otherwise the negotiation model fails at once)
  have hprop : ∃ o', c.opener.propose c.opener.ideal = some o' := by
    cases hp : c.opener.propose c.opener.ideal with
    | some o' => exact ⟨o', rfl⟩
    | none =>
      exfalso
      have h0 : c.net0.msg = none := by simp [Cfg.net0, Net.start, hp]
      have hB : Net.run B c.net0 = c.net0 := run_of_msg_none B h0
      have := hT.2.1
      rw [hB] at this
      simp [Cfg.net0, Net.start, hp] at this
  obtain ⟨o', hprop⟩ := hprop
  have hwf := net0_wf c hon hprop
  -- invariant along the schedule
  have hinv : ∀ (evs : List Ev) (s0 s : Sys) (m0 : Nat), Shape c o' B s0 m0 →
      Sys.runEvs evs s0 = some s → ∃ m, Shape c o' B s m ∧ m0 + evs.length ≤ m := by
    intro evs
    induction evs with
    | nil => intro s0 s m0 h0 hr; simp [Sys.runEvs] at hr; subst hr; exact ⟨m0, h0, by simp⟩
    | cons ev evs ih =>
      intro s0 s m0 h0 hr
      simp only [Sys.runEvs] at hr
      cases hst : s0.step ev with
      | none => rw [hst] at hr; cases hr
      | some s1 =>
        rw [hst] at hr
        simp only [Option.bind_some] at hr
        obtain ⟨m1, h1, hle1⟩ := shape_step c hon hprop hT h0 hst
        obtain ⟨m, hm, hle⟩ := ih s1 s m1 h1 hr
        exact ⟨m, hm, by simp only [List.length_cons]; omega⟩
  have hinit : Shape c o' B c.init 0 := by
    have : c.init = mk1 c o' .p0 .p0 false := by
      simp [Cfg.init, Sys.init, mk1, Pg.st, Pg.got, Pg.sent]
    rw [this]
    exact Shape.ph1 .p0 .p0 false (by decide)
  obtain ⟨m, hshape, hlen⟩ := hinv evs c.init s 0 hinit hrun
  cases hshape with
  | ph1 pI pR cd hV =>
    refine ⟨rfl, Nat.zero_le _, ?_, ?_⟩
    · have : pI.rank ≤ 3 := by cases pI <;> decide
      have : pR.rank ≤ 3 := by cases pR <;> decide
      have : (if cd = true then 1 else 0) + pI.rank + pR.rank ≤ 6 := by
        cases cd
        · simp; omega
        · obtain ⟨rfl, rfl⟩ := hV.2.2 rfl; decide
      omega
    · intro hq
      exfalso
      by_cases h33 : pI = .p3 ∧ pR = .p3
      · obtain ⟨rfl, rfl⟩ := h33
        have hcd : cd = false := by
          cases cd
          · rfl
          · exact absurd (hV.2.2 rfl).2 (by decide)
        subst hcd
        have hen := phase2_enabled c (Net.run 0 c.net0) none (netWF_run 0 hwf)
          (by simp [Net.run, net0_eq c hprop])
        rw [← mk1_33_eq c hon hprop, hq _] at hen
        cases hen
      · cases cd with
        | true =>
          obtain ⟨rfl, rfl⟩ := hV.2.2 rfl
          obtain ⟨s'', hst, _⟩ := replay_step c hon hprop
          rw [hq _] at hst
          cases hst
        | false =>
          obtain ⟨ev, hev⟩ := next1_enabled pI pR hV h33
          have := phase1_step c o' hon hprop pI pR false hV h33 ev (by simp)
          rw [hq _] at this
          cases hn : next1 pI pR false ev with
          | none => rw [hn] at hev; cases hev
          | some x => rw [hn] at this; cases this
  | ph2 j rc hj hf =>
    refine ⟨by simp [mk2, hf], ?_, by omega, ?_⟩
    · have := delivered_run j c.net0
      have h0 : c.net0.delivered = 0 := by simp [net0_eq c hprop]
      simp only [mk2]
      omega
    · intro hq
      apply agreed_mk2
      cases hm : (Net.run j c.net0).msg with
      | none => rw [← run_absorb hm B hj]; exact hT
      | some g =>
        exfalso
        have hen := phase2_enabled c (Net.run j c.net0) rc (netWF_run j hwf) (by simp [hm])
        rw [hq _] at hen
        cases hen


/-! ## The property clause: legacy negotiation terminates, for every delivery order -/

/-- two fresh lnd closers with ideal fees `a` (channel opener, cap `maxFee`) and `b`. -/
def legacyCfg (a b maxFee budget rmax : Int) (tap : Bool) (sI sR upI upR : Script) : Cfg :=
  { opener := mkNode a maxFee budget true tap, other := mkNode b rmax budget false tap,
    sI := sI, sR := sR, upI := upI, upR := upR }

theorem legacyCfg_honest (a b maxFee budget rmax : Int) (tap : Bool) (sI sR upI upR : Script)
    (hvI : validateShutdownScript upI sR = none) (hvR : validateShutdownScript upR sI = none) :
    Honest (legacyCfg a b maxFee budget rmax tap sI sR upI upR) :=
  ⟨rfl, rfl, rfl, rfl, rfl, hvI, hvR⟩

/--
`negotiation_terminates_any_order` — the termination clause of C17 at the level of the
`ChanCloser` state machines (closeIdle … closeFinished) and the peer glue, for ALL message
delivery orders. Two honest legacy (non-taproot) lnd closers, ideal fees `a` (opener) and `b`,
both `≥ 10·k` sat (`k ≥ 1`; `k = 10` for the realistic `≥ 100` sat), both within the opener's cap
and within what the opener can pay, below 2^60; delivery scripts valid and consistent with any
recorded upfront shutdown script. There is ONE fee `f` between the two ideals such that for every
schedule of enabled events from the idle state (either or both sides request the close, Shutdown /
ClosingSigned delivered in FIFO order per direction, the two flush notifications at any point —
in particular the opener's first offer arriving while the other side is still in
closeAwaitingFlush, cached and replayed by `BeginNegotiation`):
no closer ever fails; at most `negBound a b k = 5 + |a − b| / k` closing_signed are processed and
the schedule has at most `6 + negBound a b k` events; and whenever nothing more is enabled both
closers are in closeFinished having completed the close with `f`, an offer both signed, with
nothing in flight.
-/
theorem negotiation_terminates_any_order (a b k maxFee budget rmax : Int) (sI sR upI upR : Script)
    (hk : 1 ≤ k) (ha : 10 * k ≤ a) (hb : 10 * k ≤ b)
    (hcapa : a ≤ maxFee) (hcapb : b ≤ maxFee) (hbuda : a ≤ budget) (hbudb : b ≤ budget)
    (hda : a < 1152921504606846976) (hdb : b < 1152921504606846976)
    (hvI : validateShutdownScript upI sR = none) (hvR : validateShutdownScript upR sI = none) :
    ∃ f, min a b ≤ f ∧ f ≤ max a b ∧
      ∀ (evs : List Ev) (s : Sys),
        Sys.runEvs evs (legacyCfg a b maxFee budget rmax false sI sR upI upR).init = some s →
        s.failed = none ∧ s.delivered ≤ negBound a b k ∧ evs.length ≤ 6 + negBound a b k ∧
        (s.Quiescent → s.Agreed f) := by
  obtain ⟨f, hag, hlo, hhi⟩ := negotiation_terminates a b k maxFee budget rmax hk ha hb hcapa hcapb
    hbuda hbudb hda hdb
  exact ⟨f, hlo, hhi, fun evs s hrun =>
    close_any_order _ (legacyCfg_honest a b maxFee budget rmax false sI sR upI upR hvI hvR)
      (negBound a b k) f hag evs s hrun⟩

/-- taproot channels (musig2): the other side accepts the opener's first offer; for every
    schedule at most 3 closing_signed are processed, at most 9 events, agreement on the opener's
    ideal fee. -/
theorem taproot_close_any_order (a b maxFee budget rmax : Int) (sI sR upI upR : Script)
    (ha : a ≤ budget)
    (hvI : validateShutdownScript upI sR = none) (hvR : validateShutdownScript upR sI = none)
    (evs : List Ev) (s : Sys)
    (hrun : Sys.runEvs evs (legacyCfg a b maxFee budget rmax true sI sR upI upR).init = some s) :
    s.failed = none ∧ s.delivered ≤ 3 ∧ evs.length ≤ 9 ∧ (s.Quiescent → s.Agreed a) :=
  close_any_order _ (legacyCfg_honest a b maxFee budget rmax true sI sR upI upR hvI hvR) 3 a
    (taproot_fast_close a b maxFee budget rmax ha) evs s hrun

/-- the musig2 / script fields of every message two honest closers exchange: a Shutdown carries
    a nonce iff the channel is taproot and the sender's delivery script; a ClosingSigned carries a
    partial signature iff the channel is taproot. (Read off the shapes: in every reachable state
    the queues hold only such messages.) -/
theorem honest_msg_fields (c : Cfg) (o' : Node) (pI pR : Pg) (cd : Bool) (m : Msg)
    (hm : m ∈ (mk1 c o' pI pR cd).toI ∨ m ∈ (mk1 c o' pI pR cd).toR) :
    m = .shutdown c.sR c.opener.taproot ∨ m = .shutdown c.sI c.opener.taproot ∨
    m = .closingSigned c.opener.ideal c.opener.taproot := by
  simp only [mk1] at hm
  rcases hm with hm | hm
  · split at hm
    · simp at hm; exact Or.inl hm
    · simp at hm
  · rw [List.mem_append] at hm
    rcases hm with hm | hm
    · split at hm
      · simp at hm; exact Or.inr (Or.inl hm)
      · simp at hm
    · split at hm
      · simp at hm; exact Or.inr (Or.inr hm)
      · simp at hm

/-! ## Non-vacuity: concrete schedules -/

/-- P2WPKH delivery scripts, no upfront scripts: accepted. -/
example : validateShutdownScript [] (0 :: 20 :: List.replicate 20 1) = none := by decide

set_option maxRecDepth 16384 in
/-- the early-offer interleaving, concretely: R requests the close, I answers and is flushed first,
    I's offer (1000) overtakes R's flush notification and is cached, R's `BeginNegotiation`
    replays it and answers with its own ideal (1200, within 30 %), I accepts, R completes, I ignores
    the echo: agreement on 1200 after 4 processed closing_signed, 9 events. -/
example :
    (Sys.runEvs [.userClose .R, .deliver .I, .flush .I, .deliver .R, .deliver .R, .flush .R,
                 .deliver .I, .deliver .R, .deliver .I]
        (legacyCfg 1000 1200 3000 500000 3600 false (0 :: 20 :: List.replicate 20 1)
          (0 :: 20 :: List.replicate 20 2) [] []).init).map
      (fun s => (s.i.st, s.r.st, s.i.node.done, s.r.node.done, s.r.cached, s.delivered, s.toI, s.toR, s.failed)) =
      some (.finished, .finished, some 1200, some 1200, some (1000, false), 4, [], [], none) := by
  rfl

end LndModel.C17
