/-
C17 — property theorems (see DESIGN.md §2 C17). Helper lemmas live in Lemmas.lean.
-/
import LndModel.C17.Lemmas

namespace LndModel.C17

/-! ## Legacy fee negotiation terminates on a fee both sides signed for -/

/-- explicit bound on the number of closing_signed deliveries when both ideal fees are
    at least `10·k` sat. -/
def negBound (a b k : Int) : Nat := 5 + ((max a b - min a b) / k).toNat

/--
`negotiation_terminates`: two honest legacy (non-taproot) closers whose ideal fees `a`
(channel opener) and `b` are at least `10·k` sat (`k ≥ 1`), both within the opener's fee cap and
what the opener can pay, reach — within `5 + |a − b| / k` delivered closing_signed messages —
a state where no message is in flight, nobody failed, both completed the close with the same fee
`f`, `f` is among the offers each side signed, and `f` lies between the two ideal fees.
`rmax` (the non-opener's cap) is irrelevant.
-/
theorem negotiation_terminates (a b k maxFee budget rmax : Int)
    (hk : 1 ≤ k) (ha : 10 * k ≤ a) (hb : 10 * k ≤ b)
    (hcapa : a ≤ maxFee) (hcapb : b ≤ maxFee) (hbuda : a ≤ budget) (hbudb : b ≤ budget)
    (hda : a < 1152921504606846976) (hdb : b < 1152921504606846976) :
    ∃ f, (Net.run (negBound a b k)
            (Net.start (mkNode a maxFee budget true) (mkNode b rmax budget false))).Agreed f ∧
         min a b ≤ f ∧ f ≤ max a b := by
  -- the opener's first offer
  have hstart : Net.start (mkNode a maxFee budget true) (mkNode b rmax budget false) =
      { rcv := mkNode b rmax budget false,
        snd := { mkNode a maxFee budget true with last := a, offers := [a] },
        msg := some a } := by
    have : ¬ a > budget := by omega
    simp [Net.start, Node.propose, mkNode, this]
  -- the other side's first answer: its own ideal fee (it has not offered anything yet)
  have hb0 : ¬ b > budget := by omega
  have hcomp : calcCompromiseFee b 0 a = b := by simp [calcCompromiseFee]
  by_cases hab : b = a
  · -- identical ideals: accepted at once
    subst hab
    refine ⟨b, ?_, by omega, by omega⟩
    have hc : Closing b (Net.step (Net.start (mkNode b maxFee budget true) (mkNode b rmax budget false))) := by
      rw [hstart]
      simp only [Net.step, Node.recv, mkNode, Option.isSome_none, Bool.false_eq_true, if_false,
        Bool.false_and, List.contains_nil, hcomp, Node.propose, hb0]
      simp only [ne_eq, not_true_eq_false, if_false]
      exact ⟨rfl, rfl, rfl, rfl, by simp, rfl, by simp⟩
    have e : negBound b b k = 1 + (2 + 2) := by simp [negBound]
    rw [e, run_add 1, run_add 2]
    exact agreed_stable _ (closing_agreed hc)
  · have hmid : Mid k (min a b) (max a b)
        (Net.step (Net.start (mkNode a maxFee budget true) (mkNode b rmax budget false))) := by
      rw [hstart]
      simp only [Net.step, Node.recv, mkNode, Option.isSome_none, Bool.false_eq_true, if_false,
        Bool.false_and, List.contains_nil, hcomp, Node.propose, hb0]
      simp only [ne_eq, hab, not_false_eq_true, if_true]
      refine ⟨rfl, rfl, rfl, rfl, rfl, rfl, by simp, ?_, ?_, ?_, ?_, ?_, ?_, ?_, ?_, hk, ?_, ?_⟩ <;>
        first | omega | (simp; omega) | simp
    -- distance between the standing offers is |a - b|
    have hlast : (Net.step (Net.start (mkNode a maxFee budget true) (mkNode b rmax budget false))).rcv.last = a ∧
        (Net.step (Net.start (mkNode a maxFee budget true) (mkNode b rmax budget false))).snd.last = b := by
      rw [hstart]
      simp only [Net.step, Node.recv, mkNode, Option.isSome_none, Bool.false_eq_true, if_false,
        Bool.false_and, List.contains_nil, hcomp, Node.propose, hb0]
      simp [hab]
    -- fuel n with |a - b| ≤ k * n
    let D : Int := max a b - min a b
    have hD0 : 0 ≤ D := by simp only [D]; omega
    let n : Nat := (D / k).toNat + 1
    have hq0 : 0 ≤ D / k := Int.ediv_nonneg hD0 (by omega)
    have hn : ((n : Nat) : Int) = D / k + 1 := by
      simp only [n, Int.natCast_add, Int.toNat_of_nonneg hq0]; rfl
    have hlt : D < k * ((n : Nat) : Int) := by
      rw [hn, Int.mul_add, Int.mul_one]
      exact Int.lt_mul_ediv_self_add (show 0 < k by omega)
    obtain ⟨f, hfL, hfM, hag⟩ := mid_terminates n _ hmid
      (by rw [hlast.1, hlast.2]; simp only [D] at hlt; omega)
      (by rw [hlast.1, hlast.2]; simp only [D] at hlt; omega)
    refine ⟨f, ?_, hfL, hfM⟩
    have e : negBound a b k = 1 + (n + 3) := by simp only [negBound, n, D]; omega
    rw [e, run_add 1]
    exact hag

/-- the realistic case of the property statement: ideal fees of at least 100 sat. -/
theorem negotiation_terminates_100 (a b maxFee budget rmax : Int)
    (ha : 100 ≤ a) (hb : 100 ≤ b)
    (hcapa : a ≤ maxFee) (hcapb : b ≤ maxFee) (hbuda : a ≤ budget) (hbudb : b ≤ budget)
    (hda : a < 1152921504606846976) (hdb : b < 1152921504606846976) :
    ∃ f, (Net.run (5 + ((max a b - min a b) / 10).toNat)
            (Net.start (mkNode a maxFee budget true) (mkNode b rmax budget false))).Agreed f ∧
         min a b ≤ f ∧ f ≤ max a b :=
  negotiation_terminates a b 10 maxFee budget rmax (by omega) (by omega) (by omega)
    hcapa hcapb hbuda hbudb hda hdb


/-- Necessity of a lower bound on the ideal fees: with ideal fees 9 (opener) and 5 — within each
    other's caps, affordable — the two honest closers resend 9 and 5 forever (10 % of a fee
    below 10 sat is 0, and 5 / 9 are not within 30 % of each other): after any number of
    deliveries a closing_signed is still in flight and nobody has finished. -/
theorem negotiation_stuck_below_10 (n : Nat) :
    let s := Net.run n (Net.start (mkNode 9 27 1000 true) (mkNode 5 15 1000 false))
    s.msg ≠ none ∧ s.failed = none ∧ s.rcv.done = none ∧ s.snd.done = none := by
  let wI : Node := { mkNode 9 27 1000 true with last := 9, offers := [9] }
  let wR : Node := { mkNode 5 15 1000 false with last := 5, offers := [5] }
  let Q : Net → Prop := fun s =>
    (∃ d, s = { rcv := wI, snd := wR, msg := some 5, failed := none, delivered := d }) ∨
    (∃ d, s = { rcv := wR, snd := wI, msg := some 9, failed := none, delivered := d })
  have hstep : ∀ s, Q s → Q s.step := by
    intro s hs
    rcases hs with ⟨d, rfl⟩ | ⟨d, rfl⟩
    · exact Or.inr ⟨d + 1, rfl⟩
    · exact Or.inl ⟨d + 1, rfl⟩
  have hrun : ∀ m s, Q s → Q (Net.run m s) := by
    intro m
    induction m with
    | zero => intro s hs; exact hs
    | succ m ih => intro s hs; exact ih _ (hstep s hs)
  have hQ : ∀ s, Q s → s.msg ≠ none ∧ s.failed = none ∧ s.rcv.done = none ∧ s.snd.done = none := by
    intro s hs
    rcases hs with ⟨d, rfl⟩ | ⟨d, rfl⟩ <;> exact ⟨by simp, rfl, rfl, rfl⟩
  cases n with
  | zero => exact ⟨by simp [Net.run, Net.start, Node.propose, mkNode], rfl, rfl, rfl⟩
  | succ m =>
    have h1 : Q (Net.step (Net.start (mkNode 9 27 1000 true) (mkNode 5 15 1000 false))) :=
      Or.inl ⟨1, rfl⟩
    exact hQ _ (hrun m _ h1)

/-- Necessity of "within what the opener can pay": ideal fees 1000 / 2500 (≥ 100, within the
    default 3× caps) but the opener can only pay 2000 sat: the non-opener's first counter-offer
    (its ideal fee 2500) cannot be signed (`CreateCloseProposal`: "initiator cannot afford proposed
    coop close fee") and the negotiation aborts after the first delivery, for ever. -/
theorem negotiation_fails_over_budget (n : Nat) :
    let s := Net.run (n + 1) (Net.start (mkNode 1000 3000 2000 true) (mkNode 2500 7500 2000 false))
    s.failed = some .cannotAfford ∧ s.msg = none ∧ s.rcv.done = none ∧ s.snd.done = none := by
  have h1 : (Net.step (Net.start (mkNode 1000 3000 2000 true) (mkNode 2500 7500 2000 false))).msg = none := rfl
  simp only [Net.run]
  rw [run_of_msg_none n h1]
  exact ⟨rfl, rfl, rfl, rfl⟩

/-- Necessity of "the opener's ideal fee is within its OWN cap": opener ideal 5000 with an
    explicit cap 4000, other side 1000: the opener's first ratchet (4500) exceeds its cap and it
    bails out (`ErrProposalExceedsMaxFee`) at the second delivery. -/
theorem negotiation_fails_own_cap (n : Nat) :
    let s := Net.run (n + 2) (Net.start (mkNode 5000 4000 100000 true) (mkNode 1000 3000 100000 false))
    s.failed = some .exceedsMax ∧ s.msg = none ∧ s.rcv.done = none ∧ s.snd.done = none := by
  have h1 : (Net.step (Net.step (Net.start (mkNode 5000 4000 100000 true)
      (mkNode 1000 3000 100000 false)))).msg = none := rfl
  simp only [Net.run]
  rw [run_of_msg_none n h1]
  exact ⟨rfl, rfl, rfl, rfl⟩

/-- Necessity of "the other side's ideal fee is within the opener's cap": opener ideal 1000
    (default cap 3000), other side 30000: the opener ratchets up 10 % per round and bails out
    (`ErrProposalExceedsMaxFee`) at the 24th delivery, when its next offer would exceed 3000. -/
theorem negotiation_fails_other_above_cap :
    (Net.run 24 (Net.start (mkNode 1000 3000 1000000 true) (mkNode 30000 90000 1000000 false))).failed
      = some .exceedsMax := by
  decide

/-! ## Both sides build the same transaction -/

/--
`same_tx_both_sides`: for all balances (msat), commit fee, fee, delivery scripts, dust limits,
channel type, opener role, fee payer, custom sequence / locktime: the transaction side A builds
from its view equals the transaction side B builds from the mirrored view (same outputs in the
same order, same sequence and locktime), and one side fails exactly when the other does, with
the same error.
-/
theorem same_tx_both_sides (v : View) (r : CloseReq) :
    (closeProposal v.mirror r.mirror).map Prod.fst = (closeProposal v r).map Prod.fst := by
  unfold closeProposal
  simp only [View.mirror, CloseReq.mirror, View.txOpts]
  rw [coopCloseBalance_mirror]
  cases hb : coopCloseBalance v.anchors v.isInit r.fee (toSat v.localMsat) (toSat v.remoteMsat)
      v.commitFee r.payer with
  | none => rfl
  | some p =>
    obtain ⟨our, their⟩ := p
    simp only [Option.map_some, Prod.swap]
    rw [createCloseTx_swap]
    cases sanityErr (createCloseTx { rbf := v.taproot, customSeq := r.customSeq, customLock := r.customLock }
      v.localDust v.remoteDust our their r.localScript r.remoteScript r.lop r.rop).outs <;> rfl

/-- every mirror view is a counterpart … -/
theorem counterpart_mirror (v : View) : Counterpart v v.mirror := by
  obtain ⟨lm, rm, cf, isInit, anchors, tap, ld, rd⟩ := v
  refine ⟨rfl, rfl, rfl, rfl, rfl, ?_, ?_⟩ <;>
    (simp only [creditedLocal, creditedRemote, openerCredit, View.mirror]; cases isInit <;> cases anchors <;> simp)

/--
`same_tx_counterpart` (generalises `same_tx_both_sides` to states with a pending `update_fee`):
if the two sides' views agree on roles, channel type, dust limits and on the CREDITED sat balances
(balance + commit fee + anchors for the opener) — the individual commit fees and opener balances
may differ — they still build the same close transaction or fail with the same error.
-/
theorem same_tx_counterpart (v w : View) (h : Counterpart v w) (r : CloseReq) :
    (closeProposal w r.mirror).map Prod.fst = (closeProposal v r).map Prod.fst := by
  obtain ⟨hi, ha, ht, hld, hrd, hcl, hcr⟩ := h
  have hpay : localPays w r.mirror = !localPays v r := by
    obtain ⟨fee, ls, rs, lop, rop, payer, cs, cl⟩ := r
    rcases payer with _ | p
    · simp [localPays, CloseReq.mirror, hi]
    · cases p <;> simp [localPays, CloseReq.mirror, Party.other]
  have hfl : finalLocal w r.mirror = finalRemote v r := by
    have : r.mirror.fee = r.fee := rfl
    simp only [finalLocal, finalRemote, hpay, this]
    simp only [creditedLocal, creditedRemote] at hcl
    cases localPays v r <;> simp <;> omega
  have hfr : finalRemote w r.mirror = finalLocal v r := by
    have : r.mirror.fee = r.fee := rfl
    simp only [finalLocal, finalRemote, hpay, this]
    simp only [creditedLocal, creditedRemote] at hcr
    cases localPays v r <;> simp <;> omega
  unfold closeProposal
  rw [coopCloseBalance_eq, coopCloseBalance_eq, hfl, hfr]
  by_cases hneg : finalLocal v r < 0 ∨ finalRemote v r < 0
  · have hneg' : finalRemote v r < 0 ∨ finalLocal v r < 0 := hneg.symm
    simp [hneg, hneg']
  · have hneg' : ¬ (finalRemote v r < 0 ∨ finalLocal v r < 0) := fun h => hneg h.symm
    simp only [hneg, hneg', if_false]
    have hopts : w.txOpts r.mirror = v.txOpts r := by
      simp [View.txOpts, CloseReq.mirror, ht]
    simp only [hopts, hld, hrd]
    have hsw := createCloseTx_swap (v.txOpts r) v.localDust v.remoteDust (finalLocal v r)
      (finalRemote v r) r.localScript r.remoteScript r.lop r.rop
    have hm : createCloseTx (v.txOpts r) v.remoteDust v.localDust (finalRemote v r) (finalLocal v r)
        r.mirror.localScript r.mirror.remoteScript r.mirror.lop r.mirror.rop =
        createCloseTx (v.txOpts r) v.remoteDust v.localDust (finalRemote v r) (finalLocal v r)
        r.remoteScript r.localScript r.rop r.lop := rfl
    rw [hm, hsw]
    cases sanityErr (createCloseTx (v.txOpts r) v.localDust v.remoteDust (finalLocal v r)
      (finalRemote v r) r.localScript r.remoteScript r.lop r.rop).outs <;> rfl

/-- the final balances correspond: B's "our" balance is A's "their" balance. -/
theorem same_balances_both_sides (v : View) (r : CloseReq) :
    coopCloseBalance v.mirror.anchors v.mirror.isInit r.mirror.fee (toSat v.mirror.localMsat)
        (toSat v.mirror.remoteMsat) v.mirror.commitFee r.mirror.payer =
      (coopCloseBalance v.anchors v.isInit r.fee (toSat v.localMsat) (toSat v.remoteMsat)
        v.commitFee r.payer).map Prod.swap :=
  coopCloseBalance_mirror _ _ _ _ _ _ _


/-! ## Each side is paid its exact balance

`finalLocal v r` / `finalRemote v r`, `localPays`, `openerCredit`, `outValue`, `wantLocalOut`,
`wantRemoteOut`, `wantOutCount` (Spec.lean) are written from the property statement, not from the
model's functions: sat balance (msat truncated) + commit fee + 2·330 sat anchors if opener − fee
if paying party (the named payer, else the opener); an output exists iff the owed amount reaches
the OWNER's dust limit. -/

/-- the payer rule of the specification: without an explicit payer the channel opener pays, an
    explicit payer overrides it, and the two sides agree on who that is. -/
theorem default_payer_is_opener (v : View) (r : CloseReq) :
    (r.payer = none → localPays v r = v.isInit) ∧
    (r.payer = some .local → localPays v r = true) ∧
    (r.payer = some .remote → localPays v r = false) ∧
    localPays v.mirror r.mirror = !localPays v r := by
  refine ⟨fun h => by simp [localPays, h], fun h => by simp [localPays, h],
    fun h => by simp [localPays, h], ?_⟩
  obtain ⟨fee, ls, rs, lop, rop, payer, cs, cl⟩ := r
  rcases payer with _ | p
  · simp [localPays, View.mirror, CloseReq.mirror]
  · cases p <;> simp [localPays, CloseReq.mirror, Party.other]

/--
`close_value`: whenever the model builds a close transaction, "our" reported balance is exactly
what the local party is owed, nobody is owed a negative amount, and an output `x` is in the
transaction iff it is the local party's output (owed amount ≥ the LOCAL dust limit, value = owed
amount — 0 for an OP_RETURN script in the RBF flow —, paid to the local script) or the remote
party's (same with the REMOTE dust limit); the number of outputs is exactly the number of
parties at or above their own dust limit (so nothing is duplicated), they are in BIP 69 order,
and sequence / locktime are as requested.
-/
theorem close_value (v : View) (r : CloseReq) (tx : CloseTx) (bal : Int)
    (h : closeProposal v r = .ok (tx, bal)) :
    bal = finalLocal v r ∧ 0 ≤ finalLocal v r ∧ 0 ≤ finalRemote v r ∧
    (∀ x, x ∈ tx.outs ↔ wantLocalOut v r x ∨ wantRemoteOut v r x) ∧
    tx.outs.length = wantOutCount v r ∧
    SortedOuts tx.outs ∧ tx.outs ≠ [] ∧
    tx.sequence = (match r.customSeq with
                   | some s => s
                   | none => if v.taproot then 4294967293 else 4294967295) ∧
    tx.lockTime = r.customLock.getD 0 := by
  unfold closeProposal at h
  rw [coopCloseBalance_eq] at h
  by_cases hneg : finalLocal v r < 0 ∨ finalRemote v r < 0
  · simp [hneg] at h
  · simp only [hneg, if_false] at h
    split at h
    · cases h
    · rename_i hs
      simp only [Except.ok.injEq, Prod.mk.injEq] at h
      obtain ⟨h1, h2⟩ := h
      subst h1 h2
      have hperm := sortOuts_perm
        (partyOut (v.txOpts r) v.localDust (finalLocal v r) r.localScript r.lop ++
         partyOut (v.txOpts r) v.remoteDust (finalRemote v r) r.remoteScript r.rop)
      refine ⟨rfl, by omega, by omega, ?_, ?_, sortOuts_sorted _, ?_, ?_, rfl⟩
      · intro x
        simp only [createCloseTx]
        rw [hperm.mem_iff, List.mem_append, mem_partyOut, mem_partyOut]
        simp only [wantLocalOut, wantRemoteOut, outValue, View.txOpts, Bool.and_eq_true]
      · simp only [createCloseTx]
        rw [hperm.length_eq, List.length_append]
        by_cases ha : v.localDust ≤ finalLocal v r <;> by_cases hb : v.remoteDust ≤ finalRemote v r <;>
          simp [partyOut, wantOutCount, ha, hb]
      · intro he
        simp [sanityErr, he] at hs
      · simp only [createCloseTx, TxOpts.sequence, View.txOpts, maxRBFSequence, defaultSequence]
        cases r.customSeq <;> rfl

/-- value conservation: outputs + fee + (balances omitted as dust or zeroed for OP_RETURN) is
    exactly what the channel held: both sat balances + commit fee + anchors. -/
theorem close_conservation (v : View) (r : CloseReq) (tx : CloseTx) (bal : Int)
    (h : closeProposal v r = .ok (tx, bal)) :
    ∃ omitted : Int, 0 ≤ omitted ∧
      sumOuts tx.outs + r.fee + omitted =
        ((v.localMsat / 1000 : Nat) : Int) + ((v.remoteMsat / 1000 : Nat) : Int) + openerCredit v := by
  obtain ⟨_, hl, hr, _, _, _, _, _, _⟩ := close_value v r tx bal h
  unfold closeProposal at h
  rw [coopCloseBalance_eq] at h
  have hneg : ¬ (finalLocal v r < 0 ∨ finalRemote v r < 0) := by omega
  simp only [hneg, if_false] at h
  split at h
  · cases h
  · simp only [Except.ok.injEq, Prod.mk.injEq] at h
    obtain ⟨h1, _⟩ := h
    subst h1
    have hsum : ∀ (o : TxOpts) (dust b : Int) (s : Script) (op : Bool), 0 ≤ b →
        0 ≤ sumOuts (partyOut o dust b s op) ∧ sumOuts (partyOut o dust b s op) ≤ b := by
      intro o dust b s op hb
      unfold partyOut
      split
      · split <;> simp [sumOuts] <;> omega
      · simp [sumOuts]; omega
    have ha := hsum (v.txOpts r) v.localDust (finalLocal v r) r.localScript r.lop hl
    have hb := hsum (v.txOpts r) v.remoteDust (finalRemote v r) r.remoteScript r.rop hr
    refine ⟨finalLocal v r + finalRemote v r
        - sumOuts (partyOut (v.txOpts r) v.localDust (finalLocal v r) r.localScript r.lop)
        - sumOuts (partyOut (v.txOpts r) v.remoteDust (finalRemote v r) r.remoteScript r.rop), by omega, ?_⟩
    simp only [createCloseTx, sumOuts_sort, sumOuts_append]
    unfold finalLocal finalRemote
    cases v.isInit <;> cases localPays v r <;>
      simp only [if_true, if_false, Bool.false_eq_true] <;> omega

/-- outputs plus fee never exceed the channel capacity (whenever the two msat balances, the
    commit fee and the anchors fit in the capacity — which holds for every channel state). -/
theorem close_within_capacity (v : View) (r : CloseReq) (tx : CloseTx) (bal capacity : Int)
    (hcap : (v.localMsat : Int) + v.remoteMsat + 1000 * openerCredit v ≤ 1000 * capacity)
    (h : closeProposal v r = .ok (tx, bal)) :
    sumOuts tx.outs + r.fee ≤ capacity := by
  obtain ⟨om, hom, heq⟩ := close_conservation v r tx bal h
  omega

/-- the close fails with "cannot afford" iff a balance would become negative … -/
theorem close_error_iff (v : View) (r : CloseReq) :
    closeProposal v r = .error .afford ↔ (finalLocal v r < 0 ∨ finalRemote v r < 0) := by
  unfold closeProposal
  rw [coopCloseBalance_eq]
  by_cases hneg : finalLocal v r < 0 ∨ finalRemote v r < 0
  · simp [hneg]
  · simp only [hneg, if_false, iff_false]
    split
    · rename_i e hs
      intro he
      simp only [Except.error.injEq] at he
      subst he
      simp only [sanityErr] at hs
      split at hs
      · cases hs
      · split at hs
        · cases hs
        · split at hs <;> cases hs
    · intro he; cases he

/-- … which, for a real channel state (non-negative commit fee), means exactly that the PAYING
    party cannot pay the fee out of its credited balance. -/
theorem afford_iff_payer (v : View) (r : CloseReq) (hcf : 0 ≤ v.commitFee) :
    (finalLocal v r < 0 ∨ finalRemote v r < 0) ↔ payerCredit v r < r.fee := by
  unfold payerCredit finalLocal finalRemote openerCredit
  cases v.isInit <;> cases v.anchors <;> cases localPays v r <;>
    simp only [if_true, if_false, Bool.false_eq_true] <;> omega

/-- the only other failure: both balances are below their owners' dust limits, so the
    transaction would have no outputs (`CheckTransactionSanity`). -/
theorem close_noOutputs_iff (v : View) (r : CloseReq) :
    closeProposal v r = .error .noOutputs ↔
      (0 ≤ finalLocal v r ∧ 0 ≤ finalRemote v r ∧
        finalLocal v r < v.localDust ∧ finalRemote v r < v.remoteDust) := by
  unfold closeProposal
  rw [coopCloseBalance_eq]
  by_cases hneg : finalLocal v r < 0 ∨ finalRemote v r < 0
  · simp only [hneg, if_true]
    constructor
    · intro h; cases h
    · intro h; omega
  · simp only [hneg, if_false]
    have hperm := sortOuts_perm
      (partyOut (v.txOpts r) v.localDust (finalLocal v r) r.localScript r.lop ++
       partyOut (v.txOpts r) v.remoteDust (finalRemote v r) r.remoteScript r.rop)
    have hempty : (createCloseTx (v.txOpts r) v.localDust v.remoteDust (finalLocal v r)
          (finalRemote v r) r.localScript r.remoteScript r.lop r.rop).outs.isEmpty = true ↔
        (finalLocal v r < v.localDust ∧ finalRemote v r < v.remoteDust) := by
      simp only [createCloseTx, List.isEmpty_iff]
      constructor
      · intro he
        rw [he] at hperm
        have := hperm.symm.eq_nil
        simp only [List.append_eq_nil_iff, partyOut] at this
        obtain ⟨ha, hb⟩ := this
        constructor
        · by_cases hh : finalLocal v r ≥ v.localDust
          · simp [hh] at ha
          · omega
        · by_cases hh : finalRemote v r ≥ v.remoteDust
          · simp [hh] at hb
          · omega
      · intro ⟨ha, hb⟩
        have h1 : ¬ finalLocal v r ≥ v.localDust := by omega
        have h2 : ¬ finalRemote v r ≥ v.remoteDust := by omega
        simp [partyOut, h1, h2, sortOuts]
    constructor
    · intro h
      split at h
      · rename_i e hs
        simp only [Except.error.injEq] at h
        subst h
        simp only [sanityErr] at hs
        split at hs
        · rename_i he
          exact ⟨by omega, by omega, (hempty.mp he).1, (hempty.mp he).2⟩
        · split at hs
          · cases hs
          · split at hs <;> cases hs
      · cases h
    · intro ⟨_, _, ha, hb⟩
      have he := hempty.mpr ⟨ha, hb⟩
      simp [sanityErr, he]


/-- amounts stay in the consensus range whenever the channel's funds do. -/
theorem close_no_sanity_error (v : View) (r : CloseReq)
    (hmax : finalLocal v r + finalRemote v r ≤ maxSatoshi) :
    closeProposal v r ≠ .error .sanity := by
  unfold closeProposal
  rw [coopCloseBalance_eq]
  by_cases hneg : finalLocal v r < 0 ∨ finalRemote v r < 0
  · simp [hneg]
  · simp only [hneg, if_false]
    have hl : 0 ≤ finalLocal v r := by omega
    have hr : 0 ≤ finalRemote v r := by omega
    have hval : ∀ (o : TxOpts) (dust b : Int) (s : Script) (op : Bool) (x : TxOut), 0 ≤ b →
        x ∈ partyOut o dust b s op → 0 ≤ x.value ∧ x.value ≤ b := by
      intro o dust b s op x hb hx
      rw [mem_partyOut] at hx
      obtain ⟨_, rfl⟩ := hx
      split <;> simp <;> omega
    have hsum : ∀ (o : TxOpts) (dust b : Int) (s : Script) (op : Bool), 0 ≤ b →
        sumOuts (partyOut o dust b s op) ≤ b := by
      intro o dust b s op hb
      unfold partyOut
      split
      · split <;> simp [sumOuts] <;> omega
      · simp [sumOuts]; omega
    have hany : (createCloseTx (v.txOpts r) v.localDust v.remoteDust (finalLocal v r) (finalRemote v r)
        r.localScript r.remoteScript r.lop r.rop).outs.any
          (fun o => decide (o.value < 0) || decide (o.value > maxSatoshi)) = false := by
      rw [List.any_eq_false]
      intro x hx
      simp only [createCloseTx] at hx
      have hx' := (sortOuts_perm _).mem_iff.mp hx
      rw [List.mem_append] at hx'
      rcases hx' with hx' | hx'
      · have := hval _ _ _ _ _ x hl hx'
        simp; omega
      · have := hval _ _ _ _ _ x hr hx'
        simp; omega
    have htot : ¬ sumOuts (createCloseTx (v.txOpts r) v.localDust v.remoteDust (finalLocal v r)
        (finalRemote v r) r.localScript r.remoteScript r.lop r.rop).outs > maxSatoshi := by
      simp only [createCloseTx, sumOuts_sort, sumOuts_append]
      have := hsum (v.txOpts r) v.localDust _ r.localScript r.lop hl
      have := hsum (v.txOpts r) v.remoteDust _ r.remoteScript r.rop hr
      omega
    simp only [sanityErr, hany, htot]
    split
    · rename_i e hs
      split at hs
      · cases hs; simp
      · simp at hs
    · simp

/-! ## Link between the negotiation model's `budget` and the transaction model -/

/-- For the channel opener's view in the legacy flow (no explicit payer) with the other side's
    balance at or above its dust limit: a proposal for fee `f ≥ 0` can be built iff `f` is at most
    the opener's credited balance — the `budget` of `Node.propose`. -/
theorem proposal_ok_iff_fee_le_budget (v : View) (r : CloseReq)
    (hinit : v.isInit = true) (hp : r.payer = none) (hfee : 0 ≤ r.fee) (hcf : 0 ≤ v.commitFee)
    (hrem : v.remoteDust ≤ ((v.remoteMsat / 1000 : Nat) : Int))
    (hmax : ((v.localMsat / 1000 : Nat) : Int) + ((v.remoteMsat / 1000 : Nat) : Int)
              + openerCredit v ≤ maxSatoshi) :
    (∃ tx bal, closeProposal v r = .ok (tx, bal)) ↔
      r.fee ≤ ((v.localMsat / 1000 : Nat) : Int) + openerCredit v := by
  have hl : finalLocal v r = ((v.localMsat / 1000 : Nat) : Int) + openerCredit v - r.fee := by
    simp [finalLocal, localPays, hp, hinit]
  have hr : finalRemote v r = ((v.remoteMsat / 1000 : Nat) : Int) := by
    simp [finalRemote, localPays, hp, hinit]
  constructor
  · rintro ⟨tx, bal, h⟩
    have := (close_value v r tx bal h).2.1
    omega
  · intro hle
    cases hres : closeProposal v r with
    | ok p => exact ⟨p.1, p.2, rfl⟩
    | error e =>
      exfalso
      cases e with
      | afford =>
        have := (close_error_iff v r).mp hres
        have hcr : 0 ≤ openerCredit v := by unfold openerCredit; split <;> omega
        omega
      | noOutputs =>
        have := (close_noOutputs_iff v r).mp hres
        omega
      | sanity =>
        exact close_no_sanity_error v r (by omega) hres

/-- … and when the other side is below its dust limit the threshold drops by the opener's own
    dust limit (otherwise the transaction would have no outputs). -/
theorem proposal_ok_iff_fee_le_budget_dust (v : View) (r : CloseReq)
    (hinit : v.isInit = true) (hp : r.payer = none) (hfee : 0 ≤ r.fee)
    (hld : 0 ≤ v.localDust)
    (hrem : ((v.remoteMsat / 1000 : Nat) : Int) < v.remoteDust)
    (hmax : ((v.localMsat / 1000 : Nat) : Int) + ((v.remoteMsat / 1000 : Nat) : Int)
              + openerCredit v ≤ maxSatoshi) :
    (∃ tx bal, closeProposal v r = .ok (tx, bal)) ↔
      r.fee ≤ ((v.localMsat / 1000 : Nat) : Int) + openerCredit v - v.localDust := by
  have hl : finalLocal v r = ((v.localMsat / 1000 : Nat) : Int) + openerCredit v - r.fee := by
    simp [finalLocal, localPays, hp, hinit]
  have hr : finalRemote v r = ((v.remoteMsat / 1000 : Nat) : Int) := by
    simp [finalRemote, localPays, hp, hinit]
  constructor
  · rintro ⟨tx, bal, h⟩
    have hv := close_value v r tx bal h
    have hcnt := hv.2.2.2.2.1
    have hne := hv.2.2.2.2.2.2.1
    have : tx.outs.length ≠ 0 := by
      intro h0; exact hne (List.length_eq_zero_iff.mp h0)
    by_cases h1 : v.localDust ≤ finalLocal v r
    · omega
    · have h2 : ¬ v.remoteDust ≤ finalRemote v r := by omega
      have h0 : wantOutCount v r = 0 := by simp [wantOutCount, h1, h2]
      rw [h0] at hcnt
      exact absurd hcnt this
  · intro hle
    cases hres : closeProposal v r with
    | ok p => exact ⟨p.1, p.2, rfl⟩
    | error e =>
      exfalso
      cases e with
      | afford =>
        have := (close_error_iff v r).mp hres
        omega
      | noOutputs =>
        have := (close_noOutputs_iff v r).mp hres
        omega
      | sanity =>
        exact close_no_sanity_error v r (by omega) hres

/-! ## RBF co-op close: closer pays, both sides build the same transaction -/

/-- an announced locktime of 0 is the same as no custom locktime. -/
theorem closeProposal_lock_zero (v : View) (r : CloseReq) :
    closeProposal v { r with customLock := some 0 } = closeProposal v { r with customLock := none } := by
  have hc : ∀ ld rd our their ls rs lop rop,
      createCloseTx (v.txOpts { r with customLock := some 0 }) ld rd our their ls rs lop rop =
      createCloseTx (v.txOpts { r with customLock := none }) ld rd our their ls rs lop rop := by
    intros; simp [createCloseTx, View.txOpts, partyOut, TxOpts.sequence]; rfl
  simp only [closeProposal, hc]

/--
`rbf_same_tx`: if the closer (terms `t`, absolute fee `fee`) sends closing_complete with sig field
`label` for transaction `tx`, then the closee — holding the mirror-image terms and receiving the
announced locktime 0 (production: `Environment.BlockHeight` is never set) — passes its
`RemoteCanPayFees` check, accepts exactly that sig field, and builds the SAME transaction, so the
closer's signature verifies and the closee's signature completes the closer's transaction.
-/
theorem rbf_same_tx (t : RbfTerms) (fee : Int) (label : SigLabel) (tx : CloseTx) (bal : Int)
    (h : rbfOffer t fee = .sent label tx bal) :
    rbfAccept t.mirror fee label 0 = .ok tx := by
  unfold rbfOffer at h
  by_cases hpay : toSat t.v.localMsat < fee
  · simp [hpay] at h
  · simp only [hpay, if_false] at h
    cases hcp : closeProposal t.v (rbfReq t fee .local none) with
    | error e => simp [hcp] at h
    | ok p =>
      obtain ⟨tx', bal'⟩ := p
      simp only [hcp, RbfOffer.sent.injEq] at h
      obtain ⟨hlabel, htx, _⟩ := h
      subst htx
      have hs := same_tx_both_sides t.v (rbfReq t fee .local none)
      rw [hcp] at hs
      have hm : closeProposal t.mirror.v (rbfReq t.mirror fee .remote none) =
          closeProposal t.v.mirror (rbfReq t fee .local none).mirror := rfl
      have hz := closeProposal_lock_zero t.mirror.v (rbfReq t.mirror fee .remote none)
      have hz' : closeProposal t.mirror.v (rbfReq t.mirror fee .remote (some 0)) =
          closeProposal t.v.mirror (rbfReq t fee .local none).mirror := by
        rw [← hm]; exact hz
      unfold rbfAccept
      have hpay' : ¬ toSat t.mirror.v.remoteMsat < fee := hpay
      simp only [hpay', if_false, hz']
      cases hmp : closeProposal t.v.mirror (rbfReq t fee .local none).mirror with
      | error e => rw [hmp] at hs; cases hs
      | ok q =>
        rw [hmp] at hs
        simp only [Except.map] at hs
        have hq : q.1 = tx' := by injection hs
        have hdust : (toSat t.mirror.v.localMsat < t.mirror.sdLocal) =
            (toSat t.v.remoteMsat < t.sdRemote) := rfl
        simp only [hdust]
        by_cases hd : toSat t.v.remoteMsat < t.sdRemote
        · simp only [hd, if_true] at hlabel
          subst hlabel
          simp [hd, hq]
        · simp only [hd, if_false] at hlabel
          by_cases hb : bal' < t.sdLocal
          · simp only [hb, if_true] at hlabel
            subst hlabel
            simp [hd, hq]
          · simp only [hb, if_false] at hlabel
            subst hlabel
            simp [hd, hq]

/--
`rbf_close_value`: in an RBF iteration the closer offers only a fee it can pay from its raw
balance; the closer is owed its sat balance (+ commit fee + anchors if it opened the channel)
minus the fee, the closee its sat balance (+ that credit if IT opened the channel) with no fee
charged; each output is present iff the owed amount reaches the owner's own channel dust limit
and carries exactly the owed amount; sequence is `MaxRBFSequence`, locktime 0.
-/
theorem rbf_close_value (t : RbfTerms) (fee : Int) (label : SigLabel) (tx : CloseTx) (bal : Int)
    (h : rbfOffer t fee = .sent label tx bal) :
    let closerOwed := ((t.v.localMsat / 1000 : Nat) : Int)
                        + (if t.v.isInit then openerCredit t.v else 0) - fee
    let closeeOwed := ((t.v.remoteMsat / 1000 : Nat) : Int)
                        + (if t.v.isInit then 0 else openerCredit t.v)
    fee ≤ ((t.v.localMsat / 1000 : Nat) : Int) ∧
    bal = closerOwed ∧ 0 ≤ closerOwed ∧ 0 ≤ closeeOwed ∧
    (∀ x, x ∈ tx.outs ↔
        (t.v.localDust ≤ closerOwed ∧ x = ⟨closerOwed, t.localScript⟩) ∨
        (t.v.remoteDust ≤ closeeOwed ∧ x = ⟨closeeOwed, t.remoteScript⟩)) ∧
    tx.outs.length = (if t.v.localDust ≤ closerOwed then 1 else 0)
                      + (if t.v.remoteDust ≤ closeeOwed then 1 else 0) ∧
    tx.sequence = 4294967293 ∧ tx.lockTime = 0 := by
  intro closerOwed closeeOwed
  unfold rbfOffer at h
  by_cases hpay : toSat t.v.localMsat < fee
  · simp [hpay] at h
  · simp only [hpay, if_false] at h
    cases hcp : closeProposal t.v (rbfReq t fee .local none) with
    | error e => simp [hcp] at h
    | ok p =>
      obtain ⟨tx', bal'⟩ := p
      simp only [hcp, RbfOffer.sent.injEq] at h
      obtain ⟨_, htx, hbal⟩ := h
      subst htx hbal
      have hv := close_value t.v (rbfReq t fee .local none) tx' bal' hcp
      have hfl : finalLocal t.v (rbfReq t fee .local none) = closerOwed := by
        simp [finalLocal, localPays, rbfReq, closerOwed]
      have hfr : finalRemote t.v (rbfReq t fee .local none) = closeeOwed := by
        simp [finalRemote, localPays, rbfReq, closeeOwed]
      obtain ⟨h1, h2, h3, h4, h5, _, _, h8, h9⟩ := hv
      rw [hfl] at h1 h2
      rw [hfr] at h3
      refine ⟨by unfold toSat at hpay; omega, h1, h2, h3, ?_, ?_, ?_, ?_⟩
      · intro x
        rw [h4 x]
        unfold wantLocalOut wantRemoteOut outValue
        rw [hfl, hfr]
        simp [rbfReq]
      · rw [h5]; simp only [wantOutCount, hfl, hfr]
      · simpa [rbfReq, maxRBFSequence] using h8
      · simpa [rbfReq] using h9

/-- the sig field the closer picks, in terms of the RAW closee balance and script dust limits. -/
theorem rbf_label (t : RbfTerms) (fee : Int) (label : SigLabel) (tx : CloseTx) (bal : Int)
    (h : rbfOffer t fee = .sent label tx bal) :
    (label = .closerOnly ↔ ((t.v.remoteMsat / 1000 : Nat) : Int) < t.sdRemote) ∧
    (label = .closeeOnly ↔ ¬ ((t.v.remoteMsat / 1000 : Nat) : Int) < t.sdRemote ∧ bal < t.sdLocal) := by
  unfold rbfOffer at h
  by_cases hpay : toSat t.v.localMsat < fee
  · simp [hpay] at h
  · simp only [hpay, if_false] at h
    cases hcp : closeProposal t.v (rbfReq t fee .local none) with
    | error e => simp [hcp] at h
    | ok p =>
      obtain ⟨tx', bal'⟩ := p
      simp only [hcp, RbfOffer.sent.injEq] at h
      obtain ⟨hlabel, _, hbal⟩ := h
      subst hbal
      unfold toSat at hlabel
      by_cases hd : ((t.v.remoteMsat / 1000 : Nat) : Int) < t.sdRemote
      · rw [if_pos hd] at hlabel
        subst hlabel
        exact ⟨⟨fun _ => hd, fun _ => rfl⟩, ⟨(fun h => SigLabel.noConfusion h), fun h => absurd hd h.1⟩⟩
      · rw [if_neg hd] at hlabel
        by_cases hb : bal' < t.sdLocal
        · rw [if_pos hb] at hlabel
          subst hlabel
          exact ⟨⟨(fun h => SigLabel.noConfusion h), fun h => absurd h hd⟩, ⟨fun _ => ⟨hd, hb⟩, fun _ => rfl⟩⟩
        · rw [if_neg hb] at hlabel
          subst hlabel
          exact ⟨⟨(fun h => SigLabel.noConfusion h), fun h => absurd h hd⟩, ⟨(fun h => SigLabel.noConfusion h), fun h => absurd h.2 hb⟩⟩

set_option maxRecDepth 8192 in
/-- The sig-field label is NOT a function of the outputs actually present (settles the suspicion
    in the notes, at model level; the harness counts the same on the real state machines): the
    closee opened the channel, its raw balance 100 sat is below its script's dust limit 294, so
    the closer labels the offer `closer_output_only`; but the transaction credits the commit fee
    (2000) back to the closee, 2100 ≥ its channel dust limit 354, so BOTH outputs are present.
    By `rbf_same_tx` the closee nevertheless builds the same transaction and accepts the label. -/
example :
    rbfOffer { v := { localMsat := 500000000, remoteMsat := 100000, commitFee := 2000, isInit := false,
                      anchors := false, taproot := false, localDust := 354, remoteDust := 354 },
               localScript := [0, 20, 1], remoteScript := [0, 20, 2], sdLocal := 294, sdRemote := 294 } 500 =
      .sent .closerOnly { sequence := 4294967293, lockTime := 0,
                          outs := [⟨2100, [0, 20, 2]⟩, ⟨499500, [0, 20, 1]⟩] } 499500 := by
  rfl

set_option maxRecDepth 8192 in
/-- Latent (not reachable in production, where the announced locktime is always 0): if
    `Environment.BlockHeight` were set, the closer would announce it as locktime while signing a
    locktime-0 transaction, and the closee would build a different transaction. -/
example :
    let t : RbfTerms := { v := { localMsat := 500000000, remoteMsat := 400000000, commitFee := 2000,
                                 isInit := true, anchors := false, taproot := false,
                                 localDust := 354, remoteDust := 354 },
                          localScript := [0, 20, 1], remoteScript := [0, 20, 2], sdLocal := 294, sdRemote := 294 }
    (match rbfOffer t 500 with
      | .sent label tx _ => some (label, tx.lockTime)
      | _ => none) = some (.both, 0) ∧
    (match rbfAccept t.mirror 500 .both 800000 with
      | .ok tx' => some tx'.lockTime
      | _ => none) = some 800000 := by
  exact ⟨rfl, rfl⟩

/-! ## The fee rules on the realistic domain (no int64 wrap-around below 2^60 sat) -/

/-- `ratchetFee` moves by ⌊fee/10⌋ and `feeInAcceptableRange` accepts within ⌊3·fee/10⌋, in exact
    integer arithmetic, for every fee in `[0, 2^60)`. -/
theorem fee_rules (x y : Int) (hx : Dom x) :
    ratchetFee x true = x + x / 10 ∧ ratchetFee x false = x - x / 10 ∧
    (x < y → (feeInAcceptableRange x y = true ↔ y ≤ x + x * 3 / 10)) ∧
    (¬ x < y → (feeInAcceptableRange x y = true ↔ x - x * 3 / 10 ≤ y)) := by
  refine ⟨ratchet_up hx, ratchet_down hx, ?_, ?_⟩
  · intro h; rw [inRange_of_lt hx h]; simp
  · intro h; rw [inRange_of_not_lt hx h]; simp

/-! ## Taproot channels: the non-opener accepts the opener's first offer -/

theorem taproot_fast_close (a b maxFee budget rmax : Int) (ha : a ≤ budget) :
    (Net.run 3 (Net.start (mkNode a maxFee budget true true) (mkNode b rmax budget false true))).Agreed a := by
  have h : ¬ a > budget := by omega
  simp [Net.run, Net.step, Net.start, Node.recv, Node.propose, mkNode, h, Net.Agreed]

/-! ## Non-vacuity -/

/-- hypotheses of `negotiation_terminates` are satisfiable, and the run really ends in agreement:
    opener's ideal 1000 sat (default cap 3000), other side's ideal 2500 sat. -/
example : (Net.run 11 (Net.start (mkNode 1000 3000 500000 true) (mkNode 2500 7500 500000 false))).Agreed 1464 :=
  ⟨rfl, rfl, rfl, rfl, by decide, by decide⟩

example : negBound 1000 2500 100 = 20 := by decide

/-- a concrete anchor channel, opener local with 500 000.999 sat, remote 1 299 sat (below its dust
    limit 1 300): one output, opener gets balance + commit fee + 2 anchors − fee. -/
example :
    closeProposal
      { localMsat := 500000999, remoteMsat := 1299000, commitFee := 2500, isInit := true,
        anchors := true, taproot := false, localDust := 354, remoteDust := 1300 }
      { fee := 700, localScript := [0, 20, 1], remoteScript := [0, 20, 2], lop := false, rop := false } =
    .ok ({ sequence := 4294967295, lockTime := 0, outs := [⟨500000 + 2500 + 660 - 700, [0, 20, 1]⟩] },
         502460) := by
  rfl

/-- … and the payer that cannot afford the fee. -/
example :
    closeProposal
      { localMsat := 100000, remoteMsat := 900000000, commitFee := 200, isInit := true,
        anchors := false, taproot := false, localDust := 354, remoteDust := 354 }
      { fee := 301, localScript := [1], remoteScript := [2], lop := false, rop := false } =
    .error .afford := by
  rfl

end LndModel.C17
