/-
C17 — property theorems (see DESIGN.md §2 C17). Helper lemmas live in Lemmas.lean.
-/
import LndModel.C17.Lemmas

namespace LndModel.C17

/-! ## Legacy fee negotiation terminates on a fee both sides signed for -/

/-- explicit bound on the number of closing_signed deliveries when both ideal fees are
    at least `10·k` sat. -/
def negBound (a b k : Int) : Nat := 5 + ((max a b - min a b) / k).toNat

/--
`negotiation_terminates`: two honest legacy (non-taproot) closers whose ideal fees `a`
(channel opener) and `b` are at least `10·k` sat (`k ≥ 1`), both within the opener's fee cap and
what the opener can pay, reach — within `5 + |a − b| / k` delivered closing_signed messages —
a state where no message is in flight, nobody failed, both completed the close with the same fee
`f`, `f` is among the offers each side signed, and `f` lies between the two ideal fees.
`rmax` (the non-opener's cap) is irrelevant.
-/
theorem negotiation_terminates (a b k maxFee budget rmax : Int)
    (hk : 1 ≤ k) (ha : 10 * k ≤ a) (hb : 10 * k ≤ b)
    (hcapa : a ≤ maxFee) (hcapb : b ≤ maxFee) (hbuda : a ≤ budget) (hbudb : b ≤ budget)
    (hda : a < 1152921504606846976) (hdb : b < 1152921504606846976) :
    ∃ f, (Net.run (negBound a b k)
            (Net.start (mkNode a maxFee budget true) (mkNode b rmax budget false))).Agreed f ∧
         min a b ≤ f ∧ f ≤ max a b := by
  -- the opener's first offer
  have hstart : Net.start (mkNode a maxFee budget true) (mkNode b rmax budget false) =
      { rcv := mkNode b rmax budget false,
        snd := { mkNode a maxFee budget true with last := a, offers := [a] },
        msg := some a } := by
    have : ¬ a > budget := by omega
    simp [Net.start, Node.propose, mkNode, this]
  -- the other side's first answer: its own ideal fee (it has not offered anything yet)
  have hb0 : ¬ b > budget := by omega
  have hcomp : calcCompromiseFee b 0 a = b := by simp [calcCompromiseFee]
  by_cases hab : b = a
  · -- identical ideals: accepted at once
    subst hab
    refine ⟨b, ?_, by omega, by omega⟩
    have hc : Closing b (Net.step (Net.start (mkNode b maxFee budget true) (mkNode b rmax budget false))) := by
      rw [hstart]
      simp only [Net.step, Node.recv, mkNode, Option.isSome_none, Bool.false_eq_true, if_false,
        Bool.false_and, List.contains_nil, hcomp, Node.propose, hb0]
      simp only [ne_eq, not_true_eq_false, if_false]
      exact ⟨rfl, rfl, rfl, rfl, by simp, rfl, by simp⟩
    have e : negBound b b k = 1 + (2 + 2) := by simp [negBound]
    rw [e, run_add 1, run_add 2]
    exact agreed_stable _ (closing_agreed hc)
  · have hmid : Mid k (min a b) (max a b)
        (Net.step (Net.start (mkNode a maxFee budget true) (mkNode b rmax budget false))) := by
      rw [hstart]
      simp only [Net.step, Node.recv, mkNode, Option.isSome_none, Bool.false_eq_true, if_false,
        Bool.false_and, List.contains_nil, hcomp, Node.propose, hb0]
      simp only [ne_eq, hab, not_false_eq_true, if_true]
      refine ⟨rfl, rfl, rfl, rfl, rfl, rfl, by simp, ?_, ?_, ?_, ?_, ?_, ?_, ?_, ?_, hk, ?_, ?_⟩ <;>
        first | omega | (simp; omega) | simp
    -- distance between the standing offers is |a - b|
    have hlast : (Net.step (Net.start (mkNode a maxFee budget true) (mkNode b rmax budget false))).rcv.last = a ∧
        (Net.step (Net.start (mkNode a maxFee budget true) (mkNode b rmax budget false))).snd.last = b := by
      rw [hstart]
      simp only [Net.step, Node.recv, mkNode, Option.isSome_none, Bool.false_eq_true, if_false,
        Bool.false_and, List.contains_nil, hcomp, Node.propose, hb0]
      simp [hab]
    -- fuel n with |a - b| ≤ k * n
    let D : Int := max a b - min a b
    have hD0 : 0 ≤ D := by simp only [D]; omega
    let n : Nat := (D / k).toNat + 1
    have hq0 : 0 ≤ D / k := Int.ediv_nonneg hD0 (by omega)
    have hn : ((n : Nat) : Int) = D / k + 1 := by
      simp only [n, Int.natCast_add, Int.toNat_of_nonneg hq0]; rfl
    have hlt : D < k * ((n : Nat) : Int) := by
      rw [hn, Int.mul_add, Int.mul_one]
      exact Int.lt_mul_ediv_self_add (show 0 < k by omega)
    obtain ⟨f, hfL, hfM, hag⟩ := mid_terminates n _ hmid
      (by rw [hlast.1, hlast.2]; simp only [D] at hlt; omega)
      (by rw [hlast.1, hlast.2]; simp only [D] at hlt; omega)
    refine ⟨f, ?_, hfL, hfM⟩
    have e : negBound a b k = 1 + (n + 3) := by simp only [negBound, n, D]; omega
    rw [e, run_add 1]
    exact hag

/-- the realistic case of the property statement: ideal fees of at least 100 sat. -/
theorem negotiation_terminates_100 (a b maxFee budget rmax : Int)
    (ha : 100 ≤ a) (hb : 100 ≤ b)
    (hcapa : a ≤ maxFee) (hcapb : b ≤ maxFee) (hbuda : a ≤ budget) (hbudb : b ≤ budget)
    (hda : a < 1152921504606846976) (hdb : b < 1152921504606846976) :
    ∃ f, (Net.run (5 + ((max a b - min a b) / 10).toNat)
            (Net.start (mkNode a maxFee budget true) (mkNode b rmax budget false))).Agreed f ∧
         min a b ≤ f ∧ f ≤ max a b :=
  negotiation_terminates a b 10 maxFee budget rmax (by omega) (by omega) (by omega)
    hcapa hcapb hbuda hbudb hda hdb


/-- Necessity of a lower bound on the ideal fees: with ideal fees 9 (opener) and 5 — within each
    other's caps, affordable — the two honest closers resend 9 and 5 forever (10 % of a fee
    below 10 sat is 0, and 5 / 9 are not within 30 % of each other): after any number of
    deliveries a closing_signed is still in flight and nobody has finished. -/
theorem negotiation_stuck_below_10 (n : Nat) :
    let s := Net.run n (Net.start (mkNode 9 27 1000 true) (mkNode 5 15 1000 false))
    s.msg ≠ none ∧ s.failed = none ∧ s.rcv.done = none ∧ s.snd.done = none := by
  let wI : Node := { mkNode 9 27 1000 true with last := 9, offers := [9] }
  let wR : Node := { mkNode 5 15 1000 false with last := 5, offers := [5] }
  let Q : Net → Prop := fun s =>
    (∃ d, s = { rcv := wI, snd := wR, msg := some 5, failed := none, delivered := d }) ∨
    (∃ d, s = { rcv := wR, snd := wI, msg := some 9, failed := none, delivered := d })
  have hstep : ∀ s, Q s → Q s.step := by
    intro s hs
    rcases hs with ⟨d, rfl⟩ | ⟨d, rfl⟩
    · exact Or.inr ⟨d + 1, rfl⟩
    · exact Or.inl ⟨d + 1, rfl⟩
  have hrun : ∀ m s, Q s → Q (Net.run m s) := by
    intro m
    induction m with
    | zero => intro s hs; exact hs
    | succ m ih => intro s hs; exact ih _ (hstep s hs)
  have hQ : ∀ s, Q s → s.msg ≠ none ∧ s.failed = none ∧ s.rcv.done = none ∧ s.snd.done = none := by
    intro s hs
    rcases hs with ⟨d, rfl⟩ | ⟨d, rfl⟩ <;> exact ⟨by simp, rfl, rfl, rfl⟩
  cases n with
  | zero => exact ⟨by simp [Net.run, Net.start, Node.propose, mkNode], rfl, rfl, rfl⟩
  | succ m =>
    have h1 : Q (Net.step (Net.start (mkNode 9 27 1000 true) (mkNode 5 15 1000 false))) :=
      Or.inl ⟨1, rfl⟩
    exact hQ _ (hrun m _ h1)

/-! ## Both sides build the same transaction -/

/--
`same_tx_both_sides`: for all balances (msat), commit fee, fee, delivery scripts, dust limits,
channel type, opener role, fee payer, custom sequence / locktime: the transaction side A builds
from its view equals the transaction side B builds from the mirrored view (same outputs in the
same order, same sequence and locktime), and one side fails exactly when the other does, with
the same error.
-/
theorem same_tx_both_sides (v : View) (r : CloseReq) :
    (closeProposal v.mirror r.mirror).map Prod.fst = (closeProposal v r).map Prod.fst := by
  unfold closeProposal
  simp only [View.mirror, CloseReq.mirror, View.txOpts]
  rw [coopCloseBalance_mirror]
  cases hb : coopCloseBalance v.anchors v.isInit r.fee (toSat v.localMsat) (toSat v.remoteMsat)
      v.commitFee r.payer with
  | none => rfl
  | some p =>
    obtain ⟨our, their⟩ := p
    simp only [Option.map_some, Prod.swap]
    rw [createCloseTx_swap]
    cases sanityErr (createCloseTx { rbf := v.taproot, customSeq := r.customSeq, customLock := r.customLock }
      v.localDust v.remoteDust our their r.localScript r.remoteScript r.lop r.rop).outs <;> rfl

/-- the final balances correspond: B's "our" balance is A's "their" balance. -/
theorem same_balances_both_sides (v : View) (r : CloseReq) :
    coopCloseBalance v.mirror.anchors v.mirror.isInit r.mirror.fee (toSat v.mirror.localMsat)
        (toSat v.mirror.remoteMsat) v.mirror.commitFee r.mirror.payer =
      (coopCloseBalance v.anchors v.isInit r.fee (toSat v.localMsat) (toSat v.remoteMsat)
        v.commitFee r.payer).map Prod.swap :=
  coopCloseBalance_mirror _ _ _ _ _ _ _


/-! ## Each side is paid its exact balance

`finalLocal v r` / `finalRemote v r` (Lemmas.lean) are what the property statement says the two
parties are owed: sat balance (msat truncated) + commit fee + 2·330 sat anchors if opener −
fee if paying party; `payerCredit` is the paying party's amount before the fee. -/

/--
`close_value`: whenever a close transaction is built, "our" reported balance is exactly what the
property says the local party is owed, nobody's balance is negative, and the outputs are exactly
— up to BIP 69 order, which holds — the local party's output iff its balance is at least ITS OWN
dust limit and the remote party's output iff its balance is at least the remote dust limit
(`partyOut`: value = the balance, or 0 for an OP_RETURN script in the RBF flow), with the
sequence / locktime requested.
-/
theorem close_value (v : View) (r : CloseReq) (tx : CloseTx) (bal : Int)
    (h : closeProposal v r = .ok (tx, bal)) :
    bal = finalLocal v r ∧ 0 ≤ finalLocal v r ∧ 0 ≤ finalRemote v r ∧
    tx.outs.Perm (partyOut (v.txOpts r) v.localDust (finalLocal v r) r.localScript r.lop ++
                  partyOut (v.txOpts r) v.remoteDust (finalRemote v r) r.remoteScript r.rop) ∧
    SortedOuts tx.outs ∧ tx.outs ≠ [] ∧
    tx.sequence = (v.txOpts r).sequence ∧ tx.lockTime = r.customLock.getD 0 := by
  unfold closeProposal at h
  rw [coopCloseBalance_eq] at h
  by_cases hneg : finalLocal v r < 0 ∨ finalRemote v r < 0
  · simp [hneg] at h
  · simp only [hneg, if_false] at h
    split at h
    · cases h
    · rename_i hs
      simp only [Except.ok.injEq, Prod.mk.injEq] at h
      obtain ⟨h1, h2⟩ := h
      subst h1 h2
      refine ⟨rfl, by omega, by omega, sortOuts_perm _, sortOuts_sorted _, ?_, rfl, rfl⟩
      intro he
      simp [sanityErr, he] at hs

/-- value conservation: outputs + fee + (balances omitted as dust or zeroed for OP_RETURN) is
    exactly what the channel held: both sat balances + commit fee + anchors. -/
theorem close_conservation (v : View) (r : CloseReq) (tx : CloseTx) (bal : Int)
    (h : closeProposal v r = .ok (tx, bal)) :
    ∃ omitted : Int, 0 ≤ omitted ∧
      sumOuts tx.outs + r.fee + omitted =
        toSat v.localMsat + toSat v.remoteMsat + v.commitFee + (if v.anchors then 2 * anchorSize else 0) := by
  obtain ⟨_, hl, hr, _, _, _, _, _⟩ := close_value v r tx bal h
  unfold closeProposal at h
  rw [coopCloseBalance_eq] at h
  have hneg : ¬ (finalLocal v r < 0 ∨ finalRemote v r < 0) := by omega
  simp only [hneg, if_false] at h
  split at h
  · cases h
  · simp only [Except.ok.injEq, Prod.mk.injEq] at h
    obtain ⟨h1, _⟩ := h
    subst h1
    have hsum : ∀ (o : TxOpts) (dust b : Int) (s : Script) (op : Bool), 0 ≤ b →
        0 ≤ sumOuts (partyOut o dust b s op) ∧ sumOuts (partyOut o dust b s op) ≤ b := by
      intro o dust b s op hb
      unfold partyOut
      split
      · split <;> simp [sumOuts] <;> omega
      · simp [sumOuts]; omega
    have ha := hsum (v.txOpts r) v.localDust (finalLocal v r) r.localScript r.lop hl
    have hb := hsum (v.txOpts r) v.remoteDust (finalRemote v r) r.remoteScript r.rop hr
    refine ⟨finalLocal v r + finalRemote v r
        - sumOuts (partyOut (v.txOpts r) v.localDust (finalLocal v r) r.localScript r.lop)
        - sumOuts (partyOut (v.txOpts r) v.remoteDust (finalRemote v r) r.remoteScript r.rop), by omega, ?_⟩
    simp only [createCloseTx, sumOuts_sort, sumOuts_append]
    unfold finalLocal finalRemote
    cases v.isInit <;> cases payerOf _ r.payer <;>
      simp only [if_true, if_false, Bool.false_eq_true, reduceCtorEq] <;> omega

/-- outputs plus fee never exceed the channel capacity (whenever the two msat balances, the
    commit fee and the anchors fit in the capacity — which holds for every channel state). -/
theorem close_within_capacity (v : View) (r : CloseReq) (tx : CloseTx) (bal capacity : Int)
    (hcap : (v.localMsat : Int) + v.remoteMsat
              + 1000 * (v.commitFee + (if v.anchors then 2 * anchorSize else 0)) ≤ 1000 * capacity)
    (h : closeProposal v r = .ok (tx, bal)) :
    sumOuts tx.outs + r.fee ≤ capacity := by
  obtain ⟨om, hom, heq⟩ := close_conservation v r tx bal h
  have h1 : 1000 * toSat v.localMsat ≤ v.localMsat := by unfold toSat; omega
  have h2 : 1000 * toSat v.remoteMsat ≤ v.remoteMsat := by unfold toSat; omega
  omega

/-- the close fails with "cannot afford" iff a balance would become negative … -/
theorem close_error_iff (v : View) (r : CloseReq) :
    closeProposal v r = .error .afford ↔ (finalLocal v r < 0 ∨ finalRemote v r < 0) := by
  unfold closeProposal
  rw [coopCloseBalance_eq]
  by_cases hneg : finalLocal v r < 0 ∨ finalRemote v r < 0
  · simp [hneg]
  · simp only [hneg, if_false, iff_false]
    split
    · rename_i e hs
      intro he
      simp only [Except.error.injEq] at he
      subst he
      simp only [sanityErr] at hs
      split at hs
      · cases hs
      · split at hs
        · cases hs
        · split at hs <;> cases hs
    · intro he; cases he

/-- … which, for a real channel state (non-negative commit fee), means exactly that the PAYING
    party cannot pay the fee out of its credited balance. -/
theorem afford_iff_payer (v : View) (r : CloseReq) (hcf : 0 ≤ v.commitFee) :
    (finalLocal v r < 0 ∨ finalRemote v r < 0) ↔ payerCredit v r < r.fee := by
  have hl : 0 ≤ toSat v.localMsat := by unfold toSat; omega
  have hr : 0 ≤ toSat v.remoteMsat := by unfold toSat; omega
  unfold payerCredit finalLocal finalRemote anchorSize
  cases v.isInit <;> cases v.anchors <;> cases payerOf _ r.payer <;>
    simp only [if_true, if_false, Bool.false_eq_true, reduceCtorEq] <;> omega

/-- the only other failure: both balances are below their owners' dust limits, so the
    transaction would have no outputs (`CheckTransactionSanity`). -/
theorem close_noOutputs_iff (v : View) (r : CloseReq) :
    closeProposal v r = .error .noOutputs ↔
      (0 ≤ finalLocal v r ∧ 0 ≤ finalRemote v r ∧
        finalLocal v r < v.localDust ∧ finalRemote v r < v.remoteDust) := by
  unfold closeProposal
  rw [coopCloseBalance_eq]
  by_cases hneg : finalLocal v r < 0 ∨ finalRemote v r < 0
  · simp only [hneg, if_true]
    constructor
    · intro h; cases h
    · intro h; omega
  · simp only [hneg, if_false]
    have hperm := sortOuts_perm
      (partyOut (v.txOpts r) v.localDust (finalLocal v r) r.localScript r.lop ++
       partyOut (v.txOpts r) v.remoteDust (finalRemote v r) r.remoteScript r.rop)
    have hempty : (createCloseTx (v.txOpts r) v.localDust v.remoteDust (finalLocal v r)
          (finalRemote v r) r.localScript r.remoteScript r.lop r.rop).outs.isEmpty = true ↔
        (finalLocal v r < v.localDust ∧ finalRemote v r < v.remoteDust) := by
      simp only [createCloseTx, List.isEmpty_iff]
      constructor
      · intro he
        rw [he] at hperm
        have := hperm.symm.eq_nil
        simp only [List.append_eq_nil_iff, partyOut] at this
        obtain ⟨ha, hb⟩ := this
        constructor
        · by_cases hh : finalLocal v r ≥ v.localDust
          · simp [hh] at ha
          · omega
        · by_cases hh : finalRemote v r ≥ v.remoteDust
          · simp [hh] at hb
          · omega
      · intro ⟨ha, hb⟩
        have h1 : ¬ finalLocal v r ≥ v.localDust := by omega
        have h2 : ¬ finalRemote v r ≥ v.remoteDust := by omega
        simp [partyOut, h1, h2, sortOuts]
    constructor
    · intro h
      split at h
      · rename_i e hs
        simp only [Except.error.injEq] at h
        subst h
        simp only [sanityErr] at hs
        split at hs
        · rename_i he
          exact ⟨by omega, by omega, (hempty.mp he).1, (hempty.mp he).2⟩
        · split at hs
          · cases hs
          · split at hs <;> cases hs
      · cases h
    · intro ⟨_, _, ha, hb⟩
      have he := hempty.mpr ⟨ha, hb⟩
      simp [sanityErr, he]


/-- amounts stay in the consensus range whenever the channel's funds do. -/
theorem close_no_sanity_error (v : View) (r : CloseReq)
    (hmax : finalLocal v r + finalRemote v r ≤ maxSatoshi) :
    closeProposal v r ≠ .error .sanity := by
  unfold closeProposal
  rw [coopCloseBalance_eq]
  by_cases hneg : finalLocal v r < 0 ∨ finalRemote v r < 0
  · simp [hneg]
  · simp only [hneg, if_false]
    have hl : 0 ≤ finalLocal v r := by omega
    have hr : 0 ≤ finalRemote v r := by omega
    have hval : ∀ (o : TxOpts) (dust b : Int) (s : Script) (op : Bool) (x : TxOut), 0 ≤ b →
        x ∈ partyOut o dust b s op → 0 ≤ x.value ∧ x.value ≤ b := by
      intro o dust b s op x hb hx
      rw [mem_partyOut] at hx
      obtain ⟨_, rfl⟩ := hx
      split <;> simp <;> omega
    have hsum : ∀ (o : TxOpts) (dust b : Int) (s : Script) (op : Bool), 0 ≤ b →
        sumOuts (partyOut o dust b s op) ≤ b := by
      intro o dust b s op hb
      unfold partyOut
      split
      · split <;> simp [sumOuts] <;> omega
      · simp [sumOuts]; omega
    have hany : (createCloseTx (v.txOpts r) v.localDust v.remoteDust (finalLocal v r) (finalRemote v r)
        r.localScript r.remoteScript r.lop r.rop).outs.any
          (fun o => decide (o.value < 0) || decide (o.value > maxSatoshi)) = false := by
      rw [List.any_eq_false]
      intro x hx
      simp only [createCloseTx] at hx
      have hx' := (sortOuts_perm _).mem_iff.mp hx
      rw [List.mem_append] at hx'
      rcases hx' with hx' | hx'
      · have := hval _ _ _ _ _ x hl hx'
        simp; omega
      · have := hval _ _ _ _ _ x hr hx'
        simp; omega
    have htot : ¬ sumOuts (createCloseTx (v.txOpts r) v.localDust v.remoteDust (finalLocal v r)
        (finalRemote v r) r.localScript r.remoteScript r.lop r.rop).outs > maxSatoshi := by
      simp only [createCloseTx, sumOuts_sort, sumOuts_append]
      have := hsum (v.txOpts r) v.localDust _ r.localScript r.lop hl
      have := hsum (v.txOpts r) v.remoteDust _ r.remoteScript r.rop hr
      omega
    simp only [sanityErr, hany, htot]
    split
    · rename_i e hs
      split at hs
      · cases hs; simp
      · simp at hs
    · simp

/-! ## The fee rules on the realistic domain (no int64 wrap-around below 2^60 sat) -/

/-- `ratchetFee` moves by ⌊fee/10⌋ and `feeInAcceptableRange` accepts within ⌊3·fee/10⌋, in exact
    integer arithmetic, for every fee in `[0, 2^60)`. -/
theorem fee_rules (x y : Int) (hx : Dom x) :
    ratchetFee x true = x + x / 10 ∧ ratchetFee x false = x - x / 10 ∧
    (x < y → (feeInAcceptableRange x y = true ↔ y ≤ x + x * 3 / 10)) ∧
    (¬ x < y → (feeInAcceptableRange x y = true ↔ x - x * 3 / 10 ≤ y)) := by
  refine ⟨ratchet_up hx, ratchet_down hx, ?_, ?_⟩
  · intro h; rw [inRange_of_lt hx h]; simp
  · intro h; rw [inRange_of_not_lt hx h]; simp

/-! ## Taproot channels: the non-opener accepts the opener's first offer -/

theorem taproot_fast_close (a b maxFee budget rmax : Int) (ha : a ≤ budget) :
    (Net.run 3 (Net.start (mkNode a maxFee budget true true) (mkNode b rmax budget false true))).Agreed a := by
  have h : ¬ a > budget := by omega
  simp [Net.run, Net.step, Net.start, Node.recv, Node.propose, mkNode, h, Net.Agreed]

/-! ## Non-vacuity -/

/-- hypotheses of `negotiation_terminates` are satisfiable, and the run really ends in agreement:
    opener's ideal 1000 sat (default cap 3000), other side's ideal 2500 sat. -/
example : (Net.run 11 (Net.start (mkNode 1000 3000 500000 true) (mkNode 2500 7500 500000 false))).Agreed 1464 :=
  ⟨rfl, rfl, rfl, rfl, by decide, by decide⟩

example : negBound 1000 2500 100 = 20 := by decide

/-- a concrete anchor channel, opener local with 500 000.999 sat, remote 1 299 sat (below its dust
    limit 1 300): one output, opener gets balance + commit fee + 2 anchors − fee. -/
example :
    closeProposal
      { localMsat := 500000999, remoteMsat := 1299000, commitFee := 2500, isInit := true,
        anchors := true, taproot := false, localDust := 354, remoteDust := 1300 }
      { fee := 700, localScript := [0, 20, 1], remoteScript := [0, 20, 2], lop := false, rop := false } =
    .ok ({ sequence := 4294967295, lockTime := 0, outs := [⟨500000 + 2500 + 660 - 700, [0, 20, 1]⟩] },
         502460) := by
  rfl

/-- … and the payer that cannot afford the fee. -/
example :
    closeProposal
      { localMsat := 100000, remoteMsat := 900000000, commitFee := 200, isInit := true,
        anchors := false, taproot := false, localDust := 354, remoteDust := 354 }
      { fee := 301, localScript := [1], remoteScript := [2], lop := false, rop := false } =
    .error .afford := by
  rfl

end LndModel.C17
