/-
C04 - which justice inputs need a non-zero nLockTime (known finding
F-C04-lease-to-remote-locktime0, stated as theorems).

`Revoked.justiceValidAt r k cltv ph L` is the justice input of output kind `k`
placed in the breach arbitrator's transaction shape (version 2, sequence =
BlocksToMaturity) but with nLockTime `L`; `L = 0` is what
`sweepSpendableOutputsTxn` builds today (`Revoked.justiceValid`).
-/
import LndModel.C04.Lemmas

set_option linter.unusedSimpArgs false

namespace LndModel.C04.Props
open LndModel.C04 LndModel.C04.Script

/-- the breach arbitrator's transaction shape with nLockTime `L`. -/
def _root_.LndModel.C04.Revoked.ctxAt (r : Revoked) (k : OutKind) (L : Nat) : Ctx :=
  { version := 2, sequence := r.sequence k, lockTime := L, tapscript := false }

def _root_.LndModel.C04.Revoked.justiceValidAt (r : Revoked) (k : OutKind) (cltv : Nat) (payHash : Item)
    (L : Nat) : Bool :=
  run (r.ctxAt k L) (r.script k cltv payHash) (r.witness k (.sig (r.signDesc k).signer sigHashAll .final))

theorem justiceValidAt_zero (r : Revoked) (k : OutKind) (cltv : Nat) (payHash : Item) :
    r.justiceValidAt k cltv payHash 0 = r.justiceValid k cltv payHash := rfl

theorem csvOk_one' (l : Nat) :
    csvOk { version := 2, sequence := 1, lockTime := l, tapscript := false } 1 = true := by
  simp [csvOk, seqDisable, seqTypeFlag, seqMask]

/-- every justice input except the lease-locked own to_remote output is valid under EVERY
    nLockTime: no other justice input constrains the transaction's lock time. -/
theorem justice_valid_any_locktime (r : Revoked) (k : OutKind) (cltv : Nat) (payHash : Item) (L : Nat)
    (ht : r.ct.taproot = false) (hl : r.leaseToRemote k = false) :
    r.justiceValidAt k cltv payHash L = true := by
  obtain ⟨⟨tweakless, anchors, lease, taproot, tfinal⟩, victim, vinit, csv, lexp⟩ := r
  simp only at ht
  subst ht
  cases k <;> cases tweakless <;> cases anchors <;> cases lease <;> cases vinit <;>
    simp [Revoked.leaseToRemote] at hl <;>
    simp [Revoked.justiceValidAt, Revoked.ctxAt, Revoked.sequence, Revoked.script, Revoked.witness,
      Revoked.signDesc, SignDesc.signer, Revoked.localDelay, Revoked.revocationKey, Revoked.toLocalKey,
      Revoked.toRemoteKey, Revoked.localHtlcKey, Revoked.remoteHtlcKey, Revoked.cheater,
      run, delayOrRevoke, leaseDelayOrRevoke, toRemoteConfirmed, leaseToRemoteConfirmed, p2wkh,
      senderHTLC, receiverHTLC, witRevoke, witP2wkh, witHtlcRevoke,
      runOps, step, exec, skip, opIfE, opElseE, opEndIfE, opDup, opSwap, opDrop, opSize, opIfDup,
      opEqual, opEqualVerify, opHash160, opCheckSig, opCheckSigVerify, opCsv, opCltv,
      ifArg, pk, n, sigCheck, sigOk, sigHashDefined, sigCommits, sigHashAll, accepts, truthy, csvOk_one']

/-- the interpreter's verdict for the lease-locked own to_remote output is the BIP65 check of the
    lease expiry against the transaction's nLockTime. -/
theorem lease_to_remote_eq (r : Revoked) (cltv : Nat) (payHash : Item) (L : Nat)
    (ht : r.ct.taproot = false) (hlease : r.ct.lease = true) (hinit : r.victimInitiator = true) :
    r.justiceValidAt .toRemote cltv payHash L =
      cltvOk { version := 2, sequence := 1, lockTime := L, tapscript := false } r.leaseExpiry := by
  obtain ⟨⟨tweakless, anchors, lease, taproot, tfinal⟩, victim, vinit, csv, lexp⟩ := r
  simp only at hlease hinit ht
  subst hlease hinit ht
  cases hv : cltvOk { version := 2, sequence := 1, lockTime := L, tapscript := false } lexp <;>
    cases tweakless <;> cases anchors <;>
    simp [Revoked.justiceValidAt, Revoked.ctxAt, Revoked.sequence, Revoked.script, Revoked.witness,
      Revoked.signDesc, SignDesc.signer, Revoked.localDelay, Revoked.toRemoteKey,
      run, leaseToRemoteConfirmed, runOps, step, exec, opCheckSigVerify, opCltv, opCsv, opDrop,
      pk, n, sigCheck, sigOk, sigHashDefined, sigCommits, sigHashAll, accepts, truthy, hv, csvOk_one']

/-- the lease-locked own to_remote output (script-enforced lease channel, victim = initiator:
    `LeaseCommitScriptToRemoteConfirmed`) is valid exactly when the transaction's nLockTime is of
    the same kind (block height / time) as the lease expiry and not below it. -/
theorem lease_to_remote_valid_iff (r : Revoked) (cltv : Nat) (payHash : Item) (L : Nat)
    (ht : r.ct.taproot = false) (hlease : r.ct.lease = true) (hinit : r.victimInitiator = true) :
    r.justiceValidAt .toRemote cltv payHash L = true ↔
      (r.leaseExpiry ≤ L ∧ (r.leaseExpiry < lockThreshold ↔ L < lockThreshold)) := by
  rw [lease_to_remote_eq r cltv payHash L ht hlease hinit]
  simp only [cltvOk, seqFinal, Bool.and_eq_true, decide_eq_true_eq]
  constructor
  · rintro ⟨⟨h1, h2⟩, _⟩
    exact ⟨h2, by rw [h1]⟩
  · rintro ⟨h1, h2⟩
    exact ⟨⟨propext h2, h1⟩, by simp⟩

/-- **justice_locktime_requirement**: the complete table.  A justice input is valid under
    nLockTime `L` iff it is not the lease-locked to_remote output, or `L` reaches the lease expiry
    (same lock-time kind). -/
theorem justice_locktime_requirement (r : Revoked) (k : OutKind) (cltv : Nat) (payHash : Item) (L : Nat)
    (ht : r.ct.taproot = false) :
    r.justiceValidAt k cltv payHash L = true ↔
      (r.leaseToRemote k = true →
        (r.leaseExpiry ≤ L ∧ (r.leaseExpiry < lockThreshold ↔ L < lockThreshold))) := by
  cases hl : r.leaseToRemote k
  · simp only [Bool.false_eq_true, false_implies, iff_true]
    exact justice_valid_any_locktime r k cltv payHash L ht hl
  · simp only [true_implies]
    simp only [Revoked.leaseToRemote, Bool.and_eq_true, beq_iff_eq] at hl
    obtain ⟨⟨rfl, h1⟩, h2⟩ := hl
    exact lease_to_remote_valid_iff r cltv payHash L ht h1 h2

/-- **brar_locktime0_fails_exactly**: the breach arbitrator's transaction (nLockTime 0) fails
    exactly the inputs that need a non-zero lock time: the own to_remote output of a
    script-enforced lease channel whose initiator is the victim, with a lease expiry > 0. -/
theorem brar_locktime0_fails_exactly (r : Revoked) (k : OutKind) (cltv : Nat) (payHash : Item)
    (ht : r.ct.taproot = false) :
    r.justiceValid k cltv payHash = false ↔ (r.leaseToRemote k = true ∧ 0 < r.leaseExpiry) := by
  rw [← justiceValidAt_zero]
  have h := justice_locktime_requirement r k cltv payHash 0 ht
  cases hv : r.justiceValidAt k cltv payHash 0
  · rw [hv] at h
    simp only [Bool.false_eq_true, false_iff, true_iff] at h ⊢
    cases hl : r.leaseToRemote k
    · rw [hl] at h; simp at h
    · refine ⟨rfl, ?_⟩
      rw [hl] at h
      simp only [true_implies, lockThreshold] at h
      omega
  · rw [hv] at h
    simp only [true_iff] at h
    constructor
    · intro hc; cases hc
    · rintro ⟨hl, hpos⟩
      have := h hl
      omega

/-- a transaction that satisfies the lease-locked input (nLockTime = the lease expiry, a block
    height) is not final in any block up to that height: putting the CLTV-locked to_remote
    into the same transaction as the revoked outputs would delay ALL of them until the lease
    has expired. -/
theorem lease_locked_tx_waits_for_expiry (r : Revoked) (L h a : Nat) (hpos : 0 < L)
    (hk : L < lockThreshold) (hlease : r.ct.lease = true) (hinit : r.victimInitiator = true)
    (hinc : includable { r.ctxAt .toRemote L with blockHeight := h, inputAge := a } = true) : L < h := by
  obtain ⟨⟨tweakless, anchors, lease, taproot, tfinal⟩, victim, vinit, csv, lexp⟩ := r
  simp only at hlease hinit
  subst hlease hinit
  simp only [includable, absFinal, Revoked.ctxAt, Revoked.sequence, Revoked.localDelay, seqFinal,
    Bool.and_eq_true, Bool.or_eq_true, beq_iff_eq, hk, if_true, decide_eq_true_eq] at hinc
  cases taproot <;> simp at hinc <;> omega

/-- non-vacuity: the lease expiry 650000 needs `L ≥ 650000`; 0 fails, 650000 passes; and the
    revoked to_local of the same commitment is valid under both. -/
example :
    let r : Revoked := ⟨{ tweakless := true, anchors := true, lease := true }, 0, true, 144, 650000⟩
    r.justiceValidAt .toRemote 0 (.num 0) 0 = false ∧ r.justiceValidAt .toRemote 0 (.num 0) 650000 = true ∧
    r.justiceValidAt .toLocal 0 (.num 0) 0 = true ∧ r.justiceValidAt .toLocal 0 (.num 0) 650000 = true := by
  decide

end LndModel.C04.Props
