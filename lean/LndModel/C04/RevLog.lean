/-
C04 - the revocation-log bookkeeping against the transaction that was signed.

Abstract commitment model: C01's `Commit` (the commitment a node holds for the
remote party: balances after fee, HTLCs with their dust flag, abstract outputs
built by `buildOuts` = `CreateCommitTx` + `addHTLC`) - imported read-only.
On top of it this file models, for the REMOTE commitment chain of the victim,

 * the transaction itself: the abstract outputs with their pkScript
   (`enc : SC -> Nat`, any injective encoding of the script classes) sorted by
   `InPlaceCommitSort` (`C01.commitSort`: BIP69 + CLTV),
 * `populateHtlcIndexes` / `locateOutputIndex` (`C01.assignFrom`): the output
   index of every non-dust HTLC,
 * `findOutputIndexesFromRemote` (`scanIdx`): the scan for our / their
   pkScript, last match wins, `OutputIndexEmpty` = 65535 when nothing matches,
 * `putRevocationLog` (`mkEntry`): indexes, balances, one entry per non-dust
   HTLC (index, amount, hash, expiry, direction), the commitment txid.

`entry_matches` is the statement for one commitment, `revlog_matches_tx` in
RevLogHist.lean the statement for every reachable history.  Core Lean only.
-/
import LndModel.C01.Model
import LndModel.C01.TxOrder

set_option linter.unusedSimpArgs false
set_option linter.unusedVariables false

namespace LndModel.C04.RevLog
open LndModel.C01

/-- script classes of the outputs of a commitment transaction (owner's view).  The
    offered-HTLC script (`SenderHTLCScript`) does not contain the expiry, the
    received-HTLC script (`ReceiverHTLCScript`) does. -/
inductive SC where
  | toLocal | toRemote | anchorLocal | anchorRemote
  | offered (hash : Nat)
  | received (hash cltv : Nat)
deriving DecidableEq, Repr

def classOf (o : Out) : SC :=
  match o.kind with
  | .toLocal => .toLocal
  | .toRemote => .toRemote
  | .anchorLocal => .anchorLocal
  | .anchorRemote => .anchorRemote
  | .offered => .offered o.hash
  | .received => .received o.hash o.cltv

/-- the wire output: value, pkScript, and the CLTV the sort uses as tie-break. -/
def toTxO (enc : SC → Nat) (o : Out) : TxO := ⟨o.value, enc (classOf o), o.cltv⟩

/-- the transaction that is signed: the outputs in `InPlaceCommitSort` order. -/
def txOf (enc : SC → Nat) (outs : List Out) : List TxO := commitSort (outs.map (toTxO enc))

/-- script class of an HTLC on the REMOTE party's commitment, `h` from the victim's
    point of view: its incoming HTLCs were offered by the owner of the transaction. -/
def htlcClass (h : Htlc) : SC := if h.incoming then .offered h.hash else .received h.hash h.expiry

/-- what `locateOutputIndex` looks for (theirPkScript, amount in satoshi, timeout). -/
def htOf (enc : SC → Nat) (h : Htlc) : HT := ⟨h.hash, ⟨h.amt / 1000, enc (htlcClass h), h.expiry⟩⟩

/-- `channeldb.OutputIndexEmpty` (math.MaxUint16). -/
def outputIndexEmpty : Nat := 65535

/-- `findOutputIndexesFromRemote`: the loop over `CommitTx.TxOut`
    (`switch { case pk == ourScript: ourIndex = i; case pk == theirScript: theirIndex = i }`). -/
def scanIdx (ourS theirS : Nat) : Nat → List TxO → Nat × Nat → Nat × Nat
  | _, [], acc => acc
  | i, x :: xs, acc =>
    scanIdx ourS theirS (i + 1) xs
      (if x.script = ourS then (i, acc.2) else if x.script = theirS then (acc.1, i) else acc)

/-- `channeldb.HTLCEntry`. -/
structure HEntry where
  idx : Nat
  amt : Nat        -- satoshi (`htlc.Amt.ToSatoshis()` in NewHTLCEntryFromHTLC)
  hash : Nat
  cltv : Nat
  incoming : Bool
deriving DecidableEq, Repr

/-- `channeldb.RevocationLog`; `txid` stands for `CommitTxHash` (a hash is an
    injective function of the transaction). -/
structure RevEntry where
  ourIdx : Nat
  theirIdx : Nat
  ourBal : Nat     -- msat
  theirBal : Nat
  htlcs : List HEntry
  txid : List TxO
deriving DecidableEq, Repr

def HEntry.cls (he : HEntry) : SC := if he.incoming then .offered he.hash else .received he.hash he.cltv

def mkHEntry (p : Nat × Htlc) : HEntry := ⟨p.1, p.2.amt / 1000, p.2.hash, p.2.expiry, p.2.incoming⟩

/-- the non-dust HTLCs in the order `populateHtlcIndexes` visits them
    (`outgoingHTLCs` then `incomingHTLCs`; `Commit.htlcs` is kept in that order). -/
def liveHtlcs (cm : Commit) : List Htlc := cm.htlcs.filter (fun h => !h.dust)

/-- the revocation-log entry written when the commitment `cm` (the remote tail) is
    revoked: `populateHtlcIndexes` at signing time, `findOutputIndexesFromRemote` +
    `putRevocationLog` at `ReceiveRevocation`.  `none` = an HTLC output could not be
    located (`SignNextCommitment` would have failed). -/
def mkEntry (enc : SC → Nat) (cm : Commit) : Option RevEntry :=
  let tx := txOf enc cm.outs
  match assignFrom tx (fun _ => []) ((liveHtlcs cm).map (htOf enc)) with
  | none => none
  | some idxs =>
    let r := scanIdx (enc .toRemote) (enc .toLocal) 0 tx (outputIndexEmpty, outputIndexEmpty)
    some { ourIdx := r.1, theirIdx := r.2, ourBal := cm.our, theirBal := cm.their,
           htlcs := (idxs.zip (liveHtlcs cm)).map mkHEntry, txid := tx }

/-- shape of a commitment the victim holds for the remote party (what `buildCommit` on
    chain `rem` produces): HTLCs = outgoing ++ incoming, outputs = `buildOuts` from the
    cheater's point of view (his to_local = `their`, our to_remote = `our`, the HTLCs he
    offered = our incoming ones), trimmed against the remote dust limit. -/
def Shape (cfg : Cfg) (cm : Commit) : Prop :=
  ∃ outg inc : List Htlc, cm.htlcs = outg ++ inc ∧ (∀ h ∈ outg, h.incoming = false) ∧
    (∀ h ∈ inc, h.incoming = true) ∧ cm.outs = buildOuts cfg cfg.dustR cm.their cm.our inc outg

/-! ### the outputs of `buildOuts` -/

theorem mem_buildOuts {cfg : Cfg} {d a b : Nat} {off rcv : List Htlc} {o : Out}
    (h : o ∈ buildOuts cfg d a b off rcv) :
    (o = ⟨a / 1000, .toLocal, 0, 0⟩ ∧ d ≤ a / 1000) ∨ (o = ⟨b / 1000, .toRemote, 0, 0⟩ ∧ d ≤ b / 1000) ∨
    o = ⟨anchorSize, .anchorLocal, 0, 0⟩ ∨ o = ⟨anchorSize, .anchorRemote, 0, 0⟩ ∨
    (∃ x ∈ off, x.dust = false ∧ o = ⟨x.amt / 1000, .offered, x.expiry, x.hash⟩) ∨
    (∃ x ∈ rcv, x.dust = false ∧ o = ⟨x.amt / 1000, .received, x.expiry, x.hash⟩) := by
  unfold buildOuts htlcOuts at h
  simp only [List.mem_append, List.mem_map, List.mem_filter] at h
  rcases h with ((((h | h) | h) | h) | h) | h
  · split at h
    · rename_i hc
      simp only [List.mem_singleton] at h
      exact Or.inl ⟨h, by simpa using hc⟩
    · cases h
  · split at h
    · rename_i hc
      simp only [List.mem_singleton] at h
      exact Or.inr (Or.inl ⟨h, by simpa using hc⟩)
    · cases h
  · split at h
    · simp only [List.mem_singleton] at h
      exact Or.inr (Or.inr (Or.inl h))
    · cases h
  · split at h
    · simp only [List.mem_singleton] at h
      exact Or.inr (Or.inr (Or.inr (Or.inl h)))
    · cases h
  · obtain ⟨x, ⟨hx, hd⟩, rfl⟩ := h
    exact Or.inr (Or.inr (Or.inr (Or.inr (Or.inl ⟨x, hx, by simpa using hd, rfl⟩))))
  · obtain ⟨x, ⟨hx, hd⟩, rfl⟩ := h
    exact Or.inr (Or.inr (Or.inr (Or.inr (Or.inr ⟨x, hx, by simpa using hd, rfl⟩))))

theorem toLocal_mem {cfg : Cfg} {d a b : Nat} {off rcv : List Htlc} (hd : d ≤ a / 1000) :
    (⟨a / 1000, .toLocal, 0, 0⟩ : Out) ∈ buildOuts cfg d a b off rcv := by
  unfold buildOuts
  simp only [List.mem_append]
  left; left; left; left; left
  simp [hd]

theorem toRemote_mem {cfg : Cfg} {d a b : Nat} {off rcv : List Htlc} (hd : d ≤ b / 1000) :
    (⟨b / 1000, .toRemote, 0, 0⟩ : Out) ∈ buildOuts cfg d a b off rcv := by
  unfold buildOuts
  simp only [List.mem_append]
  left; left; left; left; right
  simp [hd]

/-- an output of `buildOuts` of class to_local is THE to_local output, and it exists only
    above the dust limit. -/
theorem class_toLocal {cfg : Cfg} {d a b : Nat} {off rcv : List Htlc} {o : Out}
    (h : o ∈ buildOuts cfg d a b off rcv) (hc : classOf o = .toLocal) :
    o = ⟨a / 1000, .toLocal, 0, 0⟩ ∧ d ≤ a / 1000 := by
  rcases mem_buildOuts h with h | ⟨rfl, _⟩ | rfl | rfl | ⟨x, _, _, rfl⟩ | ⟨x, _, _, rfl⟩
  · exact h
  all_goals simp [classOf] at hc

theorem class_toRemote {cfg : Cfg} {d a b : Nat} {off rcv : List Htlc} {o : Out}
    (h : o ∈ buildOuts cfg d a b off rcv) (hc : classOf o = .toRemote) :
    o = ⟨b / 1000, .toRemote, 0, 0⟩ ∧ d ≤ b / 1000 := by
  rcases mem_buildOuts h with ⟨rfl, _⟩ | h | rfl | rfl | ⟨x, _, _, rfl⟩ | ⟨x, _, _, rfl⟩
  · simp [classOf] at hc
  · exact h
  all_goals simp [classOf] at hc

/-! ### the transaction -/

theorem mem_txOf {enc : SC → Nat} {outs : List Out} {x : TxO} :
    x ∈ txOf enc outs ↔ ∃ o ∈ outs, toTxO enc o = x := by
  unfold txOf
  rw [(commitSort_perm _).mem_iff, List.mem_map]

theorem count_txOf (enc : SC → Nat) (outs : List Out) (K : TxO) :
    (txOf enc outs).count K = (outs.map (toTxO enc)).count K :=
  (commitSort_perm _).count_eq K

theorem getElem?_mem {α} {l : List α} {i : Nat} {x : α} (h : l[i]? = some x) : x ∈ l := by
  obtain ⟨hi, rfl⟩ := List.getElem?_eq_some_iff.mp h
  exact List.getElem_mem hi

/-! ### the scan of `findOutputIndexesFromRemote` -/

theorem scan_fst_none (a b : Nat) : ∀ (xs : List TxO) (i : Nat) (acc : Nat × Nat),
    (∀ x ∈ xs, x.script ≠ a) → (scanIdx a b i xs acc).1 = acc.1 := by
  intro xs
  induction xs with
  | nil => intro i acc _; rfl
  | cons x xs ih =>
    intro i acc h
    have hx : x.script ≠ a := h x (by simp)
    simp only [scanIdx, hx, if_false]
    rw [ih _ _ (fun y hy => h y (List.mem_cons_of_mem _ hy))]
    split <;> rfl

theorem scan_snd_none (a b : Nat) : ∀ (xs : List TxO) (i : Nat) (acc : Nat × Nat),
    (∀ x ∈ xs, x.script ≠ b) → (scanIdx a b i xs acc).2 = acc.2 := by
  intro xs
  induction xs with
  | nil => intro i acc _; rfl
  | cons x xs ih =>
    intro i acc h
    have hx : x.script ≠ b := h x (by simp)
    simp only [scanIdx, hx, if_false]
    rw [ih _ _ (fun y hy => h y (List.mem_cons_of_mem _ hy))]
    split <;> rfl

theorem scan_fst_some (a b : Nat) : ∀ (xs : List TxO) (i : Nat) (acc : Nat × Nat),
    (∃ x ∈ xs, x.script = a) →
    ∃ x, i ≤ (scanIdx a b i xs acc).1 ∧ xs[(scanIdx a b i xs acc).1 - i]? = some x ∧ x.script = a := by
  intro xs
  induction xs with
  | nil => intro i acc ⟨x, hx, _⟩; cases hx
  | cons y ys ih =>
    intro i acc h
    by_cases hys : ∃ x ∈ ys, x.script = a
    · obtain ⟨x, h1, h2, h3⟩ := ih (i + 1)
        (if y.script = a then (i, acc.2) else if y.script = b then (acc.1, i) else acc) hys
      refine ⟨x, ?_, ?_, h3⟩
      · simp only [scanIdx]; omega
      · simp only [scanIdx]
        have e : (scanIdx a b (i + 1) ys
            (if y.script = a then (i, acc.2) else if y.script = b then (acc.1, i) else acc)).1 - i =
            ((scanIdx a b (i + 1) ys
            (if y.script = a then (i, acc.2) else if y.script = b then (acc.1, i) else acc)).1 - (i + 1)) + 1 := by
          omega
        rw [e, List.getElem?_cons_succ]; exact h2
    · have hno : ∀ x ∈ ys, x.script ≠ a := fun x hx he => hys ⟨x, hx, he⟩
      have hy : y.script = a := by
        obtain ⟨x, hx, he⟩ := h
        rcases List.mem_cons.mp hx with rfl | hx
        · exact he
        · exact absurd he (hno x hx)
      refine ⟨y, ?_, ?_, hy⟩
      · simp only [scanIdx, hy, if_true]
        rw [scan_fst_none a b ys _ _ hno]; exact Nat.le_refl _
      · simp only [scanIdx, hy, if_true]
        rw [scan_fst_none a b ys _ _ hno]; simp

theorem scan_snd_some (a b : Nat) (hab : a ≠ b) : ∀ (xs : List TxO) (i : Nat) (acc : Nat × Nat),
    (∃ x ∈ xs, x.script = b) →
    ∃ x, i ≤ (scanIdx a b i xs acc).2 ∧ xs[(scanIdx a b i xs acc).2 - i]? = some x ∧ x.script = b := by
  intro xs
  induction xs with
  | nil => intro i acc ⟨x, hx, _⟩; cases hx
  | cons y ys ih =>
    intro i acc h
    by_cases hys : ∃ x ∈ ys, x.script = b
    · obtain ⟨x, h1, h2, h3⟩ := ih (i + 1)
        (if y.script = a then (i, acc.2) else if y.script = b then (acc.1, i) else acc) hys
      refine ⟨x, ?_, ?_, h3⟩
      · simp only [scanIdx]; omega
      · simp only [scanIdx]
        have e : (scanIdx a b (i + 1) ys
            (if y.script = a then (i, acc.2) else if y.script = b then (acc.1, i) else acc)).2 - i =
            ((scanIdx a b (i + 1) ys
            (if y.script = a then (i, acc.2) else if y.script = b then (acc.1, i) else acc)).2 - (i + 1)) + 1 := by
          omega
        rw [e, List.getElem?_cons_succ]; exact h2
    · have hno : ∀ x ∈ ys, x.script ≠ b := fun x hx he => hys ⟨x, hx, he⟩
      have hy : y.script = b := by
        obtain ⟨x, hx, he⟩ := h
        rcases List.mem_cons.mp hx with rfl | hx
        · exact he
        · exact absurd he (hno x hx)
      have hya : y.script ≠ a := by rw [hy]; exact fun e => hab e.symm
      refine ⟨y, ?_, ?_, hy⟩
      · simp only [scanIdx]
        rw [scan_snd_none a b ys _ _ hno, if_neg hya, if_pos hy]; exact Nat.le_refl _
      · simp only [scanIdx]
        rw [scan_snd_none a b ys _ _ hno, if_neg hya, if_pos hy]; simp

/-! ### counting -/

theorem length_filter_eq_count (hs : List HT) (K : TxO) :
    (hs.filter (fun h => decide (h.out = K))).length = (hs.map HT.out).count K := by
  induction hs with
  | nil => rfl
  | cons h t ih =>
    rw [List.filter_cons, List.map_cons, List.count_cons]
    by_cases hk : h.out = K
    · simp [hk, ih]
    · have : (h.out == K) = false := by simpa using hk
      simp [hk, ih, this]


/-! ### one commitment: the entry matches the transaction -/

/-- "the revocation-log entry `e` matches the transaction `tx`", `dust` = the dust limit the
    transaction was trimmed with (`RemoteChanCfg.DustLimit`). -/
structure Matches (enc : SC → Nat) (dust : Nat) (e : RevEntry) (tx : List TxO) : Prop where
  /-- the recorded txid is the transaction's -/
  txid : e.txid = tx
  /-- their (the cheater's to_local) index names an output with the to_local script and the recorded balance -/
  their_some : dust ≤ e.theirBal / 1000 → tx[e.theirIdx]? = some ⟨e.theirBal / 1000, enc .toLocal, 0⟩
  /-- trimmed: the index is `OutputIndexEmpty` and the transaction has no to_local output -/
  their_none : e.theirBal / 1000 < dust → e.theirIdx = outputIndexEmpty ∧ ∀ x ∈ tx, x.script ≠ enc .toLocal
  our_some : dust ≤ e.ourBal / 1000 → tx[e.ourIdx]? = some ⟨e.ourBal / 1000, enc .toRemote, 0⟩
  our_none : e.ourBal / 1000 < dust → e.ourIdx = outputIndexEmpty ∧ ∀ x ∈ tx, x.script ≠ enc .toRemote
  /-- every HTLC entry names an output with its amount, the HTLC script of its direction / hash
      (/ expiry), and its expiry as the sort's CLTV -/
  htlc : ∀ he ∈ e.htlcs, tx[he.idx]? = some ⟨he.amt, enc he.cls, he.cltv⟩
  /-- no two HTLC entries share an index -/
  nodup : (e.htlcs.map HEntry.idx).Nodup
  /-- nor does an HTLC entry share its index with a commitment output -/
  sepOur : ∀ he ∈ e.htlcs, dust ≤ e.ourBal / 1000 → he.idx ≠ e.ourIdx
  sepTheir : ∀ he ∈ e.htlcs, dust ≤ e.theirBal / 1000 → he.idx ≠ e.theirIdx
  sepOT : dust ≤ e.ourBal / 1000 → dust ≤ e.theirBal / 1000 → e.ourIdx ≠ e.theirIdx

theorem htlcClass_hash {x y : Htlc} (h : htlcClass x = htlcClass y) : x.hash = y.hash := by
  unfold htlcClass at h
  split at h <;> split at h
  · exact SC.offered.inj h
  · cases h
  · cases h
  · exact (SC.received.inj h).1

theorem cls_ne_toRemote (he : HEntry) : he.cls ≠ .toRemote := by
  unfold HEntry.cls; split <;> simp

theorem cls_ne_toLocal (he : HEntry) : he.cls ≠ .toLocal := by
  unfold HEntry.cls; split <;> simp

/-- the HTLC outputs of the transaction, as images of the HTLC list. -/
theorem offered_part (enc : SC → Nat) (inc : List Htlc) (hinc : ∀ h ∈ inc, h.incoming = true) :
    (htlcOuts .offered inc).map (toTxO enc) = (inc.filter (fun h => !h.dust)).map (fun h => (htOf enc h).out) := by
  unfold htlcOuts
  rw [List.map_map]
  apply List.map_congr_left
  intro h hm
  have := hinc h (List.mem_filter.mp hm).1
  simp [toTxO, classOf, htOf, htlcClass, this]

theorem received_part (enc : SC → Nat) (outg : List Htlc) (hout : ∀ h ∈ outg, h.incoming = false) :
    (htlcOuts .received outg).map (toTxO enc) = (outg.filter (fun h => !h.dust)).map (fun h => (htOf enc h).out) := by
  unfold htlcOuts
  rw [List.map_map]
  apply List.map_congr_left
  intro h hm
  have := hout h (List.mem_filter.mp hm).1
  simp [toTxO, classOf, htOf, htlcClass, this]

theorem count_live_le (enc : SC → Nat) (cfg : Cfg) (d a b : Nat) (outg inc : List Htlc)
    (hout : ∀ h ∈ outg, h.incoming = false) (hinc : ∀ h ∈ inc, h.incoming = true) (K : TxO) :
    ((((outg ++ inc).filter (fun h => !h.dust)).map (htOf enc)).map HT.out).count K ≤
      ((buildOuts cfg d a b inc outg).map (toTxO enc)).count K := by
  unfold buildOuts
  simp only [List.map_append, List.count_append, List.filter_append, List.map_map]
  have h1 := congrArg (List.count K) (offered_part enc inc hinc)
  have h2 := congrArg (List.count K) (received_part enc outg hout)
  have e1 : (HT.out ∘ htOf enc) = (fun h => (htOf enc h).out) := rfl
  rw [e1]
  rw [h1, h2]
  omega

theorem entry_matches (enc : SC → Nat) (henc : ∀ a b, enc a = enc b → a = b) (cfg : Cfg) (cm : Commit)
    (hs : Shape cfg cm) :
    ∃ e, mkEntry enc cm = some e ∧ Matches enc cfg.dustR e (txOf enc cm.outs) ∧
      e.ourBal = cm.our ∧ e.theirBal = cm.their ∧
      e.htlcs.map (fun he => (he.amt, he.hash, he.cltv, he.incoming)) =
        (liveHtlcs cm).map (fun h => (h.amt / 1000, h.hash, h.expiry, h.incoming)) := by
  obtain ⟨outg, inc, hh, hout, hinc, houts⟩ := hs
  -- facts about outputs with the two commitment scripts
  have hR : ∀ x ∈ txOf enc cm.outs, x.script = enc .toRemote →
      x = ⟨cm.our / 1000, enc .toRemote, 0⟩ ∧ cfg.dustR ≤ cm.our / 1000 := by
    intro x hx hsx
    obtain ⟨o, ho, rfl⟩ := mem_txOf.mp hx
    rw [houts] at ho
    obtain ⟨rfl, hd⟩ := class_toRemote ho (henc _ _ hsx)
    exact ⟨rfl, hd⟩
  have hL : ∀ x ∈ txOf enc cm.outs, x.script = enc .toLocal →
      x = ⟨cm.their / 1000, enc .toLocal, 0⟩ ∧ cfg.dustR ≤ cm.their / 1000 := by
    intro x hx hsx
    obtain ⟨o, ho, rfl⟩ := mem_txOf.mp hx
    rw [houts] at ho
    obtain ⟨rfl, hd⟩ := class_toLocal ho (henc _ _ hsx)
    exact ⟨rfl, hd⟩
  have hab : enc .toRemote ≠ enc .toLocal := fun e => by have := henc _ _ e; cases this
  -- the HTLC index assignment succeeds
  obtain ⟨idxs, hass, hlen, hnd, hz⟩ := duplicate_htlc_output_bijection (txOf enc cm.outs)
    ((liveHtlcs cm).map (htOf enc))
    (by
      intro h hm h' hm' hsc
      obtain ⟨x, _, rfl⟩ := List.mem_map.mp hm
      obtain ⟨y, _, rfl⟩ := List.mem_map.mp hm'
      exact htlcClass_hash (henc _ _ hsc))
    (by
      intro K
      rw [length_filter_eq_count, count_txOf, houts]
      unfold liveHtlcs
      rw [hh]
      exact count_live_le enc cfg _ _ _ outg inc hout hinc K)
  rw [List.length_map] at hlen
  unfold mkEntry
  simp only [hass]
  refine ⟨_, rfl, ?_, rfl, rfl, ?_⟩
  · -- facts about the zipped entries
    have hent : ∀ he ∈ (idxs.zip (liveHtlcs cm)).map mkHEntry,
        (txOf enc cm.outs)[he.idx]? = some ⟨he.amt, enc he.cls, he.cltv⟩ := by
      intro he hm
      obtain ⟨p, hp, rfl⟩ := List.mem_map.mp hm
      have : (p.1, htOf enc p.2) ∈ idxs.zip ((liveHtlcs cm).map (htOf enc)) := by
        rw [List.zip_map_right]
        exact List.mem_map.mpr ⟨p, hp, rfl⟩
      exact hz _ this
    constructor
    · rfl
    · -- their_some
      intro hd
      obtain ⟨x, _, h2, h3⟩ := scan_snd_some (enc .toRemote) (enc .toLocal) hab (txOf enc cm.outs) 0
        (outputIndexEmpty, outputIndexEmpty)
        ⟨toTxO enc ⟨cm.their / 1000, .toLocal, 0, 0⟩,
          mem_txOf.mpr ⟨_, by rw [houts]; exact toLocal_mem hd, rfl⟩, rfl⟩
      simp only [Nat.sub_zero] at h2
      rw [h2, (hL x (getElem?_mem h2) h3).1]
    · intro hd
      have hno : ∀ x ∈ txOf enc cm.outs, x.script ≠ enc .toLocal := by
        intro x hx he
        have := (hL x hx he).2
        simp only at hd; omega
      exact ⟨scan_snd_none _ _ _ _ _ hno, hno⟩
    · intro hd
      obtain ⟨x, _, h2, h3⟩ := scan_fst_some (enc .toRemote) (enc .toLocal) (txOf enc cm.outs) 0
        (outputIndexEmpty, outputIndexEmpty)
        ⟨toTxO enc ⟨cm.our / 1000, .toRemote, 0, 0⟩,
          mem_txOf.mpr ⟨_, by rw [houts]; exact toRemote_mem hd, rfl⟩, rfl⟩
      simp only [Nat.sub_zero] at h2
      rw [h2, (hR x (getElem?_mem h2) h3).1]
    · intro hd
      have hno : ∀ x ∈ txOf enc cm.outs, x.script ≠ enc .toRemote := by
        intro x hx he
        have := (hR x hx he).2
        simp only at hd; omega
      exact ⟨scan_fst_none _ _ _ _ _ hno, hno⟩
    · exact hent
    · simp only [List.map_map]
      have : (HEntry.idx ∘ mkHEntry) = (Prod.fst : Nat × Htlc → Nat) := rfl
      rw [this, List.map_fst_zip (by omega)]
      exact hnd
    · intro he hm hd heq
      have h1 := hent he hm
      obtain ⟨x, _, h2, h3⟩ := scan_fst_some (enc .toRemote) (enc .toLocal) (txOf enc cm.outs) 0
        (outputIndexEmpty, outputIndexEmpty)
        ⟨toTxO enc ⟨cm.our / 1000, .toRemote, 0, 0⟩,
          mem_txOf.mpr ⟨_, by rw [houts]; exact toRemote_mem hd, rfl⟩, rfl⟩
      simp only [Nat.sub_zero] at h2
      simp only at heq
      rw [heq, h2] at h1
      have := congrArg TxO.script (Option.some.inj h1)
      rw [h3] at this
      exact cls_ne_toRemote he (henc _ _ this).symm
    · intro he hm hd heq
      have h1 := hent he hm
      obtain ⟨x, _, h2, h3⟩ := scan_snd_some (enc .toRemote) (enc .toLocal) hab (txOf enc cm.outs) 0
        (outputIndexEmpty, outputIndexEmpty)
        ⟨toTxO enc ⟨cm.their / 1000, .toLocal, 0, 0⟩,
          mem_txOf.mpr ⟨_, by rw [houts]; exact toLocal_mem hd, rfl⟩, rfl⟩
      simp only [Nat.sub_zero] at h2
      simp only at heq
      rw [heq, h2] at h1
      have := congrArg TxO.script (Option.some.inj h1)
      rw [h3] at this
      exact cls_ne_toLocal he (henc _ _ this).symm
    · intro hdo hdt heq
      obtain ⟨x, _, h2, h3⟩ := scan_fst_some (enc .toRemote) (enc .toLocal) (txOf enc cm.outs) 0
        (outputIndexEmpty, outputIndexEmpty)
        ⟨toTxO enc ⟨cm.our / 1000, .toRemote, 0, 0⟩,
          mem_txOf.mpr ⟨_, by rw [houts]; exact toRemote_mem hdo, rfl⟩, rfl⟩
      obtain ⟨y, _, k2, k3⟩ := scan_snd_some (enc .toRemote) (enc .toLocal) hab (txOf enc cm.outs) 0
        (outputIndexEmpty, outputIndexEmpty)
        ⟨toTxO enc ⟨cm.their / 1000, .toLocal, 0, 0⟩,
          mem_txOf.mpr ⟨_, by rw [houts]; exact toLocal_mem hdt, rfl⟩, rfl⟩
      simp only [Nat.sub_zero] at h2 k2
      simp only at heq
      rw [heq, k2] at h2
      have := congrArg TxO.script (Option.some.inj h2)
      rw [h3, k3] at this
      exact hab this.symm
  · simp only [List.map_map]
    have : ((fun he : HEntry => (he.amt, he.hash, he.cltv, he.incoming)) ∘ mkHEntry) =
        ((fun h : Htlc => (h.amt / 1000, h.hash, h.expiry, h.incoming)) ∘ Prod.snd) := rfl
    rw [this, ← List.map_map, List.map_snd_zip (by omega)]

/-- `OutputIndexEmpty` exactly when trimmed: a transaction has far fewer than 65535 outputs
    (at most 2·483 HTLCs + 4), so a valid index never collides with the marker. -/
theorem empty_iff_trimmed {enc : SC → Nat} {dust : Nat} {e : RevEntry} {tx : List TxO}
    (m : Matches enc dust e tx) (hlen : tx.length ≤ outputIndexEmpty) :
    (e.theirIdx = outputIndexEmpty ↔ e.theirBal / 1000 < dust) ∧
    (e.ourIdx = outputIndexEmpty ↔ e.ourBal / 1000 < dust) := by
  constructor
  · constructor
    · intro he
      apply Classical.byContradiction
      intro hn
      have h := m.their_some (by omega)
      obtain ⟨hi, _⟩ := List.getElem?_eq_some_iff.mp h
      omega
    · exact fun h => (m.their_none h).1
  · constructor
    · intro he
      apply Classical.byContradiction
      intro hn
      have h := m.our_some (by omega)
      obtain ⟨hi, _⟩ := List.getElem?_eq_some_iff.mp h
      omega
    · exact fun h => (m.our_none h).1

end LndModel.C04.RevLog
