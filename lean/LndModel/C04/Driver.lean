/-
C04 driver: replays a harness trace.
 (X) correspondence: state-hint model vs SetStateNumHint/GetStateNumHint, script
     templates vs the disassembly of input/script_utils.go's constructors, the
     model's script / witness / sequence choice vs what NewBreachRetribution and
     the breach-arbitrator path produced, and the symbolic interpreter's verdict
     vs the btcd engine's verdict on every executed input (positives and
     generated negatives)                                        -> MISMATCH
 (S) monitor: the property itself on the implementation's answers  -> MONITOR
-/
import LndModel.Prelude.Lines
import LndModel.C04.Model
import LndModel.C04.Parse
import LndModel.C04.Watch
import LndModel.C04.RevLog
import LndModel.C04.BrarLife

open LndModel LndModel.Lines LndModel.C04 LndModel.C04.Script LndModel.C04.Parse

namespace LndModel.C04.Driver

structure St where
  caseId : String := "0"
  ctype : String := ""
  ct : ChanType := {}
  csv : Array Nat := #[5, 4]     -- csv delay of A, B
  thaw : Nat := 0
  initA : Bool := true
  noamt : Bool := false
  lines : Nat := 0
  cases : Nat := 0
  mismatches : Nat := 0
  monitorFails : Nat := 0
  evals : Nat := 0
  spendsPos : Nat := 0
  spendsNeg : Nat := 0
  negRejected : Nat := 0
  modelChecked : Nat := 0
  modelSkipped : Nat := 0
  structChecked : Nat := 0
  hints : Nat := 0
  revoked : Nat := 0
  retrs : Nat := 0
  outs : Nat := 0
  secondLevel : Nat := 0
  htlcSpends : Nat := 0
  templates : Nat := 0
  brarInputs : Nat := 0
  watched : Nat := 0
  watchModel : Nat := 0
  watchNeg : Nat := 0
  revlogs : Nat := 0
  samples : Nat := 0
  ubis : Nat := 0
  ubiConverted : Nat := 0
  ubiRemoved : Nat := 0
  ubiShifted : Nat := 0
  restarts : Nat := 0
  rsOps : Nat := 0
  rstore : BrarLife.Store String := {}

def mismatch (s : St) (detail : String) : IO St := do
  IO.println s!"MISMATCH case={s.caseId} line={s.lines} {detail}"
  return { s with mismatches := s.mismatches + 1 }

def monitor (s : St) (clause detail : String) : IO St := do
  IO.println s!"MONITOR case={s.caseId} clause={clause} line={s.lines} type={s.ctype} {detail}"
  return { s with monitorFails := s.monitorFails + 1 }

def kindOf (k : String) : Option OutKind :=
  match k with
  | "toLocal" => some .toLocal | "toRemote" => some .toRemote | "htlcAcc" => some .htlcAcc
  | "htlcOff" => some .htlcOff | "secondLevel" => some .secondLevel | _ => none


/-! breach-arbitrator life cycle (`ubi` / `rs` lines) -/

def lifeKind (k : String) : Option BrarLife.Kind :=
  match k with
  | "toRemote" => some .toRemote | "toLocal" => some .toLocal | "htlcAcc" => some .htlcAcc
  | "htlcOff" => some .htlcOff | "secondLevel" => some .second | _ => none

def lifeKindName : BrarLife.Kind → String
  | .toRemote => "toRemote" | .toLocal => "toLocal" | .htlcAcc => "htlcAcc"
  | .htlcOff => "htlcOff" | .second => "secondLevel"

/-- `kind:amt:value:op,...`; also answers whether amt = recorded output value everywhere -/
def parseBos (t : String) : Option (List BrarLife.BO × Bool) :=
  if t == "-" then some ([], true) else
  let items := t.splitOn ","
  let rec go (l : List String) (i : Nat) (acc : List BrarLife.BO) (ok : Bool) : Option (List BrarLife.BO × Bool) :=
    match l with
    | [] => some (acc.reverse, ok)
    | x :: rest =>
      match x.splitOn ":" with
      | [k, a, v, o] =>
        match lifeKind k, a.toNat?, v.toNat?, o.toNat? with
        | some kk, some aa, some vv, some oo => go rest (i + 1) (⟨i, kk, aa, oo⟩ :: acc) (ok && aa == vv)
        | _, _, _, _ => none
      | _ => none
  go items 0 [] true

def parseSpends (t : String) : Option (List BrarLife.Spend) :=
  if t == "-" then some [] else
  (t.splitOn ",").mapM fun x =>
    match x.splitOn ":" with
    | [i, w, a, o] =>
      match i.toNat?, a.toNat?, o.toNat? with
      | some ii, some aa, some oo => some ⟨ii, w == "U", aa, oo⟩
      | _, _, _ => none
    | _ => none

def showBos (l : List BrarLife.BO) : String :=
  if l.isEmpty then "-" else ",".intercalate (l.map fun b => s!"{lifeKindName b.kind}:{b.amt}:{b.op}")

def sortStr (l : List String) : List String := l.mergeSort (fun a b => decide (a ≤ b))

def handleUbi (s : St) (ws rest : List String) : IO St := do
  let s := { s with evals := s.evals + 1, ubis := s.ubis + 1 }
  let ctxS := kvS rest "ctx"
  if resOf ws != "ok" then
    return ← monitor s "justice-complete" s!"ctx={ctxS} rd={kvS rest "rd"} updateBreachInfo: {resOf ws}"
  let some (ins, _) := parseBos (kvS rest "in") | mismatch s s!"ubi: unparsed in={kvS rest "in"}"
  let some (outs, amtOk) := parseBos (kvS rest "out") | mismatch s s!"ubi: unparsed out={kvS rest "out"}"
  let some spends := parseSpends (kvS rest "spends") | mismatch s s!"ubi: unparsed spends={kvS rest "spends"}"
  let mut s := s
  let strip (l : List BrarLife.BO) : List String := l.map fun b => s!"{lifeKindName b.kind}:{b.amt}:{b.op}"
  -- (S) every output that was not swept by one of OUR spends is still served, at the outpoint /
  -- amount where the funds now are (second level after the cheater's advance); recomputed per
  -- output from the spend history (BrarLife.specOuts), order irrelevant
  let spec := BrarLife.specOuts ins spends
  if sortStr (strip spec) != sortStr (strip outs) then
    s ← monitor s "justice-complete" s!"ctx={ctxS} rd={kvS rest "rd"} in={kvS rest "in"} spends={kvS rest "spends"} served={showBos outs} expected={showBos spec}"
  if !amtOk then
    s ← monitor s "index-amount" s!"ctx={ctxS} rd={kvS rest "rd"} breached output amount differs from its recorded output value: {kvS rest "out"}"
  -- (X) the loop model, state for state (order, totals)
  let m := BrarLife.ubi ins spends
  if strip m.outs != strip outs || m.total != kvN rest "total" || m.revoked != kvN rest "revoked" then
    s ← mismatch s s!"ubi ctx={ctxS} rd={kvS rest "rd"} model={showBos m.outs},total{m.total},revoked{m.revoked} impl={showBos outs},total{kvN rest "total"},revoked{kvN rest "revoked"}"
  let conv := (spends.filter fun sp => !sp.ours).length
  return { s with ubiConverted := s.ubiConverted + conv, ubiRemoved := s.ubiRemoved + (spends.length - conv) }

def handleRs (s : St) (ws rest : List String) : IO St := do
  let s := { s with evals := s.evals + 1, rsOps := s.rsOps + 1 }
  let res := resOf ws
  let k := kvN rest "k"
  match kvS rest "op" with
  | "handoff" =>
    if s.rstore.isBreached k then
      if res == "skip" then return s else mismatch s s!"rs handoff k={k}: model=skip impl={res}"
    else
      let s' := { s with rstore := s.rstore.add k (kvS rest "d") }
      if res == "added" then return s' else mismatch s' s!"rs handoff k={k}: model=added impl={res}"
  | "add" =>
    let s' := { s with rstore := s.rstore.add k (kvS rest "d") }
    if res == "ok" then return s' else mismatch s' s!"rs add k={k}: impl={res}"
  | "remove" =>
    match s.rstore.remove k with
    | none => if res == "err" then return s else mismatch s s!"rs remove k={k}: model=err(no bucket) impl={res}"
    | some st =>
      let s' := { s with rstore := st }
      if res == "ok" then return s' else mismatch s' s!"rs remove k={k}: model=ok impl={res}"
  | "isbreached" =>
    let m := if s.rstore.isBreached k then "true" else "false"
    if res == m then return s
    else monitor s "retribution-persisted" s!"IsBreached k={k}: store history says {m}, implementation {res}"
  | "restart" =>
    let s := { s with restarts := s.restarts + 1 }
    if res == "ok" then return s else mismatch s s!"rs restart: {res}"
  | "forall" =>
    -- (S) after any history incl. restarts: exactly the retributions handed off and not yet
    -- cleaned up, each once, with the snapshot written at hand-off
    let m := sortStr (s.rstore.items.map fun p => s!"{p.1}:{p.2}")
    let ms := if m.isEmpty then "-" else ",".intercalate m
    if res == ms then return s
    else monitor s "retribution-persisted" s!"ForAll: stored={res} expected={ms}"
  | o => mismatch s s!"rs: unknown op {o}"

def handleSpend (s : St) (ws : List String) : IO St := do
  let s := { s with evals := s.evals + 1 }
  let kind := kvS ws "kind"
  let variant := kvS ws "var"
  let engine := resOf ws
  let ctxS := kvS ws "ctx"
  let spk := kvS ws "spk"
  let seq := kvN ws "seq"
  let lock := kvN ws "lock"
  let ver := kvN ws "ver"
  let mut s := s
  if variant == "pos" then
    s := { s with spendsPos := s.spendsPos + 1 }
  else
    s := { s with spendsNeg := s.spendsNeg + 1 }
    if engineVerdict engine == some false then s := { s with negRejected := s.negRejected + 1 }
  if kind == "secondLevel" then s := { s with secondLevel := s.secondLevel + 1 }
  if kind == "htlcAcc" || kind == "htlcOff" then s := { s with htlcSpends := s.htlcSpends + 1 }
  -- (S) every justice input the node is supposed to hold must be accepted, and
  -- the recorded amount / script must be those of the real output
  if variant == "pos" then
    if kvN ws "rec_amt" != kvN ws "act_amt" || kvS ws "pk" != "1" then
      s ← monitor s "index-amount" s!"ctx={ctxS} kind={kind} rec_idx={kvS ws "rec_idx"} rec_amt={kvS ws "rec_amt"} act_amt={kvS ws "act_amt"} pk={kvS ws "pk"}"
    if engine != "ok" then
      let leaseTag := if s.ct.lease && s.thaw > 0 && ((nodeOf (ctxField ctxS "v") == 0) == s.initA)
        && kind == "toRemote" && kvS ws "wt" == "CommitmentToRemoteConfirmed"
        && engine == "fail:ErrUnsatisfiedLockTime" && lock == 0
        && ((kvS ws "ws").splitOn "OP_CHECKLOCKTIMEVERIFY").length > 1
        then " lease_cltv_locktime0=1" else ""
      s ← monitor s "justice-valid" s!"ctx={ctxS} kind={kind} wt={kvS ws "wt"} seq={seq} lock={lock} engine={engine}{leaseTag}"
  -- (X) model
  let some ev := engineVerdict engine | return { s with modelSkipped := s.modelSkipped + 1 }
  let some wit := parseWitness (kvS ws "wit") | mismatch s s!"unparsed witness {kvS ws "wit"}"
  let some script0 := parseScript (kvS ws "ws") | mismatch s s!"unparsed script {kvS ws "ws"}"
  let some k := kindOf kind | mismatch s s!"unknown kind {kind}"
  let v := nodeOf (ctxField ctxS "v")
  let r : Revoked := { ct := s.ct, victim := v, victimInitiator := (v == 0) == s.initA,
                       csv := s.csv[1 - v]!, leaseExpiry := s.thaw }
  if spk == "p2tr" || s.ct.taproot then
    -- simple-taproot: script path = tapscript interpreter, key path = signer is the internal key
    let keyPath := kvS ws "ws" == "-"
    let cx : Ctx := { version := ver, sequence := seq, lockTime := lock, tapscript := true }
    let mv := (if keyPath then
        match wit with
        | [.sig sk ht .final] => sk == r.revocationKey && sigHashDefined true ht
        | _ => false
      else run cx script0 wit) && kvS ws "pk" == "1"
    if mv != ev then
      s ← mismatch s s!"verdict(taproot) ctx={ctxS} kind={kind} var={variant} model={mv} engine={engine}"
    s := { s with modelChecked := s.modelChecked + 1 }
    if variant == "pos" then
      if keyPath != (r.tapScript k).isNone then
        s ← mismatch s s!"taproot spend path ctx={ctxS} kind={kind} impl_keypath={keyPath}"
      if let some sc := r.tapScript k then
        if script0 != sc then
          s ← mismatch s s!"script(taproot) ctx={ctxS} kind={kind} impl={kvS ws "ws"} model={repr sc}"
      if wit != r.tapWitness k then
        s ← mismatch s s!"witness(taproot) ctx={ctxS} kind={kind} impl={kvS ws "wit"} model={repr (r.tapWitness k)}"
      let mc := r.tapCtx k
      if seq != mc.sequence || lock != mc.lockTime || ver != mc.version then
        s ← mismatch s s!"txshape ctx={ctxS} kind={kind} impl=ver{ver},seq{seq},lock{lock} model=ver{mc.version},seq{mc.sequence},lock{mc.lockTime}"
      if kvS ws "wt" != r.witnessTypeName k then
        s ← mismatch s s!"witness type ctx={ctxS} kind={kind} impl={kvS ws "wt"} model={r.witnessTypeName k}"
      if !keyPath && r.tapJusticeValid k != ev then
        s ← mismatch s s!"tapJusticeValid ctx={ctxS} kind={kind} model={r.tapJusticeValid k} engine={engine}"
      s := { s with structChecked := s.structChecked + 1 }
    return s
  let cltv := findCltv script0
  let ph := findPayHash script0
  let modelScript := r.script k (if k == .htlcOff then cltv else 0) ph
  -- P2WKH has no witness script: the program commits to the key's hash
  let script := if spk == "p2wkh" then modelScript else script0
  let c : Ctx := { version := ver, sequence := seq, lockTime := lock, tapscript := false }
  let mv := run c script wit && kvS ws "pk" == "1"
  if mv != ev then
    s ← mismatch s s!"verdict ctx={ctxS} kind={kind} var={variant} model={mv} engine={engine}"
  s := { s with modelChecked := s.modelChecked + 1 }
  if variant == "pos" then
    -- structure: the code's script / witness / sequence are the model's
    if spk != "p2wkh" && script0 != modelScript then
      s ← mismatch s s!"script ctx={ctxS} kind={kind} impl={kvS ws "ws"} model={repr modelScript}"
    let mw := r.witness k (.sig (r.signDesc k).signer sigHashAll .final)
    if wit != mw then
      s ← mismatch s s!"witness ctx={ctxS} kind={kind} impl={kvS ws "wit"} model={repr mw}"
    let mc := r.ctx k
    if seq != mc.sequence || lock != mc.lockTime || ver != mc.version then
      s ← mismatch s s!"txshape ctx={ctxS} kind={kind} impl=ver{ver},seq{seq},lock{lock} model=ver{mc.version},seq{mc.sequence},lock{mc.lockTime}"
    if kvS ws "wt" != r.witnessTypeName k then
      s ← mismatch s s!"witness type ctx={ctxS} kind={kind} impl={kvS ws "wt"} model={r.witnessTypeName k}"
    -- the model's own verdict for this configuration (what the theorems speak about)
    let jv := r.justiceValid k (if k == .htlcOff then cltv else 0) ph
    if jv != ev then
      s ← mismatch s s!"justiceValid ctx={ctxS} kind={kind} model={jv} engine={engine}"
    s := { s with structChecked := s.structChecked + 1 }
  return s

def step (s : St) (line : String) : IO St := do
  let s := { s with lines := s.lines + 1 }
  let ws := words line
  match ws with
  | "FACT" :: rest =>
    let chk (s : St) (key : String) (v : Nat) : IO St :=
      if kvNat? rest key == some v then pure s
      else mismatch s s!"fact {key}: model={v} impl={(kv? rest key).getD "?"}"
    let s ← chk s "maxStateHint" Hint.maxStateHint
    let s ← chk s "timelockShift" Hint.timelockShift
    let s ← chk s "seqLockTimeDisabled" Hint.seqLockTimeDisabled
    chk s "stateHintSize" 6
  | "CASE" :: id :: rest =>
    let b (k : String) : Bool := kvNat? rest k == some 1
    let s := { s with caseId := id, ctype := kvS rest "type",
                       ct := { tweakless := b "tweakless", anchors := b "anchors", lease := b "lease",
                               taproot := b "taproot",
                               taprootFinal := b "taprootfinal" || kvS rest "type" == "taprootfinal" },
                       csv := #[(kvNat? rest "csvA").getD 5, (kvNat? rest "csvB").getD 4],
                       thaw := kvN rest "thaw", initA := kvS rest "initiator" != "B", noamt := b "noamt",
                       cases := s.cases + 1, rstore := {} }
    -- honest peers never reject each other's messages; if they do the history is cut short
    let s ← if b "dead" then mismatch s "history aborted: a peer rejected an honest message" else pure s
    if s.samples < 4 && id != "tmpl" && id != "hint" then
      IO.println s!"SAMPLE {line}"
      return { s with samples := s.samples + 1 }
    return s
  | ["END"] => return s
  | "DIST" :: rest =>
    let mut out := s
    for w in rest do
      match w.splitOn "=" with
      | [k, v] => IO.println s!"STAT hist_{k}={v}"
      | _ => pure ()
    return out
  | "script" :: rest =>
    let s := { s with templates := s.templates + 1, evals := s.evals + 1 }
    let ctor := kvS rest "ctor"
    let some ops := parseScript (resOf ws) | mismatch s s!"template {ctor}: unparsed {resOf ws}"
    match template ctor (kvN rest "csv") (kvN rest "cltv") (kvN rest "conf" == 1) with
    | some cands =>
      if cands.contains ops then return s
      else mismatch s s!"template {ctor} csv={kvN rest "csv"} cltv={kvN rest "cltv"} conf={kvN rest "conf"}: impl={resOf ws} model={repr (cands.headD [])}"
    | none => mismatch s s!"template {ctor}: no model"
  | "sethint" :: rest =>
    let s := { s with hints := s.hints + 1, evals := s.evals + 1 }
    let state := kvN rest "state"
    let obf := Hint.xorInt (hexBytesNat (kvS rest "obf"))
    let impl := resOf ws
    match Hint.setHint state obf with
    | none =>
      let s ← if impl == "error" then pure s else mismatch s s!"sethint {state}: model=error impl={impl}"
      -- (S) a state above the maximum must be refused
      if state > 2 ^ 48 - 1 && impl != "error" then monitor s "hint-rejects" s!"state={state} accepted"
      else return s
    | some (sq, lk) =>
      let iseq := kvN ws "seq"; let ilock := kvN ws "lock"; let iget := kvN ws "get"
      let mut s := s
      if impl == "error" || iseq != sq || ilock != lk || iget != Hint.getHint sq lk obf then
        s ← mismatch s s!"sethint {state}: model=seq{sq},lock{lk} impl={impl},seq{iseq},lock{ilock},get{iget}"
      -- (S) round trip and field shape on the implementation's own answers
      if state ≤ 2 ^ 48 - 1 then
        if impl == "error" then s ← monitor s "hint-roundtrip" s!"state={state} refused"
        else
          if iget != state then s ← monitor s "hint-roundtrip" s!"state={state} decoded as {iget}"
          if iseq / 2 ^ 31 % 2 != 1 || ilock < 2 ^ 29 || ilock ≥ 2 ^ 29 + 2 ^ 24 then
            s ← monitor s "hint-fields" s!"state={state} seq={iseq} lock={ilock}"
      return s
  | "gethint" :: rest =>
    let s := { s with hints := s.hints + 1, evals := s.evals + 1 }
    let m := Hint.getHint (kvN rest "seq") (kvN rest "lock") (Hint.xorInt (hexBytesNat (kvS rest "obf")))
    if some m == (resOf ws).toNat? then return s
    else mismatch s s!"gethint: model={m} impl={resOf ws}"
  | "rev" :: rest =>
    let s := { s with revoked := s.revoked + 1, evals := s.evals + 1 }
    if resOf ws == "missing-tx" || resOf ws == "producer-error" then
      mismatch s s!"harness lost the revoked transaction: {line}"
    else
      let h := kvN rest "h"
      let mut s := s
      -- (S) the broadcast transaction identifies its state
      if kvN rest "hint" != h then
        s ← monitor s "hint" s!"v={kvS rest "v"} h={h} decoded={kvN rest "hint"}"
      let lt := kvN rest "locktime"
      if kvN rest "seqbit" != 1 || lt < 2 ^ 29 || lt ≥ 2 ^ 29 + 2 ^ 24 then
        s ← monitor s "hint-fields" s!"v={kvS rest "v"} h={h} seqbit={kvN rest "seqbit"} locktime={lt}"
      return s
  | "retr" :: rest =>
    let s := { s with retrs := s.retrs + 1, evals := s.evals + 1 }
    let res := resOf ws
    let mode := kvS rest "mode"
    let notx := mode.endsWith "notx"
    -- without the breach tx and without stored amounts the documented answer is ErrRevLogDataMissing
    if res == "ok" || (notx && kvN rest "noamt" == 1 && res == "err:nodata") then
      if res == "ok" && notx && kvN rest "noamt" == 1 then
        -- amounts cannot come from anywhere: only acceptable if nothing needed them
        return s
      return s
    else
      let cl := if mode.startsWith "stale" then "breach-recognised" else "retribution-built"
      monitor s cl s!"v={kvS rest "v"} h={kvS rest "h"} mode={mode} noamt={kvN rest "noamt"} result={res}"
  | "cover" :: rest =>
    let s := { s with evals := s.evals + 1 }
    if kvS rest "claimed" == kvS rest "expect" && kvN rest "dup" == 0 && kvN rest "txid" == 1 then return s
    else monitor s "cover" s!"ctx={kvS rest "ctx"} claimed={kvS rest "claimed"} expect={kvS rest "expect"} dup={kvN rest "dup"} txid={kvN rest "txid"}"
  | "out" :: rest =>
    let s := { s with outs := s.outs + 1, evals := s.evals + 1 }
    if resOf ws == "out-of-range" then
      monitor s "index-amount" s!"ctx={kvS rest "ctx"} kind={kvS rest "kind"} rec_idx={kvS rest "rec_idx"} out of range"
    else
      let ak := kvS rest "act_kind"
      let kindOk := ak == kvS rest "kind" || ak == "unknown"
      if kvN rest "rec_amt" == kvN rest "act_amt" && kvN rest "pk" == 1 && kindOk then return s
      else monitor s "index-amount" s!"ctx={kvS rest "ctx"} kind={kvS rest "kind"} act_kind={ak} rec_idx={kvS rest "rec_idx"} rec_amt={kvS rest "rec_amt"} act_amt={kvS rest "act_amt"} pk={kvS rest "pk"}"
  | "second" :: _ => return s
  | "jretr" :: rest | "jtx" :: rest =>
    let s := { s with evals := s.evals + 1 }
    let res := resOf ws
    -- a second-level output worth less than the fee cannot be swept (economics, not scripts)
    if res == "ok" || (res.splitOn "negative_value").length > 1 then return s
    else monitor s "retribution-built" s!"ctx={kvS rest "ctx"} breach arbitrator: {res}"
  | "watch" :: rest =>
    let s := { s with evals := s.evals + 1, watched := s.watched + 1 }
    -- (S) the real chain watcher, working on its own earlier copy of the channel, must
    -- recognise the revoked state and hand a retribution to the breach arbitrator
    let mut s := s
    if resOf ws != "ok" then
      s ← monitor s "breach-recognised" s!"ctx={kvS rest "ctx"} stale_copy={kvS rest "stale"} copy_height={kvS rest "copyh"} final_height={kvS rest "finalh"} chain watcher: {resOf ws}"
    -- (X) the recognition path as model steps (Watch.recogniseFacts): decoded state number,
    -- log lookup (every height below the remote tail is logged), hash comparison
    if (kv? rest "obf").isSome then
      let finalh := kvN rest "finalh"
      let mv := Watch.recogniseFacts (Hint.xorInt (hexBytesNat (kvS rest "obf"))) (kvN rest "seq") (kvN rest "lock")
        false false false (fun k => decide (k < finalh)) true
      let iv : Option Nat := if resOf ws == "ok" || resOf ws == "wrongstate" then (kvS rest "state").toNat? else none
      if mv != iv then
        s ← mismatch s s!"watch ctx={kvS rest "ctx"} model={repr mv} impl={repr iv} ({resOf ws})"
      s := { s with watchModel := s.watchModel + 1 }
    return s
  | "revlog" :: rest =>
    let s := { s with evals := s.evals + 1 }
    if resOf ws != "ok" then
      -- every revoked height must have a log entry the victim can read back
      monitor s "retribution-built" s!"v={kvS rest "v"} h={kvS rest "h"} revocation log entry: {resOf ws}"
    else
      -- (X) the model's index bookkeeping (RevLog.scanIdx = findOutputIndexesFromRemote,
      -- C01.assignFrom = populateHtlcIndexes) recomputed on the REAL transaction
      let nums (t : String) : List Nat := (t.splitOn ":").map (fun x => x.toNat?.getD 0)
      let tx : List LndModel.C01.TxO := ((kvS rest "outs").splitOn ",").filterMap fun t =>
        match nums t with
        | [v, sc, cl] => some ⟨v, sc, cl⟩
        | _ => none
      let ents : List (List Nat) := (((kvS rest "htlcs").splitOn ",").filter (· != "")).map nums
      let hts : List LndModel.C01.HT := ents.filterMap fun e =>
        match e with
        | [_, amt, hid, cl, _, sc] => some ⟨hid, ⟨amt, sc, cl⟩⟩
        | _ => none
      let recIdx : List Nat := ents.filterMap (·.head?)
      let sortN (l : List Nat) : List Nat := l.mergeSort (fun a b => decide (a ≤ b))
      let mut s := { s with revlogs := s.revlogs + 1 }
      match LndModel.C01.assignFrom tx (fun _ => []) hts with
      | none => s ← mismatch s s!"revlog v={kvS rest "v"} h={kvS rest "h"}: model cannot place an HTLC entry on the transaction"
      | some idxs =>
        if sortN idxs != sortN recIdx then
          s ← mismatch s s!"revlog v={kvS rest "v"} h={kvS rest "h"}: htlc indexes model={idxs} impl={recIdx}"
      let r := RevLog.scanIdx (kvN rest "ourS") (kvN rest "theirS") 0 tx (RevLog.outputIndexEmpty, RevLog.outputIndexEmpty)
      if r.1 != kvN rest "ours" || r.2 != kvN rest "theirs" then
        s ← mismatch s s!"revlog v={kvS rest "v"} h={kvS rest "h"}: our/their index model={r.1}/{r.2} impl={kvS rest "ours"}/{kvS rest "theirs"}"
      return s
  | "watchneg" :: rest =>
    let s := { s with evals := s.evals + 1, watchNeg := s.watchNeg + 1 }
    let finalh := kvN rest "finalh"
    -- tamper: same hint, the recorded CommitTxHash differs; current: nothing logged for that number
    let mv := Watch.recogniseFacts (Hint.xorInt (hexBytesNat (kvS rest "obf"))) (kvN rest "seq") (kvN rest "lock")
      false false false (fun k => decide (k < finalh)) (kvS rest "case" != "tamper")
    let iv : Option Nat := if resOf ws == "breach" then (kvS rest "state").toNat? else none
    if resOf ws != "breach" && resOf ws != "nobreach" then
      mismatch s s!"watchneg ctx={kvS rest "ctx"} case={kvS rest "case"}: {resOf ws}"
    else if mv != iv then
      mismatch s s!"watchneg ctx={kvS rest "ctx"} case={kvS rest "case"} model={repr mv} impl={repr iv}"
    else return s
  | "ubi" :: rest => handleUbi s ws rest
  | "rs" :: rest => handleRs s ws rest
  | "rsload" :: rest =>
    let s := { s with evals := s.evals + 1, restarts := s.restarts + 1 }
    -- (S) the retribution read back after the database was re-opened is the one handed off
    if resOf ws == "same" then return s
    else monitor s "retribution-persisted" s!"ctx={kvS rest "ctx"} when={kvS rest "when"} stored_retributions={kvS rest "n"} read back: {resOf ws}"
  | "ubisame" :: rest =>
    let s := { s with evals := s.evals + 1 }
    let srt (t : String) : List String := sortStr (t.splitOn ",")
    -- (S) after a restart + re-delivery of the chain history the same outputs are served
    if srt (kvS rest "live") == srt (kvS rest "reloaded") then return s
    else monitor s "justice-complete" s!"ctx={kvS rest "ctx"} after restart served={kvS rest "reloaded"} before restart={kvS rest "live"}"
  | "lifeend" :: rest =>
    let s := { s with evals := s.evals + 1, ubiShifted := s.ubiShifted + kvN rest "shifted" }
    if resOf ws == "0" then return s
    else monitor s "justice-complete" s!"ctx={kvS rest "ctx"} all our justice transactions confirmed but outputs are still served: {kvS rest "left"}"
  | "life" :: rest => mismatch s s!"life cycle ctx={kvS rest "ctx"}: {resOf ws}"
  | "jmissing" :: _ => mismatch s s!"harness lost the revoked transaction: {line}"
  | "jsecond" :: _ => return s
  | "jin" :: rest =>
    let s := { s with evals := s.evals + 1, brarInputs := s.brarInputs + 1 }
    let kind := kvS rest "kind"
    let engine := resOf ws
    let ctxS := kvS rest "ctx"
    let seq := kvN rest "seq"; let lock := kvN rest "lock"; let ver := kvN rest "ver"
    let mut s := s
    -- (S) every input of every justice transaction variant must be valid
    if kvN rest "recok" != 1 then
      s ← monitor s "index-amount" s!"ctx={ctxS} variant={kvS rest "variant"} kind={kind} idx={kvS rest "idx"} recorded output differs from the real one"
    if engine != "ok" then
      let leaseTag := if s.ct.lease && s.thaw > 0 && ((nodeOf (ctxField ctxS "v") == 0) == s.initA)
        && kind == "toRemote" && kvS rest "wt" == "CommitmentToRemoteConfirmed"
        && engine == "fail:ErrUnsatisfiedLockTime" && lock == 0 then " lease_cltv_locktime0=1" else ""
      s ← monitor s "justice-valid" s!"ctx={ctxS} variant={kvS rest "variant"} kind={kind} wt={kvS rest "wt"} seq={seq} lock={lock} engine={engine}{leaseTag}"
    -- (X) witness type table and transaction shape of the real breach arbitrator
    let some k := kindOf kind | mismatch s s!"unknown kind {kind}"
    let v := nodeOf (ctxField ctxS "v")
    let r : Revoked := { ct := s.ct, victim := v, victimInitiator := (v == 0) == s.initA,
                         csv := s.csv[1 - v]!, leaseExpiry := s.thaw }
    if kvS rest "wt" != r.witnessTypeName k then
      s ← mismatch s s!"witness type ctx={ctxS} kind={kind} impl={kvS rest "wt"} model={r.witnessTypeName k}"
    let mc := r.ctx k
    if seq != mc.sequence || lock != mc.lockTime || ver != mc.version then
      s ← mismatch s s!"txshape ctx={ctxS} kind={kind} impl=ver{ver},seq{seq},lock{lock} model=ver{mc.version},seq{mc.sequence},lock{mc.lockTime}"
    if let some ev := engineVerdict engine then
      if s.ct.taproot then
        -- key-path spends (HTLC / second level) are outside the symbolic model
        if (r.tapScript k).isSome then
          if r.tapJusticeValid k != ev then
            s ← mismatch s s!"tapJusticeValid ctx={ctxS} kind={kind} model={r.tapJusticeValid k} engine={engine}"
          s := { s with modelChecked := s.modelChecked + 1 }
      else
        -- the model's verdict for this configuration; HTLC parameters do not influence it
        let jv := r.justiceValid k 700100 (.h160 (.pre 0))
        if jv != ev then
          s ← mismatch s s!"justiceValid ctx={ctxS} kind={kind} model={jv} engine={engine}"
        s := { s with modelChecked := s.modelChecked + 1 }
    return s
  | "spend" :: rest => handleSpend s ("spend" :: rest)
  | [] => return s
  | _ => mismatch s s!"unparsed line: {line.take 80}"

end LndModel.C04.Driver

open LndModel.C04.Driver in
def main : IO Unit := do
  let s ← LndModel.Lines.foldStdin step {}
  IO.println s!"STAT lines={s.lines}"
  IO.println s!"STAT cases={s.cases}"
  IO.println s!"STAT evaluations={s.evals}"
  IO.println s!"STAT nontrivial={s.spendsPos + s.spendsNeg + s.hints + s.revoked + s.brarInputs}"
  IO.println s!"STAT breach_arbitrator_inputs_executed={s.brarInputs}"
  IO.println s!"STAT chain_watcher_stale_copy_spends={s.watched}"
  IO.println s!"STAT chain_watcher_model_decisions_compared={s.watchModel + s.watchNeg}"
  IO.println s!"STAT revlog_entries_recomputed_by_model={s.revlogs}"
  IO.println s!"STAT revoked_heights={s.revoked}"
  IO.println s!"STAT update_breach_info_calls={s.ubis}"
  IO.println s!"STAT second_level_conversions={s.ubiConverted}"
  IO.println s!"STAT outputs_swept_by_us={s.ubiRemoved}"
  IO.println s!"STAT second_level_spends_at_input_index_gt0={s.ubiShifted}"
  IO.println s!"STAT retribution_store_ops={s.rsOps}"
  IO.println s!"STAT restarts={s.restarts}"
  IO.println s!"STAT retributions={s.retrs}"
  IO.println s!"STAT outputs_checked={s.outs}"
  IO.println s!"STAT justice_inputs_executed={s.spendsPos}"
  IO.println s!"STAT htlc_inputs={s.htlcSpends}"
  IO.println s!"STAT second_level_inputs={s.secondLevel}"
  IO.println s!"STAT negatives_executed={s.spendsNeg}"
  IO.println s!"STAT negatives_rejected={s.negRejected}"
  IO.println s!"STAT model_verdicts_compared={s.modelChecked}"
  IO.println s!"STAT model_structure_compared={s.structChecked}"
  IO.println s!"STAT model_skipped_taproot_or_unsigned={s.modelSkipped}"
  IO.println s!"STAT hint_calls={s.hints}"
  IO.println s!"STAT templates_compared={s.templates}"
  IO.println s!"STAT mismatches={s.mismatches}"
  IO.println s!"STAT monitor_failures={s.monitorFails}"
