/-
C04 property theorems about the revocation-log bookkeeping (`revlog_matches_tx`).
Model: LndModel/C04/RevLog.lean (one commitment) and RevLogHist.lean (histories of
C01's channel state machine with a ghost revocation log).
-/
import LndModel.C04.RevLogHist

set_option linter.unusedSimpArgs false
set_option linter.unusedVariables false

namespace LndModel.C04.RevLog
open LndModel.C01

/-- **revlog_matches_tx.**  Start from any quiescent state of C01's channel state machine
    (no unacked remote commitment; the remote tail has the shape `buildCommit` gives it) and run
    ANY list of API operations (adds, settles, fails, fee updates, sign, receive-commit, revoke,
    receive-revocation, accepted or refused).  Then for every revoked remote height `h`
     * the revocation log holds exactly one entry for `h`,
     * exactly one remote commitment transaction was ever signed for height `h`, and
     * the entry matches THAT transaction (`Matches`): the recorded txid is its txid; the
       to-local / to-remote index names an output with the to_local / to_remote script and the
       recorded balance, or is `OutputIndexEmpty` and the transaction has no such output
       (balance below the dust limit); every HTLC entry names an output with the entry's amount,
       the HTLC script of its direction / hash (/ expiry) and its expiry; no two entries share an
       index and none collides with a commitment output.
    `enc` is any injective assignment of pkScripts to script classes (distinct scripts have
    distinct P2WSH / P2TR programs); the statement holds for every such assignment, i.e. for
    every BIP69 order the real bytes may induce. -/
theorem revlog_matches_tx (enc : SC → Nat) (henc : ∀ a b, enc a = enc b → a = b) (n0 : Node)
    (hs : Shape n0.cfg n0.chainR.tail) (hp : n0.chainR.pend = []) (ops : List Op) (h : Nat)
    (h1 : n0.chainR.tail.height ≤ h) (h2 : h < ((G.init n0).run enc ops).n.chainR.tail.height) :
    ∃ e sv, (h, some e) ∈ ((G.init n0).run enc ops).revlog ∧
      (∀ oe, (h, oe) ∈ ((G.init n0).run enc ops).revlog → oe = some e) ∧
      sv ∈ ((G.init n0).run enc ops).signed ∧ sv.height = h ∧
      (∀ sv' ∈ ((G.init n0).run enc ops).signed, sv'.height = h → sv' = sv) ∧
      Matches enc n0.cfg.dustR e (txOf enc sv.outs) := by
  have hI := ginv_run enc n0.cfg n0.chainR.tail.height (G.init n0) (ginv_init enc n0 hs hp) ops
  generalize (G.init n0).run enc ops = g at hI h2 ⊢
  have hmem : h ∈ g.revlog.map Prod.fst := by
    rw [hI.heights, List.mem_reverse, List.mem_range']
    exact ⟨h - n0.chainR.tail.height, by omega, by omega⟩
  obtain ⟨p, hpm, rfl⟩ := List.mem_map.mp hmem
  obtain ⟨cm, hsh, hh, hsg, hpe⟩ := hI.log p hpm
  obtain ⟨e, he, hm, _, _, _⟩ := entry_matches enc henc n0.cfg cm hsh
  have hnd : (g.revlog.map Prod.fst).Nodup := by
    rw [hI.heights]
    unfold List.Nodup
    rw [List.pairwise_reverse]
    exact (List.nodup_range' (s := n0.chainR.tail.height)
      (n := g.n.chainR.tail.height - n0.chainR.tail.height)).imp (fun h => Ne.symm h)
  refine ⟨e, cm.sigView, ?_, ?_, hsg, hh, ?_, hm⟩
  · have : p = (p.1, some e) := by rw [← he, ← hpe]
    rw [← this]; exact hpm
  · intro oe hoe
    have := map_fst_nodup_inj g.revlog hnd _ hoe _ hpm rfl
    rw [← this] at hpe
    simp only at hpe
    rw [hpe, he]
  · intro sv' hsv' hh'
    exact nodup_height_inj g.signed hI.uniq sv' hsv' cm.sigView hsg (by rw [hh', ← hh]; rfl)

/-- the log holds entries for revoked heights only (nothing is ever written for the current
    or a pending remote commitment), one per height, newest first. -/
theorem revlog_only_revoked (enc : SC → Nat) (n0 : Node)
    (hs : Shape n0.cfg n0.chainR.tail) (hp : n0.chainR.pend = []) (ops : List Op) :
    ((G.init n0).run enc ops).revlog.map Prod.fst =
      (List.range' n0.chainR.tail.height
        (((G.init n0).run enc ops).n.chainR.tail.height - n0.chainR.tail.height)).reverse :=
  (ginv_run enc n0.cfg n0.chainR.tail.height (G.init n0) (ginv_init enc n0 hs hp) ops).heights

/-- the ghost run is C01's node: `revlog_matches_tx` speaks about every state `Node.run` reaches. -/
theorem ghost_run_is_node_run (enc : SC → Nat) (n0 : Node) (ops : List Op) :
    ((G.init n0).run enc ops).n = n0.run ops := G.run_node enc (G.init n0) ops

/-- `OutputIndexEmpty` exactly when trimmed (for transactions with at most 65535 outputs; lnd caps
    a commitment at 2·483 HTLCs). -/
theorem output_index_empty_iff_trimmed {enc : SC → Nat} {dust : Nat} {e : RevEntry} {tx : List TxO}
    (m : Matches enc dust e tx) (hlen : tx.length ≤ outputIndexEmpty) :
    (e.theirIdx = outputIndexEmpty ↔ e.theirBal / 1000 < dust) ∧
    (e.ourIdx = outputIndexEmpty ↔ e.ourBal / 1000 < dust) := empty_iff_trimmed m hlen

/-- what `createBreachRetribution` derives from a matching entry, with the breach transaction
    (`spendTx.TxOut[idx].Value`) and without it (`OurBalance.ToSatoshis()`), is the same amount,
    and it is the value of the output the outpoint names. -/
theorem retribution_amounts_agree {enc : SC → Nat} {dust : Nat} {e : RevEntry} {tx : List TxO}
    (m : Matches enc dust e tx) :
    (dust ≤ e.ourBal / 1000 → (tx[e.ourIdx]?).map TxO.value = some (e.ourBal / 1000)) ∧
    (dust ≤ e.theirBal / 1000 → (tx[e.theirIdx]?).map TxO.value = some (e.theirBal / 1000)) ∧
    (∀ he ∈ e.htlcs, (tx[he.idx]?).map TxO.value = some he.amt) := by
  refine ⟨fun h => by rw [m.our_some h]; rfl, fun h => by rw [m.their_some h]; rfl, fun he hm => ?_⟩
  rw [m.htlc he hm]; rfl

/-! ### non-vacuity -/

def tri : Nat → Nat
  | 0 => 0
  | n + 1 => tri n + (n + 1)

theorem tri_mono {a b : Nat} (h : a ≤ b) : tri a ≤ tri b := by
  induction b with
  | zero => have : a = 0 := by omega
            subst this; exact Nat.le_refl _
  | succ k ih =>
    by_cases hk : a ≤ k
    · have := ih hk; simp only [tri]; omega
    · have : a = k + 1 := by omega
      subst this; exact Nat.le_refl _

/-- Cantor pairing. -/
def pair (a b : Nat) : Nat := tri (a + b) + b

theorem pair_lt {a b a' b' : Nat} (h : a + b < a' + b') : pair a b < pair a' b' := by
  have h1 : tri (a + b + 1) ≤ tri (a' + b') := tri_mono h
  simp only [tri] at h1
  unfold pair; omega

theorem pair_inj {a b a' b' : Nat} (h : pair a b = pair a' b') : a = a' ∧ b = b' := by
  have hs : a + b = a' + b' := by
    rcases Nat.lt_trichotomy (a + b) (a' + b') with h1 | h1 | h1
    · have := pair_lt h1; omega
    · exact h1
    · have := pair_lt h1; omega
  unfold pair at h
  rw [hs] at h
  omega

/-- a concrete injective script encoding. -/
def encStd : SC → Nat
  | .toLocal => 0
  | .toRemote => 1
  | .anchorLocal => 2
  | .anchorRemote => 3
  | .offered h => 4 + 2 * h
  | .received h c => 5 + 2 * pair h c

theorem encStd_inj : ∀ a b, encStd a = encStd b → a = b := by
  intro a b h
  cases a <;> cases b <;> simp only [encStd] at h <;> first | rfl | omega | skip
  · have : ‹Nat› = ‹Nat› := by omega
    rename_i x y; have : x = y := by omega
    rw [this]
  · rename_i x c y d
    have : pair x c = pair y d := by omega
    obtain ⟨rfl, rfl⟩ := pair_inj this
    rfl

def demoCfg : Cfg :=
  { capacity := 1000000, initiator := true, anchors := false, zeroFee := false, taproot := false,
    dustL := 546, dustR := 546, resL := 10000, resR := 10000, minL := 1, minR := 1,
    maxPendL := 1000000000, maxPendR := 1000000000, maxAccL := 483, maxAccR := 483 }
def demoCommit : Commit :=
  { height := 0, our := 499817000, their := 500000000, fee := 183, feePerKw := 253,
    ourMsg := 0, theirMsg := 0, ourHtlc := 0, theirHtlc := 0,
    outs := [⟨500000, .toLocal, 0, 0⟩, ⟨499817, .toRemote, 0, 0⟩] }
def demoNode : Node := { cfg := demoCfg, chainL := { tail := demoCommit }, chainR := { tail := demoCommit } }

theorem demo_shape : Shape demoNode.cfg demoNode.chainR.tail := by
  refine ⟨[], [], rfl, ?_, ?_, ?_⟩
  · intro h hh; cases hh
  · intro h hh; cases hh
  · decide

/-- the hypotheses of `revlog_matches_tx` are satisfiable with a non-trivial history: two HTLCs
    (one of them trimmed) are added, signed for and the previous state revoked, then one more
    round: heights 0 and 1 are revoked. -/
example :
    let ops : List Op := [.addHTLC 5000000 144 7, .addHTLC 300000 150 8, .sign, .receiveRevocation,
      .addHTLC 5000000 144 7, .sign, .receiveRevocation]
    demoNode.chainR.tail.height ≤ 1 ∧ 1 < ((G.init demoNode).run encStd ops).n.chainR.tail.height := by
  intro ops
  rw [ghost_run_is_node_run]
  decide

example := revlog_matches_tx encStd encStd_inj demoNode demo_shape rfl
  [.addHTLC 5000000 144 7, .addHTLC 300000 150 8, .sign, .receiveRevocation,
   .addHTLC 5000000 144 7, .sign, .receiveRevocation] 1 (by decide)
  (by rw [ghost_run_is_node_run]; decide)

end LndModel.C04.RevLog
