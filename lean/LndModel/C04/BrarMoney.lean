/-
C04 — money form of the breach-arbitrator accounting: `totalFunds` of updateBreachInfo is the sum of
the amounts of the outputs it removes from the slice (re-indexing of `ubi_total` from spends to
outputs), for one batch and over any number of batches.
-/
import LndModel.C04.BrarLifeProps
namespace LndModel.C04.BrarLife
open List

def sweptAtIdx (outs : List BO) (spends : List Spend) (i : Nat) : Nat :=
  match outs[i]?, spendAt spends i with
  | some bo, some s => sweptAmt bo s
  | _, _ => 0

theorem sum_map_add' (l : List Nat) (f g : Nat → Nat) :
    (l.map fun i => f i + g i).sum = (l.map f).sum + (l.map g).sum := by
  induction l with
  | nil => rfl
  | cons a l ih => simp only [List.map_cons, List.sum_cons, ih]; omega

theorem sum_map_zero {α : Type} (l : List α) : (l.map fun _ => 0).sum = 0 := by
  induction l with
  | nil => rfl
  | cons a l ih => simp only [List.map_cons, List.sum_cons, ih]

theorem sum_filterMap_amt (l : List Nat) (f : Nat → Option BO) (g : Nat → Nat)
    (h : ∀ i, g i = ((f i).map (·.amt)).getD 0) :
    ((l.filterMap f).map (·.amt)).sum = (l.map g).sum := by
  induction l with
  | nil => rfl
  | cons i l ih =>
    simp only [List.filterMap_cons, List.map_cons, List.sum_cons, h i]
    cases f i with
    | none => simpa using ih
    | some bo => simp only [List.map_cons, List.sum_cons, ih, Option.map_some, Option.getD_some]

theorem sum_indicator (n k c : Nat) (hk : k < n) :
    ((List.range n).map fun i => if i = k then c else 0).sum = c := by
  induction n with
  | zero => omega
  | succ n ih =>
    rw [List.range_succ, List.map_append, List.sum_append]
    by_cases h : k < n
    · rw [ih h]; have : n ≠ k := by omega
      simp [this]
    · have hk' : k = n := by omega
      subst hk'
      have : ((List.range k).map fun i => if i = k then c else 0) = (List.range k).map fun _ => 0 := by
        apply List.map_congr_left
        intro i hi
        have : i ≠ k := by have := List.mem_range.mp hi; omega
        simp [this]
      rw [this, sum_map_zero]; simp

theorem sum_sweptAtIdx (outs : List BO) (spends : List Spend) (hv : ValidBatch outs spends) :
    ((List.range outs.length).map (sweptAtIdx outs spends)).sum = (spends.map (sweptAt outs)).sum := by
  induction spends with
  | nil =>
    have : (List.range outs.length).map (sweptAtIdx outs []) = (List.range outs.length).map fun _ => 0 := by
      apply List.map_congr_left
      intro i _
      unfold sweptAtIdx spendAt
      cases outs[i]? <;> simp
    rw [this, sum_map_zero]; simp
  | cons s rest ih =>
    obtain ⟨hn, hb⟩ := hv
    simp only [List.map_cons, List.nodup_cons] at hn
    have hs : s.index < outs.length := hb s List.mem_cons_self
    have ih' := ih ⟨hn.2, fun t ht => hb t (List.mem_cons_of_mem _ ht)⟩
    have hpt : ∀ i ∈ List.range outs.length,
        sweptAtIdx outs (s :: rest) i = sweptAtIdx outs rest i + (if i = s.index then sweptAt outs s else 0) := by
      intro i _
      by_cases hi : s.index = i
      · have hnone : spendAt rest i = none := spendAt_none_of_not_mem (hi ▸ hn.1)
        have hsome : spendAt (s :: rest) i = some s := by simp [spendAt, hi]
        unfold sweptAtIdx sweptAt
        rw [hnone, hsome, hi]
        cases outs[i]? <;> simp
      · have hsame : spendAt (s :: rest) i = spendAt rest i := by simp [spendAt, hi]
        unfold sweptAtIdx
        rw [hsame]; simp [Ne.symm hi]
    rw [List.map_congr_left hpt, sum_map_add', ih', sum_indicator _ _ _ hs]
    simp only [List.map_cons, List.sum_cons]; omega

theorem doneOuts_sum (outs : List BO) (spends : List Spend) :
    ((doneOuts outs spends).map (·.amt)).sum = ((List.range outs.length).map (sweptAtIdx outs spends)).sum := by
  unfold doneOuts
  apply sum_filterMap_amt
  intro i
  unfold sweptAtIdx sweptAmt
  cases outs[i]? with
  | none => simp
  | some bo =>
    cases spendAt spends i with
    | none => simp
    | some s => by_cases hc : convertible bo s = true <;> simp [hc]

/-- in money terms: what a batch adds to `totalFunds` is the sum of the amounts of the outputs it
removes from the slice — nothing else, nothing twice -/
theorem ubi_total_swept (outs : List BO) (spends : List Spend) (hv : ValidBatch outs spends) :
    (ubi outs spends).total = ((doneOuts outs spends).map (·.amt)).sum := by
  rw [(ubi_total outs spends hv.1).1, doneOuts_sum, sum_sweptAtIdx outs spends hv]

theorem run_total_gen (batches : List (List Spend)) :
    ∀ (r : Run), ValidRun r.outs batches → r.total = (r.swept.map (·.amt)).sum →
      (batches.foldl runStep r).total = ((batches.foldl runStep r).swept.map (·.amt)).sum := by
  induction batches with
  | nil => intro r _ h; exact h
  | cons b bs ih =>
    intro r hv h
    obtain ⟨hb, hrest⟩ := hv
    rw [List.foldl_cons]
    apply ih
    · simpa [runStep] using hrest
    · simp only [runStep, List.map_append, List.sum_append, h, ubi_total_swept r.outs b hb]

/-- over any number of valid batches the accumulated `totalFunds` is exactly the sum of the amounts
(at the time of the sweep) of the outputs removed so far: with `run_none_double_counted`, every
breached output contributes at most once -/
theorem run_total_swept (outs : List BO) (batches : List (List Spend)) (hv : ValidRun outs batches) :
    (run outs batches).total = ((run outs batches).swept.map (·.amt)).sum :=
  run_total_gen batches ⟨outs, [], 0, 0⟩ hv rfl

example : (run demoOuts demoBatches).total = ((run demoOuts demoBatches).swept.map (·.amt)).sum := by decide

end LndModel.C04.BrarLife
