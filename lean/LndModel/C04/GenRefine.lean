/-
C04 — refinement of the regenerated state-hint arithmetic (LndModel.Gen.C04, produced by
tools/go2lean from lnwallet/transactions.go `SetStateNumHint` / `GetStateNumHint`) to the
hand-written model `LndModel.C04.Hint`, for ALL uint64 state numbers / obfuscators and all uint32
sequence / locktime values.

Bound in the spec (trusted): `binary.BigEndian.Uint64(obfs[:])` is the parameter `xorInt`,
`len(commitTx.TxIn)` is the parameter `numTxIn`; the results are the new values of
`commitTx.TxIn[0].Sequence` and `commitTx.LockTime`.
-/
import LndModel.Gen.C04
import LndModel.C04.Hint

namespace LndModel.C04.GenRefine
open LndModel.Gen LndModel.Gen.GoInt LndModel.C04.Hint

theorem maxStateHint_refines : Gen.C04.maxStateHint = (Hint.maxStateHint : Nat) := by
  simp only [Gen.C04.maxStateHint, Hint.maxStateHint]; rfl

theorem TimelockShift_refines : Gen.C04.TimelockShift = (Hint.timelockShift : Nat) := by
  simp only [Gen.C04.TimelockShift, Hint.timelockShift]; rfl

/-- `StateHintSize` bytes are exactly the 48 bits of `maxStateHint`. -/
theorem StateHintSize_refines : (2 : Int) ^ (8 * Gen.C04.StateHintSize).toNat - 1 = Gen.C04.maxStateHint := by
  decide

theorem xorU_cast (a b : Nat) : xorU a b = ((a ^^^ b : Nat) : Int) := by
  simp only [xorU, Int.toNat_natCast]
theorem orU_cast (a b : Nat) : orU a b = ((a ||| b : Nat) : Int) := by
  simp only [orU, Int.toNat_natCast]

/-- How the model's result is read as the Go result. -/
def setResult : Option (Nat × Nat) → Except Gen.C04.Err (Int × Int)
  | none => .error .stateTooLarge
  | some (s, l) => .ok ((s : Int), (l : Int))

/-- `SetStateNumHint` on a transaction with exactly one input: for every `uint64` state number and
    obfuscator value the regenerated definition is the model's `setHint`. -/
theorem SetStateNumHint_refines (state obf : Nat)
    (hs : state < 2 ^ 64) (ho : obf < 2 ^ 64) :
    Gen.C04.SetStateNumHint state 1 obf = setResult (Hint.setHint state obf) := by
  simp only [Gen.C04.SetStateNumHint, Hint.setHint, Hint.maxStateHint]
  by_cases h : state > 2 ^ 48 - 1
  · have h' : (state : Int) > 281474976710655 := by omega
    simp only [h, h', if_true, setResult]
  · have h' : ¬ (state : Int) > 281474976710655 := by omega
    have hx : state ^^^ obf < 2 ^ 64 := Nat.xor_lt_two_pow hs ho
    have e1 : wrapU32 (((state ^^^ obf : Nat) : Int) / 16777216)
        = ((u32 (u64 (state ^^^ obf) >>> 24) : Nat) : Int) := by
      simp only [wrapU32, u32, u64, Nat.shiftRight_eq_div_pow, Nat.mod_eq_of_lt hx]
      omega
    have e2 : wrapU32 (((state ^^^ obf : Nat) : Int) % 16777216)
        = ((u32 (u64 (state ^^^ obf) &&& mask24) : Nat) : Int) := by
      simp only [wrapU32, u32, u64, mask24, Nat.and_two_pow_sub_one_eq_mod, Nat.mod_eq_of_lt hx]
      omega
    have c1 : (2147483648 : Int) = ((seqLockTimeDisabled : Nat) : Int) := by
      simp only [seqLockTimeDisabled]; rfl
    have c2 : (536870912 : Int) = ((timelockShift : Nat) : Int) := by
      simp only [timelockShift]; rfl
    first
    | (simp only [h, h', if_false, ne_eq, not_true_eq_false, xorU_cast, e1, e2, c1, c2, orU_cast, setResult]; done)
    | (simp only [h, h', if_false, ne_eq, not_true_eq_false, xorU_cast, e1, e2, c1, c2, orU_cast, setResult,
        Nat.or_comm timelockShift, Nat.or_comm seqLockTimeDisabled, Nat.xor_comm obf]; done)  -- commuted operands

/-- The second guard: a transaction without exactly one input is rejected (after the state check). -/
theorem SetStateNumHint_inputs (state obf : Nat) (n : Int) (hn : n ≠ 1) (hs : state ≤ 2 ^ 48 - 1) :
    Gen.C04.SetStateNumHint state n obf = .error .notOneInput := by
  have h' : ¬ (state : Int) > 281474976710655 := by omega
  simp only [Gen.C04.SetStateNumHint, h', hn, if_false, if_true, ne_eq, not_false_eq_true]

/-- `GetStateNumHint`: for all `uint32` sequence / locktime and every `uint64` obfuscator value the
    regenerated definition is the model's `getHint`. -/
theorem GetStateNumHint_refines (sequence lockTime obf : Nat)
    (_hq : sequence < 2 ^ 32) (_hl : lockTime < 2 ^ 32) (_ho : obf < 2 ^ 64) :
    Gen.C04.GetStateNumHint sequence lockTime obf = (Hint.getHint sequence lockTime obf : Nat) := by
  have e1 : wrapU64 ((sequence : Int) % 16777216 * 16777216)
      = ((u64 ((sequence &&& mask24) <<< 24) : Nat) : Int) := by
    simp only [wrapU64, u64, mask24, Nat.and_two_pow_sub_one_eq_mod, Nat.shiftLeft_eq]
    omega
  have e2 : (lockTime : Int) % 16777216 = ((lockTime &&& mask24 : Nat) : Int) := by
    simp only [mask24, Nat.and_two_pow_sub_one_eq_mod]
    omega
  simp only [Gen.C04.GetStateNumHint, Hint.getHint, e1, e2, orU_cast, xorU_cast]

/-- Non-vacuity, on a non-trivial instance (state 2^47+5, obfuscator 0xABCDEF012345). -/
example := SetStateNumHint_refines 140737488355333 0xABCDEF012345 (by decide) (by decide)
example := GetStateNumHint_refines 0x80ABCDEF 0x20012345 0xABCDEF012345 (by decide) (by decide) (by decide)
example : Gen.C04.SetStateNumHint 281474976710656 1 7 = .error .stateTooLarge := rfl
example : Gen.C04.SetStateNumHint 5 1 6 = .ok (2147483648, 536870915) := rfl
example : Gen.C04.GetStateNumHint 2147483648 536870915 6 = 5 := by decide
example : Gen.C04.SetStateNumHint 5 2 7 = .error .notOneInput :=
  SetStateNumHint_inputs 5 7 2 (by omega) (by omega)

end LndModel.C04.GenRefine
