/-
C04 - the chain watcher recognises every revoked state (theorem side of Watch.lean).
-/
import LndModel.C04.Watch
import LndModel.C04.RevLogProps
import LndModel.C04.Props

set_option linter.unusedSimpArgs false
set_option linter.unusedVariables false

namespace LndModel.C04.Watch
open LndModel.C01 LndModel.C04.RevLog LndModel.C04.Hint

theorem findPrev_of_mem : ∀ (l : List (Nat × Option RevEntry)), (l.map Prod.fst).Nodup →
    ∀ h v, (h, v) ∈ l → findPrev l h = v := by
  intro l
  induction l with
  | nil => intro _ h v hm; cases hm
  | cons x xs ih =>
    intro hnd h v hm
    obtain ⟨k, w⟩ := x
    simp only [List.map_cons, List.nodup_cons] at hnd
    simp only [findPrev]
    rcases List.mem_cons.mp hm with he | hm
    · simp only [Prod.mk.injEq] at he
      obtain ⟨rfl, rfl⟩ := he
      simp
    · have hne : k ≠ h := by
        intro e; subst e
        exact hnd.1 (List.mem_map.mpr ⟨(k, v), hm, rfl⟩)
      rw [if_neg hne]
      exact ih hnd.2 h v hm

/-- the watcher's state derived from the (ghost) channel state. -/
def watchOf (obf : Nat) (g : G) : WState :=
  { obf := obf, remote := g.n.chainR.tail.sigView, pending := g.n.chainR.pend.head?.map Commit.sigView,
    revlog := g.revlog }

/-- **revoked_state_recognised.**  In every state C01's channel state machine reaches (any
    operation list from a quiescent start), for every revoked remote height `h ≤ 2^48-1` and
    every 48-bit obfuscator: the (unique) transaction signed for `h`, carrying the state hint
    `SetStateNumHint` wrote for `h`, is classified by the watcher's decision path as a breach
    of exactly state `h`, and the log entry the retribution is built from matches that
    transaction (`RevLog.Matches`: indexes, amounts, scripts, HTLC entries, txid). -/
theorem revoked_state_recognised (enc : SC → Nat) (henc : ∀ a b, enc a = enc b → a = b) (n0 : Node)
    (hs : Shape n0.cfg n0.chainR.tail) (hp : n0.chainR.pend = []) (ops : List Op) (h obf : Nat)
    (h1 : n0.chainR.tail.height ≤ h) (h2 : h < ((G.init n0).run enc ops).n.chainR.tail.height)
    (hmax : h ≤ maxStateHint) (hobf : obf < 2 ^ 48) :
    ∃ e sv sequence lockTime, sv ∈ ((G.init n0).run enc ops).signed ∧ sv.height = h ∧
      setHint h obf = some (sequence, lockTime) ∧
      recognise enc (watchOf obf ((G.init n0).run enc ops)) ⟨sv, sequence, lockTime, false⟩ = .breach h e ∧
      Matches enc n0.cfg.dustR e (txOf enc sv.outs) := by
  obtain ⟨e, sv, hmem, _, hsg, hh, _, hm⟩ := revlog_matches_tx enc henc n0 hs hp ops h h1 h2
  obtain ⟨sq, lk, hset, hget⟩ := Props.hint_roundtrip h obf hmax hobf
  have hI := ginv_run enc n0.cfg n0.chainR.tail.height (G.init n0) (ginv_init enc n0 hs hp) ops
  generalize (G.init n0).run enc ops = g at hI h2 hmem hsg ⊢
  refine ⟨e, sv, sq, lk, hsg, hh, hset, ?_, hm⟩
  have hnd : (g.revlog.map Prod.fst).Nodup := by
    rw [hI.heights]
    unfold List.Nodup
    rw [List.pairwise_reverse]
    exact (List.nodup_range' (s := n0.chainR.tail.height)
      (n := g.n.chainR.tail.height - n0.chainR.tail.height)).imp (fun h => Ne.symm h)
  have hfind := findPrev_of_mem g.revlog hnd h (some e) hmem
  -- the transaction is neither the current nor the pending remote commitment: its height is lower
  have hne1 : sv ≠ g.n.chainR.tail.sigView := by
    intro he
    have : sv.height = g.n.chainR.tail.height := by rw [he]; rfl
    omega
  have hne2 : g.n.chainR.pend.head?.map Commit.sigView ≠ some sv := by
    rcases hI.pend with hnil | ⟨c, hc, hch, _, _⟩
    · rw [hnil]; simp
    · rw [hc]
      simp only [List.head?_cons, Option.map_some, ne_eq, Option.some.injEq]
      intro he
      have : sv.height = c.height := by rw [← he]; rfl
      omega
  unfold recognise watchOf
  simp only [hget, hfind, hne1, hne2, Bool.false_eq_true, if_false, hm.txid, if_true]

/-- a transaction whose decoded state number has no log entry (the current or a future remote
    state, or garbage) is never classified as a breach. -/
theorem unlogged_state_not_breach (enc : SC → Nat) (w : WState) (tx : BTx)
    (h : findPrev w.revlog (getHint tx.sequence tx.lockTime w.obf) = none) :
    ∀ s e, recognise enc w tx ≠ .breach s e := by
  intro s e
  unfold recognise
  simp only [h]
  split
  · intro hc; cases hc
  · split
    · intro hc; cases hc
    · split <;> intro hc <;> cases hc

/-- the facts-only decision used by the driver agrees with `recognise` on breach verdicts. -/
theorem recogniseFacts_spec (enc : SC → Nat) (w : WState) (tx : BTx) (s : Nat) (e : RevEntry)
    (h : recognise enc w tx = .breach s e) :
    recogniseFacts w.obf tx.sequence tx.lockTime tx.isLocal (decide (tx.view = w.remote))
      (decide (w.pending = some tx.view)) (fun k => (findPrev w.revlog k).isSome)
      (decide (e.txid = txOf enc tx.view.outs)) = some s := by
  unfold recognise at h
  unfold recogniseFacts
  by_cases h1 : tx.isLocal = true
  · simp [h1] at h
  · by_cases h2 : tx.view = w.remote
    · simp [h1, h2] at h
    · by_cases h3 : w.pending = some tx.view
      · simp [h1, h2, h3] at h
      · simp only [h1, h2, h3, if_false] at h
        cases hf : findPrev w.revlog (getHint tx.sequence tx.lockTime w.obf) with
        | none => rw [hf] at h; cases h
        | some e' =>
          rw [hf] at h
          simp only [Bool.false_eq_true, if_false] at h
          by_cases ht : e'.txid = txOf enc tx.view.outs
          · rw [if_pos ht] at h
            simp only [Verdict.breach.injEq] at h
            obtain ⟨rfl, rfl⟩ := h
            simp [h1, h2, h3, hf, ht]
          · rw [if_neg ht] at h; cases h

/-- non-vacuity: the hypotheses of `revoked_state_recognised` hold for a concrete history. -/
example := revoked_state_recognised encStd encStd_inj demoNode demo_shape rfl
  [.addHTLC 5000000 144 7, .sign, .receiveRevocation] 0 0xAABBCCDDEEFF (by decide)
  (by rw [ghost_run_is_node_run]; decide) (by decide) (by decide)

end LndModel.C04.Watch
