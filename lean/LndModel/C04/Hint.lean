/-
C04 layer (a): the state-number hint of lnwallet/transactions.go
(`SetStateNumHint` / `GetStateNumHint`), modelled exactly on the 64-bit state
number and the 32-bit `sequence` / `locktime` fields.  Core Lean only.
-/
namespace LndModel.C04.Hint

/-- `maxStateHint = (1 << 48) - 1`. -/
def maxStateHint : Nat := 2 ^ 48 - 1
/-- `TimelockShift = 1 << 29`. -/
def timelockShift : Nat := 2 ^ 29
/-- `wire.SequenceLockTimeDisabled = 1 << 31`. -/
def seqLockTimeDisabled : Nat := 2 ^ 31
/-- mask `0xFFFFFF`. -/
def mask24 : Nat := 2 ^ 24 - 1

/-- truncation of a Go `uint64` to `uint32`. -/
def u32 (x : Nat) : Nat := x % 2 ^ 32
/-- Go `uint64` wrap (only used to state that nothing wraps). -/
def u64 (x : Nat) : Nat := x % 2 ^ 64

/-- The 6 obfuscator bytes copied into `obfs[2:]` of an 8 byte big-endian word:
    `xorInt = Σ bᵢ·256^(5-i) < 2^48`. -/
def xorInt (obf : List Nat) : Nat :=
  (obf.take 6).foldl (fun acc b => acc * 256 + b % 256) 0

/-- `SetStateNumHint`: `none` is the error return (state above `maxStateHint`);
    otherwise the new `(sequence, lockTime)` of the commitment transaction. -/
def setHint (state obf : Nat) : Option (Nat × Nat) :=
  if state > maxStateHint then none
  else
    let x := u64 (state ^^^ obf)
    some (u32 (x >>> 24) ||| seqLockTimeDisabled, u32 (x &&& mask24) ||| timelockShift)

/-- `GetStateNumHint`. -/
def getHint (sequence lockTime obf : Nat) : Nat :=
  let hi := u64 ((sequence &&& mask24) <<< 24)
  (hi ||| (lockTime &&& mask24)) ^^^ obf

end LndModel.C04.Hint
