/-
Parsing of the harness's rendered scripts / witnesses and the script-template
table, shared by the C04 and C05 drivers.  Core Lean only.
-/
import LndModel.Prelude.Lines
import LndModel.C04.Script

open LndModel LndModel.Lines LndModel.C04.Script

namespace LndModel.C04.Parse

/-! ### parsing the rendered scripts / witnesses (shared with the C05 driver) -/

def nodeOf (s : String) : Nat := if s == "B" then 1 else 0

def roleOf (s : String) : Option Nat :=
  match s with
  | "ms" => some roleMs | "rev" => some roleRev | "pay" => some rolePay
  | "delay" => some roleDelay | "htlc" => some roleHtlc | _ => none

/-- `bs:A.pay`, `tw:B.htlc`, `rv:A.rev`, anything else is a named key. -/
def parseKey (s : String) : Key :=
  match s.splitOn ":" with
  | [kind, rest] =>
    match rest.splitOn "." with
    | [nd, role] =>
      match roleOf role, kind with
      | some r, "bs" => .base (nodeOf nd) r
      | some r, "tw" => .single (nodeOf nd) r
      | some r, "rv" => .double (nodeOf nd) r
      | _, _ => .named s
    | _ => .named s
  | _ => .named s

def stripBr (t : String) : String := ((t.drop 1).dropRight 1).toString

def parseOp (t : String) : Option Op :=
  match t with
  | "OP_IF" => some .opIf | "OP_NOTIF" => some .opNotIf | "OP_ELSE" => some .opElse
  | "OP_ENDIF" => some .opEndIf | "OP_DUP" => some .dup | "OP_SWAP" => some .swap
  | "OP_DROP" => some .drop | "OP_SIZE" => some .size | "OP_IFDUP" => some .ifdup
  | "OP_EQUAL" => some .equal | "OP_EQUALVERIFY" => some .equalVerify
  | "OP_HASH160" => some .hash160 | "OP_CHECKSIG" => some .checkSig
  | "OP_CHECKSIGVERIFY" => some .checkSigVerify | "OP_CHECKMULTISIG" => some .checkMultiSig
  | "OP_CHECKSEQUENCEVERIFY" => some .csv | "OP_CHECKLOCKTIMEVERIFY" => some .cltv
  | "OP_VERIFY" => some .verify
  | "[rip:h]" => some (.push (.h160 (.pre 0)))
  | "[rip:x]" => some (.push (.h160 (.pre 1)))
  | _ =>
    if t.startsWith "OP_" then (t.drop 3).toString.toNat?.map fun v => .push (.num v)
    else if t.startsWith "num:" then (t.drop 4).toString.toNat?.map fun v => .push (.num v)
    else if t.startsWith "[h160(" then
      some (.push (.h160 (.key (parseKey ((t.drop 6).dropRight 2).toString))))
    else if t.startsWith "[data:" then
      ((t.drop 6).dropRight 1).toString.toNat?.map fun v => .push (.bytes v 0)
    else if t.startsWith "[" then some (.push (.key (parseKey (stripBr t))))
    else none

def parseScript (s : String) : Option (List Op) :=
  if s == "-" then some [] else (s.splitOn ",").mapM parseOp

def parseWitItem (t : String) : Option Item :=
  if t == "empty" then some (.num 0)
  else if t.startsWith "sig(" then
    match (stripBr (t.drop 3).toString).splitOn ";" with
    | [k, ht] => ht.toNat?.map fun h => .sig (parseKey k) h .final
    | _ => none
  else if t.startsWith "key(" then some (.key (parseKey (stripBr (t.drop 3).toString)))
  else if t == "pre(h)" then some (.pre 0)
  else if t == "pre(x)" then some (.pre 1)
  else if t.startsWith "data" then (t.drop 4).toString.toNat?.map fun v => .bytes v 1
  else if t.startsWith "b" then (hexNat? (t.drop 1).toString).map fun v => .num v
  else none

def parseWitness (s : String) : Option (List Item) :=
  if s == "-" then some [] else (s.splitOn ",").mapM parseWitItem

/-- engine verdict: some true = accepted, some false = rejected, none = not executed -/
def engineVerdict (s : String) : Option Bool :=
  if s == "ok" then some true else if s.startsWith "fail" then some false else none

def resOf (ws : List String) : String :=
  match ws.dropWhile (· ≠ "=>") with
  | _ :: r :: _ => r
  | _ => "?"

def kvS (ws : List String) (k : String) : String := (kv? ws k).getD ""
def kvN (ws : List String) (k : String) : Nat := (kvNat? ws k).getD 0

/-- the P2WKH program `OP_0 <hash160>` -/
def p2wkhProgram (k : Key) : List Op := [n 0, .push (.h160 (.key k))]

/-- model templates by constructor name, as called by the harness
    (`K1`,`K2`,`K3` placeholders, payment hash `h`). -/
def template (ctor : String) (csv cltv : Nat) (conf : Bool) : Option (List (List Op)) :=
  let k1 := Key.named "K1"; let k2 := Key.named "K2"; let k3 := Key.named "K3"
  let ph := Item.h160 (.pre 0)
  match ctor with
  | "SenderHTLCScript" => some [senderHTLC k1 k2 k3 ph conf]
  | "ReceiverHTLCScript" => some [receiverHTLC cltv k1 k2 k3 ph conf]
  | "SecondLevelHtlcScript" => some [delayOrRevoke k3 k1 csv]
  | "LeaseSecondLevelHtlcScript" => some [leaseDelayOrRevoke k3 k1 csv cltv]
  | "CommitScriptToSelf" => some [delayOrRevoke k3 k1 csv]
  | "LeaseCommitScriptToSelf" => some [leaseDelayOrRevoke k3 k1 csv cltv]
  | "CommitScriptUnencumbered" => some [p2wkhProgram k1]
  | "CommitScriptToRemoteConfirmed" => some [toRemoteConfirmed k1]
  | "LeaseCommitScriptToRemoteConfirmed" => some [leaseToRemoteConfirmed k1 cltv]
  | "CommitScriptAnchor" => some [anchor k1]
  | "GenMultiSigScript" => some [multiSig k1 k2, multiSig k2 k1]   -- keys are byte-sorted
  | _ => none

/-- the first number pushed right before an OP_CHECKLOCKTIMEVERIFY -/
def findCltv : List Op → Nat
  | .push (.num v) :: .cltv :: _ => v
  | _ :: rest => findCltv rest
  | [] => 0

/-- the payment-hash item used by an HTLC script -/
def findPayHash (ops : List Op) : Item :=
  match ops.find? (fun o => match o with
      | .push (.h160 (.pre _)) => true | _ => false) with
  | some (.push i) => i
  | _ => .h160 (.pre 0)


/-- `v:A,h:3,m:live/tx` -/
def ctxField (ctx key : String) : String :=
  ((ctx.splitOn ",").findSome? fun w =>
    match w.splitOn ":" with
    | [k, v] => if k == key then some v else none
    | _ => none).getD ""

def hexBytesNat (s : String) : List Nat := (hexBytes? s).getD []

end LndModel.C04.Parse
