/-
C04 helper lemmas: bit-level facts for the state hint and a few unfolding
lemmas for the script interpreter.  Core Lean only.
-/
import LndModel.C04.Model

namespace LndModel.C04.Hint

/-- Splitting a 48-bit word into the two 24-bit halves stored in `sequence` and
    `lockTime` and reassembling it. -/
theorem split_join (x : Nat) (hx : x < 2 ^ 48) :
    getHint (u32 (x >>> 24) ||| seqLockTimeDisabled) (u32 (x &&& mask24) ||| timelockShift) 0 = x := by
  unfold getHint u32 u64 seqLockTimeDisabled timelockShift mask24
  have hhi : x >>> 24 < 2 ^ 24 := by
    rw [Nat.shiftRight_eq_div_pow]; omega
  have hlo : x &&& (2 ^ 24 - 1) = x % 2 ^ 24 := Nat.and_two_pow_sub_one_eq_mod x 24
  have hlo' : x % 2 ^ 24 < 2 ^ 24 := Nat.mod_lt _ (by decide)
  have h1 : (x >>> 24) % 2 ^ 32 = x >>> 24 := Nat.mod_eq_of_lt (by omega)
  have h2 : (x >>> 24) ||| 2 ^ 31 = 2 ^ 31 * 1 + (x >>> 24) := by
    rw [Nat.or_comm]
    have := Nat.two_pow_add_eq_or_of_lt (i := 31) (b := x >>> 24) (by omega) 1
    simpa using this.symm
  have h3 : ((x >>> 24) ||| 2 ^ 31) &&& (2 ^ 24 - 1) = x >>> 24 := by
    rw [Nat.and_two_pow_sub_one_eq_mod, h2]; omega
  have h4 : (x &&& (2 ^ 24 - 1)) % 2 ^ 32 = x % 2 ^ 24 := by
    rw [hlo]; exact Nat.mod_eq_of_lt (by omega)
  have h5 : (x % 2 ^ 24) ||| 2 ^ 29 = 2 ^ 29 * 1 + x % 2 ^ 24 := by
    rw [Nat.or_comm]
    have := Nat.two_pow_add_eq_or_of_lt (i := 29) (b := x % 2 ^ 24) (by omega) 1
    simpa using this.symm
  have h6 : ((x % 2 ^ 24) ||| 2 ^ 29) &&& (2 ^ 24 - 1) = x % 2 ^ 24 := by
    rw [Nat.and_two_pow_sub_one_eq_mod, h5]; omega
  simp only [h1, h3, h4, h6, Nat.xor_zero]
  have h7 : (x >>> 24) <<< 24 < 2 ^ 64 := by
    rw [Nat.shiftLeft_eq]; omega
  rw [Nat.mod_eq_of_lt h7, ← Nat.shiftLeft_add_eq_or_of_lt hlo', Nat.shiftLeft_eq,
    Nat.shiftRight_eq_div_pow]
  omega

theorem getHint_xor (s l obf : Nat) : getHint s l obf = getHint s l 0 ^^^ obf := by
  simp [getHint]

/-- the sequence field written by `setHint`: the high half plus bit 31. -/
theorem seq_field (x : Nat) (hx : x < 2 ^ 48) :
    u32 (x >>> 24) ||| seqLockTimeDisabled = 2 ^ 31 + x / 2 ^ 24 := by
  unfold u32 seqLockTimeDisabled
  have hhi : x >>> 24 < 2 ^ 24 := by
    rw [Nat.shiftRight_eq_div_pow]; omega
  rw [Nat.mod_eq_of_lt (by omega), Nat.or_comm]
  have := Nat.two_pow_add_eq_or_of_lt (i := 31) (b := x >>> 24) (by omega) 1
  rw [Nat.mul_one] at this
  rw [Nat.shiftRight_eq_div_pow] at *
  omega

/-- the locktime field written by `setHint`: the low half plus `TimelockShift`. -/
theorem lock_field (x : Nat) :
    u32 (x &&& mask24) ||| timelockShift = 2 ^ 29 + x % 2 ^ 24 := by
  unfold u32 timelockShift mask24
  rw [Nat.and_two_pow_sub_one_eq_mod]
  have hlo' : x % 2 ^ 24 < 2 ^ 24 := Nat.mod_lt _ (by decide)
  rw [Nat.mod_eq_of_lt (by omega), Nat.or_comm]
  have := Nat.two_pow_add_eq_or_of_lt (i := 29) (b := x % 2 ^ 24) (by omega) 1
  rw [Nat.mul_one] at this
  omega

theorem xorInt_lt_aux (l : List Nat) (acc k : Nat) (hk : l.length ≤ k) (hacc : acc < 256 ^ (6 - k))
    (hk6 : k ≤ 6) :
    l.foldl (fun acc b => acc * 256 + b % 256) acc < 256 ^ (6 - k + l.length) := by
  induction l generalizing acc k with
  | nil => simpa using hacc
  | cons b t ih =>
    simp only [List.foldl_cons, List.length_cons] at *
    have hb : b % 256 < 256 := Nat.mod_lt _ (by decide)
    have hk1 : 1 ≤ k := by omega
    have h2 : acc * 256 + b % 256 < 256 ^ (6 - (k - 1)) := by
      have : 6 - (k - 1) = (6 - k) + 1 := by omega
      rw [this, Nat.pow_succ]
      have : acc + 1 ≤ 256 ^ (6 - k) := hacc
      calc acc * 256 + b % 256 < (acc + 1) * 256 := by omega
        _ ≤ 256 ^ (6 - k) * 256 := Nat.mul_le_mul_right _ this
    have := ih (acc * 256 + b % 256) (k - 1) (by omega) h2 (by omega)
    have e : 6 - (k - 1) + t.length = 6 - k + (t.length + 1) := by omega
    rw [e] at this
    exact this

/-- the obfuscator word built from (at most) 6 bytes is a 48-bit number. -/
theorem xorInt_lt (obf : List Nat) : xorInt obf < 2 ^ 48 := by
  unfold xorInt
  have hlen : (obf.take 6).length ≤ 6 := by simp [List.length_take]; omega
  have := xorInt_lt_aux (obf.take 6) 0 6 hlen (by decide) (by decide)
  have h2 : (256 : Nat) ^ (6 - 6 + (obf.take 6).length) ≤ 256 ^ 6 :=
    Nat.pow_le_pow_right (by decide) (by omega)
  have h3 : (256 : Nat) ^ 6 = 2 ^ 48 := by decide
  omega

end LndModel.C04.Hint

set_option linter.unusedSimpArgs false

namespace LndModel.C04.Script

theorem runOps_append (c : Ctx) (a b : List Op) (s : State) :
    runOps c (a ++ b) s = (runOps c a s).bind (runOps c b) := by
  induction a generalizing s with
  | nil => simp [runOps]
  | cons op ops ih =>
    simp only [List.cons_append, runOps]
    cases step c op s with
    | none => simp
    | some s' => simp [ih]

/-- a final OP_CHECKSIG against key `k` succeeds only on exactly one signature by
    `k` that commits to the transaction. -/
theorem checksig_final (c : Ctx) (k : Key) (rest : Stack)
    (h : accepts (runOps c [.checkSig] { stack := .key k :: rest, cond := [] }) = true) :
    ∃ ht o, rest = [.sig k ht o] ∧ sigOk c ht o = true := by
  match rest with
  | [] => simp [runOps, step, exec, opCheckSig, accepts] at h
  | sg :: rest' =>
    cases sg with
    | num m =>
      cases m with
      | zero =>
        cases rest' <;> simp [runOps, step, exec, opCheckSig, sigCheck, accepts, truthy] at h
      | succ m => simp [runOps, step, exec, opCheckSig, sigCheck, accepts] at h
    | sig k' ht o =>
      by_cases hk : k' = k ∧ sigOk c ht o = true
      · obtain ⟨rfl, hok⟩ := hk
        cases rest' with
        | nil => exact ⟨ht, o, rfl, hok⟩
        | cons y ys => simp [runOps, step, exec, opCheckSig, sigCheck, accepts, hok] at h
      · simp [runOps, step, exec, opCheckSig, sigCheck, accepts, hk] at h
    | _ => simp [runOps, step, exec, opCheckSig, sigCheck, accepts] at h

theorem delayOrRevoke_split (rev delay : Key) (csv : Nat) :
    delayOrRevoke rev delay csv =
      [.opIf, pk rev, .opElse, n csv, .csv, .drop, pk delay, .opEndIf] ++ [.checkSig] := rfl

theorem excl_stack (c : Ctx) (rev delay : Key) (csv : Nat) (st : Stack)
    (h : accepts (runOps c (delayOrRevoke rev delay csv) { stack := st, cond := [] }) = true) :
    (∃ ht o, st = [.num 1, .sig rev ht o] ∧ sigOk c ht o = true) ∨
    (∃ ht o, st = [.num 0, .sig delay ht o] ∧ sigOk c ht o = true ∧ csvOk c csv = true) := by
  rw [delayOrRevoke_split, runOps_append] at h
  match st with
  | [] => simp [runOps, step, exec, opIfE, accepts] at h
  | x :: rest =>
    cases x with
    | num k =>
      match k with
      | 0 =>
        right
        by_cases hc : csvOk c csv = true
        · have e : runOps c [.opIf, pk rev, .opElse, n csv, .csv, .drop, pk delay, .opEndIf]
              { stack := .num 0 :: rest, cond := [] } = some { stack := .key delay :: rest, cond := [] } := by
            simp [runOps, step, exec, skip, opIfE, opElseE, opEndIfE, opCsv, opDrop, ifArg, pk, n, hc]
          rw [e] at h
          obtain ⟨ht, o, hr, hok⟩ := checksig_final c delay rest h
          exact ⟨ht, o, by rw [hr], hok, hc⟩
        · have e : runOps c [.opIf, pk rev, .opElse, n csv, .csv, .drop, pk delay, .opEndIf]
              { stack := .num 0 :: rest, cond := [] } = none := by
            simp [runOps, step, exec, skip, opIfE, opElseE, opEndIfE, opCsv, opDrop, ifArg, pk, n, hc]
          rw [e] at h
          simp [accepts] at h
      | 1 =>
        left
        have e : runOps c [.opIf, pk rev, .opElse, n csv, .csv, .drop, pk delay, .opEndIf]
            { stack := .num 1 :: rest, cond := [] } = some { stack := .key rev :: rest, cond := [] } := by
          simp [runOps, step, exec, skip, opIfE, opElseE, opEndIfE, opCsv, opDrop, ifArg, pk, n]
        rw [e] at h
        obtain ⟨ht, o, hr, hok⟩ := checksig_final c rev rest h
        exact ⟨ht, o, by rw [hr], hok⟩
      | k + 2 => simp [runOps, step, exec, opIfE, ifArg, accepts] at h
    | _ => simp [runOps, step, exec, opIfE, ifArg, accepts] at h

end LndModel.C04.Script
