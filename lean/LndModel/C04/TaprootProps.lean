/-
C04 - justice on simple-taproot channels, every output kind (theorem side of Taproot.lean).
-/
import LndModel.C04.Taproot
import LndModel.C04.Lemmas

set_option linter.unusedSimpArgs false

namespace LndModel.C04.Tap
open LndModel.C04 LndModel.C04.Script

theorem csvOk_one_tap (l : Nat) :
    csvOk { version := 2, sequence := 1, lockTime := l, tapscript := true } 1 = true := by
  simp [csvOk, seqDisable, seqTypeFlag, seqMask]

/-- **justice_taproot_valid**: for simple-taproot channels (staging and final scripts), every victim
    role and CSV delay, and EVERY output kind - to_local (script path, revocation leaf, control
    block with the NUMS key and the delay leaf as sibling), own to_remote (script path, CSV-1 leaf),
    offered / received HTLC and second-level output (key path: the signer derives the
    double-tweaked revocation key and applies the tap tweak of the rebuilt tree) - the spend the
    breach arbitrator presents satisfies the taproot commitment and the leaf script. -/
theorem justice_taproot_valid (r : Revoked) (k : OutKind) (cltv : Nat) (payHash : Item)
    (ht : r.ct.taproot = true) : justiceOk r k cltv payHash = true := by
  obtain ⟨⟨tweakless, anchors, lease, taproot, tfinal⟩, victim, vinit, csv, lexp⟩ := r
  simp only at ht
  subst ht
  cases k <;> cases tweakless <;> cases tfinal <;>
    simp [justiceOk, outOf, toLocalOut, toRemoteOut, htlcAccOut, htlcOffOut, secondLevelOut, scriptPathOk,
      keyPathOk, rootFrom, nums, Revoked.tapCtx, Revoked.tapWitness, Revoked.sequence, Revoked.signDesc,
      SignDesc.signer, Revoked.revocationKey, Revoked.toLocalKey, Revoked.toRemoteKey, Revoked.cheater,
      tapRevokeLeaf, tapDelayLeaf, run, runOps, step, exec, opDrop, opCheckSig, opCheckSigVerify, opCsv, pk, n,
      sigCheck, sigOk, sigHashDefined, sigCommits, sigHashDefault, accepts, truthy, csvOk_one_tap]

/-- the tap tweak matters: a key-path signature made with the bare revocation key (descriptor
    without `TapTweak`, or with the root of another tree) does not spend the output. -/
theorem key_path_needs_tap_tweak (c : Ctx) (o : TapOut) (s : KeySig) (h : s.root ≠ o.tree) :
    keyPathOk c o s = false := by
  simp [keyPathOk, h]

/-- the key matters: only the internal key's holder can use the key path; in particular nobody can
    key-path spend the commitment outputs (internal key = NUMS point, whose secret is unknown to
    every channel key term). -/
theorem key_path_needs_internal_key (c : Ctx) (o : TapOut) (s : KeySig) (h : s.base ≠ o.internal) :
    keyPathOk c o s = false := by
  simp [keyPathOk, h]

theorem commitment_outputs_have_no_key_path (c : Ctx) (r : Revoked) (s : KeySig)
    (h : ∀ name, s.base ≠ .named name) :
    keyPathOk c (toLocalOut r) s = false ∧ keyPathOk c (toRemoteOut r) s = false :=
  ⟨key_path_needs_internal_key c _ s (h _), key_path_needs_internal_key c _ s (h _)⟩

/-- a script-path spend must present a leaf of the committed tree: with a control block whose
    recomputed root differs, the spend fails whatever the stack. -/
theorem script_path_needs_committed_leaf (c : Ctx) (o : TapOut) (leaf : List Op) (cb : ControlBlock)
    (st : List Item) (h : some (rootFrom (.leaf leaf) cb.path) ≠ o.tree) :
    scriptPathOk c o leaf cb st = false := by
  simp [scriptPathOk, h]

example : justiceOk ⟨{ taproot := true, anchors := true }, 0, true, 144, 0⟩ .htlcOff 700144 (.h160 (.pre 7)) = true := by
  decide

end LndModel.C04.Tap
