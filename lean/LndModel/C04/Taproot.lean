/-
C04 - simple-taproot channels: the taproot commitment itself (BIP341), symbolically.

A taproot output commits to an internal key and (optionally) a script tree; the output key is
`TapTweak(internal, root)`, an injective function of both.  Spending rules:
 * key path: a single Schnorr signature that verifies under the OUTPUT key - i.e. made by a
   signer who holds the internal key's secret AND applies the tweak for exactly that root
   (lnd: `SignDescriptor{SignMethod: TaprootKeySpendSignMethod, TapTweak: root}`);
 * script path: `stack… <leaf script> <control block>`: the control block names an internal key
   and the sibling path; the root recomputed from the leaf and the path, tweaked onto that
   internal key, must give the output key; then the leaf runs under tapscript rules.
lnd's trees (input/script_utils.go, `NewLocalCommitScriptTree`, `NewRemoteCommitScriptTree`,
`SenderHTLCScriptTaproot`, `ReceiverHTLCScriptTaproot`, `SecondLevelHtlcTapscriptTree`):
 to_local   : internal = NUMS,           tree = {delay leaf, revoke leaf}     -> justice: script path (revoke leaf)
 to_remote  : internal = NUMS,           tree = {CSV-1 leaf}                  -> justice: script path
 HTLC       : internal = revocation key, tree = {timeout leaf, success leaf}  -> justice: KEY path
 2nd level  : internal = revocation key, tree = {delay leaf}                  -> justice: KEY path
Core Lean only.
-/
import LndModel.C04.Model

set_option linter.unusedSimpArgs false

namespace LndModel.C04.Tap
open LndModel.C04 LndModel.C04.Script

/-- a tapscript tree; the Merkle root is an injective function of the tree (tagged hashes). -/
inductive Tree where
  | leaf (s : List Op)
  | node (l r : Tree)
deriving DecidableEq, Repr

structure TapOut where
  internal : Key
  tree : Option Tree
deriving DecidableEq, Repr

/-- the key a key-path signature is made with: the secret of `base`, tweaked for `root`. -/
structure KeySig where
  base : Key
  root : Option Tree
  hashType : Nat
  over : SigOver
deriving DecidableEq, Repr

/-- key-path spend (witness = one signature, no annex). -/
def keyPathOk (c : Ctx) (o : TapOut) (s : KeySig) : Bool :=
  decide (s.base = o.internal) && decide (s.root = o.tree) && sigOk { c with tapscript := true } s.hashType s.over

/-- control block: internal key and the sibling subtrees from the leaf upwards
    (`true` = the sibling is the right child). -/
structure ControlBlock where
  internal : Key
  path : List (Bool × Tree)
deriving DecidableEq, Repr

def rootFrom : Tree → List (Bool × Tree) → Tree
  | t, [] => t
  | t, (true, sib) :: rest => rootFrom (.node t sib) rest
  | t, (false, sib) :: rest => rootFrom (.node sib t) rest

/-- script-path spend. -/
def scriptPathOk (c : Ctx) (o : TapOut) (leaf : List Op) (cb : ControlBlock) (stack : List Item) : Bool :=
  decide (cb.internal = o.internal) && decide (some (rootFrom (.leaf leaf) cb.path) = o.tree) &&
    run { c with tapscript := true } leaf stack

def nums : Key := .named "TaprootNUMSKey"

/-! ### the outputs of a revoked simple-taproot commitment, as the victim reconstructs them -/

def toLocalOut (r : Revoked) : TapOut :=
  { internal := nums,
    tree := some (.node (.leaf (tapDelayLeaf r.ct.taprootFinal r.toLocalKey r.csv))
                        (.leaf (tapRevokeLeaf r.toLocalKey r.revocationKey))) }

def toRemoteOut (r : Revoked) : TapOut :=
  { internal := nums, tree := some (.leaf (tapDelayLeaf r.ct.taprootFinal r.toRemoteKey 1)) }

/-- offered by the cheater (victim's incoming): `SenderHTLCScriptTaproot`. -/
def htlcAccOut (r : Revoked) (payHash : Item) : TapOut :=
  { internal := r.revocationKey,
    tree := some (.node (.leaf (tapSenderTimeoutLeaf r.remoteHtlcKey r.localHtlcKey))
                        (.leaf (tapSenderSuccessLeaf r.ct.taprootFinal r.localHtlcKey payHash))) }

/-- received by the cheater (victim's outgoing): `ReceiverHTLCScriptTaproot`. -/
def htlcOffOut (r : Revoked) (cltv : Nat) (payHash : Item) : TapOut :=
  { internal := r.revocationKey,
    tree := some (.node (.leaf (tapReceiverTimeoutLeaf r.ct.taprootFinal r.localHtlcKey cltv))
                        (.leaf (tapReceiverSuccessLeaf r.localHtlcKey r.remoteHtlcKey payHash))) }

def secondLevelOut (r : Revoked) : TapOut :=
  { internal := r.revocationKey, tree := some (.leaf (tapDelayLeaf r.ct.taprootFinal r.toLocalKey r.csv)) }

def outOf (r : Revoked) (k : OutKind) (cltv : Nat) (payHash : Item) : TapOut :=
  match k with
  | .toLocal => toLocalOut r
  | .toRemote => toRemoteOut r
  | .htlcAcc => htlcAccOut r payHash
  | .htlcOff => htlcOffOut r cltv payHash
  | .secondLevel => secondLevelOut r

/-- what the breach arbitrator presents: for the two commitment outputs a script-path spend with
    the control block `CtrlBlockForPath` returns, for HTLC / second-level outputs a key-path
    signature whose descriptor carries the double-tweaked revocation key and `TapTweak()` of the
    tree NewBreachRetribution rebuilt. -/
def justiceOk (r : Revoked) (k : OutKind) (cltv : Nat) (payHash : Item) : Bool :=
  let c := r.tapCtx k
  let o := outOf r k cltv payHash
  match k with
  | .toLocal =>
    scriptPathOk c o (tapRevokeLeaf r.toLocalKey r.revocationKey)
      { internal := nums, path := [(false, .leaf (tapDelayLeaf r.ct.taprootFinal r.toLocalKey r.csv))] }
      (r.tapWitness k)
  | .toRemote =>
    scriptPathOk c o (tapDelayLeaf r.ct.taprootFinal r.toRemoteKey 1) { internal := nums, path := [] }
      (r.tapWitness k)
  | _ => keyPathOk c o { base := (r.signDesc k).signer, root := o.tree, hashType := sigHashDefault, over := .final }

end LndModel.C04.Tap
