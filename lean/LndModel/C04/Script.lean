/-
Symbolic Bitcoin-script semantics shared by C04 and C05 (core Lean only).

Data is symbolic: public keys are terms (`Key`), a signature names the key
that produced it and whether it commits to the spending transaction at hand,
hashes are injective constructors.  The interpreter covers the opcode subset
used by lnd's script templates in input/script_utils.go, with the segwit-v0
standardness rules the btcd engine enforces under `StandardVerifyFlags`
(NULLDUMMY, NULLFAIL, MINIMALIF, CLEANSTACK, strict encodings) and BIP65/BIP112
timelock semantics against the spending transaction's locktime / sequence.
-/
namespace LndModel.C04.Script

/-- Public keys as terms over the channel's base points and the commitment
    point of the commitment at hand.
    `base n r`   : base point `r` of node `n` (lnd: `bs:`),
    `single n r` : `TweakPubKey(base, commitPoint)` (lnd: `tw:`),
    `double n r` : `DeriveRevocationPubkey(base, commitPoint)` (lnd: `rv:`),
    `named s`    : any other key. -/
inductive Key where
  | base (node role : Nat)
  | single (node role : Nat)
  | double (node role : Nat)
  | named (s : String)
deriving DecidableEq, Repr, Inhabited

/-- roles of base points -/
def roleMs : Nat := 0
def roleRev : Nat := 1
def rolePay : Nat := 2
def roleDelay : Nat := 3
def roleHtlc : Nat := 4

/-- What a signature commits to.
    `final`: made over the very transaction being validated (our own sweep signatures);
    `presigned l s`: made earlier, over the one-input / one-output form of the
      spending transaction with nLockTime `l` and input sequence `s` (the peer's
      second-level HTLC signatures);
    `other`: made over some other transaction. -/
inductive SigOver where
  | final
  | presigned (lockTime sequence : Nat)
  | other
deriving DecidableEq, Repr, Inhabited

/-- Stack items. -/
inductive Item where
  /-- a script number in minimal encoding; `num 0` is the empty vector, `num 1` the byte 0x01 -/
  | num (n : Nat)
  | key (k : Key)
  /-- signature by `k` with sighash flag `hashType` over `over` -/
  | sig (k : Key) (hashType : Nat) (over : SigOver)
  /-- a 32-byte payment preimage -/
  | pre (id : Nat)
  /-- HASH160 (RIPEMD160 ∘ SHA256) as an injective constructor -/
  | h160 (i : Item)
  /-- other opaque data of the given length -/
  | bytes (len tag : Nat)
deriving DecidableEq, Repr, Inhabited

inductive Op where
  | push (i : Item)
  | opIf | opNotIf | opElse | opEndIf
  | dup | swap | drop | size | ifdup
  | equal | equalVerify | hash160
  | checkSig | checkSigVerify | checkMultiSig
  | csv | cltv
  | verify
deriving DecidableEq, Repr, Inhabited

/-- The fields of the spending transaction the scripts can observe. -/
structure Ctx where
  version : Nat := 2
  sequence : Nat := 0
  lockTime : Nat := 0
  /-- tapscript (BIP342) rules: OP_CHECKMULTISIG is disabled, SIGHASH_DEFAULT exists -/
  tapscript : Bool := false
  /-- the transaction carries inputs and outputs beyond the pre-signed
      input / output pair (the sweeper aggregates second-level HTLC spends) -/
  aggregated : Bool := false
  /-- height / median time of the block the transaction is to be included in,
      and the number of blocks since the spent output confirmed (finality rules) -/
  blockHeight : Nat := 0
  blockTime : Nat := 0
  inputAge : Nat := 0
deriving Repr

abbrev Stack := List Item   -- head = top of stack

def truthy : Item → Bool
  | .num 0 => false
  | _ => true

/-- byte length of an item (for OP_SIZE). -/
def byteLen : Item → Nat
  | .num n => if n = 0 then 0 else if n < 128 then 1 else if n < 32768 then 2
              else if n < 8388608 then 3 else if n < 2147483648 then 4 else 5
  | .key _ => 33
  | .sig _ _ _ => 71
  | .pre _ => 32
  | .h160 _ => 20
  | .bytes len _ => len

def sigHashAll : Nat := 1
def sigHashSingleAnyoneCanPay : Nat := 131     -- 0x83
def sigHashDefault : Nat := 0

/-- sighash flags the engine accepts (STRICTENC); SIGHASH_DEFAULT only in taproot -/
def sigHashDefined (tap : Bool) (ht : Nat) : Bool :=
  ht == 1 || ht == 2 || ht == 3 || ht == 129 || ht == 130 || ht == 131 || (tap && ht == 0)

/-- Does a signature with flag `ht` made over `o` commit to the transaction at hand?
    A pre-signed signature fixes nLockTime and the input's sequence, and survives
    added inputs and outputs only with SIGHASH_SINGLE|ANYONECANPAY. -/
def sigCommits (c : Ctx) (ht : Nat) : SigOver → Bool
  | .final => true
  | .presigned l s => c.lockTime == l && c.sequence == s && (!c.aggregated || ht == 131)
  | .other => false

def sigOk (c : Ctx) (ht : Nat) (o : SigOver) : Bool :=
  sigHashDefined c.tapscript ht && sigCommits c ht o

/-- Does signature item `sg` verify under public key item `pk`?
    `none` = script error (bad encoding / undefined sighash flag, or a failing
    non-empty signature: NULLFAIL). -/
def sigCheck (c : Ctx) (pk sg : Item) : Option Bool :=
  match pk with
  | .key k =>
    match sg with
    | .num 0 => some false
    | .sig k' ht o => if k' = k ∧ sigOk c ht o = true then some true else none
    | _ => none
  | _ => none

/-- one signature against one key inside CHECKMULTISIG (a mismatch is not yet an error). -/
def sigMatch (c : Ctx) (pk sg : Item) : Option Bool :=
  match pk with
  | .key k =>
    match sg with
    | .num 0 => some false
    | .sig k' ht o => some (decide (k' = k) && sigOk c ht o)
    | _ => none
  | _ => none

/-- CHECKMULTISIG matching; both lists in stack order (top first). -/
def msig (c : Ctx) : List Item → List Item → Option Bool
  | [], _ => some true
  | _ :: _, [] => some false
  | s :: ss, k :: ks =>
    match sigMatch c k s with
    | none => none
    | some true => msig c ss ks
    | some false => msig c (s :: ss) ks
termination_by _ keys => keys.length
decreasing_by all_goals simp_wf <;> omega

def popN : Nat → Stack → Option (List Item × Stack)
  | 0, s => some ([], s)
  | _ + 1, [] => none
  | n + 1, x :: s => (popN n s).map fun (xs, r) => (x :: xs, r)

def seqDisable : Nat := 2147483648      -- 1 <<< 31
def seqTypeFlag : Nat := 4194304        -- 1 <<< 22
def seqMask : Nat := 65536              -- 0xffff + 1
def lockThreshold : Nat := 500000000
def seqFinal : Nat := 4294967295

/-- BIP112 check for operand `n`. -/
def csvOk (c : Ctx) (n : Nat) : Bool :=
  if n / seqDisable % 2 = 1 then true
  else
    decide (2 ≤ c.version) &&
    decide (c.sequence / seqDisable % 2 = 0) &&
    decide (n / seqTypeFlag % 2 = c.sequence / seqTypeFlag % 2) &&
    decide (n % seqMask ≤ c.sequence % seqMask)

/-- BIP65 check for operand `n`. -/
def cltvOk (c : Ctx) (n : Nat) : Bool :=
  decide ((n < lockThreshold) = (c.lockTime < lockThreshold)) &&
  decide (n ≤ c.lockTime) &&
  decide (c.sequence ≠ seqFinal)

structure State where
  stack : Stack
  /-- condition stack of the enclosing IF/NOTIF blocks, innermost first -/
  cond : List Bool
deriving Repr

/-- MINIMALIF: the argument of OP_IF/OP_NOTIF is the empty vector or 0x01. -/
def ifArg : Item → Option Bool
  | .num 0 => some false
  | .num 1 => some true
  | _ => none

def opIfE (neg : Bool) (st : Stack) (cond : List Bool) : Option State :=
  match st with
  | x :: st => (ifArg x).map fun b => { stack := st, cond := (b != neg) :: cond }
  | [] => none

def opElseE (st : Stack) (cond : List Bool) : Option State :=
  match cond with
  | b :: cs => some { stack := st, cond := (!b) :: cs }
  | [] => none

def opEndIfE (st : Stack) (cond : List Bool) : Option State :=
  match cond with
  | _ :: cs => some { stack := st, cond := cs }
  | [] => none

def opDup (st : Stack) : Option Stack :=
  match st with
  | x :: st => some (x :: x :: st)
  | [] => none

def opSwap (st : Stack) : Option Stack :=
  match st with
  | x :: y :: st => some (y :: x :: st)
  | _ => none

def opDrop (st : Stack) : Option Stack :=
  match st with
  | _ :: st => some st
  | [] => none

def opSize (st : Stack) : Option Stack :=
  match st with
  | x :: st => some (.num (byteLen x) :: x :: st)
  | [] => none

def opIfDup (st : Stack) : Option Stack :=
  match st with
  | x :: st => some (if truthy x then x :: x :: st else x :: st)
  | [] => none

def opEqual (st : Stack) : Option Stack :=
  match st with
  | x :: y :: st => some (.num (if x = y then 1 else 0) :: st)
  | _ => none

def opEqualVerify (st : Stack) : Option Stack :=
  match st with
  | x :: y :: st => if x = y then some st else none
  | _ => none

def opHash160 (st : Stack) : Option Stack :=
  match st with
  | x :: st => some (.h160 x :: st)
  | [] => none

def opCheckSig (c : Ctx) (st : Stack) : Option Stack :=
  match st with
  | pk :: sg :: st => (sigCheck c pk sg).map fun b => .num (if b then 1 else 0) :: st
  | _ => none

def opCheckSigVerify (c : Ctx) (st : Stack) : Option Stack :=
  match st with
  | pk :: sg :: st => if sigCheck c pk sg = some true then some st else none
  | _ => none

/-- after the key count `nk` has been popped -/
def multiSigBody (c : Ctx) (nk : Nat) (st : Stack) : Option Stack :=
  match popN nk st with
  | some (keys, .num m :: st2) =>
    match popN m st2 with
    | some (sigs, dummy :: st3) =>
      if dummy ≠ .num 0 then none          -- NULLDUMMY
      else match msig c sigs keys with
        | some true => some (.num 1 :: st3)
        | some false =>
          -- NULLFAIL: a failing CHECKMULTISIG must have only empty signatures
          if sigs.all (· = .num 0) then some (.num 0 :: st3) else none
        | none => none
    | _ => none
  | _ => none

def opCheckMultiSig (c : Ctx) (st : Stack) : Option Stack :=
  if c.tapscript then none else
  match st with
  | .num nk :: st => multiSigBody c nk st
  | _ => none

def opCsv (c : Ctx) (st : Stack) : Option Stack :=
  match st with
  | .num n :: st => if csvOk c n then some (.num n :: st) else none
  | _ => none

def opCltv (c : Ctx) (st : Stack) : Option Stack :=
  match st with
  | .num n :: st => if cltvOk c n then some (.num n :: st) else none
  | _ => none

def opVerify (st : Stack) : Option Stack :=
  match st with
  | x :: st => if truthy x then some st else none
  | [] => none

/-- an executed opcode -/
def exec (c : Ctx) (op : Op) (st : Stack) (cond : List Bool) : Option State :=
  let keep (r : Option Stack) : Option State := r.map fun st' => { stack := st', cond := cond }
  match op with
  | .push i => some { stack := i :: st, cond := cond }
  | .opIf => opIfE false st cond
  | .opNotIf => opIfE true st cond
  | .opElse => opElseE st cond
  | .opEndIf => opEndIfE st cond
  | .dup => keep (opDup st)
  | .swap => keep (opSwap st)
  | .drop => keep (opDrop st)
  | .size => keep (opSize st)
  | .ifdup => keep (opIfDup st)
  | .equal => keep (opEqual st)
  | .equalVerify => keep (opEqualVerify st)
  | .hash160 => keep (opHash160 st)
  | .checkSig => keep (opCheckSig c st)
  | .checkSigVerify => keep (opCheckSigVerify c st)
  | .checkMultiSig => keep (opCheckMultiSig c st)
  | .csv => keep (opCsv c st)
  | .cltv => keep (opCltv c st)
  | .verify => keep (opVerify st)

/-- an opcode inside a branch that is not taken -/
def skip (op : Op) (st : Stack) (cond : List Bool) : Option State :=
  match op with
  | .opIf | .opNotIf => some { stack := st, cond := false :: cond }
  | .opElse =>
    match cond with
    | b :: cs => some { stack := st, cond := (!b) :: cs }
    | [] => none
  | .opEndIf =>
    match cond with
    | _ :: cs => some { stack := st, cond := cs }
    | [] => none
  | _ => some { stack := st, cond := cond }

/-- Execute one opcode; `none` = script failure. -/
def step (c : Ctx) (op : Op) (s : State) : Option State :=
  if s.cond.all id then exec c op s.stack s.cond else skip op s.stack s.cond

def runOps (c : Ctx) : List Op → State → Option State
  | [], s => some s
  | op :: ops, s =>
    match step c op s with
    | some s' => runOps c ops s'
    | none => none

/-- Success: all conditionals closed and exactly one true element left (CLEANSTACK). -/
def accepts : Option State → Bool
  | some { stack := [x], cond := [] } => truthy x
  | _ => false

/-- Validate a witness-script spend.  `witness` is in wire order (bottom of the
    stack first), without the script itself. -/
def run (c : Ctx) (script : List Op) (witness : List Item) : Bool :=
  accepts (runOps c script { stack := witness.reverse, cond := [] })

/-! ### finality of the spending transaction (consensus rules outside the script) -/

/-- nLockTime: final if zero, if the (single) input's sequence is final, or if the
    lock time lies strictly below the including block's height / time. -/
def absFinal (c : Ctx) : Bool :=
  c.lockTime == 0 || c.sequence == seqFinal ||
  (if c.lockTime < lockThreshold then decide (c.lockTime < c.blockHeight)
   else decide (c.lockTime < c.blockTime))

/-- BIP68: with version ≥ 2 and the disable bit clear, a block-based sequence
    demands that many blocks since the spent output confirmed (time-based relative
    locks are not used by lnd and are treated as never mature). -/
def relFinal (c : Ctx) : Bool :=
  decide (c.version < 2) || decide (c.sequence / seqDisable % 2 = 1) ||
  (decide (c.sequence / seqTypeFlag % 2 = 0) && decide (c.sequence % seqMask ≤ c.inputAge))

/-- the transaction can be included in the block described by the context -/
def includable (c : Ctx) : Bool := absFinal c && relFinal c

/-- script validity and includability together -/
def spendOk (c : Ctx) (script : List Op) (witness : List Item) : Bool :=
  run c script witness && includable c

/-! ### lnd's script templates (input/script_utils.go) -/

def n (x : Nat) : Op := .push (.num x)
def pk (k : Key) : Op := .push (.key k)

/-- `SenderHTLCScript` (offered HTLC on the sender's commitment). -/
def senderHTLC (sender receiver rev : Key) (payHash : Item) (confirmed : Bool) : List Op :=
  [.dup, .hash160, .push (.h160 (.key rev)), .equal,
   .opIf, .checkSig,
   .opElse, pk receiver, .swap, .size, n 32, .equal,
     .opNotIf, .drop, n 2, .swap, pk sender, n 2, .checkMultiSig,
     .opElse, .hash160, .push payHash, .equalVerify, .checkSig,
     .opEndIf]
  ++ (if confirmed then [n 1, .csv, .drop] else [])
  ++ [.opEndIf]

/-- `ReceiverHTLCScript` (received HTLC on the receiver's commitment). -/
def receiverHTLC (cltvExpiry : Nat) (sender receiver rev : Key) (payHash : Item)
    (confirmed : Bool) : List Op :=
  [.dup, .hash160, .push (.h160 (.key rev)), .equal,
   .opIf, .checkSig,
   .opElse, pk sender, .swap, .size, n 32, .equal,
     .opIf, .hash160, .push payHash, .equalVerify, n 2, .swap, pk receiver, n 2, .checkMultiSig,
     .opElse, .drop, n cltvExpiry, .cltv, .drop, .checkSig,
     .opEndIf]
  ++ (if confirmed then [n 1, .csv, .drop] else [])
  ++ [.opEndIf]

/-- `SecondLevelHtlcScript` and `CommitScriptToSelf` (identical shape). -/
def delayOrRevoke (rev delay : Key) (csvDelay : Nat) : List Op :=
  [.opIf, pk rev, .opElse, n csvDelay, .csv, .drop, pk delay, .opEndIf, .checkSig]

/-- `LeaseSecondLevelHtlcScript` and `LeaseCommitScriptToSelf`. -/
def leaseDelayOrRevoke (rev delay : Key) (csvDelay leaseExpiry : Nat) : List Op :=
  [.opIf, pk rev, .opElse, n leaseExpiry, .cltv, .drop, n csvDelay, .csv, .drop, pk delay,
   .opEndIf, .checkSig]

/-- `CommitScriptToRemoteConfirmed`. -/
def toRemoteConfirmed (k : Key) : List Op := [pk k, .checkSigVerify, n 1, .csv]

/-- `LeaseCommitScriptToRemoteConfirmed`. -/
def leaseToRemoteConfirmed (k : Key) (leaseExpiry : Nat) : List Op :=
  [pk k, .checkSigVerify, n leaseExpiry, .cltv, .drop, n 1, .csv]

/-- `CommitScriptAnchor`. -/
def anchor (k : Key) : List Op := [pk k, .checkSig, .ifdup, .opNotIf, n 16, .csv, .opEndIf]

/-- `GenMultiSigScript` (keys already sorted). -/
def multiSig (a b : Key) : List Op := [n 2, pk a, pk b, n 2, .checkMultiSig]

/-- The implicit script of a P2WKH output (`CommitScriptUnencumbered`), run on
    the witness `<sig> <pubkey>`. -/
def p2wkh (k : Key) : List Op :=
  [.dup, .hash160, .push (.h160 (.key k)), .equalVerify, .checkSig]

/-! ### taproot (symbolic) -/

/-- delay leaf of to_local and of the second-level output, and (csvDelay = 1) the
    to_remote leaf; `final` selects the production variant of the scripts. -/
def tapDelayLeaf (final : Bool) (k : Key) (csvDelay : Nat) : List Op :=
  if final then [pk k, .checkSigVerify, n csvDelay, .csv]
  else [pk k, .checkSig, n csvDelay, .csv, .drop]

/-- revocation leaf of to_local (`TaprootLocalCommitRevokeScript`). -/
def tapRevokeLeaf (delay rev : Key) : List Op := [pk delay, .drop, pk rev, .checkSig]

/-- offered HTLC on the sender's commitment, timeout leaf (`SenderHTLCTapLeafTimeout`). -/
def tapSenderTimeoutLeaf (sender receiver : Key) : List Op :=
  [pk sender, .checkSigVerify, pk receiver, .checkSig]

/-- offered HTLC, success leaf (`SenderHTLCTapLeafSuccess`). -/
def tapSenderSuccessLeaf (final : Bool) (receiver : Key) (payHash : Item) : List Op :=
  [.size, n 32, .equalVerify, .hash160, .push payHash, .equalVerify, pk receiver]
  ++ (if final then [.checkSigVerify, n 1, .csv] else [.checkSig, n 1, .csv, .drop])

/-- received HTLC on the receiver's commitment, success leaf (`ReceiverHtlcTapLeafSuccess`). -/
def tapReceiverSuccessLeaf (sender receiver : Key) (payHash : Item) : List Op :=
  [.size, n 32, .equalVerify, .hash160, .push payHash, .equalVerify, pk receiver, .checkSigVerify,
   pk sender, .checkSig]

/-- received HTLC, timeout leaf (`ReceiverHtlcTapLeafTimeout`). -/
def tapReceiverTimeoutLeaf (final : Bool) (sender : Key) (cltvExpiry : Nat) : List Op :=
  if final then [pk sender, .checkSigVerify, n 1, .csv, .verify, n cltvExpiry, .cltv]
  else [pk sender, .checkSig, n 1, .csv, .drop, n cltvExpiry, .cltv, .drop]

/-! ### witness stacks (input/script_utils.go witness generators) -/

def sigAll (k : Key) : Item := .sig k sigHashAll .final

/-- `CommitSpendRevoke` / `HtlcSpendRevoke`: `<sig> 1`. -/
def witRevoke (sg : Item) : List Item := [sg, .num 1]
/-- `CommitSpendTimeout` / `HtlcSecondLevelSpend`: `<sig> <>`. -/
def witDelay (sg : Item) : List Item := [sg, .num 0]
/-- `SenderHtlcSpendRevoke` / `ReceiverHtlcSpendRevoke`: `<sig> <revocation key>`. -/
def witHtlcRevoke (sg : Item) (rev : Key) : List Item := [sg, .key rev]
/-- `SenderHtlcSpendRedeem`: `<sig> <preimage>`. -/
def witRedeem (sg : Item) (preimage : Item) : List Item := [sg, preimage]
/-- `ReceiverHtlcSpendTimeout`: `<sig> <>`. -/
def witRecvTimeout (sg : Item) : List Item := [sg, .num 0]
/-- `SenderHtlcSpendTimeout`: `<> <receiver sig> <sender sig> <>`. -/
def witSenderTimeout (recvSig sendSig : Item) : List Item := [.num 0, recvSig, sendSig, .num 0]
/-- `ReceiverHtlcSpendRedeem`: `<> <sender sig> <receiver sig> <preimage>`. -/
def witReceiverRedeem (sendSig recvSig preimage : Item) : List Item :=
  [.num 0, sendSig, recvSig, preimage]
/-- `CommitSpendNoDelay`: `<sig> <pubkey>`. -/
def witP2wkh (sg : Item) (k : Key) : List Item := [sg, .key k]
/-- `SpendMultiSig`: `<> <sigA> <sigB>`. -/
def witMultiSig (sa sb : Item) : List Item := [.num 0, sa, sb]

end LndModel.C04.Script
