/-
C04 property theorems.

(a) state-number hint: exact round trip for every state ≤ 2^48-1 and every
    48-bit obfuscator, shape of the written fields, rejection above the maximum.
(b) justice witnesses: for every segwit-v0 channel type and each of
    {revoked to-local, own to-remote, offered HTLC, received HTLC, second-level
    output}, the witness the breach arbitrator builds, with a signature under
    the key the recorded sign descriptor names, satisfies the reconstructed
    script under the transaction shape the breach arbitrator uses - except the
    single configuration `Revoked.leaseToRemote`, for which the opposite is
    proved (`justice_lease_to_remote_invalid`).
-/
import LndModel.C04.Lemmas

set_option linter.unusedSimpArgs false

namespace LndModel.C04.Props
open LndModel.C04 LndModel.C04.Script LndModel.C04.Hint

/-! ### (a) state hint -/

/-- `GetStateNumHint (SetStateNumHint s) = s` for every encodable state and
    every 48-bit obfuscator. -/
theorem hint_roundtrip (state obf : Nat) (hs : state ≤ maxStateHint) (ho : obf < 2 ^ 48) :
    ∃ sequence lockTime, setHint state obf = some (sequence, lockTime) ∧
      getHint sequence lockTime obf = state := by
  have hs' : state < 2 ^ 48 := by unfold maxStateHint at hs; omega
  have hx : state ^^^ obf < 2 ^ 48 := Nat.xor_lt_two_pow hs' ho
  have hx64 : u64 (state ^^^ obf) = state ^^^ obf := by
    unfold u64; exact Nat.mod_eq_of_lt (by omega)
  refine ⟨u32 ((state ^^^ obf) >>> 24) ||| seqLockTimeDisabled,
    u32 ((state ^^^ obf) &&& mask24) ||| timelockShift, ?_, ?_⟩
  · unfold setHint
    rw [if_neg (by omega)]
    simp only [hx64]
  · rw [getHint_xor, split_join _ hx, Nat.xor_assoc, Nat.xor_self, Nat.xor_zero]

/-- the same for the obfuscator as lnd holds it: 6 bytes. -/
theorem hint_roundtrip_bytes (state : Nat) (obf : List Nat) (hs : state ≤ maxStateHint) :
    ∃ sequence lockTime, setHint state (xorInt obf) = some (sequence, lockTime) ∧
      getHint sequence lockTime (xorInt obf) = state :=
  hint_roundtrip state (xorInt obf) hs (xorInt_lt obf)

/-- Shape of the written fields: sequence has bit 31 set (sequence locks
    disabled) and fits 32 bits; locktime lies in `[2^29, 2^29 + 2^24)` (a past
    timestamp, so the commitment is final). -/
theorem hint_fields (state obf sequence lockTime : Nat) (hs : state ≤ maxStateHint)
    (ho : obf < 2 ^ 48) (h : setHint state obf = some (sequence, lockTime)) :
    sequence.testBit 31 = true ∧ sequence < 2 ^ 32 ∧
      2 ^ 29 ≤ lockTime ∧ lockTime < 2 ^ 29 + 2 ^ 24 := by
  have hs' : state < 2 ^ 48 := by unfold maxStateHint at hs; omega
  have hx : state ^^^ obf < 2 ^ 48 := Nat.xor_lt_two_pow hs' ho
  have hx64 : u64 (state ^^^ obf) = state ^^^ obf := by
    unfold u64; exact Nat.mod_eq_of_lt (by omega)
  unfold setHint at h
  rw [if_neg (by omega)] at h
  simp only [hx64, Option.some.injEq, Prod.mk.injEq] at h
  obtain ⟨h1, h2⟩ := h
  rw [seq_field _ hx] at h1
  rw [lock_field] at h2
  subst h1 h2
  have hdiv : (state ^^^ obf) / 2 ^ 24 < 2 ^ 24 := by omega
  have hmod : (state ^^^ obf) % 2 ^ 24 < 2 ^ 24 := Nat.mod_lt _ (by decide)
  refine ⟨?_, by omega, by omega, by omega⟩
  rw [Nat.testBit_two_pow_add_eq]
  have : ((state ^^^ obf) / 2 ^ 24).testBit 31 = false :=
    Nat.testBit_lt_two_pow (by omega)
  simp [this]

/-- States above `maxStateHint` are refused. -/
theorem hint_rejects (state obf : Nat) (h : state > maxStateHint) : setHint state obf = none := by
  unfold setHint; rw [if_pos h]

/-- Two different encodable states never produce the same fields. -/
theorem hint_injective (s₁ s₂ obf : Nat) (h₁ : s₁ ≤ maxStateHint) (h₂ : s₂ ≤ maxStateHint)
    (ho : obf < 2 ^ 48) (h : setHint s₁ obf = setHint s₂ obf) : s₁ = s₂ := by
  obtain ⟨a, b, e1, g1⟩ := hint_roundtrip s₁ obf h₁ ho
  obtain ⟨c, d, e2, g2⟩ := hint_roundtrip s₂ obf h₂ ho
  rw [e1, e2] at h
  simp only [Option.some.injEq, Prod.mk.injEq] at h
  rw [← g1, ← g2, h.1, h.2]

example : setHint 5 0xAABBCCDDEEFF = some (2158672844, 551415546) := by decide
example : getHint 2158672844 551415546 0xAABBCCDDEEFF = 5 := by decide
example : setHint (2 ^ 48) 0 = none := by decide

/-! ### (b) justice witnesses -/

theorem csvOk_one (l : Nat) (t ag : Bool) (bh bt ia : Nat) :
    csvOk { version := 2, sequence := 1, lockTime := l, tapscript := t, aggregated := ag,
            blockHeight := bh, blockTime := bt, inputAge := ia } 1 = true := by
  simp [csvOk, seqDisable, seqTypeFlag, seqMask]

/-- **justice_witness_valid.**  For every non-taproot channel type, victim
    role, CSV delay, lease expiry and HTLC (expiry, payment hash), the justice
    witness for every output kind satisfies the script NewBreachRetribution
    reconstructs, when the signature is made with the key the recorded sign
    descriptor names and the input is placed in the breach arbitrator's
    transaction (version 2, sequence BlocksToMaturity, locktime 0) - in every
    configuration except `leaseToRemote`. -/
theorem justice_witness_valid (r : Revoked) (k : OutKind) (cltv : Nat) (payHash : Item)
    (ht : r.ct.taproot = false) (hl : r.leaseToRemote k = false) :
    r.justiceValid k cltv payHash = true := by
  obtain ⟨⟨tweakless, anchors, lease, taproot, tfinal⟩, victim, vinit, csv, lexp⟩ := r
  simp only at ht
  subst ht
  cases k <;> cases tweakless <;> cases anchors <;> cases lease <;> cases vinit <;>
    simp [Revoked.leaseToRemote] at hl <;>
    simp [Revoked.justiceValid, Revoked.ctx, Revoked.sequence, Revoked.script, Revoked.witness,
      Revoked.signDesc, SignDesc.signer, Revoked.localDelay, Revoked.revocationKey, Revoked.toLocalKey,
      Revoked.toRemoteKey, Revoked.localHtlcKey, Revoked.remoteHtlcKey, Revoked.cheater,
      run, delayOrRevoke, leaseDelayOrRevoke, toRemoteConfirmed, leaseToRemoteConfirmed, p2wkh,
      senderHTLC, receiverHTLC, witRevoke, witP2wkh, witHtlcRevoke,
      runOps, step, exec, skip, opIfE, opElseE, opEndIfE, opDup, opSwap, opDrop, opSize, opIfDup,
      opEqual, opEqualVerify, opHash160, opCheckSig, opCheckSigVerify, opCsv, opCltv,
      ifArg, pk, n, sigCheck, sigOk, sigHashDefined, sigCommits, sigHashAll, accepts, truthy, csvOk_one]

/-- **The exception is real**: on a leased channel whose initiator is the
    victim, with a lease expiry in the future of "locktime 0", the breach
    arbitrator's input for the victim's own to-remote output is invalid. -/
theorem justice_lease_to_remote_invalid (r : Revoked) (cltv : Nat) (payHash : Item)
    (ht : r.ct.taproot = false)
    (hlease : r.ct.lease = true) (hinit : r.victimInitiator = true) (hexp : 0 < r.leaseExpiry) :
    r.justiceValid .toRemote cltv payHash = false := by
  obtain ⟨⟨tweakless, anchors, lease, taproot, tfinal⟩, victim, vinit, csv, lexp⟩ := r
  simp only at hlease hinit hexp ht
  subst hlease hinit ht
  have hc : ∀ (s : Nat) (t : Bool),
      cltvOk { version := 2, sequence := s, lockTime := 0, tapscript := t } lexp = false := by
    intro s t
    simp [cltvOk]
    intro _ h; omega
  cases tweakless <;> cases anchors <;>
    simp [Revoked.justiceValid, Revoked.ctx, Revoked.sequence, Revoked.script, Revoked.witness,
      Revoked.signDesc, SignDesc.signer, Revoked.localDelay, Revoked.toRemoteKey,
      run, leaseToRemoteConfirmed, runOps, step, exec, opCheckSigVerify, opCltv,
      pk, n, sigCheck, sigOk, sigHashDefined, sigCommits, sigHashAll, accepts, hc]

/-- **justice_witness_valid, simple-taproot channels, script-path spends only**
    (staging and final scripts): the revocation leaf of to_local and the CSV-1
    leaf of the own to_remote output accept the single Schnorr signature
    (SIGHASH_DEFAULT) under the key the sign descriptor names, under tapscript
    rules.  The HTLC and second-level outputs are KEY-PATH spends: they, the
    control block and the tap tweak are outside the symbolic model and are
    checked by the real engine only. -/
theorem justice_taproot_script_path_valid (r : Revoked) (k : OutKind)
    (ht : r.ct.taproot = true) (hk : k = .toLocal ∨ k = .toRemote) :
    r.tapJusticeValid k = true := by
  obtain ⟨⟨tweakless, anchors, lease, taproot, tfinal⟩, victim, vinit, csv, lexp⟩ := r
  simp only at ht
  subst ht
  rcases hk with rfl | rfl <;> cases tweakless <;> cases tfinal <;>
    simp [Revoked.tapJusticeValid, Revoked.tapScript, Revoked.tapWitness, Revoked.tapCtx,
      Revoked.sequence, Revoked.signDesc, SignDesc.signer, Revoked.revocationKey,
      Revoked.toLocalKey, Revoked.toRemoteKey, Revoked.cheater, tapRevokeLeaf, tapDelayLeaf,
      run, runOps, step, exec, opDrop, opCheckSig, opCheckSigVerify, opCsv, pk, n, sigCheck,
      sigOk, sigHashDefined, sigCommits, sigHashDefault, accepts, truthy, csvOk_one]

/-- The sighash flag matters: the revocation witness is accepted exactly when
    the flag is one the engine defines (SIGHASH_DEFAULT = 0 only under tapscript). -/
theorem revoke_sighash_must_be_defined (c : Ctx) (rev delay : Key) (csv ht : Nat) :
    run c (delayOrRevoke rev delay csv) (witRevoke (.sig rev ht .final))
      = sigHashDefined c.tapscript ht := by
  cases h : sigHashDefined c.tapscript ht <;>
    simp [run, delayOrRevoke, witRevoke, runOps, step, exec, skip, opIfE, opElseE, opEndIfE,
      opCheckSig, ifArg, pk, n, sigCheck, sigOk, sigCommits, accepts, truthy, h]

/-- The justice transaction (locktime 0, sequence 0 or 1) is final in any block
    once the revoked commitment has one confirmation. -/
theorem justice_tx_includable (r : Revoked) (k : OutKind) (h a : Nat) (ha : 1 ≤ a) :
    includable { r.ctx k with blockHeight := h, inputAge := a } = true := by
  obtain ⟨⟨tweakless, anchors, lease, taproot, tfinal⟩, victim, vinit, csv, lexp⟩ := r
  cases k <;> cases anchors <;> cases lease <;> cases vinit <;> cases taproot <;>
    simp [includable, absFinal, relFinal, Revoked.ctx, Revoked.sequence, Revoked.localDelay,
      seqDisable, seqTypeFlag, seqMask] <;> omega

/-- The tweak named by the sign descriptor matters: a signature under any key
    other than the (double-tweaked) revocation key does not satisfy the
    revocation branch of the to-local / second-level script. -/
theorem revoke_needs_revocation_key (c : Ctx) (rev delay k' : Key) (csv ht : Nat) (o : SigOver)
    (h : k' ≠ rev) :
    run c (delayOrRevoke rev delay csv) (witRevoke (.sig k' ht o)) = false := by
  simp [run, delayOrRevoke, witRevoke, runOps, step, exec, skip, opIfE, opElseE, opEndIfE,
    opCheckSig, ifArg, pk, n, sigCheck, accepts, h]

/-- in particular the single-tweaked key of the same base point does not work. -/
theorem single_tweak_does_not_revoke (c : Ctx) (v csv : Nat) (delay : Key) :
    run c (delayOrRevoke (.double v roleRev) delay csv)
      (witRevoke (.sig (.single v roleRev) sigHashAll .final)) = false :=
  revoke_needs_revocation_key c _ _ _ _ _ _ (by simp)

/-- **revoke_path_exclusive**: the only witnesses the to-local / second-level
    script accepts are `<sig by the revocation key> 1` and, once the CSV delay is
    satisfied, `<sig by the delay key> <>`. -/
theorem revoke_path_exclusive (c : Ctx) (rev delay : Key) (csv : Nat) (w : List Item)
    (h : run c (delayOrRevoke rev delay csv) w = true) :
    (∃ ht o, w = [.sig rev ht o, .num 1] ∧ sigOk c ht o = true) ∨
    (∃ ht o, w = [.sig delay ht o, .num 0] ∧ sigOk c ht o = true ∧ csvOk c csv = true) := by
  unfold run at h
  rcases excl_stack c rev delay csv w.reverse h with ⟨ht, o, e, hok⟩ | ⟨ht, o, e, hok, hc⟩
  · left; refine ⟨ht, o, ?_, hok⟩
    have := congrArg List.reverse e
    simpa using this
  · right; refine ⟨ht, o, ?_, hok, hc⟩
    have := congrArg List.reverse e
    simpa using this

/-- Consequently: a witness that contains no signature by the revocation key
    can only pass through the delayed branch, i.e. not before the CSV delay. -/
theorem no_revocation_sig_no_early_spend (c : Ctx) (rev delay : Key) (csv : Nat) (w : List Item)
    (hno : ∀ ht o, Item.sig rev ht o ∉ w) (hcsv : csvOk c csv = false) :
    run c (delayOrRevoke rev delay csv) w = false := by
  cases hr : run c (delayOrRevoke rev delay csv) w with
  | false => rfl
  | true =>
    rcases revoke_path_exclusive c rev delay csv w hr with ⟨ht, o, e, _⟩ | ⟨ht, o, _, _, hc⟩
    · exact absurd (by rw [e]; simp) (hno ht o)
    · rw [hcsv] at hc; cases hc

/-- Non-vacuity: a concrete anchors channel, received HTLC. -/
example :
    (Revoked.mk { tweakless := true, anchors := true } 0 true 144 0).justiceValid .htlcOff 700144
      (.h160 (.pre 7)) = true := by decide

example :
    (Revoked.mk { tweakless := true, anchors := true, lease := true } 0 true 144 650000).justiceValid
      .toRemote 0 (.num 0) = false := by decide

end LndModel.C04.Props
