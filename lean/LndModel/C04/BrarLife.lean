/-
C04 — the breach arbitrator AFTER the first justice transactions were signed
(contractcourt/breach_arbitrator.go):

 * `updateBreachInfo` / `convertToSecondLevelRevoke`: one batch of spend events
   applied to the slice of breached outputs — conversion of an HTLC output the
   cheater took to the second level (in place), removal of outputs swept by a
   revocation spend (doneOutputs set + compaction), the two running totals;
 * `waitForSpendEvent` + `updateBreachInfo` against a fixed chain history
   (`deliver`): what a restarted arbitrator does with the retribution it reads
   back from the store (always the hand-off time snapshot: updates are never
   persisted);
 * the `RetributionStore` (Add / Remove / IsBreached / ForAll) together with
   `handleBreachHandoff`'s IsBreached-then-Add and `cleanupBreach`.

Executable, core Lean only. Tied to the real functions by the `ubi` / `rs`
lines of stream `brar`.
-/
namespace LndModel.C04.BrarLife

inductive Kind where
  | toRemote | toLocal | htlcAcc | htlcOff | second
  deriving DecidableEq, Repr

/-- commitment-level HTLC witness types: the only ones `updateBreachInfo` may convert -/
def Kind.firstLevelHtlc : Kind → Bool
  | .htlcAcc | .htlcOff => true
  | _ => false

/-- witness types whose amount is added to `revokedFunds` -/
def Kind.revoked : Kind → Bool
  | .toLocal | .second | .htlcOff => true
  | _ => false

/-- one breached output; `id` is a ghost field (its position in the persisted retribution) -/
structure BO where
  id : Nat
  kind : Kind
  amt : Nat
  op : Nat
  deriving DecidableEq, Repr

/-- one spend event: index into the current slice; `ours` = `IsHtlcSpendRevoke`
(the spend used the revocation path, i.e. it is our own justice transaction);
`newOp` / `newAmt` = the output the spending transaction created AT THE SPENDER'S
INPUT INDEX: second-level outpoint = (spender txid, SpenderInputIndex) — the
SIGHASH_SINGLE pairing of input i with output i, which is what holds when the
cheater aggregates several second-level spends (plus wallet inputs) into one
transaction. The harness names that outpoint independently of the code. -/
structure Spend where
  index : Nat
  ours : Bool
  newAmt : Nat
  newOp : Nat
  deriving DecidableEq, Repr

/-- convertToSecondLevelRevoke -/
def convert (bo : BO) (s : Spend) : BO :=
  { bo with kind := .second, amt := s.newAmt, op := s.newOp }

def convertible (bo : BO) (s : Spend) : Bool := bo.kind.firstLevelHtlc && !s.ours

structure Acc where
  outs : List BO
  done : List Nat
  total : Nat
  revoked : Nat
  deriving Repr

/-- body of the loop over `spends` -/
def stepSpend (a : Acc) (s : Spend) : Acc :=
  match a.outs[s.index]? with
  | none => a
  | some bo =>
    if convertible bo s then
      { a with outs := a.outs.set s.index (convert bo s) }
    else
      { a with done := s.index :: a.done, total := a.total + bo.amt,
               revoked := a.revoked + (if bo.kind.revoked then bo.amt else 0) }

/-- per-index view of the accumulator: what the compaction loop keeps at index `i` -/
def Acc.view (a : Acc) (i : Nat) : Option BO :=
  if a.done.contains i then none else a.outs[i]?

/-- the compaction loop (`inputs[nextIndex] = inputs[i]` for every index not in doneOutputs) -/
def compact (a : Acc) : List BO := (List.range a.outs.length).filterMap a.view

structure Result where
  outs : List BO
  total : Nat
  revoked : Nat
  deriving Repr, DecidableEq

/-- updateBreachInfo -/
def ubi (outs : List BO) (spends : List Spend) : Result :=
  let a := spends.foldl stepSpend ⟨outs, [], 0, 0⟩
  ⟨compact a, a.total, a.revoked⟩

/-! ### per-output specification -/

/-- what one spend does to one output -/
def applyOne (bo : BO) (s : Spend) : Option BO :=
  if convertible bo s then some (convert bo s) else none

def applyOpt (bo : BO) : Option Spend → Option BO
  | none => some bo
  | some s => applyOne bo s

def spendAt (spends : List Spend) (i : Nat) : Option Spend := spends.find? (fun s => s.index == i)

def specOuts (outs : List BO) (spends : List Spend) : List BO :=
  (List.range outs.length).filterMap fun i => (outs[i]?).bind fun bo => applyOpt bo (spendAt spends i)

/-- amount a spend adds to `totalFunds` when it hits output `bo` -/
def sweptAmt (bo : BO) (s : Spend) : Nat := if convertible bo s then 0 else bo.amt
def sweptRevoked (bo : BO) (s : Spend) : Nat :=
  if convertible bo s then 0 else if bo.kind.revoked then bo.amt else 0

/-- the outputs a batch removes for good (swept by a revocation spend) -/
def doneOuts (outs : List BO) (spends : List Spend) : List BO :=
  (List.range outs.length).filterMap fun i => (outs[i]?).bind fun bo =>
    match spendAt spends i with
    | some s => if convertible bo s then none else some bo
    | none => none

/-- a batch as `waitForSpendEvent` hands it over: at most one spend per output, indexes in range -/
def ValidBatch (outs : List BO) (spends : List Spend) : Prop :=
  (spends.map (·.index)).Nodup ∧ ∀ s ∈ spends, s.index < outs.length

instance (outs : List BO) (spends : List Spend) : Decidable (ValidBatch outs spends) := by
  unfold ValidBatch; infer_instance

/-! ### several batches -/

structure Run where
  outs : List BO
  swept : List BO      -- ghost: the outputs removed so far (amount at the time of the sweep)
  total : Nat
  revoked : Nat
  deriving Repr

def runStep (r : Run) (spends : List Spend) : Run :=
  let u := ubi r.outs spends
  ⟨u.outs, r.swept ++ doneOuts r.outs spends, r.total + u.total, r.revoked + u.revoked⟩

def run (outs : List BO) (batches : List (List Spend)) : Run :=
  batches.foldl runStep ⟨outs, [], 0, 0⟩

/-- every batch is valid for the slice it is applied to -/
def ValidRun : List BO → List (List Spend) → Prop
  | _, [] => True
  | outs, b :: bs => ValidBatch outs b ∧ ValidRun (ubi outs b).outs bs

/-! ### replay against a fixed chain history (restart) -/

/-- what the chain says about an outpoint: unspent, or spent (`ours` / created output) -/
structure Spent where
  ours : Bool
  newAmt : Nat
  newOp : Nat
  deriving DecidableEq, Repr

/-- the spends `waitForSpendEvent` collects when every historical spend is available -/
def spendsFor (chain : Nat → Option Spent) (outs : List BO) : List Spend :=
  (List.range outs.length).filterMap fun i => (outs[i]?).bind fun bo =>
    (chain bo.op).map fun c => ⟨i, c.ours, c.newAmt, c.newOp⟩

def deliver (chain : Nat → Option Spent) (outs : List BO) : List BO :=
  (ubi outs (spendsFor chain outs)).outs

/-- where one output ends up once the whole history has been delivered -/
def settle (chain : Nat → Option Spent) (bo : BO) : Option BO :=
  match chain bo.op with
  | none => some bo
  | some c =>
    let s : Spend := ⟨0, c.ours, c.newAmt, c.newOp⟩
    if convertible bo s then
      match chain c.newOp with
      | none => some (convert bo s)
      | some _ => none
    else none

/-! ### the retribution store + hand-off / clean-up / restart -/

/-- a stored retribution: the channel point (key) and the snapshot written by `Add` -/
structure Stored (α : Type) where
  key : Nat
  val : α

structure Store (α : Type) where
  bucket : Bool := false            -- the top-level bucket exists
  items : List (Nat × α) := []

namespace Store
variable {α : Type}

def isBreached (s : Store α) (k : Nat) : Bool := s.items.any (·.1 == k)

/-- `Add`: `Put` under the channel point (overwrites) -/
def add (s : Store α) (k : Nat) (v : α) : Store α :=
  { bucket := true, items := (s.items.filter (·.1 != k)) ++ [(k, v)] }

/-- `Remove`: error when the bucket was never created, otherwise delete (absent key: no error) -/
def remove (s : Store α) (k : Nat) : Option (Store α) :=
  if s.bucket then some { s with items := s.items.filter (·.1 != k) } else none

def keys (s : Store α) : List Nat := s.items.map (·.1)

def get (s : Store α) (k : Nat) : Option α := (s.items.find? (·.1 == k)).map (·.2)
end Store

/-- the arbitrator: persisted store + in-memory retributions being served -/
structure Arb (α : Type) where
  store : Store α := {}
  mem : List (Nat × α) := []        -- in-memory breach infos (exactRetribution goroutines)
  breached : List Nat := []         -- ghost: channels handed off and not yet cleaned up

inductive Op (α : Type) where
  | handoff (k : Nat) (v : α)       -- handleBreachHandoff
  | progress (k : Nat) (v : α)      -- updateBreachInfo in memory (never persisted)
  | cleanup (k : Nat)               -- cleanupBreach (all outputs swept)
  | restart                         -- daemon restart: memory := ForAll store

def Arb.step {α : Type} (a : Arb α) : Op α → Arb α
  | .handoff k v =>
    if a.store.isBreached k then a
    else { store := a.store.add k v, mem := a.mem ++ [(k, v)], breached := k :: a.breached }
  | .progress k v => { a with mem := a.mem.map fun p => if p.1 == k then (k, v) else p }
  | .cleanup k =>
    match a.store.remove k with
    | none => a
    | some st => { store := st, mem := a.mem.filter (·.1 != k), breached := a.breached.filter (· != k) }
  | .restart => { a with mem := a.store.items }

def Arb.run {α : Type} (a : Arb α) (ops : List (Op α)) : Arb α := ops.foldl Arb.step a

end LndModel.C04.BrarLife
