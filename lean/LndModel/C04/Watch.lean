/-
C04 - the chain watcher's recognition path as model steps
(contractcourt/chain_watcher.go: handleCommitSpend -> handleKnownLocalState ->
handleKnownRemoteState -> handlePossibleBreach -> NewBreachRetribution):

  broadcast tx --GetStateNumHint--> state number --FindPreviousState--> revocation-log
  entry --CommitTxHash == txid?--> retribution handed to the breach arbitrator.

A transaction id is symbolic: a remote commitment transaction is identified by its
`SigView` (height + outputs; the real txid also commits to the hint fields, which are a
function of the height).  Core Lean only.
-/
import LndModel.C04.Hint
import LndModel.C04.RevLog

namespace LndModel.C04.Watch
open LndModel.C01 LndModel.C04.RevLog LndModel.C04.Hint

/-- what the chain watcher holds (its own copy of the channel, refreshed by `newChainSet`). -/
structure WState where
  /-- `stateHintObfuscator` as a 48-bit word -/
  obf : Nat
  /-- `chainSet.remoteCommit` -/
  remote : SigView
  /-- `chainSet.remotePendingCommit` -/
  pending : Option SigView
  /-- the revocation log: height ↦ entry -/
  revlog : List (Nat × Option RevEntry)

/-- the spending transaction as the watcher sees it. -/
structure BTx where
  view : SigView
  sequence : Nat
  lockTime : Nat
  /-- its txid equals our own latest local commitment's -/
  isLocal : Bool := false

inductive Verdict where
  | localClose
  | remoteClose
  | remotePending
  /-- a revoked state: the decoded state number and the log entry the retribution is built from -/
  | breach (stateNum : Nat) (e : RevEntry)
  /-- none of the known states: cooperative-close / data-loss handling takes over -/
  | other
deriving DecidableEq, Repr

/-- `OpenChannel.FindPreviousState`. -/
def findPrev : List (Nat × Option RevEntry) → Nat → Option RevEntry
  | [], _ => none
  | (k, v) :: rest, h => if k = h then v else findPrev rest h

/-- `handleCommitSpend` up to the hand-off to the breach arbitrator. -/
def recognise (enc : SC → Nat) (w : WState) (tx : BTx) : Verdict :=
  let stateNum := getHint tx.sequence tx.lockTime w.obf
  if tx.isLocal then .localClose
  else if tx.view = w.remote then .remoteClose
  else if w.pending = some tx.view then .remotePending
  else
    match findPrev w.revlog stateNum with
    | none => .other                      -- ErrLogEntryNotFound / ErrNoPastDeltas
    | some e =>
      -- `retribution.BreachTxHash != commitHash`: it may be our own state of that number
      if e.txid = txOf enc tx.view.outs then .breach stateNum e else .other

/-- the decision the driver replays for a trace line: only the facts the watcher's decision
    depends on (is the decoded number in the log, does the recorded hash match). -/
def recogniseFacts (obf sequence lockTime : Nat) (isLocal isRemote isPending : Bool)
    (logged : Nat → Bool) (hashMatches : Bool) : Option Nat :=
  let stateNum := getHint sequence lockTime obf
  if isLocal || isRemote || isPending then none
  else if logged stateNum && hashMatches then some stateNum else none

end LndModel.C04.Watch
