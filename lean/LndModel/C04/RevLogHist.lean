/-
C04 - `revlog_matches_tx` over ALL histories of the abstract commitment model.

The history generator is C01's `Node` (one `LightningChannel`: update logs, the two
commitment chains, every API operation) - imported read-only.  A ghost record `G`
runs next to it and keeps
 * `signed`: every commitment transaction the node ever signed for the remote party
   (`SignNextCommitment` hands out a `SigView` = height + outputs),
 * `revlog`: the revocation log, one entry per `ReceiveRevocation`, built by
   `RevLog.mkEntry` from the remote tail commitment at that moment, keyed by its height
   (`AdvanceCommitChainTail`: `putRevocationLog(RemoteCommitment)` before the tail moves).

Theorem `revlog_matches_tx`: for every operation list and every revoked height `h`
the log holds exactly one entry for `h`, exactly one transaction was signed for `h`,
and the entry matches THAT transaction (`RevLog.Matches`).
-/
import LndModel.C04.RevLog

set_option linter.unusedSimpArgs false
set_option linter.unusedVariables false

namespace LndModel.C04.RevLog
open LndModel.C01

/-! ### what the operations do to the remote chain -/

theorem fetch_parts {n : Node} {c : Chain} {a b d e : Nat} {cm : Commit} {n' : Node}
    (h : fetchCommitmentView n c a b d e = .ok (cm, n')) :
    n'.cfg = n.cfg ∧ n'.chainL = n.chainL ∧ n'.chainR = n.chainR ∧
      ∃ r, buildCommit n.cfg c (n.chain c).tip r a b d e = .ok cm := by
  unfold fetchCommitmentView at h
  split at h
  · cases h
  · rename_i r _
    simp only at h
    split at h
    · cases h
    · rename_i cm' hb
      simp only [Except.ok.injEq, Prod.mk.injEq] at h
      obtain ⟨rfl, rfl⟩ := h
      exact ⟨rfl, rfl, rfl, r, hb⟩

theorem buildCommit_shape {cfg : Cfg} {tip : Commit} {r : ViewResult} {a b d e : Nat} {cm : Commit}
    (h : buildCommit cfg .rem tip r a b d e = .ok cm) : Shape cfg cm ∧ cm.height = tip.height + 1 := by
  unfold buildCommit at h
  simp only at h
  generalize feeForWeight _ _ = fee at h
  generalize hO : commitOuts cfg Chain.rem _ _ _ _ = outs at h
  by_cases hE : outs.isEmpty = true
  · rw [if_pos hE] at h; cases h
  · rw [if_neg hE] at h
    by_cases hC : outsTotal outs + fee > cfg.capacity
    · rw [if_pos hC] at h; cases h
    · rw [if_neg hC] at h
      simp only [Except.ok.injEq] at h
      subst h
      refine ⟨⟨r.liveL.map (htlcOf cfg false .rem r.feePerKw), r.liveR.map (htlcOf cfg true .rem r.feePerKw),
        rfl, ?_, ?_, hO.symm⟩, rfl⟩
      · intro x hx
        obtain ⟨y, _, rfl⟩ := List.mem_map.mp hx
        rfl
      · intro x hx
        obtain ⟨y, _, rfl⟩ := List.mem_map.mp hx
        rfl

/-- `SignNextCommitment`: either nothing is signed and the remote chain is unchanged, or
    the chain had no unacked commitment and gets exactly one, of the next height, with the
    remote-commitment shape, and its `SigView` is handed out. -/
theorem sign_parts (n : Node) :
    (n.sign.2.1.cfg = n.cfg) ∧
    ((n.sign.2.1.chainR = n.chainR ∧ n.sign.2.2 = none) ∨
     (∃ cm, n.chainR.pend = [] ∧ n.sign.2.2 = some cm.sigView ∧
        n.sign.2.1.chainR = { tail := n.chainR.tail, pend := [cm] } ∧
        cm.height = n.chainR.tail.height + 1 ∧ Shape n.cfg cm)) := by
  unfold Node.sign
  split
  · exact ⟨rfl, Or.inl ⟨rfl, rfl⟩⟩
  · rename_i hun
    have hp : n.chainR.pend = [] := by
      simp only [CChain.hasUnacked, Bool.not_eq_true, Bool.not_eq_false', List.isEmpty_iff] at hun
      exact hun
    simp only
    split
    · split
      · exact ⟨rfl, Or.inl ⟨rfl, rfl⟩⟩
      · rename_i cm n' hf
        obtain ⟨h1, _, h3, r, hb⟩ := fetch_parts hf
        obtain ⟨hs, hh⟩ := buildCommit_shape hb
        refine ⟨h1, Or.inr ⟨cm, hp, rfl, ?_, ?_, hs⟩⟩
        · simp only [h3, hp, List.nil_append]
        · rw [hh]; simp [Node.chain, CChain.tip, hp]
    · exact ⟨rfl, Or.inl ⟨rfl, rfl⟩⟩

theorem receiveCommit_frame (n : Node) (sv : SigView) :
    (n.receiveCommit sv).2.cfg = n.cfg ∧ (n.receiveCommit sv).2.chainR = n.chainR := by
  unfold Node.receiveCommit
  simp only
  split
  · split
    · exact ⟨rfl, rfl⟩
    · rename_i hf
      obtain ⟨h1, _, h3, _⟩ := fetch_parts hf
      split
      · exact ⟨h1, h3⟩
      · exact ⟨rfl, rfl⟩
  · exact ⟨rfl, rfl⟩

theorem resolveLocal_frame (n : Node) (ty : ETy) (i : Nat) (p : Bool) :
    (n.resolveLocal ty i p).2.cfg = n.cfg ∧ (n.resolveLocal ty i p).2.chainR = n.chainR := by
  unfold Node.resolveLocal
  split
  · exact ⟨rfl, rfl⟩
  · simp only
    split
    · exact ⟨rfl, rfl⟩
    · split <;> exact ⟨rfl, rfl⟩

theorem resolveRemote_frame (n : Node) (ty : ETy) (i : Nat) (p : Bool) :
    (n.resolveRemote ty i p).2.cfg = n.cfg ∧ (n.resolveRemote ty i p).2.chainR = n.chainR := by
  unfold Node.resolveRemote
  split
  · exact ⟨rfl, rfl⟩
  · simp only
    split
    · exact ⟨rfl, rfl⟩
    · split <;> exact ⟨rfl, rfl⟩

theorem receiveRevocation_parts (n : Node) :
    (n.receiveRevocation).2.cfg = n.cfg ∧
    ((n.chainR.pend = [] ∧ (n.receiveRevocation).2 = n) ∨
     (∃ c rest, n.chainR.pend = c :: rest ∧ (n.receiveRevocation).2.chainR = { tail := c, pend := rest })) := by
  unfold Node.receiveRevocation
  split
  · rename_i hp; exact ⟨rfl, Or.inl ⟨hp, rfl⟩⟩
  · rename_i c rest hp; exact ⟨rfl, Or.inr ⟨c, rest, hp, rfl⟩⟩

/-- every operation other than `sign` / `receiveRevocation` leaves the configuration and the
    remote commitment chain alone. -/
theorem step_frame (n : Node) (op : Op) (h1 : op ≠ .sign) (h2 : op ≠ .receiveRevocation) :
    (n.step op).2.cfg = n.cfg ∧ (n.step op).2.chainR = n.chainR := by
  cases op <;> simp only [Node.step]
  · unfold Node.addHTLC; simp only; split
    · split <;> exact ⟨rfl, rfl⟩
    · exact ⟨rfl, rfl⟩
  · unfold Node.receiveHTLC; simp only; split
    · exact ⟨rfl, rfl⟩
    · split <;> exact ⟨rfl, rfl⟩
  · exact resolveLocal_frame ..
  · exact resolveLocal_frame ..
  · exact resolveLocal_frame ..
  · exact resolveRemote_frame ..
  · exact resolveRemote_frame ..
  · unfold Node.updateFee; split
    · exact ⟨rfl, rfl⟩
    · split <;> exact ⟨rfl, rfl⟩
  · unfold Node.receiveUpdateFee; split <;> exact ⟨rfl, rfl⟩
  · exact absurd rfl h1
  · exact receiveCommit_frame ..
  · unfold Node.revoke; split <;> exact ⟨rfl, rfl⟩
  · exact absurd rfl h2

/-! ### the ghost run -/

structure G where
  n : Node
  /-- every remote commitment transaction signed so far (newest first) -/
  signed : List SigView
  /-- the revocation log: height ↦ entry (newest first) -/
  revlog : List (Nat × Option RevEntry)

def G.init (n : Node) : G := { n := n, signed := [n.chainR.tail.sigView], revlog := [] }

def G.step (enc : SC → Nat) (g : G) : Op → G
  | .sign => { g with n := g.n.sign.2.1, signed := g.n.sign.2.2.toList ++ g.signed }
  | .receiveRevocation =>
    { g with n := (g.n.receiveRevocation).2,
             revlog := if g.n.chainR.pend.isEmpty then g.revlog
                       else (g.n.chainR.tail.height, mkEntry enc g.n.chainR.tail) :: g.revlog }
  | op => { g with n := (g.n.step op).2 }

def G.run (enc : SC → Nat) (g : G) (ops : List Op) : G := ops.foldl (G.step enc) g

/-- the ghost run drives exactly C01's node. -/
theorem G.step_node (enc : SC → Nat) (g : G) (op : Op) : (g.step enc op).n = (g.n.step op).2 := by
  cases op <;> rfl

theorem G.run_node (enc : SC → Nat) (g : G) (ops : List Op) : (g.run enc ops).n = g.n.run ops := by
  unfold G.run Node.run
  induction ops generalizing g with
  | nil => rfl
  | cons o os ih => simp only [List.foldl_cons]; rw [ih, G.step_node]

structure GInv (enc : SC → Nat) (cfg : Cfg) (t0 : Nat) (g : G) : Prop where
  hcfg : g.n.cfg = cfg
  tail : Shape cfg g.n.chainR.tail ∧ g.n.chainR.tail.sigView ∈ g.signed
  pend : g.n.chainR.pend = [] ∨ ∃ c, g.n.chainR.pend = [c] ∧ c.height = g.n.chainR.tail.height + 1 ∧
    Shape cfg c ∧ c.sigView ∈ g.signed
  bound : ∀ sv ∈ g.signed, sv.height ≤ g.n.chainR.tail.height + g.n.chainR.pend.length
  uniq : (g.signed.map SigView.height).Nodup
  t0le : t0 ≤ g.n.chainR.tail.height
  heights : g.revlog.map Prod.fst = (List.range' t0 (g.n.chainR.tail.height - t0)).reverse
  log : ∀ p ∈ g.revlog, ∃ cm, Shape cfg cm ∧ cm.height = p.1 ∧ cm.sigView ∈ g.signed ∧ p.2 = mkEntry enc cm

theorem ginv_init (enc : SC → Nat) (n : Node) (hs : Shape n.cfg n.chainR.tail) (hp : n.chainR.pend = []) :
    GInv enc n.cfg n.chainR.tail.height (G.init n) := by
  refine ⟨rfl, ⟨hs, by simp [G.init]⟩, Or.inl hp, ?_, by simp [G.init], Nat.le_refl _, by simp [G.init], ?_⟩
  · intro sv hsv
    simp only [G.init, List.mem_singleton] at hsv
    subst hsv
    simp [G.init, Commit.sigView]
  · intro p hp; simp [G.init] at hp

theorem ginv_step (enc : SC → Nat) (cfg : Cfg) (t0 : Nat) (g : G) (hI : GInv enc cfg t0 g) (op : Op) :
    GInv enc cfg t0 (g.step enc op) := by
  by_cases h1 : op = .sign
  · subst h1
    obtain ⟨hc, hch⟩ := sign_parts g.n
    rcases hch with ⟨hR, hn⟩ | ⟨cm, hp, hsv, hR, hh, hs⟩
    · -- nothing signed
      have e : (g.step enc .sign) = { g with n := g.n.sign.2.1 } := by
        simp only [G.step, hn, Option.toList, List.nil_append]
      rw [e]
      exact ⟨by rw [← hI.hcfg]; exact hc, by simp only [hR]; exact hI.tail, by simp only [hR]; exact hI.pend,
        by simp only [hR]; exact hI.bound, hI.uniq, by simp only [hR]; exact hI.t0le,
        by simp only [hR]; exact hI.heights, hI.log⟩
    · have e : (g.step enc .sign) = { g with n := g.n.sign.2.1, signed := cm.sigView :: g.signed } := by
        simp only [G.step, hsv, Option.toList, List.singleton_append]
      rw [e]
      have hb := hI.bound
      rw [hp] at hb
      simp only [List.length_nil, Nat.add_zero] at hb
      refine ⟨by rw [← hI.hcfg]; exact hc, ?_, ?_, ?_, ?_, ?_, ?_, ?_⟩
      · simp only [hR]
        exact ⟨hI.tail.1, List.mem_cons_of_mem _ hI.tail.2⟩
      · simp only [hR]
        exact Or.inr ⟨cm, rfl, hh, by rw [← hI.hcfg]; exact hs, by simp⟩
      · intro sv hsv'
        simp only [hR, List.length_singleton]
        rcases List.mem_cons.mp hsv' with rfl | hm
        · simp only [Commit.sigView]; omega
        · have := hb sv hm; omega
      · simp only [List.map_cons]
        apply List.nodup_cons.mpr
        refine ⟨?_, hI.uniq⟩
        intro hm
        obtain ⟨sv, hm, he⟩ := List.mem_map.mp hm
        have := hb sv hm
        simp only [Commit.sigView] at he
        omega
      · simp only [hR]; exact hI.t0le
      · simp only [hR]; exact hI.heights
      · intro p hpm
        obtain ⟨c, h1, h2, h3, h4⟩ := hI.log p hpm
        exact ⟨c, h1, h2, List.mem_cons_of_mem _ h3, h4⟩
  · by_cases h2 : op = .receiveRevocation
    · subst h2
      obtain ⟨hc, hch⟩ := receiveRevocation_parts g.n
      rcases hch with ⟨hp, hn⟩ | ⟨c, rest, hp, hR⟩
      · have e : (g.step enc .receiveRevocation) = g := by
          simp only [G.step, hn, hp, List.isEmpty_nil, if_true]
        rw [e]; exact hI
      · have e : (g.step enc .receiveRevocation) =
            G.mk (g.n.receiveRevocation).2 g.signed
              ((g.n.chainR.tail.height, mkEntry enc g.n.chainR.tail) :: g.revlog) := by
          simp only [G.step, hp, List.isEmpty_cons, Bool.false_eq_true, if_false]
        rw [e]
        rcases hI.pend with hnil | ⟨c', hp', hh, hs, hsg⟩
        · rw [hnil] at hp; cases hp
        · rw [hp'] at hp
          simp only [List.cons.injEq] at hp
          obtain ⟨rfl, rfl⟩ := hp
          have hb := hI.bound
          rw [hp'] at hb
          simp only [List.length_singleton] at hb
          have ht0 := hI.t0le
          refine ⟨by rw [← hI.hcfg]; exact hc, ?_, ?_, ?_, hI.uniq, ?_, ?_, ?_⟩
          · simp only [hR]; exact ⟨hs, hsg⟩
          · simp only [hR]; exact Or.inl trivial
          · intro sv hm
            simp only [hR, List.length_nil, Nat.add_zero, hh]
            exact hb sv hm
          · simp only [hR, hh]; omega
          · simp only [hR, hh, List.map_cons]
            rw [hI.heights]
            have : g.n.chainR.tail.height + 1 - t0 = (g.n.chainR.tail.height - t0) + 1 := by omega
            rw [this, List.range'_concat, List.reverse_append]
            simp only [List.reverse_cons, List.reverse_nil, List.nil_append, List.singleton_append,
              Nat.one_mul, List.cons.injEq, and_true]
            omega
          · intro p hpm
            rcases List.mem_cons.mp hpm with rfl | hpm
            · exact ⟨g.n.chainR.tail, hI.tail.1, rfl, hI.tail.2, rfl⟩
            · exact hI.log p hpm
    · obtain ⟨hc, hR⟩ := step_frame g.n op h1 h2
      have e : (g.step enc op) = { g with n := (g.n.step op).2 } := by
        cases op <;> first | rfl | exact absurd rfl h1 | exact absurd rfl h2
      rw [e]
      exact ⟨by rw [← hI.hcfg]; exact hc, by simp only [hR]; exact hI.tail, by simp only [hR]; exact hI.pend,
        by simp only [hR]; exact hI.bound, hI.uniq, by simp only [hR]; exact hI.t0le,
        by simp only [hR]; exact hI.heights, hI.log⟩

theorem ginv_run (enc : SC → Nat) (cfg : Cfg) (t0 : Nat) (g : G) (hI : GInv enc cfg t0 g) (ops : List Op) :
    GInv enc cfg t0 (g.run enc ops) := by
  unfold G.run
  induction ops generalizing g with
  | nil => exact hI
  | cons o os ih => exact ih _ (ginv_step enc cfg t0 g hI o)

theorem map_fst_nodup_inj {α β} [DecidableEq α] : ∀ (l : List (α × β)), (l.map Prod.fst).Nodup →
    ∀ p ∈ l, ∀ q ∈ l, p.1 = q.1 → p = q := by
  intro l
  induction l with
  | nil => intro _ p hp; cases hp
  | cons x xs ih =>
    intro hnd p hp q hq he
    simp only [List.map_cons, List.nodup_cons] at hnd
    rcases List.mem_cons.mp hp with rfl | hp <;> rcases List.mem_cons.mp hq with rfl | hq
    · rfl
    · exact absurd (List.mem_map.mpr ⟨q, hq, he.symm⟩) hnd.1
    · exact (hnd.1 (List.mem_map.mpr ⟨p, ‹p ∈ xs›, he⟩)).elim
    · exact ih hnd.2 p hp q hq he

theorem nodup_height_inj : ∀ (l : List SigView), (l.map SigView.height).Nodup →
    ∀ p ∈ l, ∀ q ∈ l, p.height = q.height → p = q := by
  intro l
  induction l with
  | nil => intro _ p hp; cases hp
  | cons x xs ih =>
    intro hnd p hp q hq he
    simp only [List.map_cons, List.nodup_cons] at hnd
    rcases List.mem_cons.mp hp with rfl | hp <;> rcases List.mem_cons.mp hq with rfl | hq
    · rfl
    · exact absurd (List.mem_map.mpr ⟨q, hq, he.symm⟩) hnd.1
    · exact (hnd.1 (List.mem_map.mpr ⟨p, ‹p ∈ xs›, he⟩)).elim
    · exact ih hnd.2 p hp q hq he

end LndModel.C04.RevLog
