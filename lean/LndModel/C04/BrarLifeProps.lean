/-
C04 — theorems about the breach arbitrator after the first justice round
(model: BrarLife.lean; tie: `ubi` / `rs` lines of stream `brar`).

 * `ubi_pointwise`            the loop of updateBreachInfo (in-place conversion, doneOutputs set,
                              compaction) = a per-output function of "the spend that hit this output"
 * `ubi_order_independent`    the order in which the spend goroutines deliver is irrelevant
 * `ubi_total`                totals = sum over the spends of the amount of the output each one hit
 * `ubi_accounting`           outputs kept ++ outputs removed is a permutation of the slice (by ghost id)
 * `run_accounting`,
   `run_none_forgotten`,
   `run_none_double_counted`  the same over ANY number of batches
 * `restart_replay_settles`   reading the hand-off snapshot back and re-delivering the chain history
                              reaches, in two rounds, exactly the per-output normal form; it is a fixed point
 * `store_tracks_breaches`    RetributionStore + hand-off + clean-up + restart: over all operation lists the
                              stored keys are exactly the breaches not yet cleaned up, each once, with the
                              hand-off snapshot; after a restart the arbitrator serves exactly those
-/
import LndModel.C04.BrarLife

namespace LndModel.C04.BrarLife

open List

/-! ### one batch -/

theorem filterMap_congr' {α β : Type} {f g : α → Option β} {l : List α}
    (h : ∀ a ∈ l, f a = g a) : l.filterMap f = l.filterMap g := by
  induction l with
  | nil => rfl
  | cons a l ih =>
    simp only [List.filterMap_cons, h a List.mem_cons_self,
      ih (fun b hb => h b (List.mem_cons_of_mem _ hb))]

theorem view_step (a : Acc) (s : Spend) (i : Nat) :
    (stepSpend a s).view i =
      if i = s.index then (a.view i).bind (fun bo => applyOne bo s) else a.view i := by
  unfold stepSpend
  cases h : a.outs[s.index]? with
  | none =>
    by_cases hi : i = s.index
    · subst hi; simp [Acc.view, h]
    · simp [hi]
  | some bo =>
    obtain ⟨hlt, heq⟩ := List.getElem?_eq_some_iff.mp h
    by_cases hc : convertible bo s = true
    · simp only [hc, if_true]
      by_cases hi : i = s.index
      · subst hi
        by_cases hd : s.index ∈ a.done
        · simp [Acc.view, hd]
        · simp [Acc.view, hd, hlt, heq, applyOne, hc]
      · simp only [hi, if_false, Acc.view]
        rw [List.getElem?_set_ne (Ne.symm hi)]
    · simp only [hc, if_false, Bool.false_eq_true]
      by_cases hi : i = s.index
      · subst hi
        by_cases hd : s.index ∈ a.done
        · simp [Acc.view, hd]
        · simp [Acc.view, hd, hlt, heq, applyOne, hc]
      · have : (s.index :: a.done).contains i = a.done.contains i := by
          simp [hi]
        simp only [hi, if_false, Acc.view, this]

theorem spendAt_none_of_not_mem {spends : List Spend} {i : Nat}
    (h : i ∉ spends.map (·.index)) : spendAt spends i = none := by
  unfold spendAt
  rw [List.find?_eq_none]
  intro s hs hc
  apply h
  simp only [beq_iff_eq] at hc
  exact List.mem_map.mpr ⟨s, hs, hc⟩

theorem view_fold (spends : List Spend) (hn : (spends.map (·.index)).Nodup) (a : Acc) (i : Nat) :
    (spends.foldl stepSpend a).view i =
      match spendAt spends i with
      | none => a.view i
      | some s => (a.view i).bind (fun bo => applyOne bo s) := by
  induction spends generalizing a with
  | nil => simp [spendAt]
  | cons s rest ih =>
    simp only [List.map_cons, List.nodup_cons] at hn
    rw [List.foldl_cons, ih hn.2]
    by_cases hi : s.index = i
    · have hnone : spendAt rest i = none := spendAt_none_of_not_mem (hi ▸ hn.1)
      have hsome : spendAt (s :: rest) i = some s := by simp [spendAt, List.find?_cons, hi]
      rw [hnone, hsome, view_step]; simp [hi]
    · have hsame : spendAt (s :: rest) i = spendAt rest i := by
        simp [spendAt, List.find?_cons, hi]
      rw [hsame, view_step]
      simp [Ne.symm hi]

theorem length_step (a : Acc) (s : Spend) : (stepSpend a s).outs.length = a.outs.length := by
  unfold stepSpend
  cases a.outs[s.index]? with
  | none => rfl
  | some bo => by_cases hc : convertible bo s = true <;> simp [hc]

theorem length_fold (spends : List Spend) (a : Acc) :
    (spends.foldl stepSpend a).outs.length = a.outs.length := by
  induction spends generalizing a with
  | nil => rfl
  | cons s rest ih => rw [List.foldl_cons, ih, length_step]

/-- the loop = the per-output specification -/
theorem ubi_pointwise (outs : List BO) (spends : List Spend)
    (hn : (spends.map (·.index)).Nodup) :
    (ubi outs spends).outs = specOuts outs spends := by
  unfold ubi compact specOuts
  simp only [length_fold]
  apply filterMap_congr'
  intro i _
  rw [view_fold spends hn]
  cases spendAt spends i with
  | none => simp [Acc.view, applyOpt]
  | some s => simp [Acc.view, applyOpt]

theorem spendAt_perm {s₁ s₂ : List Spend} (hp : s₁ ~ s₂) (hn : (s₁.map (·.index)).Nodup) (i : Nat) :
    spendAt s₁ i = spendAt s₂ i := by
  have hn₂ : (s₂.map (·.index)).Nodup := (hp.map _).nodup_iff.mp hn
  have key : ∀ (l : List Spend), (l.map (·.index)).Nodup → ∀ s, spendAt l i = some s ↔ (s ∈ l ∧ s.index = i) := by
    intro l hl s
    induction l with
    | nil => simp [spendAt]
    | cons t rest ih =>
      simp only [List.map_cons, List.nodup_cons] at hl
      by_cases ht : t.index = i
      · have : spendAt (t :: rest) i = some t := by simp [spendAt, List.find?_cons, ht]
        rw [this]
        constructor
        · intro h; cases h; exact ⟨List.mem_cons_self, ht⟩
        · rintro ⟨hm, hi⟩
          rcases List.mem_cons.mp hm with rfl | hm
          · rfl
          · exact absurd (List.mem_map.mpr ⟨s, hm, hi.trans ht.symm⟩) hl.1
      · have : spendAt (t :: rest) i = spendAt rest i := by simp [spendAt, List.find?_cons, ht]
        rw [this, ih hl.2]
        constructor
        · rintro ⟨hm, hi⟩; exact ⟨List.mem_cons_of_mem _ hm, hi⟩
        · rintro ⟨hm, hi⟩
          rcases List.mem_cons.mp hm with rfl | hm
          · exact absurd hi ht
          · exact ⟨hm, hi⟩
  cases h₁ : spendAt s₁ i with
  | some s =>
    have := (key s₁ hn s).mp h₁
    exact ((key s₂ hn₂ s).mpr ⟨hp.mem_iff.mp this.1, this.2⟩).symm
  | none =>
    cases h₂ : spendAt s₂ i with
    | none => rfl
    | some s =>
      have := (key s₂ hn₂ s).mp h₂
      have := (key s₁ hn s).mpr ⟨hp.mem_iff.mpr this.1, this.2⟩
      rw [h₁] at this; cases this

/-- the spend goroutines may deliver in any order -/
theorem ubi_order_independent (outs : List BO) {s₁ s₂ : List Spend} (hp : s₁ ~ s₂)
    (hn : (s₁.map (·.index)).Nodup) :
    (ubi outs s₁).outs = (ubi outs s₂).outs := by
  rw [ubi_pointwise outs s₁ hn, ubi_pointwise outs s₂ ((hp.map _).nodup_iff.mp hn)]
  unfold specOuts
  apply filterMap_congr'
  intro i _
  rw [spendAt_perm hp hn]

/-! ### totals -/

def sweptAt (outs : List BO) (s : Spend) : Nat :=
  match outs[s.index]? with
  | some bo => sweptAmt bo s
  | none => 0

def sweptRevokedAt (outs : List BO) (s : Spend) : Nat :=
  match outs[s.index]? with
  | some bo => sweptRevoked bo s
  | none => 0

theorem outs_step_ne (a : Acc) (s : Spend) (j : Nat) (h : j ≠ s.index) :
    (stepSpend a s).outs[j]? = a.outs[j]? := by
  unfold stepSpend
  cases a.outs[s.index]? with
  | none => rfl
  | some bo =>
    by_cases hc : convertible bo s = true
    · simp only [hc, if_true]; rw [List.getElem?_set_ne (Ne.symm h)]
    · simp [hc]

theorem total_step (a : Acc) (s : Spend) :
    (stepSpend a s).total = a.total + sweptAt a.outs s ∧
    (stepSpend a s).revoked = a.revoked + sweptRevokedAt a.outs s := by
  unfold stepSpend sweptAt sweptRevokedAt sweptAmt sweptRevoked
  cases a.outs[s.index]? with
  | none => simp
  | some bo => by_cases hc : convertible bo s = true <;> simp [hc]

theorem total_fold (spends : List Spend) (hn : (spends.map (·.index)).Nodup) (a : Acc) :
    (spends.foldl stepSpend a).total = a.total + (spends.map (sweptAt a.outs)).sum ∧
    (spends.foldl stepSpend a).revoked = a.revoked + (spends.map (sweptRevokedAt a.outs)).sum := by
  induction spends generalizing a with
  | nil => simp
  | cons s rest ih =>
    simp only [List.map_cons, List.nodup_cons] at hn
    rw [List.foldl_cons]
    have h := ih hn.2 (stepSpend a s)
    have hc : ∀ t ∈ rest, sweptAt (stepSpend a s).outs t = sweptAt a.outs t ∧
        sweptRevokedAt (stepSpend a s).outs t = sweptRevokedAt a.outs t := by
      intro t ht
      have hne : t.index ≠ s.index := by
        intro he; exact hn.1 (List.mem_map.mpr ⟨t, ht, he⟩)
      unfold sweptAt sweptRevokedAt
      rw [outs_step_ne a s t.index hne]; exact ⟨rfl, rfl⟩
    have e1 : rest.map (sweptAt (stepSpend a s).outs) = rest.map (sweptAt a.outs) :=
      List.map_congr_left (fun t ht => (hc t ht).1)
    have e2 : rest.map (sweptRevokedAt (stepSpend a s).outs) = rest.map (sweptRevokedAt a.outs) :=
      List.map_congr_left (fun t ht => (hc t ht).2)
    rw [h.1, h.2, e1, e2, (total_step a s).1, (total_step a s).2]
    simp only [List.map_cons, List.sum_cons]
    omega

/-- each spend adds the amount of the output it hit (nothing for a conversion), once -/
theorem ubi_total (outs : List BO) (spends : List Spend) (hn : (spends.map (·.index)).Nodup) :
    (ubi outs spends).total = (spends.map (sweptAt outs)).sum ∧
    (ubi outs spends).revoked = (spends.map (sweptRevokedAt outs)).sum := by
  have := total_fold spends hn ⟨outs, [], 0, 0⟩
  simpa [ubi] using this

/-! ### accounting by ghost id -/

def ids (l : List BO) : List Nat := l.map (·.id)

theorem split_perm {ι : Type} (l : List ι) (f g : ι → Option Nat) (h : ι → Nat)
    (hx : ∀ i ∈ l, (f i = some (h i) ∧ g i = none) ∨ (f i = none ∧ g i = some (h i))) :
    l.filterMap f ++ l.filterMap g ~ l.map h := by
  induction l with
  | nil => simp
  | cons i rest ih =>
    have ih' := ih (fun j hj => hx j (List.mem_cons_of_mem _ hj))
    rcases hx i List.mem_cons_self with ⟨hf, hg⟩ | ⟨hf, hg⟩
    · simp only [List.filterMap_cons, hf, hg, List.map_cons, List.cons_append]
      exact ih'.cons _
    · simp only [List.filterMap_cons, hf, hg, List.map_cons]
      exact List.perm_middle.trans (ih'.cons _)

theorem range_map_id (outs : List BO) :
    (List.range outs.length).map (fun i => ((outs[i]?).map (·.id)).getD 0) = ids outs := by
  apply List.ext_getElem
  · simp [ids]
  · intro n h₁ h₂
    simp at h₁
    simp [ids, h₁]

theorem applyOpt_id {bo bo' : BO} {s : Option Spend} (h : applyOpt bo s = some bo') : bo'.id = bo.id := by
  cases s with
  | none => simp [applyOpt] at h; rw [← h]
  | some s =>
    simp only [applyOpt, applyOne] at h
    by_cases hc : convertible bo s = true
    · simp [hc] at h; rw [← h]; rfl
    · simp [hc] at h

/-- one batch: kept ++ removed is a permutation of the slice -/
theorem ubi_accounting (outs : List BO) (spends : List Spend) (hn : (spends.map (·.index)).Nodup) :
    ids (ubi outs spends).outs ++ ids (doneOuts outs spends) ~ ids outs := by
  rw [ubi_pointwise outs spends hn, ← range_map_id outs]
  unfold specOuts doneOuts ids
  rw [List.map_filterMap, List.map_filterMap]
  apply split_perm
  intro i hi
  have hlt : i < outs.length := List.mem_range.mp hi
  have hget : outs[i]? = some outs[i] := List.getElem?_eq_getElem hlt
  simp only [hget, Option.bind_some, Option.map_some, Option.getD_some]
  cases hs : spendAt spends i with
  | none => left; simp [applyOpt]
  | some s =>
    by_cases hc : convertible outs[i] s = true
    · left; simp [applyOpt, applyOne, hc, convert]
    · right; simp [applyOpt, applyOne, hc]

/-! ### any number of batches -/

theorem run_cons (outs : List BO) (b : List Spend) (bs : List (List Spend)) (r : Run) :
    (b :: bs).foldl runStep r = bs.foldl runStep (runStep r b) := rfl

theorem run_accounting_gen (batches : List (List Spend)) :
    ∀ (r : Run), ValidRun r.outs batches →
      ids (batches.foldl runStep r).outs ++ ids (batches.foldl runStep r).swept ~ ids r.outs ++ ids r.swept := by
  induction batches with
  | nil => intro r _; exact Perm.refl _
  | cons b bs ih =>
    intro r hv
    obtain ⟨hb, hrest⟩ := hv
    rw [List.foldl_cons]
    have h1 := ih (runStep r b) (by simpa [runStep] using hrest)
    refine h1.trans ?_
    have h2 := ubi_accounting r.outs b hb.1
    simp only [runStep, ids, List.map_append] at *
    -- (kept ++ (swept ++ done)) ~ (outs ++ swept)
    have : List.map (·.id) (ubi r.outs b).outs ++ (List.map (·.id) r.swept ++ List.map (·.id) (doneOuts r.outs b))
        ~ (List.map (·.id) (ubi r.outs b).outs ++ List.map (·.id) (doneOuts r.outs b)) ++ List.map (·.id) r.swept := by
      rw [List.append_assoc]
      exact Perm.append_left _ List.perm_append_comm
    exact this.trans (Perm.append_right _ h2)

/-- over any number of valid batches: what is still in the slice plus what was removed is a
permutation of the retribution that was handed off -/
theorem run_accounting (outs : List BO) (batches : List (List Spend)) (hv : ValidRun outs batches) :
    ids (run outs batches).outs ++ ids (run outs batches).swept ~ ids outs := by
  have := run_accounting_gen batches ⟨outs, [], 0, 0⟩ hv
  simpa [run, ids] using this

/-- no breached output is forgotten: it is still being served or it was swept -/
theorem run_none_forgotten (outs : List BO) (batches : List (List Spend)) (hv : ValidRun outs batches)
    (bo : BO) (hb : bo ∈ outs) :
    bo.id ∈ ids (run outs batches).outs ∨ bo.id ∈ ids (run outs batches).swept := by
  have hp := run_accounting outs batches hv
  have : bo.id ∈ ids outs := List.mem_map.mpr ⟨bo, hb, rfl⟩
  exact List.mem_append.mp (hp.mem_iff.mpr this)

/-- none is counted twice: the removed outputs are pairwise distinct and none of them is still served -/
theorem run_none_double_counted (outs : List BO) (batches : List (List Spend)) (hv : ValidRun outs batches)
    (hd : (ids outs).Nodup) :
    (ids (run outs batches).swept).Nodup ∧ (ids (run outs batches).outs).Nodup ∧
    ∀ x ∈ ids (run outs batches).swept, x ∉ ids (run outs batches).outs := by
  have hp := run_accounting outs batches hv
  have hn := hp.nodup_iff.mpr hd
  rw [List.nodup_append] at hn
  exact ⟨hn.2.1, hn.1, fun x hx hx' => hn.2.2 x hx' x hx rfl⟩

/-! ### restart: replay of the chain history on the hand-off snapshot -/

theorem guard_filterMap_sublist (p : Nat → Bool) (l : List Nat) :
    (l.filterMap fun i => if p i then some i else none) <+ l := by
  induction l with
  | nil => simp
  | cons a l ih =>
    by_cases hp : p a = true
    · simp only [List.filterMap_cons, hp, if_true]; exact ih.cons_cons _
    · simp only [List.filterMap_cons, hp, Bool.false_eq_true, if_false]; exact ih.cons _

theorem spendsFor_nodup (chain : Nat → Option Spent) (outs : List BO) :
    ((spendsFor chain outs).map (·.index)).Nodup := by
  unfold spendsFor
  rw [List.map_filterMap]
  have : ((List.range outs.length).filterMap fun i =>
      Option.map (·.index) ((outs[i]?).bind fun bo =>
        (chain bo.op).map fun c => (⟨i, c.ours, c.newAmt, c.newOp⟩ : Spend)))
      = (List.range outs.length).filterMap fun i =>
        if ((outs[i]?).bind fun bo => chain bo.op).isSome then some i else none := by
    apply filterMap_congr'
    intro i _
    cases outs[i]? with
    | none => simp
    | some bo => rcases h : chain bo.op with _ | c <;> simp [h]
  rw [this]
  exact List.nodup_range.sublist (guard_filterMap_sublist _ _)

theorem spendAt_spendsFor (chain : Nat → Option Spent) (outs : List BO) (i : Nat) (hi : i < outs.length) :
    spendAt (spendsFor chain outs) i =
      (chain outs[i].op).map (fun c => (⟨i, c.ours, c.newAmt, c.newOp⟩ : Spend)) := by
  unfold spendAt spendsFor
  have key : ∀ (l : List Nat), l.Nodup → (∀ j ∈ l, j < outs.length) →
      (l.filterMap fun j => (outs[j]?).bind fun bo =>
        (chain bo.op).map fun c => (⟨j, c.ours, c.newAmt, c.newOp⟩ : Spend)).find? (fun s => s.index == i)
      = if i ∈ l then (chain outs[i].op).map (fun c => (⟨i, c.ours, c.newAmt, c.newOp⟩ : Spend)) else none := by
    intro l hl hb
    induction l with
    | nil => simp
    | cons j rest ih =>
      simp only [List.nodup_cons] at hl
      have hj : j < outs.length := hb j List.mem_cons_self
      have ih' := ih hl.2 (fun k hk => hb k (List.mem_cons_of_mem _ hk))
      have hget : outs[j]? = some outs[j] := List.getElem?_eq_getElem hj
      simp only [List.filterMap_cons, hget, Option.bind_some]
      by_cases hji : j = i
      · subst hji
        cases hc : chain outs[j].op with
        | none => simp [ih', hl.1]
        | some c => simp [List.find?_cons]
      · have hne : ¬ (i = j) := fun h => hji h.symm
        cases hc : chain outs[j].op with
        | none => simp [ih', hne]
        | some c => simp [List.find?_cons, hji, ih', hne]
  rw [key (List.range outs.length) List.nodup_range (fun j hj => List.mem_range.mp hj)]
  simp [List.mem_range, hi]

theorem range_filterMap_getElem {β : Type} (F : BO → Option β) (l : List BO) :
    (List.range l.length).filterMap (fun i => (l[i]?).bind F) = l.filterMap F := by
  induction l with
  | nil => simp
  | cons a l ih =>
    rw [List.length_cons, List.range_succ_eq_map, List.filterMap_cons, List.filterMap_map]
    simp only [List.getElem?_cons_zero, Option.bind_some, List.filterMap_cons]
    have : ((fun i => ((a :: l)[i]?).bind F) ∘ Nat.succ) = fun i => (l[i]?).bind F := by
      funext i; simp
    rw [this, ih]

def spendOf (c : Spent) (i : Nat) : Spend := ⟨i, c.ours, c.newAmt, c.newOp⟩

theorem applyOpt_index (bo : BO) (o : Option Spent) (i j : Nat) :
    applyOpt bo (o.map fun c => (⟨i, c.ours, c.newAmt, c.newOp⟩ : Spend)) =
    applyOpt bo (o.map fun c => (⟨j, c.ours, c.newAmt, c.newOp⟩ : Spend)) := by
  cases o with
  | none => rfl
  | some c => simp [applyOpt, applyOne, convertible, convert]

/-- one step along the chain for one output -/
def chainStep (chain : Nat → Option Spent) (bo : BO) : Option BO :=
  applyOpt bo ((chain bo.op).map fun c => (⟨0, c.ours, c.newAmt, c.newOp⟩ : Spend))

/-- one replay round (waitForSpendEvent with every historical spend available, then
updateBreachInfo) = one step along the chain for every output of the slice -/
theorem deliver_eq (chain : Nat → Option Spent) (outs : List BO) :
    deliver chain outs = outs.filterMap (chainStep chain) := by
  unfold deliver
  rw [ubi_pointwise _ _ (spendsFor_nodup chain outs), ← range_filterMap_getElem]
  unfold specOuts
  apply filterMap_congr'
  intro i hi
  have hlt : i < outs.length := List.mem_range.mp hi
  rw [spendAt_spendsFor chain outs i hlt, List.getElem?_eq_getElem hlt]
  simp only [Option.bind_some, chainStep]
  exact applyOpt_index _ _ _ _

theorem chainStep_twice (chain : Nat → Option Spent) (bo : BO) :
    (chainStep chain bo).bind (chainStep chain) = settle chain bo := by
  unfold chainStep settle
  cases h : chain bo.op with
  | none => simp [applyOpt, h]
  | some c =>
    by_cases hc : convertible bo ⟨0, c.ours, c.newAmt, c.newOp⟩ = true
    · simp only [Option.map_some, applyOpt, applyOne, hc, if_true, Option.bind_some, convert]
      cases h2 : chain c.newOp with
      | none => simp
      | some c2 => simp [applyOne, convertible, Kind.firstLevelHtlc]
    · simp [applyOpt, applyOne, hc]

theorem settle_stable (chain : Nat → Option Spent) (bo bo' : BO) (h : settle chain bo = some bo') :
    chainStep chain bo' = some bo' := by
  unfold settle at h
  unfold chainStep
  cases hc : chain bo.op with
  | none => simp [hc] at h; subst h; simp [hc, applyOpt]
  | some c =>
    simp only [hc] at h
    by_cases hv : convertible bo ⟨0, c.ours, c.newAmt, c.newOp⟩ = true
    · simp only [hv, if_true] at h
      cases h2 : chain c.newOp with
      | none => simp [h2] at h; subst h; simp [convert, h2, applyOpt]
      | some c2 => simp [h2] at h
    · simp [hv] at h

/-- RESTART. The store only ever holds the hand-off snapshot (updates are not persisted). Reading it
back and letting the notifier re-deliver the chain history reaches, in two rounds, the per-output
normal form `settle` (unspent: as handed off; taken to the second level and that output unspent: the
converted output; swept: gone) and stays there. -/
theorem restart_replay_settles (chain : Nat → Option Spent) (snapshot : List BO) :
    deliver chain (deliver chain snapshot) = snapshot.filterMap (settle chain) ∧
    deliver chain (snapshot.filterMap (settle chain)) = snapshot.filterMap (settle chain) := by
  constructor
  · rw [deliver_eq, deliver_eq, List.filterMap_filterMap]
    apply filterMap_congr'
    intro bo _
    exact chainStep_twice chain bo
  · rw [deliver_eq, List.filterMap_filterMap]
    apply filterMap_congr'
    intro bo _
    cases h : settle chain bo with
    | none => rfl
    | some bo' => simpa using settle_stable chain bo bo' h

/-! ### store + hand-off + clean-up + restart -/

namespace Store
variable {α : Type}

theorem keys_add (s : Store α) (k : Nat) (v : α) :
    (s.add k v).keys = (s.keys.filter (· != k)) ++ [k] := by
  simp [Store.add, Store.keys, List.filter_map, Function.comp_def]

theorem isBreached_iff (s : Store α) (k : Nat) : s.isBreached k = true ↔ k ∈ s.keys := by
  simp only [Store.isBreached, Store.keys, List.any_eq_true, List.mem_map, beq_iff_eq]
end Store

structure ArbInv {α : Type} (a : Arb α) : Prop where
  keysNodup : a.store.keys.Nodup
  keysBreached : ∀ k, k ∈ a.store.keys ↔ k ∈ a.breached
  breachedNodup : a.breached.Nodup
  noBucket : a.store.bucket = false → a.store.items = []

theorem arbInv_step {α : Type} (a : Arb α) (op : Op α) (h : ArbInv a) : ArbInv (a.step op) := by
  cases op with
  | handoff k v =>
    simp only [Arb.step]
    by_cases hb : a.store.isBreached k = true
    · simpa [hb] using h
    · simp only [hb, Bool.false_eq_true, if_false]
      have hk : k ∉ a.store.keys := fun hm => hb ((Store.isBreached_iff _ _).mpr hm)
      have hfil : a.store.keys.filter (· != k) = a.store.keys := by
        apply List.filter_eq_self.mpr
        intro x hx
        simp only [bne_iff_ne, ne_eq]
        intro he; exact hk (he ▸ hx)
      refine ⟨?_, ?_, ?_, ?_⟩
      · rw [Store.keys_add, hfil]
        exact List.nodup_append.mpr ⟨h.keysNodup, by simp, by
          intro x hx y hy; simp at hy; subst hy; intro he; exact hk (he ▸ hx)⟩
      · intro x
        rw [Store.keys_add, hfil, List.mem_append, List.mem_singleton, List.mem_cons, h.keysBreached x]
        exact Or.comm
      · exact List.nodup_cons.mpr ⟨fun hm => hk ((h.keysBreached k).mpr hm), h.breachedNodup⟩
      · intro hf; simp [Store.add] at hf
  | progress k v => exact ⟨h.keysNodup, h.keysBreached, h.breachedNodup, h.noBucket⟩
  | cleanup k =>
    simp only [Arb.step, Store.remove]
    by_cases hb : a.store.bucket = true
    · simp only [hb, if_true]
      have hkeys : ∀ b, Store.keys (⟨b, a.store.items.filter (·.1 != k)⟩ : Store α)
          = a.store.keys.filter (· != k) := by
        intro b; simp [Store.keys, List.filter_map, Function.comp_def]
      refine ⟨?_, ?_, ?_, ?_⟩
      · simp only [hkeys]; exact h.keysNodup.sublist List.filter_sublist
      · intro x
        simp only [hkeys, List.mem_filter, h.keysBreached x]
      · exact h.breachedNodup.sublist List.filter_sublist
      · intro hf; simp [hb] at hf
    · simpa [hb] using h
  | restart => exact ⟨h.keysNodup, h.keysBreached, h.breachedNodup, h.noBucket⟩

/-- over ALL operation lists (hand-offs incl. repeated ones for the same channel, in-memory progress,
clean-ups incl. of unknown channels, restarts): the store holds exactly the breaches that were handed
off and not yet cleaned up, each exactly once -/
theorem store_tracks_breaches {α : Type} (ops : List (Op α)) :
    ArbInv ((({} : Arb α)).run ops) := by
  have gen : ∀ (ops : List (Op α)) (a : Arb α), ArbInv a → ArbInv (a.run ops) := by
    intro ops
    induction ops with
    | nil => intro a h; exact h
    | cons op rest ih => intro a h; exact ih _ (arbInv_step a op h)
  exact gen ops _ ⟨by simp [Store.keys], by simp [Store.keys], by simp, by simp⟩

/-- after a restart the arbitrator serves exactly the stored retributions: every breach not yet
cleaned up is served again (none forgotten), none twice -/
theorem restart_serves_all {α : Type} (ops : List (Op α)) :
    let a := (({} : Arb α).run ops).step .restart
    (∀ k ∈ a.breached, ∃ v, (k, v) ∈ a.mem) ∧ (a.mem.map (·.1)).Nodup := by
  have h := store_tracks_breaches (α := α) ops
  simp only [Arb.step]
  refine ⟨?_, h.keysNodup⟩
  intro k hk
  have := (h.keysBreached k).mpr hk
  simp only [Store.keys, List.mem_map] at this
  obtain ⟨p, hp, he⟩ := this
  exact ⟨p.2, by rw [← he]; exact hp⟩

/-- the snapshot written at hand-off time is what the store returns until the clean-up of that
channel, whatever else happens (later hand-offs of the same channel do not overwrite it) -/
theorem handoff_snapshot_kept {α : Type} (ops : List (Op α)) (a : Arb α) (k : Nat) (v : α)
    (hget : a.store.get k = some v)
    (hno : ∀ op ∈ ops, ∀ k', op = Op.cleanup k' → k' ≠ k) :
    (a.run ops).store.get k = some v := by
  induction ops generalizing a with
  | nil => exact hget
  | cons op rest ih =>
    apply ih
    · cases op with
      | handoff k' v' =>
        simp only [Arb.step]
        by_cases hb : a.store.isBreached k' = true
        · simpa [hb] using hget
        · simp only [hb, Bool.false_eq_true, if_false]
          have hne : k' ≠ k := by
            intro he; subst he
            apply hb
            simp only [Store.get, Option.map_eq_some_iff] at hget
            obtain ⟨p, hp, _⟩ := hget
            have := List.find?_some hp
            simp only [Store.isBreached, List.any_eq_true]
            exact ⟨p, List.mem_of_find?_eq_some hp, this⟩
          simp only [Store.get, Store.add] at hget ⊢
          rw [List.find?_append]
          have : (a.store.items.filter (·.1 != k')).find? (·.1 == k) = a.store.items.find? (·.1 == k) := by
            rw [List.find?_filter]
            congr 1
            funext p
            by_cases hp : p.1 = k
            · simp [hp, Ne.symm hne]
            · simp [hp]
          rw [this]
          cases hf : a.store.items.find? (·.1 == k) with
          | none => simp [hf] at hget
          | some p => simpa [hf] using hget
      | progress k' v' => exact hget
      | cleanup k' =>
        have hne : k' ≠ k := hno _ List.mem_cons_self k' rfl
        simp only [Arb.step, Store.remove]
        by_cases hb : a.store.bucket = true
        · simp only [hb, if_true, Store.get] at hget ⊢
          have : (a.store.items.filter (·.1 != k')).find? (·.1 == k) = a.store.items.find? (·.1 == k) := by
            rw [List.find?_filter]
            congr 1
            funext p
            by_cases hp : p.1 = k
            · simp [hp, Ne.symm hne]
            · simp [hp]
          rw [this]; exact hget
        · simpa [hb] using hget
      | restart => exact hget
    · intro op' hop'; exact hno op' (List.mem_cons_of_mem _ hop')

/-! ### non-vacuity -/

def demoOuts : List BO :=
  [⟨0, .toRemote, 5000, 1⟩, ⟨1, .toLocal, 7000, 2⟩, ⟨2, .htlcOff, 600, 0⟩, ⟨3, .htlcAcc, 900, 3⟩]

/-- batch 1: the cheater advances both HTLCs, our spendCommitOuts confirms (delivered out of order);
batch 2: our sweep of one second-level output confirms -/
def demoBatches : List (List Spend) :=
  [[⟨3, false, 899, 1003⟩, ⟨0, true, 0, 0⟩, ⟨2, false, 599, 1000⟩, ⟨1, true, 0, 0⟩],
   [⟨1, true, 0, 0⟩]]

instance decValidRun : (outs : List BO) → (bs : List (List Spend)) → Decidable (ValidRun outs bs)
  | _, [] => isTrue trivial
  | outs, b :: bs =>
    have : Decidable (ValidRun (ubi outs b).outs bs) := decValidRun _ bs
    (inferInstance : Decidable (ValidBatch outs b ∧ ValidRun (ubi outs b).outs bs))

example : ValidRun demoOuts demoBatches := by decide
example : (run demoOuts demoBatches).outs = [⟨2, .second, 599, 1000⟩] ∧
    (run demoOuts demoBatches).total = 5000 + 7000 + 899 ∧
    ids (run demoOuts demoBatches).swept = [0, 1, 3] := by decide
example : (ids demoOuts).Nodup := by decide

def demoChain : Nat → Option Spent
  | 0 => some ⟨false, 599, 1000⟩
  | 3 => some ⟨false, 899, 1003⟩
  | 1003 => some ⟨true, 0, 0⟩
  | 1 => some ⟨true, 0, 0⟩
  | _ => none

example : demoOuts.filterMap (settle demoChain) = [⟨1, .toLocal, 7000, 2⟩, ⟨2, .second, 599, 1000⟩] := by
  decide

example : (({} : Arb Nat).run [.handoff 7 1, .handoff 7 2, .cleanup 9, .handoff 8 3, .restart, .cleanup 7]).breached
    = [8] := by decide

/-- the hypotheses of `handoff_snapshot_kept` on a concrete history -/
example : ((({} : Arb Nat).step (.handoff 7 1)).store.get 7 = some 1) ∧
    (((({} : Arb Nat).step (.handoff 7 1)).run [.handoff 7 2, .restart, .cleanup 9, .handoff 8 3]).store.get 7
      = some 1) := by decide

/-- two batches hitting the same output twice are not a valid run (the hypothesis is not vacuous) -/
example : ¬ ValidBatch demoOuts [⟨1, true, 0, 0⟩, ⟨1, true, 0, 0⟩] := by decide

end LndModel.C04.BrarLife
