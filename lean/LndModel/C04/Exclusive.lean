/-
C04 - exclusivity of the revocation paths (symbolic unforgeability): which witnesses the
revocation branch of an HTLC script and the taproot revocation leaf accept.
(`revoke_path_exclusive` in Props.lean does the same for the to-local / second-level script.)
-/
import LndModel.C04.Lemmas

set_option linter.unusedSimpArgs false

namespace LndModel.C04.Props
open LndModel.C04 LndModel.C04.Script

/-- the part of an HTLC script executed when the top witness element hashes to the revocation
    key hash: `OP_DUP OP_HASH160 <h160(rev)> OP_EQUAL OP_IF OP_CHECKSIG OP_ELSE …(skipped)… OP_ENDIF`. -/
theorem sender_revoke_branch (c : Ctx) (s r rev : Key) (ph : Item) (conf : Bool) (rest : Stack) :
    accepts (runOps c (senderHTLC s r rev ph conf) { stack := .key rev :: rest, cond := [] }) =
    accepts (runOps c [.checkSig] { stack := .key rev :: rest, cond := [] }) := by
  cases conf <;>
  · match rest with
    | [] => simp [senderHTLC, runOps, step, exec, skip, opDup, opHash160, opEqual, opIfE, ifArg, opCheckSig,
        opElseE, opEndIfE, accepts, pk, n]
    | sg :: rest' =>
      cases hsc : sigCheck c (.key rev) sg with
      | none =>
        simp [senderHTLC, runOps, step, exec, skip, opDup, opHash160, opEqual, opIfE, ifArg, opCheckSig,
          opElseE, opEndIfE, accepts, pk, n, hsc]
      | some b =>
        cases b <;>
        simp [senderHTLC, runOps, step, exec, skip, opDup, opHash160, opEqual, opIfE, ifArg, opCheckSig,
          opElseE, opEndIfE, accepts, pk, n, hsc]

theorem receiver_revoke_branch (c : Ctx) (cltv : Nat) (s r rev : Key) (ph : Item) (conf : Bool) (rest : Stack) :
    accepts (runOps c (receiverHTLC cltv s r rev ph conf) { stack := .key rev :: rest, cond := [] }) =
    accepts (runOps c [.checkSig] { stack := .key rev :: rest, cond := [] }) := by
  cases conf <;>
  · match rest with
    | [] => simp [receiverHTLC, runOps, step, exec, skip, opDup, opHash160, opEqual, opIfE, ifArg, opCheckSig,
        opElseE, opEndIfE, accepts, pk, n]
    | sg :: rest' =>
      cases hsc : sigCheck c (.key rev) sg with
      | none =>
        simp [receiverHTLC, runOps, step, exec, skip, opDup, opHash160, opEqual, opIfE, ifArg, opCheckSig,
          opElseE, opEndIfE, accepts, pk, n, hsc]
      | some b =>
        cases b <;>
        simp [receiverHTLC, runOps, step, exec, skip, opDup, opHash160, opEqual, opIfE, ifArg, opCheckSig,
          opElseE, opEndIfE, accepts, pk, n, hsc]

/-- **htlc_revoke_branch_exclusive** (offered HTLC, `SenderHTLCScript`): a witness that selects
    the revocation branch (top element = the revocation key, the only preimage of its HASH160) is
    accepted iff it is exactly `<sig by the revocation key> <revocation key>` with a defined
    sighash flag committing to the transaction.  Without a signature by the revocation key the
    revocation branch cannot be satisfied. -/
theorem htlc_offered_revoke_branch_exclusive (c : Ctx) (s r rev : Key) (ph : Item) (conf : Bool)
    (w : List Item) (h : run c (senderHTLC s r rev ph conf) (w ++ [.key rev]) = true) :
    ∃ ht o, w = [.sig rev ht o] ∧ sigOk c ht o = true := by
  unfold run at h
  rw [List.reverse_append, List.reverse_singleton, List.singleton_append, sender_revoke_branch] at h
  obtain ⟨ht, o, hr, hok⟩ := checksig_final c rev w.reverse h
  refine ⟨ht, o, ?_, hok⟩
  have := congrArg List.reverse hr
  simpa using this

theorem htlc_received_revoke_branch_exclusive (c : Ctx) (cltv : Nat) (s r rev : Key) (ph : Item)
    (conf : Bool) (w : List Item) (h : run c (receiverHTLC cltv s r rev ph conf) (w ++ [.key rev]) = true) :
    ∃ ht o, w = [.sig rev ht o] ∧ sigOk c ht o = true := by
  unfold run at h
  rw [List.reverse_append, List.reverse_singleton, List.singleton_append, receiver_revoke_branch] at h
  obtain ⟨ht, o, hr, hok⟩ := checksig_final c rev w.reverse h
  refine ⟨ht, o, ?_, hok⟩
  have := congrArg List.reverse hr
  simpa using this

/-- **tap_revoke_leaf_exclusive** (`TaprootLocalCommitRevokeScript`): the revocation leaf of a
    simple-taproot to_local output accepts exactly one witness stack: a single signature by the
    revocation key (defined sighash flag, committing to the transaction). -/
theorem tap_revoke_leaf_exclusive (c : Ctx) (delay rev : Key) (w : List Item)
    (h : run c (tapRevokeLeaf delay rev) w = true) :
    ∃ ht o, w = [.sig rev ht o] ∧ sigOk c ht o = true := by
  unfold run at h
  have e : runOps c (tapRevokeLeaf delay rev) { stack := w.reverse, cond := [] } =
      runOps c [.checkSig] { stack := .key rev :: w.reverse, cond := [] } := by
    simp [tapRevokeLeaf, runOps, step, exec, opDrop, pk]
  rw [e] at h
  obtain ⟨ht, o, hr, hok⟩ := checksig_final c rev w.reverse h
  refine ⟨ht, o, ?_, hok⟩
  have := congrArg List.reverse hr
  simpa using this

/-- the positive side of the same statements is not vacuous. -/
example : run {} (senderHTLC (.named "s") (.named "r") (.double 0 roleRev) (.h160 (.pre 1)) true)
    ([.sig (.double 0 roleRev) sigHashAll .final] ++ [.key (.double 0 roleRev)]) = true := by decide
example : run { tapscript := true } (tapRevokeLeaf (.named "d") (.double 0 roleRev))
    [.sig (.double 0 roleRev) sigHashDefault .final] = true := by decide

end LndModel.C04.Props
