/-
C04 model: what lnd reconstructs for a revoked counterparty commitment
(lnwallet.NewBreachRetribution / createHtlcRetribution) and how
contractcourt/breach_arbitrator.go spends it (newRetributionInfo witness
types, breachedOutput.BlocksToMaturity, sweepSpendableOutputsTxn: version 2,
locktime 0).  Scripts and witnesses are the symbolic templates of
`LndModel.C04.Script`.  Core Lean only.
-/
import LndModel.C04.Script
import LndModel.C04.Hint

namespace LndModel.C04
open LndModel.C04.Script

/-- Channel type bits relevant for scripts (channeldb.ChannelType). -/
structure ChanType where
  tweakless : Bool := true
  anchors : Bool := false
  lease : Bool := false
  taproot : Bool := false
  taprootFinal : Bool := false
deriving DecidableEq, Repr, Inhabited

/-- The outputs of a revoked commitment the victim claims. -/
inductive OutKind where
  /-- the cheater's delayed to-local output, revocation path -/
  | toLocal
  /-- the victim's own to-remote output -/
  | toRemote
  /-- HTLC the cheater offered (victim's incoming; lnd: HtlcAcceptedRevoke) -/
  | htlcAcc
  /-- HTLC the cheater received (victim's outgoing; lnd: HtlcOfferedRevoke) -/
  | htlcOff
  /-- output of the cheater's second-level HTLC transaction -/
  | secondLevel
deriving DecidableEq, Repr, Inhabited

inductive Tweak where
  | none | single | double
deriving DecidableEq, Repr, Inhabited

/-- input.SignDescriptor: `KeyDesc` names a base point, plus at most one tweak. -/
structure SignDesc where
  node : Nat
  role : Nat
  tweak : Tweak
deriving DecidableEq, Repr, Inhabited

/-- the public key a signer signs with for a descriptor
    (btcwallet signer: SingleTweak ⇒ TweakPrivKey, DoubleTweak ⇒ DeriveRevocationPrivKey). -/
def SignDesc.signer (d : SignDesc) : Key :=
  match d.tweak with
  | .none => .base d.node d.role
  | .single => .single d.node d.role
  | .double => .double d.node d.role

/-- Parameters of one revoked commitment: `victim` ∈ {0,1} holds the revocation
    secret, the cheater is `1 - victim`. -/
structure Revoked where
  ct : ChanType
  victim : Nat
  /-- is the victim the channel initiator? -/
  victimInitiator : Bool
  /-- the cheater's CSV delay (`RemoteChanCfg.CsvDelay` of the victim) -/
  csv : Nat
  /-- `ThawHeight` for leased channels -/
  leaseExpiry : Nat
deriving Repr, Inhabited

def Revoked.cheater (r : Revoked) : Nat := 1 - r.victim

/-! Key ring of the cheater's commitment as derived by the victim
    (`DeriveCommitmentKeys(commitPoint, lntypes.Remote, …)`). -/
def Revoked.revocationKey (r : Revoked) : Key := .double r.victim roleRev
def Revoked.toLocalKey (r : Revoked) : Key := .single r.cheater roleDelay
def Revoked.toRemoteKey (r : Revoked) : Key :=
  if r.ct.tweakless then .base r.victim rolePay else .single r.victim rolePay
def Revoked.localHtlcKey (r : Revoked) : Key := .single r.victim roleHtlc
def Revoked.remoteHtlcKey (r : Revoked) : Key := .single r.cheater roleHtlc

/-- The witness script of each output (segwit v0 channel types).
    `cltv` / `payHash` describe the HTLC at hand. -/
def Revoked.script (r : Revoked) (k : OutKind) (cltv : Nat) (payHash : Item) : List Op :=
  match k with
  | .toLocal | .secondLevel =>
    -- CommitScriptToSelf / SecondLevelHtlcScript(chanType, isRemoteInitiator, …)
    if r.ct.lease && !r.victimInitiator then
      leaseDelayOrRevoke r.revocationKey r.toLocalKey r.csv r.leaseExpiry
    else delayOrRevoke r.revocationKey r.toLocalKey r.csv
  | .toRemote =>
    -- CommitScriptToRemote(chanType, isRemoteInitiator, ToRemoteKey, leaseExpiry)
    if r.ct.lease && r.victimInitiator then leaseToRemoteConfirmed r.toRemoteKey r.leaseExpiry
    else if r.ct.anchors then toRemoteConfirmed r.toRemoteKey
    else p2wkh r.toRemoteKey
  | .htlcAcc =>
    senderHTLC r.remoteHtlcKey r.localHtlcKey r.revocationKey payHash r.ct.anchors
  | .htlcOff =>
    receiverHTLC cltv r.localHtlcKey r.remoteHtlcKey r.revocationKey payHash r.ct.anchors

/-- `ourDelay` returned by CommitScriptToRemote (BreachRetribution.LocalDelay). -/
def Revoked.localDelay (r : Revoked) : Nat :=
  if r.ct.lease && r.victimInitiator then 1 else if r.ct.anchors then 1 else 0

/-- The sign descriptor NewBreachRetribution / createHtlcRetribution record. -/
def Revoked.signDesc (r : Revoked) (k : OutKind) : SignDesc :=
  match k with
  | .toRemote =>
    { node := r.victim, role := rolePay, tweak := if r.ct.tweakless then .none else .single }
  | _ => { node := r.victim, role := roleRev, tweak := .double }

/-- The witness the breach arbitrator's witness type produces, given the signature. -/
def Revoked.witness (r : Revoked) (k : OutKind) (sg : Item) : List Item :=
  match k with
  | .toLocal | .secondLevel => witRevoke sg
  | .toRemote =>
    -- newRetributionInfo: LocalDelay ≠ 0 ⇒ CommitmentToRemoteConfirmed, else CommitSpendNoDelay*
    if r.localDelay ≠ 0 then [sg] else witP2wkh sg (r.signDesc .toRemote).signer
  | .htlcAcc | .htlcOff => witHtlcRevoke sg (r.signDesc k).signer

/-- breachedOutput.BlocksToMaturity: 1 for the confirmed to-remote types, else 0. -/
def Revoked.sequence (r : Revoked) (k : OutKind) : Nat :=
  match k with
  | .toRemote => if r.ct.taproot || r.localDelay ≠ 0 then 1 else 0
  | _ => 0

/-- contractcourt.newRetributionInfo / convertToSecondLevelRevoke: the witness
    type chosen for each breached output (input.StandardWitnessType.String()). -/
def Revoked.witnessTypeName (r : Revoked) (k : OutKind) : String :=
  match k with
  | .toRemote =>
    if r.ct.taprootFinal then "TaprootRemoteCommitSpendFinal"
    else if r.ct.taproot then "TaprootRemoteCommitSpend"
    else if r.localDelay ≠ 0 then "CommitmentToRemoteConfirmed"
    else if r.ct.tweakless then "CommitmentNoDelayTweakless"
    else "CommitmentNoDelay"
  | .toLocal =>
    if r.ct.taprootFinal then "TaprootCommitmentRevokeFinal"
    else if r.ct.taproot then "TaprootCommitmentRevoke" else "CommitmentRevoke"
  | .htlcAcc => if r.ct.taproot then "TaprootHtlcAcceptedRevoke" else "HtlcAcceptedRevoke"
  | .htlcOff => if r.ct.taproot then "TaprootHtlcOfferedRevoke" else "HtlcOfferedRevoke"
  | .secondLevel =>
    if r.ct.taproot then "TaprootHtlcSecondLevelRevoke" else "HtlcSecondLevelRevoke"

/-- The justice transaction: version 2, locktime 0 (sweepSpendableOutputsTxn). -/
def Revoked.ctx (r : Revoked) (k : OutKind) : Ctx :=
  { version := 2, sequence := r.sequence k, lockTime := 0, tapscript := false }

/-- Verdict of the symbolic interpreter for the justice input of output `k`. -/
def Revoked.justiceValid (r : Revoked) (k : OutKind) (cltv : Nat) (payHash : Item) : Bool :=
  run (r.ctx k) (r.script k cltv payHash)
    (r.witness k (.sig (r.signDesc k).signer sigHashAll .final))

/-! ### simple-taproot channels
    The commitment outputs are spent through a script path (NUMS internal key),
    HTLC outputs and the second-level output through the key path, whose internal
    key is the revocation key. -/

def Revoked.tapScript (r : Revoked) (k : OutKind) : Option (List Op) :=
  match k with
  | .toLocal => some (tapRevokeLeaf r.toLocalKey r.revocationKey)
  | .toRemote => some (tapDelayLeaf r.ct.taprootFinal r.toRemoteKey 1)
  | _ => none

/-- witness below the leaf script and control block: one Schnorr signature (SIGHASH_DEFAULT) -/
def Revoked.tapWitness (r : Revoked) (k : OutKind) : List Item :=
  [.sig (r.signDesc k).signer sigHashDefault .final]

def Revoked.tapCtx (r : Revoked) (k : OutKind) : Ctx :=
  { version := 2, sequence := r.sequence k, lockTime := 0, tapscript := true }

/-- script-path spends only: the leaf accepts the witness.  Key-path spends
    (HTLC and second-level outputs: `tapScript = none`) are outside the symbolic
    model - their validity is established by the real engine alone. -/
def Revoked.tapJusticeValid (r : Revoked) (k : OutKind) : Bool :=
  match r.tapScript k with
  | some sc => run (r.tapCtx k) sc (r.tapWitness k)
  | none => false

/-- The one configuration in which the breach arbitrator's transaction shape
    (locktime 0) cannot satisfy the victim's own to-remote script. -/
def Revoked.leaseToRemote (r : Revoked) (k : OutKind) : Bool :=
  k == .toRemote && r.ct.lease && r.victimInitiator

end LndModel.C04
