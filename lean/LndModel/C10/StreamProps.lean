/-
C10 — direct REJECTION theorems for the TLV stream decoder (`Stream.decode`), for all inputs and
any set of known records (no `NoBigsize` side condition on the offending record):

  loop_rejects_type_below_min        : a type below the loop's lower bound (or any type once the
                                       overflow flag is set) is `ErrStreamNotCanonical`, whatever follows
  stream_rejects_nonincreasing       : after a record of type t1, a record type t2 ≤ t1 is never accepted
  stream_rejects_length_beyond_input : a declared length larger than the remaining input is never accepted
  stream_rejects_nonminimal_type     : a type written in a longer BigSize form is never accepted
  stream_accepts_unknown_even        : lnd's tlv layer does NOT implement "it's OK to be odd":
                                       an unknown EVEN type is accepted like an odd one (both paths)
-/
import LndModel.C10.Props

namespace LndModel.C10

theorem loop_rejects_type_below_min (known : Known) (p2p : Bool) (fuel min : Nat) (ov : Bool)
    (t : Nat) (rest : Bytes) (ht : t < two64) (hlt : ov = true ∨ t < min) :
    decodeLoop known p2p (fuel + 1) min ov (writeVarInt t ++ rest) = .error .streamNotCanonical := by
  simp only [decodeLoop, readVarInt_writeVarInt t rest ht]
  rcases hlt with h | h
  · simp [h]
  · simp [h]

theorem stream_rejects_length_beyond_input (known : Known) (p2p : Bool) (t l : Nat) (v : Bytes)
    (ht : t < two64) (hl : l < two64) (hv : v.length < l) (hnb : isBigsizeFor known t = false) :
    ∃ e, decodeStream known p2p (writeVarInt t ++ (writeVarInt l ++ v)) = .error e := by
  unfold decodeStream
  simp only [decodeLoop, readVarInt_writeVarInt t _ ht, readVarInt_writeVarInt l _ hl, hnb,
    Nat.not_lt_zero, decide_false, Bool.or_self, Bool.false_eq_true, if_false]
  repeat' split
  all_goals first | exact ⟨_, rfl⟩ | (exfalso; omega)

theorem stream_rejects_nonincreasing (known : Known) (p2p : Bool) (t1 t2 : Nat) (v1 rest : Bytes)
    (h1 : t1 < two64) (h2 : t2 ≤ t1) (hl : v1.length < two64)
    (hnb : isBigsizeFor known t1 = false) :
    ∃ e, decodeStream known p2p (encodeRec (t1, v1) ++ (writeVarInt t2 ++ rest)) = .error e := by
  have ht2 : t2 < two64 := by omega
  unfold decodeStream encodeRec
  simp only [List.append_assoc]
  simp only [decodeLoop, readVarInt_writeVarInt t1 _ h1, readVarInt_writeVarInt v1.length _ hl, hnb,
    Nat.not_lt_zero, decide_false, Bool.or_self, Bool.false_eq_true, if_false]
  split
  · exact ⟨_, rfl⟩
  · split
    · exact ⟨_, rfl⟩
    · rw [if_neg (by simp only [List.length_append]; omega)]
      split
      · exact ⟨_, rfl⟩
      · rw [List.drop_left' rfl]
        have hlen : ∃ k, (writeVarInt t1 ++ (writeVarInt v1.length ++ (v1 ++ (writeVarInt t2 ++ rest)))).length = k + 1 := by
          have := (varIntSize_pos t1).1
          rw [← writeVarInt_length] at this
          exact ⟨_, (Nat.succ_pred_eq_of_pos (by simp only [List.length_append]; omega)).symm⟩
        obtain ⟨k, hk⟩ := hlen
        rw [hk]
        have hrej := loop_rejects_type_below_min known p2p k ((t1 + 1) % two64) (t1 == two64 - 1) t2 rest ht2
          (by
            by_cases hmax : t1 = two64 - 1
            · left; simp [hmax]
            · right
              rw [Nat.mod_eq_of_lt (by unfold two64 at *; omega)]
              omega)
        rw [hrej]
        exact ⟨_, rfl⟩

/-- a value that fits the 1-byte form, written with the 0xfd discriminant, is rejected as a TYPE. -/
theorem stream_rejects_nonminimal_type (known : Known) (p2p : Bool) (t : Nat) (rest : Bytes)
    (ht : t < 0xfd) :
    decodeStream known p2p (0xfd :: beBytes 2 t ++ rest) = .error .varintNotCanonical := by
  have h := (varint_nonminimal_rejected t rest).1 ht
  unfold decodeStream
  rw [decodeLoop, h]
  rfl

/-- the tlv layer has no "even types must be known" rule: `02 00` (unknown even type 2, empty
    value) is accepted on both paths, exactly like `03 00`. -/
theorem stream_accepts_unknown_even :
    decodeStream [] true [2, 0] = .ok [(2, [])] ∧ decodeStream [] false [2, 0] = .ok [(2, [])] ∧
    decodeStream [] true [3, 0] = .ok [(3, [])] := by
  refine ⟨?_, ?_, ?_⟩ <;>
    simp [decodeStream, decodeLoop, readVarInt, isBigsizeFor, lookupKind, lenOkFor, valOkFor,
      maxRecordSize, two64]

/-- non-vacuity of `stream_rejects_nonincreasing`: `01 01 aa` then type `01` again. -/
example : ∃ e, decodeStream [] true (encodeRec (1, [0xaa]) ++ (writeVarInt 1 ++ [0])) = .error e :=
  stream_rejects_nonincreasing [] true 1 1 [0xaa] [0] (by unfold two64; decide) (Nat.le_refl _)
    (by unfold two64; decide) rfl

end LndModel.C10
