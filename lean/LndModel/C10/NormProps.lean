/-
C10 — the canonical-fixpoint theorem for schemas WITH value-normalising records
(`Schema.norm ≠ []`): `msg_fixpoint` of `WireProps` demands `norm = []`; here the hypothesis is
only that every normalisation keeps a record acceptable and is idempotent (`NormOk`).  Instance:
the MuSig2 partial-signature records (scalar reduced modulo the group order on decode) of
commit_sig, closing_signed, funding_created, funding_signed — the four schemas the earlier
rounds covered by replay only.
-/
import LndModel.C10.WireProps

namespace LndModel.C10.Wire

open LndModel.C10

theorem normRec_type (norm : List (Nat × (Bytes → Bytes))) (r : Rec) : (normRec norm r).1 = r.1 := by
  unfold normRec
  split <;> rfl

/-- admissible normalisation table: a normalised record is still acceptable to the (p2p) stream
    decoder of the schema, and normalising twice is normalising once. -/
def NormOk (known : Known) (norm : List (Nat × (Bytes → Bytes))) : Prop :=
  ∀ r : Rec, RecOk known true r →
    RecOk known true (normRec norm r) ∧ normRec norm (normRec norm r) = normRec norm r

theorem canonical_map_norm (known : Known) (norm : List (Nat × (Bytes → Bytes)))
    (hn : NormOk known norm) : ∀ (rs : List Rec) (lo : Nat), Canonical known true lo rs →
      Canonical known true lo (rs.map (normRec norm)) := by
  intro rs
  induction rs with
  | nil => intro lo _; exact True.intro
  | cons r rs ih =>
    intro lo h
    obtain ⟨h1, h2, h3⟩ := h
    simp only [List.map_cons, Canonical]
    refine ⟨by rw [normRec_type]; exact h1, (hn r h2).1, ?_⟩
    rw [normRec_type]
    exact ih _ h3

theorem map_norm_idem (known : Known) (norm : List (Nat × (Bytes → Bytes)))
    (hn : NormOk known norm) : ∀ (rs : List Rec) (lo : Nat), Canonical known true lo rs →
      (rs.map (normRec norm)).map (normRec norm) = rs.map (normRec norm) := by
  intro rs
  induction rs with
  | nil => intro _ _; rfl
  | cons r rs ih =>
    intro lo h
    obtain ⟨_, h2, h3⟩ := h
    simp only [List.map_cons, (hn r h2).2, ih _ h3]

theorem filter_known_map_norm (known : Known) (norm : List (Nat × (Bytes → Bytes))) (rs : List Rec) :
    (rs.map (normRec norm)).filter (fun r => (lookupKind known r.1).isSome) =
      (rs.filter (fun r => (lookupKind known r.1).isSome)).map (normRec norm) := by
  induction rs with
  | nil => rfl
  | cons r rs ih =>
    simp only [List.map_cons, List.filter_cons, normRec_type]
    split
    · simp only [List.map_cons, ih]
    · exact ih

/-- `msg_fixpoint_norm`: the canonical-fixpoint theorem for every schema whose record
    normalisations are admissible (`NormOk`) — no condition `norm = []`. -/
theorem msg_fixpoint_norm (sc : Schema) (hp : ∀ f ∈ sc.fields, f.proved = true)
    (hnb : NoBigsize sc.known) (hn : NormOk sc.known sc.norm) (body e : Bytes)
    (h : runSchema sc body = .accept e) : runSchema sc e = .accept e := by
  unfold runSchema at h ⊢
  split at h
  · cases h
  · rename_i enc rest hdec
    obtain ⟨hfix, _⟩ := decFields_fix sc.fields hp body enc rest hdec
    split at h
    · cases h
      have := hfix []
      rw [List.append_nil] at this
      simp only [this]
    · cases h
      simp only [hfix]
    · -- tlvAll
      split at h
      · cases h
      · rename_i rs hrs
        cases h
        have hcan := ((stream_accept_iff_canonical sc.known true hnb rest rs).mp hrs).1
        have hcan' := canonical_map_norm sc.known sc.norm hn rs 0 hcan
        simp only [hfix, stream_decode_encode sc.known true hnb _ hcan',
          map_norm_idem sc.known sc.norm hn rs 0 hcan]
    · -- tlvKnownOnly
      split at h
      · cases h
      · rename_i rs hrs
        cases h
        have hcan := ((stream_accept_iff_canonical sc.known true hnb rest rs).mp hrs).1
        have hk := canonical_filter sc.known true (fun r => (lookupKind sc.known r.1).isSome) rs 0 hcan
        have hk' := canonical_map_norm sc.known sc.norm hn _ 0 hk
        simp only [hfix, stream_decode_encode sc.known true hnb _ hk', filter_known_map_norm,
          List.filter_filter, Bool.and_self, map_norm_idem sc.known sc.norm hn _ 0 hk]

/-! ### the MuSig2 partial-signature records -/

theorem secpN_lt : secpN < 256 ^ 32 := by decide

theorem normScalar_length (v : Bytes) : (normScalar v).length = 32 := beBytes_length 32 _

theorem normScalar_idem (v : Bytes) : normScalar (normScalar v) = normScalar v := by
  unfold normScalar
  have hlt : beNat v % secpN < secpN := Nat.mod_lt _ (by decide)
  rw [beNat_beBytes, Nat.mod_eq_of_lt (Nat.lt_trans hlt secpN_lt), Nat.mod_eq_of_lt hlt]

theorem normSigNonce_length (v : Bytes) (h : v.length = 98) : (normSigNonce v).length = 98 := by
  simp only [normSigNonce, List.length_append, normScalar_length, List.length_drop, h]

theorem normSigNonce_drop (v : Bytes) : (normSigNonce v).drop 32 = v.drop 32 :=
  List.drop_left' (normScalar_length _)

theorem normSigNonce_idem (v : Bytes) : normSigNonce (normSigNonce v) = normSigNonce v := by
  have ht : (normSigNonce v).take 32 = normScalar (v.take 32) := List.take_left' (normScalar_length _)
  rw [normSigNonce, ht, normSigNonce_drop, normScalar_idem]
  rfl

/-- closing_signed: record 6 = partial signature (32-byte scalar). -/
theorem normOk_partialSig : NormOk [(6, kPartialSig)] [(6, normScalar)] := by
  intro r hr
  obtain ⟨h1, h2, h3, h4, h5⟩ := hr
  by_cases ht : r.1 = 6
  · have hnr : normRec [(6, normScalar)] r = (r.1, normScalar r.2) := by
      simp [normRec, List.find?, ht]
    have hnr2 : normRec [(6, normScalar)] (r.1, normScalar r.2) = (r.1, normScalar (normScalar r.2)) := by
      simp [normRec, List.find?, ht]
    rw [hnr]
    refine ⟨⟨h1, ?_, ?_, ?_, ?_⟩, ?_⟩
    · simp only [normScalar_length]; unfold two64; omega
    · intro _; simp only [normScalar_length]; unfold maxRecordSize; omega
    · simp [lenOkFor, lookupKind, ht, kPartialSig, Kind.lenOk, normScalar_length]
    · simp [valOkFor, lookupKind, ht, kPartialSig, Kind.valOk]
    · rw [hnr2, normScalar_idem]
  · have hnr : normRec [(6, normScalar)] r = r := by
      have hb : ((6 : Nat) == r.1) = false := by
        rw [beq_eq_false_iff_ne]; exact fun h => ht h.symm
      simp [normRec, List.find?, hb]
    rw [hnr]
    exact ⟨⟨h1, h2, h3, h4, h5⟩, hnr⟩

/-- commit_sig / funding_created / funding_signed: record 2 = partial signature ‖ public nonce. -/
theorem normOk_partialSigNonce : NormOk [(2, kPartialSigNonce)] [(2, normSigNonce)] := by
  intro r hr
  obtain ⟨h1, h2, h3, h4, h5⟩ := hr
  by_cases ht : r.1 = 2
  · have hnr : normRec [(2, normSigNonce)] r = (r.1, normSigNonce r.2) := by
      simp [normRec, List.find?, ht]
    have hnr2 : normRec [(2, normSigNonce)] (r.1, normSigNonce r.2) =
        (r.1, normSigNonce (normSigNonce r.2)) := by
      simp [normRec, List.find?, ht]
    have hl : r.2.length = 98 := by
      simpa [lenOkFor, lookupKind, ht, kPartialSigNonce, Kind.lenOk] using h4
    have hv : nonceOk (r.2.drop 32) = true := by
      simpa [valOkFor, lookupKind, ht, kPartialSigNonce, Kind.valOk] using h5
    rw [hnr]
    refine ⟨⟨h1, ?_, ?_, ?_, ?_⟩, ?_⟩
    · simp only [normSigNonce_length _ hl]; unfold two64; omega
    · intro _; simp only [normSigNonce_length _ hl]; unfold maxRecordSize; omega
    · simp [lenOkFor, lookupKind, ht, kPartialSigNonce, Kind.lenOk, normSigNonce_length _ hl]
    · simp [valOkFor, lookupKind, ht, kPartialSigNonce, Kind.valOk, normSigNonce_drop, hv]
    · rw [hnr2, normSigNonce_idem]
  · have hnr : normRec [(2, normSigNonce)] r = r := by
      have hb : ((2 : Nat) == r.1) = false := by
        rw [beq_eq_false_iff_ne]; exact fun h => ht h.symm
      simp [normRec, List.find?, hb]
    rw [hnr]
    exact ⟨⟨h1, h2, h3, h4, h5⟩, hnr⟩

/-- the four message types with a MuSig2 partial signature (commit_sig 132, closing_signed 39,
    funding_signed 35, funding_created 34), for both behaviours of `EncodeMessageExtraData`:
    `ReadMessage ∘ WriteMessage` is a canonical fixpoint on every input, although the scalar of the
    partial signature is reduced modulo the group order on the way. -/
theorem musig2_schemas_fixpoint (drop : Bool) (t : Nat) (ht : t ∈ [132, 39, 35, 34]) (sc : Schema)
    (hs : schemaOf drop t = some sc) (body e : Bytes) (h : runSchema sc body = .accept e) :
    runSchema sc e = .accept e := by
  simp only [List.mem_cons, List.not_mem_nil, or_false] at ht
  rcases ht with rfl | rfl | rfl | rfl <;> cases drop <;>
    (simp only [schemaOf] at hs
     cases hs
     refine msg_fixpoint_norm _ (by decide) (noBigsize_of_all _ (by decide)) ?_ body e h
     first | exact normOk_partialSig | exact normOk_partialSigNonce)

/-- non-vacuity: a partial signature ≥ the group order is accepted by closing_signed and is NOT
    written back verbatim (so `norm = []` would be false for this schema), yet the re-encoding
    is a fixpoint. -/
example : normScalar (List.replicate 32 0xff) ≠ List.replicate 32 0xff ∧
    normScalar (normScalar (List.replicate 32 0xff)) = normScalar (List.replicate 32 0xff) :=
  ⟨by decide, normScalar_idem _⟩

end LndModel.C10.Wire
