/-
C10 — theorems about the onion-failure codec model (`Failure.lean`): for EVERY input and every
registered failure code, what `DecodeFailure` accepts and `EncodeFailure` writes back is a
canonical fixpoint of exactly 260 bytes (2 + 256 + 2: the fixed-size failure packet of BOLT 4).
-/
import LndModel.C10.Failure
import LndModel.C10.WireValue

namespace LndModel.C10.Wire

open LndModel.C10

/-! ### the embedded channel_update -/

/-- the channel_update schema as a function of the one body bit it depends on. -/
def updSchema (drop hasMax : Bool) : SchemaX :=
  let base : List Field := [.fixed 64, .fixed 32, .fixed 8, .fixed 4, .fixed 1, .fixed 1, .fixed 2,
    .fixed 8, .fixed 4, .fixed 4]
  { fields := if hasMax then base ++ [.fixed 8] else base,
    tail := if drop then .tlvKnownOnly else .tlvAll,
    known := [(55555, .fixed 8)] }

def updHasMax (body : Bytes) : Bool :=
  match body[108]? with | some f => f.toNat % 2 == 1 | none => false

theorem schemaXOf_258 (drop : Bool) (body : Bytes) :
    schemaXOf drop 258 body = some (updSchema drop (updHasMax body)) := by
  unfold schemaXOf updSchema updHasMax
  simp only []
  rfl

theorem updSchema_plain (drop hm : Bool) : (updSchema drop hm).isPlain :=
  ⟨rfl, rfl, rfl, rfl, rfl, rfl⟩

theorem updSchema_fields (drop hm : Bool) :
    ∀ f ∈ (updSchema drop hm).fields, f.proved = true ∧ f.verbatim = true := by
  cases hm <;> cases drop <;> decide

theorem updSchema_noBigsize (drop hm : Bool) : NoBigsize (updSchema drop hm).known :=
  noBigsize_of_all _ (by intro p hp; simp [updSchema] at hp; subst hp; rfl)

def fixedLen : List Field → Nat
  | [] => 0
  | .fixed n :: fs => n + fixedLen fs
  | _ :: fs => fixedLen fs

theorem decFields_fixed_len (fs : List Field) (hf : ∀ f ∈ fs, ∃ n, f = .fixed n) :
    ∀ (b e r : Bytes), decFields fs b = some (e, r) → e.length = fixedLen fs := by
  induction fs with
  | nil =>
    intro b e r h
    simp only [decFields] at h
    cases h
    rfl
  | cons f fs ih =>
    intro b e r h
    obtain ⟨n, rfl⟩ := hf f (by simp)
    simp only [decFields, decField] at h
    split at h
    · cases h
    · rename_i e1 r1 h1
      split at h1
      · cases h1
      · rename_i hn
        cases h1
        split at h
        · cases h
        · rename_i es r2 h2
          cases h
          have := ih (fun g hg => hf g (by simp [hg])) _ es r h2
          simp only [List.length_append, List.length_take, fixedLen, this]
          omega

/-- every byte the fixed fields consume precedes the tail: at least 128 bytes. -/
theorem updSchema_prefix (drop hm : Bool) (body e rest : Bytes)
    (h : decFields (updSchema drop hm).fields body = some (e, rest)) : 128 ≤ e.length := by
  have hall : ∀ f ∈ (updSchema drop hm).fields, ∃ n, f = .fixed n := by
    cases hm <;> cases drop <;> simp [updSchema]
  rw [decFields_fixed_len _ hall body e rest h]
  cases hm <;> cases drop <;> decide

/-- `runSchema` re-encodes the fixed part first. -/
theorem runSchema_prefix (sc : Schema) (body enc : Bytes) (h : runSchema sc body = .accept enc) :
    ∃ e rest t, decFields sc.fields body = some (e, rest) ∧ enc = e ++ t := by
  unfold runSchema at h
  split at h
  · cases h
  · rename_i e rest hd
    refine ⟨e, rest, ?_⟩
    split at h
    · cases h; exact ⟨[], hd, by simp⟩
    · cases h; exact ⟨rest, hd, rfl⟩
    · split at h
      · cases h
      · cases h; exact ⟨_, hd, rfl⟩
    · split at h
      · cases h
      · cases h; exact ⟨_, hd, rfl⟩

/-- the channel_update inside a failure: the re-encoding selects the same schema (the max-HTLC
    flag byte is copied verbatim) and is a fixpoint. -/
theorem update_fixpoint (drop : Bool) (body enc : Bytes) (sx : SchemaX)
    (hs : schemaXOf drop 258 body = some sx) (hr : runSchemaX sx body = .accept enc) :
    schemaXOf drop 258 enc = some sx ∧ runSchemaX sx enc = .accept enc := by
  rw [schemaXOf_258] at hs
  cases hs
  rw [runSchemaX_plain _ (updSchema_plain _ _)] at hr
  obtain ⟨e, rest, t, hd, henc⟩ := runSchema_prefix _ body enc hr
  have hlen := updSchema_prefix drop (updHasMax body) body e rest hd
  have hverb := decFields_verbatim _ (fun f hf => (updSchema_fields drop (updHasMax body) f hf).2)
    body e rest hd
  have hsame : updHasMax enc = updHasMax body := by
    unfold updHasMax
    rw [henc, hverb, List.getElem?_append_left (by omega), List.getElem?_append_left (by omega)]
  constructor
  · rw [schemaXOf_258, hsame]
  · rw [runSchemaX_plain _ (updSchema_plain _ _)]
    exact msg_fixpoint _ (fun f hf => (updSchema_fields drop (updHasMax body) f hf).1)
      (updSchema_noBigsize _ _) rfl body enc hr

/-! ### payload fixpoints -/

theorem beNat_beBytes2 (n : Nat) (h : n < 65536) : beNat (beBytes 2 n) = n := by
  rw [beNat_beBytes]; exact Nat.mod_eq_of_lt (by omega)

theorem decFailUpdate_fix (drop opt : Bool) (r q : Bytes) (h : decFailUpdate drop opt r = some q)
    (hlen : q.length ≤ 254) : decFailUpdate drop opt q = some q := by
  unfold decFailUpdate at h
  split at h
  · cases h
  · split at h
    · rename_i hopt
      cases h
      have : opt = true := by
        cases opt
        · simp at hopt
        · rfl
      subst this
      unfold decFailUpdate
      simp [beNat]
    · split at h
      · cases h
      · unfold decUpdBody at h
        split at h
        · cases h
        · rename_i sx hsx
          split at h
          · cases h
          · rename_i enc hrun
            cases h
            obtain ⟨hs2, hr2⟩ := update_fixpoint drop _ enc sx hsx hrun
            have hql : (encFailUpdate enc).length = enc.length + 4 := by
              simp [encFailUpdate, beBytes_length]; omega
            rw [hql] at hlen
            have ht2 : (encFailUpdate enc).take 2 = beBytes 2 (enc.length + 2) := by
              unfold encFailUpdate
              rw [List.append_assoc]
              exact List.take_left' (beBytes_length 2 _)
            have hd2 : (encFailUpdate enc).drop 2 = [1, 2] ++ enc := by
              unfold encFailUpdate
              rw [List.append_assoc]
              exact List.drop_left' (beBytes_length 2 _)
            have htk : ([1, 2] ++ enc : Bytes).take (enc.length + 2) = [1, 2] ++ enc :=
              List.take_of_length_le (by simp)
            have hz : (opt && (enc.length + 2 == 0)) = false := by
              have : (enc.length + 2 == 0) = false := by simp
              rw [this, Bool.and_false]
            have hstrip : stripUpdType ([1, 2] ++ enc) = enc := by simp [stripUpdType]
            unfold decFailUpdate
            rw [if_neg (by omega), ht2, hd2, beNat_beBytes2 _ (by omega), htk]
            simp only [hz, Bool.false_eq_true, if_false]
            rw [if_neg (by simp), hstrip]
            unfold decUpdBody
            rw [hs2]
            simp only [hr2]

theorem decFailDetails_fix (r p : Bytes) (h : decFailDetails r = some p) : decFailDetails p = some p := by
  unfold decFailDetails at h
  split at h
  · cases h; rfl
  · split at h
    · cases h
    · split at h
      · rename_i h8
        cases h
        have h8 : r.length = 8 := by simpa using h8
        have hl : (r ++ zeros 4).length = 12 := by simp [zeros, h8]
        unfold decFailDetails
        have hne : (r ++ zeros 4).isEmpty = false := by
          cases r with
          | nil => simp at h8
          | cons x xs => rfl
        simp [hne, hl]
      · split at h
        · cases h
        · rename_i hne h8 hn8 h12
          cases h
          unfold decFailDetails
          simp only [hne, Bool.false_eq_true, if_false]
          rw [if_neg h8, if_neg hn8, if_neg h12]

theorem decFailOnionPayload_fix (r p : Bytes) (h : decFailOnionPayload r = some p) :
    decFailOnionPayload p = some p := by
  unfold decFailOnionPayload at h
  split at h
  · cases h
  · rename_i v r1 hrd
    split at h
    · cases h
    · rename_i hl
      cases h
      obtain ⟨hv, _⟩ := readVarInt_ok hrd
      unfold decFailOnionPayload
      rw [readVarInt_writeVarInt v _ hv]
      have : (r1.take 2).length = 2 := by simp only [List.length_take]; omega
      simp only [this, Nat.lt_irrefl, if_false]
      rw [List.take_of_length_le (by omega)]

theorem decFailPayload_fix (drop : Bool) (lay : FLayout) (r p : Bytes)
    (h : decFailPayload drop lay r = some p) (hlen : p.length ≤ 254) :
    decFailPayload drop lay p = some p := by
  cases lay with
  | fixed n =>
    simp only [decFailPayload] at h ⊢
    split at h
    · cases h
    · rename_i hn
      cases h
      have : (r.take n).length = n := by simp only [List.length_take]; omega
      rw [if_neg (by omega), List.take_of_length_le (by omega)]
  | update pre opt =>
    simp only [decFailPayload] at h ⊢
    split at h
    · cases h
    · rename_i hn
      cases hq : decFailUpdate drop opt (r.drop pre) with
      | none => rw [hq] at h; cases h
      | some q =>
        rw [hq] at h
        simp only [Option.map_some, Option.some.injEq] at h
        subst h
        have hpl : (r.take pre).length = pre := by simp only [List.length_take]; omega
        have hq2 := decFailUpdate_fix drop opt _ q hq (by simp only [List.length_append] at hlen; omega)
        rw [if_neg (by simp only [List.length_append]; omega), List.drop_left' hpl, hq2,
          List.take_left' hpl]
        rfl
  | details => exact decFailDetails_fix r p h
  | onionPayload => exact decFailOnionPayload_fix r p h

/-! ### the framing -/

theorem frameFailure_length (m : Bytes) (h : m.length ≤ 256) : (frameFailure m).length = 260 := by
  simp only [frameFailure, zeros, List.length_append, beBytes_length, List.length_replicate]
  omega

/-- decoding a framed inner message reaches `DecodeFailureMessage` on exactly that message. -/
theorem modelFailureX_frame (drop : Bool) (msg : Bytes) (hlen : msg.length ≤ 256) :
    modelFailureX drop (frameFailure msg) = decInner drop msg := by
  have h1 : (frameFailure msg).take 2 = beBytes 2 msg.length := by
    unfold frameFailure
    rw [List.append_assoc, List.append_assoc]
    exact List.take_left' (beBytes_length 2 _)
  have h2 : (frameFailure msg).drop 2 =
      msg ++ (beBytes 2 (256 - msg.length) ++ zeros (256 - msg.length)) := by
    unfold frameFailure
    rw [List.append_assoc, List.append_assoc]
    exact List.drop_left' (beBytes_length 2 _)
  have h3 : (msg ++ (beBytes 2 (256 - msg.length) ++ zeros (256 - msg.length))).take msg.length = msg :=
    List.take_left' rfl
  have h4 : (msg ++ (beBytes 2 (256 - msg.length) ++ zeros (256 - msg.length))).drop msg.length =
      beBytes 2 (256 - msg.length) ++ zeros (256 - msg.length) := List.drop_left' rfl
  have h5 : (beBytes 2 (256 - msg.length) ++ zeros (256 - msg.length)).take 2 =
      beBytes 2 (256 - msg.length) := List.take_left' (beBytes_length 2 _)
  have h6 : (beBytes 2 (256 - msg.length) ++ zeros (256 - msg.length)).drop 2 =
      zeros (256 - msg.length) := List.drop_left' (beBytes_length 2 _)
  have hfl := frameFailure_length msg hlen
  have hz : ((zeros (256 - msg.length)).length != 256 - msg.length) = false := by
    simp [zeros]
  unfold modelFailureX
  rw [if_neg (by omega)]
  simp only [h1, h2, beNat_beBytes2 msg.length (by omega), h3, h4, h5, h6,
    beNat_beBytes2 (256 - msg.length) (by omega), hz, Bool.false_eq_true, if_false]
  rw [if_neg (by simp only [List.length_append, beBytes_length, zeros, List.length_replicate]; omega),
    if_neg (by simp only [List.length_append, beBytes_length, zeros, List.length_replicate]; omega),
    if_neg (by omega)]

/-! ### the theorems -/

/-- what `decInner` accepts, taken apart. -/
theorem decInner_accept (drop : Bool) (inner e : Bytes) (h : decInner drop inner = .accept e) :
    ∃ lay p, 2 ≤ inner.length ∧ failLayout (beNat (inner.take 2)) = some lay ∧
      decFailPayload drop lay (inner.drop 2) = some p ∧ (inner.take 2 ++ p).length ≤ 256 ∧
      e = frameFailure (inner.take 2 ++ p) := by
  unfold decInner at h
  split at h
  · cases h
  · rename_i hin
    split at h
    · cases h
    · rename_i lay hlay
      split at h
      · cases h
      · rename_i p hp
        split at h
        · cases h
        · rename_i hl
          cases h
          exact ⟨lay, p, by omega, hlay, hp, by omega, rfl⟩

/-- what `modelFailureX` accepts is what `DecodeFailureMessage` accepts on some inner message. -/
theorem modelFailureX_accept (drop : Bool) (b e : Bytes) (h : modelFailureX drop b = .accept e) :
    ∃ inner, decInner drop inner = .accept e := by
  unfold modelFailureX at h
  repeat' (split at h <;> try (cases h; done))
  exact ⟨_, h⟩

/-- the inner message `code ‖ p` with an already re-encoded payload decodes to itself. -/
theorem decInner_fix (drop : Bool) (inner e : Bytes) (h : decInner drop inner = .accept e) :
    ∃ msg, msg.length ≤ 256 ∧ e = frameFailure msg ∧ decInner drop msg = .accept e := by
  obtain ⟨lay, p, hin, hlay, hp, hlen, rfl⟩ := decInner_accept drop inner e h
  have hc : (inner.take 2).length = 2 := by simp only [List.length_take]; omega
  have hpl : p.length ≤ 254 := by simp only [List.length_append, hc] at hlen; omega
  refine ⟨inner.take 2 ++ p, hlen, rfl, ?_⟩
  unfold decInner
  rw [if_neg (by simp only [List.length_append, hc]; omega), List.take_left' hc, List.drop_left' hc, hlay]
  simp only [decFailPayload_fix drop lay _ p hp hpl]
  rw [if_neg (by omega)]

/-- `failure_fixpoint`: for every input, if `DecodeFailure` accepts and `EncodeFailure` writes
    `e`, then `e` is accepted and re-encodes to `e` itself — for EVERY registered failure code,
    including those that embed a channel_update (compatibility-mode type prefix, max-HTLC flag,
    TLV tail) and the BigSize type of invalid_onion_payload. -/
theorem failure_fixpoint (drop : Bool) (b e : Bytes) (h : modelFailureX drop b = .accept e) :
    modelFailureX drop e = .accept e := by
  obtain ⟨inner, hi⟩ := modelFailureX_accept drop b e h
  obtain ⟨msg, hlen, rfl, hfix⟩ := decInner_fix drop inner e hi
  rw [modelFailureX_frame drop msg hlen, hfix]

/-- `failure_size`: an accepted failure re-encodes to exactly 260 bytes (length prefix, the inner
    message padded to 256, pad-length prefix), whatever the input's own padding was. -/
theorem failure_size (drop : Bool) (b e : Bytes) (h : modelFailureX drop b = .accept e) :
    e.length = 260 := by
  obtain ⟨inner, hi⟩ := modelFailureX_accept drop b e h
  obtain ⟨msg, hlen, rfl, _⟩ := decInner_fix drop inner e hi
  exact frameFailure_length _ hlen

/-- only registered failure codes are ever accepted, and the code is written back unchanged. -/
theorem failure_code_registered (drop : Bool) (b e : Bytes)
    (h : modelFailureX drop b = .accept e) :
    ∃ lay, failLayout (beNat ((e.drop 2).take 2)) = some lay := by
  obtain ⟨inner, hi⟩ := modelFailureX_accept drop b e h
  obtain ⟨lay, p, hin, hlay, _, hlen, rfl⟩ := decInner_accept drop inner e hi
  have hc : (inner.take 2).length = 2 := by simp only [List.length_take]; omega
  refine ⟨lay, ?_⟩
  have : ((frameFailure (inner.take 2 ++ p)).drop 2).take 2 = inner.take 2 := by
    unfold frameFailure
    rw [List.append_assoc, List.append_assoc, List.drop_left' (beBytes_length 2 _),
      List.append_assoc, List.take_left' hc]
  rw [this, hlay]

/-! non-vacuity: a concrete accepted failure of each interesting layout -/

set_option maxRecDepth 100000 in
/-- invalid_onion_payload, type 0x0100 (3-byte BigSize), offset 0x0018, padded by the sender with
    300 bytes: accepted, re-encoded with the canonical 249-byte padding. -/
example : modelFailureX true ([0, 7, 0x40, 0x16, 0xfd, 1, 0, 0, 0x18] ++ [1, 44] ++ zeros 300) =
    .accept (frameFailure [0x40, 0x16, 0xfd, 1, 0, 0, 0x18]) := by rfl

set_option maxRecDepth 100000 in
/-- the same with the non-minimal BigSize `fd 00 fc` is rejected. -/
example : modelFailureX true ([0, 7, 0x40, 0x16, 0xfd, 0, 0xfc, 0, 0x18] ++ [0, 249] ++ zeros 249) =
    .reject := by rfl

set_option maxRecDepth 100000 in
/-- incorrect_or_unknown_payment_details without the tack-on fields: both are written back. -/
example : modelFailureX true ([0, 2, 0x40, 0x0f] ++ [0, 254] ++ zeros 254) =
    .accept (frameFailure ([0x40, 0x0f] ++ zeros 12)) := by rfl

end LndModel.C10.Wire
