/-
C10 — message-layer model: a generic schema interpreter for `lnwire`
messages whose `Decode` is `ReadElements(fixed fields…)` followed by an
extension tail.  A schema is an ordered list of field kinds plus the tail
discipline; `modelMessage` decodes wire bytes (2-byte type included) and
returns what `ReadMessage` ∘ `WriteMessage` does: reject, or accept with the
re-encoding.  Core Lean only.
-/
import LndModel.C10.Model

namespace LndModel.C10.Wire

def maxMsgBody : Nat := 65533

/-! ### secp256k1 public-key validity (`btcec.ParsePubKey` on 33 bytes) -/

def secpP : Nat := 0xFFFFFFFFFFFFFFFFFFFFFFFFFFFFFFFFFFFFFFFFFFFFFFFFFFFFFFFEFFFFFC2F
def secpN : Nat := 0xFFFFFFFFFFFFFFFFFFFFFFFFFFFFFFFEBAAEDCE6AF48A03BBFD25E8CD0364141

/-- square-and-multiply, `fuel` ≥ bit length of `e`. -/
def powMod (b e m : Nat) : Nat :=
  let rec go : Nat → Nat → Nat → Nat → Nat
    | 0, _, _, acc => acc
    | fuel + 1, b, e, acc =>
      if e = 0 then acc
      else go fuel (b * b % m) (e / 2) (if e % 2 = 1 then acc * b % m else acc)
  go 260 (b % m) e 1

/-- compressed point: format 02/03, x below the field prime, x³+7 a square. -/
def pubkeyOk (v : Bytes) : Bool :=
  match v with
  | f :: xs =>
    if xs.length != 32 then false
    else if !(f == 2 || f == 3) then false
    else
      let x := beNat xs
      if x ≥ secpP then false
      else
        let c := (x * x % secpP * x + 7) % secpP
        c == 0 || powMod c ((secpP - 1) / 2) secpP == 1
  | [] => false

/-- MuSig2 public nonce: two compressed points. -/
def nonceOk (v : Bytes) : Bool :=
  v.length == 66 && pubkeyOk (v.take 33) && pubkeyOk (v.drop 33)

/-- `ModNScalar.SetBytes` then `Bytes()`: reduction modulo the group order. -/
def normScalar (v : Bytes) : Bytes := beBytes 32 (beNat v % secpN)

/-! ### schemas -/

inductive Field where
  | fixed (n : Nat)     -- n raw bytes copied verbatim (ints, hashes, ids, Sig, outpoint, …)
  | bool                -- 1 byte, true iff == 1, written back as 0/1
  | varU16              -- u16 length + bytes (OpaqueReason, ErrorData, WarningData, Ping/PongPayload)
  | pubkey              -- *btcec.PublicKey, 33 bytes, must parse
  | sigs                -- []Sig: u16 count, count × 64 bytes
  | deliveryAddr        -- DeliveryAddress: u16 length ≤ 34 + bytes
  | alias               -- NodeAlias: 32 bytes, must be valid UTF-8, copied verbatim
  | features            -- RawFeatureVector: u16 length + bit vector; re-encoded with the minimal
                        -- number of bytes (bit indices are `uint16`: they wrap modulo 2^16)
  | addrs               -- []net.Addr: u16 length + address descriptors (replay only, no theorem)
  deriving DecidableEq

inductive Tail where
  | ignore              -- Decode reads no extension field; trailing bytes are dropped
  | opaque              -- ExtraOpaqueData kept verbatim
  | tlvAll              -- tail must be a canonical p2p TLV stream; every record is written back
                        -- (ParseAndExtractCustomRecords / MergeAndEncode, or a merging EncodeMessageExtraData)
  | tlvKnownOnly        -- tail must be canonical; only records of known types are written back
                        -- (EncodeMessageExtraData overwriting ExtraData)
  deriving DecidableEq

structure Schema where
  fields : List Field
  tail : Tail
  known : Known := []
  /-- value normalisation applied by decode∘encode of a known record (default: identity). -/
  norm : List (Nat × (Bytes → Bytes)) := []

inductive Outcome where
  | reject
  | accept (enc : Bytes)

/-- u16 count `l` (at most `maxLen`) followed by `mult * l` bytes; kept verbatim. -/
def decPrefixed (mult maxLen : Nat) (b : Bytes) : Option (Bytes × Bytes) :=
  if b.length < 2 then none
  else if beNat (b.take 2) > maxLen then none
  else if (b.drop 2).length < mult * beNat (b.take 2) then none
  else some (b.take (2 + mult * beNat (b.take 2)), (b.drop 2).drop (mult * beNat (b.take 2)))

/-! #### feature vectors (`RawFeatureVector.Decode/Encode`) -/

def orBytes : Bytes → Bytes → Bytes
  | [], ys => ys
  | xs, [] => xs
  | x :: xs, y :: ys => (x ||| y) :: orBytes xs ys

/-- little-endian byte string folded onto its first 8192 bytes: `FeatureBit` is a `uint16`, so
    bit `i` of an over-long vector sets feature `i mod 65536`. -/
def wrapLE : Nat → Bytes → Bytes
  | 0, le => le
  | fuel + 1, le => if le.length ≤ 8192 then le else orBytes (le.take 8192) (wrapLE fuel (le.drop 8192))

/-- minimal big-endian re-encoding of a decoded feature vector. -/
def featNorm (data : Bytes) : Bytes :=
  ((wrapLE 9 data.reverse).reverse).dropWhile (· == 0)

/-! #### address lists (`ReadElement *[]net.Addr`, `WriteNetAddrs`) -/

/-- payload length after the descriptor byte for the fixed-size address types. -/
def addrFixedLen (t : UInt8) : Option Nat :=
  if t == 1 then some 6 else if t == 2 then some 18 else if t == 3 then some 12
  else if t == 4 then some 37 else none

/-- walk the descriptors of an address blob and re-encode it: type-0 padding descriptors are
    dropped, tcp4/tcp6/tor-v2/tor-v3/DNS descriptors are kept verbatim, a descriptor of an unknown
    type keeps the whole remainder (`OpaqueAddrs`).  `none`: a descriptor is truncated. -/
def normAddrs : Nat → Bytes → Option Bytes
  | 0, _ => none
  | _ + 1, [] => some []
  | fuel + 1, t :: rest =>
    if t == 0 then normAddrs fuel rest
    else match addrFixedLen t with
      | some n =>
        if rest.length < n then none
        else (normAddrs fuel (rest.drop n)).map fun tl => t :: rest.take n ++ tl
      | none =>
        if t == 5 then
          match rest with
          | [] => none
          | hl :: r2 =>
            if r2.length < hl.toNat + 2 then none
            else (normAddrs fuel (r2.drop (hl.toNat + 2))).map fun tl =>
              t :: hl :: r2.take (hl.toNat + 2) ++ tl
        else some (t :: rest)

/-- u16-length-prefixed blob re-encoded through `norm`. -/
def decBlob (norm : Bytes → Option Bytes) (b : Bytes) : Option (Bytes × Bytes) :=
  if b.length < 2 then none
  else if (b.drop 2).length < beNat (b.take 2) then none
  else match norm ((b.drop 2).take (beNat (b.take 2))) with
    | none => none
    | some d => some (beBytes 2 d.length ++ d, (b.drop 2).drop (beNat (b.take 2)))

def utf8Ok (v : Bytes) : Bool := (ByteArray.mk v.toArray).validateUTF8

/-- decode one field: re-encoded bytes and remaining input. -/
def decField : Field → Bytes → Option (Bytes × Bytes)
  | .fixed n, b => if b.length < n then none else some (b.take n, b.drop n)
  | .bool, b => match b with
    | [] => none
    | x :: rest => some ([if x == 1 then 1 else 0], rest)
  | .varU16, b => decPrefixed 1 65535 b
  | .pubkey, b =>
    if b.length < 33 then none
    else if pubkeyOk (b.take 33) then some (b.take 33, b.drop 33) else none
  | .sigs, b => decPrefixed 64 65535 b
  | .deliveryAddr, b => decPrefixed 1 34 b
  | .alias, b =>
    if b.length < 32 then none
    else if utf8Ok (b.take 32) then some (b.take 32, b.drop 32) else none
  | .features, b => decBlob (fun d => some (featNorm d)) b
  | .addrs, b => decBlob (fun d => normAddrs (d.length + 1) d) b

def decFields : List Field → Bytes → Option (Bytes × Bytes)
  | [], b => some ([], b)
  | f :: fs, b =>
    match decField f b with
    | none => none
    | some (e, r) =>
      match decFields fs r with
      | none => none
      | some (es, r') => some (e ++ es, r')

def normRec (norm : List (Nat × (Bytes → Bytes))) (r : Rec) : Rec :=
  match norm.find? (·.1 == r.1) with
  | some (_, f) => (r.1, f r.2)
  | none => r

def runSchema (sc : Schema) (body : Bytes) : Outcome :=
  match decFields sc.fields body with
  | none => .reject
  | some (enc, rest) =>
    match sc.tail with
    | .ignore => .accept enc
    | .opaque => .accept (enc ++ rest)
    | .tlvAll =>
      match decodeStream sc.known true rest with
      | .error _ => .reject
      | .ok rs => .accept (enc ++ encodeStream (rs.map (normRec sc.norm)))
    | .tlvKnownOnly =>
      match decodeStream sc.known true rest with
      | .error _ => .reject
      | .ok rs =>
        let keep := rs.filter fun r => (lookupKind sc.known r.1).isSome
        .accept (enc ++ encodeStream (keep.map (normRec sc.norm)))

def kPub : Kind := .custom 33 pubkeyOk
def kNonce : Kind := .custom 66 nonceOk
def kPartialSig : Kind := .fixed 32
def kPartialSigNonce : Kind := .custom 98 (fun v => nonceOk (v.drop 32))
def normSigNonce (v : Bytes) : Bytes := normScalar (v.take 32) ++ v.drop 32

/-- Schemas, by message type.  `drop` selects what /repo HEAD does for the
    messages whose `Encode` goes through `EncodeMessageExtraData`. -/
def schemaOf (dropUnknown : Bool) (t : Nat) : Option Schema :=
  let keepTail : Tail := if dropUnknown then .tlvKnownOnly else .tlvAll
  match t with
  | 1 => some { fields := [.fixed 32, .varU16], tail := .ignore }              -- warning
  | 17 => some { fields := [.fixed 32, .varU16], tail := .ignore }             -- error
  | 18 => some { fields := [.fixed 2, .varU16], tail := .ignore }              -- ping
  | 19 => some { fields := [.varU16], tail := .ignore }                        -- pong
  | 2 => some { fields := [.fixed 32, .bool], tail := .opaque }                -- stfu
  | 134 => some { fields := [.fixed 32, .fixed 4], tail := .opaque }           -- update_fee
  | 131 => some { fields := [.fixed 32, .fixed 8, .varU16], tail := .opaque }  -- update_fail_htlc
  | 135 => some { fields := [.fixed 32, .fixed 8, .fixed 32, .fixed 2], tail := .opaque } -- update_fail_malformed_htlc
  | 262 => some { fields := [.fixed 32, .fixed 1], tail := .opaque }           -- reply_short_chan_ids_end
  | 259 => some { fields := [.fixed 32, .fixed 8, .fixed 64, .fixed 64], tail := .opaque } -- announcement_signatures
  | 130 => some { fields := [.fixed 32, .fixed 8, .fixed 32], tail := .tlvAll } -- update_fulfill_htlc
  | 128 => some { fields := [.fixed 32, .fixed 8, .fixed 8, .fixed 32, .fixed 4, .fixed 1366],
                  tail := .tlvAll, known := [(0, kPub)] }                       -- update_add_htlc
  | 38 => some { fields := [.fixed 32, .deliveryAddr], tail := .tlvAll, known := [(8, kNonce)] } -- shutdown
  | 132 => some { fields := [.fixed 32, .fixed 64, .sigs], tail := .tlvAll,
                  known := [(2, kPartialSigNonce)], norm := [(2, normSigNonce)] } -- commit_sig
  | 16 => some { fields := [.features, .features], tail := .tlvAll }             -- init
  | 256 => some { fields := [.fixed 256, .features, .fixed 32, .fixed 8, .fixed 132],
                  tail := .tlvAll }                                              -- channel_announcement
  | 257 => some { fields := [.fixed 64, .features, .fixed 4, .fixed 33, .fixed 3, .alias, .addrs],
                  tail := .tlvAll }                                              -- node_announcement
  | 265 => some { fields := [.fixed 32, .fixed 4, .fixed 4], tail := keepTail,
                  known := [(2, .fixed 4), (4, .fixed 4)] }                     -- gossip_timestamp_range
  | 39 => some { fields := [.fixed 32, .fixed 8, .fixed 64], tail := keepTail,
                 known := [(6, kPartialSig)], norm := [(6, normScalar)] }       -- closing_signed
  | 35 => some { fields := [.fixed 32, .fixed 64], tail := keepTail,
                 known := [(2, kPartialSigNonce)], norm := [(2, normSigNonce)] } -- funding_signed
  | 34 => some { fields := [.fixed 32, .fixed 34, .fixed 64], tail := keepTail,
                 known := [(2, kPartialSigNonce)], norm := [(2, normSigNonce)] } -- funding_created
  | 36 => some { fields := [.fixed 32, .pubkey], tail := keepTail,
                 known := [(0, kNonce), (1, .fixed 8), (2, kNonce), (4, kNonce)] } -- channel_ready
  | _ => none

/-- what /repo HEAD does (see `checks/C10.notes.md`). -/
def dropUnknownAtHead : Bool := true

/-- `ReadMessage` then `WriteMessage` on wire bytes, for the modelled types. -/
def modelMessage (b : Bytes) : Option Outcome :=
  if b.length < 2 then none else
  let t := beNat (b.take 2)
  match schemaOf dropUnknownAtHead t with
  | none => none
  | some sc =>
    match runSchema sc (b.drop 2) with
    | .reject => some .reject
    | .accept enc => some (.accept (b.take 2 ++ enc))

/-! ### onion failures (`DecodeFailure` / `EncodeFailure`), replay only -/

/-- payload size of the failure codes whose payload is absent or a fixed-size field
    (`makeEmptyOnionError` + the `Serializable` implementations); `none`: the code carries a
    channel_update / TLV payload (not modelled) or is not registered. -/
def failPayload (code : Nat) : Option Nat :=
  if [0x8001, 0x2002, 0x6002, 0x6003, 0x4008, 0x4009, 0x400a, 0x4010, 17, 21, 23].contains code
  then some 0
  else if [0xc004, 0xc005, 0xc006, 0xc018].contains code then some 32
  else if code == 18 then some 4
  else if code == 19 then some 8
  else none

def failRegisteredUnmodelled (code : Nat) : Bool :=
  [0x1007, 0x100b, 0x100c, 0x100d, 0x100e, 0x1014, 0x400f, 0x4016].contains code

/-- `DecodeFailure` then `EncodeFailure`: u16 length, inner message, u16 pad length, padding,
    nothing after it, length + padding ≥ 256; the inner message is code + payload (surplus inner
    bytes are ignored); `EncodeFailure` pads the inner message to 256 bytes with zeros. -/
def modelFailure (b : Bytes) : Option Outcome :=
  if b.length < 2 then some .reject else
  let l := beNat (b.take 2)
  let r1 := b.drop 2
  if r1.length < l then some .reject else
  let inner := r1.take l
  let r2 := r1.drop l
  if r2.length < 2 then some .reject else
  let padLen := beNat (r2.take 2)
  if (r2.drop 2).length != padLen then some .reject else
  if l + padLen < 256 then some .reject else
  if inner.length < 2 then some .reject else
  let code := beNat (inner.take 2)
  match failPayload code with
  | some n =>
    if (inner.drop 2).length < n then some .reject else
    let msg := inner.take (2 + n)
    some (.accept (beBytes 2 msg.length ++ msg ++ beBytes 2 (256 - msg.length) ++
      List.replicate (256 - msg.length) 0))
  | none => if failRegisteredUnmodelled code then none else some .reject

end LndModel.C10.Wire
