/-
C10 — message-layer model: a generic schema interpreter for `lnwire`
messages whose `Decode` is `ReadElements(fixed fields…)` followed by an
extension tail.  A schema is an ordered list of field kinds plus the tail
discipline; `modelMessage` decodes wire bytes (2-byte type included) and
returns what `ReadMessage` ∘ `WriteMessage` does: reject, or accept with the
re-encoding.  Core Lean only.
-/
import LndModel.C10.Model

namespace LndModel.C10.Wire

def maxMsgBody : Nat := 65533

/-! ### secp256k1 public-key validity (`btcec.ParsePubKey` on 33 bytes) -/

def secpP : Nat := 0xFFFFFFFFFFFFFFFFFFFFFFFFFFFFFFFFFFFFFFFFFFFFFFFFFFFFFFFEFFFFFC2F
def secpN : Nat := 0xFFFFFFFFFFFFFFFFFFFFFFFFFFFFFFFEBAAEDCE6AF48A03BBFD25E8CD0364141

/-- square-and-multiply, `fuel` ≥ bit length of `e`. -/
def powMod (b e m : Nat) : Nat :=
  let rec go : Nat → Nat → Nat → Nat → Nat
    | 0, _, _, acc => acc
    | fuel + 1, b, e, acc =>
      if e = 0 then acc
      else go fuel (b * b % m) (e / 2) (if e % 2 = 1 then acc * b % m else acc)
  go 260 (b % m) e 1

/-- compressed point: format 02/03, x below the field prime, x³+7 a square. -/
def pubkeyOk (v : Bytes) : Bool :=
  match v with
  | f :: xs =>
    if xs.length != 32 then false
    else if !(f == 2 || f == 3) then false
    else
      let x := beNat xs
      if x ≥ secpP then false
      else
        let c := (x * x % secpP * x + 7) % secpP
        c == 0 || powMod c ((secpP - 1) / 2) secpP == 1
  | [] => false

/-- MuSig2 public nonce: two compressed points. -/
def nonceOk (v : Bytes) : Bool :=
  v.length == 66 && pubkeyOk (v.take 33) && pubkeyOk (v.drop 33)

/-- `ModNScalar.SetBytes` then `Bytes()`: reduction modulo the group order. -/
def normScalar (v : Bytes) : Bytes := beBytes 32 (beNat v % secpN)

/-! ### schemas -/

inductive Field where
  | fixed (n : Nat)     -- n raw bytes copied verbatim (ints, hashes, ids, Sig, outpoint, …)
  | bool                -- 1 byte, true iff == 1, written back as 0/1
  | varU16              -- u16 length + bytes (OpaqueReason, ErrorData, WarningData, Ping/PongPayload)
  | pubkey              -- *btcec.PublicKey, 33 bytes, must parse
  | sigs                -- []Sig: u16 count, count × 64 bytes
  | deliveryAddr        -- DeliveryAddress: u16 length ≤ 34 + bytes
  | alias               -- NodeAlias: 32 bytes, must be valid UTF-8, copied verbatim
  | features            -- RawFeatureVector: u16 length + bit vector; re-encoded with the minimal
                        -- number of bytes (bit indices are `uint16`: they wrap modulo 2^16)
  | addrs               -- []net.Addr: u16 length + address descriptors (replay only, no theorem)
  | scids               -- encoded short-channel-id list (plain / empty zlib; replay only)
  deriving DecidableEq

inductive Tail where
  | ignore              -- Decode reads no extension field; trailing bytes are dropped
  | opaque              -- ExtraOpaqueData kept verbatim
  | tlvAll              -- tail must be a canonical p2p TLV stream; every record is written back
                        -- (ParseAndExtractCustomRecords / MergeAndEncode, or a merging EncodeMessageExtraData)
  | tlvKnownOnly        -- tail must be canonical; only records of known types are written back
                        -- (EncodeMessageExtraData overwriting ExtraData)
  deriving DecidableEq

structure Schema where
  fields : List Field
  tail : Tail
  known : Known := []
  /-- value normalisation applied by decode∘encode of a known record (default: identity). -/
  norm : List (Nat × (Bytes → Bytes)) := []

inductive Outcome where
  | reject
  | accept (enc : Bytes)

/-- u16 count `l` (at most `maxLen`) followed by `mult * l` bytes; kept verbatim. -/
def decPrefixed (mult maxLen : Nat) (b : Bytes) : Option (Bytes × Bytes) :=
  if b.length < 2 then none
  else if beNat (b.take 2) > maxLen then none
  else if (b.drop 2).length < mult * beNat (b.take 2) then none
  else some (b.take (2 + mult * beNat (b.take 2)), (b.drop 2).drop (mult * beNat (b.take 2)))

/-! #### feature vectors (`RawFeatureVector.Decode/Encode`) -/

def orBytes : Bytes → Bytes → Bytes
  | [], ys => ys
  | xs, [] => xs
  | x :: xs, y :: ys => (x ||| y) :: orBytes xs ys

/-- little-endian byte string folded onto its first 8192 bytes: `FeatureBit` is a `uint16`, so
    bit `i` of an over-long vector sets feature `i mod 65536`. -/
def wrapLE : Nat → Bytes → Bytes
  | 0, le => le
  | fuel + 1, le => if le.length ≤ 8192 then le else orBytes (le.take 8192) (wrapLE fuel (le.drop 8192))

/-- minimal big-endian re-encoding of a decoded feature vector. -/
def featNorm (data : Bytes) : Bytes :=
  ((wrapLE 9 data.reverse).reverse).dropWhile (· == 0)

/-! #### address lists (`ReadElement *[]net.Addr`, `WriteNetAddrs`) -/

/-- payload length after the descriptor byte for the fixed-size address types. -/
def addrFixedLen (t : UInt8) : Option Nat :=
  if t == 1 then some 6 else if t == 2 then some 18 else if t == 3 then some 12
  else if t == 4 then some 37 else none

/-- walk the descriptors of an address blob and re-encode it: type-0 padding descriptors are
    dropped, tcp4/tcp6/tor-v2/tor-v3/DNS descriptors are kept verbatim, a descriptor of an unknown
    type keeps the whole remainder (`OpaqueAddrs`).  `none`: a descriptor is truncated. -/
def normAddrs : Nat → Bytes → Option Bytes
  | 0, _ => none
  | _ + 1, [] => some []
  | fuel + 1, t :: rest =>
    if t == 0 then normAddrs fuel rest
    else match addrFixedLen t with
      | some n =>
        if rest.length < n then none
        else (normAddrs fuel (rest.drop n)).map fun tl => t :: rest.take n ++ tl
      | none =>
        if t == 5 then
          match rest with
          | [] => none
          | hl :: r2 =>
            if r2.length < hl.toNat + 2 then none
            else (normAddrs fuel (r2.drop (hl.toNat + 2))).map fun tl =>
              t :: hl :: r2.take (hl.toNat + 2) ++ tl
        else some (t :: rest)

/-- u16-length-prefixed blob re-encoded through `norm`. -/
def decBlob (norm : Bytes → Option Bytes) (b : Bytes) : Option (Bytes × Bytes) :=
  if b.length < 2 then none
  else if (b.drop 2).length < beNat (b.take 2) then none
  else match norm ((b.drop 2).take (beNat (b.take 2))) with
    | none => none
    | some d => some (beBytes 2 d.length ++ d, (b.drop 2).drop (beNat (b.take 2)))

def chunks (n : Nat) : Nat → Bytes → List Bytes
  | 0, _ => []
  | fuel + 1, b => if b.isEmpty || n == 0 then [] else b.take n :: chunks n fuel (b.drop n)

/-- short-channel-id list field of query_short_chan_ids / reply_channel_range
    (`decodeShortChanIDs` / `encodeShortChanIDs`), plain encoding and empty zlib payload;
    a non-empty zlib payload is outside the model (`scidsUnmodelled`). -/
def sortedStrictBE : List Bytes → Bool
  | [] => true
  | [_] => true
  | a :: b :: rest => decide (beNat a < beNat b) && sortedStrictBE (b :: rest)

def decScids (b : Bytes) : Option (Bytes × Bytes) :=
  if b.length < 2 then none else
  let l := beNat (b.take 2)
  let r := b.drop 2
  if l == 0 then some ([0, 1, 0], r)
  else if r.length < l then none
  else
    let blob := r.take l
    match blob with
    | [] => none
    | e :: ids =>
      if e == 0 then
        if ids.length % 8 != 0 then none
        else if !sortedStrictBE (chunks 8 (ids.length + 1) ids) then none
        else some (b.take (2 + l), r.drop l)
      else if e == 1 then
        if ids.isEmpty then some (b.take (2 + l), r.drop l) else none
      else none

def utf8Ok (v : Bytes) : Bool := (ByteArray.mk v.toArray).validateUTF8

/-- decode one field: re-encoded bytes and remaining input. -/
def decField : Field → Bytes → Option (Bytes × Bytes)
  | .fixed n, b => if b.length < n then none else some (b.take n, b.drop n)
  | .bool, b => match b with
    | [] => none
    | x :: rest => some ([if x == 1 then 1 else 0], rest)
  | .varU16, b => decPrefixed 1 65535 b
  | .pubkey, b =>
    if b.length < 33 then none
    else if pubkeyOk (b.take 33) then some (b.take 33, b.drop 33) else none
  | .sigs, b => decPrefixed 64 65535 b
  | .deliveryAddr, b => decPrefixed 1 34 b
  | .alias, b =>
    if b.length < 32 then none
    else if utf8Ok (b.take 32) then some (b.take 32, b.drop 32) else none
  | .features, b => decBlob (fun d => some (featNorm d)) b
  | .addrs, b => decBlob (fun d => normAddrs (d.length + 1) d) b
  | .scids, b => decScids b

def decFields : List Field → Bytes → Option (Bytes × Bytes)
  | [], b => some ([], b)
  | f :: fs, b =>
    match decField f b with
    | none => none
    | some (e, r) =>
      match decFields fs r with
      | none => none
      | some (es, r') => some (e ++ es, r')

def normRec (norm : List (Nat × (Bytes → Bytes))) (r : Rec) : Rec :=
  match norm.find? (·.1 == r.1) with
  | some (_, f) => (r.1, f r.2)
  | none => r

def runSchema (sc : Schema) (body : Bytes) : Outcome :=
  match decFields sc.fields body with
  | none => .reject
  | some (enc, rest) =>
    match sc.tail with
    | .ignore => .accept enc
    | .opaque => .accept (enc ++ rest)
    | .tlvAll =>
      match decodeStream sc.known true rest with
      | .error _ => .reject
      | .ok rs => .accept (enc ++ encodeStream (rs.map (normRec sc.norm)))
    | .tlvKnownOnly =>
      match decodeStream sc.known true rest with
      | .error _ => .reject
      | .ok rs =>
        let keep := rs.filter fun r => (lookupKind sc.known r.1).isSome
        .accept (enc ++ encodeStream (keep.map (normRec sc.norm)))

def kPub : Kind := .custom 33 pubkeyOk
def kNonce : Kind := .custom 66 nonceOk
def kPartialSig : Kind := .fixed 32
def kPartialSigNonce : Kind := .custom 98 (fun v => nonceOk (v.drop 32))
def normSigNonce (v : Bytes) : Bytes := normScalar (v.take 32) ++ v.drop 32

/-- Schemas, by message type.  `drop` selects what /repo HEAD does for the
    messages whose `Encode` goes through `EncodeMessageExtraData`. -/
def schemaOf (dropUnknown : Bool) (t : Nat) : Option Schema :=
  let keepTail : Tail := if dropUnknown then .tlvKnownOnly else .tlvAll
  match t with
  | 1 => some { fields := [.fixed 32, .varU16], tail := .ignore }              -- warning
  | 17 => some { fields := [.fixed 32, .varU16], tail := .ignore }             -- error
  | 18 => some { fields := [.fixed 2, .varU16], tail := .ignore }              -- ping
  | 19 => some { fields := [.varU16], tail := .ignore }                        -- pong
  | 2 => some { fields := [.fixed 32, .bool], tail := .opaque }                -- stfu
  | 134 => some { fields := [.fixed 32, .fixed 4], tail := .opaque }           -- update_fee
  | 131 => some { fields := [.fixed 32, .fixed 8, .varU16], tail := .opaque }  -- update_fail_htlc
  | 135 => some { fields := [.fixed 32, .fixed 8, .fixed 32, .fixed 2], tail := .opaque } -- update_fail_malformed_htlc
  | 262 => some { fields := [.fixed 32, .fixed 1], tail := .opaque }           -- reply_short_chan_ids_end
  | 259 => some { fields := [.fixed 32, .fixed 8, .fixed 64, .fixed 64], tail := .opaque } -- announcement_signatures
  | 130 => some { fields := [.fixed 32, .fixed 8, .fixed 32], tail := .tlvAll } -- update_fulfill_htlc
  | 128 => some { fields := [.fixed 32, .fixed 8, .fixed 8, .fixed 32, .fixed 4, .fixed 1366],
                  tail := .tlvAll, known := [(0, kPub)] }                       -- update_add_htlc
  | 38 => some { fields := [.fixed 32, .deliveryAddr], tail := .tlvAll, known := [(8, kNonce)] } -- shutdown
  | 132 => some { fields := [.fixed 32, .fixed 64, .sigs], tail := .tlvAll,
                  known := [(2, kPartialSigNonce)], norm := [(2, normSigNonce)] } -- commit_sig
  | 16 => some { fields := [.features, .features], tail := .tlvAll }             -- init
  | 256 => some { fields := [.fixed 256, .features, .fixed 32, .fixed 8, .fixed 132],
                  tail := .tlvAll }                                              -- channel_announcement
  | 257 => some { fields := [.fixed 64, .features, .fixed 4, .fixed 33, .fixed 3, .alias, .addrs],
                  tail := .tlvAll }                                              -- node_announcement
  | 265 => some { fields := [.fixed 32, .fixed 4, .fixed 4], tail := keepTail,
                  known := [(2, .fixed 4), (4, .fixed 4)] }                     -- gossip_timestamp_range
  | 39 => some { fields := [.fixed 32, .fixed 8, .fixed 64], tail := keepTail,
                 known := [(6, kPartialSig)], norm := [(6, normScalar)] }       -- closing_signed
  | 35 => some { fields := [.fixed 32, .fixed 64], tail := keepTail,
                 known := [(2, kPartialSigNonce)], norm := [(2, normSigNonce)] } -- funding_signed
  | 34 => some { fields := [.fixed 32, .fixed 34, .fixed 64], tail := keepTail,
                 known := [(2, kPartialSigNonce)], norm := [(2, normSigNonce)] } -- funding_created
  | 36 => some { fields := [.fixed 32, .pubkey], tail := keepTail,
                 known := [(0, kNonce), (1, .fixed 8), (2, kNonce), (4, kNonce)] } -- channel_ready
  | _ => none

/-! ### extended schemas (replay level)

`SchemaX` adds what the remaining registered message types need on top of a plain `Schema`:
an optional second block of fixed fields (channel_reestablish), value predicates of
variable-length known records, known records the encoder does not re-emit (empty lists / default
values), records the encoder always emits, cross-record constraints, and a keep-predicate for
unknown records (the signed ranges of the pure-TLV gossip messages).  `runSchemaX` with all of
these neutral IS `runSchema` (`WireProps.runSchemaX_plain`). -/

structure SchemaX extends Schema where
  /-- second block of fields, read only when at least one byte follows the first block. -/
  optional : List Field := []
  /-- extra value predicate of a known record (record decoders of variable-length values). -/
  recOk : List (Nat × (Bytes → Bool)) := []
  /-- known record dropped by the encoder when the predicate holds for its value. -/
  skip : List (Nat × (Bytes → Bool)) := []
  /-- records the encoder always writes: value used when the input has no such record. -/
  always : List (Nat × Bytes) := []
  /-- constraint over the re-encoded fixed part and the record list. -/
  check : Bytes → List Rec → Bool := fun _ _ => true
  /-- `some p`: an unknown record is written back iff `p type` (overrides the tail discipline). -/
  keepUnknown : Option (Nat → Bool) := none
  /-- record types whose `norm` entry models a RECORDED DEFECT of the code, not a documented
      normalisation (the monitor does not exempt them). -/
  quirk : List Nat := []

def insertRec (r : Rec) : List Rec → List Rec
  | [] => [r]
  | x :: xs => if r.1 < x.1 then r :: x :: xs else x :: insertRec r xs

def findFn {α : Type} (l : List (Nat × α)) (t : Nat) : Option α :=
  (l.find? (·.1 == t)).map (·.2)

/-- the records written back for the decoded record list `rs`. -/
def tlvOut (sx : SchemaX) (rs : List Rec) : List Rec :=
  let kept := rs.filter fun r =>
    if (lookupKind sx.known r.1).isSome then
      match findFn sx.skip r.1 with
      | some p => !(p r.2)
      | none => true
    else match sx.keepUnknown with
      | some p => p r.1
      | none => sx.tail != .tlvKnownOnly
  let normed := kept.map (normRec sx.norm)
  sx.always.foldl (fun acc a => if rs.any (·.1 == a.1) then acc else insertRec a acc) normed

def runTailX (sx : SchemaX) (enc rest : Bytes) : Outcome :=
  match sx.tail with
  | .ignore => .accept enc
  | .opaque => .accept (enc ++ rest)
  | _ =>
    match decodeStream sx.known true rest with
    | .error _ => .reject
    | .ok rs =>
      if !(rs.all fun r => match findFn sx.recOk r.1 with | some p => p r.2 | none => true) then .reject
      else if !(sx.check enc rs) then .reject
      else .accept (enc ++ encodeStream (tlvOut sx rs))

def runSchemaX (sx : SchemaX) (body : Bytes) : Outcome :=
  match decFields sx.fields body with
  | none => .reject
  | some (enc, rest) =>
    if sx.optional.isEmpty then runTailX sx enc rest
    else if rest.isEmpty then .accept enc
    else match decFields sx.optional rest with
      | none => .reject
      | some (enc2, rest2) => runTailX sx (enc ++ enc2) rest2

/-! #### record kinds of the remaining messages -/

def hasType (rs : List Rec) (ts : List Nat) : Bool := rs.any fun r => ts.contains r.1

/-- LocalNoncesData (revoke_and_ack / channel_reestablish record 22): ≤ 16 entries of
    txid(32) ‖ nonce(66), nonces valid, txids distinct; written back sorted by txid. -/
def localNoncesOk (v : Bytes) : Bool :=
  v.length % 98 == 0 && v.length / 98 ≤ 16 &&
    (let es := chunks 98 17 v
     es.all (fun e => nonceOk (e.drop 32)) && (es.map (·.take 32)).Nodup)

def bytesLt : Bytes → Bytes → Bool
  | [], [] => false
  | [], _ => true
  | _, [] => false
  | x :: xs, y :: ys => if x < y then true else if y < x then false else bytesLt xs ys

def insertSorted (e : Bytes) : List Bytes → List Bytes
  | [] => [e]
  | x :: xs => if bytesLt (e.take 32) (x.take 32) then e :: x :: xs else x :: insertSorted e xs

def localNoncesNorm (v : Bytes) : Bytes :=
  ((chunks 98 17 v).foldl (fun acc e => insertSorted e acc) []).flatten

/-- is the id list at offset `off` zlib-compressed with a payload (not modelled)? -/
def scidsUnmodelled (body : Bytes) (off : Nat) : Bool :=
  let b := body.drop off
  b.length ≥ 4 && beNat (b.take 2) ≥ 2 && (b.drop 2).length ≥ beNat (b.take 2) && b[2]? == some 1

def tsOk (v : Bytes) : Bool := v.length ≥ 1 && v[0]? == some 0 && (v.length - 1) % 8 == 0

def dynKnown : Known :=
  [(0, .bigsize), (2, .bigsize), (4, .bigsize), (6, .bigsize), (8, .fixed 2), (10, .fixed 2), (12, .varBytes)]

def chanOpenKnown : Known := [(0, .varBytes), (1, .varBytes), (4, kNonce), (65536, .fixed 4)]

/-- BOLT-7 v2 pure-TLV messages: unknown records survive re-encoding iff they lie in the signed
    ranges (`ExtraSignedFieldsFromTypeMap` / `InUnsignedRange`). -/
def inSignedRange (t : Nat) : Bool := !((160 ≤ t && t < 1000000000) || t ≥ 3000000000)

def zeros (n : Nat) : Bytes := List.replicate n 0

/-- chaincfg.MainNetParams.GenesisHash as stored in a `chainhash.Hash`. -/
def mainnetGenesis : Bytes :=
  [0x6f, 0xe2, 0x8c, 0x0a, 0xb6, 0xf1, 0xb3, 0x72, 0xc1, 0xa6, 0xa2, 0x46, 0xae, 0x63, 0xf7, 0x4f,
   0x93, 0x1e, 0x83, 0x65, 0xe1, 0x5a, 0x08, 0x9c, 0x68, 0xd6, 0x19, 0x00, 0x00, 0x00, 0x00, 0x00]

def hostCharOk (c : UInt8) : Bool :=
  (97 ≤ c && c ≤ 122) || (65 ≤ c && c ≤ 90) || (48 ≤ c && c ≤ 57) || c == 45 || c == 46

/-- `dnsAddressDecoder` + `ValidateDNSAddr`: hostname ‖ port(2). -/
def dnsOk (v : Bytes) : Bool :=
  v.length ≥ 3 && v.length - 2 ≤ 255 && (v.take (v.length - 2)).all hostCharOk &&
    beNat (v.drop (v.length - 2)) != 0

def alias2Ok (v : Bytes) : Bool := v.length ≥ 1 && v.length ≤ 32 && utf8Ok v

/-- does /repo HEAD still have the defects of the node_announcement_2 address-list record decoders
    (finding F-lnwire-addr-list-record-decoders)?  Flip to `false` once they are fixed: the model
    then keeps the lists verbatim and rejects values cut short by the end of the message. -/
def addrListDefectAtHead : Bool := false

/-- HEAD behaviour of `ipv4AddrsDecoder` / `ipv6AddrsDecoder` (finding
    F-lnwire-addr-list-decoders): every decoded `net.TCPAddr.IP` aliases ONE shared buffer, so all
    addresses of the list end up with the IP of the last one (ports are kept). -/
def aliasIpNorm (n : Nat) (v : Bytes) : Bytes :=
  let es := chunks n (v.length + 1) v
  match es.getLast? with
  | none => v
  | some l => (es.map fun e => l.take (n - 2) ++ e.drop (n - 2)).flatten

/-- HEAD behaviour of the same decoders and `torV3AddrsDecoder` (`r.Read` instead of
    `io.ReadFull`): a list record whose value is cut short by the END OF THE MESSAGE by exactly one
    byte is accepted.  Such inputs are outside the model (monitor clause `tail-not-canonical`). -/
def shortReadUnmodelled : Nat → Bytes → Bool
  | 0, _ => false
  | fuel + 1, b =>
    match readVarInt b with
    | .ok (t, r1) =>
      match readVarInt r1 with
      | .ok (l, r2) =>
        if r2.length < l then (t == 5 || t == 7 || t == 9) && r2.length + 1 == l
        else shortReadUnmodelled fuel (r2.drop l)
      | .error _ => false
    | .error _ => false

/-- extended schemas of the remaining registered message types (and the custom range). -/
def schemaXOf (dropUnknown : Bool) (t : Nat) (body : Bytes) : Option SchemaX :=
  let keepTail : Tail := if dropUnknown then .tlvKnownOnly else .tlvAll
  match t with
  | 777 => some { fields := [.fixed 32, .fixed 64], tail := .opaque }            -- kickoff_sig
  | 513 => some { fields := [.pubkey, .varU16], tail := .ignore }                -- onion_message
  | 115 => some { fields := [.fixed 32, .features], tail := .opaque }            -- dyn_reject
  | 263 => some { fields := [.fixed 32, .fixed 4, .fixed 4], tail := keepTail,
                  known := [(1, .varBytes)], norm := [(1, featNorm)] }           -- query_channel_range
  | 133 => some { fields := [.fixed 32, .fixed 32, .pubkey], tail := keepTail,
                  known := [(4, kNonce), (22, .varBytes)], recOk := [(22, localNoncesOk)],
                  norm := [(22, localNoncesNorm)] }                              -- revoke_and_ack
  | 136 => some { fields := [.fixed 32, .fixed 8, .fixed 8], optional := [.fixed 32, .pubkey],
                  tail := keepTail, known := [(4, kNonce), (20, .fixed 8), (22, .varBytes)],
                  recOk := [(22, localNoncesOk)], norm := [(22, localNoncesNorm)] } -- channel_reestablish
  | 258 =>                                                                        -- channel_update
    let base : List Field := [.fixed 64, .fixed 32, .fixed 8, .fixed 4, .fixed 1, .fixed 1, .fixed 2,
      .fixed 8, .fixed 4, .fixed 4]
    let hasMax := match body[108]? with | some f => f.toNat % 2 == 1 | none => false
    some { fields := if hasMax then base ++ [.fixed 8] else base, tail := keepTail,
           known := [(55555, .fixed 8)] }
  | 32 => some { fields := [.fixed 32, .fixed 32, .fixed 8, .fixed 8, .fixed 8, .fixed 8, .fixed 8,
                   .fixed 8, .fixed 4, .fixed 2, .fixed 2, .pubkey, .pubkey, .pubkey, .pubkey, .pubkey,
                   .pubkey, .fixed 1],
                 tail := keepTail, known := chanOpenKnown, norm := [(1, featNorm)],
                 always := [(0, [])] }                                           -- open_channel
  | 33 => some { fields := [.fixed 32, .fixed 8, .fixed 8, .fixed 8, .fixed 8, .fixed 4, .fixed 2,
                   .fixed 2, .pubkey, .pubkey, .pubkey, .pubkey, .pubkey, .pubkey],
                 tail := keepTail, known := chanOpenKnown, norm := [(1, featNorm)],
                 always := [(0, [])] }                                           -- accept_channel
  | 40 => some { fields := [.fixed 32, .deliveryAddr, .deliveryAddr, .fixed 8, .fixed 4], tail := keepTail,
                 known := [(1, .fixed 64), (2, .fixed 64), (3, .fixed 64), (5, kPartialSigNonce),
                   (6, kPartialSigNonce), (7, kPartialSigNonce)],
                 norm := [(5, normSigNonce), (6, normSigNonce), (7, normSigNonce)],
                 check := fun _ rs => !(hasType rs [1, 2, 3] && hasType rs [5, 6, 7]) } -- closing_complete
  | 41 => some { fields := [.fixed 32, .deliveryAddr, .deliveryAddr, .fixed 8, .fixed 4], tail := keepTail,
                 known := [(1, .fixed 64), (2, .fixed 64), (3, .fixed 64), (5, kPartialSig),
                   (6, kPartialSig), (7, kPartialSig), (22, kNonce)],
                 norm := [(5, normScalar), (6, normScalar), (7, normScalar)],
                 check := fun _ rs => !(hasType rs [1, 2, 3] && hasType rs [5, 6, 7]) } -- closing_sig
  | 111 => some { fields := [.fixed 32], tail := .tlvAll, known := dynKnown,
                  norm := [(12, featNorm)] }                                     -- dyn_propose
  | 113 => some { fields := [.fixed 32, .fixed 64], tail := .tlvAll, known := [(14, kNonce)] } -- dyn_ack
  | 117 => some { fields := [.fixed 32, .fixed 64], tail := .tlvAll,
                  known := dynKnown ++ [(14, kNonce)], norm := [(12, featNorm)] } -- dyn_commit
  | 261 => some { fields := [.fixed 32, .scids], tail := .opaque }               -- query_short_chan_ids
  | 264 => some { fields := [.fixed 32, .fixed 4, .fixed 4, .fixed 1, .scids], tail := keepTail,
                  known := [(1, .varBytes)], recOk := [(1, tsOk)],
                  skip := [(1, fun v => v.length ≤ 1)],
                  check := fun enc rs =>
                    match rs.find? (·.1 == 1) with
                    | none => true
                    | some r => (r.2.length - 1) / 8 == (beNat ((enc.drop 41).take 2) - 1) / 8 } -- reply_channel_range
  | 260 => some { fields := [], tail := .tlvAll, keepUnknown := some inSignedRange,
                  known := [(0, .fixed 32), (2, .fixed 8), (4, kPartialSig)], norm := [(4, normScalar)],
                  always := [(0, zeros 32), (2, zeros 8), (4, zeros 32)] }      -- announcement_signatures_2
  | 267 => some { fields := [], tail := .tlvAll, keepUnknown := some inSignedRange,
                  known := [(0, .fixed 32), (2, .varBytes), (4, .fixed 8), (6, .fixed 8), (8, .fixed 33),
                    (10, .fixed 33), (12, .fixed 33), (14, .fixed 33), (16, .fixed 32), (18, .fixed 34),
                    (160, .fixed 64)],
                  norm := [(2, featNorm)], skip := [(0, fun v => v == mainnetGenesis)],
                  always := [(2, []), (4, zeros 8), (6, zeros 8), (8, zeros 33), (10, zeros 33),
                    (18, zeros 34), (160, zeros 64)] }                           -- channel_announcement_2
  | 269 => some { fields := [], tail := .tlvAll, keepUnknown := some inSignedRange,
                  known := [(0, .varBytes), (1, .fixed 3), (2, .fixed 4), (3, .varBytes), (4, .fixed 33),
                    (5, .varBytes), (7, .varBytes), (9, .varBytes), (11, .varBytes), (160, .fixed 64)],
                  norm := if addrListDefectAtHead then [(0, featNorm), (5, aliasIpNorm 6), (7, aliasIpNorm 18)]
                          else [(0, featNorm)],
                  quirk := [5, 7],
                  recOk := [(3, alias2Ok), (5, fun v => v.length % 6 == 0), (7, fun v => v.length % 18 == 0),
                    (9, fun v => v.length % 37 == 0), (11, dnsOk)],
                  always := [(0, []), (2, zeros 4), (4, zeros 33), (160, zeros 64)] } -- node_announcement_2
  | 271 => some { fields := [], tail := .tlvAll, keepUnknown := some inSignedRange,
                  known := [(0, .fixed 32), (2, .fixed 8), (4, .fixed 4), (6, .fixed 1), (8, .varBytes),
                    (10, .fixed 2), (12, .bigsize), (14, .bigsize), (16, .fixed 4), (18, .fixed 4),
                    (160, .fixed 64), (55555, .fixed 8)],
                  recOk := [(8, fun v => v.length ≤ 1)], norm := [(8, fun _ => [])],
                  skip := [(0, fun v => v == mainnetGenesis), (6, fun v => v == [0]),
                    (10, fun v => v == [0, 80]), (12, fun v => v == [1]),
                    (16, fun v => v == [0, 0, 3, 232]), (18, fun v => v == [0, 0, 0, 1])],
                  always := [(2, zeros 8), (4, zeros 4), (14, [0]), (160, zeros 64)] } -- channel_update_2
  | _ =>
    if t ≥ 32768 then some { fields := [], tail := .opaque }                     -- custom range
    else (schemaOf dropUnknown t).map fun sc => { toSchema := sc }

/-- what /repo HEAD does (see `checks/C10.notes.md`). -/
def dropUnknownAtHead : Bool := true

/-- `ReadMessage` then `WriteMessage` on wire bytes, for the modelled types.  `none`: the input is
    outside the model (a zlib-compressed id list with a payload), or the type is not registered. -/
def modelMessage (b : Bytes) : Option Outcome :=
  if b.length < 2 then none else
  let t := beNat (b.take 2)
  let body := b.drop 2
  if (t == 261 && scidsUnmodelled body 32) || (t == 264 && scidsUnmodelled body 41) ||
      (t == 269 && addrListDefectAtHead && shortReadUnmodelled (body.length + 1) body) then none else
  match schemaXOf dropUnknownAtHead t body with
  | none => none
  | some sx =>
    match runSchemaX sx body with
    | .reject => some .reject
    | .accept enc => some (.accept (b.take 2 ++ enc))

/-- the extension tail of a message whose schema has a TLV tail (used by the monitor only to
    LOCATE the tail; the verdict on it comes from the driver's naive recogniser). -/
def tlvTailOf (b : Bytes) : Option (SchemaX × Bytes) :=
  if b.length < 2 then none else
  let t := beNat (b.take 2)
  let body := b.drop 2
  match schemaXOf dropUnknownAtHead t body with
  | none => none
  | some sx =>
    if sx.tail == .ignore || sx.tail == .opaque then none else
    match decFields sx.fields body with
    | none => none
    | some (_, rest) =>
      if sx.optional.isEmpty then some (sx, rest)
      else if rest.isEmpty then none
      else match decFields sx.optional rest with
        | none => none
        | some (_, rest2) => some (sx, rest2)

/-! ### onion failures (`DecodeFailure` / `EncodeFailure`), replay only -/

/-- payload size of the failure codes whose payload is absent or a fixed-size field
    (`makeEmptyOnionError` + the `Serializable` implementations); `none`: the code carries a
    channel_update / TLV payload (not modelled) or is not registered. -/
def failPayload (code : Nat) : Option Nat :=
  if [0x8001, 0x2002, 0x6002, 0x6003, 0x4008, 0x4009, 0x400a, 0x4010, 17, 21, 23].contains code
  then some 0
  else if [0xc004, 0xc005, 0xc006, 0xc018].contains code then some 32
  else if code == 18 then some 4
  else if code == 19 then some 8
  else none

def failRegisteredUnmodelled (code : Nat) : Bool :=
  [0x1007, 0x100b, 0x100c, 0x100d, 0x100e, 0x1014, 0x400f, 0x4016].contains code

/-- `DecodeFailure` then `EncodeFailure`: u16 length, inner message, u16 pad length, padding,
    nothing after it, length + padding ≥ 256; the inner message is code + payload (surplus inner
    bytes are ignored); `EncodeFailure` pads the inner message to 256 bytes with zeros. -/
def modelFailure (b : Bytes) : Option Outcome :=
  if b.length < 2 then some .reject else
  let l := beNat (b.take 2)
  let r1 := b.drop 2
  if r1.length < l then some .reject else
  let inner := r1.take l
  let r2 := r1.drop l
  if r2.length < 2 then some .reject else
  let padLen := beNat (r2.take 2)
  if (r2.drop 2).length != padLen then some .reject else
  if l + padLen < 256 then some .reject else
  if inner.length < 2 then some .reject else
  let code := beNat (inner.take 2)
  match failPayload code with
  | some n =>
    if (inner.drop 2).length < n then some .reject else
    let msg := inner.take (2 + n)
    some (.accept (beBytes 2 msg.length ++ msg ++ beBytes 2 (256 - msg.length) ++
      List.replicate (256 - msg.length) 0))
  | none => if failRegisteredUnmodelled code then none else some .reject

end LndModel.C10.Wire
