/-
C10 — message-layer theorems over the generic schema interpreter (`Wire.lean`):
proved ONCE by induction on the schema from per-field-kind lemmas.

  msg_fixpoint : whatever a schema accepts re-encodes to bytes that the schema accepts again with
                 the very same re-encoding (canonical fixpoint of ReadMessage ∘ WriteMessage)
  msg_size     : the re-encoding is never longer than the input (so ≤ 65535 whenever the input is)

Both for every schema whose known records re-encode verbatim (`norm = []`); the four modelled
messages that carry a MuSig2 partial signature (scalar reduced mod n on decode) are covered by the
replay only.
-/
import LndModel.C10.Wire
import LndModel.C10.Props

namespace LndModel.C10.Wire

open LndModel.C10

/-! ### per-kind lemmas -/

theorem take_prefix_fix (k : Nat) (b r' : Bytes) (h : ¬ b.length < k) :
    ¬ (b.take k ++ r').length < k ∧ (b.take k ++ r').take k = b.take k ∧
      (b.take k ++ r').drop k = r' := by
  have hl : (b.take k).length = k := by simp only [List.length_take]; omega
  refine ⟨by simp only [List.length_append, hl]; omega, ?_, ?_⟩
  · rw [List.take_append_of_le_length (by omega)]
    exact List.take_of_length_le (by omega)
  · exact List.drop_left' hl

theorem decPrefixed_fix (mult maxLen : Nat) (b e r : Bytes)
    (h : decPrefixed mult maxLen b = some (e, r)) :
    (∀ r', decPrefixed mult maxLen (e ++ r') = some (e, r')) ∧ e.length + r.length = b.length := by
  unfold decPrefixed at h
  split at h
  · cases h
  · rename_i h2
    split at h
    · cases h
    · rename_i hmax
      split at h
      · cases h
      · rename_i hlen
        cases h
        -- abbreviations
        generalize hl : beNat (List.take 2 b) = l at *
        simp only [List.length_drop] at hlen
        have hk : ¬ b.length < 2 + mult * l := by omega
        have he : (b.take (2 + mult * l)).length = 2 + mult * l := by
          simp only [List.length_take]; omega
        refine ⟨fun r' => ?_, ?_⟩
        · obtain ⟨f1, f2, f3⟩ := take_prefix_fix (2 + mult * l) b r' hk
          have ht2 : (b.take (2 + mult * l) ++ r').take 2 = b.take 2 := by
            rw [List.take_append_of_le_length (by omega), List.take_take]
            congr 1
            omega
          unfold decPrefixed
          rw [if_neg (by simp only [List.length_append, he]; omega), ht2, hl, if_neg hmax,
            if_neg (by simp only [List.length_drop, List.length_append, he]; omega)]
          rw [f2]
          congr 2
          rw [List.drop_drop]
          exact f3
        · simp only [List.length_take, List.length_drop]
          omega

theorem decField_fix (f : Field) (b e r : Bytes) (h : decField f b = some (e, r)) :
    (∀ r', decField f (e ++ r') = some (e, r')) ∧ e.length + r.length = b.length := by
  cases f with
  | fixed n =>
    simp only [decField] at h
    split at h
    · cases h
    · rename_i hn
      cases h
      refine ⟨fun r' => ?_, by simp only [List.length_take, List.length_drop]; omega⟩
      obtain ⟨f1, f2, f3⟩ := take_prefix_fix n b r' hn
      simp only [decField]
      rw [if_neg f1, f2, f3]
  | bool =>
    simp only [decField] at h
    split at h
    · cases h
    · rename_i x rest
      cases h
      refine ⟨fun r' => ?_, by simp only [List.length_cons, List.length_nil]; omega⟩
      by_cases hx : x = 1
      · subst hx; rfl
      · have : (x == 1) = false := by simp [hx]
        simp only [this, decField, List.cons_append, List.nil_append]
        rfl
  | varU16 => exact decPrefixed_fix 1 65535 b e r h
  | sigs => exact decPrefixed_fix 64 65535 b e r h
  | deliveryAddr => exact decPrefixed_fix 1 34 b e r h
  | pubkey =>
    simp only [decField] at h
    split at h
    · cases h
    · rename_i hn
      split at h
      · rename_i hpk
        cases h
        refine ⟨fun r' => ?_, by simp only [List.length_take, List.length_drop]; omega⟩
        obtain ⟨f1, f2, f3⟩ := take_prefix_fix 33 b r' hn
        simp only [decField]
        rw [if_neg f1, f2, f3, if_pos hpk]
      · cases h

theorem decFields_fix (fs : List Field) :
    ∀ (b e r : Bytes), decFields fs b = some (e, r) →
      (∀ r', decFields fs (e ++ r') = some (e, r')) ∧ e.length + r.length = b.length := by
  induction fs with
  | nil =>
    intro b e r h
    simp only [decFields] at h
    cases h
    exact ⟨fun r' => by simp [decFields], by simp⟩
  | cons f fs ih =>
    intro b e r h
    simp only [decFields] at h
    split at h
    · cases h
    · rename_i e1 r1 h1
      split at h
      · cases h
      · rename_i es r2 h2
        cases h
        obtain ⟨g1, g2⟩ := decField_fix f b e1 r1 h1
        obtain ⟨g3, g4⟩ := ih r1 es r h2
        refine ⟨fun r' => ?_, by simp only [List.length_append]; omega⟩
        simp only [decFields, List.append_assoc, g1, g3]

/-! ### the TLV tail -/

theorem canonical_weaken (known : Known) (p2p : Bool) :
    ∀ (rs : List Rec) (lo lo' : Nat), lo' ≤ lo → Canonical known p2p lo rs →
      Canonical known p2p lo' rs := by
  intro rs
  cases rs with
  | nil => intros; trivial
  | cons r rs =>
    intro lo lo' hle h
    exact ⟨Nat.le_trans hle h.1, h.2.1, h.2.2⟩

theorem canonical_filter (known : Known) (p2p : Bool) (p : Rec → Bool) :
    ∀ (rs : List Rec) (lo : Nat), Canonical known p2p lo rs →
      Canonical known p2p lo (rs.filter p) := by
  intro rs
  induction rs with
  | nil => intros; trivial
  | cons r rs ih =>
    intro lo h
    obtain ⟨hlo, hok, hrest⟩ := h
    simp only [List.filter_cons]
    split
    · exact ⟨hlo, hok, ih _ hrest⟩
    · exact canonical_weaken known p2p _ (r.1 + 1) lo (by omega) (ih _ hrest)

theorem encodeStream_filter_length (p : Rec → Bool) (rs : List Rec) :
    (encodeStream (rs.filter p)).length ≤ (encodeStream rs).length := by
  induction rs with
  | nil => simp
  | cons r rs ih =>
    simp only [List.filter_cons]
    split
    · simp only [encodeStream, List.length_append]; omega
    · simp only [encodeStream, List.length_append]; omega

theorem map_normRec_nil (rs : List Rec) : rs.map (normRec []) = rs := by
  induction rs with
  | nil => rfl
  | cons r rs ih => simp [normRec, ih]

/-! ### the two schema theorems -/

/-- `msg_fixpoint`: for every schema (any field list, any tail discipline, any set of known
    records, verbatim re-encoding of record values) and every body: if the message is accepted
    with re-encoding `e`, then `e` is accepted and re-encodes to `e` itself. -/
theorem msg_fixpoint (sc : Schema) (hnorm : sc.norm = []) (body e : Bytes)
    (h : runSchema sc body = .accept e) : runSchema sc e = .accept e := by
  unfold runSchema at h ⊢
  split at h
  · cases h
  · rename_i enc rest hdec
    obtain ⟨hfix, _⟩ := decFields_fix sc.fields body enc rest hdec
    split at h
    · -- ignore
      cases h
      have := hfix []
      rw [List.append_nil] at this
      simp only [this]
    · -- opaque
      cases h
      simp only [hfix]
    · -- tlvAll
      split at h
      · cases h
      · rename_i rs hrs
        cases h
        rw [hnorm, map_normRec_nil, stream_encode_decode sc.known true rest rs hrs]
        simp only [hfix, hrs, map_normRec_nil, stream_encode_decode sc.known true rest rs hrs]
    · -- tlvKnownOnly
      split at h
      · cases h
      · rename_i rs hrs
        cases h
        rw [hnorm, map_normRec_nil]
        have hcan := ((stream_accept_iff_canonical sc.known true rest rs).mp hrs).1
        have hk := canonical_filter sc.known true (fun r => (lookupKind sc.known r.1).isSome) rs 0 hcan
        simp only [hfix, stream_decode_encode sc.known true _ hk, List.filter_filter, Bool.and_self,
          map_normRec_nil]

/-- `msg_size`: the re-encoding is never longer than the body that was decoded; in particular a
    message of at most 65535 bytes re-encodes to at most 65535 bytes. -/
theorem msg_size (sc : Schema) (hnorm : sc.norm = []) (body e : Bytes)
    (h : runSchema sc body = .accept e) : e.length ≤ body.length := by
  unfold runSchema at h
  split at h
  · cases h
  · rename_i enc rest hdec
    obtain ⟨_, hlen⟩ := decFields_fix sc.fields body enc rest hdec
    split at h
    · cases h; omega
    · cases h; simp only [List.length_append]; omega
    · split at h
      · cases h
      · rename_i rs hrs
        cases h
        rw [hnorm, map_normRec_nil, stream_encode_decode sc.known true rest rs hrs]
        simp only [List.length_append]; omega
    · split at h
      · cases h
      · rename_i rs hrs
        cases h
        rw [hnorm, map_normRec_nil]
        have := encodeStream_filter_length (fun r => (lookupKind sc.known r.1).isSome) rs
        rw [stream_encode_decode sc.known true rest rs hrs] at this
        simp only [List.length_append]; omega

/-- the 15 modelled message types whose schema has no value normalisation: `msg_fixpoint` and
    `msg_size` apply to them as they stand (both behaviours of `EncodeMessageExtraData`). -/
theorem modelled_schemas_verbatim :
    ∀ t ∈ [1, 17, 18, 19, 2, 134, 131, 135, 262, 259, 130, 128, 38, 265, 36],
      (schemaOf true t).map (·.norm.length) = some 0 ∧
      (schemaOf false t).map (·.norm.length) = some 0 := by
  decide

/-- non-vacuity: `update_fee` (type 134) body of 36 bytes + 3 opaque bytes is accepted. -/
example : ∃ e, runSchema { fields := [.fixed 32, .fixed 4], tail := .opaque }
    (List.replicate 36 0 ++ [1, 2, 3]) = .accept e := ⟨_, rfl⟩

end LndModel.C10.Wire
