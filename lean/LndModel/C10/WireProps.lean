/-
C10 — message-layer theorems over the generic schema interpreter (`Wire.lean`):
proved ONCE by induction on the schema from per-field-kind lemmas.

  msg_fixpoint : whatever a schema accepts re-encodes to bytes that the schema accepts again with
                 the very same re-encoding (canonical fixpoint of ReadMessage ∘ WriteMessage)
  msg_size     : the re-encoding is never longer than the input (so ≤ 65535 whenever the input is)
  msg_lossless_tail / msg_lossless : for the tail disciplines `opaque` and `tlvAll` the extension
                 tail (unknown records, trailing extension bytes) is reproduced byte for byte, and
                 if the schema has no `bool` field the whole re-encoding EQUALS the input body
  tlvKnownOnly_is_lossy / lossy_tail_types_at_head : the `tlvKnownOnly` tail (HEAD's
                 `EncodeMessageExtraData`) is NOT lossless; which modelled types have it at HEAD

Field kinds covered by the theorems: `fixed, bool, varU16, pubkey, sigs, deliveryAddr, alias`
(`Field.proved`); `features` and `addrs` (non-verbatim re-encodings) are replay-only.

All for schemas whose fields are of proved kinds, whose known records re-encode verbatim
(`norm = []`) and use no `DBigSize` decoder (`NoBigsize`); the four modelled messages that carry a
MuSig2 partial signature (scalar reduced mod n on decode) and the three with feature vectors /
address lists (init, channel_announcement, node_announcement) are covered by the replay only.
-/
import LndModel.C10.Wire
import LndModel.C10.Props

namespace LndModel.C10.Wire

open LndModel.C10

/-! ### per-kind lemmas -/

theorem take_prefix_fix (k : Nat) (b r' : Bytes) (h : ¬ b.length < k) :
    ¬ (b.take k ++ r').length < k ∧ (b.take k ++ r').take k = b.take k ∧
      (b.take k ++ r').drop k = r' := by
  have hl : (b.take k).length = k := by simp only [List.length_take]; omega
  refine ⟨by simp only [List.length_append, hl]; omega, ?_, ?_⟩
  · rw [List.take_append_of_le_length (by omega)]
    exact List.take_of_length_le (by omega)
  · exact List.drop_left' hl

theorem decPrefixed_fix (mult maxLen : Nat) (b e r : Bytes)
    (h : decPrefixed mult maxLen b = some (e, r)) :
    (∀ r', decPrefixed mult maxLen (e ++ r') = some (e, r')) ∧ e.length + r.length = b.length := by
  unfold decPrefixed at h
  split at h
  · cases h
  · rename_i h2
    split at h
    · cases h
    · rename_i hmax
      split at h
      · cases h
      · rename_i hlen
        cases h
        -- abbreviations
        generalize hl : beNat (List.take 2 b) = l at *
        simp only [List.length_drop] at hlen
        have hk : ¬ b.length < 2 + mult * l := by omega
        have he : (b.take (2 + mult * l)).length = 2 + mult * l := by
          simp only [List.length_take]; omega
        refine ⟨fun r' => ?_, ?_⟩
        · obtain ⟨f1, f2, f3⟩ := take_prefix_fix (2 + mult * l) b r' hk
          have ht2 : (b.take (2 + mult * l) ++ r').take 2 = b.take 2 := by
            rw [List.take_append_of_le_length (by omega), List.take_take]
            congr 1
            omega
          unfold decPrefixed
          rw [if_neg (by simp only [List.length_append, he]; omega), ht2, hl, if_neg hmax,
            if_neg (by simp only [List.length_drop, List.length_append, he]; omega)]
          rw [f2]
          congr 2
          rw [List.drop_drop]
          exact f3
        · simp only [List.length_take, List.length_drop]
          omega

theorem decPrefixed_verbatim (mult maxLen : Nat) (b e r : Bytes)
    (h : decPrefixed mult maxLen b = some (e, r)) : b = e ++ r := by
  unfold decPrefixed at h
  split at h
  · cases h
  · split at h
    · cases h
    · split at h
      · cases h
      · cases h
        rw [List.drop_drop]
        exact (List.take_append_drop _ b).symm

/-- field kinds for which the per-kind lemmas are proved. -/
def Field.proved : Field → Bool
  | .features => false
  | .addrs => false
  | .scids => false
  | _ => true

/-- field kinds whose re-encoding is the consumed bytes themselves. -/
def Field.verbatim : Field → Bool
  | .features => false
  | .addrs => false
  | .scids => false
  | .bool => false
  | _ => true

theorem decField_fix (f : Field) (hp : f.proved = true) (b e r : Bytes)
    (h : decField f b = some (e, r)) :
    (∀ r', decField f (e ++ r') = some (e, r')) ∧ e.length + r.length = b.length := by
  cases f with
  | features => simp [Field.proved] at hp
  | addrs => simp [Field.proved] at hp
  | scids => simp [Field.proved] at hp
  | alias =>
    simp only [decField] at h
    split at h
    · cases h
    · rename_i hn
      split at h
      · rename_i hpk
        cases h
        refine ⟨fun r' => ?_, by simp only [List.length_take, List.length_drop]; omega⟩
        obtain ⟨f1, f2, f3⟩ := take_prefix_fix 32 b r' hn
        simp only [decField]
        rw [if_neg f1, f2, f3, if_pos hpk]
      · cases h
  | fixed n =>
    simp only [decField] at h
    split at h
    · cases h
    · rename_i hn
      cases h
      refine ⟨fun r' => ?_, by simp only [List.length_take, List.length_drop]; omega⟩
      obtain ⟨f1, f2, f3⟩ := take_prefix_fix n b r' hn
      simp only [decField]
      rw [if_neg f1, f2, f3]
  | bool =>
    simp only [decField] at h
    split at h
    · cases h
    · rename_i x rest
      cases h
      refine ⟨fun r' => ?_, by simp only [List.length_cons, List.length_nil]; omega⟩
      by_cases hx : x = 1
      · subst hx; rfl
      · have : (x == 1) = false := by simp [hx]
        simp only [this, decField, List.cons_append, List.nil_append]
        rfl
  | varU16 => exact decPrefixed_fix 1 65535 b e r h
  | sigs => exact decPrefixed_fix 64 65535 b e r h
  | deliveryAddr => exact decPrefixed_fix 1 34 b e r h
  | pubkey =>
    simp only [decField] at h
    split at h
    · cases h
    · rename_i hn
      split at h
      · rename_i hpk
        cases h
        refine ⟨fun r' => ?_, by simp only [List.length_take, List.length_drop]; omega⟩
        obtain ⟨f1, f2, f3⟩ := take_prefix_fix 33 b r' hn
        simp only [decField]
        rw [if_neg f1, f2, f3, if_pos hpk]
      · cases h

theorem decField_verbatim (f : Field) (hv : f.verbatim = true) (b e r : Bytes)
    (h : decField f b = some (e, r)) : b = e ++ r := by
  cases f with
  | features => simp [Field.verbatim] at hv
  | addrs => simp [Field.verbatim] at hv
  | scids => simp [Field.verbatim] at hv
  | bool => simp [Field.verbatim] at hv
  | fixed n =>
    simp only [decField] at h
    split at h
    · cases h
    · cases h; exact (List.take_append_drop n b).symm
  | alias =>
    simp only [decField] at h
    split at h
    · cases h
    · split at h
      · cases h; exact (List.take_append_drop 32 b).symm
      · cases h
  | pubkey =>
    simp only [decField] at h
    split at h
    · cases h
    · split at h
      · cases h; exact (List.take_append_drop 33 b).symm
      · cases h
  | varU16 => exact decPrefixed_verbatim _ _ _ _ _ h
  | sigs => exact decPrefixed_verbatim _ _ _ _ _ h
  | deliveryAddr => exact decPrefixed_verbatim _ _ _ _ _ h

theorem decField_suffix (f : Field) (hp : f.proved = true) (b e r : Bytes)
    (h : decField f b = some (e, r)) : r = b.drop e.length := by
  by_cases hv : f.verbatim = true
  · have := decField_verbatim f hv b e r h
    rw [this]
    exact (List.drop_left' rfl).symm
  · cases f with
    | bool =>
      simp only [decField] at h
      split at h
      · cases h
      · cases h; rfl
    | features => simp [Field.proved] at hp
    | addrs => simp [Field.proved] at hp
    | scids => simp [Field.proved] at hp
    | fixed n => simp [Field.verbatim] at hv
    | varU16 => simp [Field.verbatim] at hv
    | pubkey => simp [Field.verbatim] at hv
    | sigs => simp [Field.verbatim] at hv
    | deliveryAddr => simp [Field.verbatim] at hv
    | alias => simp [Field.verbatim] at hv

theorem decFields_fix (fs : List Field) (hp : ∀ f ∈ fs, f.proved = true) :
    ∀ (b e r : Bytes), decFields fs b = some (e, r) →
      (∀ r', decFields fs (e ++ r') = some (e, r')) ∧ e.length + r.length = b.length := by
  induction fs with
  | nil =>
    intro b e r h
    simp only [decFields] at h
    cases h
    exact ⟨fun r' => by simp [decFields], by simp⟩
  | cons f fs ih =>
    intro b e r h
    simp only [decFields] at h
    split at h
    · cases h
    · rename_i e1 r1 h1
      split at h
      · cases h
      · rename_i es r2 h2
        cases h
        obtain ⟨g1, g2⟩ := decField_fix f (hp f (by simp)) b e1 r1 h1
        obtain ⟨g3, g4⟩ := ih (fun g hg => hp g (by simp [hg])) r1 es r h2
        refine ⟨fun r' => ?_, by simp only [List.length_append]; omega⟩
        simp only [decFields, List.append_assoc, g1, g3]

/-! ### the TLV tail -/

theorem canonical_weaken (known : Known) (p2p : Bool) :
    ∀ (rs : List Rec) (lo lo' : Nat), lo' ≤ lo → Canonical known p2p lo rs →
      Canonical known p2p lo' rs := by
  intro rs
  cases rs with
  | nil => intros; trivial
  | cons r rs =>
    intro lo lo' hle h
    exact ⟨Nat.le_trans hle h.1, h.2.1, h.2.2⟩

theorem canonical_filter (known : Known) (p2p : Bool) (p : Rec → Bool) :
    ∀ (rs : List Rec) (lo : Nat), Canonical known p2p lo rs →
      Canonical known p2p lo (rs.filter p) := by
  intro rs
  induction rs with
  | nil => intros; trivial
  | cons r rs ih =>
    intro lo h
    obtain ⟨hlo, hok, hrest⟩ := h
    simp only [List.filter_cons]
    split
    · exact ⟨hlo, hok, ih _ hrest⟩
    · exact canonical_weaken known p2p _ (r.1 + 1) lo (by omega) (ih _ hrest)

theorem encodeStream_filter_length (p : Rec → Bool) (rs : List Rec) :
    (encodeStream (rs.filter p)).length ≤ (encodeStream rs).length := by
  induction rs with
  | nil => simp
  | cons r rs ih =>
    simp only [List.filter_cons]
    split
    · simp only [encodeStream, List.length_append]; omega
    · simp only [encodeStream, List.length_append]; omega

theorem map_normRec_nil (rs : List Rec) : rs.map (normRec []) = rs := by
  induction rs with
  | nil => rfl
  | cons r rs ih => simp [normRec, ih]

/-! ### the two schema theorems -/

/-- `msg_fixpoint`: for every schema (any field list, any tail discipline, any set of known
    records, verbatim re-encoding of record values) and every body: if the message is accepted
    with re-encoding `e`, then `e` is accepted and re-encodes to `e` itself. -/
theorem msg_fixpoint (sc : Schema) (hp : ∀ f ∈ sc.fields, f.proved = true)
    (hnb : NoBigsize sc.known) (hnorm : sc.norm = []) (body e : Bytes)
    (h : runSchema sc body = .accept e) : runSchema sc e = .accept e := by
  unfold runSchema at h ⊢
  split at h
  · cases h
  · rename_i enc rest hdec
    obtain ⟨hfix, _⟩ := decFields_fix sc.fields hp body enc rest hdec
    split at h
    · -- ignore
      cases h
      have := hfix []
      rw [List.append_nil] at this
      simp only [this]
    · -- opaque
      cases h
      simp only [hfix]
    · -- tlvAll
      split at h
      · cases h
      · rename_i rs hrs
        cases h
        rw [hnorm, map_normRec_nil, stream_encode_decode sc.known true hnb rest rs hrs]
        simp only [hfix, hrs, map_normRec_nil, stream_encode_decode sc.known true hnb rest rs hrs]
    · -- tlvKnownOnly
      split at h
      · cases h
      · rename_i rs hrs
        cases h
        rw [hnorm, map_normRec_nil]
        have hcan := ((stream_accept_iff_canonical sc.known true hnb rest rs).mp hrs).1
        have hk := canonical_filter sc.known true (fun r => (lookupKind sc.known r.1).isSome) rs 0 hcan
        simp only [hfix, stream_decode_encode sc.known true hnb _ hk, List.filter_filter, Bool.and_self,
          map_normRec_nil]

/-- `msg_size`: the re-encoding is never longer than the body that was decoded; in particular a
    message of at most 65535 bytes re-encodes to at most 65535 bytes. -/
theorem msg_size (sc : Schema) (hp : ∀ f ∈ sc.fields, f.proved = true)
    (hnb : NoBigsize sc.known) (hnorm : sc.norm = []) (body e : Bytes)
    (h : runSchema sc body = .accept e) : e.length ≤ body.length := by
  unfold runSchema at h
  split at h
  · cases h
  · rename_i enc rest hdec
    obtain ⟨_, hlen⟩ := decFields_fix sc.fields hp body enc rest hdec
    split at h
    · cases h; omega
    · cases h; simp only [List.length_append]; omega
    · split at h
      · cases h
      · rename_i rs hrs
        cases h
        rw [hnorm, map_normRec_nil, stream_encode_decode sc.known true hnb rest rs hrs]
        simp only [List.length_append]; omega
    · split at h
      · cases h
      · rename_i rs hrs
        cases h
        rw [hnorm, map_normRec_nil]
        have := encodeStream_filter_length (fun r => (lookupKind sc.known r.1).isSome) rs
        rw [stream_encode_decode sc.known true hnb rest rs hrs] at this
        simp only [List.length_append]; omega

/-! ### losslessness of the `opaque` and `tlvAll` tails -/

theorem decFields_verbatim (fs : List Field) (hv : ∀ f ∈ fs, f.verbatim = true) :
    ∀ (b e r : Bytes), decFields fs b = some (e, r) → b = e ++ r := by
  induction fs with
  | nil =>
    intro b e r h
    simp only [decFields] at h
    cases h
    rfl
  | cons f fs ih =>
    intro b e r h
    simp only [decFields] at h
    split at h
    · cases h
    · rename_i e1 r1 h1
      split at h
      · cases h
      · rename_i es r2 h2
        cases h
        rw [decField_verbatim f (hv f (by simp)) b e1 r1 h1,
          ih (fun g hg => hv g (by simp [hg])) r1 es r h2, List.append_assoc]

/-- the rest returned by the field decoder is always a suffix of the body (any proved kind). -/
theorem decFields_suffix (fs : List Field) (hp : ∀ f ∈ fs, f.proved = true) (b e r : Bytes)
    (h : decFields fs b = some (e, r)) : r = b.drop e.length := by
  induction fs generalizing b e r with
  | nil =>
    simp only [decFields] at h
    cases h
    rfl
  | cons f fs ih =>
    simp only [decFields] at h
    split at h
    · cases h
    · rename_i e1 r1 h1
      split at h
      · cases h
      · rename_i es r2 h2
        cases h
        have hs1 : r1 = b.drop e1.length := decField_suffix f (hp f (by simp)) b e1 r1 h1
        have hs2 := ih (fun g hg => hp g (by simp [hg])) r1 es r h2
        rw [hs2, hs1, List.drop_drop, List.length_append]

/-- `msg_lossless_tail`: for the tail disciplines `opaque` (ExtraOpaqueData kept verbatim) and
    `tlvAll` (ParseAndExtractCustomRecords / MergeAndEncode) every byte of the extension tail —
    unknown records, custom records, trailing extension data — is reproduced: the re-encoding is
    (re-encoded fixed fields) ++ (the input's tail, byte for byte), the fixed part has the same
    length as in the input. -/
theorem msg_lossless_tail (sc : Schema) (hp : ∀ f ∈ sc.fields, f.proved = true)
    (hnb : NoBigsize sc.known) (hnorm : sc.norm = [])
    (htail : sc.tail = .opaque ∨ sc.tail = .tlvAll) (body e : Bytes)
    (h : runSchema sc body = .accept e) :
    ∃ enc, decFields sc.fields body = some (enc, body.drop enc.length) ∧
      e = enc ++ body.drop enc.length ∧ enc.length ≤ body.length := by
  unfold runSchema at h
  split at h
  · cases h
  · rename_i enc rest hdec
    have hsuf := decFields_suffix sc.fields hp body enc rest hdec
    have hlen := (decFields_fix sc.fields hp body enc rest hdec).2
    refine ⟨enc, by rw [← hsuf]; exact hdec, ?_, by omega⟩
    rcases htail with ht | ht
    · rw [ht] at h
      simp only at h
      cases h
      rw [hsuf]
    · rw [ht] at h
      simp only at h
      split at h
      · cases h
      · rename_i rs hrs
        cases h
        rw [hnorm, map_normRec_nil, stream_encode_decode sc.known true hnb rest rs hrs, hsuf]

/-- `msg_lossless`: if moreover no field is a `bool` (the only proved kind with a non-verbatim
    re-encoding: a byte ≠ 0,1 is written back as 0), decode-then-encode is the IDENTITY on accepted
    bodies: nothing is lost, nothing is normalised. -/
theorem msg_lossless (sc : Schema) (hv : ∀ f ∈ sc.fields, f.verbatim = true)
    (hnb : NoBigsize sc.known) (hnorm : sc.norm = [])
    (htail : sc.tail = .opaque ∨ sc.tail = .tlvAll) (body e : Bytes)
    (h : runSchema sc body = .accept e) : e = body := by
  unfold runSchema at h
  split at h
  · cases h
  · rename_i enc rest hdec
    have hb := decFields_verbatim sc.fields hv body enc rest hdec
    rcases htail with ht | ht
    · rw [ht] at h
      simp only at h
      cases h
      exact hb.symm
    · rw [ht] at h
      simp only at h
      split at h
      · cases h
      · rename_i rs hrs
        cases h
        rw [hnorm, map_normRec_nil, stream_encode_decode sc.known true hnb rest rs hrs]
        exact hb.symm

/-- `tlvKnownOnly_is_lossy`: the `tlvKnownOnly` tail (what `EncodeMessageExtraData` does at
    /repo HEAD, finding F-lnwire-unknown-tlv-dropped) is NOT lossless: closing_signed (type 39)
    with an all-zero body and the unknown odd record `09 02 aa bb` is accepted, and the
    re-encoding has lost the record although it is a canonical fixpoint (`msg_fixpoint`). -/
theorem tlvKnownOnly_is_lossy :
    ∃ sc body e, schemaOf true 39 = some sc ∧ runSchema sc body = .accept e ∧
      body = List.replicate 104 0 ++ [0x09, 0x02, 0xaa, 0xbb] ∧ e = List.replicate 104 0 := by
  refine ⟨_, _, _, rfl, ?_, rfl, rfl⟩
  simp [runSchema, decFields, decField, decodeStream, decodeLoop, readVarInt, isBigsizeFor,
    lookupKind, lenOkFor, valOkFor, maxRecordSize, two64, encodeStream, kPartialSig]

/-- `lossy_tail_types_at_head`: which modelled message types have the lossy tail at HEAD
    (`dropUnknownAtHead = true`): gossip_timestamp_range 265, closing_signed 39, funding_signed 35,
    funding_created 34, channel_ready 36; every other modelled type has `ignore`, `opaque` or
    `tlvAll`.  (Not modelled but lossy in the same way at HEAD, see the known finding:
    32 33 40 41 133 136 258 263 264.) -/
theorem lossy_tail_types_at_head :
    (∀ t ∈ [265, 39, 35, 34, 36], (schemaOf true t).map (·.tail) = some Tail.tlvKnownOnly) ∧
    (∀ t ∈ [1, 17, 18, 19, 2, 134, 131, 135, 262, 259, 130, 128, 38, 132, 16, 256, 257],
      (schemaOf true t).map (·.tail) ≠ some Tail.tlvKnownOnly) ∧
    (∀ t ∈ [265, 39, 35, 34, 36], (schemaOf false t).map (·.tail) = some Tail.tlvAll) := by
  decide

/-- the modelled schemas to which `msg_lossless` applies as it stands (verbatim fields, `opaque`
    or `tlvAll` tail, no value normalisation, no BigSize record): update_fee 134,
    update_fail_htlc 131, update_fail_malformed_htlc 135, reply_short_chan_ids_end 262,
    announcement_signatures 259, update_fulfill_htlc 130, update_add_htlc 128, shutdown 38. -/
theorem lossless_schemas :
    ∀ t ∈ [134, 131, 135, 262, 259, 130, 128, 38],
      (schemaOf true t).map (fun sc => sc.fields.all Field.verbatim && sc.norm.length == 0 &&
        (sc.tail == .opaque || sc.tail == .tlvAll) &&
        sc.known.all (fun p => !p.2.isBigsize)) = some true := by
  decide

/-- the 15 modelled message types whose schema has no value normalisation: `msg_fixpoint` and
    `msg_size` apply to them as they stand (both behaviours of `EncodeMessageExtraData`). -/
theorem modelled_schemas_verbatim :
    ∀ t ∈ [1, 17, 18, 19, 2, 134, 131, 135, 262, 259, 130, 128, 38, 265, 36],
      (schemaOf true t).map (·.norm.length) = some 0 ∧
      (schemaOf false t).map (·.norm.length) = some 0 := by
  decide

/-- non-vacuity: `update_fee` (type 134) body of 36 bytes + 3 opaque bytes is accepted. -/
example : ∃ e, runSchema { fields := [.fixed 32, .fixed 4], tail := .opaque }
    (List.replicate 36 0 ++ [1, 2, 3]) = .accept e := ⟨_, rfl⟩

end LndModel.C10.Wire
