/-
C10 — VALUE level of the primitive TLV record codecs (`tlv/primitive.go`, `tlv/truncated.go`):
what number / flag a decoder yields and what bytes an encoder writes, not only whether the
bytes are acceptable (`Kind.lenOk` / `Kind.valOk` in `Model.lean`).  Core Lean only.
-/
import LndModel.C10.Model

namespace LndModel.C10

/-- `ETUint16/32/64`: big-endian without leading zero bytes (`n` = width of the Go type). -/
def encTUint (n v : Nat) : Bytes := (beBytes n v).dropWhile (· == 0)

/-- `SizeTUint16/32/64`. -/
def sizeTUint (n v : Nat) : Nat := (encTUint n v).length

inductive PErr where
  | typeLen       -- ErrTypeForDecoding: declared length not acceptable
  | notMinimal    -- ErrTUintNotMinimal
  | value         -- value rejected (DBool: byte other than 0/1)
  deriving DecidableEq, Repr

/-- `DTUint16/32/64` on exactly the record's value bytes. -/
def decTUint (n : Nat) (b : Bytes) : Except PErr Nat :=
  if b.length > n then .error .typeLen
  else match b with
    | [] => .ok 0
    | x :: _ => if x == 0 then .error .notMinimal else .ok (beNat b)

/-- `EUint8/16/32/64`. -/
def encUint (n v : Nat) : Bytes := beBytes n v

/-- `DUint8/16/32/64` on exactly the record's value bytes. -/
def decUint (n : Nat) (b : Bytes) : Except PErr Nat :=
  if b.length != n then .error .typeLen else .ok (beNat b)

/-- `EBool`. -/
def encBool (v : Bool) : Bytes := [if v then 1 else 0]

/-- `DBool`. -/
def decBool (b : Bytes) : Except PErr Bool :=
  match b with
  | [x] => if x == 0 then .ok false else if x == 1 then .ok true else .error .value
  | _ => .error .typeLen

end LndModel.C10
