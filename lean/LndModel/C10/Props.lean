/-
C10 — property theorems for the BigSize varint and the TLV stream codec
(model: `Model.lean`; helper lemmas and the specification predicates `RecOk`,
`Canonical` : `Lemmas.lean`).  All statements are for ALL byte strings / values /
record lists; nothing is bounded.

Specification vocabulary (defined in Lemmas.lean):
  RecOk known p2p r      r.type < 2^64, |r.value| < 2^64, (p2p → |r.value| ≤ 65535),
                         and the decoder of a known type accepts length and value
  Canonical known p2p lo rs   every record RecOk, first type ≥ lo, each next type ≥ previous + 1
-/
import LndModel.C10.Lemmas

namespace LndModel.C10

/-! ## BigSize -/

/-- `varint_decode_encode`: every 64-bit value written by `WriteVarInt` is read back by
    `ReadVarInt`, which consumes exactly the bytes written and nothing of what follows. -/
theorem varint_decode_encode (v : Nat) (rest : Bytes) (hv : v < two64) :
    readVarInt (writeVarInt v ++ rest) = .ok (v, rest) :=
  readVarInt_writeVarInt v rest hv

/-- `varint_encode_decode`: whatever `ReadVarInt` accepts is a 64-bit value and the bytes it
    consumed are exactly `WriteVarInt` of that value: accepted ⇒ canonical (minimal) encoding. -/
theorem varint_encode_decode (b rest : Bytes) (v : Nat) (h : readVarInt b = .ok (v, rest)) :
    v < two64 ∧ b = writeVarInt v ++ rest :=
  readVarInt_ok h

/-- `varint_accept_iff_canonical`: complete characterisation of acceptance. -/
theorem varint_accept_iff_canonical (b rest : Bytes) (v : Nat) :
    readVarInt b = .ok (v, rest) ↔ (v < two64 ∧ b = writeVarInt v ++ rest) := by
  constructor
  · exact readVarInt_ok
  · rintro ⟨hv, rfl⟩
    exact readVarInt_writeVarInt v rest hv

/-- `varint_total`: an accepted varint consumed a non-empty prefix of at most 9 bytes of the
    input (never reads past the input: the rest is a suffix of it). -/
theorem varint_total (b rest : Bytes) (v : Nat) (h : readVarInt b = .ok (v, rest)) :
    ∃ pre, b = pre ++ rest ∧ 1 ≤ pre.length ∧ pre.length ≤ 9 := by
  obtain ⟨_, hb⟩ := readVarInt_ok h
  refine ⟨writeVarInt v, hb, ?_⟩
  rw [writeVarInt_length]
  exact varIntSize_pos v

/-- `varint_minimal`: the encoding has the length of the BOLT-1 BigSize table. -/
theorem varint_minimal (v : Nat) :
    (writeVarInt v).length =
      if v < 0xfd then 1 else if v < 0x10000 then 3 else if v < 0x100000000 then 5 else 9 := by
  rw [writeVarInt_length]
  unfold varIntSize
  by_cases h1 : v < 0xfd
  · simp [h1]
  · by_cases h2 : v ≤ 0xffff
    · have : v < 0x10000 := by omega
      simp [h1, h2, this]
    · have h2' : ¬ v < 0x10000 := by omega
      by_cases h3 : v ≤ 0xffffffff
      · have : v < 0x100000000 := by omega
        simp [h1, h2, h2', h3, this]
      · have h3' : ¬ v < 0x100000000 := by omega
        simp [h1, h2, h2', h3, h3']

/-- `varint_nonminimal_rejected`: a value that fits a shorter form is refused in every longer
    form (`ErrVarIntNotCanonical`). -/
theorem varint_nonminimal_rejected (v : Nat) (rest : Bytes) :
    (v < 0xfd → readVarInt (0xfd :: beBytes 2 v ++ rest) = .error .notCanonical) ∧
    (v < 0x10000 → readVarInt (0xfe :: beBytes 4 v ++ rest) = .error .notCanonical) ∧
    (v < 0x100000000 → readVarInt (0xff :: beBytes 8 v ++ rest) = .error .notCanonical) := by
  have key : ∀ n lo, v < lo → v < 256 ^ n →
      readVarPayload n lo (beBytes n v ++ rest) = .error .notCanonical := by
    intro n lo hlo hv
    unfold readVarPayload
    have hl : (beBytes n v).length = n := beBytes_length n v
    have ht : List.take n (beBytes n v ++ rest) = beBytes n v := by
      rw [List.take_append_of_le_length (by omega)]
      exact List.take_of_length_le (by omega)
    have hn : beNat (beBytes n v) = v := by rw [beNat_beBytes, Nat.mod_eq_of_lt hv]
    simp only [List.length_append, hl, ht, hn]
    rw [if_neg (by omega), if_pos hlo]
  refine ⟨fun h => ?_, fun h => ?_, fun h => ?_⟩
  · simp only [List.cons_append, readVarInt]
    rw [if_neg (by decide), if_pos (by decide)]
    exact key 2 0xfd h (by omega)
  · simp only [List.cons_append, readVarInt]
    rw [if_neg (by decide), if_neg (by decide), if_pos (by decide)]
    exact key 4 0x10000 h (by omega)
  · simp only [List.cons_append, readVarInt]
    rw [if_neg (by decide), if_neg (by decide), if_neg (by decide)]
    exact key 8 0x100000000 h (by omega)

/-! ## TLV stream -/

/-- `stream_accept_iff_canonical`: on both paths (`Decode`: p2p = false, `DecodeP2P`: p2p = true)
    and for every set of known records, the stream decoder accepts `b` with record list `rs`
    exactly when `rs` is canonical — 64-bit types strictly increasing, lengths within the input
    (they are the lengths of the values, and at most 65535 on the p2p path), values acceptable to
    the decoders of known types — and `b` is the encoding of `rs` with minimal BigSize type and
    length fields (`encodeStream` = `Stream.Encode`).
    SIDE CONDITION `NoBigsize known`: no known record uses `DBigSize`.  Go's `Stream.decode` does
    not check that a record decoder consumed exactly the declared length; every decoder of the
    model's universe does so by construction except `bigsize`, which ignores the declared length
    (HEAD).  With such a record the statement is FALSE: `bigsize_breaks_canonicity` below. -/
theorem stream_accept_iff_canonical (known : Known) (p2p : Bool) (hnb : NoBigsize known)
    (b : Bytes) (rs : List Rec) :
    decodeStream known p2p b = .ok rs ↔ (Canonical known p2p 0 rs ∧ b = encodeStream rs) := by
  unfold decodeStream
  constructor
  · intro h
    have := decodeLoop_sound known p2p hnb _ 0 false b rs (by unfold two64; decide) h
    simpa [lob] using this
  · rintro ⟨hc, rfl⟩
    exact decodeLoop_complete known p2p hnb rs _ 0 false (by simpa [lob] using hc)
      (Nat.lt_succ_self _)

/-- `stream_decode_encode`: a canonical record list survives encode-then-decode. -/
theorem stream_decode_encode (known : Known) (p2p : Bool) (hnb : NoBigsize known) (rs : List Rec)
    (h : Canonical known p2p 0 rs) : decodeStream known p2p (encodeStream rs) = .ok rs :=
  (stream_accept_iff_canonical known p2p hnb _ rs).mpr ⟨h, rfl⟩

/-- `stream_encode_decode`: decode-then-encode reproduces the accepted input byte for byte. -/
theorem stream_encode_decode (known : Known) (p2p : Bool) (hnb : NoBigsize known) (b : Bytes)
    (rs : List Rec) (h : decodeStream known p2p b = .ok rs) : encodeStream rs = b :=
  ((stream_accept_iff_canonical known p2p hnb b rs).mp h).2.symm

/-- canonical lists have strictly increasing types, all at least `lo`. -/
theorem canonical_types_increasing (known : Known) (p2p : Bool) :
    ∀ (rs : List Rec) (lo : Nat), Canonical known p2p lo rs →
      (rs.map (·.1)).Pairwise (· < ·) ∧ ∀ t ∈ rs.map (·.1), lo ≤ t ∧ t < two64 := by
  intro rs
  induction rs with
  | nil => intro lo _; simp
  | cons r rs ih =>
    intro lo h
    obtain ⟨hlo, hok, hrest⟩ := h
    obtain ⟨hp, hall⟩ := ih (r.1 + 1) hrest
    refine ⟨?_, ?_⟩
    · simp only [List.map_cons, List.pairwise_cons]
      refine ⟨fun t ht => ?_, hp⟩
      have := (hall t ht).1
      omega
    · intro t ht
      simp only [List.map_cons, List.mem_cons] at ht
      rcases ht with rfl | ht
      · exact ⟨hlo, hok.1⟩
      · have := hall t ht
        omega

/-- `stream_types_strictly_increasing`: an accepted stream has no duplicate and no out-of-order
    record. -/
theorem stream_types_strictly_increasing (known : Known) (p2p : Bool) (hnb : NoBigsize known)
    (b : Bytes) (rs : List Rec)
    (h : decodeStream known p2p b = .ok rs) : (rs.map (·.1)).Pairwise (· < ·) :=
  (canonical_types_increasing known p2p rs 0
    ((stream_accept_iff_canonical known p2p hnb b rs).mp h).1).1

/-- `stream_max_type_is_last` (the `MaxUint64` overflow corner): a record of type `2^64 - 1` can
    only be the last record of a canonical list … -/
theorem stream_max_type_is_last (known : Known) (p2p : Bool) (lo : Nat) (v : Bytes) (rs : List Rec)
    (h : Canonical known p2p lo ((two64 - 1, v) :: rs)) : rs = [] := by
  obtain ⟨_, _, hrest⟩ := h
  cases rs with
  | nil => rfl
  | cons r rs =>
    obtain ⟨hlo, hok, _⟩ := hrest
    have := hok.1
    unfold two64 at *
    simp only at hlo
    omega

/-- … and, in terms of the loop state of `Stream.decode`: once `overflow` is set (type
    `MaxUint64` was read and `min` wrapped to 0) only the clean end of the stream is accepted. -/
theorem stream_overflow_state (known : Known) (p2p : Bool) (hnb : NoBigsize known)
    (fuel min : Nat) (b : Bytes)
    (rs : List Rec) (hmin : min < two64)
    (h : decodeLoop known p2p fuel min true b = .ok rs) : rs = [] ∧ b = [] := by
  obtain ⟨hc, hb⟩ := decodeLoop_sound known p2p hnb fuel min true b rs hmin h
  cases rs with
  | nil => exact ⟨rfl, by simpa [encodeStream] using hb⟩
  | cons r rs =>
    obtain ⟨hlo, hok, _⟩ := hc
    have := hok.1
    simp only [lob, if_true] at hlo
    omega

/-- `stream_p2p_bound`: on the p2p path no accepted record is longer than `MaxRecordSize`. -/
theorem stream_p2p_bound (known : Known) (hnb : NoBigsize known) (b : Bytes) (rs : List Rec)
    (h : decodeStream known true b = .ok rs) : ∀ r ∈ rs, r.2.length ≤ maxRecordSize := by
  have hc := ((stream_accept_iff_canonical known true hnb b rs).mp h).1
  have gen : ∀ (rs : List Rec) (lo : Nat), Canonical known true lo rs →
      ∀ r ∈ rs, r.2.length ≤ maxRecordSize := by
    intro rs
    induction rs with
    | nil => intro _ _ r hr; cases hr
    | cons x xs ih =>
      intro lo hcx r hr
      obtain ⟨_, hok, hrest⟩ := hcx
      rcases List.mem_cons.mp hr with rfl | hr
      · exact hok.2.2.1 rfl
      · exact ih _ hrest r hr
  exact gen rs 0 hc

/-- `stream_within_input`: the records of an accepted stream tile the input exactly: the input
    length is the sum over the records of (BigSize type) + (BigSize length) + value length. -/
theorem stream_within_input (known : Known) (p2p : Bool) (hnb : NoBigsize known) (b : Bytes)
    (rs : List Rec) (h : decodeStream known p2p b = .ok rs) :
    b.length = (rs.map fun r => varIntSize r.1 + varIntSize r.2.length + r.2.length).sum := by
  rw [← stream_encode_decode known p2p hnb b rs h]
  clear h
  induction rs with
  | nil => rfl
  | cons r rs ih =>
    simp only [encodeStream, encodeRec, List.length_append, writeVarInt_length, List.map_cons,
      List.sum_cons, ih]

/-- `stream_encoding_unique`: two canonical record lists with the same encoding are equal. -/
theorem stream_encoding_unique (known : Known) (p2p : Bool) (hnb : NoBigsize known)
    (rs rs' : List Rec)
    (h : Canonical known p2p 0 rs) (h' : Canonical known p2p 0 rs')
    (he : encodeStream rs = encodeStream rs') : rs = rs' := by
  have h1 := stream_decode_encode known p2p hnb rs h
  have h2 := stream_decode_encode known p2p hnb rs' h'
  rw [he, h2] at h1
  cases h1
  rfl

/-! ## the side condition: `DBigSize` records -/

/-- the side condition is decidable from the kinds: it holds when no known kind is `bigsize`
    (in particular for the empty set of known records, i.e. pure pass-through parsing). -/
theorem noBigsize_of_all (known : Known) (h : ∀ p ∈ known, p.2.isBigsize = false) :
    NoBigsize known := by
  intro t
  induction known with
  | nil => rfl
  | cons p ps ih =>
    obtain ⟨t', k⟩ := p
    have ih' := ih (fun q hq => h q (by simp [hq]))
    unfold isBigsizeFor at ih' ⊢
    simp only [lookupKind]
    by_cases htt : t' = t
    · simp only [htt, if_true]
      exact h (t', k) (by simp)
    · simp only [htt, if_false]
      exact ih'

theorem noBigsize_nil : NoBigsize [] := noBigsize_of_all [] (by simp)

/-- `bigsize_breaks_canonicity`: the side condition is necessary.  With record 0 known as a
    BigSize record (HEAD's `DBigSize`, which ignores the declared length) the stream
    `00 06 fd01d6 03 01 cb` — declared length 6, the BigSize takes 3 bytes — is ACCEPTED on both
    paths as v = 470 plus a phantom record 3, and re-encoding the accepted records does not
    reproduce the input (finding F-tlv-bigsize-record-length-ignored). -/
theorem bigsize_breaks_canonicity :
    let b : Bytes := [0x00, 0x06, 0xfd, 0x01, 0xd6, 0x03, 0x01, 0xcb]
    let rs : List Rec := [(0, [0xfd, 0x01, 0xd6]), (3, [0xcb])]
    decodeStream [(0, .bigsize)] false b = .ok rs ∧
    decodeStream [(0, .bigsize)] true b = .ok rs ∧
    encodeStream rs ≠ b ∧
    decodeStream [] true b = .ok [(0, [0xfd, 0x01, 0xd6, 0x03, 0x01, 0xcb])] := by
  refine ⟨?_, ?_, ?_, ?_⟩
  · simp [decodeStream, decodeLoop, readVarInt, readVarPayload, beNat, isBigsizeFor, lookupKind,
      Kind.isBigsize, lenOkFor, valOkFor, writeVarInt, beBytes, maxRecordSize, two64]
  · simp [decodeStream, decodeLoop, readVarInt, readVarPayload, beNat, isBigsizeFor, lookupKind,
      Kind.isBigsize, lenOkFor, valOkFor, writeVarInt, beBytes, maxRecordSize, two64]
  · simp [encodeStream, encodeRec, writeVarInt]
  · simp [decodeStream, decodeLoop, readVarInt, isBigsizeFor, lookupKind, lenOkFor, valOkFor,
      maxRecordSize, two64]

/-- What still holds WITH BigSize records (any set of known records): accepted types are 64-bit
    and strictly increasing — duplicates and reordering are never accepted. -/
theorem stream_types_increasing_any_kind (known : Known) (p2p : Bool) :
    ∀ (fuel min : Nat) (ov : Bool) (b : Bytes) (rs : List Rec), min < two64 →
      decodeLoop known p2p fuel min ov b = .ok rs →
      (rs.map (·.1)).Pairwise (· < ·) ∧ ∀ t ∈ rs.map (·.1), lob min ov ≤ t ∧ t < two64 := by
  intro fuel
  induction fuel with
  | zero => intro min ov b rs _ h; simp [decodeLoop] at h
  | succ fuel ih =>
    intro min ov b rs hmin h
    unfold decodeLoop at h
    split at h
    · cases h; simp
    · cases h
    · rename_i typ r1 hr1
      split at h
      · cases h
      · rename_i hchk
        have ht64 := (readVarInt_ok hr1).1
        have hmin' : (typ + 1) % two64 < two64 := Nat.mod_lt _ (by unfold two64; decide)
        have hov : ov = false := by
          cases ov
          · rfl
          · simp at hchk
        have hle : min ≤ typ := by
          subst hov
          simp at hchk
          exact hchk
        -- both branches end in the same recursive call shape
        have key : ∀ (r : Bytes) (v : Bytes) (rs' : List Rec),
            decodeLoop known p2p fuel ((typ + 1) % two64) (typ == two64 - 1) r = .ok rs' →
            ((((typ, v) :: rs').map (·.1)).Pairwise (· < ·) ∧
              ∀ t ∈ ((typ, v) :: rs').map (·.1), lob min ov ≤ t ∧ t < two64) := by
          intro r v rs' hrec
          obtain ⟨hp, hall⟩ := ih _ _ _ _ hmin' hrec
          rw [lob_next ht64] at hall
          refine ⟨?_, ?_⟩
          · simp only [List.map_cons, List.pairwise_cons]
            exact ⟨fun t ht => by have := (hall t ht).1; omega, hp⟩
          · intro t ht
            simp only [List.map_cons, List.mem_cons] at ht
            rcases ht with rfl | ht
            · subst hov; exact ⟨by simpa [lob] using hle, ht64⟩
            · have := hall t ht
              subst hov
              simp only [lob, Bool.false_eq_true, if_false]
              omega
        split at h
        · cases h
        · split at h
          · cases h
          · split at h
            · -- bigsize branch
              split at h
              · cases h
              · split at h
                · cases h
                · rename_i rs' hrec
                  cases h
                  exact key _ _ _ hrec
            · split at h
              · cases h
              · split at h
                · cases h
                · split at h
                  · cases h
                  · split at h
                    · cases h
                    · rename_i rs' hrec
                      cases h
                      exact key _ _ _ hrec

/-! ## non-vacuity -/

/-- a concrete canonical list: known fixed-2 record of type 1, unknown records 3 and 2^64-1. -/
example : Canonical [(1, .fixed 2)] true 0
    [(1, [0xaa, 0xbb]), (3, []), (18446744073709551615, [7])] := by
  have h64 : two64 = 18446744073709551616 := rfl
  refine ⟨by omega, ⟨by rw [h64]; omega, by rw [h64]; simp, by intro _; simp [maxRecordSize], by rfl, by rfl⟩,
    by simp, ⟨by rw [h64]; omega, by rw [h64]; simp, by intro _; simp [maxRecordSize], by rfl, by rfl⟩,
    by simp, ⟨by rw [h64]; omega, by rw [h64]; simp, by intro _; simp [maxRecordSize], by rfl, by rfl⟩, trivial⟩

example : decodeStream [(1, .fixed 2)] true [1, 2, 0xaa, 0xbb, 3, 0] = .ok [(1, [0xaa, 0xbb]), (3, [])] := by
  rfl
example : NoBigsize [(1, .fixed 2), (4, .varBytes)] := noBigsize_of_all _ (by simp [Kind.isBigsize])
example : decodeStream [] true [3, 0, 1, 0] = .error .streamNotCanonical := by rfl
example : readVarInt [0xfd, 0x01, 0x00, 0x55] = .ok (256, [0x55]) := by
  simp [readVarInt, readVarPayload, beNat]
example : readVarInt [0xfd, 0x00, 0xfc] = .error .notCanonical := by
  simp [readVarInt, readVarPayload, beNat]
example : writeVarInt 65536 = [0xfe, 0x00, 0x01, 0x00, 0x00] := by rfl

end LndModel.C10
