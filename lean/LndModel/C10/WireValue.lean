/-
C10 — typed message VALUES for the schema interpreter, and the pair of codec theorems proved ONCE,
generically over schemas (induction over the field list from per-field-kind lemmas):

  decode_encode           : every well-formed value `v` of a schema survives encode-then-decode
                            (`decodeMsg sc (encodeMsg sc v) = some v`)
  encode_decode_canonical : whatever `decodeMsg` accepts is a well-formed value, and `runSchema`
                            (the bytes→bytes model replayed against `ReadMessage ∘ WriteMessage`)
                            re-encodes the input to exactly `encodeMsg sc v`
  encode_decode_identity  : if moreover the schema is lossless (verbatim field kinds, `opaque` or
                            `tlvAll` tail) the re-encoding IS the consumed input
  runSchemaX_plain        : the extended interpreter used by the replay is `runSchema` on schemas
                            without extended components

Value universe (`FVal`): raw byte strings (integers, hashes, ids, signatures, points, payloads
without their length prefix) and flags.  Field kinds covered: `Field.proved`; `features`, `addrs`,
`scids` (normalising re-encodings) have no well-formed values here (replay only).
-/
import LndModel.C10.WireProps

namespace LndModel.C10.Wire

open LndModel.C10

inductive FVal where
  | raw (b : Bytes)
  | flag (b : Bool)
  deriving DecidableEq

/-- well-formed values of a field kind. -/
def wfField : Field → FVal → Prop
  | .fixed n, .raw p => p.length = n
  | .bool, .flag _ => True
  | .varU16, .raw p => p.length ≤ 65535
  | .pubkey, .raw p => p.length = 33 ∧ pubkeyOk p = true
  | .sigs, .raw p => ∃ k, k ≤ 65535 ∧ p.length = 64 * k
  | .deliveryAddr, .raw p => p.length ≤ 34
  | .alias, .raw p => p.length = 32 ∧ utf8Ok p = true
  | _, _ => False

/-- `WriteElement` of a value. -/
def encField : Field → FVal → Bytes
  | .bool, .flag c => [if c then 1 else 0]
  | .varU16, .raw p => beBytes 2 p.length ++ p
  | .deliveryAddr, .raw p => beBytes 2 p.length ++ p
  | .sigs, .raw p => beBytes 2 (p.length / 64) ++ p
  | _, .raw p => p
  | _, .flag _ => []

/-- the value carried by the canonical bytes `e` of a field. -/
def valOf : Field → Bytes → FVal
  | .bool, e => .flag (e == [1])
  | .varU16, e => .raw (e.drop 2)
  | .deliveryAddr, e => .raw (e.drop 2)
  | .sigs, e => .raw (e.drop 2)
  | _, e => .raw e

def WFFields : List Field → List FVal → Prop
  | [], [] => True
  | f :: fs, v :: vs => wfField f v ∧ WFFields fs vs
  | _, _ => False

def encFieldsV : List Field → List FVal → Bytes
  | f :: fs, v :: vs => encField f v ++ encFieldsV fs vs
  | _, _ => []

def decFieldsV : List Field → Bytes → Option (List FVal × Bytes)
  | [], b => some ([], b)
  | f :: fs, b =>
    match decField f b with
    | none => none
    | some (e, r) =>
      match decFieldsV fs r with
      | none => none
      | some (vs, r') => some (valOf f e :: vs, r')

/-- a message value: field values, the records of a TLV tail, the bytes of an opaque tail. -/
structure MsgVal where
  fields : List FVal
  recs : List Rec := []
  extra : Bytes := []

def isKnownRec (known : Known) (r : Rec) : Bool := (lookupKind known r.1).isSome

def encodeMsg (sc : Schema) (v : MsgVal) : Bytes :=
  encFieldsV sc.fields v.fields ++
    match sc.tail with
    | .ignore => []
    | .opaque => v.extra
    | .tlvAll => encodeStream v.recs
    | .tlvKnownOnly => encodeStream v.recs

def decodeMsg (sc : Schema) (body : Bytes) : Option MsgVal :=
  match decFieldsV sc.fields body with
  | none => none
  | some (vs, rest) =>
    match sc.tail with
    | .ignore => some { fields := vs }
    | .opaque => some { fields := vs, extra := rest }
    | .tlvAll =>
      match decodeStream sc.known true rest with
      | .error _ => none
      | .ok rs => some { fields := vs, recs := rs }
    | .tlvKnownOnly =>
      match decodeStream sc.known true rest with
      | .error _ => none
      | .ok rs => some { fields := vs, recs := rs.filter (isKnownRec sc.known) }

/-- well-formed message values of a schema. -/
def WF (sc : Schema) (v : MsgVal) : Prop :=
  WFFields sc.fields v.fields ∧
    match sc.tail with
    | .ignore => v.recs = [] ∧ v.extra = []
    | .opaque => v.recs = []
    | .tlvAll => Canonical sc.known true 0 v.recs ∧ v.extra = []
    | .tlvKnownOnly => Canonical sc.known true 0 v.recs ∧ v.extra = [] ∧
        v.recs.filter (isKnownRec sc.known) = v.recs

/-! ### per-kind lemmas -/

theorem take_append_len (p r : Bytes) (n : Nat) (h : p.length = n) :
    ¬ (p ++ r).length < n ∧ (p ++ r).take n = p ∧ (p ++ r).drop n = r := by
  subst h
  refine ⟨by simp, by simp, by simp⟩

theorem decPrefixed_enc (mult maxLen k : Nat) (p r : Bytes) (hk : k ≤ maxLen) (hmax : maxLen ≤ 65535)
    (hp : p.length = mult * k) :
    decPrefixed mult maxLen (beBytes 2 k ++ p ++ r) = some (beBytes 2 k ++ p, r) := by
  have hl2 : (beBytes 2 k).length = 2 := beBytes_length 2 k
  have ht2 : (beBytes 2 k ++ p ++ r).take 2 = beBytes 2 k := by
    rw [List.append_assoc, List.take_append_of_le_length (by omega)]
    exact List.take_of_length_le (by omega)
  have hbn : beNat (beBytes 2 k) = k := by
    rw [beNat_beBytes]
    exact Nat.mod_eq_of_lt (by omega)
  have hd2 : (beBytes 2 k ++ p ++ r).drop 2 = p ++ r := by
    rw [List.append_assoc]
    exact List.drop_left' hl2
  unfold decPrefixed
  rw [if_neg (by simp only [List.length_append, hl2]; omega), ht2, hbn, if_neg (by omega), hd2,
    if_neg (by simp only [List.length_append]; omega)]
  congr 2
  · have : 2 + mult * k = (beBytes 2 k ++ p).length := by simp only [List.length_append, hl2, hp]
    rw [this, List.take_left']
    rfl
  · exact List.drop_left' hp

theorem decPrefixed_val (mult maxLen : Nat) (b e r : Bytes)
    (h : decPrefixed mult maxLen b = some (e, r)) :
    ∃ k, k ≤ maxLen ∧ k < 65536 ∧ (e.drop 2).length = mult * k ∧ beBytes 2 k ++ e.drop 2 = e := by
  unfold decPrefixed at h
  split at h
  · cases h
  · rename_i h2
    split at h
    · cases h
    · rename_i hmax
      split at h
      · cases h
      · rename_i hlen
        cases h
        generalize hl : beNat (List.take 2 b) = l at *
        simp only [List.length_drop] at hlen
        have ht : (b.take 2).length = 2 := by simp only [List.length_take]; omega
        have hlt : l < 65536 := by
          have := beNat_lt (b.take 2)
          rw [ht, hl] at this
          omega
        refine ⟨l, by omega, hlt, ?_, ?_⟩
        · simp only [List.length_drop, List.length_take]; omega
        · have hb2 : beBytes 2 l = b.take 2 := by
            rw [← hl]
            have := beBytes_beNat (b.take 2)
            rw [ht] at this
            exact this
          rw [hb2]
          have : (b.take (2 + mult * l)).take 2 = b.take 2 := by
            rw [List.take_take]; congr 1; omega
          rw [← this]
          exact List.take_append_drop 2 _

/-- (B) what `decField` accepts carries a well-formed value whose encoding is the canonical
    bytes. -/
theorem decField_valOf (f : Field) (hp : f.proved = true) (b e r : Bytes)
    (h : decField f b = some (e, r)) : wfField f (valOf f e) ∧ encField f (valOf f e) = e := by
  cases f with
  | features => simp [Field.proved] at hp
  | addrs => simp [Field.proved] at hp
  | scids => simp [Field.proved] at hp
  | fixed n =>
    simp only [decField] at h
    split at h
    · cases h
    · cases h
      exact ⟨by simp only [valOf, wfField, List.length_take]; omega, rfl⟩
  | bool =>
    simp only [decField] at h
    split at h
    · cases h
    · rename_i x rest
      cases h
      refine ⟨trivial, ?_⟩
      by_cases hx : x = 1
      · subst hx; rfl
      · have : (x == 1) = false := by simp [hx]
        simp only [this, valOf, encField]
        rfl
  | varU16 =>
    obtain ⟨k, _, hk, hlen, henc⟩ := decPrefixed_val 1 65535 b e r h
    refine ⟨by simp only [valOf, wfField]; omega, ?_⟩
    simp only [valOf, encField]
    rw [hlen, Nat.one_mul]
    exact henc
  | deliveryAddr =>
    obtain ⟨k, hk34, hk, hlen, henc⟩ := decPrefixed_val 1 34 b e r h
    refine ⟨by simp only [valOf, wfField]; omega, ?_⟩
    simp only [valOf, encField]
    rw [hlen, Nat.one_mul]
    exact henc
  | sigs =>
    obtain ⟨k, _, hk, hlen, henc⟩ := decPrefixed_val 64 65535 b e r h
    refine ⟨⟨k, by omega, hlen⟩, ?_⟩
    simp only [valOf, encField]
    rw [hlen, Nat.mul_div_cancel_left k (by omega : 0 < 64)]
    exact henc
  | pubkey =>
    simp only [decField] at h
    split at h
    · cases h
    · split at h
      · rename_i hpk
        cases h
        exact ⟨⟨by simp only [List.length_take]; omega, hpk⟩, rfl⟩
      · cases h
  | alias =>
    simp only [decField] at h
    split at h
    · cases h
    · split at h
      · rename_i hpk
        cases h
        exact ⟨⟨by simp only [List.length_take]; omega, hpk⟩, rfl⟩
      · cases h

/-- (A) the encoding of a well-formed value decodes to itself, whatever follows. -/
theorem decField_encField (f : Field) (v : FVal) (hw : wfField f v) (r : Bytes) :
    decField f (encField f v ++ r) = some (encField f v, r) ∧ valOf f (encField f v) = v := by
  cases f with
  | features => cases v <;> exact hw.elim
  | addrs => cases v <;> exact hw.elim
  | scids => cases v <;> exact hw.elim
  | fixed n =>
    cases v with
    | flag c => exact hw.elim
    | raw p =>
      obtain ⟨f1, f2, f3⟩ := take_append_len p r n hw
      have henc : encField (.fixed n) (.raw p) = p := rfl
      rw [henc]
      simp only [decField, valOf]
      rw [if_neg f1, f2, f3]
      exact ⟨rfl, trivial⟩
  | bool =>
    cases v with
    | raw p => exact hw.elim
    | flag c => cases c <;> exact ⟨rfl, rfl⟩
  | varU16 =>
    cases v with
    | flag c => exact hw.elim
    | raw p =>
      simp only [encField, decField, valOf]
      refine ⟨decPrefixed_enc 1 65535 p.length p r hw (by omega) (by omega), ?_⟩
      rw [List.drop_left' (beBytes_length 2 _)]
  | deliveryAddr =>
    cases v with
    | flag c => exact hw.elim
    | raw p =>
      simp only [encField, decField, valOf]
      refine ⟨decPrefixed_enc 1 34 p.length p r hw (by omega) (by omega), ?_⟩
      rw [List.drop_left' (beBytes_length 2 _)]
  | sigs =>
    cases v with
    | flag c => exact hw.elim
    | raw p =>
      obtain ⟨k, hk, hlen⟩ := hw
      simp only [encField, decField, valOf]
      rw [hlen, Nat.mul_div_cancel_left k (by omega : 0 < 64)]
      refine ⟨decPrefixed_enc 64 65535 k p r hk (by omega) hlen, ?_⟩
      rw [List.drop_left' (beBytes_length 2 _)]
  | pubkey =>
    cases v with
    | flag c => exact hw.elim
    | raw p =>
      obtain ⟨f1, f2, f3⟩ := take_append_len p r 33 hw.1
      have henc : encField .pubkey (.raw p) = p := rfl
      rw [henc]
      simp only [decField, valOf]
      rw [if_neg f1, f2, f3, if_pos hw.2]
      exact ⟨rfl, trivial⟩
  | alias =>
    cases v with
    | flag c => exact hw.elim
    | raw p =>
      obtain ⟨f1, f2, f3⟩ := take_append_len p r 32 hw.1
      have henc : encField .alias (.raw p) = p := rfl
      rw [henc]
      simp only [decField, valOf]
      rw [if_neg f1, f2, f3, if_pos hw.2]
      exact ⟨rfl, trivial⟩

/-- a well-formed field value is of a proved kind. -/
theorem wfField_proved (f : Field) (v : FVal) (hw : wfField f v) : f.proved = true := by
  cases f <;> first | rfl | (cases v <;> exact hw.elim)

/-! ### field lists -/

theorem decFieldsV_sound (fs : List Field) (hp : ∀ f ∈ fs, f.proved = true) :
    ∀ (b : Bytes) (vs : List FVal) (r : Bytes), decFieldsV fs b = some (vs, r) →
      WFFields fs vs ∧ decFields fs b = some (encFieldsV fs vs, r) := by
  induction fs with
  | nil =>
    intro b vs r h
    simp only [decFieldsV] at h
    cases h
    exact ⟨trivial, rfl⟩
  | cons f fs ih =>
    intro b vs r h
    simp only [decFieldsV] at h
    split at h
    · cases h
    · rename_i e1 r1 h1
      split at h
      · cases h
      · rename_i vs' r2 h2
        cases h
        obtain ⟨w1, e1eq⟩ := decField_valOf f (hp f (by simp)) b e1 r1 h1
        obtain ⟨w2, d2⟩ := ih (fun g hg => hp g (by simp [hg])) r1 vs' r h2
        refine ⟨⟨w1, w2⟩, ?_⟩
        simp only [decFields, h1, d2, encFieldsV, e1eq]

theorem decFieldsV_complete (fs : List Field) :
    ∀ (vs : List FVal) (r : Bytes), WFFields fs vs →
      decFieldsV fs (encFieldsV fs vs ++ r) = some (vs, r) := by
  induction fs with
  | nil =>
    intro vs r hw
    cases vs with
    | nil => rfl
    | cons v vs => exact hw.elim
  | cons f fs ih =>
    intro vs r hw
    cases vs with
    | nil => exact hw.elim
    | cons v vs =>
      obtain ⟨w1, w2⟩ := hw
      obtain ⟨d1, v1⟩ := decField_encField f v w1 (encFieldsV fs vs ++ r)
      simp only [encFieldsV, decFieldsV, List.append_assoc, d1, ih vs r w2, v1]

theorem wfFields_proved (fs : List Field) :
    ∀ (vs : List FVal), WFFields fs vs → ∀ f ∈ fs, f.proved = true := by
  induction fs with
  | nil => intro vs _ f hf; cases hf
  | cons g fs ih =>
    intro vs hw f hf
    cases vs with
    | nil => exact hw.elim
    | cons v vs =>
      rcases List.mem_cons.mp hf with h | h
      · subst h; exact wfField_proved _ v hw.1
      · exact ih vs hw.2 f h

/-! ### the pair of codec theorems -/

/-- `decode_encode`: for EVERY schema and every well-formed value of it, decoding the encoding
    gives the value back (field values, records of the tail incl. unknown ones for `tlvAll`,
    opaque extension bytes). -/
theorem decode_encode (sc : Schema) (hnb : NoBigsize sc.known) (v : MsgVal) (hw : WF sc v) :
    decodeMsg sc (encodeMsg sc v) = some v := by
  obtain ⟨hf, ht⟩ := hw
  obtain ⟨vf, vr, vx⟩ := v
  unfold decodeMsg encodeMsg
  simp only at hf ht ⊢
  rw [decFieldsV_complete sc.fields vf _ hf]
  cases htail : sc.tail with
  | ignore =>
    rw [htail] at ht
    simp only [ht.1, ht.2]
  | «opaque» =>
    rw [htail] at ht
    simp only at ht
    simp only [ht]
  | tlvAll =>
    rw [htail] at ht
    simp only at ht
    simp only [stream_decode_encode sc.known true hnb vr ht.1, ht.2]
  | tlvKnownOnly =>
    rw [htail] at ht
    simp only at ht
    simp only [stream_decode_encode sc.known true hnb vr ht.1, ht.2.1, ht.2.2]

/-- `encode_decode_canonical`: whatever `decodeMsg` accepts is a well-formed value `v`, and the
    bytes→bytes interpreter `runSchema` (the model replayed against ReadMessage ∘ WriteMessage)
    accepts the same body and re-encodes it to exactly `encodeMsg sc v` — the canonical encoding
    of the decoded value.  (For the lossy `tlvKnownOnly` tail `v` holds the known records only.) -/
theorem encode_decode_canonical (sc : Schema) (hp : ∀ f ∈ sc.fields, f.proved = true)
    (hnb : NoBigsize sc.known) (hnorm : sc.norm = []) (body : Bytes) (v : MsgVal)
    (h : decodeMsg sc body = some v) :
    WF sc v ∧ runSchema sc body = .accept (encodeMsg sc v) := by
  unfold decodeMsg at h
  split at h
  · cases h
  · rename_i vs rest hd
    obtain ⟨hwf, hdf⟩ := decFieldsV_sound sc.fields hp body vs rest hd
    unfold WF runSchema encodeMsg
    rw [hdf]
    cases htail : sc.tail with
    | ignore =>
      rw [htail] at h
      simp only at h
      cases h
      exact ⟨⟨hwf, rfl, rfl⟩, by simp⟩
    | «opaque» =>
      rw [htail] at h
      simp only at h
      cases h
      exact ⟨⟨hwf, rfl⟩, rfl⟩
    | tlvAll =>
      rw [htail] at h
      simp only at h
      split at h
      · cases h
      · rename_i rs hrs
        cases h
        have hcan := ((stream_accept_iff_canonical sc.known true hnb rest rs).mp hrs).1
        refine ⟨⟨hwf, hcan, rfl⟩, ?_⟩
        simp only [hrs, hnorm, map_normRec_nil]
    | tlvKnownOnly =>
      rw [htail] at h
      simp only at h
      split at h
      · cases h
      · rename_i rs hrs
        cases h
        have hcan := ((stream_accept_iff_canonical sc.known true hnb rest rs).mp hrs).1
        have hk := canonical_filter sc.known true (isKnownRec sc.known) rs 0 hcan
        refine ⟨⟨hwf, hk, rfl, by simp only [List.filter_filter, Bool.and_self]⟩, ?_⟩
        simp only [hrs, hnorm, map_normRec_nil]
        rfl

/-- `encode_decode_identity`: for a lossless schema (verbatim field kinds, `opaque` or `tlvAll`
    tail — unknown records and trailing extension data included) the canonical encoding of the
    decoded value IS the input: nothing is lost and nothing is normalised. -/
theorem encode_decode_identity (sc : Schema) (hv : ∀ f ∈ sc.fields, f.verbatim = true)
    (hnb : NoBigsize sc.known) (hnorm : sc.norm = [])
    (htail : sc.tail = .opaque ∨ sc.tail = .tlvAll) (body : Bytes) (v : MsgVal)
    (h : decodeMsg sc body = some v) : encodeMsg sc v = body := by
  have hp : ∀ f ∈ sc.fields, f.proved = true := by
    intro f hf
    have := hv f hf
    cases f <;> simp_all [Field.verbatim, Field.proved]
  obtain ⟨_, hrun⟩ := encode_decode_canonical sc hp hnb hnorm body v h
  exact msg_lossless sc hv hnb hnorm htail body _ hrun

/-- two well-formed values with the same encoding are equal (the codec is injective on values). -/
theorem encodeMsg_injective (sc : Schema) (hnb : NoBigsize sc.known) (v w : MsgVal)
    (hv : WF sc v) (hw : WF sc w) (h : encodeMsg sc v = encodeMsg sc w) : v = w := by
  have h1 := decode_encode sc hnb v hv
  have h2 := decode_encode sc hnb w hw
  rw [h] at h1
  rw [h1] at h2
  exact Option.some.inj h2

/-! ### the extended interpreter on plain schemas -/

/-- a `SchemaX` without extended components. -/
def SchemaX.isPlain (sx : SchemaX) : Prop :=
  sx.optional = [] ∧ sx.recOk = [] ∧ sx.skip = [] ∧ sx.always = [] ∧
    sx.check = (fun _ _ => true) ∧ sx.keepUnknown = none

theorem filter_true_eq {α : Type} (l : List α) (p : α → Bool) (h : ∀ a, p a = true) :
    l.filter p = l := by
  induction l with
  | nil => rfl
  | cons a l ih => simp [List.filter_cons, h a, ih]

/-- `runSchemaX_plain`: on a plain schema the interpreter used by the replay IS `runSchema`, so
    every theorem about `runSchema` speaks about what is replayed for those message types. -/
theorem runSchemaX_plain (sx : SchemaX) (hpl : sx.isPlain) (body : Bytes) :
    runSchemaX sx body = runSchema sx.toSchema body := by
  obtain ⟨h1, h2, h3, h4, h5, h6⟩ := hpl
  unfold runSchemaX runSchema
  split
  · rfl
  · rename_i enc rest hd
    simp only [h1, List.isEmpty_nil, if_true]
    unfold runTailX
    cases htail : sx.tail with
    | ignore => rfl
    | «opaque» => rfl
    | tlvAll =>
      simp only
      split
      · rfl
      · rename_i rs hrs
        have hall : (rs.all fun _ => true) = true := List.all_eq_true.mpr (fun _ _ => rfl)
        unfold tlvOut
        simp only [h2, h3, h4, h5, h6, findFn, List.find?_nil, Option.map_none, List.foldl_nil, htail,
          hall, Bool.not_true, Bool.false_eq_true, if_false]
        have hf : List.filter (fun r : Rec => if (lookupKind sx.known r.fst).isSome = true then true
            else Tail.tlvAll != Tail.tlvKnownOnly) rs = rs := by
          apply filter_true_eq
          intro r
          split
          · rfl
          · rfl
        rw [hf]
    | tlvKnownOnly =>
      simp only
      split
      · rfl
      · rename_i rs hrs
        have hall : (rs.all fun _ => true) = true := List.all_eq_true.mpr (fun _ _ => rfl)
        unfold tlvOut
        simp only [h2, h3, h4, h5, h6, findFn, List.find?_nil, Option.map_none, List.foldl_nil, htail,
          hall, Bool.not_true, Bool.false_eq_true, if_false]
        have hf : List.filter (fun r : Rec => if (lookupKind sx.known r.fst).isSome = true then true
            else Tail.tlvKnownOnly != Tail.tlvKnownOnly) rs =
            List.filter (fun r : Rec => (lookupKind sx.known r.fst).isSome) rs := by
          apply List.filter_congr
          intro r _
          split
          · rename_i hk; rw [hk]
          · rename_i hk
            have : (lookupKind sx.known r.fst).isSome = false := by
              cases hh : (lookupKind sx.known r.fst).isSome
              · rfl
              · exact absurd hh hk
            rw [this]
            rfl
        rw [hf]

/-! ### non-vacuity -/

/-- update_fee (134): channel id, fee rate, three opaque extension bytes. -/
example : WF { fields := [.fixed 32, .fixed 4], tail := .opaque }
    { fields := [.raw (List.replicate 32 7), .raw [0, 0, 1, 0]], extra := [1, 2, 3] } :=
  ⟨⟨by simp [wfField], by simp [wfField], trivial⟩, rfl⟩

/-- update_fulfill_htlc (130) with an unknown odd record and a custom record in its tail. -/
example : WF { fields := [.fixed 32, .fixed 8, .fixed 32], tail := .tlvAll }
    { fields := [.raw (List.replicate 32 1), .raw (List.replicate 8 0), .raw (List.replicate 32 2)],
      recs := [(9, [0xaa]), (65537, [1, 2])] } := by
  refine ⟨⟨by simp [wfField], by simp [wfField], by simp [wfField], trivial⟩,
    ⟨Nat.zero_le _, ?_, by decide, ?_, trivial⟩, rfl⟩
  · simp [RecOk, two64, maxRecordSize, lenOkFor, valOkFor, lookupKind]
  · simp [RecOk, two64, maxRecordSize, lenOkFor, valOkFor, lookupKind]

example : decodeMsg { fields := [.fixed 2, .bool], tail := .opaque } [1, 2, 5, 9] =
    some { fields := [.raw [1, 2], .flag false], extra := [9] } := rfl

end LndModel.C10.Wire
