/-
C10 — onion failures: TOTAL model of `DecodeFailure` ∘ `EncodeFailure`
(`lnwire/onion_error.go`) for every registered failure code, including the codes that carry a
channel_update (`parseChannelUpdateCompatibilityMode` + `writeOnionErrorChanUpdate`), the
optional tack-on fields of `FailIncorrectDetails` and the BigSize type of
`InvalidOnionPayload`.  Core Lean only.  (`Wire.modelFailure` — framing plus the fixed-payload
codes — is kept for the earlier rounds' statements; `modelFailureX` agrees with it wherever that
one answers, see `FailureProps.modelFailureX_extends`.)
-/
import LndModel.C10.Wire

namespace LndModel.C10.Wire

/-- payload layout of a failure code (`makeEmptyOnionError` + the `Serializable` methods). -/
inductive FLayout where
  | fixed (n : Nat)                 -- n bytes copied verbatim (n = 0: no payload); surplus ignored
  | update (pre : Nat) (opt : Bool) -- `pre` fixed bytes, u16 length, channel_update; `opt`: length 0
                                    -- means "no update" (FailTemporaryChannelFailure)
  | details                         -- FailIncorrectDetails: amount(8)? height(4)? extra bytes
  | onionPayload                    -- InvalidOnionPayload: BigSize type, u16 offset
  deriving DecidableEq, Repr

def failLayout (code : Nat) : Option FLayout :=
  match failPayload code with
  | some n => some (.fixed n)
  | none =>
    if code == 0x1007 then some (.update 0 true)        -- temporary_channel_failure
    else if code == 0x100b then some (.update 8 false)  -- amount_below_minimum
    else if code == 0x100c then some (.update 8 false)  -- fee_insufficient
    else if code == 0x100d then some (.update 4 false)  -- incorrect_cltv_expiry
    else if code == 0x100e then some (.update 0 false)  -- expiry_too_soon
    else if code == 0x1014 then some (.update 2 false)  -- channel_disabled
    else if code == 0x400f then some .details           -- incorrect_or_unknown_payment_details
    else if code == 0x4016 then some .onionPayload      -- invalid_onion_payload
    else none

/-- the re-encoded channel_update body (type prefix stripped) → what
    `writeOnionErrorChanUpdate` writes: u16 length, the 2-byte message type 258, the body. -/
def encFailUpdate (enc : Bytes) : Bytes := beBytes 2 (enc.length + 2) ++ [1, 2] ++ enc

/-- a leading `0102` (the channel_update message type) is skipped (compatibility mode). -/
def stripUpdType (u : Bytes) : Bytes := if u.take 2 == [1, 2] then u.drop 2 else u

/-- `ChannelUpdate1.Decode` then `WriteMessage` on the update body. -/
def decUpdBody (drop : Bool) (body : Bytes) : Option Bytes :=
  match schemaXOf drop 258 body with
  | none => none
  | some sx =>
    match runSchemaX sx body with
    | .reject => none
    | .accept enc => some (encFailUpdate enc)

/-- `ReadElement(&length)` + `parseChannelUpdateCompatibilityMode`: the update is read from at
    most `length` bytes of what is left of the inner message (`io.LimitReader`; a declared length
    beyond the data simply ends earlier), at least two bytes must be there (`Peek(2)`), a leading
    `0102` (the message type) is skipped, the rest is `ChannelUpdate1.Decode`. -/
def decFailUpdate (drop : Bool) (opt : Bool) (r : Bytes) : Option Bytes :=
  if r.length < 2 then none
  else if opt && beNat (r.take 2) == 0 then some [0, 0]
  else if ((r.drop 2).take (beNat (r.take 2))).length < 2 then none
  else decUpdBody drop (stripUpdType ((r.drop 2).take (beNat (r.take 2))))

/-- `FailIncorrectDetails.Decode/Encode`: amount and height are optional tack-ons (absent = clean
    EOF, a partial field is an error); the encoder always writes both, then the extra bytes. -/
def decFailDetails (r : Bytes) : Option Bytes :=
  if r.isEmpty then some (zeros 12)
  else if r.length < 8 then none
  else if r.length == 8 then some (r ++ zeros 4)
  else if r.length < 12 then none
  else some r

/-- `InvalidOnionPayload.Decode/Encode`: canonical BigSize, then the u16 offset. -/
def decFailOnionPayload (r : Bytes) : Option Bytes :=
  match readVarInt r with
  | .error _ => none
  | .ok (v, r1) => if r1.length < 2 then none else some (writeVarInt v ++ r1.take 2)

/-- payload of the inner failure message re-encoded (`none`: `Decode` fails). -/
def decFailPayload (drop : Bool) : FLayout → Bytes → Option Bytes
  | .fixed n, r => if r.length < n then none else some (r.take n)
  | .update pre opt, r =>
    if r.length < pre then none
    else (decFailUpdate drop opt (r.drop pre)).map (r.take pre ++ ·)
  | .details, r => decFailDetails r
  | .onionPayload, r => decFailOnionPayload r

inductive FOutcome where
  | reject                    -- `DecodeFailure` returns an error
  | encErr                    -- decoded, but `EncodeFailure` refuses (inner message > 256 bytes)
  | accept (enc : Bytes)      -- decoded and re-encoded

/-- `EncodeFailure` of the inner message `msg` (code ‖ payload). -/
def frameFailure (msg : Bytes) : Bytes :=
  beBytes 2 msg.length ++ msg ++ beBytes 2 (256 - msg.length) ++ zeros (256 - msg.length)

/-- `DecodeFailureMessage` on the inner message, then `EncodeFailure`. -/
def decInner (drop : Bool) (inner : Bytes) : FOutcome :=
  if inner.length < 2 then .reject else
  match failLayout (beNat (inner.take 2)) with
  | none => .reject
  | some lay =>
    match decFailPayload drop lay (inner.drop 2) with
    | none => .reject
    | some p =>
      if (inner.take 2 ++ p).length > 256 then .encErr else .accept (frameFailure (inner.take 2 ++ p))

/-- `DecodeFailure` then `EncodeFailure`, every registered code: u16 length `l`, inner message,
    u16 pad length, exactly that much padding and nothing after it, `l + pad ≥ 256`. -/
def modelFailureX (drop : Bool) (b : Bytes) : FOutcome :=
  if b.length < 2 then .reject
  else if (b.drop 2).length < beNat (b.take 2) then .reject
  else if ((b.drop 2).drop (beNat (b.take 2))).length < 2 then .reject
  else if (((b.drop 2).drop (beNat (b.take 2))).drop 2).length !=
      beNat (((b.drop 2).drop (beNat (b.take 2))).take 2) then .reject
  else if beNat (b.take 2) + beNat (((b.drop 2).drop (beNat (b.take 2))).take 2) < 256 then .reject
  else decInner drop ((b.drop 2).take (beNat (b.take 2)))

end LndModel.C10.Wire
