/-
C10 — regenerated tie for the message schemas.

`LndModel.Gen.C10` is produced by `tools/wireschema` from the CURRENT Go source of `lnwire`: per
registered message type the ordered element types of `Decode` (ReadElement(s) argument lists and
every other consumer of the reader), the ordered `WriteX` calls of `Encode`, the TLV record
producers handed to the stream decoder, and how `Encode` builds the extension tail.

This file interprets the extracted Go types / writer names as field kinds (`fieldsOfTy`,
`fieldsOfWr`: the ONLY hand-written tables, both TOTAL pattern matches — a new Go type or writer in
a Decode/Encode body makes this file fail to elaborate) and proves, per message (`gen_m<type>`, by
`decide`), that

  extracted DECODE schema = extracted ENCODE schema = the schema the Lean model instantiates
  (`schemaXOf`, fields ++ optional block, adjacent fixed-size fields merged),
  extracted TLV record types = the model's known-record types, with equal fixed value sizes,
  extracted tail discipline of Encode = the model's `Tail` (at HEAD: `EncodeMessageExtraData` =
  `tlvKnownOnly`, merge/PackRecords of ExtraData producers = `tlvAll`, pure TLV = signed-range keep).

A change of a Decode/Encode body (field added, order changed, record added, tail discipline
changed) changes the regenerated module and the corresponding `gen_m<type>` stops checking.
-/
import LndModel.Gen.C10
import LndModel.C10.Wire

namespace LndModel.C10.GenRefine

open LndModel.C10 LndModel.C10.Wire LndModel.Gen.C10

/-- field kinds read by `ReadElement` for a Go element type (lnwire/lnwire.go type switch). -/
def fieldsOfTy : Ty → List Field
  | .T_ChannelID | .T_a32_byte_sl | .T_chainhash_Hash_sl | .T_asha256_Size_byte_sl | .T_io_ReadFull_32
  | .T_a32_byte => [.fixed 32]
  | .T_btcutil_Amount | .T_MilliSatoshi | .T_uint64 | .T_ShortChannelID => [.fixed 8]
  | .T_uint32 => [.fixed 4]
  | .T_uint16 | .T_FailCode => [.fixed 2]
  | .T_uint8 | .T_FundingFlag | .T_ChanUpdateMsgFlags | .T_ChanUpdateChanFlags => [.fixed 1]
  | .T_color_RGBA => [.fixed 3]
  | .T_a33_byte => [.fixed 33]
  | .T_Sig => [.fixed 64]
  | .T_wire_OutPoint => [.fixed 34]
  | .T_aOnionPacketSize_byte_sl => [.fixed 1366]
  | .T_p_btcec_PublicKey => [.pubkey]
  | .T_s_Sig => [.sigs]
  | .T_DeliveryAddress => [.deliveryAddr]
  | .T_bool => [.bool]
  | .T_WarningData | .T_ErrorData | .T_PingPayload | .T_PongPayload | .T_OpaqueReason => [.varU16]
  | .T_p_RawFeatureVector | .T_RawFeatureVector => [.features]
  | .T_NodeAlias => [.alias]
  | .T_s_net_Addr => [.addrs]
  | .T_call_decodeShortChanIDs => [.scids]
  -- the extension tail / the whole-body TLV stream: not a field
  | .T_ExtraOpaqueData | .T_call_ExtraOpaqueData_Decode | .T_call_DecodeWithParsedTypesP2P
  | .T_call_ValidateTLV => []
  -- `make([]byte, onionLen)` read after a uint16 length (onion_message): see `mergeLen`
  | .T_s_byte => [.varU16]
  -- record value types never appear as ReadElement arguments
  | .T_ChannelType | .T_Color | .T_DNSAddress | .T_DynHeight | .T_Fee | .T_IPV4Addrs | .T_IPV6Addrs
  | .T_LeaseExpiry | .T_LocalNoncesData | .T_Musig2Nonce | .T_NodeAlias2 | .T_OutPoint | .T_PartialSig
  | .T_PartialSigWithNonce | .T_QueryOptions | .T_Timestamps | .T_TorV3Addrs | .T_TrueBoolean
  | .T_ChanUpdateDisableFlags | .T_tlv_BigSizeTabtcutil_Amount => []

/-- field kinds written by a `WriteX` call of `Encode`. -/
def fieldsOfWr : Wr → List Field
  | .W_WriteBool__T_bool => [.bool]
  | .W_WriteBytes__T_ChannelID | .W_WriteBytes__T_a32_byte | .W_WriteBytes__T_asha256_Size_byte
  | .W_WriteBytes__T_chainhash_Hash | .W_WriteChannelID__T_ChannelID => [.fixed 32]
  | .W_WriteBytes__T_a33_byte => [.fixed 33]
  | .W_WriteBytes__T_aOnionPacketSize_byte => [.fixed 1366]
  | .W_WriteBytes__T_expr_extraData => []          -- the merged extension tail
  | .W_WriteBytes__T_s_byte => [.varU16]           -- onion blob after its uint16 length
  | .W_WriteChanUpdateChanFlags__T_ChanUpdateChanFlags | .W_WriteChanUpdateMsgFlags__T_ChanUpdateMsgFlags
  | .W_WriteFundingFlag__T_FundingFlag | .W_WriteUint8__T_uint8 => [.fixed 1]
  | .W_WriteColorRGBA__T_color_RGBA => [.fixed 3]
  | .W_WriteDeliveryAddress__T_DeliveryAddress => [.deliveryAddr]
  | .W_WriteErrorData__T_ErrorData | .W_WriteWarningData__T_WarningData | .W_WriteOpaqueReason__T_OpaqueReason
  | .W_WritePingPayload__T_PingPayload | .W_WritePongPayload__T_PongPayload => [.varU16]
  | .W_WriteFailCode__T_FailCode | .W_WriteUint16__T_uint16 | .W_WriteUint16__T_expr_uint16_onionLen => [.fixed 2]
  | .W_WriteMilliSatoshi__T_MilliSatoshi | .W_WriteSatoshi__T_btcutil_Amount | .W_WriteUint64__T_uint64
  | .W_WriteShortChannelID__T_ShortChannelID => [.fixed 8]
  | .W_WriteUint32__T_uint32 => [.fixed 4]
  | .W_WriteNetAddrs__T_s_net_Addr => [.addrs]
  | .W_WriteNodeAlias__T_NodeAlias => [.alias]
  | .W_WriteOutPoint__T_wire_OutPoint => [.fixed 34]
  | .W_WritePublicKey__T_p_btcec_PublicKey => [.pubkey]
  | .W_WriteRawFeatureVector__T_RawFeatureVector | .W_WriteRawFeatureVector__T_p_RawFeatureVector => [.features]
  | .W_WriteSig__T_Sig => [.fixed 64]
  | .W_WriteSigs__T_s_Sig => [.sigs]
  | .W_call_encodeShortChanIDs => [.scids]

/-- fixed value size of a record producer's Go type (`none`: variable length). -/
def recLenOfTy : Ty → Option Nat
  | .T_Sig => some 64 | .T_Musig2Nonce => some 66 | .T_PartialSig => some 32
  | .T_PartialSigWithNonce => some 98 | .T_ChannelID | .T_a32_byte => some 32 | .T_a33_byte => some 33
  | .T_p_btcec_PublicKey => some 33 | .T_ShortChannelID | .T_uint64 | .T_Fee | .T_DynHeight => some 8
  | .T_uint32 | .T_LeaseExpiry => some 4 | .T_uint16 => some 2 | .T_ChanUpdateDisableFlags => some 1
  | .T_OutPoint => some 34 | .T_Color => some 3
  | _ => none

def recLenOfKind : Kind → Option Nat
  | .fixed n => some n
  | .custom n _ => some n
  | _ => none

/-- adjacent fixed-size fields are one fixed-size field; a uint16 length followed by that many
    raw bytes is one `varU16` field. -/
def mergeFixed : List Field → List Field
  | .fixed 2 :: .varU16 :: rest => .varU16 :: mergeFixed rest
  | .fixed a :: rest =>
    match mergeFixed rest with
    | .fixed b :: rest' => .fixed (a + b) :: rest'
    | r => .fixed a :: r
  | f :: rest => f :: mergeFixed rest
  | [] => []

def decFieldsOf (m : Msg) : List Field := mergeFixed (m.dec.flatMap fieldsOfTy)
def encFieldsOf (m : Msg) : List Field := mergeFixed (m.enc.flatMap fieldsOfWr)

/-- a body selecting the schema variant with every optional field (channel_update: max-HTLC flag). -/
def fullBody : Bytes := List.replicate 108 0 ++ [1]

def tailMatches (g : TailEnc) (validated : Bool) (sx : SchemaX) : Bool :=
  match g with
  | .none => sx.tail == .ignore
  -- raw ExtraOpaqueData written back; with a `ValidateTLV` in Decode (channel_announcement,
  -- node_announcement) the model uses `tlvAll` without known records, which re-encodes the
  -- validated tail byte for byte (`stream_encode_decode`)
  | .opaque => if validated then sx.tail == .tlvAll && sx.known.isEmpty && sx.keepUnknown.isNone
               else sx.tail == .opaque
  | .knownOnly => sx.tail == .tlvKnownOnly
  | .merge => sx.tail == .tlvAll && sx.keepUnknown.isNone
  | .pureTLV => sx.tail == .tlvAll && sx.keepUnknown.isSome

/-- everything that is compared for one message. -/
def checkMsg (m : Msg) : Bool :=
  match schemaXOf dropUnknownAtHead m.type fullBody with
  | none => false
  | some sx =>
    decFieldsOf m == mergeFixed (sx.fields ++ sx.optional) &&
    encFieldsOf m == decFieldsOf m &&
    m.recs.map (·.1) == sx.known.map (·.1) &&
    (m.recs.zip sx.known).all (fun p =>
      recLenOfTy p.1.2 == recLenOfKind p.2.2 || (recLenOfTy p.1.2).isNone && (recLenOfKind p.2.2).isNone) &&
    tailMatches m.tail (m.dec.contains .T_call_ValidateTLV) sx

/-- the registered message types are exactly the ones the model has a schema for. -/
theorem gen_types : messages.map (·.type) =
    [1, 2, 16, 17, 18, 19, 32, 33, 34, 35, 36, 38, 39, 40, 41, 111, 113, 115, 117, 128, 130, 131, 132,
     133, 134, 135, 136, 256, 257, 258, 259, 260, 261, 262, 263, 264, 265, 267, 269, 271, 513, 777] := by
  decide

theorem gen_m1 : checkMsg m1 = true := by decide
theorem gen_m2 : checkMsg m2 = true := by decide
theorem gen_m16 : checkMsg m16 = true := by decide
theorem gen_m17 : checkMsg m17 = true := by decide
theorem gen_m18 : checkMsg m18 = true := by decide
theorem gen_m19 : checkMsg m19 = true := by decide
theorem gen_m32 : checkMsg m32 = true := by decide
theorem gen_m33 : checkMsg m33 = true := by decide
theorem gen_m34 : checkMsg m34 = true := by decide
theorem gen_m35 : checkMsg m35 = true := by decide
theorem gen_m36 : checkMsg m36 = true := by decide
theorem gen_m38 : checkMsg m38 = true := by decide
theorem gen_m39 : checkMsg m39 = true := by decide
theorem gen_m40 : checkMsg m40 = true := by decide
theorem gen_m41 : checkMsg m41 = true := by decide
theorem gen_m111 : checkMsg m111 = true := by decide
theorem gen_m113 : checkMsg m113 = true := by decide
theorem gen_m115 : checkMsg m115 = true := by decide
theorem gen_m117 : checkMsg m117 = true := by decide
theorem gen_m128 : checkMsg m128 = true := by decide
theorem gen_m130 : checkMsg m130 = true := by decide
theorem gen_m131 : checkMsg m131 = true := by decide
theorem gen_m132 : checkMsg m132 = true := by decide
theorem gen_m133 : checkMsg m133 = true := by decide
theorem gen_m134 : checkMsg m134 = true := by decide
theorem gen_m135 : checkMsg m135 = true := by decide
theorem gen_m136 : checkMsg m136 = true := by decide
theorem gen_m256 : checkMsg m256 = true := by decide
theorem gen_m257 : checkMsg m257 = true := by decide
theorem gen_m258 : checkMsg m258 = true := by decide
theorem gen_m259 : checkMsg m259 = true := by decide
theorem gen_m260 : checkMsg m260 = true := by decide
theorem gen_m261 : checkMsg m261 = true := by decide
theorem gen_m262 : checkMsg m262 = true := by decide
theorem gen_m263 : checkMsg m263 = true := by decide
theorem gen_m264 : checkMsg m264 = true := by decide
theorem gen_m265 : checkMsg m265 = true := by decide
theorem gen_m267 : checkMsg m267 = true := by decide
theorem gen_m269 : checkMsg m269 = true := by decide
theorem gen_m271 : checkMsg m271 = true := by decide
theorem gen_m513 : checkMsg m513 = true := by decide
theorem gen_m777 : checkMsg m777 = true := by decide

/-- all of them at once. -/
theorem gen_all : messages.all checkMsg = true := by decide

end LndModel.C10.GenRefine
