/-
C10 driver.  `drv_c10 tlv < trace`  or  `drv_c10 lnwire < trace`.

(X) correspondence: the model (`Model.lean`, `Wire.lean`) is run on the same
inputs and must give the implementation's answer (`MISMATCH`).
(S) monitor: the property statement is evaluated on the implementation's own
answers with an independent, deliberately naive specification parser written
here on `List Nat` (`MONITOR`).
-/
import LndModel.Prelude.Lines
import LndModel.C10.Model
import LndModel.C10.Wire
import LndModel.C10.Failure
import LndModel.C10.Prim

open LndModel LndModel.Lines LndModel.C10

namespace LndModel.C10.Driver

/-! ## independent specification side (monitor), on `List Nat` -/

def pow2_63 : Nat := 9223372036854775808
def pow2_64 : Nat := 18446744073709551616

/-- big-endian bytes of `v`, exactly `n` of them (spec side, written with shifts). -/
def specBE (n v : Nat) : List Nat :=
  (List.range n).map fun i => (v >>> (8 * (n - 1 - i))) % 256

def specNat (bs : List Nat) : Nat := bs.foldl (fun a b => a * 256 + b) 0

/-- BOLT-1 BigSize table. -/
def specBigSize (v : Nat) : List Nat :=
  if v < 0xfd then [v]
  else if v < 0x10000 then 0xfd :: specBE 2 v
  else if v < 0x100000000 then 0xfe :: specBE 4 v
  else 0xff :: specBE 8 v

/-- Does `b` start with the canonical BigSize encoding of some value?  Returns value and width. -/
def specReadBigSize (b : List Nat) : Option (Nat × Nat) :=
  match b with
  | [] => none
  | d :: rest =>
    let w := if d < 0xfd then 0 else if d == 0xfd then 2 else if d == 0xfe then 4 else 8
    if w == 0 then some (d, 1)
    else if rest.length < w then none
    else
      let v := specNat (rest.take w)
      if specBigSize v == b.take (w + 1) then some (v, w + 1) else none

inductive SpecFail where
  | trunc | nonmin | order | lenBeyond | lenWrap | tooLarge | kindLen | kindVal
  deriving DecidableEq, Repr

/-- Is `b` (after the first byte exists) a truncated or a non-minimal varint? -/
def specVarFail (b : List Nat) : SpecFail :=
  match b with
  | [] => .trunc
  | d :: rest =>
    let w := if d == 0xfd then 2 else if d == 0xfe then 4 else 8
    if rest.length < w then .trunc else .nonmin

/-- specification of a record value of a known kind (the model's `Kind.valOk` has nothing to say
    about `bigsize`): a BigSize record's value is exactly one canonical BigSize. -/
def specValOk (k : Kind) (v : List Nat) : Bool :=
  if k.isBigsize then
    match specReadBigSize v with
    | some (_, w) => w == v.length
    | none => false
  else k.valOk (v.map UInt8.ofNat)

/-- Naive canonical-stream recogniser: strictly increasing types, minimal
    BigSize, lengths within the input (and ≤ 65535 on the p2p path), known kinds
    satisfied.  `fuel` bounds the number of records.
    With `quirk = true` it instead follows the ONE recorded deviation of the code
    (F-tlv-bigsize-record-length-ignored): for a record of kind `bigsize` the declared length
    is ignored and one canonical BigSize is consumed from the stream; the Bool result says
    whether some BigSize record's consumed width differed from its declared length.  The quirk
    run is only used to ATTRIBUTE an accepted non-canonical stream to that finding. -/
def specParse (known : List (Nat × Kind)) (p2p : Bool) (quirk : Bool := false) :
    Nat → Option Nat → List Nat → Except SpecFail (List (Nat × List Nat) × Bool)
  | 0, _, _ => .error .trunc
  | fuel + 1, prev, b =>
    if b.isEmpty then .ok ([], false) else
    match specReadBigSize b with
    | none => .error (specVarFail b)
    | some (t, w1) =>
      let ordered := match prev with | none => true | some p => decide (p < t)
      if !ordered then .error .order else
      let b1 := b.drop w1
      match specReadBigSize b1 with
      | none => .error (specVarFail b1)
      | some (l, w2) =>
        let b2 := b1.drop w2
        if p2p && decide (l > 65535) then .error .tooLarge else
        let kind := (known.find? (·.1 == t)).map (·.2)
        let isBig := match kind with | some k => k.isBigsize | none => false
        if quirk && isBig then
          match specReadBigSize b2 with
          | none => .error (specVarFail b2)
          | some (_, w) =>
            match specParse known p2p quirk fuel (some t) (b2.drop w) with
            | .error e => .error e
            | .ok (rs, dev) => .ok ((t, b2.take w) :: rs, dev || w != l)
        else
        if !(match kind with | some k => k.lenOk l | none => true) then .error .kindLen else
        if l > b2.length then (if l ≥ pow2_63 then .error .lenWrap else .error .lenBeyond) else
        let v := b2.take l
        if !(match kind with | some k => specValOk k v | none => true) then .error .kindVal else
        match specParse known p2p quirk fuel (some t) (b2.drop l) with
        | .error e => .error e
        | .ok (rs, dev) => .ok ((t, v) :: rs, dev)

/-- Is the acceptance of the non-canonical stream `inp` with records `recs` explained by
    `DBigSize` consuming a different number of bytes than declared (and by nothing else)? -/
def explainedByBigsize (known : List (Nat × Kind)) (p2p : Bool) (inp : List Nat)
    (recs : List (Nat × List Nat)) : Bool :=
  match specParse known p2p true (inp.length + 2) none inp with
  | .ok (rs, dev) => dev && rs == recs
  | .error _ => false

def specEncode (rs : List (Nat × List Nat)) : List Nat :=
  rs.foldr (fun r acc => specBigSize r.1 ++ specBigSize r.2.length ++ r.2 ++ acc) []

/-! ## helpers -/

def toU8 (bs : List Nat) : Bytes := bs.map UInt8.ofNat
def ofU8 (bs : Bytes) : List Nat := bs.map UInt8.toNat

def resWords (ws : List String) : List String :=
  match ws.dropWhile (· ≠ "=>") with
  | _ :: r => r
  | [] => []

def parseKind (s : String) : Option Kind :=
  match s.toList with
  | ['v'] => some .varBytes
  | ['b'] => some .bool
  | ['g'] => some .bigsize
  | 'f' :: n => (String.ofList n).toNat?.map .fixed
  | 't' :: n => (String.ofList n).toNat?.map .tuint
  | _ => none

def parseKnown (s : String) : Option Known :=
  if s == "-" then some [] else
  (s.splitOn ",").mapM fun item =>
    match item.splitOn ":" with
    | [t, k] => do let t ← t.toNat?; let k ← parseKind k; pure (t, k)
    | _ => none

def parseRecs (s : String) : Option (List (Nat × List Nat)) :=
  if s == "-" then some [] else
  (s.splitOn ",").mapM fun item =>
    match item.splitOn "=" with
    | [t, v] => do
      let t ← t.toNat?
      let v ← if v.isEmpty then some [] else hexBytes? v
      pure (t, v)
    | _ => none

def sErrName : SErr → String
  | .unexpectedEof => "ueof"
  | .varintNotCanonical => "varint"
  | .streamNotCanonical => "order"
  | .recordTooLarge => "toolarge"
  | .typeForDecoding => "typelen"
  | .valueInvalid => "value"

structure St where
  stream : String := "tlv"
  caseId : String := "0"
  kind : String := ""
  mtype : Nat := 0
  lines : Nat := 0
  cases : Nat := 0
  ops : Nat := 0
  nontrivial : Nat := 0
  mismatches : Nat := 0
  monitorFails : Nat := 0
  samples : Nat := 0
  counts : List (String × Nat) := []
  modelled : Nat := 0          -- lnwire inputs replayed through a schema
  modelledTypes : List Nat := []
  maxAlloc : Nat := 0
  maxSize : Nat := 0

def bump (s : St) (key : String) : St :=
  let rec go : List (String × Nat) → List (String × Nat)
    | [] => [(key, 1)]
    | (k, n) :: rest => if k == key then (k, n + 1) :: rest else (k, n) :: go rest
  { s with counts := go s.counts }

def mismatch (s : St) (detail : String) : IO St := do
  if s.mismatches < 40 then
    IO.println s!"MISMATCH case={s.caseId} kind={s.kind} line={s.lines} {detail}"
  return { s with mismatches := s.mismatches + 1 }

def countOf (s : St) (key : String) : Nat :=
  ((s.counts.find? (·.1 == key)).map (·.2)).getD 0

/-- at most 25 lines per (clause, message type), so that no clause is crowded out. -/
def monitor (s : St) (clause detail : String) : IO St := do
  let key := s!"monitor_{clause}_type{s.mtype}"
  if countOf s key < 25 then
    IO.println s!"MONITOR case={s.caseId} clause={clause} type={s.mtype} kind={s.kind} line={s.lines} {detail}"
  return { bump s key with monitorFails := s.monitorFails + 1 }

def sample (s : St) (line : String) : IO St := do
  if s.samples < 4 then
    IO.println s!"SAMPLE [{s.stream} case {s.caseId} {s.kind}] {line.take 300}"
    return { s with samples := s.samples + 1 }
  return s

/-! ## tlv stream -/

def stepVarRead (s : St) (ws : List String) (line : String) : IO St := do
  let some inp := (ws[1]?).bind hexBytes? | mismatch s "bad hex"
  let res := resWords ws
  let tag := res.headD "?"
  let used := (kvNat? res "used").getD 0
  let mut s := bump { s with ops := s.ops + 1 } s!"vr_{tag}"
  -- (X) model
  let model := match readVarInt (toU8 inp) with
    | .ok (v, rest) => s!"ok v={v} used={inp.length - rest.length}"
    | .error .eof => "eof"
    | .error .unexpectedEof => "ueof"
    | .error .notCanonical => "noncanon"
  let implShort := if tag == "ok" then s!"ok v={(kvNat? res "v").getD 0} used={used}" else tag
  if model != implShort then
    s ← mismatch s s!"ReadVarInt {ws[1]?.getD ""}: model={model} impl={implShort}"
  -- (S) monitor
  if tag == "panic" then
    s ← monitor s "panic" "ReadVarInt panicked"
  if used > 9 || used > inp.length then
    s ← monitor s "varint-bounded" s!"ReadVarInt consumed {used} bytes of {inp.length}"
  if tag == "ok" then
    let v := (kvNat? res "v").getD 0
    if specBigSize v != inp.take used || v ≥ pow2_64 then
      s ← monitor s "varint-accept-noncanonical" s!"ReadVarInt accepted v={v} from {bytesHex (inp.take used)}, canonical is {bytesHex (specBigSize v)}"
    s := { s with nontrivial := s.nontrivial + 1 }
    if s.kind == "vr-nonmin" then s ← sample s line
  else
    match specReadBigSize inp with
    | some (v, _) =>
      s ← monitor s "varint-reject-canonical" s!"ReadVarInt rejected ({tag}) the canonical encoding of {v}"
    | none => if tag == "noncanon" then s := { s with nontrivial := s.nontrivial + 1 }
  return s

def stepVarWrite (s : St) (ws : List String) : IO St := do
  let some v := (ws[1]?).bind nat? | mismatch s "bad nat"
  let res := resWords ws
  let mut s := bump { s with ops := s.ops + 1, nontrivial := s.nontrivial + 1 } "vw"
  let impl := res.headD "?"
  let model := bytesHex (ofU8 (writeVarInt v))
  if model != impl then
    s ← mismatch s s!"WriteVarInt {v}: model={model} impl={impl}"
  if (kvNat? res "size") != some (varIntSize v) then
    s ← mismatch s s!"VarIntSize {v}: model={varIntSize v} impl={(kv? res "size").getD "?"}"
  if impl == "panic" || impl == "err" then
    s ← monitor s "panic" s!"WriteVarInt {v} => {impl}"
  else
    if some (specBigSize v) != hexBytes? impl then
      s ← monitor s "varint-write" s!"WriteVarInt {v} = {impl}, BOLT-1 BigSize is {bytesHex (specBigSize v)}"
    if (kvNat? res "size") != some (specBigSize v).length then
      s ← monitor s "varint-write" s!"VarIntSize {v} = {(kv? res "size").getD "?"}"
  return s

def stepStream (s : St) (ws : List String) (line : String) : IO St := do
  let p2p := ws[1]? == some "1"
  let some known := (ws[2]?).bind parseKnown | mismatch s "bad known spec"
  let some inp := (ws[3]?).bind hexBytes? | mismatch s "bad hex"
  let res := resWords ws
  let tag := res.headD "?"
  let alloc := (kvNat? res "alloc").getD 0
  let mut s := { s with ops := s.ops + 1, maxAlloc := max s.maxAlloc alloc }
  s := bump s (if tag == "err" then s!"st_err_{res.getD 1 "?"}" else s!"st_{tag}")
  -- (X) model.  The model looks known records up by type; `Stream.getRecord` scans forward,
  -- which is the same thing when the known list is sorted (what `NewStream` enforces).
  if !sortedStrict (known.map (·.1)) then
    s ← mismatch s "known-record list of the harness is not strictly sorted"
  let model := decodeStream known p2p (toU8 inp)
  match model with
  | .ok rs =>
    let want := rs.map fun r => (r.1, ofU8 r.2)
    if tag == "ok" then
      if (res[1]?).bind parseRecs != some want then
        s ← mismatch s s!"stream records differ: impl={(res.getD 1 "?").take 80}"
    else
      s ← mismatch s s!"stream p2p={p2p}: model=ok impl={tag} {res.getD 1 ""} in={(ws.getD 3 "").take 60}"
  | .error e =>
    if !(tag == "err" && res[1]? == some (sErrName e)) then
      s ← mismatch s s!"stream p2p={p2p}: model=err {sErrName e} impl={tag} {(res.getD 1 "").take 40} in={(ws.getD 3 "").take 60}"
  -- (S) monitor
  let bound := 4194304 + 16 * inp.length
  if alloc > bound then
    s ← monitor s "over-allocation" s!"stream decode of {inp.length} bytes allocated {alloc} bytes (bound {bound}) in={(ws.getD 3 "").take 40}"
  if tag == "panic" then
    s ← monitor s "panic" s!"stream decode panicked in={(ws.getD 3 "").take 60}"
  else if tag == "disagree" then
    s ← monitor s "entrypoints-disagree" s!"Decode and DecodeWithParsedTypes disagree: {line.take 120}"
  else
    let spec := (specParse known p2p false (inp.length + 2) none inp).map (·.1)
    if tag == "ok" then
      s := { s with nontrivial := s.nontrivial + 1 }
      let recs := ((res[1]?).bind parseRecs).getD []
      let encOk := (kv? res "enc").bind hexBytes? == some inp
      match spec with
      | .ok _ =>
        if specEncode recs != inp then
          s ← monitor s "stream-accept-noncanonical" s!"records reported do not encode to the input in={(ws.getD 3 "").take 60}"
        if !encOk then
          s ← monitor s "stream-reencode" s!"decode-then-encode does not reproduce the input: enc={((kv? res "enc").getD "?").take 60} in={(ws.getD 3 "").take 60}"
        if s.kind == "canon" && !recs.isEmpty then s ← sample s line
      | .error .lenWrap =>
        if explainedByBigsize known p2p inp recs then
          s ← monitor s "bigsize-record-length" s!"decoder=tlv_DBigSize accepted a BigSize record whose declared length (>= 2^63) differs from the bytes DBigSize consumed: known={ws.getD 2 ""} in={(ws.getD 3 "").take 60}"
        else
        s ← monitor s "nonp2p-length-wrap" s!"accepted a record whose declared length >= 2^63 exceeds the input: in={(ws.getD 3 "").take 60}"
      | .error e =>
        if explainedByBigsize known p2p inp recs then
          s ← monitor s "bigsize-record-length" s!"decoder=tlv_DBigSize accepted a BigSize record whose declared length differs from the bytes DBigSize consumed ({repr e}): known={ws.getD 2 ""} in={(ws.getD 3 "").take 60}"
        else
          s ← monitor s "stream-accept-noncanonical" s!"accepted a stream that is not canonical ({repr e}): in={(ws.getD 3 "").take 60}"
    else
      match spec with
      | .ok _ =>
        s ← monitor s "stream-reject-canonical" s!"rejected ({res.getD 1 "?"}) a canonical stream: in={(ws.getD 3 "").take 60}"
      | .error _ => s := { s with nontrivial := s.nontrivial + 1 }
  return s

/-- a stream whose known record 0 is BigSize-encoded (`MakeBigSizeRecord`). -/
def stepBigSizeRec (s : St) (ws : List String) (line : String) : IO St := do
  let p2p := ws[1]? == some "1"
  let some inp := (ws[2]?).bind hexBytes? | mismatch s "bad hex"
  let res := resWords ws
  let tag := res.headD "?"
  let known : Known := [(0, .bigsize)]
  let mut s := { s with ops := s.ops + 1 }
  s := bump s (if tag == "err" then s!"bs_err_{res.getD 1 "?"}" else s!"bs_{tag}")
  -- what the implementation reports, as a record list
  let othersImpl := ((res.find? (·.startsWith "others=")).bind fun w =>
    parseRecs (String.ofList (w.toList.drop 7))).getD []
  let recsImpl : List (Nat × List Nat) :=
    (if kvNat? res "parsed" == some 1 then [(0, specBigSize ((kvNat? res "v").getD 0))] else [])
      ++ othersImpl
  -- (X) model (HEAD behaviour of DBigSize included)
  match decodeStream known p2p (toU8 inp) with
  | .ok rs =>
    if !(tag == "ok" && rs.map (fun r => (r.1, ofU8 r.2)) == recsImpl) then
      s ← mismatch s s!"bigsize stream: model=ok impl={tag} {line.take 100}"
  | .error e =>
    if !(tag == "err" && res[1]? == some (sErrName e)) then
      s ← mismatch s s!"bigsize stream: model=err {sErrName e} impl={tag} {(res.getD 1 "").take 20} {line.take 80}"
  -- (S) monitor: canonical = record 0 is exactly one canonical BigSize filling its declared length
  let spec := (specParse known p2p false (inp.length + 2) none inp).map (·.1)
  if tag == "panic" then
    s ← monitor s "panic" s!"stream decode panicked in={(ws.getD 2 "").take 60}"
  else if tag == "ok" then
    s := { s with nontrivial := s.nontrivial + 1 }
    match spec with
    | .ok rs =>
      if rs != recsImpl then
        s ← monitor s "stream-accept-noncanonical" s!"BigSize-record stream decoded to something else than its records: {line.take 140}"
      if s.kind == "bs-valid" then s ← sample s line
    | .error e =>
      if explainedByBigsize known p2p inp recsImpl then
        s ← monitor s "bigsize-record-length" s!"decoder=tlv_DBigSize accepted a BigSize record whose declared length differs from the bytes DBigSize consumed ({repr e}): {line.take 140}"
      else
        s ← monitor s "stream-accept-noncanonical" s!"accepted a stream that is not canonical ({repr e}) and not explained by DBigSize: {line.take 140}"
  else
    match spec with
    | .ok _ =>
      s ← monitor s "stream-reject-canonical" s!"rejected ({res.getD 1 "?"}) a canonical stream with a well-formed BigSize record: {line.take 120}"
    | .error _ => s := { s with nontrivial := s.nontrivial + 1 }
  return s

/-- direct probe of ONE record decoder: accepted ⇒ bytes consumed = declared length. -/
def stepProbe (s : St) (ws : List String) (line : String) : IO St := do
  let res := resWords ws
  let tag := res.headD "?"
  let name := ws.getD 1 "?"
  let via := kvNat? ws "via" == some 1
  let l := (kvNat? ws "l").getD 0
  let used := (kvNat? res "used").getD 0
  let mut s := bump { s with ops := s.ops + 1 } s!"probe_{tag}"
  if tag == "panic" then
    s ← monitor s "panic" s!"decoder={name} panicked: {line.take 120}"
  else if tag == "ok" then
    s := { s with nontrivial := s.nontrivial + 1 }
    if used != l then
      if via then
        s ← monitor s "bigsize-record-length" s!"decoder={name} via=DBigSize l={l} used={used} (accepted, consumed a different number of bytes than declared)"
      else
        s ← monitor s "decoder-consumed-length" s!"decoder={name} l={l} used={used} (accepted, consumed a different number of bytes than declared; Stream.decode continues behind what was consumed)"
  return s

/-! ## primitive record codecs on the value level (`pe` / `pd` lines of the tlv stream) -/

def primWidth (kind : String) (n : Nat) : Nat := if kind == "b" then 1 else n

/-- `pe <kind> <n> <v> => <hex> size=<s>`: encoder of a NUMBER. -/
def stepPrimEnc (s : St) (ws : List String) (line : String) : IO St := do
  let res := resWords ws
  let kind := ws.getD 1 "?"
  let n := (ws.getD 2 "0").toNat!
  let v := (ws.getD 3 "0").toNat!
  let tag := res.headD "?"
  let mut s := bump { s with ops := s.ops + 1 } s!"prim_enc_{kind}{n}"
  if tag == "panic" then
    return ← monitor s "panic" s!"primitive encoder panicked: {line.take 100}"
  if tag == "err" then
    return ← mismatch s s!"primitive encoder failed: {line.take 100}"
  s := { s with nontrivial := s.nontrivial + 1 }
  let out := if tag == "-" then some [] else hexBytes? tag
  let size := (kvNat? res "size").getD 0
  match out with
  | none => mismatch s s!"bad hex: {line.take 80}"
  | some out =>
    -- (S) spec: the value of the Go type's width, big-endian; truncated kinds without leading
    -- zero bytes and with the shortest possible length; the declared size is the written length
    let w := primWidth kind n
    let vt := if kind == "b" then v % 2 else v % (256 ^ w)
    if specNat out != vt then
      s ← monitor s "prim-encode-value" s!"kind={kind}{n} v={v}: written bytes {bytesHex out} denote {specNat out}, expected {vt}"
    if kind == "t" then
      if out.length > w || out.head? == some 0 then
        s ← monitor s "prim-encode-not-minimal" s!"kind={kind}{n} v={v}: written bytes {bytesHex out} are not the minimal truncated form"
    else if out.length != w then
      s ← monitor s "prim-encode-value" s!"kind={kind}{n} v={v}: {out.length} bytes written, width is {w}"
    if size != out.length then
      s ← monitor s "prim-size" s!"kind={kind}{n} v={v}: record Size()={size}, bytes written={out.length}"
    -- (X) model
    let m : Bytes := if kind == "t" then encTUint n vt else if kind == "b" then encBool (vt == 1) else encUint n vt
    let msz := if kind == "t" then sizeTUint n vt else w
    if ofU8 m != out || msz != size then
      s ← mismatch s s!"prim enc kind={kind}{n} v={v}: model={bytesHex (ofU8 m)} size={msz} impl={bytesHex out} size={size}"
    return s

/-- `pd <kind> <n> <hex> => ok v=<v> enc=<hex> | err <name>`: decoder on exactly these bytes. -/
def stepPrimDec (s : St) (ws : List String) (line : String) : IO St := do
  let res := resWords ws
  let kind := ws.getD 1 "?"
  let n := (ws.getD 2 "0").toNat!
  let inHex := ws.getD 3 "-"
  let tag := res.headD "?"
  let mut s := bump { s with ops := s.ops + 1 } s!"prim_dec_{kind}{n}_{tag}"
  if tag == "panic" then
    return ← monitor s "panic" s!"primitive decoder panicked: {line.take 100}"
  match (if inHex == "-" then some [] else hexBytes? inHex) with
  | none => mismatch s s!"bad hex: {line.take 80}"
  | some inp =>
    let w := primWidth kind n
    -- (S) spec: which byte strings are the encoding of a value of this kind?
    let canonical :=
      if kind == "t" then inp.length ≤ w && inp.head? != some 0
      else if kind == "b" then inp == [0] || inp == [1]
      else inp.length == w
    if tag == "ok" then
      s := { s with nontrivial := s.nontrivial + 1 }
      let v := (kvNat? res "v").getD 0
      let enc := kv? res "enc"
      if !canonical then
        s ← monitor s "prim-accept-noncanonical" s!"kind={kind}{n}: decoder accepted {inHex} (not the canonical encoding of any value)"
      else
        if v != specNat inp then
          s ← monitor s "prim-decode-value" s!"kind={kind}{n}: {inHex} decoded as {v}, denotes {specNat inp}"
        if enc != some inHex then
          s ← monitor s "prim-reencode" s!"kind={kind}{n}: {inHex} decoded and written back as {enc.getD "?"}"
    else if tag == "err" then
      if canonical then
        s ← monitor s "prim-reject-canonical" s!"kind={kind}{n}: decoder rejected the canonical encoding {inHex} ({(res[1]?).getD "?"})"
    else
      s ← mismatch s s!"unparsed result: {line.take 80}"
    -- (X) model
    let b := toU8 inp
    let m : Except PErr Nat :=
      if kind == "t" then decTUint n b
      else if kind == "b" then (decBool b).map (fun x => if x then 1 else 0)
      else decUint n b
    match m with
    | .ok mv =>
      if !(tag == "ok" && kvNat? res "v" == some mv) then
        s ← mismatch s s!"prim dec kind={kind}{n} in={inHex}: model ok v={mv}, impl={tag} {(res[1]?).getD ""}"
    | .error e =>
      let en := match e with | .typeLen => "typelen" | .notMinimal => "value" | .value => "value"
      if !(tag == "err" && res[1]? == some en) then
        s ← mismatch s s!"prim dec kind={kind}{n} in={inHex}: model err {en}, impl={tag} {(res[1]?).getD ""}"
    return s

/-! ## lnwire stream -/

/-- TLV record types each message's `Decode` extracts into typed fields, for the messages whose
    `Encode` rebuilds the extension tail from the typed fields only (read off the Go sources). -/
def knownTlvTypes : Nat → Option (List Nat)
  | 32 => some [0, 1, 4, 65536]     -- open_channel
  | 33 => some [0, 1, 4, 65536]     -- accept_channel
  | 34 => some [2]                  -- funding_created
  | 35 => some [2]                  -- funding_signed
  | 36 => some [0, 1, 2, 4]         -- channel_ready
  | 39 => some [6]                  -- closing_signed
  | 40 => some [1, 2, 3, 5, 6, 7]   -- closing_complete
  | 41 => some [1, 2, 3, 5, 6, 7, 22] -- closing_sig
  | 133 => some [4, 22]             -- revoke_and_ack
  | 136 => some [4, 20, 22]         -- channel_reestablish
  | 258 => some [55555]             -- channel_update
  | 263 => some [1]                 -- query_channel_range
  | 264 => some [1]                 -- reply_channel_range
  | 265 => some [2, 4]              -- gossip_timestamp_range
  | _ => none

def commonPrefixLen : List Nat → List Nat → Nat
  | a :: as, b :: bs => if a == b then commonPrefixLen as bs + 1 else 0
  | _, _ => 0

/-- What did `inp → enc` lose?  Everything before the extension tail must be verbatim and both
    tails canonical TLV streams.  "unknown-dropped": records of types the message does not know
    disappeared (and nothing else was lost).  "known-record": a record of a known type
    disappeared.  "benign": no record disappeared and unknown records are verbatim; only records
    of known types were normalised or added (the raw `ExtraData` cache differs, the typed fields
    are compared separately by the harness: `fixt`).  "other": anything else. -/
def classifyLoss (known : List Nat) (inp enc : List Nat) : String :=
  let k := commonPrefixLen inp enc
  let cands := (List.range 10).filterMap fun d => if d ≤ k then some (k - d) else none
  let verdicts := cands.filterMap fun b =>
    match specParse [] true false (inp.length + 2) none (inp.drop b),
          specParse [] true false (enc.length + 2) none (enc.drop b) with
    | .ok (ri, _), .ok (ro, _) =>
      let tin := ri.map (·.1)
      let tout := ro.map (·.1)
      let dropped := tin.filter (!tout.contains ·)
      -- records of types the message does not know must be carried verbatim
      let unknownKept := ro.all (fun r => known.contains r.1 || ri.contains r)
      if dropped.any (known.contains ·) then some "known-record"
      else if !unknownKept then none
      else if !dropped.isEmpty then some "unknown-dropped"
      else some "benign"
    | _, _ => none
  verdicts.headD "other"

/-- classification of ONE pair of raw extension tails (`ExtraOpaqueData` of dec(in) and of
    dec(enc(dec in))), both handed over by the harness: same verdicts as `classifyLoss`, no search
    for the tail boundary and no requirement on the bytes before the tail (those are covered by
    the typed-field comparison `fixt`). -/
def classifyTails (known : List Nat) (x1 x2 : List Nat) : String :=
  match specParse [] true false (x1.length + 2) none x1,
        specParse [] true false (x2.length + 2) none x2 with
  | .ok (ri, _), .ok (ro, _) =>
    let tin := ri.map (·.1)
    let tout := ro.map (·.1)
    -- Records of KNOWN types are not judged here: their content lives in typed fields, which
    -- the harness compares separately (`fixt`; a lost known record shows up there as
    -- `lossy-reencode-typed-fields`).  A known record that is present in one tail only while
    -- the typed fields are equal is a default/empty value the encoder does not re-emit
    -- (e.g. reply_channel_range timestamps record `01 01 00` with zero entries).
    let droppedUnknown := (tin.filter (!tout.contains ·)).filter (!known.contains ·)
    let unknownKept := ro.all (fun r => known.contains r.1 || ri.contains r)
    if !unknownKept then "other"
    else if !droppedUnknown.isEmpty then "unknown-dropped"
    else "benign"
  | _, _ => "other"

def parseHexList (s : String) : Option (List (List Nat)) :=
  if s == "none" then some [] else (s.splitOn ",").mapM hexBytes?

/-- all `ExtraOpaqueData` pairs: every differing pair must be explained; the verdict is the worst. -/
def classifyExtras (known : List Nat) (xs1 xs2 : List (List Nat)) : String :=
  if xs1.length != xs2.length then "other" else
  let vs := (xs1.zip xs2).filterMap fun (a, b) => if a == b then none else some (classifyTails known a b)
  if vs.contains "other" then "other"
  else if vs.contains "known-record" then "known-record"
  else if vs.contains "unknown-dropped" then "unknown-dropped"
  else if vs.isEmpty then "other" else "benign"

def u16At (b : List Nat) (i : Nat) : Option Nat :=
  match b[i]?, b[i + 1]? with
  | some x, some y => some (x * 256 + y)
  | _, _ => none

/-- the channel_update embedded in an onion failure (codes that carry one), type prefix stripped. -/
def failUpdate (b : List Nat) : Option (List Nat) := do
  let l ← u16At b 0
  let body := (b.drop 2).take l
  let code ← u16At body 0
  let off ← match code with
    | 0x1007 => some 0 | 0x100b => some 8 | 0x100c => some 8 | 0x100d => some 4
    | 0x100e => some 0 | 0x1014 => some 2 | _ => none
  let ul ← u16At body (2 + off)
  let upd := (body.drop (4 + off)).take ul
  some (if upd.take 2 == [1, 2] then upd.drop 2 else upd)

/-- type of the last record header that can still be read (tolerant walk, for attribution). -/
def lastRecType (b : List Nat) : Nat :=
  let rec go : Nat → List Nat → Nat → Nat
    | 0, _, last => last
    | fuel + 1, b, last =>
      match specReadBigSize b with
      | none => last
      | some (t, w1) =>
        match specReadBigSize (b.drop w1) with
        | none => t
        | some (l, w2) => go fuel ((b.drop (w1 + w2)).drop l) t
  go (b.length + 1) b 0

def replayKey (t : Nat) (out : Wire.Outcome) : String :=
  let tn := if t ≥ 32768 then 32768 else t
  match out with
  | .reject => s!"replayed_type_{tn}_rej"
  | .accept _ => s!"replayed_type_{tn}_acc"

def stepMsg (s : St) (ws : List String) (line : String) (isFail : Bool) : IO St := do
  let res := resWords ws
  let tag := res.headD "?"
  let alloc := (kvNat? res "alloc").getD 0
  let inHex := ws.getD 1 "-"
  let inLen := if inHex == "-" then 0 else inHex.length / 2
  let mut s := { s with ops := s.ops + 1, maxAlloc := max s.maxAlloc alloc }
  let pre := if isFail then "fail" else "msg"
  -- (S) monitor: purely on the implementation's answers
  let allocBound := 8388608 + 64 * inLen
  if alloc > allocBound then
    s ← monitor s "over-allocation" s!"decoding {inLen} bytes allocated {alloc} bytes (bound {allocBound})"
  if tag == "panic" then
    s := bump s s!"{pre}_panic"
    s ← monitor s "panic" s!"decode/encode panicked on in={inHex.take 80}"
  else if tag == "err" then
    s := bump s (if res[1]? == some "unknown" then s!"{pre}_err_unknown_type" else s!"{pre}_err")
    if s.kind == "valid" || s.kind == "fail-valid" then
      s ← monitor s "valid-rejected" s!"the encoding of a generated value is rejected: in={inHex.take 80}"
  else if tag == "ok" then
    s := { s with nontrivial := s.nontrivial + 1 }
    if res[1]? == some "encerr" then
      s := bump s s!"{pre}_ok_encerr"
      -- EncodeFailure refuses inner failure messages longer than 256 bytes (recorded finding);
      -- the inner length is taken from the input's own length prefix.  Any other refusal is
      -- a plain `reencode-error`.
      let innerLen := ((hexBytes? (String.ofList (inHex.toList.take 4))).map specNat).getD 0
      if isFail && innerLen > 256 then
        s ← monitor s "failure-reencode-error" s!"innerlen={innerLen} DecodeFailure accepted an inner failure message of {innerLen} > 256 bytes that EncodeFailure refuses: in={inHex.take 80}"
      else
        s ← monitor s "reencode-error" s!"decoded message cannot be re-encoded{if isFail then s!" (onion failure, innerlen={innerLen})" else ""}: in={inHex.take 80}"
    else
      let size := (kvNat? res "size").getD 0
      s := { s with maxSize := max s.maxSize size }
      if size > 65535 then
        s ← monitor s "size-bound" s!"re-encoding has {size} bytes"
      -- BOLT 4: an encoded failure is the fixed-size packet 2 + 256 + 2 (theorem `failure_size`)
      if isFail && size != 260 then
        s ← monitor s "failure-size" s!"EncodeFailure produced {size} bytes (must be 260): in={inHex.take 80}"
      if res.contains "redecerr" then
        s := bump s s!"{pre}_ok_redecerr"
        s ← monitor s "reencode-rejected" s!"enc(dec in) is rejected by the decoder: in={inHex.take 80}"
      else
        let fixb := kvNat? res "fixb" == some 1
        let fixv := kvNat? res "fixv" == some 1
        s := bump s s!"{pre}_ok_fixb{if fixb then 1 else 0}_fixv{if fixv then 1 else 0}"
        if !fixb then
          s ← monitor s "not-a-fixpoint" s!"enc(dec(enc(dec in))) != enc(dec in): in={inHex.take 80}"
        else if !fixv then
          -- which information?  (the clause name carries the classification)
          let inp := (hexBytes? inHex).getD []
          let enc := ((kv? res "enc").bind hexBytes?).getD []
          let known? := if isFail then some [55555] else knownTlvTypes s.mtype
          let xd := match known?, (kv? res "xd1").bind parseHexList, (kv? res "xd2").bind parseHexList with
            | some known, some xs1, some xs2 => some (classifyExtras known xs1 xs2)
            | _, _, _ => none
          let cls :=
            if let some c := xd then c
            else if isFail then
              match failUpdate inp, failUpdate enc with
              | some ui, some uo => classifyLoss [55555] ui uo
              | _, _ => "other"
            else
              match knownTlvTypes s.mtype with
              | some known => classifyLoss known (inp.drop 2) (enc.drop 2)
              | none => "other"
          let fixt := kvNat? res "fixt" == some 1
          if !fixt then
            s ← monitor s "lossy-reencode-typed-fields" s!"typed fields of dec(enc(dec in)) differ from dec in: in={inHex.take 60}..{String.ofList (inHex.toList.drop (inHex.length - 24))}"
          else if cls == "benign" then
            s := bump s s!"{pre}_tail_renormalised_no_loss"
          else
            let clause := if cls == "unknown-dropped" then "lossy-reencode" else s!"lossy-reencode-{cls}"
            s ← monitor s clause s!"dec(enc(dec in)) differs from dec in (information lost by Encode; {cls}): in={inHex.take 60}..{String.ofList (inHex.toList.drop (inHex.length - 24))}"
        -- (S) the extension tail of an accepted message is a TLV stream: it must be canonical
        -- (lengths within the input), and a record that is written back keeps its value unless
        -- the message documents a normalisation for it (schema `norm` list / BigSize records).
        if !isFail then
          match (hexBytes? inHex).bind (fun i => Wire.tlvTailOf (toU8 i)),
                ((kv? res "enc").bind hexBytes?).bind (fun e => Wire.tlvTailOf (toU8 e)) with
          | some (sx, tin), some (_, tout) =>
            let bigs : List (Nat × Kind) := sx.known.filter (·.2.isBigsize)
            let tinN := ofU8 tin
            match specParse bigs true false (tinN.length + 2) none tinN with
            | .error e =>
              match specParse bigs true true (tinN.length + 2) none tinN with
              | .ok (_, true) =>
                s ← monitor s "bigsize-record-length" s!"decoder=lnwire_msg_tail accepted a message whose BigSize record's declared length differs from the bytes DBigSize consumed ({repr e}): in={inHex.take 80}"
              | _ =>
                s ← monitor s "tail-not-canonical" s!"rec={lastRecType tinN} accepted a message whose extension tail is not a canonical TLV stream within the input ({repr e}): in={inHex.take 60}..{String.ofList (inHex.toList.drop (inHex.length - 24))}"
            | .ok (ri, _) =>
              match specParse [] true false (tout.length + 2) none (ofU8 tout) with
              | .ok (ro, _) =>
                for r in ri do
                  match ro.find? (·.1 == r.1) with
                  | some r' =>
                    if r'.2 != r.2 && !(sx.norm.any (fun n => n.1 == r.1 && !sx.quirk.contains r.1)) && !(bigs.any (·.1 == r.1)) then
                      s ← monitor s "tlv-record-value-changed" s!"rec={r.1} value {bytesHex (r.2.take 40)} re-encoded as {bytesHex (r'.2.take 40)} (no normalisation documented for this record): in={inHex.take 60}"
                  | none => pure ()
              | .error _ => pure ()
          | _, _ => pure ()
        if (s.kind == "valid" || s.kind == "fail-valid") && fixb then
          -- canonical encodings of generated values are reproduced exactly
          if (kv? res "enc") != some inHex then
            s ← monitor s "valid-not-canonical" s!"enc(dec(enc v)) != enc v: in={inHex.take 80}"
        if s.kind == "valid" then s ← sample s line
  else
    s ← mismatch s s!"unparsed result: {line.take 80}"
  -- (X) model: schema interpreter (messages), framing + fixed-payload codes (onion failures)
  if true then
    match hexBytes? inHex with
    | none => s ← mismatch s "bad hex"
    | some inp =>
      if isFail then
        -- every onion failure input is replayed by the TOTAL failure model (all registered codes)
        let out := Wire.modelFailureX Wire.dropUnknownAtHead (toU8 inp)
        let code := match u16At inp 0 with
          | some l => (u16At ((inp.drop 2).take l) 0).getD 0
          | none => 0
        let lay := match Wire.failLayout code with
          | some (.fixed _) => "fixed" | some (.update _ _) => "update" | some .details => "details"
          | some .onionPayload => "onionpayload" | none => "unregistered"
        match out with
        | .reject =>
          s := bump s s!"fail_replayed_{lay}_rej"
          if tag != "err" then
            s ← mismatch s s!"onion failure: model rejects, impl={tag} in={inHex.take 80}"
        | .encErr =>
          s := bump s s!"fail_replayed_{lay}_encerr"
          if !(tag == "ok" && res[1]? == some "encerr") then
            s ← mismatch s s!"onion failure: model says EncodeFailure refuses, impl={tag} {(res[1]?).getD ""} in={inHex.take 80}"
        | .accept enc =>
          s := bump s s!"fail_replayed_{lay}_acc"
          let encHex := bytesHex (ofU8 enc)
          if tag != "ok" then
            s ← mismatch s s!"onion failure: model accepts, impl={tag} in={inHex.take 80}"
          else if (kv? res "enc") != some encHex then
            s ← mismatch s s!"onion failure code={code}: re-encoding differs model={encHex.take 80} impl={((kv? res "enc").getD "?").take 80} in={inHex.take 80}"
      else
        match Wire.modelMessage (toU8 inp) with
        | none => pure ()
        | some out =>
          if !isFail then s := bump s (replayKey s.mtype out)
          s := if isFail then bump s "fail_replayed_by_model" else
               { s with modelled := s.modelled + 1,
                        modelledTypes := if s.modelledTypes.contains s.mtype then s.modelledTypes else s.mtype :: s.modelledTypes }
          match out with
          | .reject =>
            if tag != "err" then
              s ← mismatch s s!"type={s.mtype}: model rejects, impl={tag} in={inHex.take 80}"
          | .accept enc =>
            let encHex := bytesHex (ofU8 enc)
            if tag != "ok" then
              s ← mismatch s s!"type={s.mtype}: model accepts, impl={tag} in={inHex.take 80}"
            else if (kv? res "enc") != some encHex then
              s ← mismatch s s!"type={s.mtype}: re-encoding differs model={encHex.take 60}..{encHex.drop (encHex.length - 20)} impl={((kv? res "enc").getD "?").take 60}"
  return s

/-- kinds of generated WELL-FORMED values (messages and onion failures): the value clauses apply. -/
def genKind (k : String) : Bool :=
  k == "gen" || k == "gen-fit" || k == "gen-addrs" || k == "gen-feat" || k == "fail-gen"

def stepVal (s : St) (ws : List String) (_line : String) : IO St := do
  let res := resWords ws
  let tag := res.headD "?"
  let mut s := { s with ops := s.ops + 1 }
  if tag == "panic" then
    s := bump s "val_panic"
    s ← monitor s "panic" "WriteMessage/ReadMessage panicked on a generated value"
  else if tag == "encerr" then
    s := bump s "val_encerr"
    if genKind s.kind then
      s ← monitor s "valid-value-encode-error" "WriteMessage failed on a well-formed value within the size bound"
  else
    s := { s with nontrivial := s.nontrivial + 1 }
    let size := (kvNat? res "size").getD 0
    s := { s with maxSize := max s.maxSize size }
    if size > 65535 || s.kind == "gen-big" then
      s ← monitor s "size-bound" s!"WriteMessage produced {size} bytes for a value (limit 65535)"
    if res.contains "decerr" then
      s := bump s "val_decerr"
      if genKind s.kind then
        s ← monitor s "valid-rejected" s!"encoding of a generated value is rejected: {tag.take 80}"
    else if kvNat? res "rt" != some 1 then
      s := bump s "val_rt0"
      if genKind s.kind then
        s ← monitor s "value-roundtrip" s!"dec(enc v) differs from v: enc={tag.take 80}"
    else
      s := bump s "val_rt1"
  return s

def step (s : St) (line : String) : IO St := do
  let s := { s with lines := s.lines + 1 }
  let ws := words line
  match ws with
  | "FACT" :: rest =>
    let chk (s : St) (key : String) (v : Nat) : IO St :=
      match kv? rest key with
      | none => pure s
      | some x => if x.toNat? == some v then pure s else mismatch s s!"fact {key}: model={v} impl={x}"
    let s ← chk s "maxRecordSize" maxRecordSize
    let s ← chk s "maxMsgBody" Wire.maxMsgBody
    let s ← chk s "maxSliceLength" 65535
    chk s "failureMessageLength" 256
  | "CASE" :: id :: rest =>
    return { s with caseId := id, kind := (kv? rest "kind").getD "", mtype := (kvNat? rest "type").getD 0,
                     cases := s.cases + 1 }
  | ["END"] => return s
  | "vr" :: _ => stepVarRead s ws line
  | "vw" :: _ => stepVarWrite s ws
  | "st" :: _ => stepStream s ws line
  | "bs" :: _ => stepBigSizeRec s ws line
  | "probe" :: _ => stepProbe s ws line
  | "pe" :: _ => stepPrimEnc s ws line
  | "pd" :: _ => stepPrimDec s ws line
  | "msg" :: _ => stepMsg s ws line false
  | "fail" :: _ => stepMsg s ws line true
  | "val" :: _ => stepVal s ws line
  | "fval" :: _ => stepVal s ws line
  | [] => return s
  | _ => mismatch s s!"unparsed line: {line.take 60}"

end LndModel.C10.Driver

open LndModel.C10.Driver in
def main (args : List String) : IO Unit := do
  let name := args.headD "tlv"
  let s ← LndModel.Lines.foldStdin step { stream := name }
  IO.println s!"STAT lines={s.lines}"
  IO.println s!"STAT cases={s.cases}"
  IO.println s!"STAT evaluations={s.ops}"
  IO.println s!"STAT nontrivial={s.nontrivial}"
  for (k, n) in s.counts do
    IO.println s!"STAT {name}_{k}={n}"
  IO.println s!"STAT {name}_max_alloc={s.maxAlloc}"
  if name != "tlv" then
    IO.println s!"STAT lnwire_max_size={s.maxSize}"
    IO.println s!"STAT lnwire_inputs_replayed_by_schema_model={s.modelled}"
    IO.println s!"STAT lnwire_types_with_schema_model={s.modelledTypes.length}"
  IO.println s!"STAT mismatches={s.mismatches}"
  IO.println s!"STAT monitor_failures={s.monitorFails}"
