/-
C10 — theorems about the primitive TLV record codecs on the VALUE level (`Prim.lean`):
truncated integers are accepted exactly in their minimal form and decode/encode are mutually
inverse; fixed-width integers and bools likewise; the value-level decoders accept exactly what
the acceptance-level `Kind` of the stream model accepts.
-/
import LndModel.C10.Prim
import LndModel.C10.Lemmas

namespace LndModel.C10

theorem beNat_dropWhile_zero (l : Bytes) : beNat (l.dropWhile (· == 0)) = beNat l := by
  induction l with
  | nil => rfl
  | cons x xs ih =>
    simp only [List.dropWhile_cons]
    split
    · rename_i hx
      have : x = 0 := by simpa using hx
      subst this
      rw [ih]
      simp [beNat]
    · rfl

theorem dropWhile_zero_head (l : Bytes) (x : UInt8) (rest : Bytes)
    (h : l.dropWhile (· == 0) = x :: rest) : (x == 0) = false := by
  induction l with
  | nil => simp at h
  | cons y ys ih =>
    simp only [List.dropWhile_cons] at h
    split at h
    · exact ih h
    · rename_i hy
      cases h
      simpa using hy

theorem dropWhile_zero_length (l : Bytes) : (l.dropWhile (· == 0)).length ≤ l.length := by
  induction l with
  | nil => simp
  | cons y ys ih =>
    simp only [List.dropWhile_cons]
    split
    · simp only [List.length_cons]; omega
    · simp

theorem beNat_zeros_append (k : Nat) (b : Bytes) : beNat (List.replicate k 0 ++ b) = beNat b := by
  induction k with
  | zero => simp
  | succ k ih =>
    rw [List.replicate_succ, List.cons_append]
    simp [beNat, ih]

theorem dropWhile_zeros_append (k : Nat) (b : Bytes) :
    (List.replicate k (0 : UInt8) ++ b).dropWhile (· == 0) = b.dropWhile (· == 0) := by
  induction k with
  | zero => simp
  | succ k ih =>
    rw [List.replicate_succ, List.cons_append, List.dropWhile_cons]
    simp [ih]

/-- a byte string of at most `n` bytes is the tail of the `n`-byte big-endian form of its value. -/
theorem beBytes_beNat_pad (n : Nat) (b : Bytes) (h : b.length ≤ n) :
    beBytes n (beNat b) = List.replicate (n - b.length) 0 ++ b := by
  have hl : (List.replicate (n - b.length) (0 : UInt8) ++ b).length = n := by
    simp only [List.length_append, List.length_replicate]; omega
  have := beBytes_beNat (List.replicate (n - b.length) (0 : UInt8) ++ b)
  rw [hl, beNat_zeros_append] at this
  exact this

/-- `tuint_decode_encode`: every value of the type's width survives `ETUintN` then `DTUintN`. -/
theorem tuint_decode_encode (n v : Nat) (hv : v < 256 ^ n) : decTUint n (encTUint n v) = .ok v := by
  have hval : beNat (encTUint n v) = v := by
    unfold encTUint
    rw [beNat_dropWhile_zero, beNat_beBytes, Nat.mod_eq_of_lt hv]
  have hlen : (encTUint n v).length ≤ n := by
    unfold encTUint
    have := dropWhile_zero_length (beBytes n v)
    rw [beBytes_length] at this
    exact this
  unfold decTUint
  rw [if_neg (by omega)]
  cases he : encTUint n v with
  | nil =>
    rw [he] at hval
    simp only [beNat] at hval
    simp [← hval]
  | cons x rest =>
    have hx := dropWhile_zero_head (beBytes n v) x rest (by unfold encTUint at he; exact he)
    simp only [hx, Bool.false_eq_true, if_false]
    rw [← he, hval]

/-- `tuint_encode_decode`: whatever `DTUintN` accepts is the (unique, minimal) encoding
    `ETUintN` writes for the decoded value, and the value fits the type. -/
theorem tuint_encode_decode (n : Nat) (b : Bytes) (v : Nat) (h : decTUint n b = .ok v) :
    b = encTUint n v ∧ v < 256 ^ n := by
  unfold decTUint at h
  split at h
  · cases h
  · rename_i hlen
    have hlen : b.length ≤ n := by omega
    have hvb : v = beNat b ∧ (∀ x rest, b = x :: rest → (x == 0) = false) := by
      cases b with
      | nil => simp only [Except.ok.injEq] at h; subst h; exact ⟨rfl, by intro x rest hh; cases hh⟩
      | cons x rest =>
        simp only at h
        split at h
        · cases h
        · rename_i hx
          simp only [Except.ok.injEq] at h
          refine ⟨h.symm, ?_⟩
          intro y r hh
          cases hh
          simpa using hx
    obtain ⟨hv, hhead⟩ := hvb
    constructor
    · unfold encTUint
      rw [hv, beBytes_beNat_pad n b hlen, dropWhile_zeros_append]
      cases b with
      | nil => rfl
      | cons x rest =>
        have := hhead x rest rfl
        simp [this]
    · rw [hv]
      exact Nat.lt_of_lt_of_le (beNat_lt b) (Nat.pow_le_pow_right (by omega) hlen)

/-- complete characterisation of what the truncated-integer decoder accepts. -/
theorem tuint_accept_iff_minimal (n : Nat) (b : Bytes) (v : Nat) :
    decTUint n b = .ok v ↔ v < 256 ^ n ∧ b = encTUint n v := by
  constructor
  · intro h
    obtain ⟨h1, h2⟩ := tuint_encode_decode n b v h
    exact ⟨h2, h1⟩
  · rintro ⟨hv, rfl⟩
    exact tuint_decode_encode n v hv

/-- `SizeTUintN` is the least number of bytes whose range contains the value. -/
theorem tuint_size_minimal (n v : Nat) (hv : v < 256 ^ n) :
    sizeTUint n v ≤ n ∧ v < 256 ^ sizeTUint n v ∧ ∀ k, v < 256 ^ k → sizeTUint n v ≤ k := by
  have hval : beNat (encTUint n v) = v := by
    unfold encTUint
    rw [beNat_dropWhile_zero, beNat_beBytes, Nat.mod_eq_of_lt hv]
  refine ⟨?_, ?_, ?_⟩
  · unfold sizeTUint encTUint
    have := dropWhile_zero_length (beBytes n v)
    rw [beBytes_length] at this
    exact this
  · unfold sizeTUint
    have := beNat_lt (encTUint n v)
    rw [hval] at this
    exact this
  · intro k hk
    unfold sizeTUint
    cases he : encTUint n v with
    | nil => simp
    | cons x rest =>
      have hx := dropWhile_zero_head (beBytes n v) x rest (by unfold encTUint at he; exact he)
      rw [he] at hval
      simp only [beNat] at hval
      have hx1 : 1 ≤ x.toNat := by
        have : x ≠ 0 := by simpa using hx
        have h0 : x.toNat ≠ 0 := fun h => this (UInt8.toNat_inj.mp (by simpa using h))
        omega
      have hge : 256 ^ rest.length ≤ v := by
        rw [← hval]
        calc 256 ^ rest.length = 1 * 256 ^ rest.length := by omega
          _ ≤ x.toNat * 256 ^ rest.length := Nat.mul_le_mul_right _ hx1
          _ ≤ _ := Nat.le_add_right _ _
      simp only [List.length_cons]
      by_cases hc : rest.length + 1 ≤ k
      · exact hc
      · exfalso
        have : k ≤ rest.length := by omega
        have := Nat.pow_le_pow_right (show 0 < 256 by omega) this
        omega

/-- fixed-width integers: `EUintN` / `DUintN` are mutually inverse on exactly the `n`-byte strings. -/
theorem uint_decode_encode (n v : Nat) (hv : v < 256 ^ n) : decUint n (encUint n v) = .ok v := by
  unfold decUint encUint
  simp [beBytes_length, beNat_beBytes, Nat.mod_eq_of_lt hv]

theorem uint_encode_decode (n : Nat) (b : Bytes) (v : Nat) (h : decUint n b = .ok v) :
    b = encUint n v ∧ v < 256 ^ n := by
  unfold decUint at h
  split at h
  · cases h
  · rename_i hl
    have hl : b.length = n := by simpa using hl
    simp only [Except.ok.injEq] at h
    subst h
    constructor
    · unfold encUint; rw [← hl, beBytes_beNat]
    · rw [← hl]; exact beNat_lt b

theorem bool_decode_encode (v : Bool) : decBool (encBool v) = .ok v := by
  cases v <;> rfl

theorem bool_encode_decode (b : Bytes) (v : Bool) (h : decBool b = .ok v) : b = encBool v := by
  unfold decBool at h
  split at h
  · rename_i x
    split at h
    · rename_i hx
      cases h
      have : x = 0 := by simpa using hx
      subst this; rfl
    · split at h
      · rename_i hx
        cases h
        have : x = 1 := by simpa using hx
        subst this; rfl
      · cases h
  · cases h

/-- the value-level decoders accept exactly what the acceptance-level kinds of the stream model
    (`Kind.lenOk` / `Kind.valOk`, the hypotheses of `stream_accept_iff_canonical`) accept. -/
theorem tuint_kind_agrees (n : Nat) (b : Bytes) :
    ((Kind.tuint n).lenOk b.length && (Kind.tuint n).valOk b) = true ↔ ∃ v, decTUint n b = .ok v := by
  unfold decTUint
  simp only [Kind.lenOk, Kind.valOk, Bool.and_eq_true, decide_eq_true_eq]
  constructor
  · rintro ⟨hl, hv⟩
    rw [if_neg (by omega)]
    cases b with
    | nil => exact ⟨0, rfl⟩
    | cons x rest =>
      simp only at hv
      have : (x == 0) = false := by simpa using hv
      simp [this]
  · rintro ⟨v, h⟩
    split at h
    · cases h
    · rename_i hl
      refine ⟨by omega, ?_⟩
      cases b with
      | nil => rfl
      | cons x rest =>
        simp only at h ⊢
        split at h
        · cases h
        · rename_i hx; simpa using hx

theorem bool_kind_agrees (b : Bytes) :
    (Kind.bool.lenOk b.length && Kind.bool.valOk b) = true ↔ ∃ v, decBool b = .ok v := by
  constructor
  · intro h
    simp only [Kind.lenOk, Kind.valOk, Bool.and_eq_true, Bool.or_eq_true, beq_iff_eq] at h
    rcases h.2 with h2 | h2
    · subst h2; exact ⟨false, rfl⟩
    · subst h2; exact ⟨true, rfl⟩
  · rintro ⟨v, h⟩
    have := bool_encode_decode b v h
    subst this
    cases v <;> rfl

/-! non-vacuity: concrete instances -/
example : encTUint 8 0x1234 = [0x12, 0x34] ∧ decTUint 8 [0x12, 0x34] = .ok 0x1234 ∧
    decTUint 8 [0, 0x12, 0x34] = .error .notMinimal ∧ decTUint 2 [1, 2, 3] = .error .typeLen ∧
    encTUint 4 0 = [] ∧ sizeTUint 8 (2 ^ 56) = 8 :=
  ⟨by decide, rfl, rfl, rfl, by decide, by decide⟩

end LndModel.C10
