/-
C10 — the `features` field kind (`RawFeatureVector.Decode/Encode`, u16 length + bit vector,
re-encoded with the minimal number of bytes, bit indices folded modulo 2^16): the per-kind
canonical-fixpoint lemma that `WireProps.decField_fix` has for the other field kinds.
-/
import LndModel.C10.WireProps

namespace LndModel.C10.Wire

open LndModel.C10

theorem orBytes_length (xs ys : Bytes) : (orBytes xs ys).length = max xs.length ys.length := by
  induction xs generalizing ys with
  | nil => simp [orBytes]
  | cons x xs ih =>
    cases ys with
    | nil => simp [orBytes]
    | cons y ys => simp [orBytes, ih]

/-- folding leaves at most 8192 bytes (65536 feature bits). -/
theorem wrapLE_length : ∀ (fuel : Nat) (le : Bytes), le.length ≤ (fuel + 1) * 8192 →
    (wrapLE fuel le).length ≤ 8192 := by
  intro fuel
  induction fuel with
  | zero => intro le h; simpa [wrapLE] using h
  | succ fuel ih =>
    intro le h
    unfold wrapLE
    split
    · assumption
    · rename_i hgt
      rw [orBytes_length]
      have h1 : (le.take 8192).length = 8192 := by simp only [List.length_take]; omega
      have h2 := ih (le.drop 8192) (by simp only [List.length_drop]; omega)
      omega

theorem dropWhile_idem {α : Type} (p : α → Bool) (l : List α) :
    (l.dropWhile p).dropWhile p = l.dropWhile p := by
  induction l with
  | nil => rfl
  | cons a l ih =>
    simp only [List.dropWhile_cons]
    split
    · exact ih
    · rename_i h
      simp only [List.dropWhile_cons, h]
      rfl

theorem dropWhile_zero_le (l : Bytes) : (l.dropWhile (· == 0)).length ≤ l.length := by
  induction l with
  | nil => simp
  | cons y ys ih =>
    simp only [List.dropWhile_cons]
    split
    · simp only [List.length_cons]; omega
    · simp

theorem wrapLE_le : ∀ (fuel : Nat) (le : Bytes), (wrapLE fuel le).length ≤ le.length := by
  intro fuel
  induction fuel with
  | zero => intro le; simp [wrapLE]
  | succ fuel ih =>
    intro le
    unfold wrapLE
    split
    · exact Nat.le_refl _
    · rename_i hgt
      rw [orBytes_length]
      have h2 := ih (le.drop 8192)
      simp only [List.length_take, List.length_drop] at h2 ⊢
      omega

theorem featNorm_length (d : Bytes) (h : d.length ≤ 65535) : (featNorm d).length ≤ 8192 := by
  unfold featNorm
  have h1 := wrapLE_length 9 d.reverse (by simp only [List.length_reverse]; omega)
  have h2 := dropWhile_zero_le ((wrapLE 9 d.reverse).reverse)
  simp only [List.length_reverse] at h2
  omega

/-- `featNorm_idem`: the minimal re-encoding of a feature vector is its own minimal re-encoding
    (for every vector that fits the u16 length prefix). -/
theorem featNorm_idem (d : Bytes) (h : d.length ≤ 65535) : featNorm (featNorm d) = featNorm d := by
  have hl := featNorm_length d h
  have hw : wrapLE 9 (featNorm d).reverse = (featNorm d).reverse := by
    unfold wrapLE
    rw [if_pos (by simp only [List.length_reverse]; exact hl)]
  have e1 : featNorm (featNorm d) =
      ((wrapLE 9 (featNorm d).reverse).reverse).dropWhile (· == 0) := rfl
  rw [e1, hw, List.reverse_reverse]
  exact dropWhile_idem (· == 0) ((wrapLE 9 d.reverse).reverse)

/-- `features_fix`: what the feature-vector field decoder re-encodes is accepted again with any
    continuation and re-encodes to itself (the `features` case of `decField_fix`). -/
theorem features_fix (b e r : Bytes) (h : decField .features b = some (e, r)) :
    (∀ r', decField .features (e ++ r') = some (e, r')) ∧ e.length ≤ b.length := by
  simp only [decField, decBlob] at h
  split at h
  · cases h
  · rename_i h2
    split at h
    · cases h
    · rename_i hlen
      simp only [Option.some.injEq, Prod.mk.injEq] at h
      obtain ⟨he, hr⟩ := h
      have hb2 : (b.take 2).length = 2 := by simp only [List.length_take]; omega
      have hl16 : beNat (b.take 2) < 65536 := by
        have := beNat_lt (b.take 2)
        rw [hb2] at this
        omega
      generalize hd : (b.drop 2).take (beNat (b.take 2)) = blob at he
      have hbl : blob.length ≤ 65535 := by
        rw [← hd]; simp only [List.length_take, List.length_drop]; omega
      have hn := featNorm_length blob hbl
      constructor
      · intro r'
        subst he
        simp only [decField, decBlob]
        have ht : (beBytes 2 (featNorm blob).length ++ featNorm blob ++ r').take 2 =
            beBytes 2 (featNorm blob).length := by
          rw [List.append_assoc]; exact List.take_left' (beBytes_length 2 _)
        have hdr : (beBytes 2 (featNorm blob).length ++ featNorm blob ++ r').drop 2 =
            featNorm blob ++ r' := by
          rw [List.append_assoc]; exact List.drop_left' (beBytes_length 2 _)
        have hv : beNat (beBytes 2 (featNorm blob).length) = (featNorm blob).length := by
          rw [beNat_beBytes]; exact Nat.mod_eq_of_lt (by omega)
        rw [if_neg (by simp only [List.length_append, beBytes_length]; omega), ht, hdr, hv,
          if_neg (by simp only [List.length_append]; omega), List.take_left' rfl,
          List.drop_left' rfl, featNorm_idem blob hbl]
      · subst he
        have : blob.length ≤ (b.drop 2).length := by
          rw [← hd]; simp only [List.length_take]; omega
        simp only [List.length_drop] at this
        simp only [List.length_append, beBytes_length]
        have hfl : (featNorm blob).length ≤ blob.length := by
          have h1 : (featNorm blob).length ≤ ((wrapLE 9 blob.reverse).reverse).length :=
            dropWhile_zero_le ((wrapLE 9 blob.reverse).reverse)
          rw [List.length_reverse] at h1
          have h2 := wrapLE_le 9 blob.reverse
          rw [List.length_reverse] at h2
          exact Nat.le_trans h1 h2
        omega

/-- non-vacuity: an over-long vector with leading zero bytes is accepted and shortened; the
    shortened form is a fixpoint. -/
example : decField .features [0, 3, 0, 0, 5, 9] = some ([0, 1, 5], [9]) ∧
    decField .features [0, 1, 5, 9] = some ([0, 1, 5], [9]) := ⟨by decide, by decide⟩

end LndModel.C10.Wire
