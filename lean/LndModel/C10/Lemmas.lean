/-
C10 — helper lemmas for the BigSize / TLV stream theorems.
-/
import LndModel.C10.Model

namespace LndModel.C10

/-! ### big-endian helpers -/

theorem beBytes_length (n v : Nat) : (beBytes n v).length = n := by
  induction n generalizing v with
  | zero => rfl
  | succ n ih => simp [beBytes, ih]

theorem beNat_lt (bs : Bytes) : beNat bs < 256 ^ bs.length := by
  induction bs with
  | nil => simp [beNat]
  | cons b bs ih =>
    simp only [beNat, List.length_cons, Nat.pow_succ]
    have hb : b.toNat < 256 := UInt8.toNat_lt b
    have hp : 0 < 256 ^ bs.length := Nat.pow_pos (by decide)
    calc b.toNat * 256 ^ bs.length + beNat bs
        < b.toNat * 256 ^ bs.length + 256 ^ bs.length := by omega
      _ = (b.toNat + 1) * 256 ^ bs.length := by rw [Nat.add_mul, Nat.one_mul]
      _ ≤ 256 * 256 ^ bs.length := Nat.mul_le_mul_right _ (by omega)
      _ = 256 ^ bs.length * 256 := Nat.mul_comm _ _

theorem beNat_beBytes (n v : Nat) : beNat (beBytes n v) = v % 256 ^ n := by
  induction n generalizing v with
  | zero => simp [beBytes, beNat, Nat.mod_one]
  | succ n ih =>
    simp only [beBytes, beNat, beBytes_length, ih]
    have h256 : (UInt8.ofNat (v / 256 ^ n % 256)).toNat = v / 256 ^ n % 256 := by
      simp [UInt8.toNat_ofNat']
    rw [h256, Nat.mod_mod, Nat.pow_succ, Nat.mod_mul, Nat.mul_comm]
    omega

theorem beBytes_beNat (bs : Bytes) : beBytes bs.length (beNat bs) = bs := by
  induction bs with
  | nil => rfl
  | cons b bs ih =>
    simp only [List.length_cons, beBytes, beNat]
    have hlt := beNat_lt bs
    have hp : 0 < 256 ^ bs.length := Nat.pow_pos (by decide)
    have hb : b.toNat < 256 := UInt8.toNat_lt b
    have h1 : (b.toNat * 256 ^ bs.length + beNat bs) / 256 ^ bs.length = b.toNat := by
      rw [Nat.mul_comm, Nat.mul_add_div hp, Nat.div_eq_of_lt hlt, Nat.add_zero]
    have h2 : (b.toNat * 256 ^ bs.length + beNat bs) % 256 ^ bs.length = beNat bs := by
      rw [Nat.mul_comm, Nat.mul_add_mod, Nat.mod_eq_of_lt hlt]
    rw [h1, h2, ih, Nat.mod_eq_of_lt hb]
    simp

/-! ### BigSize -/

theorem readVarPayload_beBytes (n lo v : Nat) (rest : Bytes) (hlo : lo ≤ v) (hv : v < 256 ^ n) :
    readVarPayload n lo (beBytes n v ++ rest) = .ok (v, rest) := by
  unfold readVarPayload
  have hl : (beBytes n v).length = n := beBytes_length n v
  have ht : List.take n (beBytes n v ++ rest) = beBytes n v := by
    rw [List.take_append_of_le_length (by omega)]
    exact List.take_of_length_le (by omega)
  have hd : List.drop n (beBytes n v ++ rest) = rest := by
    exact List.drop_left' hl
  have hn : beNat (beBytes n v) = v := by rw [beNat_beBytes, Nat.mod_eq_of_lt hv]
  simp only [List.length_append, hl, ht, hd, hn]
  rw [if_neg (by omega), if_neg (by omega)]

theorem readVarInt_writeVarInt (v : Nat) (rest : Bytes) (hv : v < two64) :
    readVarInt (writeVarInt v ++ rest) = .ok (v, rest) := by
  unfold two64 at hv
  unfold writeVarInt
  split
  · rename_i h
    have : (UInt8.ofNat v).toNat = v := by simp [UInt8.toNat_ofNat']; omega
    simp [readVarInt, this, h]
  · split
    · simp only [List.cons_append, readVarInt]
      rw [if_neg (by decide), if_pos (by decide)]
      exact readVarPayload_beBytes 2 0xfd v rest (by omega) (by omega)
    · split
      · simp only [List.cons_append, readVarInt]
        rw [if_neg (by decide), if_neg (by decide), if_pos (by decide)]
        exact readVarPayload_beBytes 4 0x10000 v rest (by omega) (by omega)
      · simp only [List.cons_append, readVarInt]
        rw [if_neg (by decide), if_neg (by decide), if_neg (by decide)]
        exact readVarPayload_beBytes 8 0x100000000 v rest (by omega) (by omega)

theorem readVarPayload_ok {n lo : Nat} {rest r : Bytes} {v : Nat}
    (h : readVarPayload n lo rest = .ok (v, r)) :
    lo ≤ v ∧ v < 256 ^ n ∧ rest = beBytes n v ++ r := by
  unfold readVarPayload at h
  split at h
  · cases h
  · rename_i hlen
    split at h
    · cases h
    · rename_i hlo
      cases h
      have hl : (List.take n rest).length = n := by simp; omega
      have hlt := beNat_lt (List.take n rest)
      rw [hl] at hlt
      refine ⟨by omega, hlt, ?_⟩
      have := beBytes_beNat (List.take n rest)
      rw [hl] at this
      rw [this, List.take_append_drop]

theorem uint8_eq_of_toNat {d : UInt8} {n : Nat} (hn : n < 256) (h : d.toNat = n) :
    d = UInt8.ofNat n := by
  apply UInt8.toNat_inj.mp
  simp [UInt8.toNat_ofNat', h]
  omega

theorem readVarInt_ok {b rest : Bytes} {v : Nat} (h : readVarInt b = .ok (v, rest)) :
    v < two64 ∧ b = writeVarInt v ++ rest := by
  unfold two64
  unfold readVarInt at h
  split at h
  · cases h
  · rename_i d r
    split at h
    · rename_i hd
      cases h
      have hb := UInt8.toNat_lt d
      refine ⟨by omega, ?_⟩
      unfold writeVarInt
      rw [if_pos hd]
      simp
    · rename_i hd
      have hb := UInt8.toNat_lt d
      split at h
      · rename_i hd2
        obtain ⟨h1, h2, h3⟩ := readVarPayload_ok h
        refine ⟨by omega, ?_⟩
        unfold writeVarInt
        rw [if_neg (by omega), if_pos (by omega), h3, uint8_eq_of_toNat (by decide) hd2]
        rfl
      · split at h
        · rename_i hd2 hd3
          obtain ⟨h1, h2, h3⟩ := readVarPayload_ok h
          refine ⟨by omega, ?_⟩
          unfold writeVarInt
          rw [if_neg (by omega), if_neg (by omega), if_pos (by omega), h3,
            uint8_eq_of_toNat (by decide) hd3]
          rfl
        · rename_i hd2 hd3
          obtain ⟨h1, h2, h3⟩ := readVarPayload_ok h
          refine ⟨by omega, ?_⟩
          have hd4 : d.toNat = 0xff := by omega
          unfold writeVarInt
          rw [if_neg (by omega), if_neg (by omega), if_neg (by omega), h3,
            uint8_eq_of_toNat (by decide) hd4]
          rfl

theorem writeVarInt_length (v : Nat) : (writeVarInt v).length = varIntSize v := by
  unfold writeVarInt varIntSize
  split
  · rfl
  · split
    · simp [beBytes_length]
    · split <;> simp [beBytes_length]

theorem varIntSize_pos (v : Nat) : 1 ≤ varIntSize v ∧ varIntSize v ≤ 9 := by
  unfold varIntSize
  split
  · omega
  · split
    · omega
    · split <;> omega

/-! ### TLV stream: specification of canonical record lists -/

/-- A record acceptable on the given path: 64-bit type, length a 64-bit value within the p2p
    bound, and (for a type the stream knows) a value its decoder accepts. -/
def RecOk (known : Known) (p2p : Bool) (r : Rec) : Prop :=
  r.1 < two64 ∧ r.2.length < two64 ∧ (p2p = true → r.2.length ≤ maxRecordSize) ∧
  lenOkFor known r.1 r.2.length = true ∧ valOkFor known r.1 r.2 = true

/-- Canonical record list: every type is at least `lo` and strictly larger than its predecessor. -/
def Canonical (known : Known) (p2p : Bool) : Nat → List Rec → Prop
  | _, [] => True
  | lo, r :: rs => lo ≤ r.1 ∧ RecOk known p2p r ∧ Canonical known p2p (r.1 + 1) rs

/-- lower bound on the next type encoded by the loop state `(min, overflow)`. -/
def lob (min : Nat) (ov : Bool) : Nat := if ov then two64 else min

theorem lob_next {t : Nat} (ht : t < two64) : lob ((t + 1) % two64) (t == two64 - 1) = t + 1 := by
  unfold lob two64 at *
  by_cases h : t = 18446744073709551616 - 1
  · subst h; rfl
  · have : (t == 18446744073709551616 - 1) = false := by simp [h]
    rw [this]
    simp only [Bool.false_eq_true, if_false]
    omega

theorem readVarPayload_ne_eof (n lo : Nat) (rest : Bytes) : readVarPayload n lo rest ≠ .error .eof := by
  unfold readVarPayload
  split
  · simp
  · split <;> simp

theorem readVarInt_eof {b : Bytes} (h : readVarInt b = .error .eof) : b = [] := by
  unfold readVarInt at h
  split at h
  · rfl
  · exfalso
    split at h
    · cases h
    · split at h
      · exact readVarPayload_ne_eof _ _ _ h
      · split at h
        · exact readVarPayload_ne_eof _ _ _ h
        · exact readVarPayload_ne_eof _ _ _ h

/-- side condition of the canonicity theorems: no known record uses the `DBigSize` decoder (the
    only decoder of the universe that does not consume exactly the declared length). -/
def NoBigsize (known : Known) : Prop := ∀ t, isBigsizeFor known t = false

theorem decodeLoop_sound (known : Known) (p2p : Bool) (hnb : NoBigsize known) :
    ∀ (fuel min : Nat) (ov : Bool) (b : Bytes) (rs : List Rec), min < two64 →
      decodeLoop known p2p fuel min ov b = .ok rs →
      Canonical known p2p (lob min ov) rs ∧ b = encodeStream rs := by
  intro fuel
  induction fuel with
  | zero => intro min ov b rs _ h; simp [decodeLoop] at h
  | succ fuel ih =>
    intro min ov b rs hmin h
    unfold decodeLoop at h
    split at h
    · -- clean end of stream
      rename_i heof
      cases h
      exact ⟨trivial, readVarInt_eof heof⟩
    · cases h
    · rename_i typ r1 hr1
      split at h
      · cases h
      · rename_i hchk
        split at h
        · cases h
        · rename_i len r2 hr2
          split at h
          · cases h
          · rename_i hp2p
            rw [hnb typ] at h
            simp only [Bool.false_eq_true, if_false] at h
            split at h
            · cases h
            · rename_i hlen
              split at h
              · cases h
              · rename_i hshort
                split at h
                · cases h
                · rename_i hval
                  split at h
                  · cases h
                  · rename_i rs' hrec
                    cases h
                    obtain ⟨ht64, hb⟩ := readVarInt_ok hr1
                    obtain ⟨hl64, hb1⟩ := readVarInt_ok hr2
                    have hmin' : (typ + 1) % two64 < two64 := Nat.mod_lt _ (by unfold two64; decide)
                    obtain ⟨hcan, hrest⟩ := ih _ _ _ _ hmin' hrec
                    rw [lob_next ht64] at hcan
                    have hov : ov = false := by
                      cases ov
                      · rfl
                      · simp at hchk
                    have hle : min ≤ typ := by
                      subst hov
                      simp at hchk
                      exact hchk
                    have htl : (List.take len r2).length = len := by
                      simp only [List.length_take]; omega
                    refine ⟨⟨?_, ⟨ht64, ?_, ?_, ?_, ?_⟩, hcan⟩, ?_⟩
                    · subst hov; simpa [lob] using hle
                    · show (List.take len r2).length < two64
                      rw [htl]; exact hl64
                    · intro hp
                      show (List.take len r2).length ≤ maxRecordSize
                      rw [htl]
                      subst hp
                      simp at hp2p
                      exact hp2p
                    · show lenOkFor known typ (List.take len r2).length = true
                      rw [htl]
                      simpa using hlen
                    · show valOkFor known typ (List.take len r2) = true
                      simpa using hval
                    · show b = encodeRec (typ, List.take len r2) ++ encodeStream rs'
                      unfold encodeRec
                      simp only []
                      rw [htl, hb, hb1, ← hrest, List.append_assoc, List.append_assoc,
                        List.take_append_drop]

theorem encodeRec_length_ge (r : Rec) : 2 ≤ (encodeRec r).length := by
  unfold encodeRec
  simp only [List.length_append, writeVarInt_length]
  have h1 := varIntSize_pos r.1
  have h2 := varIntSize_pos r.2.length
  omega

theorem decodeLoop_complete (known : Known) (p2p : Bool) (hnb : NoBigsize known) :
    ∀ (rs : List Rec) (fuel min : Nat) (ov : Bool), Canonical known p2p (lob min ov) rs →
      (encodeStream rs).length < fuel →
      decodeLoop known p2p fuel min ov (encodeStream rs) = .ok rs := by
  intro rs
  induction rs with
  | nil =>
    intro fuel min ov _ hf
    cases fuel with
    | zero => simp at hf
    | succ fuel => simp [decodeLoop, encodeStream, readVarInt]
  | cons r rs ih =>
    intro fuel min ov hcan hf
    obtain ⟨hlo, ⟨ht64, hl64, hp, hlen, hval⟩, hrest⟩ := hcan
    cases fuel with
    | zero => simp at hf
    | succ fuel =>
      obtain ⟨typ, val⟩ := r
      simp only at ht64 hl64 hp hlen hval hlo hrest
      have hov : ov = false := by
        cases ov
        · rfl
        · unfold lob at hlo; simp at hlo; omega
      subst hov
      have hle : min ≤ typ := by simpa [lob] using hlo
      have henc : encodeStream ((typ, val) :: rs) =
          writeVarInt typ ++ (writeVarInt val.length ++ (val ++ encodeStream rs)) := by
        simp [encodeStream, encodeRec, List.append_assoc]
      have hfuel : (encodeStream rs).length < fuel := by
        have := encodeRec_length_ge (typ, val)
        simp only [encodeStream, List.length_append] at hf
        omega
      rw [henc]
      unfold decodeLoop
      rw [readVarInt_writeVarInt typ _ ht64]
      simp only [Bool.false_or]
      rw [if_neg (by simp; exact hle)]
      rw [readVarInt_writeVarInt val.length _ hl64]
      simp only []
      have hp2 : (p2p && decide (val.length > maxRecordSize)) = false := by
        cases p2p
        · rfl
        · have := hp rfl
          simp; exact this
      rw [hp2]
      simp only [Bool.false_eq_true, if_false]
      rw [hnb typ]
      simp only [Bool.false_eq_true, if_false]
      rw [hlen]
      simp only [Bool.not_true, Bool.false_eq_true, if_false]
      rw [if_neg (by simp)]
      have htake : List.take val.length (val ++ encodeStream rs) = val := by
        rw [List.take_append_of_le_length (Nat.le_refl _)]
        exact List.take_of_length_le (Nat.le_refl _)
      have hdrop : List.drop val.length (val ++ encodeStream rs) = encodeStream rs :=
        List.drop_left' rfl
      rw [htake, hdrop, hval]
      simp only [Bool.not_true, Bool.false_eq_true, if_false]
      rw [← lob_next ht64] at hrest
      rw [ih fuel _ _ hrest hfuel]

end LndModel.C10
