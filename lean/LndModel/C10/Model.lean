/-
C10 — executable model of lnd's BigSize varint and TLV stream codec
(`tlv/varint.go`, `tlv/stream.go`, the primitive record decoders of
`tlv/primitive.go` / `tlv/truncated.go`).  Core Lean only.

Bytes are `List UInt8`; integers are unbounded `Nat` with the 64-bit width made
explicit where the Go code depends on it (`min = typ + 1` wrap, `overflow`).
-/
namespace LndModel.C10

abbrev Bytes := List UInt8

/-- big-endian value of a byte string (`binary.BigEndian.UintNN`). -/
def beNat : Bytes → Nat
  | [] => 0
  | b :: bs => b.toNat * 256 ^ bs.length + beNat bs

/-- the `n` low-order bytes of `v`, big-endian (`binary.BigEndian.PutUintNN`). -/
def beBytes : Nat → Nat → Bytes
  | 0, _ => []
  | n + 1, v => UInt8.ofNat (v / 256 ^ n % 256) :: beBytes n (v % 256 ^ n)

def two64 : Nat := 18446744073709551616

/-! ### BigSize (`tlv/varint.go`) -/

inductive VErr where
  | eof            -- io.EOF: no byte at all
  | unexpectedEof  -- io.ErrUnexpectedEOF: discriminant present, payload short
  | notCanonical   -- ErrVarIntNotCanonical
  deriving DecidableEq, Repr

/-- payload part of `ReadVarInt` for discriminants 0xfd/0xfe/0xff: `n` payload
    bytes, value must be at least `lo`. -/
def readVarPayload (n lo : Nat) (rest : Bytes) : Except VErr (Nat × Bytes) :=
  if rest.length < n then .error .unexpectedEof
  else if beNat (rest.take n) < lo then .error .notCanonical
  else .ok (beNat (rest.take n), rest.drop n)

/-- `tlv.ReadVarInt`: value and remaining input. -/
def readVarInt : Bytes → Except VErr (Nat × Bytes)
  | [] => .error .eof
  | d :: rest =>
    if d.toNat < 0xfd then .ok (d.toNat, rest)
    else if d.toNat = 0xfd then readVarPayload 2 0xfd rest
    else if d.toNat = 0xfe then readVarPayload 4 0x10000 rest
    else readVarPayload 8 0x100000000 rest

/-- `tlv.WriteVarInt` (for `v < 2^64`; larger `v` are truncated like a Go `uint64`). -/
def writeVarInt (v : Nat) : Bytes :=
  if v < 0xfd then [UInt8.ofNat v]
  else if v ≤ 0xffff then 0xfd :: beBytes 2 v
  else if v ≤ 0xffffffff then 0xfe :: beBytes 4 v
  else 0xff :: beBytes 8 v

/-- `tlv.VarIntSize`. -/
def varIntSize (v : Nat) : Nat :=
  if v < 0xfd then 1 else if v ≤ 0xffff then 3 else if v ≤ 0xffffffff then 5 else 9

/-! ### record value decoders known to a stream -/

/-- The decoders the harness (and the lnwire schemas) attach to known types. -/
inductive Kind where
  | varBytes            -- DVarBytes: any length
  | fixed (n : Nat)     -- DUint8/16/32/64, DBytes32/33/64, fixed-size structs: length must be n
  | bool                -- DBool: length 1, byte 0 or 1
  | tuint (n : Nat)     -- DTUint16/32/64: length ≤ n, no leading zero byte
  | custom (len : Nat) (ok : Bytes → Bool) -- fixed length plus a value predicate (e.g. public key)
  | bigsize             -- DBigSize (MakeBigSizeRecord / BigSizeT): reads ONE BigSize from the stream and
                        -- IGNORES the declared length (HEAD behaviour, finding F-tlv-bigsize-record-length-ignored)

/-- length check made by the decoder before it reads anything (`ErrTypeForDecoding`). -/
def Kind.lenOk : Kind → Nat → Bool
  | .varBytes, _ => true
  | .fixed n, l => l == n
  | .bool, l => l == 1
  | .tuint n, l => l ≤ n
  | .custom n _, l => l == n
  | .bigsize, _ => true

/-- value check made after the bytes were read. -/
def Kind.valOk : Kind → Bytes → Bool
  | .varBytes, _ => true
  | .fixed _, _ => true
  | .bool, v => v == [0] || v == [1]
  | .tuint _, v => match v with
    | [] => true
    | b :: _ => b != 0
  | .custom _ ok, v => ok v
  | .bigsize, _ => true

def Kind.isBigsize : Kind → Bool
  | .bigsize => true
  | _ => false

abbrev Known := List (Nat × Kind)

def lookupKind (known : Known) (t : Nat) : Option Kind :=
  match known with
  | [] => none
  | (t', k) :: rest => if t' = t then some k else lookupKind rest t

/-! ### TLV stream (`tlv/stream.go`) -/

def maxRecordSize : Nat := 65535

inductive SErr where
  | unexpectedEof
  | varintNotCanonical
  | streamNotCanonical
  | recordTooLarge
  | typeForDecoding     -- known record: declared length not acceptable for the type
  | valueInvalid        -- known record: value rejected by its decoder
  deriving DecidableEq, Repr

def SErr.ofV : VErr → SErr
  | .eof => .unexpectedEof
  | .unexpectedEof => .unexpectedEof
  | .notCanonical => .varintNotCanonical

/-- One record: type, value bytes. -/
abbrev Rec := Nat × Bytes

/-- value-decoder checks for a (possibly unknown) record type -/
def lenOkFor (known : Known) (typ len : Nat) : Bool :=
  match lookupKind known typ with
  | some k => k.lenOk len
  | none => true

def valOkFor (known : Known) (typ : Nat) (val : Bytes) : Bool :=
  match lookupKind known typ with
  | some k => k.valOk val
  | none => true

/-- is `typ` known to the stream as a BigSize-encoded record? -/
def isBigsizeFor (known : Known) (typ : Nat) : Bool :=
  match lookupKind known typ with
  | some k => k.isBigsize
  | none => false

/--
`Stream.decode` (as of the fixed tree: a declared length that exceeds the
remaining input is `io.ErrUnexpectedEOF` on both paths).  State carried round
the loop: `min` (a `uint64`: wraps) and the `overflow` flag.  Returns every
record of the stream (known ones with their raw value bytes, unknown ones as
retained in the `TypeMap`).  Every decoder of the `Kind` universe consumes exactly
the declared `length` bytes, EXCEPT `bigsize`: `DBigSize` reads one BigSize straight
from the stream whatever the declared length is, and `Stream.decode` does not check
how many bytes a decoder consumed — the loop simply continues behind what was read.
`fuel` bounds the number of loop iterations; every
iteration consumes at least two bytes, so `b.length + 1` always suffices.
-/
def decodeLoop (known : Known) (p2p : Bool) :
    Nat → Nat → Bool → Bytes → Except SErr (List Rec)
  | 0, _, _, _ => .error .unexpectedEof
  | fuel + 1, min, overflow, b =>
    match readVarInt b with
    | .error .eof => .ok []
    | .error e => .error (SErr.ofV e)
    | .ok (typ, r1) =>
      if overflow || decide (typ < min) then .error .streamNotCanonical else
      match readVarInt r1 with
      | .error e => .error (SErr.ofV e)
      | .ok (len, r2) =>
        if p2p && decide (len > maxRecordSize) then .error .recordTooLarge else
        if isBigsizeFor known typ then
          -- DBigSize: the declared length `len` is not looked at
          match readVarInt r2 with
          | .error e => .error (SErr.ofV e)
          | .ok (v, r3) =>
            match decodeLoop known p2p fuel ((typ + 1) % two64) (typ == two64 - 1) r3 with
            | .error e => .error e
            | .ok rs => .ok ((typ, writeVarInt v) :: rs)
        else
        if !lenOkFor known typ len then .error .typeForDecoding else
        if r2.length < len then .error .unexpectedEof else
        if !valOkFor known typ (r2.take len) then .error .valueInvalid else
        match decodeLoop known p2p fuel ((typ + 1) % two64) (typ == two64 - 1) (r2.drop len) with
        | .error e => .error e
        | .ok rs => .ok ((typ, r2.take len) :: rs)

/-- `Stream.Decode` / `Stream.DecodeP2P` (+`WithParsedTypes`). -/
def decodeStream (known : Known) (p2p : Bool) (b : Bytes) : Except SErr (List Rec) :=
  decodeLoop known p2p (b.length + 1) 0 false b

/-- One encoded record: BigSize type, BigSize length, value. -/
def encodeRec (r : Rec) : Bytes :=
  writeVarInt r.1 ++ writeVarInt r.2.length ++ r.2

/-- `Stream.Encode` for records whose value encoders write the given bytes. -/
def encodeStream : List Rec → Bytes
  | [] => []
  | r :: rs => encodeRec r ++ encodeStream rs

/-- `NewStream`'s ordering check on the known records (also what `Encode` relies on). -/
def sortedStrict : List Nat → Bool
  | [] => true
  | [_] => true
  | a :: b :: rest => decide (a < b) && sortedStrict (b :: rest)

end LndModel.C10
