/-
C09 — model of lnd's HTLC forwarding decision.

Code modelled (all in /repo):
  htlcswitch/link.go            ExpectedFee, (*channelLink).CheckHtlcForward,
                                CheckHtlcTransit, canSendHtlc, validateHtlcAmount
  graph/db/models/inbound_fee.go InboundFee.CalcFee (rate clamp ±maxFeeRate, truncating division)
  graph/db/models/channel.go     ForwardingPolicy

Two layers:

* `Gen.*`  — what the Go code computes, with Go's fixed-width semantics:
             `lnwire.MilliSatoshi` = uint64 (`+`, `*` wrap mod 2^64, `/` floors),
             `int64` (two's complement wrap, `/` truncates towards zero, `int64(uint64)` reinterprets),
             `uint32` heights/expiries (`heightNow + OutgoingCltvRejectDelta` wraps mod 2^32).
             Unsigned values are `Nat` (assumed in range by the callers), signed values are `Int`.
* `Spec.*` — the same decision over exact unbounded integers, as a list of named rules.

The aux traffic shaper is absent (`cfg.AuxTrafficShaper = None`, the default build), so
`validateHtlcAmount` never skips the amount checks and the bandwidth is the channel's.
Hand-written; tied to the code by the correspondence check (harness
harness/overlay/htlcswitch/zz_c09_verif_test.go → drv_c09).
-/
namespace LndModel.C09

/-! ## Fixed-width helpers (numerals written out so that `omega` sees literals) -/

/-- 2^64 -/
abbrev two64 : Nat := 18446744073709551616
/-- 2^63 -/
abbrev two63 : Nat := 9223372036854775808
/-- 2^32 -/
abbrev two32 : Nat := 4294967296
/-- 2^31 -/
abbrev two31 : Nat := 2147483648

/-- Wrap an exact integer into the `int64` range (two's complement). -/
def wrapI64 (x : Int) : Int := (x + 9223372036854775808) % 18446744073709551616 - 9223372036854775808

/-- Go's `int64(u)` for `u : uint64` (reinterpretation). -/
def toI64 (u : Nat) : Int := wrapI64 (u : Int)

/-- `feeRateParts` (graph/db/models/cached_edge_policy.go). -/
abbrev feeRateParts : Nat := 1000000
/-- `maxFeeRate = 10 * feeRateParts` (inbound_fee.go). -/
abbrev maxFeeRate : Int := 10000000

/-- The rate clamp of `InboundFee.CalcFee`. -/
def clampRate (r : Int) : Int :=
  if r > 10000000 then 10000000 else if r < -10000000 then -10000000 else r

/-! ## Data -/

/-- `models.ForwardingPolicy` of the outgoing link (the `InboundFee` field of the policy is not
    read by `CheckHtlcForward`; the inbound fee of the *incoming* link is passed as an argument). -/
structure Policy where
  minHtlc : Nat        -- MinHTLCOut, msat
  maxHtlc : Nat        -- MaxHTLC, msat (0 = no limit)
  baseFee : Nat        -- BaseFee, msat
  feeRate : Nat        -- FeeRate, ppm
  timeLockDelta : Nat  -- TimeLockDelta, uint32
  deriving Repr, DecidableEq

/-- The link configuration / state read by the decision. -/
structure Cfg where
  rejectDelta : Nat    -- ChannelLinkConfig.OutgoingCltvRejectDelta, uint32
  maxCltv : Nat        -- ChannelLinkConfig.MaxOutgoingCltvExpiry, uint32
  bandwidth : Nat      -- l.Bandwidth() = channel.AvailableBalance(), msat
  deriving Repr, DecidableEq

/-- Arguments of `CheckHtlcForward`. -/
structure Inputs where
  incoming : Nat       -- incomingHtlcAmt
  outgoing : Nat       -- amtToForward
  expIn : Nat          -- incomingTimeout
  expOut : Nat         -- outgoingTimeout
  height : Nat         -- heightNow
  inBase : Int         -- inboundFee.Base (int32)
  inRate : Int         -- inboundFee.Rate (int32)
  deriving Repr, DecidableEq

/-- Outcome: `accept` (nil `*LinkError`) or the failure.  `expiryTooFar` (absolute, in
    `canSendHtlc`) and `deltaTooFar` (incoming−outgoing delta, in `CheckHtlcForward`) are both
    reported on the wire as `FailExpiryTooFar`. -/
inductive Verdict
  | accept
  | feeInsufficient        -- FailFeeInsufficient(amtToForward)
  | amountBelowMinimum     -- FailAmountBelowMinimum(amt)
  | htlcExceedsMax         -- FailTemporaryChannelFailure + OutgoingFailureHTLCExceedsMax
  | expiryTooSoon          -- FailExpiryTooSoon
  | expiryTooFar           -- FailExpiryTooFar (outgoing expiry beyond height + MaxOutgoingCltvExpiry)
  | insufficientBandwidth  -- FailTemporaryChannelFailure + OutgoingFailureInsufficientBalance
  | incorrectCltvExpiry    -- FailIncorrectCltvExpiry(incomingTimeout)
  | deltaTooFar            -- FailExpiryTooFar (incoming − outgoing delta beyond MaxOutgoingCltvExpiry)
  deriving Repr, DecidableEq

/-- The enum printed by the harness (derived from the wire failure type + failure detail). -/
def Verdict.wire : Verdict → String
  | .accept => "accept"
  | .feeInsufficient => "FeeInsufficient"
  | .amountBelowMinimum => "AmountBelowMinimum"
  | .htlcExceedsMax => "TemporaryChannelFailure/HtlcExceedsMax"
  | .expiryTooSoon => "ExpiryTooSoon"
  | .expiryTooFar => "ExpiryTooFar"
  | .insufficientBandwidth => "TemporaryChannelFailure/InsufficientBalance"
  | .incorrectCltvExpiry => "IncorrectCltvExpiry"
  | .deltaTooFar => "ExpiryTooFar"

/-- The integer carried in the BOLT-4 failure data (`-1` if the failure carries none). -/
def Verdict.payload (i : Inputs) : Verdict → Int
  | .feeInsufficient => i.outgoing
  | .amountBelowMinimum => i.outgoing
  | .incorrectCltvExpiry => i.expIn
  | _ => -1

/-! ## Gen: Go semantics -/
namespace Gen

/-- `ExpectedFee`: `f.BaseFee + (htlcAmt*f.FeeRate)/1000000` in uint64. -/
def expectedFee (base rate amt : Nat) : Nat :=
  (base + (amt * rate) % 18446744073709551616 / 1000000) % 18446744073709551616

/-- `InboundFee.CalcFee(amt)`: int64 arithmetic, `amt : uint64` reinterpreted. -/
def calcFee (ib ir : Int) (amt : Nat) : Int :=
  wrapI64 (ib + Int.tdiv (wrapI64 (clampRate ir * toI64 amt)) 1000000)

/-- `validateHtlcAmount` (no aux traffic shaper). -/
def validateHtlcAmount (p : Policy) (amt : Nat) : Verdict :=
  if amt < p.minHtlc then .amountBelowMinimum
  else if p.maxHtlc ≠ 0 ∧ amt > p.maxHtlc then .htlcExceedsMax
  else .accept

/-- `canSendHtlc`. -/
def canSendHtlc (p : Policy) (c : Cfg) (amt timeout height : Nat) : Verdict :=
  match validateHtlcAmount p amt with
  | .accept =>
    if timeout ≤ (height + c.rejectDelta) % 4294967296 then .expiryTooSoon
    else if timeout > (c.maxCltv + height) % 4294967296 then .expiryTooFar
    else if amt > c.bandwidth then .insufficientBandwidth
    else .accept
  | v => v

/-- `CheckHtlcTransit`. -/
def checkHtlcTransit (p : Policy) (c : Cfg) (amt timeout height : Nat) : Verdict :=
  canSendHtlc p c amt timeout height

/-- `outFee`, `inFee`, `expectedFee`, `actualFee` of `CheckHtlcForward`. -/
def outFee (p : Policy) (i : Inputs) : Nat := expectedFee p.baseFee p.feeRate i.outgoing
def inFee (p : Policy) (i : Inputs) : Int :=
  calcFee i.inBase i.inRate ((i.outgoing + outFee p i) % 18446744073709551616)
def expectedTotal (p : Policy) (i : Inputs) : Int := wrapI64 (inFee p i + toI64 (outFee p i))
def actualFee (i : Inputs) : Int := wrapI64 (toI64 i.incoming - toI64 i.outgoing)

/-- `CheckHtlcForward`. -/
def checkHtlcForward (p : Policy) (c : Cfg) (i : Inputs) : Verdict :=
  if i.incoming < i.outgoing ∨ actualFee i < expectedTotal p i then .feeInsufficient
  else match canSendHtlc p c i.outgoing i.expOut i.height with
    | .accept =>
      let incomingDelta := if i.expIn ≥ i.expOut then i.expIn - i.expOut else 0
      if i.expIn < i.expOut ∨ incomingDelta < p.timeLockDelta then .incorrectCltvExpiry
      else if incomingDelta > c.maxCltv then .deltaTooFar
      else .accept
    | v => v

end Gen

/-! ## Spec: exact integers, named rules -/
namespace Spec

/-- Outbound fee: base + ⌊out·rate/10^6⌋. -/
def outFee (p : Policy) (out : Nat) : Nat := p.baseFee + out * p.feeRate / 1000000

/-- Inbound fee (or discount when negative) on `x = out + outFee`: base + clamp(rate)·x/10^6,
    rounded towards zero (positive fees down, negative fees up). -/
def inFee (ib ir : Int) (x : Nat) : Int := ib + Int.tdiv (clampRate ir * (x : Int)) 1000000

/-- Total fee the incoming HTLC must carry (may be negative with a discount). -/
def requiredFee (p : Policy) (i : Inputs) : Int :=
  inFee i.inBase i.inRate (i.outgoing + outFee p i.outgoing) + (outFee p i.outgoing : Int)

/-- Rule `fee`: no money is lost and the difference covers the required fee. -/
def FeeOk (p : Policy) (i : Inputs) : Prop :=
  i.outgoing ≤ i.incoming ∧ requiredFee p i ≤ (i.incoming : Int) - (i.outgoing : Int)
/-- Rule `min_htlc`. -/
def MinOk (p : Policy) (amt : Nat) : Prop := p.minHtlc ≤ amt
/-- Rule `max_htlc` (0 = unlimited). -/
def MaxOk (p : Policy) (amt : Nat) : Prop := p.maxHtlc = 0 ∨ amt ≤ p.maxHtlc
/-- Rule `expiry_too_soon`: outgoing expiry strictly beyond height + reject delta. -/
def NotTooSoon (c : Cfg) (timeout height : Nat) : Prop := height + c.rejectDelta < timeout
/-- Rule `expiry_too_far`: outgoing expiry at most height + max CLTV. -/
def NotTooFar (c : Cfg) (timeout height : Nat) : Prop := timeout ≤ height + c.maxCltv
/-- Rule `bandwidth`. -/
def BwOk (c : Cfg) (amt : Nat) : Prop := amt ≤ c.bandwidth
/-- Rule `cltv_delta`: incoming − outgoing ≥ time-lock delta (as integers). -/
def DeltaOk (p : Policy) (i : Inputs) : Prop :=
  (p.timeLockDelta : Int) ≤ (i.expIn : Int) - (i.expOut : Int)
/-- Rule `cltv_delta_max`: incoming − outgoing ≤ max CLTV. -/
def DeltaMaxOk (c : Cfg) (i : Inputs) : Prop :=
  (i.expIn : Int) - (i.expOut : Int) ≤ (c.maxCltv : Int)

instance (p : Policy) (i : Inputs) : Decidable (FeeOk p i) := by unfold FeeOk; infer_instance
instance (p : Policy) (a : Nat) : Decidable (MinOk p a) := by unfold MinOk; infer_instance
instance (p : Policy) (a : Nat) : Decidable (MaxOk p a) := by unfold MaxOk; infer_instance
instance (c : Cfg) (t h : Nat) : Decidable (NotTooSoon c t h) := by unfold NotTooSoon; infer_instance
instance (c : Cfg) (t h : Nat) : Decidable (NotTooFar c t h) := by unfold NotTooFar; infer_instance
instance (c : Cfg) (a : Nat) : Decidable (BwOk c a) := by unfold BwOk; infer_instance
instance (p : Policy) (i : Inputs) : Decidable (DeltaOk p i) := by unfold DeltaOk; infer_instance
instance (c : Cfg) (i : Inputs) : Decidable (DeltaMaxOk c i) := by unfold DeltaMaxOk; infer_instance

/-- All rules of a locally sourced HTLC (`CheckHtlcTransit`). -/
def TransitOk (p : Policy) (c : Cfg) (amt timeout height : Nat) : Prop :=
  MinOk p amt ∧ MaxOk p amt ∧ NotTooSoon c timeout height ∧ NotTooFar c timeout height ∧ BwOk c amt

/-- All rules of a forwarded HTLC. -/
def AllOk (p : Policy) (c : Cfg) (i : Inputs) : Prop :=
  FeeOk p i ∧ TransitOk p c i.outgoing i.expOut i.height ∧ DeltaOk p i ∧ DeltaMaxOk c i

instance (p : Policy) (c : Cfg) (a t h : Nat) : Decidable (TransitOk p c a t h) := by
  unfold TransitOk; infer_instance
instance (p : Policy) (c : Cfg) (i : Inputs) : Decidable (AllOk p c i) := by
  unfold AllOk; infer_instance

/-- The rule named by a failure verdict of a locally sourced HTLC is violated. -/
def TransitViolated (p : Policy) (c : Cfg) (amt timeout height : Nat) : Verdict → Prop
  | .amountBelowMinimum => ¬ MinOk p amt
  | .htlcExceedsMax => ¬ MaxOk p amt
  | .expiryTooSoon => ¬ NotTooSoon c timeout height
  | .expiryTooFar => ¬ NotTooFar c timeout height
  | .insufficientBandwidth => ¬ BwOk c amt
  | _ => False

/-- The rule named by a failure verdict is violated (`accept` names no rule). -/
def Violated (p : Policy) (c : Cfg) (i : Inputs) : Verdict → Prop
  | .accept => False
  | .feeInsufficient => ¬ FeeOk p i
  | .incorrectCltvExpiry => ¬ DeltaOk p i
  | .deltaTooFar => ¬ DeltaMaxOk c i
  | v => TransitViolated p c i.outgoing i.expOut i.height v

/-- Exact-integer decision for a locally sourced HTLC: first violated rule in the code's order. -/
def checkHtlcTransit (p : Policy) (c : Cfg) (amt timeout height : Nat) : Verdict :=
  if ¬ MinOk p amt then .amountBelowMinimum
  else if ¬ MaxOk p amt then .htlcExceedsMax
  else if ¬ NotTooSoon c timeout height then .expiryTooSoon
  else if ¬ NotTooFar c timeout height then .expiryTooFar
  else if ¬ BwOk c amt then .insufficientBandwidth
  else .accept

/-- Exact-integer forwarding decision: first violated rule in the code's order. -/
def checkHtlcForward (p : Policy) (c : Cfg) (i : Inputs) : Verdict :=
  if ¬ FeeOk p i then .feeInsufficient
  else match checkHtlcTransit p c i.outgoing i.expOut i.height with
    | .accept =>
      if ¬ DeltaOk p i then .incorrectCltvExpiry
      else if ¬ DeltaMaxOk c i then .deltaTooFar
      else .accept
    | v => v

end Spec

/-! ## The realistic domain -/

/-- `int32` range. -/
def IsI32 (x : Int) : Prop := -2147483648 ≤ x ∧ x ≤ 2147483647

/-- The domain planned in DESIGN.md: amounts ≤ 10^13 msat (100 BTC), base fee < 2^32,
    rate ≤ 10^6 ppm, inbound fee fields any `int32`, heights/expiries/deltas < 2^31
    (bandwidth, min/max HTLC: any uint64). -/
def DomPlanned (p : Policy) (c : Cfg) (i : Inputs) : Prop :=
  i.incoming ≤ 10000000000000 ∧ i.outgoing ≤ 10000000000000 ∧
  p.baseFee < 4294967296 ∧ p.feeRate ≤ 1000000 ∧
  IsI32 i.inBase ∧ IsI32 i.inRate ∧
  i.height < 2147483648 ∧ i.expIn < 2147483648 ∧ i.expOut < 2147483648 ∧
  p.timeLockDelta < 2147483648 ∧ c.rejectDelta < 2147483648 ∧ c.maxCltv < 2147483648

/-- The `int64` product `rate * int64(amt)` of `CalcFee` does not wrap: |clamp(rate)|·(out+outFee) < 2^63.
    (The clamp "to prevent overflows" bounds the rate by 10^7, so this can only fail for
    out + outFee ≥ 2^63/10^7 ≈ 9.22·10^11 msat ≈ 9.22 BTC.) -/
def InboundNoWrap (p : Policy) (i : Inputs) : Prop :=
  (clampRate i.inRate).natAbs * (i.outgoing + Spec.outFee p i.outgoing) < 9223372036854775808

/-- The domain on which the Go arithmetic is exact. -/
def Dom (p : Policy) (c : Cfg) (i : Inputs) : Prop := DomPlanned p c i ∧ InboundNoWrap p i

instance (x : Int) : Decidable (IsI32 x) := by unfold IsI32; infer_instance
instance (p : Policy) (c : Cfg) (i : Inputs) : Decidable (DomPlanned p c i) := by
  unfold DomPlanned; infer_instance
instance (p : Policy) (i : Inputs) : Decidable (InboundNoWrap p i) := by
  unfold InboundNoWrap; infer_instance
instance (p : Policy) (c : Cfg) (i : Inputs) : Decidable (Dom p c i) := by unfold Dom; infer_instance

/-- Domain of a locally sourced HTLC (`CheckHtlcTransit` does no fee arithmetic). -/
def DomTransit (c : Cfg) (timeout height : Nat) : Prop :=
  height < 2147483648 ∧ timeout < 2147483648 ∧ c.rejectDelta < 2147483648 ∧ c.maxCltv < 2147483648

instance (c : Cfg) (t h : Nat) : Decidable (DomTransit c t h) := by unfold DomTransit; infer_instance

/-! ## Level 2: the switch choosing among parallel links to the next peer

`Switch.handlePacketAdd` (htlcswitch/switch.go): collect `interfaceLinks` (all links to the
next peer, in Go's map-iteration order = arbitrary), scan them building `destinations` (links
that are `EligibleToForward` and whose `CheckHtlcForward` returned nil) and the map
`linkErrs[scid]`, fail with the requested link's error when `destinations` is empty, otherwise
forward over `destinations[rand.Intn(len(destinations))]`.  Not modelled: `RejectHTLC`,
circular-route check, alias mapping, dust/fee-exposure check after the choice. -/

/-- One candidate link to the next peer. -/
structure Cand where
  scid : Nat
  eligible : Bool
  p : Policy
  c : Cfg
  deriving Repr, DecidableEq

/-- Failure returned by the switch for an add. -/
inductive SwFailure
  | notEligible        -- FailUnknownNextPeer + OutgoingFailureLinkNotEligible (forward path)
  | localNotEligible   -- FailTemporaryChannelFailure + OutgoingFailureLinkNotEligible (getLocalLink)
  | unknownNextPeer    -- FailUnknownNextPeer
  | link (v : Verdict) -- the failure of that link's CheckHtlcForward / CheckHtlcTransit
  deriving Repr, DecidableEq

def SwFailure.wire : SwFailure → String
  | .notEligible => "UnknownNextPeer/LinkNotEligible"
  | .localNotEligible => "TemporaryChannelFailure/LinkNotEligible"
  | .unknownNextPeer => "UnknownNextPeer"
  | .link v => v.wire

def SwFailure.payload (i : Inputs) : SwFailure → Int
  | .link v => v.payload i
  | _ => -1

/-- Outcome of `handlePacketAdd` / `getLocalLink`. -/
inductive SwOutcome
  | forward (scid : Nat)   -- the add was handed to the link with this short channel id
  | fail (f : SwFailure)
  deriving Repr, DecidableEq

namespace Gen

/-- Body of the scan loop for one link: `none` = goes to `destinations`. -/
def linkFailure (l : Cand) (i : Inputs) : Option SwFailure :=
  if l.eligible = false then some .notEligible
  else match checkHtlcForward l.p l.c i with
    | .accept => none
    | v => some (.link v)

/-- State of the scan loop: `destinations` and the map `linkErrs`. -/
structure Scan where
  dests : List Cand
  errs : Nat → Option SwFailure

def scanStep (i : Inputs) (st : Scan) (l : Cand) : Scan :=
  match linkFailure l i with
  | none => { st with dests := st.dests ++ [l] }
  | some f => { st with errs := fun k => if k = l.scid then some f else st.errs k }

/-- `for _, link := range interfaceLinks { … }`. -/
def scanLinks (links : List Cand) (i : Inputs) : Scan :=
  links.foldl (scanStep i) ⟨[], fun _ => none⟩

/-- `handlePacketAdd` after the candidate links are known. `nodeMode`: the next hop is a node id
    (blinded route), `req`: requested short channel id otherwise, `links`: `interfaceLinks` in the
    order of iteration, `r`: the value drawn by `rand.Intn` (any natural; reduced mod length). -/
def handlePacketAdd (nodeMode : Bool) (req : Nat) (links : List Cand) (r : Nat) (i : Inputs) :
    SwOutcome :=
  let st := scanLinks links i
  match st.dests[r % st.dests.length]? with
  | some d => .forward d.scid
  | none =>
    if nodeMode then .fail .unknownNextPeer
    else match st.errs req with
      | some f => .fail f
      | none => .fail .unknownNextPeer

/-- `getLocalLink`: locally initiated payment over an explicit channel (strict). -/
def getLocalLink (l : Option Cand) (amt timeout height : Nat) : SwOutcome :=
  match l with
  | none => .fail .unknownNextPeer
  | some l =>
    if l.eligible = false then .fail .localNotEligible
    else match checkHtlcTransit l.p l.c amt timeout height with
      | .accept => .forward l.scid
      | v => .fail (.link v)

end Gen

end LndModel.C09
