/-
C09 — model of lnd's HTLC forwarding decision.

Code modelled (all in /repo):
  htlcswitch/link.go            ExpectedFee, (*channelLink).CheckHtlcForward,
                                CheckHtlcTransit, canSendHtlc, validateHtlcAmount
  graph/db/models/inbound_fee.go InboundFee.CalcFee (rate clamp ±maxFeeRate, truncating division)
  graph/db/models/channel.go     ForwardingPolicy

Two layers:

* `Gen.*`  — what the Go code computes, with Go's fixed-width semantics:
             `lnwire.MilliSatoshi` = uint64 (`+`, `*` wrap mod 2^64, `/` floors),
             `int64` (two's complement wrap, `/` truncates towards zero, `int64(uint64)` reinterprets),
             `uint32` heights/expiries (`heightNow + OutgoingCltvRejectDelta` wraps mod 2^32).
             Unsigned values are `Nat` (assumed in range by the callers), signed values are `Int`.
* `Spec.*` — the same decision over exact unbounded integers, as a list of named rules.

The aux traffic shaper is absent (`cfg.AuxTrafficShaper = None`, the default build), so
`validateHtlcAmount` never skips the amount checks and the bandwidth is the channel's.
Hand-written; tied to the code by the correspondence check (harness
harness/overlay/htlcswitch/zz_c09_verif_test.go → drv_c09).
-/
namespace LndModel.C09

/-! ## Fixed-width helpers (numerals written out so that `omega` sees literals) -/

/-- 2^64 -/
abbrev two64 : Nat := 18446744073709551616
/-- 2^63 -/
abbrev two63 : Nat := 9223372036854775808
/-- 2^32 -/
abbrev two32 : Nat := 4294967296
/-- 2^31 -/
abbrev two31 : Nat := 2147483648

/-- Wrap an exact integer into the `int64` range (two's complement). -/
def wrapI64 (x : Int) : Int := (x + 9223372036854775808) % 18446744073709551616 - 9223372036854775808

/-- Go's `int64(u)` for `u : uint64` (reinterpretation). -/
def toI64 (u : Nat) : Int := wrapI64 (u : Int)

/-- `feeRateParts` (graph/db/models/cached_edge_policy.go). -/
abbrev feeRateParts : Nat := 1000000
/-- `maxFeeRate = 10 * feeRateParts` (inbound_fee.go). -/
abbrev maxFeeRate : Int := 10000000

/-- The rate clamp of `InboundFee.CalcFee`. -/
def clampRate (r : Int) : Int :=
  if r > 10000000 then 10000000 else if r < -10000000 then -10000000 else r

/-! ## Data -/

/-- `models.ForwardingPolicy` of the outgoing link (the `InboundFee` field of the policy is not
    read by `CheckHtlcForward`; the inbound fee of the *incoming* link is passed as an argument). -/
structure Policy where
  minHtlc : Nat        -- MinHTLCOut, msat
  maxHtlc : Nat        -- MaxHTLC, msat (0 = no limit)
  baseFee : Nat        -- BaseFee, msat
  feeRate : Nat        -- FeeRate, ppm
  timeLockDelta : Nat  -- TimeLockDelta, uint32
  deriving Repr, DecidableEq

/-- The link configuration / state read by the decision. -/
structure Cfg where
  rejectDelta : Nat    -- ChannelLinkConfig.OutgoingCltvRejectDelta, uint32
  maxCltv : Nat        -- ChannelLinkConfig.MaxOutgoingCltvExpiry, uint32
  bandwidth : Nat      -- l.Bandwidth() = channel.AvailableBalance(), msat
  deriving Repr, DecidableEq

/-- Arguments of `CheckHtlcForward`. -/
structure Inputs where
  incoming : Nat       -- incomingHtlcAmt
  outgoing : Nat       -- amtToForward
  expIn : Nat          -- incomingTimeout
  expOut : Nat         -- outgoingTimeout
  height : Nat         -- heightNow
  inBase : Int         -- inboundFee.Base (int32)
  inRate : Int         -- inboundFee.Rate (int32)
  deriving Repr, DecidableEq

/-- Outcome: `accept` (nil `*LinkError`) or the failure.  `expiryTooFar` (absolute, in
    `canSendHtlc`) and `deltaTooFar` (incoming−outgoing delta, in `CheckHtlcForward`) are both
    reported on the wire as `FailExpiryTooFar`. -/
inductive Verdict
  | accept
  | feeInsufficient        -- FailFeeInsufficient(amtToForward)
  | amountBelowMinimum     -- FailAmountBelowMinimum(amt)
  | htlcExceedsMax         -- FailTemporaryChannelFailure + OutgoingFailureHTLCExceedsMax
  | expiryTooSoon          -- FailExpiryTooSoon
  | expiryTooFar           -- FailExpiryTooFar (outgoing expiry beyond height + MaxOutgoingCltvExpiry)
  | insufficientBandwidth  -- FailTemporaryChannelFailure + OutgoingFailureInsufficientBalance
  | incorrectCltvExpiry    -- FailIncorrectCltvExpiry(incomingTimeout)
  | deltaTooFar            -- FailExpiryTooFar (incoming − outgoing delta beyond MaxOutgoingCltvExpiry)
  deriving Repr, DecidableEq

/-- The enum printed by the harness (derived from the wire failure type + failure detail). -/
def Verdict.wire : Verdict → String
  | .accept => "accept"
  | .feeInsufficient => "FeeInsufficient"
  | .amountBelowMinimum => "AmountBelowMinimum"
  | .htlcExceedsMax => "TemporaryChannelFailure/HtlcExceedsMax"
  | .expiryTooSoon => "ExpiryTooSoon"
  | .expiryTooFar => "ExpiryTooFar"
  | .insufficientBandwidth => "TemporaryChannelFailure/InsufficientBalance"
  | .incorrectCltvExpiry => "IncorrectCltvExpiry"
  | .deltaTooFar => "ExpiryTooFar"

/-- The integer carried in the BOLT-4 failure data (`-1` if the failure carries none). -/
def Verdict.payload (i : Inputs) : Verdict → Int
  | .feeInsufficient => i.outgoing
  | .amountBelowMinimum => i.outgoing
  | .incorrectCltvExpiry => i.expIn
  | _ => -1

/-! ## Gen: Go semantics -/
namespace Gen

/-- `ExpectedFee`: `f.BaseFee + (htlcAmt*f.FeeRate)/1000000` in uint64. -/
def expectedFee (base rate amt : Nat) : Nat :=
  (base + (amt * rate) % 18446744073709551616 / 1000000) % 18446744073709551616

/-- `InboundFee.CalcFee(amt)`: int64 arithmetic, `amt : uint64` reinterpreted. -/
def calcFee (ib ir : Int) (amt : Nat) : Int :=
  wrapI64 (ib + Int.tdiv (wrapI64 (clampRate ir * toI64 amt)) 1000000)

/-- `validateHtlcAmount` (no aux traffic shaper). -/
def validateHtlcAmount (p : Policy) (amt : Nat) : Verdict :=
  if amt < p.minHtlc then .amountBelowMinimum
  else if p.maxHtlc ≠ 0 ∧ amt > p.maxHtlc then .htlcExceedsMax
  else .accept

/-- `canSendHtlc`. -/
def canSendHtlc (p : Policy) (c : Cfg) (amt timeout height : Nat) : Verdict :=
  match validateHtlcAmount p amt with
  | .accept =>
    if timeout ≤ (height + c.rejectDelta) % 4294967296 then .expiryTooSoon
    else if timeout > (c.maxCltv + height) % 4294967296 then .expiryTooFar
    else if amt > c.bandwidth then .insufficientBandwidth
    else .accept
  | v => v

/-- `CheckHtlcTransit`. -/
def checkHtlcTransit (p : Policy) (c : Cfg) (amt timeout height : Nat) : Verdict :=
  canSendHtlc p c amt timeout height

/-- `outFee`, `inFee`, `expectedFee`, `actualFee` of `CheckHtlcForward`. -/
def outFee (p : Policy) (i : Inputs) : Nat := expectedFee p.baseFee p.feeRate i.outgoing
def inFee (p : Policy) (i : Inputs) : Int :=
  calcFee i.inBase i.inRate ((i.outgoing + outFee p i) % 18446744073709551616)
def expectedTotal (p : Policy) (i : Inputs) : Int := wrapI64 (inFee p i + toI64 (outFee p i))
def actualFee (i : Inputs) : Int := wrapI64 (toI64 i.incoming - toI64 i.outgoing)

/-- `CheckHtlcForward`. -/
def checkHtlcForward (p : Policy) (c : Cfg) (i : Inputs) : Verdict :=
  if i.incoming < i.outgoing ∨ actualFee i < expectedTotal p i then .feeInsufficient
  else match canSendHtlc p c i.outgoing i.expOut i.height with
    | .accept =>
      let incomingDelta := if i.expIn ≥ i.expOut then i.expIn - i.expOut else 0
      if i.expIn < i.expOut ∨ incomingDelta < p.timeLockDelta then .incorrectCltvExpiry
      else if incomingDelta > c.maxCltv then .deltaTooFar
      else .accept
    | v => v

end Gen

/-! ## Spec: exact integers, named rules -/
namespace Spec

/-- Outbound fee: base + ⌊out·rate/10^6⌋. -/
def outFee (p : Policy) (out : Nat) : Nat := p.baseFee + out * p.feeRate / 1000000

/-- Inbound fee (or discount when negative) on `x = out + outFee`: base + clamp(rate)·x/10^6,
    rounded towards zero (positive fees down, negative fees up). -/
def inFee (ib ir : Int) (x : Nat) : Int := ib + Int.tdiv (clampRate ir * (x : Int)) 1000000

/-- Total fee the incoming HTLC must carry (may be negative with a discount). -/
def requiredFee (p : Policy) (i : Inputs) : Int :=
  inFee i.inBase i.inRate (i.outgoing + outFee p i.outgoing) + (outFee p i.outgoing : Int)

/-- Rule `fee`: no money is lost and the difference covers the required fee. -/
def FeeOk (p : Policy) (i : Inputs) : Prop :=
  i.outgoing ≤ i.incoming ∧ requiredFee p i ≤ (i.incoming : Int) - (i.outgoing : Int)
/-- Rule `min_htlc`. -/
def MinOk (p : Policy) (amt : Nat) : Prop := p.minHtlc ≤ amt
/-- Rule `max_htlc` (0 = unlimited). -/
def MaxOk (p : Policy) (amt : Nat) : Prop := p.maxHtlc = 0 ∨ amt ≤ p.maxHtlc
/-- Rule `expiry_too_soon`: outgoing expiry strictly beyond height + reject delta. -/
def NotTooSoon (c : Cfg) (timeout height : Nat) : Prop := height + c.rejectDelta < timeout
/-- Rule `expiry_too_far`: outgoing expiry at most height + max CLTV. -/
def NotTooFar (c : Cfg) (timeout height : Nat) : Prop := timeout ≤ height + c.maxCltv
/-- Rule `bandwidth`. -/
def BwOk (c : Cfg) (amt : Nat) : Prop := amt ≤ c.bandwidth
/-- Rule `cltv_delta`: incoming − outgoing ≥ time-lock delta (as integers). -/
def DeltaOk (p : Policy) (i : Inputs) : Prop :=
  (p.timeLockDelta : Int) ≤ (i.expIn : Int) - (i.expOut : Int)
/-- Rule `cltv_delta_max`: incoming − outgoing ≤ max CLTV. -/
def DeltaMaxOk (c : Cfg) (i : Inputs) : Prop :=
  (i.expIn : Int) - (i.expOut : Int) ≤ (c.maxCltv : Int)

instance (p : Policy) (i : Inputs) : Decidable (FeeOk p i) := by unfold FeeOk; infer_instance
instance (p : Policy) (a : Nat) : Decidable (MinOk p a) := by unfold MinOk; infer_instance
instance (p : Policy) (a : Nat) : Decidable (MaxOk p a) := by unfold MaxOk; infer_instance
instance (c : Cfg) (t h : Nat) : Decidable (NotTooSoon c t h) := by unfold NotTooSoon; infer_instance
instance (c : Cfg) (t h : Nat) : Decidable (NotTooFar c t h) := by unfold NotTooFar; infer_instance
instance (c : Cfg) (a : Nat) : Decidable (BwOk c a) := by unfold BwOk; infer_instance
instance (p : Policy) (i : Inputs) : Decidable (DeltaOk p i) := by unfold DeltaOk; infer_instance
instance (c : Cfg) (i : Inputs) : Decidable (DeltaMaxOk c i) := by unfold DeltaMaxOk; infer_instance

/-- All rules of a locally sourced HTLC (`CheckHtlcTransit`). -/
def TransitOk (p : Policy) (c : Cfg) (amt timeout height : Nat) : Prop :=
  MinOk p amt ∧ MaxOk p amt ∧ NotTooSoon c timeout height ∧ NotTooFar c timeout height ∧ BwOk c amt

/-- All rules of a forwarded HTLC. -/
def AllOk (p : Policy) (c : Cfg) (i : Inputs) : Prop :=
  FeeOk p i ∧ TransitOk p c i.outgoing i.expOut i.height ∧ DeltaOk p i ∧ DeltaMaxOk c i

instance (p : Policy) (c : Cfg) (a t h : Nat) : Decidable (TransitOk p c a t h) := by
  unfold TransitOk; infer_instance
instance (p : Policy) (c : Cfg) (i : Inputs) : Decidable (AllOk p c i) := by
  unfold AllOk; infer_instance

/-- The rule named by a failure verdict of a locally sourced HTLC is violated. -/
def TransitViolated (p : Policy) (c : Cfg) (amt timeout height : Nat) : Verdict → Prop
  | .amountBelowMinimum => ¬ MinOk p amt
  | .htlcExceedsMax => ¬ MaxOk p amt
  | .expiryTooSoon => ¬ NotTooSoon c timeout height
  | .expiryTooFar => ¬ NotTooFar c timeout height
  | .insufficientBandwidth => ¬ BwOk c amt
  | _ => False

/-- The rule named by a failure verdict is violated (`accept` names no rule). -/
def Violated (p : Policy) (c : Cfg) (i : Inputs) : Verdict → Prop
  | .accept => False
  | .feeInsufficient => ¬ FeeOk p i
  | .incorrectCltvExpiry => ¬ DeltaOk p i
  | .deltaTooFar => ¬ DeltaMaxOk c i
  | v => TransitViolated p c i.outgoing i.expOut i.height v

/-- Exact-integer decision for a locally sourced HTLC: first violated rule in the code's order. -/
def checkHtlcTransit (p : Policy) (c : Cfg) (amt timeout height : Nat) : Verdict :=
  if ¬ MinOk p amt then .amountBelowMinimum
  else if ¬ MaxOk p amt then .htlcExceedsMax
  else if ¬ NotTooSoon c timeout height then .expiryTooSoon
  else if ¬ NotTooFar c timeout height then .expiryTooFar
  else if ¬ BwOk c amt then .insufficientBandwidth
  else .accept

/-- Exact-integer forwarding decision: first violated rule in the code's order. -/
def checkHtlcForward (p : Policy) (c : Cfg) (i : Inputs) : Verdict :=
  if ¬ FeeOk p i then .feeInsufficient
  else match checkHtlcTransit p c i.outgoing i.expOut i.height with
    | .accept =>
      if ¬ DeltaOk p i then .incorrectCltvExpiry
      else if ¬ DeltaMaxOk c i then .deltaTooFar
      else .accept
    | v => v

end Spec

/-! ## The realistic domain -/

/-- `int32` range. -/
def IsI32 (x : Int) : Prop := -2147483648 ≤ x ∧ x ≤ 2147483647

/-- The domain planned in DESIGN.md: amounts ≤ 10^13 msat (100 BTC), base fee < 2^32,
    rate ≤ 10^6 ppm, inbound fee fields any `int32`, heights/expiries/deltas < 2^31
    (bandwidth, min/max HTLC: any uint64). -/
def DomPlanned (p : Policy) (c : Cfg) (i : Inputs) : Prop :=
  i.incoming ≤ 10000000000000 ∧ i.outgoing ≤ 10000000000000 ∧
  p.baseFee < 4294967296 ∧ p.feeRate ≤ 1000000 ∧
  IsI32 i.inBase ∧ IsI32 i.inRate ∧
  i.height < 2147483648 ∧ i.expIn < 2147483648 ∧ i.expOut < 2147483648 ∧
  p.timeLockDelta < 2147483648 ∧ c.rejectDelta < 2147483648 ∧ c.maxCltv < 2147483648

/-- The `int64` product `rate * int64(amt)` of `CalcFee` does not wrap: |clamp(rate)|·(out+outFee) < 2^63.
    (The clamp "to prevent overflows" bounds the rate by 10^7, so this can only fail for
    out + outFee ≥ 2^63/10^7 ≈ 9.22·10^11 msat ≈ 9.22 BTC.) -/
def InboundNoWrap (p : Policy) (i : Inputs) : Prop :=
  (clampRate i.inRate).natAbs * (i.outgoing + Spec.outFee p i.outgoing) < 9223372036854775808

/-- The domain on which the Go arithmetic is exact. -/
def Dom (p : Policy) (c : Cfg) (i : Inputs) : Prop := DomPlanned p c i ∧ InboundNoWrap p i

instance (x : Int) : Decidable (IsI32 x) := by unfold IsI32; infer_instance
instance (p : Policy) (c : Cfg) (i : Inputs) : Decidable (DomPlanned p c i) := by
  unfold DomPlanned; infer_instance
instance (p : Policy) (i : Inputs) : Decidable (InboundNoWrap p i) := by
  unfold InboundNoWrap; infer_instance
instance (p : Policy) (c : Cfg) (i : Inputs) : Decidable (Dom p c i) := by unfold Dom; infer_instance

/-! ### The sharp domain: one conjunct per fixed-width operation of the decision

`DomWide` lists, operation by operation, what keeps the Go arithmetic of `CheckHtlcForward` exact.
It contains `Dom` (Props: `dom_subset_domWide`), makes no assumption on min/max HTLC, bandwidth,
incoming expiry or time-lock delta, and every conjunct is necessary (Props: `domWide_*_necessary`
give, for each one, an input violating only that conjunct on which the Go verdict differs from the
exact one). -/

/-- `int64(incomingHtlcAmt)` is the amount itself. -/
def WIn (i : Inputs) : Prop := i.incoming < 9223372036854775808
/-- `htlcAmt * FeeRate` does not wrap in uint64. -/
def WRateMul (p : Policy) (i : Inputs) : Prop := i.outgoing * p.feeRate < 18446744073709551616
/-- the inbound base fee is an `int32` (a typing constraint of `models.InboundFee`). -/
def WInBase (i : Inputs) : Prop := IsI32 i.inBase
/-- `rate * int64(amt)` of `CalcFee` does not underflow … -/
def WInMulLo (p : Policy) (i : Inputs) : Prop :=
  -9223372036854775808 < clampRate i.inRate * ((i.outgoing + Spec.outFee p i.outgoing : Nat) : Int)
/-- … nor overflow `int64`. -/
def WInMulHi (p : Policy) (i : Inputs) : Prop :=
  clampRate i.inRate * ((i.outgoing + Spec.outFee p i.outgoing : Nat) : Int) < 9223372036854775808
/-- `inFee + int64(outFee)` does not overflow `int64` (this also keeps `outFee` and
    `amtToForward + outFee` from wrapping in uint64). -/
def WTotal (p : Policy) (i : Inputs) : Prop := Spec.requiredFee p i < 9223372036854775808
/-- `heightNow + OutgoingCltvRejectDelta` does not wrap in uint32. -/
def WSoon (c : Cfg) (i : Inputs) : Prop := i.height + c.rejectDelta < 4294967296
/-- `MaxOutgoingCltvExpiry + heightNow` does not wrap in uint32. -/
def WFar (c : Cfg) (i : Inputs) : Prop := i.height + c.maxCltv < 4294967296

def DomWide (p : Policy) (c : Cfg) (i : Inputs) : Prop :=
  WIn i ∧ WRateMul p i ∧ WInBase i ∧ WInMulLo p i ∧ WInMulHi p i ∧ WTotal p i ∧
  WSoon c i ∧ WFar c i

instance (i : Inputs) : Decidable (WIn i) := by unfold WIn; infer_instance
instance (p : Policy) (i : Inputs) : Decidable (WRateMul p i) := by unfold WRateMul; infer_instance
instance (i : Inputs) : Decidable (WInBase i) := by unfold WInBase; infer_instance
instance (p : Policy) (i : Inputs) : Decidable (WInMulLo p i) := by unfold WInMulLo; infer_instance
instance (p : Policy) (i : Inputs) : Decidable (WInMulHi p i) := by unfold WInMulHi; infer_instance
instance (p : Policy) (i : Inputs) : Decidable (WTotal p i) := by unfold WTotal; infer_instance
instance (c : Cfg) (i : Inputs) : Decidable (WSoon c i) := by unfold WSoon; infer_instance
instance (c : Cfg) (i : Inputs) : Decidable (WFar c i) := by unfold WFar; infer_instance
instance (p : Policy) (c : Cfg) (i : Inputs) : Decidable (DomWide p c i) := by
  unfold DomWide; infer_instance

/-- Domain of a locally sourced HTLC (`CheckHtlcTransit` does no fee arithmetic). -/
def DomTransit (c : Cfg) (timeout height : Nat) : Prop :=
  height < 2147483648 ∧ timeout < 2147483648 ∧ c.rejectDelta < 2147483648 ∧ c.maxCltv < 2147483648

instance (c : Cfg) (t h : Nat) : Decidable (DomTransit c t h) := by unfold DomTransit; infer_instance

/-! ## Level 1b: the failure as it goes on the wire

`CheckHtlcForward` does not return a verdict but a `*LinkError` built by
`NewLinkError(createFailureWithUpdate(false, originalScid, cb))` (htlcswitch/failure.go,
link.go): the failure message embeds the channel_update that `cfg.FailAliasUpdate` returns, or,
when that is nil, the one from `cfg.FetchLastChannelUpdate` (`FailTemporaryNodeFailure` if that
lookup fails).  The switch sends `failure.WireMessage()` upstream (`failAddPacket`:
`EncryptFirstHop(failure.WireMessage())`).  This level is written after the Go text,
independently of the verdict-level `Gen.checkHtlcForward`; Lemmas.lean proves that the two agree. -/

/-- BOLT-4 failure codes (lnwire/onion_error.go): UPDATE = 0x1000, NODE = 0x2000, PERM = 0x4000. -/
abbrev codeTemporaryNodeFailure : Nat := 8194     -- NODE|2
abbrev codeTemporaryChannelFailure : Nat := 4103  -- UPDATE|7
abbrev codeUnknownNextPeer : Nat := 16394         -- PERM|10
abbrev codeAmountBelowMinimum : Nat := 4107       -- UPDATE|11
abbrev codeFeeInsufficient : Nat := 4108          -- UPDATE|12
abbrev codeIncorrectCltvExpiry : Nat := 4109      -- UPDATE|13
abbrev codeExpiryTooSoon : Nat := 4110            -- UPDATE|14
abbrev codeChannelDisabled : Nat := 4116          -- UPDATE|20
abbrev codeExpiryTooFar : Nat := 21

/-- Fingerprint of a `lnwire.ChannelUpdate1`: short channel id, `message_flags·256 + channel_flags`
    (bit 1 of the channel flags = disabled), digest of every other field. -/
structure Upd where
  scid : Nat
  flags : Nat
  digest : Nat
  deriving Repr, DecidableEq

/-- `FailureDetail` values that occur on these paths (not sent on the wire). -/
inductive Detail
  | none | htlcExceedsMax | insufficientBalance | linkNotEligible | circularRoute | forwardsDisabled
  deriving Repr, DecidableEq

/-- A BOLT-4 failure message: code, the integer in the failure data (`-1`: none), the embedded
    channel_update. -/
structure WireFailure where
  code : Nat
  payload : Int
  upd : Option Upd
  deriving Repr, DecidableEq

/-- `htlcswitch.LinkError`. -/
structure LinkError where
  msg : WireFailure
  detail : Detail
  deriving Repr, DecidableEq

namespace Gen

/-- `createFailureWithUpdate(false, originalScid, cb)`: `alias` = result of `cfg.FailAliasUpdate`,
    `fetched` = result of `cfg.FetchLastChannelUpdate` (`none`: error). -/
def createFailureWithUpdate (alias fetched : Option Upd) (cb : Upd → WireFailure) : WireFailure :=
  match alias with
  | some u => cb u
  | none =>
    match fetched with
    | some u => cb u
    | none => ⟨codeTemporaryNodeFailure, -1, none⟩

/-- `NewLinkError(msg)`. -/
def newLinkError (msg : WireFailure) : LinkError := ⟨msg, .none⟩
/-- `NewDetailedLinkError(msg, detail)`. -/
def newDetailedLinkError (msg : WireFailure) (d : Detail) : LinkError := ⟨msg, d⟩
/-- `(*LinkError).WireMessage()`. -/
def wireMessage (e : LinkError) : WireFailure := e.msg
/-- What the upstream peer decodes from the `update_fail_htlc` built by `failAddPacket`:
    `EncryptFirstHop(failure.WireMessage())` followed by decryption and `DecodeFailure`. -/
def finalWire (e : LinkError) : WireFailure := wireMessage e

/-- `validateHtlcAmount`, returning the `*LinkError` (`none` = nil). -/
def validateHtlcAmountLE (p : Policy) (amt : Nat) (alias fetched : Option Upd) : Option LinkError :=
  if amt < p.minHtlc then
    some (newLinkError (createFailureWithUpdate alias fetched
      fun u => ⟨codeAmountBelowMinimum, amt, some u⟩))
  else if p.maxHtlc ≠ 0 ∧ amt > p.maxHtlc then
    some (newDetailedLinkError (createFailureWithUpdate alias fetched
      fun u => ⟨codeTemporaryChannelFailure, -1, some u⟩) .htlcExceedsMax)
  else none

/-- `canSendHtlc`, returning the `*LinkError`. -/
def canSendHtlcLE (p : Policy) (c : Cfg) (amt timeout height : Nat) (alias fetched : Option Upd) :
    Option LinkError :=
  match validateHtlcAmountLE p amt alias fetched with
  | some e => some e
  | none =>
    if timeout ≤ (height + c.rejectDelta) % 4294967296 then
      some (newLinkError (createFailureWithUpdate alias fetched
        fun u => ⟨codeExpiryTooSoon, -1, some u⟩))
    else if timeout > (c.maxCltv + height) % 4294967296 then
      some (newLinkError ⟨codeExpiryTooFar, -1, none⟩)
    else if amt > c.bandwidth then
      some (newDetailedLinkError (createFailureWithUpdate alias fetched
        fun u => ⟨codeTemporaryChannelFailure, -1, some u⟩) .insufficientBalance)
    else none

/-- `CheckHtlcTransit`, returning the `*LinkError`. -/
def checkHtlcTransitLE (p : Policy) (c : Cfg) (amt timeout height : Nat)
    (alias fetched : Option Upd) : Option LinkError :=
  canSendHtlcLE p c amt timeout height alias fetched

/-- `CheckHtlcForward`, returning the `*LinkError`. -/
def checkHtlcForwardLE (p : Policy) (c : Cfg) (i : Inputs) (alias fetched : Option Upd) :
    Option LinkError :=
  if i.incoming < i.outgoing ∨ actualFee i < expectedTotal p i then
    some (newLinkError (createFailureWithUpdate alias fetched
      fun u => ⟨codeFeeInsufficient, i.outgoing, some u⟩))
  else match canSendHtlcLE p c i.outgoing i.expOut i.height alias fetched with
    | some e => some e
    | none =>
      let incomingDelta := if i.expIn ≥ i.expOut then i.expIn - i.expOut else 0
      if i.expIn < i.expOut ∨ incomingDelta < p.timeLockDelta then
        some (newLinkError (createFailureWithUpdate alias fetched
          fun u => ⟨codeIncorrectCltvExpiry, i.expIn, some u⟩))
      else if incomingDelta > c.maxCltv then
        some (newLinkError ⟨codeExpiryTooFar, -1, none⟩)
      else none

end Gen

/-- The BOLT-4 code a verdict goes out with when a channel_update is available. -/
def Verdict.code : Verdict → Nat
  | .accept => 0
  | .feeInsufficient => codeFeeInsufficient
  | .amountBelowMinimum => codeAmountBelowMinimum
  | .htlcExceedsMax => codeTemporaryChannelFailure
  | .expiryTooSoon => codeExpiryTooSoon
  | .expiryTooFar => codeExpiryTooFar
  | .insufficientBandwidth => codeTemporaryChannelFailure
  | .incorrectCltvExpiry => codeIncorrectCltvExpiry
  | .deltaTooFar => codeExpiryTooFar

/-- Failures whose message carries a channel_update (built through `createFailureWithUpdate`). -/
def Verdict.carriesUpdate : Verdict → Bool
  | .accept | .expiryTooFar | .deltaTooFar => false
  | _ => true

/-- The failure detail attached by `NewDetailedLinkError`. -/
def Verdict.detail : Verdict → Detail
  | .htlcExceedsMax => .htlcExceedsMax
  | .insufficientBandwidth => .insufficientBalance
  | _ => .none

/-- The `*LinkError` a verdict stands for, given the two update sources. -/
def Verdict.toLinkError (i : Inputs) (alias fetched : Option Upd) (v : Verdict) : Option LinkError :=
  match v with
  | .accept => none
  | v =>
    if v.carriesUpdate then
      some ⟨Gen.createFailureWithUpdate alias fetched fun u => ⟨v.code, v.payload i, some u⟩, v.detail⟩
    else some ⟨⟨v.code, -1, none⟩, .none⟩

/-- The harness' name of a wire failure (failure type + detail). -/
def LinkError.wire (e : LinkError) : String :=
  if e.msg.code = codeFeeInsufficient then "FeeInsufficient"
  else if e.msg.code = codeAmountBelowMinimum then "AmountBelowMinimum"
  else if e.msg.code = codeIncorrectCltvExpiry then "IncorrectCltvExpiry"
  else if e.msg.code = codeExpiryTooSoon then "ExpiryTooSoon"
  else if e.msg.code = codeExpiryTooFar then "ExpiryTooFar"
  else if e.msg.code = codeTemporaryNodeFailure then "TemporaryNodeFailure"
  else if e.msg.code = codeUnknownNextPeer then
    (match e.detail with
     | .none => "UnknownNextPeer" | .linkNotEligible => "UnknownNextPeer/LinkNotEligible"
     | _ => "UnknownNextPeer/other")
  else if e.msg.code = codeChannelDisabled then
    (match e.detail with
     | .none => "ChannelDisabled" | .forwardsDisabled => "ChannelDisabled/ForwardsDisabled"
     | _ => "ChannelDisabled/other")
  else if e.msg.code = codeTemporaryChannelFailure then
    (match e.detail with
     | .none => "TemporaryChannelFailure/none"
     | .htlcExceedsMax => "TemporaryChannelFailure/HtlcExceedsMax"
     | .insufficientBalance => "TemporaryChannelFailure/InsufficientBalance"
     | .linkNotEligible => "TemporaryChannelFailure/LinkNotEligible"
     | .circularRoute => "TemporaryChannelFailure/CircularRoute"
     | .forwardsDisabled => "TemporaryChannelFailure/other")
  else s!"other:{e.msg.code}"

namespace Spec

/-- The rule named by a BOLT-4 failure CODE is violated.  `temporary_channel_failure` names the
    max_htlc or the bandwidth rule, `expiry_too_far` the absolute or the relative bound;
    `temporary_node_failure` names no rule and is justified only when no channel_update can be
    obtained (`updAvail = false`) for an HTLC that some rule rejects; every other code
    (`channel_disabled`, `unknown_next_peer`, …) names nothing `CheckHtlcForward` enforces. -/
def CodeViolated (p : Policy) (c : Cfg) (i : Inputs) (updAvail : Bool) (code : Nat) : Prop :=
  if code = codeFeeInsufficient then ¬ FeeOk p i
  else if code = codeAmountBelowMinimum then ¬ MinOk p i.outgoing
  else if code = codeTemporaryChannelFailure then ¬ MaxOk p i.outgoing ∨ ¬ BwOk c i.outgoing
  else if code = codeExpiryTooSoon then ¬ NotTooSoon c i.expOut i.height
  else if code = codeExpiryTooFar then ¬ NotTooFar c i.expOut i.height ∨ ¬ DeltaMaxOk c i
  else if code = codeIncorrectCltvExpiry then ¬ DeltaOk p i
  else if code = codeTemporaryNodeFailure then updAvail = false ∧ ¬ AllOk p c i
  else False

end Spec

/-! ## Level 2: the switch choosing among parallel links to the next peer

`Switch.handlePacketAdd` (htlcswitch/switch.go): collect `interfaceLinks` (all links to the
next peer, in Go's map-iteration order = arbitrary), scan them building `destinations` (links
that are `EligibleToForward` and whose `CheckHtlcForward` returned nil) and the map
`linkErrs[scid]`, fail with the requested link's error when `destinations` is empty, otherwise
forward over `destinations[rand.Intn(len(destinations))]`.  Not modelled: `RejectHTLC`,
circular-route check, alias mapping, dust/fee-exposure check after the choice. -/

/-- One link registered in the switch (a candidate once its peer is the next hop). `scid` =
    `ShortChanID()` (the key of `forwardingIndex`), `fetched` = the channel_update the node
    currently has for this channel (`none`: lookup fails). -/
structure Cand where
  scid : Nat
  eligible : Bool
  p : Policy
  c : Cfg
  peer : Nat := 0
  unadvertised : Bool := false
  fetched : Option Upd := none
  deriving Repr, DecidableEq

/-- Failure returned by the switch for an add. -/
inductive SwFailure
  | notEligible        -- FailUnknownNextPeer + OutgoingFailureLinkNotEligible (forward path)
  | localNotEligible   -- FailTemporaryChannelFailure + OutgoingFailureLinkNotEligible (getLocalLink)
  | unknownNextPeer    -- FailUnknownNextPeer
  | link (v : Verdict) -- the failure of that link's CheckHtlcForward / CheckHtlcTransit
  | forwardsDisabled   -- FailChannelDisabled + OutgoingFailureForwardsDisabled (cfg.RejectHTLC)
  deriving Repr, DecidableEq

def SwFailure.wire : SwFailure → String
  | .notEligible => "UnknownNextPeer/LinkNotEligible"
  | .localNotEligible => "TemporaryChannelFailure/LinkNotEligible"
  | .unknownNextPeer => "UnknownNextPeer"
  | .link v => v.wire
  | .forwardsDisabled => "ChannelDisabled/ForwardsDisabled"

def SwFailure.payload (i : Inputs) : SwFailure → Int
  | .link v => v.payload i
  | _ => -1

/-- Outcome of `handlePacketAdd` / `getLocalLink`. -/
inductive SwOutcome
  | forward (scid : Nat)   -- the add was handed to the link with this short channel id
  | fail (f : SwFailure)
  deriving Repr, DecidableEq

namespace Gen

/-- Body of the scan loop for one link: `none` = goes to `destinations`. -/
def linkFailure (l : Cand) (i : Inputs) : Option SwFailure :=
  if l.eligible = false then some .notEligible
  else match checkHtlcForward l.p l.c i with
    | .accept => none
    | v => some (.link v)

/-- State of the scan loop: `destinations` and the map `linkErrs`. -/
structure Scan where
  dests : List Cand
  errs : Nat → Option SwFailure

def scanStep (i : Inputs) (st : Scan) (l : Cand) : Scan :=
  match linkFailure l i with
  | none => { st with dests := st.dests ++ [l] }
  | some f => { st with errs := fun k => if k = l.scid then some f else st.errs k }

/-- `for _, link := range interfaceLinks { … }`. -/
def scanLinks (links : List Cand) (i : Inputs) : Scan :=
  links.foldl (scanStep i) ⟨[], fun _ => none⟩

/-- `handlePacketAdd` after the candidate links are known. `nodeMode`: the next hop is a node id
    (blinded route), `req`: requested short channel id otherwise, `links`: `interfaceLinks` in the
    order of iteration, `r`: the value drawn by `rand.Intn` (any natural; reduced mod length). -/
def handlePacketAdd (nodeMode : Bool) (req : Nat) (links : List Cand) (r : Nat) (i : Inputs) :
    SwOutcome :=
  let st := scanLinks links i
  match st.dests[r % st.dests.length]? with
  | some d => .forward d.scid
  | none =>
    if nodeMode then .fail .unknownNextPeer
    else match st.errs req with
      | some f => .fail f
      | none => .fail .unknownNextPeer

/-- `getLocalLink`: locally initiated payment over an explicit channel (strict). -/
def getLocalLink (l : Option Cand) (amt timeout height : Nat) : SwOutcome :=
  match l with
  | none => .fail .unknownNextPeer
  | some l =>
    if l.eligible = false then .fail .localNotEligible
    else match checkHtlcTransit l.p l.c amt timeout height with
      | .accept => .forward l.scid
      | v => .fail (.link v)

/-- `Switch.getLinkByMapping`: `isAlias` = `cfg.IsAlias(chanID)`, `base` = `baseIndex[chanID]`,
    `links` = the registered links (`forwardingIndex` = lookup by `scid`).  Returns the target link
    and the value `pkt.outgoingChanID` has afterwards (rewritten to the base scid so that the
    failure is attributed to the link `linkErrs` is keyed by). -/
def getLinkByMapping (isAlias : Bool) (base : Option Nat) (chanID : Nat) (links : List Cand) :
    Option (Cand × Nat) :=
  if isAlias then
    match base with
    | none => none
    | some b =>
      match links.find? (fun l => l.scid = b) with
      | none => none
      | some l => some (l, b)
  else
    match base with
    | none =>
      match links.find? (fun l => l.scid = chanID) with
      | none => none
      | some l => some (l, chanID)
    | some b =>
      match links.find? (fun l => l.scid = b) with
      | none => none
      | some l => if l.unadvertised then none else some (l, b)

/-- `handlePacketAdd` from the top: `cfg.RejectHTLC`, resolution of the next hop (node id, or
    channel id through `getLinkByMapping`), candidate set = all links to the resolved peer, then the
    scan / choice of `handlePacketAdd`.  Not modelled: circular-route check, dust/fee-exposure
    check after the choice. -/
def handlePacketAddFull (rejectHTLC nodeMode : Bool) (peerKey : Nat) (isAlias : Bool)
    (base : Option Nat) (chanID : Nat) (allLinks : List Cand) (r : Nat) (i : Inputs) : SwOutcome :=
  if rejectHTLC then .fail .forwardsDisabled
  else if nodeMode then
    match allLinks.filter (fun l => l.peer = peerKey) with
    | [] => .fail .unknownNextPeer
    | ls => handlePacketAdd true 0 ls r i
  else
    match getLinkByMapping isAlias base chanID allLinks with
    | none => .fail .unknownNextPeer
    | some (t, out) => handlePacketAdd false out (allLinks.filter (fun l => l.peer = t.peer)) r i

/-- `getLocalLink` with its lookup: `forwardingIndex[chanID]`, else `forwardingIndex[baseIndex[chanID]]`. -/
def getLocalLinkMapped (base : Option Nat) (chanID : Nat) (links : List Cand)
    (amt timeout height : Nat) : SwOutcome :=
  match links.find? (fun l => l.scid = chanID) with
  | some l => getLocalLink (some l) amt timeout height
  | none =>
    match base with
    | none => .fail .unknownNextPeer
    | some b => getLocalLink (links.find? (fun l => l.scid = b)) amt timeout height

/-- The channel_update a failure of link `t` carries when the sender named it `orig`
    (`Switch.failAliasUpdate(orig, false)`, falling back to the link's own lookup): the node's
    current update for the channel, re-labelled with the alias when an alias was used. -/
def failureUpdate (isAlias : Bool) (base : Option Nat) (orig : Nat) (t : Cand) : Option Upd :=
  if isAlias ∧ base.isSome then t.fetched.map (fun u => { u with scid := orig }) else t.fetched

end Gen

/-- The `*LinkError` handed to `failAddPacket` for a switch-level failure; `upd` = the update
    the failing link's `createFailureWithUpdate` obtains. -/
def SwFailure.toLinkError (i : Inputs) (upd : Option Upd) : SwFailure → LinkError
  | .notEligible => ⟨⟨codeUnknownNextPeer, -1, none⟩, .linkNotEligible⟩
  | .localNotEligible => ⟨⟨codeTemporaryChannelFailure, -1, none⟩, .linkNotEligible⟩
  | .unknownNextPeer => ⟨⟨codeUnknownNextPeer, -1, none⟩, .none⟩
  | .forwardsDisabled => ⟨⟨codeChannelDisabled, -1, none⟩, .forwardsDisabled⟩
  | .link v => (v.toLinkError i none upd).getD ⟨⟨0, -1, none⟩, .none⟩

end LndModel.C09
