/-
C09, round 7 — theorems about the code around the forwarding decision (model: Path.lean).

  forward_add_meets_policy            a received add is handed to an outgoing link only if THAT link's
                                      policy holds on the numbers that are on the wire (amount / expiry
                                      of the update_add_htlc, amt_to_forward / outgoing_cltv of the
                                      onion payload) with the inbound fee of the link it ARRIVED on
  forward_add_failure_names_violated_rule   … otherwise the code sent upstream names a rule the
                                      requested channel's policy violates on those numbers
  forward_after_policy_update         … with the policies last installed by UpdateForwardingPolicies
  send_htlc_meets_policy              SendHTLC: only over the named link, only if its transit rules hold
  fail_alias_update_content / fail_alias_update_none_cases   what Switch.failAliasUpdate returns
  embedded_update_eq_failureUpdate    createFailureWithUpdate ∘ failAliasUpdate = the `Gen.failureUpdate`
                                      the level-2 correspondence check uses (was compared only)
  embedded_update_is_current          the update embedded in a failure is the node's current update of
                                      a key of that channel, re-labelled at most
-/
import LndModel.C09.Props
import LndModel.C09.Path

namespace LndModel.C09

/-! ## From the wire to the decision -/

/-- The numbers the property speaks about, as they are on the wire / in the incoming link's policy. -/
def wireInputs (inLink : SwLink) (add : AddMsg) (fwd : FwdInfo) (height : Nat) : Inputs :=
  ⟨add.amount, fwd.amountToForward, add.expiry, fwd.outgoingCltv, height, inLink.inBase, inLink.inRate⟩

private theorem mem_map_cand {links : List SwLink} {c : Cand} (h : c ∈ links.map (·.cand)) :
    ∃ l ∈ links, l.cand = c := by
  rw [List.mem_map] at h
  exact h

/-- **forward_add_meets_policy**: whatever the iteration order and the random draw, a received
    `update_add_htlc` is handed to an outgoing link only if forwarding is not disabled and that
    link is registered, eligible, and ITS OWN advertised policy holds — in exact integers — on the
    amount and expiry of the received add, the amount and expiry named by the onion payload, the
    current height and the inbound fee of the link the add ARRIVED on; in particular no money is
    lost, the fee is covered and the expiry gap is at least the link's time-lock delta. -/
theorem forward_add_meets_policy (rj isAlias : Bool) (base : Option Nat) (links : List SwLink)
    (inLink : SwLink) (add : AddMsg) (fwd : FwdInfo) (height r s : Nat)
    (hdom : ∀ l ∈ links, DomWide l.cand.p l.cand.c (wireInputs inLink add fwd height))
    (h : Gen.forwardAdd rj isAlias base links inLink add fwd height r = .forward s) :
    rj = false ∧ ∃ l ∈ links, l.cand.scid = s ∧ l.cand.eligible = true ∧
      Spec.AllOk l.cand.p l.cand.c (wireInputs inLink add fwd height) ∧
      fwd.amountToForward ≤ add.amount ∧
      Spec.requiredFee l.cand.p (wireInputs inLink add fwd height)
        ≤ (add.amount : Int) - (fwd.amountToForward : Int) ∧
      (l.cand.p.timeLockDelta : Int) ≤ (add.expiry : Int) - (fwd.outgoingCltv : Int) := by
  unfold Gen.forwardAdd at h
  have hi : (Gen.mkPacket inLink add fwd).inputs height = wireInputs inLink add fwd height := rfl
  simp only [hi] at h
  obtain ⟨hrj, c, hc, hs, he, ha, -⟩ := mapped_forward_link_accepts _ _ _ _ _ _ _ _ _ _ h
  obtain ⟨l, hl, rfl⟩ := mem_map_cand hc
  have hall : Spec.AllOk l.cand.p l.cand.c (wireInputs inLink add fwd height) :=
    ((gen_accept_iff_rules_wide l.cand.p l.cand.c _ (Or.inr (hdom l hl))).1).mp ha
  refine ⟨hrj, l, hl, hs, he, hall, ?_, ?_, ?_⟩
  · exact hall.1.1
  · exact hall.1.2
  · exact hall.2.2.1

/-- **forward_add_failure_names_violated_rule**: when the add is failed instead, the BOLT-4 code
    that goes upstream is `unknown_next_peer` (id not resolvable / resolved link not eligible) or
    names a rule that the policy of the channel the payload NAMED violates on the wire numbers. -/
theorem forward_add_failure_names_violated_rule (isAlias : Bool) (base : Option Nat)
    (links : List SwLink) (inLink : SwLink) (add : AddMsg) (fwd : FwdInfo) (height r : Nat)
    (f : SwFailure) (upd : Option Upd)
    (hnd : ((links.map (·.cand)).map (·.scid)).Nodup)
    (hdom : ∀ l ∈ links, DomWide l.cand.p l.cand.c (wireInputs inLink add fwd height))
    (h : Gen.forwardAdd false isAlias base links inLink add fwd height r = .fail f) :
    (Gen.finalWire (f.toLinkError (wireInputs inLink add fwd height) upd)).code = codeUnknownNextPeer ∨
    ∃ t ∈ links, ∃ out, Gen.getLinkByMapping isAlias base fwd.nextHop (links.map (·.cand)) = some (t.cand, out) ∧
      Spec.CodeViolated t.cand.p t.cand.c (wireInputs inLink add fwd height) upd.isSome
        (Gen.finalWire (f.toLinkError (wireInputs inLink add fwd height) upd)).code := by
  unfold Gen.forwardAdd at h
  have hi : (Gen.mkPacket inLink add fwd).inputs height = wireInputs inLink add fwd height := rfl
  have ho : (Gen.mkPacket inLink add fwd).outgoingChanID = fwd.nextHop := rfl
  simp only [hi, ho] at h
  cases hm : Gen.getLinkByMapping isAlias base fwd.nextHop (links.map (·.cand)) with
  | none =>
    left
    unfold Gen.handlePacketAddFull at h
    simp only [Bool.false_eq_true, if_false, hm, SwOutcome.fail.injEq] at h
    subst h
    simp [SwFailure.toLinkError, Gen.finalWire, Gen.wireMessage]
  | some to =>
    obtain ⟨t, out⟩ := to
    obtain ⟨ht, -, -, -⟩ := mapping_resolves _ _ _ _ _ _ hm
    obtain ⟨l, hl, rfl⟩ := mem_map_cand ht
    rcases mapped_failure_wire_names_violated_rule isAlias base fwd.nextHop _ r _ f l.cand out hm hnd
      (Or.inr (hdom l hl)) h upd with ⟨hc, -⟩ | hv
    · exact Or.inl hc
    · exact Or.inr ⟨l, hl, out, by first | rfl | trivial, hv⟩

/-! ## Policy installation -/

/-- The policy / inbound fee of a link after `UpdateForwardingPolicies(upd)`. -/
def effPolicy (upd : Nat → Option FullPolicy) (l : SwLink) : Policy :=
  match upd l.chanPoint with | some np => np.p | none => l.cand.p
def effInBase (upd : Nat → Option FullPolicy) (l : SwLink) : Int :=
  match upd l.chanPoint with | some np => np.inBase | none => l.inBase
def effInRate (upd : Nat → Option FullPolicy) (l : SwLink) : Int :=
  match upd l.chanPoint with | some np => np.inRate | none => l.inRate

/-- one element of `updateForwardingPolicies` -/
def updLink (upd : Nat → Option FullPolicy) (l : SwLink) : SwLink :=
  match upd l.chanPoint with
  | some np => Gen.updateForwardingPolicy l np
  | none => l

private theorem updLink_facts (upd : Nat → Option FullPolicy) (l : SwLink) :
    (updLink upd l).cand.p = effPolicy upd l ∧ (updLink upd l).cand.c = l.cand.c ∧
    (updLink upd l).cand.scid = l.cand.scid ∧ (updLink upd l).cand.eligible = l.cand.eligible ∧
    (updLink upd l).inBase = effInBase upd l ∧ (updLink upd l).inRate = effInRate upd l := by
  unfold updLink effPolicy effInBase effInRate Gen.updateForwardingPolicy
  cases upd l.chanPoint <;> simp

/-- **forward_after_policy_update**: after `Switch.UpdateForwardingPolicies(upd)` an add is
    forwarded only over a link whose policy AS INSTALLED LAST (the map's entry for its own channel
    point, otherwise the one it had) holds, with the inbound fee as installed last on the incoming
    link: every link gets exactly its own entry. -/
theorem forward_after_policy_update (upd : Nat → Option FullPolicy) (isAlias : Bool)
    (base : Option Nat) (links : List SwLink) (inLink : SwLink) (add : AddMsg) (fwd : FwdInfo)
    (height r s : Nat)
    (hdom : ∀ l ∈ links, DomWide (effPolicy upd l) l.cand.c
      ⟨add.amount, fwd.amountToForward, add.expiry, fwd.outgoingCltv, height,
        effInBase upd inLink, effInRate upd inLink⟩)
    (h : Gen.forwardAdd false isAlias base (Gen.updateForwardingPolicies upd links)
      (updLink upd inLink) add fwd height r = .forward s) :
    ∃ l ∈ links, l.cand.scid = s ∧ l.cand.eligible = true ∧
      Spec.AllOk (effPolicy upd l) l.cand.c
        ⟨add.amount, fwd.amountToForward, add.expiry, fwd.outgoingCltv, height,
          effInBase upd inLink, effInRate upd inLink⟩ := by
  have hw : wireInputs (updLink upd inLink) add fwd height =
      ⟨add.amount, fwd.amountToForward, add.expiry, fwd.outgoingCltv, height,
        effInBase upd inLink, effInRate upd inLink⟩ := by
    unfold wireInputs
    rw [(updLink_facts upd inLink).2.2.2.2.1, (updLink_facts upd inLink).2.2.2.2.2]
  have hmap : Gen.updateForwardingPolicies upd links = links.map (updLink upd) := rfl
  have hdom' : ∀ l' ∈ Gen.updateForwardingPolicies upd links,
      DomWide l'.cand.p l'.cand.c (wireInputs (updLink upd inLink) add fwd height) := by
    intro l' hl'
    rw [hmap, List.mem_map] at hl'
    obtain ⟨l, hl, rfl⟩ := hl'
    rw [hw, (updLink_facts upd l).1, (updLink_facts upd l).2.1]
    exact hdom l hl
  obtain ⟨-, l', hl', hs, he, hall, -⟩ :=
    forward_add_meets_policy false isAlias base _ _ add fwd height r s hdom' h
  rw [hmap, List.mem_map] at hl'
  obtain ⟨l, hl, rfl⟩ := hl'
  rw [hw, (updLink_facts upd l).1, (updLink_facts upd l).2.1] at hall
  exact ⟨l, hl, by rw [← (updLink_facts upd l).2.2.1]; exact hs,
    by rw [← (updLink_facts upd l).2.2.2.1]; exact he, hall⟩

/-- **send_htlc_meets_policy**: `Switch.SendHTLC` hands a locally sourced HTLC only to the link
    registered under the first-hop id (or its base scid), and only if that link is eligible and its
    min/max HTLC, expiry and bandwidth rules hold in exact integers. -/
theorem send_htlc_meets_policy (base : Option Nat) (links : List SwLink)
    (firstHop amount expiry height s : Nat)
    (hdom : ∀ l ∈ links, DomTransit l.cand.c expiry height)
    (h : Gen.sendHTLC base links firstHop amount expiry height = .forward s) :
    ∃ l ∈ links, l.cand.scid = s ∧ (s = firstHop ∨ base = some s) ∧ l.cand.eligible = true ∧
      Spec.TransitOk l.cand.p l.cand.c amount expiry height := by
  unfold Gen.sendHTLC at h
  obtain ⟨c, hc, hs, hk, he, ha⟩ := local_mapped_link_accepts _ _ _ _ _ _ _ h
  obtain ⟨l, hl, rfl⟩ := mem_map_cand hc
  refine ⟨l, hl, hs, hk, he, ?_⟩
  rw [gen_transit_refines_spec _ _ _ _ _ (hdom l hl)] at ha
  exact (transit_accept_iff _ _ _ _ _).mp ha

/-! ## Which channel_update a failure embeds -/

/-- two updates differ at most in their label (short channel id) -/
def SameContent (u u0 : Upd) : Prop := u.flags = u0.flags ∧ u.digest = u0.digest

private theorem relabel_some {v : AliasView} {u0 u : Upd} {k : Nat} (h : Gen.relabel v u0 k = some u) :
    v.signOk = true ∧ u = { u0 with scid := k } := by
  unfold Gen.relabel at h
  cases hs : v.signOk <;> simp [hs] at h
  exact ⟨rfl, h.symm⟩

/-- **fail_alias_update_content**: an update returned by `Switch.failAliasUpdate(scid, incoming)`
    is the node's current update under the key the function looks up (the confirmed scid of the
    alias, else the base scid of the alias, else the id itself), unchanged except for the label;
    the label is the alias the caller passed whenever an alias was passed (the confirmed scid is
    never revealed to a sender who used an alias), the channel's first alias for the incoming
    direction of a channel named by its confirmed scid, and untouched (no re-signing) for the
    outgoing direction of such a channel. -/
theorem fail_alias_update_content (v : AliasView) (scid : Nat) (incoming : Bool) (u : Upd)
    (h : Gen.failAliasUpdate v scid incoming = some u) :
    ∃ k u0, Gen.failAliasFetchKey v scid = some k ∧ v.fetch k = some u0 ∧ SameContent u u0 ∧
      (v.isAlias scid = true → u.scid = scid ∧ v.signOk = true ∧
        (v.aliasToReal scid = some k ∨ (v.aliasToReal scid = none ∧ v.baseIndex scid = some k))) ∧
      (v.isAlias scid = false → k = scid ∧
        ∃ b a rest, v.baseIndex scid = some b ∧ v.aliases b = some (a :: rest) ∧
          (incoming = false → u = u0) ∧ (incoming = true → u.scid = a ∧ v.signOk = true)) := by
  unfold Gen.failAliasUpdate at h
  unfold Gen.failAliasFetchKey
  cases hia : v.isAlias scid with
  | true =>
    simp only [hia, if_true] at h ⊢
    cases har : v.aliasToReal scid with
    | none =>
      simp only [har] at h ⊢
      cases hb : v.baseIndex scid with
      | none => simp [hb] at h
      | some b =>
        simp only [hb] at h
        cases hf : v.fetch b with
        | none => simp [hf] at h
        | some u0 =>
          simp only [hf] at h
          obtain ⟨hs, rfl⟩ := relabel_some h
          exact ⟨b, u0, rfl, hf, ⟨rfl, rfl⟩, fun _ => ⟨rfl, hs, by simp⟩,
            fun hh => by simp at hh⟩
    | some real =>
      simp only [har] at h ⊢
      cases hf : v.fetch real with
      | none => simp [hf] at h
      | some u0 =>
        simp only [hf] at h
        obtain ⟨hs, rfl⟩ := relabel_some h
        exact ⟨real, u0, rfl, hf, ⟨rfl, rfl⟩, fun _ => ⟨rfl, hs, by simp⟩,
          fun hh => by simp at hh⟩
  | false =>
    simp only [hia, Bool.false_eq_true, if_false] at h ⊢
    cases hb : v.baseIndex scid with
    | none => simp [hb] at h
    | some b =>
      simp only [hb] at h ⊢
      cases hal : v.aliases b with
      | none => simp [hal] at h
      | some al =>
        cases al with
        | nil => simp [hal] at h
        | cons a rest =>
          simp only [hal] at h ⊢
          cases hf : v.fetch scid with
          | none => simp [hf] at h
          | some u0 =>
            simp only [hf] at h
            cases incoming with
            | false =>
              simp only [Bool.false_eq_true, if_false, Option.some.injEq] at h
              subst h
              exact ⟨scid, u0, rfl, hf, ⟨rfl, rfl⟩, fun hh => by simp at hh,
                fun _ => ⟨rfl, b, a, rest, rfl, hal, fun _ => rfl, fun hh => by simp at hh⟩⟩
            | true =>
              simp only [if_true] at h
              obtain ⟨hs, rfl⟩ := relabel_some h
              exact ⟨scid, u0, rfl, hf, ⟨rfl, rfl⟩, fun hh => by simp at hh,
                fun _ => ⟨rfl, b, a, rest, rfl, hal, fun hh => by simp at hh, fun _ => ⟨rfl, hs⟩⟩⟩

/-- **embedded_update_is_current**: the channel_update that `createFailureWithUpdate` puts into a
    failure (production wiring) is the node's current update under a key of the failing channel —
    the key `failAliasUpdate` resolves the id to, or the link's own short channel id — identical in
    content, re-labelled at most. -/
theorem embedded_update_is_current (v : AliasView) (self : Nat) (incoming : Bool) (outScid : Nat)
    (u : Upd) (h : Gen.embeddedUpdate v self incoming outScid = some u) :
    ∃ k u0, v.fetch k = some u0 ∧ SameContent u u0 ∧
      (k = self ∨ Gen.failAliasFetchKey v (if incoming then self else outScid) = some k) := by
  unfold Gen.embeddedUpdate at h
  cases hf : Gen.failAliasUpdate v (if incoming then self else outScid) incoming with
  | some u' =>
    simp only [hf, Option.some.injEq] at h
    subst h
    obtain ⟨k, u0, hk, hfk, hsc, -, -⟩ := fail_alias_update_content v _ incoming u' hf
    exact ⟨k, u0, hfk, hsc, Or.inr hk⟩
  | none =>
    simp only [hf] at h
    exact ⟨self, u, h, ⟨rfl, rfl⟩, Or.inl rfl⟩

/-- The switch's maps are consistent for the id `orig` the sender used for link `t`:
    every key `failAliasUpdate` can resolve `orig` to, and the link's own id, fetch the link's
    current update; an alias with a confirmed scid also has a base scid (`updateLinkAliases` writes
    both maps together); the signer works. -/
structure ViewFor (v : AliasView) (orig : Nat) (t : Cand) : Prop where
  self : v.fetch t.scid = t.fetched
  keys : ∀ k, Gen.failAliasFetchKey v orig = some k → v.fetch k = t.fetched
  realHasBase : v.aliasToReal orig ≠ none → v.baseIndex orig ≠ none
  sign : v.signOk = true

/-- **embedded_update_eq_failureUpdate**: on consistent maps, what the Go-shaped
    `createFailureWithUpdate ∘ failAliasUpdate` embeds for the outgoing direction is exactly
    `Gen.failureUpdate` — the link's current update, re-labelled with the alias iff the sender used
    an alias that the switch knows.  (`Gen.failureUpdate` is what the level-2 correspondence check
    compares with the update_fail_htlc the real switch mails upstream; until round 7 it was
    compared only.) -/
theorem embedded_update_eq_failureUpdate (v : AliasView) (orig : Nat) (t : Cand)
    (hv : ViewFor v orig t) :
    Gen.embeddedUpdate v t.scid false orig =
      Gen.failureUpdate (v.isAlias orig) (v.baseIndex orig) orig t := by
  unfold Gen.embeddedUpdate Gen.failureUpdate
  simp only [Bool.false_eq_true, if_false]
  have hk := hv.keys
  unfold Gen.failAliasFetchKey at hk
  unfold Gen.failAliasUpdate Gen.relabel
  cases hia : v.isAlias orig with
  | true =>
    simp only [hia, if_true] at hk ⊢
    cases har : v.aliasToReal orig with
    | none =>
      simp only [har] at hk ⊢
      cases hb : v.baseIndex orig with
      | none => simp [hv.self]
      | some b =>
        have := hk b (by simp [hb])
        simp only [this, hv.sign, if_true, Option.isSome_some, and_self]
        cases hft : t.fetched <;> simp [hv.self, hft]
    | some real =>
      simp only [har] at hk ⊢
      have := hk real rfl
      have hb : v.baseIndex orig ≠ none := hv.realHasBase (by simp [har])
      cases hb' : v.baseIndex orig with
      | none => exact absurd hb' hb
      | some b =>
        simp only [this, hv.sign, if_true, Option.isSome_some, and_self]
        cases hft : t.fetched <;> simp [hv.self, hft]
  | false =>
    simp only [hia, Bool.false_eq_true, if_false, false_and] at hk ⊢
    cases hb : v.baseIndex orig with
    | none => simp [hv.self]
    | some b =>
      simp only [hb] at hk ⊢
      cases hal : v.aliases b with
      | none => simp [hv.self]
      | some al =>
        cases al with
        | nil => simp [hv.self]
        | cons a rest =>
          simp only [hal] at hk ⊢
          have := hk orig rfl
          rw [this]
          cases hft : t.fetched <;> simp [hv.self, hft]

/-- Non-vacuity: an option-scid-alias channel 11 with alias 16000001 (confirmed), current update
    digest 7: named by the alias the failure carries the update re-labelled 16000001, named by its
    real scid it carries it unchanged; the incoming direction re-labels with the first alias; an
    unknown id gets nothing from `failAliasUpdate` and the link's own lookup is used. -/
example :
    let v : AliasView := {
      isAlias := fun k => k ≥ 16000000
      aliasToReal := fun k => if k = 16000001 then some 11 else none
      baseIndex := fun k => if k = 16000001 ∨ k = 11 then some 11 else none
      aliases := fun k => if k = 11 then some [16000001] else none
      fetch := fun k => if k = 11 then some ⟨11, 257, 7⟩ else none
      signOk := true }
    let t : Cand := { scid := 11, eligible := true, p := ⟨0, 0, 0, 0, 0⟩, c := ⟨0, 0, 0⟩,
                      fetched := some ⟨11, 257, 7⟩ }
    ViewFor v 16000001 t ∧ ViewFor v 11 t ∧
    Gen.embeddedUpdate v 11 false 16000001 = some ⟨16000001, 257, 7⟩ ∧
    Gen.embeddedUpdate v 11 false 11 = some ⟨11, 257, 7⟩ ∧
    Gen.embeddedUpdate v 11 true 0 = some ⟨16000001, 257, 7⟩ ∧
    Gen.failAliasUpdate v 77 false = none ∧
    Gen.embeddedUpdate v 11 false 77 = some ⟨11, 257, 7⟩ := by
  refine ⟨⟨by decide, ?_, by decide, rfl⟩, ⟨by decide, ?_, by decide, rfl⟩, by decide, by decide,
    by decide, by decide, by decide⟩
  · intro k hk
    have : k = 11 := by
      simp [Gen.failAliasFetchKey] at hk; exact hk.symm
    subst this; decide
  · intro k hk
    have : k = 11 := by
      simp [Gen.failAliasFetchKey] at hk; exact hk.symm
    subst this; decide

/-- Non-vacuity of `forward_add_meets_policy` / `forward_after_policy_update`: bob has the
    incoming channel 1 (inbound discount −5 msat; its own outgoing policy would reject everything)
    and the outgoing channel 2 (base fee 1000 msat, delta 40).  An add of 100 995 msat / expiry 150
    whose payload asks for 100 000 msat / expiry 110 over channel 2 at height 100 is forwarded; one
    msat less is failed with channel 2's `fee_insufficient`; after raising channel 2's base fee by
    one msat through `UpdateForwardingPolicies` the first add is failed as well. -/
example :
    let l1 : SwLink := { cand := { scid := 1, eligible := true, p := ⟨1000000000, 1, 1000000, 0, 1500⟩,
                                   c := ⟨3, 2016, 5000000000⟩, peer := 1 },
                         chanPoint := 101, inBase := -5, inRate := 0 }
    let l2 : SwLink := { cand := { scid := 2, eligible := true, p := ⟨1000, 0, 1000, 0, 40⟩,
                                   c := ⟨3, 2016, 5000000000⟩, peer := 2 },
                         chanPoint := 102, inBase := 777, inRate := 9 }
    let fwd : FwdInfo := ⟨2, 100000, 110⟩
    let upd : Nat → Option FullPolicy := fun k => if k = 102 then some ⟨⟨1000, 0, 1001, 0, 40⟩, 0, 0⟩ else none
    Gen.forwardAdd false false none [l1, l2] l1 ⟨0, 100995, 150⟩ fwd 100 0 = .forward 2 ∧
    Gen.forwardAdd false false none [l1, l2] l1 ⟨0, 100994, 150⟩ fwd 100 0
      = .fail (.link .feeInsufficient) ∧
    Gen.forwardAdd false false none (Gen.updateForwardingPolicies upd [l1, l2]) (updLink upd l1)
      ⟨0, 100995, 150⟩ fwd 100 0 = .fail (.link .feeInsufficient) ∧
    DomWide l2.cand.p l2.cand.c (wireInputs l1 ⟨0, 100995, 150⟩ fwd 100) := by
  decide

/-! ## The decision with an aux traffic shaper -/

/-- the cfg with another bandwidth -/
def Cfg.withBw (c : Cfg) (bw : Nat) : Cfg := { c with bandwidth := bw }

private theorem effPolicy'_fields (aux : Option Aux) (p : Policy) :
    (effPolicy' aux p).baseFee = p.baseFee ∧ (effPolicy' aux p).feeRate = p.feeRate ∧
    (effPolicy' aux p).timeLockDelta = p.timeLockDelta := by
  unfold effPolicy'
  cases aux with
  | none => exact ⟨rfl, rfl, rfl⟩
  | some a => cases hc : a.isCustom <;> simp [hc]

private theorem plain_eff (aux : Option Aux) (p : Policy) (c : Cfg) (i : Inputs) (bw : Nat) :
    Gen.checkHtlcForward (effPolicy' aux p) (c.withBw bw) i =
      (if i.incoming < i.outgoing ∨ Gen.actualFee i < Gen.expectedTotal p i then .feeInsufficient
       else match Gen.validateHtlcAmountAux aux p i.outgoing with
        | .accept =>
          if i.expOut ≤ (i.height + c.rejectDelta) % 4294967296 then .expiryTooSoon
          else if i.expOut > (c.maxCltv + i.height) % 4294967296 then .expiryTooFar
          else if i.outgoing > bw then .insufficientBandwidth
          else
            let incomingDelta := if i.expIn ≥ i.expOut then i.expIn - i.expOut else 0
            if i.expIn < i.expOut ∨ incomingDelta < p.timeLockDelta then .incorrectCltvExpiry
            else if incomingDelta > c.maxCltv then .deltaTooFar
            else .accept
        | x => x) := by
  have hexp : Gen.expectedTotal (effPolicy' aux p) i = Gen.expectedTotal p i := by
    unfold Gen.expectedTotal Gen.inFee Gen.outFee
    rw [(effPolicy'_fields aux p).1, (effPolicy'_fields aux p).2.1]
  have hval : Gen.validateHtlcAmount (effPolicy' aux p) i.outgoing =
      Gen.validateHtlcAmountAux aux p i.outgoing := by
    unfold effPolicy' Gen.validateHtlcAmountAux
    cases aux with
    | none => rfl
    | some a =>
      cases hc : a.isCustom
      · simp [hc]
      · simp [hc, Gen.validateHtlcAmount]
  have htld : (effPolicy' aux p).timeLockDelta = p.timeLockDelta := (effPolicy'_fields aux p).2.2
  unfold Gen.checkHtlcForward Gen.canSendHtlc
  rw [hexp, hval, htld]
  simp only [Cfg.withBw]
  by_cases hfee : i.incoming < i.outgoing ∨ Gen.actualFee i < Gen.expectedTotal p i
  · simp [hfee]
  · simp only [hfee, if_false]
    cases hv : Gen.validateHtlcAmountAux aux p i.outgoing <;> simp only []
    by_cases h1 : i.expOut ≤ (i.height + c.rejectDelta) % 4294967296
    · simp [h1]
    · simp only [h1, if_false]
      by_cases h2 : i.expOut > (c.maxCltv + i.height) % 4294967296
      · simp [h2]
      · simp only [h2, if_false]
        by_cases h3 : i.outgoing > bw
        · simp [h3]
        · simp [h3]

private theorem aux_unfold (aux : Option Aux) (p : Policy) (c : Cfg) (i : Inputs) :
    Gen.checkHtlcForwardAux aux p c i =
      (if i.incoming < i.outgoing ∨ Gen.actualFee i < Gen.expectedTotal p i then .v .feeInsufficient
       else match Gen.validateHtlcAmountAux aux p i.outgoing with
        | .accept =>
          if i.expOut ≤ (i.height + c.rejectDelta) % 4294967296 then .v .expiryTooSoon
          else if i.expOut > (c.maxCltv + i.height) % 4294967296 then .v .expiryTooFar
          else match Gen.auxBandwidth aux c.bandwidth with
            | none => .auxError
            | some bw =>
              if i.outgoing > bw then .v .insufficientBandwidth
              else
                let incomingDelta := if i.expIn ≥ i.expOut then i.expIn - i.expOut else 0
                if i.expIn < i.expOut ∨ incomingDelta < p.timeLockDelta then .v .incorrectCltvExpiry
                else if incomingDelta > c.maxCltv then .v .deltaTooFar
                else .v .accept
        | x => .v x) := by
  unfold Gen.checkHtlcForwardAux Gen.canSendHtlcAux
  by_cases hfee : i.incoming < i.outgoing ∨ Gen.actualFee i < Gen.expectedTotal p i
  · simp [hfee]
  · simp only [hfee, if_false]
    cases hv : Gen.validateHtlcAmountAux aux p i.outgoing <;> simp only []
    by_cases h1 : i.expOut ≤ (i.height + c.rejectDelta) % 4294967296
    · simp [h1]
    · simp only [h1, if_false]
      by_cases h2 : i.expOut > (c.maxCltv + i.height) % 4294967296
      · simp [h2]
      · simp only [h2, if_false]
        cases hb : Gen.auxBandwidth aux c.bandwidth with
        | none => simp
        | some bw =>
          simp only []
          by_cases h3 : i.outgoing > bw
          · simp [h3]
          · simp [h3]

/-- **aux_reduces_to_plain**: when the shaper answers without error, the decision is the plain
    `CheckHtlcForward` run with the bandwidth that applies (the shaper's if it handles the channel,
    the link's otherwise) and, for an HTLC the shaper calls custom, without the min/max HTLC
    limits — so every theorem about the plain decision carries over with these two substitutions. -/
theorem aux_reduces_to_plain (aux : Option Aux) (p : Policy) (c : Cfg) (i : Inputs) (bw : Nat)
    (h : Gen.auxBandwidth aux c.bandwidth = some bw) :
    Gen.checkHtlcForwardAux aux p c i = .v (Gen.checkHtlcForward (effPolicy' aux p) (c.withBw bw) i) := by
  rw [aux_unfold, plain_eff, h]
  by_cases hfee : i.incoming < i.outgoing ∨ Gen.actualFee i < Gen.expectedTotal p i
  · simp [hfee]
  · simp only [hfee, if_false]
    cases hv : Gen.validateHtlcAmountAux aux p i.outgoing <;> simp only []
    split
    · rfl
    · split
      · rfl
      · split
        · rfl
        · repeat (first | rfl | split)

/-- **aux_absent**: without a shaper (the default build), and with a shaper that neither calls
    the HTLC custom nor handles the channel, the decision is the plain one. -/
theorem aux_absent (p : Policy) (c : Cfg) (i : Inputs) :
    Gen.checkHtlcForwardAux none p c i = .v (Gen.checkHtlcForward p c i) ∧
    ∀ a : Aux, a.isCustom = false → a.handle = some false →
      Gen.checkHtlcForwardAux (some a) p c i = .v (Gen.checkHtlcForward p c i) := by
  constructor
  · have := aux_reduces_to_plain none p c i c.bandwidth rfl
    simpa [effPolicy', Cfg.withBw] using this
  · intro a hc hh
    have := aux_reduces_to_plain (some a) p c i c.bandwidth (by simp [Gen.auxBandwidth, hh])
    simpa [effPolicy', Cfg.withBw, hc] using this

private theorem domWide_eff (aux : Option Aux) (p : Policy) (c : Cfg) (i : Inputs) (bw : Nat)
    (h : DomWide p c i) : DomWide (effPolicy' aux p) (c.withBw bw) i := by
  have hp : (effPolicy' aux p).baseFee = p.baseFee ∧ (effPolicy' aux p).feeRate = p.feeRate :=
    ⟨(effPolicy'_fields aux p).1, (effPolicy'_fields aux p).2.1⟩
  unfold DomWide WIn WRateMul WInBase WInMulLo WInMulHi WTotal WSoon WFar Spec.requiredFee Spec.outFee
    Cfg.withBw at *
  rw [hp.1, hp.2]
  exact h

/-- **aux_accept_sound**: an HTLC accepted under a shaper satisfies, in exact integers, the fee
    rule, both expiry rules, both expiry-gap rules, the bandwidth rule for the bandwidth that
    applies (which the shaper must have delivered: no acceptance after a shaper error), and the
    min/max HTLC rules unless the shaper calls the HTLC custom. -/
theorem aux_accept_sound (aux : Option Aux) (p : Policy) (c : Cfg) (i : Inputs)
    (hd : DomWide p c i) (h : Gen.checkHtlcForwardAux aux p c i = .v .accept) :
    ∃ bw, Gen.auxBandwidth aux c.bandwidth = some bw ∧
      Spec.AllOk (effPolicy' aux p) (c.withBw bw) i ∧
      Spec.FeeOk p i ∧ i.outgoing ≤ bw ∧
      ((aux.map (·.isCustom)).getD false = false → Spec.MinOk p i.outgoing ∧ Spec.MaxOk p i.outgoing) := by
  cases hb : Gen.auxBandwidth aux c.bandwidth with
  | none =>
    exfalso
    rw [aux_unfold, hb] at h
    by_cases hfee : i.incoming < i.outgoing ∨ Gen.actualFee i < Gen.expectedTotal p i
    · simp [hfee] at h
    · simp only [hfee, if_false] at h
      cases hv : Gen.validateHtlcAmountAux aux p i.outgoing <;> simp only [hv] at h <;>
        try (simp at h)
      split at h
      · simp at h
      · split at h <;> simp at h
  | some bw =>
    have hr := aux_reduces_to_plain aux p c i bw hb
    rw [hr] at h
    have hacc : Gen.checkHtlcForward (effPolicy' aux p) (c.withBw bw) i = .accept := by
      simpa using h
    have hall := ((gen_accept_iff_rules_wide _ _ i (Or.inr (domWide_eff aux p c i bw hd))).1).mp hacc
    refine ⟨bw, rfl, hall, ?_, hall.2.1.2.2.2.2, ?_⟩
    · have hf := hall.1
      unfold Spec.FeeOk Spec.requiredFee Spec.outFee at hf ⊢
      have hp : (effPolicy' aux p).baseFee = p.baseFee ∧ (effPolicy' aux p).feeRate = p.feeRate :=
        ⟨(effPolicy'_fields aux p).1, (effPolicy'_fields aux p).2.1⟩
      rw [hp.1, hp.2] at hf
      exact hf
    · intro hnc
      have hpe : effPolicy' aux p = p := by
        unfold effPolicy'
        cases aux with
        | none => rfl
        | some a =>
          simp only [Option.map_some, Option.getD_some] at hnc
          simp [hnc]
      rw [hpe] at hall
      exact ⟨hall.2.1.1, hall.2.1.2.1⟩

/-- **aux_reject_names_violated_rule**: a rejection under a shaper is the shaper's own error
    (only when the shaper did fail) or a verdict of the plain decision run with the substitutions
    of `aux_reduces_to_plain` — hence, on the domain, names a rule violated in exact integers
    (for the bandwidth that applies; when the shaper failed, a rule checked before the bandwidth). -/
theorem aux_reject_names_violated_rule (aux : Option Aux) (p : Policy) (c : Cfg) (i : Inputs)
    (hd : DomWide p c i) :
    (Gen.checkHtlcForwardAux aux p c i = .auxError →
      Gen.auxBandwidth aux c.bandwidth = none ∧ aux ≠ none) ∧
    ∀ v, Gen.checkHtlcForwardAux aux p c i = .v v → v ≠ .accept →
      ∃ bw, (Gen.auxBandwidth aux c.bandwidth = some bw ∨
             (Gen.auxBandwidth aux c.bandwidth = none ∧ bw = i.outgoing)) ∧
        Spec.Violated (effPolicy' aux p) (c.withBw bw) i v := by
  constructor
  · intro h
    cases hb : Gen.auxBandwidth aux c.bandwidth with
    | some bw => rw [aux_reduces_to_plain aux p c i bw hb] at h; cases h
    | none =>
      refine ⟨rfl, ?_⟩
      intro hn; subst hn; simp [Gen.auxBandwidth] at hb
  · intro v h hne
    cases hb : Gen.auxBandwidth aux c.bandwidth with
    | some bw =>
      rw [aux_reduces_to_plain aux p c i bw hb] at h
      have hv : Gen.checkHtlcForward (effPolicy' aux p) (c.withBw bw) i = v := by simpa using h
      refine ⟨bw, Or.inl rfl, ?_⟩
      have := (gen_accept_iff_rules_wide _ _ i (Or.inr (domWide_eff aux p c i bw hd))).2 v hv hne
      exact this
    | none =>
      refine ⟨i.outgoing, Or.inr ⟨rfl, rfl⟩, ?_⟩
      have hv : Gen.checkHtlcForward (effPolicy' aux p) (c.withBw i.outgoing) i = v := by
        rw [aux_unfold, hb] at h
        rw [plain_eff]
        by_cases hfee : i.incoming < i.outgoing ∨ Gen.actualFee i < Gen.expectedTotal p i
        · simp only [hfee, if_true] at h ⊢; cases h; rfl
        · simp only [hfee, if_false] at h ⊢
          cases hval : Gen.validateHtlcAmountAux aux p i.outgoing <;> simp only [hval] at h ⊢ <;>
            try (cases h; rfl)
          split at h
          · simp only [*, if_true]; cases h; rfl
          · split at h
            · simp only [*, if_true, if_false]; cases h; rfl
            · cases h
      exact (gen_accept_iff_rules_wide _ _ i (Or.inr (domWide_eff aux p c i i.outgoing hd))).2 v hv hne

/-- Non-vacuity: link bandwidth 5 000 000, HTLC of 6 000 000 msat paying exactly its fee.  Plain:
    insufficient bandwidth.  A shaper handling the channel with 6 000 000: accepted; with
    5 999 999: insufficient bandwidth; failing: the shaper's error; an HTLC above max_htlc is
    accepted only when the shaper calls it custom. -/
example :
    let p : Policy := ⟨1000, 7000000, 1000, 0, 40⟩
    let c : Cfg := ⟨3, 2016, 5000000⟩
    let i : Inputs := ⟨6001000, 6000000, 150, 110, 100, 0, 0⟩
    let i' : Inputs := ⟨7001001, 7000001, 150, 110, 100, 0, 0⟩
    DomWide p c i ∧
    Gen.checkHtlcForwardAux none p c i = .v .insufficientBandwidth ∧
    Gen.checkHtlcForwardAux (some ⟨false, some true, some 6000000⟩) p c i = .v .accept ∧
    Gen.checkHtlcForwardAux (some ⟨false, some true, some 5999999⟩) p c i = .v .insufficientBandwidth ∧
    Gen.checkHtlcForwardAux (some ⟨false, some true, none⟩) p c i = .auxError ∧
    Gen.checkHtlcForwardAux (some ⟨false, none, some 6000000⟩) p c i = .auxError ∧
    Gen.checkHtlcForwardAux (some ⟨false, some true, some 9000000⟩) p c i' = .v .htlcExceedsMax ∧
    Gen.checkHtlcForwardAux (some ⟨true, some true, some 9000000⟩) p c i' = .v .accept := by
  decide

end LndModel.C09
