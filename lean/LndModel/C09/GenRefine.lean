/-
C09 — refinement of the regenerated definitions (LndModel.Gen.C09, produced by tools/go2lean from
htlcswitch/link.go `ExpectedFee` and graph/db/models/inbound_fee.go `InboundFee.CalcFee`) to the
hand-written model functions `C09.Gen.expectedFee` / `C09.Gen.calcFee`, for ALL inputs of the Go types.
-/
import LndModel.Gen.C09
import LndModel.C09.Model

namespace LndModel.C09.GenRefine
open LndModel.Gen LndModel.Gen.GoInt

/-- `maxFeeRate` of the code is the model's clamp bound. -/
theorem maxFeeRate_refines : Gen.C09.maxFeeRate = C09.maxFeeRate := by
  simp only [Gen.C09.maxFeeRate, C09.maxFeeRate]

/-- `feeRateParts` of the code is the model's divisor. -/
theorem feeRateParts_refines : Gen.C09.feeRateParts = (C09.feeRateParts : Int) := by
  simp only [Gen.C09.feeRateParts, C09.feeRateParts]; rfl

/-- `ExpectedFee` (uint64 arithmetic): for all `uint64` base, rate and amount the regenerated
    definition is the model's `expectedFee` (no range hypothesis is needed: unsigned values are
    naturals, and both sides wrap). -/
theorem ExpectedFee_refines (base rate amt : Nat) :
    Gen.C09.ExpectedFee base rate amt = (C09.Gen.expectedFee base rate amt : Nat) := by
  simp only [Gen.C09.ExpectedFee, C09.Gen.expectedFee, wrapU64]
  first
  | omega
  | (simp only [Int.mul_comm (rate : Int) (amt : Int)]; omega)  -- operands of the product commuted

/-- `InboundFee.CalcFee` (int64 arithmetic, truncating division, rate clamp): for all `int32`
    base/rate and every `uint64` amount the regenerated definition is the model's `calcFee`. -/
theorem CalcFee_refines (ib ir : Int) (amt : Nat)
    (_hb : IsI32 ib) (_hr : IsI32 ir) (_ha : (amt : Int) < 18446744073709551616) :
    Gen.C09.CalcFee ib ir amt = C09.Gen.calcFee ib ir amt := by
  by_cases h1 : ir > 10000000 <;> by_cases h2 : ir < -10000000 <;>
    first
    | omega
    | simp only [Gen.C09.CalcFee, C09.Gen.calcFee, C09.clampRate, C09.toI64, C09.wrapI64, GoInt.wrapI64,
        h1, h2, if_true, if_false]

/-- Non-vacuity: the hypotheses of `CalcFee_refines` are satisfiable, on an input where the clamp
    and the truncation towards zero both matter. -/
example : Gen.C09.CalcFee (-5) (-20000000) 1999999 = C09.Gen.calcFee (-5) (-20000000) 1999999 :=
  CalcFee_refines (-5) (-20000000) 1999999 (by unfold IsI32; omega) (by unfold IsI32; omega) (by omega)

example : Gen.C09.CalcFee (-5) (-20000000) 1999999 = -19999995 := by decide
/-- truncation towards zero (floor would give -19) -/
example : Gen.C09.CalcFee (-5) (-7) 1999999 = -18 := by decide

/-- Transfer: on the exact domain of the C09 theorems the regenerated `ExpectedFee` is the
    exact-integer outbound fee `Spec.outFee`. -/
theorem ExpectedFee_exact (p : Policy) (amt : Nat)
    (h1 : amt * p.feeRate < 18446744073709551616)
    (h2 : p.baseFee + amt * p.feeRate / 1000000 < 18446744073709551616) :
    Gen.C09.ExpectedFee p.baseFee p.feeRate amt = (Spec.outFee p amt : Nat) := by
  rw [ExpectedFee_refines]
  simp only [C09.Gen.expectedFee, Spec.outFee]
  rw [Nat.mod_eq_of_lt h1, Nat.mod_eq_of_lt h2]

example : Gen.C09.ExpectedFee 1000 100 5000000 = 1500 := by decide

end LndModel.C09.GenRefine
