/-
C09 — property theorems (see DESIGN.md §2 C09).  Helper lemmas live in Lemmas.lean.

`Spec.*` is the decision over exact unbounded integers, `Gen.*` the Go fixed-width
arithmetic of `CheckHtlcForward` / `CheckHtlcTransit` / `ExpectedFee` / `InboundFee.CalcFee`
(tied to the code by the correspondence check on every run).

  accept_sound / accept_complete / reject_names_violated_rule / never_loses_money   (Spec, all inputs)
  gen_refines_spec                                (Gen = Spec on the explicit domain `Dom`)
  gen_accept_iff_rules / gen_reject_names_violated_rule   (the same three facts for the Go arithmetic on `Dom`)
  gen_never_loses_money, gen_accept_sound_nowrap, gen_reject_names_nowrap   (Go arithmetic, ALL inputs, even wrapped)
  planned_dom_* / wrap_*                          (witnesses: outside `Dom` wrap-around changes the verdict)
  gen_refines_spec_wide, domWide_*_necessary, inbound_fee_exact_iff   (the sharp domain `DomWide`)
  final_wire_* / transit_final_wire_*             (the failure as sent upstream: code, embedded update)
  mapped_* / channel_disabled_iff_forwards_disabled / local_mapped_link_accepts   (switch: alias lookup, RejectHTLC)
-/
import LndModel.C09.Lemmas

namespace LndModel.C09

/-! ## The exact decision: accept ⇔ all rules, reject ⇒ named rule violated -/

/-- Locally sourced HTLC: accepted iff every transit rule holds. -/
theorem transit_accept_iff (p : Policy) (c : Cfg) (amt t h : Nat) :
    Spec.checkHtlcTransit p c amt t h = .accept ↔ Spec.TransitOk p c amt t h := by
  unfold Spec.checkHtlcTransit Spec.TransitOk
  by_cases h1 : Spec.MinOk p amt <;> by_cases h2 : Spec.MaxOk p amt <;>
    by_cases h3 : Spec.NotTooSoon c t h <;> by_cases h4 : Spec.NotTooFar c t h <;>
    by_cases h5 : Spec.BwOk c amt <;> simp [h1, h2, h3, h4, h5]

/-- Locally sourced HTLC: every failure verdict names a rule that is violated. -/
theorem transit_reject_names_violated_rule (p : Policy) (c : Cfg) (amt t h : Nat) (v : Verdict)
    (hv : Spec.checkHtlcTransit p c amt t h = v) (hne : v ≠ .accept) :
    Spec.TransitViolated p c amt t h v := by
  subst hv
  unfold Spec.checkHtlcTransit at hne ⊢
  by_cases h1 : Spec.MinOk p amt <;> by_cases h2 : Spec.MaxOk p amt <;>
    by_cases h3 : Spec.NotTooSoon c t h <;> by_cases h4 : Spec.NotTooFar c t h <;>
    by_cases h5 : Spec.BwOk c amt <;> simp [h1, h2, h3, h4, h5, Spec.TransitViolated] at hne ⊢

/-- **accept_sound** and **accept_complete** in one statement: the exact decision accepts iff
    the outgoing amount does not exceed the incoming one, the difference covers
    base + ⌊out·rate/10^6⌋ + inbound fee/discount, min ≤ out, (max = 0 ∨ out ≤ max), out ≤ bandwidth,
    height + rejectDelta < expiry_out ≤ height + maxCltv, timeLockDelta ≤ expiry_in − expiry_out ≤ maxCltv. -/
theorem accept_iff_rules (p : Policy) (c : Cfg) (i : Inputs) :
    Spec.checkHtlcForward p c i = .accept ↔ Spec.AllOk p c i := by
  unfold Spec.checkHtlcForward Spec.AllOk
  rw [← transit_accept_iff]
  by_cases hf : Spec.FeeOk p i
  · simp only [hf, not_true, if_false, true_and]
    cases htr : Spec.checkHtlcTransit p c i.outgoing i.expOut i.height <;>
      by_cases h1 : Spec.DeltaOk p i <;> by_cases h2 : Spec.DeltaMaxOk c i <;> simp [h1, h2]
  · simp [hf]

/-- **accept_sound**: acceptance implies every rule, spelled out. -/
theorem accept_sound (p : Policy) (c : Cfg) (i : Inputs)
    (h : Spec.checkHtlcForward p c i = .accept) :
    i.outgoing ≤ i.incoming ∧
    (i.incoming : Int) - (i.outgoing : Int) ≥
      (Spec.outFee p i.outgoing : Int)
        + Spec.inFee i.inBase i.inRate (i.outgoing + Spec.outFee p i.outgoing) ∧
    p.minHtlc ≤ i.outgoing ∧ (p.maxHtlc = 0 ∨ i.outgoing ≤ p.maxHtlc) ∧
    i.outgoing ≤ c.bandwidth ∧
    i.height + c.rejectDelta < i.expOut ∧ i.expOut ≤ i.height + c.maxCltv ∧
    (p.timeLockDelta : Int) ≤ (i.expIn : Int) - (i.expOut : Int) ∧
    (i.expIn : Int) - (i.expOut : Int) ≤ (c.maxCltv : Int) := by
  obtain ⟨⟨h1, h2⟩, ⟨h3, h4, h5, h6, h7⟩, h8, h9⟩ := (accept_iff_rules p c i).mp h
  unfold Spec.requiredFee at h2
  exact ⟨h1, by omega, h3, h4, h7, h5, h6, h8, h9⟩

/-- **accept_complete**: if every rule holds the HTLC is accepted. -/
theorem accept_complete (p : Policy) (c : Cfg) (i : Inputs) (h : Spec.AllOk p c i) :
    Spec.checkHtlcForward p c i = .accept :=
  (accept_iff_rules p c i).mpr h

/-- **reject_names_violated_rule**: every failure verdict names a rule that is really violated. -/
theorem reject_names_violated_rule (p : Policy) (c : Cfg) (i : Inputs) (v : Verdict)
    (hv : Spec.checkHtlcForward p c i = v) (hne : v ≠ .accept) : Spec.Violated p c i v := by
  subst hv
  unfold Spec.checkHtlcForward at hne ⊢
  by_cases hf : Spec.FeeOk p i
  · simp only [hf, not_true, if_false] at hne ⊢
    have ht := transit_reject_names_violated_rule p c i.outgoing i.expOut i.height _ rfl
    cases htr : Spec.checkHtlcTransit p c i.outgoing i.expOut i.height with
    | accept =>
      simp only [htr] at hne ⊢
      by_cases h1 : Spec.DeltaOk p i <;> by_cases h2 : Spec.DeltaMaxOk c i <;>
        simp [h1, h2, Spec.Violated] at hne ⊢
    | feeInsufficient => rw [htr] at ht; exact (ht (by decide)).elim
    | incorrectCltvExpiry => rw [htr] at ht; exact (ht (by decide)).elim
    | deltaTooFar => rw [htr] at ht; exact (ht (by decide)).elim
    | amountBelowMinimum => rw [htr] at ht; exact ht (by decide)
    | htlcExceedsMax => rw [htr] at ht; exact ht (by decide)
    | expiryTooSoon => rw [htr] at ht; exact ht (by decide)
    | expiryTooFar => rw [htr] at ht; exact ht (by decide)
    | insufficientBandwidth => rw [htr] at ht; exact ht (by decide)
  · simp [hf, Spec.Violated]

/-- **never_loses_money** (exact decision): acceptance implies incoming ≥ outgoing, and the
    margin covers the required fee whenever that fee is positive. -/
theorem never_loses_money (p : Policy) (c : Cfg) (i : Inputs)
    (h : Spec.checkHtlcForward p c i = .accept) :
    i.outgoing ≤ i.incoming ∧
      (i.incoming : Int) - (i.outgoing : Int) ≥ max 0 (Spec.requiredFee p i) := by
  obtain ⟨⟨h1, h2⟩, -⟩ := (accept_iff_rules p c i).mp h
  refine ⟨h1, ?_⟩
  rcases Int.le_total 0 (Spec.requiredFee p i) with h0 | h0
  · rw [Int.max_eq_right h0]; exact h2
  · rw [Int.max_eq_left h0]; omega

/-- The separate guard `incoming < outgoing` is necessary: with a discount the fee inequality
    alone can hold although money would be lost (−100 % inbound rate, out = 1000, in = 0). -/
theorem fee_inequality_alone_insufficient :
    ∃ (p : Policy) (i : Inputs), Spec.requiredFee p i ≤ (i.incoming : Int) - (i.outgoing : Int) ∧
      i.incoming < i.outgoing :=
  ⟨⟨0, 0, 0, 0, 40⟩, ⟨0, 1000, 140, 100, 10, 0, -1000000⟩, by decide⟩

/-! ## The Go arithmetic -/

/-- **gen_never_loses_money**: for ALL inputs (no domain restriction, wrapped or not) the Go
    decision accepts only if incoming ≥ outgoing. -/
theorem gen_never_loses_money (p : Policy) (c : Cfg) (i : Inputs)
    (h : Gen.checkHtlcForward p c i = .accept) : i.outgoing ≤ i.incoming := by
  unfold Gen.checkHtlcForward at h
  by_cases hlt : i.incoming < i.outgoing
  · simp [hlt] at h
  · omega

/-- `ExpectedFee` is exact on the domain (amount ≤ 10^13 msat, rate ≤ 10^6 ppm, base < 2^32). -/
theorem expected_fee_refines (p : Policy) (amt : Nat) (ha : amt ≤ 10000000000000)
    (hr : p.feeRate ≤ 1000000) (hb : p.baseFee < 4294967296) :
    Gen.expectedFee p.baseFee p.feeRate amt = Spec.outFee p amt :=
  expectedFee_exact ha hr hb

/-- `InboundFee.CalcFee` is exact whenever |clamp(rate)|·amt < 2^63. -/
theorem inbound_fee_refines (ib ir : Int) (amt : Nat) (hib : IsI32 ib)
    (hw : (clampRate ir).natAbs * amt < 9223372036854775808) (ha : amt < 9223372036854775808) :
    Gen.calcFee ib ir amt = Spec.inFee ib ir amt :=
  calcFee_exact hib ha hw

/-- **gen_refines_spec**: on `Dom` the Go decision equals the exact decision — no wrap-around
    affects the verdict. -/
theorem gen_refines_spec (p : Policy) (c : Cfg) (i : Inputs) (h : Dom p c i) :
    Gen.checkHtlcForward p c i = Spec.checkHtlcForward p c i := by
  have hfee := gen_feeCond_iff h
  obtain ⟨⟨_, _, _, _, _, _, hh, _, heo, _, hrj, hmc⟩, _⟩ := h
  have htr : Gen.canSendHtlc p c i.outgoing i.expOut i.height
      = Spec.checkHtlcTransit p c i.outgoing i.expOut i.height :=
    gen_canSend_eq ⟨hh, heo, hrj, hmc⟩
  have hd := gen_delta_eq p c i
  unfold Gen.checkHtlcForward Spec.checkHtlcForward
  rw [htr]
  by_cases hf : Spec.FeeOk p i
  · have hn : ¬ (i.incoming < i.outgoing ∨ Gen.actualFee i < Gen.expectedTotal p i) := by
      rw [hfee]; exact fun g => g hf
    simp only [hn, hf, if_false, not_true]
    cases Spec.checkHtlcTransit p c i.outgoing i.expOut i.height <;> first | rfl | exact hd
  · have hn : (i.incoming < i.outgoing ∨ Gen.actualFee i < Gen.expectedTotal p i) := hfee.mpr hf
    simp only [hn, hf, if_true, not_false_eq_true]

/-- `CheckHtlcTransit` equals the exact decision for heights/expiries/deltas < 2^31. -/
theorem gen_transit_refines_spec (p : Policy) (c : Cfg) (amt t h : Nat) (hd : DomTransit c t h) :
    Gen.checkHtlcTransit p c amt t h = Spec.checkHtlcTransit p c amt t h :=
  gen_canSend_eq hd

/-- On `Dom` the Go decision accepts iff all exact rules hold. -/
theorem gen_accept_iff_rules (p : Policy) (c : Cfg) (i : Inputs) (h : Dom p c i) :
    Gen.checkHtlcForward p c i = .accept ↔ Spec.AllOk p c i := by
  rw [gen_refines_spec p c i h]; exact accept_iff_rules p c i

/-- On `Dom` every failure returned by the Go decision names a rule violated in exact integers. -/
theorem gen_reject_names_violated_rule (p : Policy) (c : Cfg) (i : Inputs) (h : Dom p c i)
    (v : Verdict) (hv : Gen.checkHtlcForward p c i = v) (hne : v ≠ .accept) :
    Spec.Violated p c i v := by
  rw [gen_refines_spec p c i h] at hv; exact reject_names_violated_rule p c i v hv hne

/-- The planned domain is enough for HTLCs up to 4.5 BTC … -/
theorem dom_of_small_amount (p : Policy) (c : Cfg) (i : Inputs) (h : DomPlanned p c i)
    (hs : i.outgoing ≤ 450000000000) : Dom p c i := by
  refine ⟨h, ?_⟩
  obtain ⟨_, hout, hb, hr, _, _, _⟩ := h
  unfold InboundNoWrap
  have hc := clampRate_bounds i.inRate
  have hm : i.outgoing * p.feeRate ≤ 450000000000 * 1000000 := Nat.mul_le_mul hs hr
  have hx : i.outgoing + Spec.outFee p i.outgoing ≤ 904294967296 := by
    unfold Spec.outFee
    generalize i.outgoing * p.feeRate = m at *
    omega
  have hn : (clampRate i.inRate).natAbs ≤ 10000000 := by omega
  calc (clampRate i.inRate).natAbs * (i.outgoing + Spec.outFee p i.outgoing)
      ≤ 10000000 * 904294967296 := Nat.mul_le_mul hn hx
    _ < 9223372036854775808 := by decide

/-- … and for any amount up to 10^13 msat when the inbound rate is within ±46 %. -/
theorem dom_of_moderate_inbound_rate (p : Policy) (c : Cfg) (i : Inputs) (h : DomPlanned p c i)
    (hr1 : -460000 ≤ i.inRate) (hr2 : i.inRate ≤ 460000) : Dom p c i := by
  refine ⟨h, ?_⟩
  obtain ⟨_, hout, hb, hr, _, _, _⟩ := h
  unfold InboundNoWrap
  have hofle := spec_outFee_le hout hr hb
  have hcl : clampRate i.inRate = i.inRate := clampRate_id (by omega) (by omega)
  have hn : (clampRate i.inRate).natAbs ≤ 460000 := by rw [hcl]; omega
  have hx : i.outgoing + Spec.outFee p i.outgoing ≤ 20004294967296 := by omega
  calc (clampRate i.inRate).natAbs * (i.outgoing + Spec.outFee p i.outgoing)
      ≤ 460000 * 20004294967296 := Nat.mul_le_mul hn hx
    _ < 9223372036854775808 := by decide

/-- Rules whose Go evaluation involves no wrapping arithmetic hold on acceptance for ALL inputs. -/
theorem gen_accept_sound_nowrap (p : Policy) (c : Cfg) (i : Inputs)
    (h : Gen.checkHtlcForward p c i = .accept) :
    i.outgoing ≤ i.incoming ∧ Spec.MinOk p i.outgoing ∧ Spec.MaxOk p i.outgoing ∧
      Spec.BwOk c i.outgoing ∧ Spec.DeltaOk p i ∧ Spec.DeltaMaxOk c i := by
  have hm := gen_never_loses_money p c i h
  unfold Gen.checkHtlcForward at h
  by_cases hfee : i.incoming < i.outgoing ∨ Gen.actualFee i < Gen.expectedTotal p i
  · simp [hfee] at h
  · simp only [hfee, if_false] at h
    have hd := gen_delta_eq p c i
    cases hcs : Gen.canSendHtlc p c i.outgoing i.expOut i.height <;> simp only [hcs] at h <;>
      try (exact absurd h (by decide))
    rw [hd] at h
    have hdelta : Spec.DeltaOk p i ∧ Spec.DeltaMaxOk c i := by
      by_cases h1 : Spec.DeltaOk p i <;> by_cases h2 : Spec.DeltaMaxOk c i <;> simp [h1, h2] at h ⊢
    obtain ⟨a1, a2, a3⟩ := gen_canSend_accept hcs
    exact ⟨hm, a1, a2, a3, hdelta.1, hdelta.2⟩

/-- Failures whose Go evaluation involves no wrapping arithmetic name a violated rule for ALL inputs. -/
theorem gen_reject_names_nowrap (p : Policy) (c : Cfg) (i : Inputs) (v : Verdict)
    (hv : Gen.checkHtlcForward p c i = v)
    (hk : v = .amountBelowMinimum ∨ v = .htlcExceedsMax ∨ v = .insufficientBandwidth ∨
          v = .incorrectCltvExpiry ∨ v = .deltaTooFar) : Spec.Violated p c i v := by
  subst hv
  unfold Gen.checkHtlcForward at hk ⊢
  by_cases hfee : i.incoming < i.outgoing ∨ Gen.actualFee i < Gen.expectedTotal p i
  · simp [hfee] at hk
  · simp only [hfee, if_false] at hk ⊢
    have hd := gen_delta_eq p c i
    rcases @gen_canSend_cases p c i.outgoing i.expOut i.height with h | ⟨h, hr⟩ | ⟨h, hr⟩ | h | h | ⟨h, hr⟩
    · simp only [h] at hk ⊢
      rw [hd] at hk ⊢
      by_cases h1 : Spec.DeltaOk p i <;> by_cases h2 : Spec.DeltaMaxOk c i <;>
        simp [h1, h2, Spec.Violated] at hk ⊢
    · simp only [h]; exact hr
    · simp only [h]; exact hr
    · simp [h] at hk
    · simp [h] at hk
    · simp only [h]; exact hr

/-! ## Witnesses: the domain is sharp -/

/-- The domain planned in DESIGN.md (any `int32` inbound rate, amounts ≤ 10^13 msat) is NOT enough:
    `rate * int64(amt)` in `InboundFee.CalcFee` wraps for amounts ≥ 2^63/10^7 ≈ 9.22 BTC.
    A 9.3 BTC forward with a −1000 % inbound rate (discount) satisfies every exact rule
    but the Go arithmetic rejects it with `FeeInsufficient`. -/
theorem planned_dom_wrap_rejects_valid_forward :
    ∃ (p : Policy) (c : Cfg) (i : Inputs), DomPlanned p c i ∧ Spec.AllOk p c i ∧
      Spec.checkHtlcForward p c i = .accept ∧ Gen.checkHtlcForward p c i = .feeInsufficient :=
  ⟨⟨0, 0, 0, 0, 40⟩, ⟨3, 2016, 989987184000⟩,
   ⟨930000001000, 930000000000, 1140, 1100, 1000, 0, -10000000⟩, by decide⟩

/-- Same wrap with a +1000 % inbound rate: the exact rule demands 9.3·10^12 msat of fee, the Go
    arithmetic accepts 1000 msat (no money is lost, `gen_never_loses_money`, but the advertised
    fee is not collected). -/
theorem planned_dom_wrap_accepts_underpaying_forward :
    ∃ (p : Policy) (c : Cfg) (i : Inputs), DomPlanned p c i ∧ ¬ Spec.FeeOk p i ∧
      Spec.checkHtlcForward p c i = .feeInsufficient ∧ Gen.checkHtlcForward p c i = .accept :=
  ⟨⟨0, 0, 0, 0, 40⟩, ⟨3, 2016, 989987184000⟩,
   ⟨930000001000, 930000000000, 1140, 1100, 1000, 0, 10000000⟩, by decide⟩

/-- Outside the domain: `heightNow + OutgoingCltvRejectDelta` wraps near 2^32 — an outgoing expiry
    far in the past (100 at height 2^32−2) is accepted. -/
theorem wrap_height_changes_verdict :
    ∃ (p : Policy) (c : Cfg) (i : Inputs), Spec.checkHtlcForward p c i = .expiryTooSoon ∧
      Gen.checkHtlcForward p c i = .accept :=
  ⟨⟨0, 0, 1000, 100, 40⟩, ⟨3, 2016, 989987184000⟩,
   ⟨200000, 100000, 140, 100, 4294967294, 0, 0⟩, by decide⟩

/-- Outside the domain: `amt * rate` wraps in uint64 for an absurd rate (2^40 ppm) — the exact
    rule demands ≈ 1.8·10^13 msat of fee, the Go arithmetic accepts 1000 msat. -/
theorem wrap_fee_rate_changes_verdict :
    ∃ (p : Policy) (c : Cfg) (i : Inputs), Spec.checkHtlcForward p c i = .feeInsufficient ∧
      Gen.checkHtlcForward p c i = .accept :=
  ⟨⟨0, 0, 1000, 1099511627776, 40⟩, ⟨3, 2016, 989987184000⟩,
   ⟨16778216, 16777216, 1140, 1100, 1000, 0, 0⟩, by decide⟩

/-! ## Non-vacuity -/

/-- `Dom` is inhabited by an accepted, non-trivial forward (fee exactly at the threshold, with an
    inbound discount), and the Go decision accepts it. -/
example : ∃ (p : Policy) (c : Cfg) (i : Inputs), Dom p c i ∧ Spec.AllOk p c i ∧
    Gen.checkHtlcForward p c i = .accept ∧ Spec.requiredFee p i = 89 :=
  ⟨⟨1000, 990000000, 1000, 100, 40⟩, ⟨3, 2016, 5000000000⟩,
   ⟨1000089, 1000000, 840100, 840050, 840000, -10, -1000⟩, by decide⟩

/-- one msat less is rejected for the fee -/
example : Gen.checkHtlcForward ⟨1000, 990000000, 1000, 100, 40⟩ ⟨3, 2016, 5000000000⟩
    ⟨1000088, 1000000, 840100, 840050, 840000, -10, -1000⟩ = .feeInsufficient := by decide

/-- every failure constructor is reachable inside `Dom` -/
example : ∀ v : Verdict, ∃ (p : Policy) (c : Cfg) (i : Inputs), Dom p c i ∧
    Gen.checkHtlcForward p c i = v := by
  intro v
  cases v
  · exact ⟨⟨1000, 0, 1000, 100, 40⟩, ⟨3, 2016, 5000000⟩, ⟨2000, 1000, 150, 100, 10, 0, 0⟩, by decide⟩
  · exact ⟨⟨1000, 0, 1000, 100, 40⟩, ⟨3, 2016, 5000000⟩, ⟨1999, 1000, 150, 100, 10, 0, 0⟩, by decide⟩
  · exact ⟨⟨1000, 0, 1000, 100, 40⟩, ⟨3, 2016, 5000000⟩, ⟨2000, 999, 150, 100, 10, 0, 0⟩, by decide⟩
  · exact ⟨⟨1000, 999, 1000, 100, 40⟩, ⟨3, 2016, 5000000⟩, ⟨2000, 1000, 150, 100, 10, 0, 0⟩, by decide⟩
  · exact ⟨⟨1000, 0, 1000, 100, 40⟩, ⟨3, 2016, 5000000⟩, ⟨2000, 1000, 150, 13, 10, 0, 0⟩, by decide⟩
  · exact ⟨⟨1000, 0, 1000, 100, 40⟩, ⟨3, 2016, 5000000⟩, ⟨2000, 1000, 3000, 2027, 10, 0, 0⟩, by decide⟩
  · exact ⟨⟨1000, 0, 1000, 100, 40⟩, ⟨3, 2016, 999⟩, ⟨2000, 1000, 150, 100, 10, 0, 0⟩, by decide⟩
  · exact ⟨⟨1000, 0, 1000, 100, 40⟩, ⟨3, 2016, 5000000⟩, ⟨2000, 1000, 139, 100, 10, 0, 0⟩, by decide⟩
  · exact ⟨⟨1000, 0, 1000, 100, 40⟩, ⟨3, 50, 5000000⟩, ⟨2000, 1000, 111, 60, 10, 0, 0⟩, by decide⟩

/-! ## The sharp domain -/

/-- `Dom` (the planned bounds + no `int64` wrap in `CalcFee`) is contained in `DomWide`. -/
theorem dom_subset_domWide (p : Policy) (c : Cfg) (i : Inputs) (h : Dom p c i) : DomWide p c i := by
  obtain ⟨⟨hin, hout, hb, hr, hib, hir, hh, _, _, _, hrj, hmc⟩, hw⟩ := h
  have hofle := spec_outFee_le hout hr hb
  have hm : i.outgoing * p.feeRate ≤ 10000000000000 * 1000000 := Nat.mul_le_mul hout hr
  unfold InboundNoWrap at hw
  have hbd := spec_inFee_bounds hib hw
  have hP : (clampRate i.inRate * ((i.outgoing + Spec.outFee p i.outgoing : Nat) : Int)).natAbs
      < 9223372036854775808 := by
    rw [Int.natAbs_mul, Int.natAbs_natCast]; exact hw
  refine ⟨?_, ?_, hib, ?_, ?_, ?_, ?_, ?_⟩
  · unfold WIn; omega
  · unfold WRateMul; omega
  · unfold WInMulLo; omega
  · unfold WInMulHi; omega
  · unfold WTotal Spec.requiredFee; omega
  · unfold WSoon; omega
  · unfold WFar; omega

/-- **gen_refines_spec_wide**: the Go decision equals the exact decision whenever money would be
    lost (`incoming < outgoing`: both reject with `FeeInsufficient`) or the inputs are in
    `DomWide` — any min/max HTLC, bandwidth, incoming expiry and time-lock delta, any base fee and
    rate whose products fit, any inbound discount or surcharge whose `int64` product fits, heights up
    to 2^32 minus the configured deltas. -/
theorem gen_refines_spec_wide (p : Policy) (c : Cfg) (i : Inputs)
    (h : i.incoming < i.outgoing ∨ DomWide p c i) :
    Gen.checkHtlcForward p c i = Spec.checkHtlcForward p c i := by
  by_cases hlt : i.incoming < i.outgoing
  · have hf : ¬ Spec.FeeOk p i := by unfold Spec.FeeOk; omega
    unfold Gen.checkHtlcForward Spec.checkHtlcForward
    simp [hlt, hf]
  · have h : DomWide p c i := h.resolve_left hlt
    have hfee := gen_feeCond_iff_wide h (by omega)
    obtain ⟨_, _, _, _, _, _, hs, hf⟩ := h
    have htr : Gen.canSendHtlc p c i.outgoing i.expOut i.height
        = Spec.checkHtlcTransit p c i.outgoing i.expOut i.height := gen_canSend_eq_wide hs hf
    have hd := gen_delta_eq p c i
    unfold Gen.checkHtlcForward Spec.checkHtlcForward
    rw [htr]
    by_cases hf : Spec.FeeOk p i
    · have hn : ¬ (i.incoming < i.outgoing ∨ Gen.actualFee i < Gen.expectedTotal p i) := by
        rw [hfee]; exact fun g => g hf
      simp only [hn, hf, if_false, not_true]
      cases Spec.checkHtlcTransit p c i.outgoing i.expOut i.height <;> first | rfl | exact hd
    · have hn : (i.incoming < i.outgoing ∨ Gen.actualFee i < Gen.expectedTotal p i) := hfee.mpr hf
      simp only [hn, hf, if_true, not_false_eq_true]

/-- On `DomWide` (discounts and surcharges included) the Go decision accepts iff every exact rule
    holds, and every failure names a rule violated in exact integers. -/
theorem gen_accept_iff_rules_wide (p : Policy) (c : Cfg) (i : Inputs)
    (h : i.incoming < i.outgoing ∨ DomWide p c i) :
    (Gen.checkHtlcForward p c i = .accept ↔ Spec.AllOk p c i) ∧
    (∀ v, Gen.checkHtlcForward p c i = v → v ≠ .accept → Spec.Violated p c i v) := by
  rw [gen_refines_spec_wide p c i h]
  exact ⟨accept_iff_rules p c i, fun v hv hne => reject_names_violated_rule p c i v hv hne⟩

/-- **inbound_fee_exact_iff**: `InboundFee.CalcFee` returns the exact fee IF AND ONLY IF the `int64`
    product `clamp(rate)·amt` stays inside `[-2^63, 2^63)` (for amounts below 2^63). -/
theorem inbound_fee_exact_iff (ib ir : Int) (amt : Nat) (hib : IsI32 ib)
    (ha : amt < 9223372036854775808) :
    Gen.calcFee ib ir amt = Spec.inFee ib ir amt ↔
      (-9223372036854775808 ≤ clampRate ir * (amt : Int) ∧
        clampRate ir * (amt : Int) < 9223372036854775808) := by
  constructor
  · intro h
    by_cases hw : clampRate ir * (amt : Int) < -9223372036854775808 ∨
        9223372036854775808 ≤ clampRate ir * (amt : Int)
    · exact absurd h (calcFee_wrong_of_wrap hib ha hw)
    · omega
  · intro ⟨h1, h2⟩; exact calcFee_exact_int hib ha h1 h2

example : Gen.calcFee 0 (-10000000) 922337203685 = Spec.inFee 0 (-10000000) 922337203685 ∧
    Gen.calcFee 0 (-10000000) 922337203686 ≠ Spec.inFee 0 (-10000000) 922337203686 := by decide

/-! Every conjunct of `DomWide` is necessary: an input violating ONLY that conjunct on which the
    Go verdict differs from the exact one. -/

/-- `WIn`: incoming = 2^63 is read as −2^63 by `int64(incomingHtlcAmt)`: a forward that keeps 2^63 msat
    is rejected for its fee. -/
theorem domWide_in_necessary : ∃ (p : Policy) (c : Cfg) (i : Inputs),
    ¬ WIn i ∧ WRateMul p i ∧ WInBase i ∧ WInMulLo p i ∧ WInMulHi p i ∧ WTotal p i ∧
    WSoon c i ∧ WFar c i ∧
    Spec.checkHtlcForward p c i = .accept ∧ Gen.checkHtlcForward p c i = .feeInsufficient :=
  ⟨⟨0, 0, 0, 0, 40⟩, ⟨3, 2016, 5000000⟩, ⟨9223372036854775808, 0, 140, 100, 10, 0, 0⟩, by decide⟩

/-- `WRateMul`: `amt*rate` wraps for the rate 2^40 ppm. -/
theorem domWide_rateMul_necessary : ∃ (p : Policy) (c : Cfg) (i : Inputs),
    WIn i ∧ ¬ WRateMul p i ∧ WInBase i ∧ WInMulLo p i ∧ WInMulHi p i ∧ WTotal p i ∧
    WSoon c i ∧ WFar c i ∧
    Spec.checkHtlcForward p c i = .feeInsufficient ∧ Gen.checkHtlcForward p c i = .accept :=
  ⟨⟨0, 0, 1000, 1099511627776, 40⟩, ⟨3, 2016, 989987184000⟩,
   ⟨16778216, 16777216, 1140, 1100, 1000, 0, 0⟩, by decide⟩

/-- `WInBase` (a typing constraint in Go): an inbound base fee below −2^63 wraps to a huge fee. -/
theorem domWide_inBase_necessary : ∃ (p : Policy) (c : Cfg) (i : Inputs),
    WIn i ∧ WRateMul p i ∧ ¬ WInBase i ∧ WInMulLo p i ∧ WInMulHi p i ∧ WTotal p i ∧
    WSoon c i ∧ WFar c i ∧
    Spec.checkHtlcForward p c i = .accept ∧ Gen.checkHtlcForward p c i = .feeInsufficient :=
  ⟨⟨0, 0, 0, 0, 40⟩, ⟨3, 2016, 5000000⟩,
   ⟨2000, 1000, 140, 100, 10, -9223372036854775809, 0⟩, by decide⟩

/-- `WInMulLo`: the −1000 % discount on 9.3 BTC (the reported finding). -/
theorem domWide_inMulLo_necessary : ∃ (p : Policy) (c : Cfg) (i : Inputs),
    WIn i ∧ WRateMul p i ∧ WInBase i ∧ ¬ WInMulLo p i ∧ WInMulHi p i ∧ WTotal p i ∧
    WSoon c i ∧ WFar c i ∧
    Spec.checkHtlcForward p c i = .accept ∧ Gen.checkHtlcForward p c i = .feeInsufficient :=
  ⟨⟨0, 0, 0, 0, 40⟩, ⟨3, 2016, 989987184000⟩,
   ⟨930000001000, 930000000000, 1140, 1100, 1000, 0, -10000000⟩, by decide⟩

/-- `WInMulHi`: the +1000 % surcharge on 9.3 BTC. -/
theorem domWide_inMulHi_necessary : ∃ (p : Policy) (c : Cfg) (i : Inputs),
    WIn i ∧ WRateMul p i ∧ WInBase i ∧ WInMulLo p i ∧ ¬ WInMulHi p i ∧ WTotal p i ∧
    WSoon c i ∧ WFar c i ∧
    Spec.checkHtlcForward p c i = .feeInsufficient ∧ Gen.checkHtlcForward p c i = .accept :=
  ⟨⟨0, 0, 0, 0, 40⟩, ⟨3, 2016, 989987184000⟩,
   ⟨930000001000, 930000000000, 1140, 1100, 1000, 0, 10000000⟩, by decide⟩

/-- `WTotal`: base fee 2^63−1001 plus inbound base 2^31−1 overflows `inFee + int64(outFee)`. -/
theorem domWide_total_necessary : ∃ (p : Policy) (c : Cfg) (i : Inputs),
    WIn i ∧ WRateMul p i ∧ WInBase i ∧ WInMulLo p i ∧ WInMulHi p i ∧ ¬ WTotal p i ∧
    WSoon c i ∧ WFar c i ∧
    Spec.checkHtlcForward p c i = .feeInsufficient ∧ Gen.checkHtlcForward p c i = .accept :=
  ⟨⟨0, 0, 9223372036854774807, 0, 40⟩, ⟨3, 2016, 5000000⟩,
   ⟨1000, 0, 140, 100, 10, 2147483647, 0⟩, by decide⟩

/-- `WSoon`: `heightNow + OutgoingCltvRejectDelta` wraps at height 2^32−2 (max CLTV 0 so that
    `WFar` holds): an outgoing expiry far in the past is accepted. -/
theorem domWide_soon_necessary : ∃ (p : Policy) (c : Cfg) (i : Inputs),
    WIn i ∧ WRateMul p i ∧ WInBase i ∧ WInMulLo p i ∧ WInMulHi p i ∧ WTotal p i ∧
    ¬ WSoon c i ∧ WFar c i ∧
    Spec.checkHtlcForward p c i = .expiryTooSoon ∧ Gen.checkHtlcForward p c i = .accept :=
  ⟨⟨0, 0, 1000, 100, 0⟩, ⟨3, 0, 989987184000⟩,
   ⟨200000, 100000, 100, 100, 4294967294, 0, 0⟩, by decide⟩

/-- `WFar`: `MaxOutgoingCltvExpiry + heightNow` wraps at height 2^32−100: an admissible expiry is
    rejected as too far. -/
theorem domWide_far_necessary : ∃ (p : Policy) (c : Cfg) (i : Inputs),
    WIn i ∧ WRateMul p i ∧ WInBase i ∧ WInMulLo p i ∧ WInMulHi p i ∧ WTotal p i ∧
    WSoon c i ∧ ¬ WFar c i ∧
    Spec.checkHtlcForward p c i = .accept ∧ Gen.checkHtlcForward p c i = .expiryTooFar :=
  ⟨⟨0, 0, 1000, 100, 40⟩, ⟨3, 2016, 989987184000⟩,
   ⟨200000, 100000, 4294967286, 4294967246, 4294967196, 0, 0⟩, by decide⟩

/-- Non-vacuity of `DomWide` beyond `Dom`: a 20 BTC forward at height 4·10^9 with a 300 % inbound
    surcharge lies in `DomWide`, not in `Dom`; accepted exactly at the fee threshold. -/
example : ∃ (p : Policy) (c : Cfg) (i : Inputs), DomWide p c i ∧ ¬ Dom p c i ∧
    Spec.AllOk p c i ∧ Gen.checkHtlcForward p c i = .accept ∧
    Gen.checkHtlcForward p c { i with incoming := i.incoming - 1 } = .feeInsufficient :=
  ⟨⟨1000, 0, 1000, 100, 40⟩, ⟨3, 2016, 3000000000000⟩,
   ⟨8000800004000, 2000000000000, 4000000140, 4000000100, 4000000000, 0, 3000000⟩, by decide⟩

/-! ## The failure as it is sent upstream -/

/-- **final_wire_of_verdict**: `NewLinkError` / `NewDetailedLinkError` / `WireMessage()` / the
    switch's encryption round trip are the identity on the failure message: the code that reaches
    the upstream peer is the code of the rule `CheckHtlcForward` found violated — it does not depend
    on the CONTENT of the channel_update (disabled bit, flags, fees …), only on whether one could be
    obtained — and the embedded update is the one `FailAliasUpdate` returned, else the one
    `FetchLastChannelUpdate` returned. -/
theorem final_wire_of_verdict (p : Policy) (c : Cfg) (i : Inputs) (a f : Option Upd) (e : LinkError)
    (h : Gen.checkHtlcForwardLE p c i a f = some e) :
    Gen.checkHtlcForward p c i ≠ .accept ∧
    (Gen.finalWire e).code
      = (if (Gen.checkHtlcForward p c i).carriesUpdate = true ∧ pickUpd a f = none
         then codeTemporaryNodeFailure else (Gen.checkHtlcForward p c i).code) ∧
    (Gen.finalWire e).upd
      = (if (Gen.checkHtlcForward p c i).carriesUpdate = true then pickUpd a f else none) := by
  rw [checkHtlcForwardLE_eq] at h
  exact toLinkError_final h

/-- A nil `*LinkError` is returned exactly when the verdict is `accept`. -/
theorem no_wire_failure_iff_accept (p : Policy) (c : Cfg) (i : Inputs) (a f : Option Upd) :
    Gen.checkHtlcForwardLE p c i a f = none ↔ Gen.checkHtlcForward p c i = .accept := by
  rw [checkHtlcForwardLE_eq]
  cases Gen.checkHtlcForward p c i <;> simp [Verdict.toLinkError] <;> split <;> simp

/-- **final_wire_names_violated_rule**: on `DomWide` the BOLT-4 code that goes upstream names a
    rule that the (policy, cfg, inputs) violate in exact arithmetic; `temporary_node_failure` only
    when no channel_update could be obtained for an HTLC that some rule rejects. -/
theorem final_wire_names_violated_rule (p : Policy) (c : Cfg) (i : Inputs) (a f : Option Upd)
    (e : LinkError) (hd : i.incoming < i.outgoing ∨ DomWide p c i)
    (h : Gen.checkHtlcForwardLE p c i a f = some e) :
    Spec.CodeViolated p c i (pickUpd a f).isSome (Gen.finalWire e).code := by
  obtain ⟨hne, hcode, -⟩ := final_wire_of_verdict p c i a f e h
  have hv := (gen_accept_iff_rules_wide p c i hd).2 _ rfl hne
  rw [hcode]
  split
  · next hc =>
    have hall : ¬ Spec.AllOk p c i := fun hall =>
      hne (((gen_accept_iff_rules_wide p c i hd).1).mpr hall)
    simp [Spec.CodeViolated, codeTemporaryNodeFailure, codeFeeInsufficient, codeAmountBelowMinimum,
      codeTemporaryChannelFailure, codeExpiryTooSoon, codeExpiryTooFar, codeIncorrectCltvExpiry,
      hc.2, hall]
  · exact codeViolated_of_violated _ hv

/-- **final_wire_code_ignores_update_content**: two evaluations that differ only in WHICH
    channel_updates the sources return (as long as one is available in both) send the same code. -/
theorem final_wire_code_ignores_update_content (p : Policy) (c : Cfg) (i : Inputs)
    (a f a' f' : Option Upd) (h : (pickUpd a f).isSome = (pickUpd a' f').isSome) :
    (Gen.checkHtlcForwardLE p c i a f).map (fun e => ((Gen.finalWire e).code, e.detail))
      = (Gen.checkHtlcForwardLE p c i a' f').map (fun e => ((Gen.finalWire e).code, e.detail)) := by
  rw [checkHtlcForwardLE_eq, checkHtlcForwardLE_eq]
  cases hp : pickUpd a f with
  | none =>
    have hp' : pickUpd a' f' = none := by
      cases hq : pickUpd a' f' with
      | none => rfl
      | some u => rw [hp, hq] at h; simp at h
    cases Gen.checkHtlcForward p c i <;>
      simp [Verdict.toLinkError, Verdict.carriesUpdate, createFailure_none hp,
        createFailure_none hp', Gen.finalWire, Gen.wireMessage]
  | some u =>
    obtain ⟨u', hp'⟩ : ∃ u', pickUpd a' f' = some u' := by
      cases hq : pickUpd a' f' with
      | none => rw [hp, hq] at h; simp at h
      | some u' => exact ⟨u', rfl⟩
    cases Gen.checkHtlcForward p c i <;>
      simp [Verdict.toLinkError, Verdict.carriesUpdate, createFailure_some hp,
        createFailure_some hp', Gen.finalWire, Gen.wireMessage]

/-- Locally sourced HTLC: the same for `CheckHtlcTransit` (no fee / delta rules). -/
theorem transit_final_wire_names_violated_rule (p : Policy) (c : Cfg) (i : Inputs)
    (a f : Option Upd) (e : LinkError) (hs : WSoon c i) (hf : WFar c i)
    (h : Gen.checkHtlcTransitLE p c i.outgoing i.expOut i.height a f = some e) :
    (Gen.finalWire e).code ≠ codeFeeInsufficient ∧ (Gen.finalWire e).code ≠ codeIncorrectCltvExpiry ∧
    ((Gen.finalWire e).code = codeTemporaryNodeFailure ∧ pickUpd a f = none ∧
        ¬ Spec.TransitOk p c i.outgoing i.expOut i.height ∨
      ∃ v, Spec.TransitViolated p c i.outgoing i.expOut i.height v ∧ (Gen.finalWire e).code = v.code) := by
  rw [checkHtlcTransitLE_eq] at h
  obtain ⟨hne, hcode, -⟩ := toLinkError_final h
  unfold Gen.checkHtlcTransit at hne hcode
  rw [gen_canSend_eq_wide hs hf] at hne hcode
  have hv := transit_reject_names_violated_rule p c i.outgoing i.expOut i.height _ rfl hne
  have hnok : ¬ Spec.TransitOk p c i.outgoing i.expOut i.height := fun hok =>
    hne ((transit_accept_iff p c i.outgoing i.expOut i.height).mpr hok)
  rw [hcode]
  cases hvv : Spec.checkHtlcTransit p c i.outgoing i.expOut i.height <;> rw [hvv] at hv hne <;>
    simp [Spec.TransitViolated] at hv hne <;>
    cases hp : pickUpd a f <;>
    simp [Verdict.carriesUpdate, Verdict.code, codeTemporaryNodeFailure, codeFeeInsufficient,
      codeAmountBelowMinimum, codeTemporaryChannelFailure, codeExpiryTooSoon, codeExpiryTooFar,
      codeIncorrectCltvExpiry, hnok] <;>
    first
    | exact ⟨.amountBelowMinimum, by simpa [Spec.TransitViolated] using hv, rfl⟩
    | exact ⟨.htlcExceedsMax, by simpa [Spec.TransitViolated] using hv, rfl⟩
    | exact ⟨.expiryTooSoon, by simpa [Spec.TransitViolated] using hv, rfl⟩
    | exact ⟨.expiryTooFar, by simpa [Spec.TransitViolated] using hv, rfl⟩
    | exact ⟨.insufficientBandwidth, by simpa [Spec.TransitViolated] using hv, rfl⟩

/-- Non-vacuity: a fee one msat short with a DISABLED channel_update (channel_flags bit 1) from the
    lookup goes out as `fee_insufficient` carrying exactly that update; with an alias update the
    alias update is embedded; with no update at all `temporary_node_failure`. -/
example :
    Gen.checkHtlcForwardLE ⟨1000, 0, 1000, 100, 40⟩ ⟨3, 2016, 5000000⟩ ⟨1999, 1000, 150, 100, 10, 0, 0⟩
      none (some ⟨7, 258, 99⟩) = some ⟨⟨codeFeeInsufficient, 1000, some ⟨7, 258, 99⟩⟩, .none⟩ ∧
    Gen.checkHtlcForwardLE ⟨1000, 0, 1000, 100, 40⟩ ⟨3, 2016, 5000000⟩ ⟨1999, 1000, 150, 100, 10, 0, 0⟩
      (some ⟨16000000, 256, 5⟩) (some ⟨7, 258, 99⟩)
        = some ⟨⟨codeFeeInsufficient, 1000, some ⟨16000000, 256, 5⟩⟩, .none⟩ ∧
    Gen.checkHtlcForwardLE ⟨1000, 0, 1000, 100, 40⟩ ⟨3, 2016, 5000000⟩ ⟨1999, 1000, 150, 100, 10, 0, 0⟩
      none none = some ⟨⟨codeTemporaryNodeFailure, -1, none⟩, .none⟩ ∧
    Gen.checkHtlcForwardLE ⟨1000, 999, 1000, 100, 40⟩ ⟨3, 2016, 5000000⟩ ⟨2000, 1000, 150, 100, 10, 0, 0⟩
      none (some ⟨7, 258, 99⟩)
        = some ⟨⟨codeTemporaryChannelFailure, -1, some ⟨7, 258, 99⟩⟩, .htlcExceedsMax⟩ := by decide

/-! ## Level 2: the switch forwards only over a link whose own policy accepts -/

/-- **forwarded_link_accepts**: whatever the iteration order of the candidate links and whatever
    the random draw, the link that receives the add is one of the candidates, is eligible, and its
    OWN `CheckHtlcForward` (own policy, cfg, bandwidth) accepted this HTLC. -/
theorem forwarded_link_accepts (nodeMode : Bool) (req : Nat) (links : List Cand) (r : Nat)
    (i : Inputs) (s : Nat)
    (h : Gen.handlePacketAdd nodeMode req links r i = .forward s) :
    ∃ l ∈ links, l.scid = s ∧ l.eligible = true ∧ Gen.checkHtlcForward l.p l.c i = .accept := by
  unfold Gen.handlePacketAdd at h
  simp only [] at h
  cases hd : (Gen.scanLinks links i).dests[r % (Gen.scanLinks links i).dests.length]? with
  | none =>
    rw [hd] at h
    cases nodeMode <;> simp at h
    cases he : (Gen.scanLinks links i).errs req <;> simp [he] at h
  | some d =>
    rw [hd] at h
    simp only [SwOutcome.forward.injEq] at h
    have hmem : d ∈ (Gen.scanLinks links i).dests := List.mem_of_getElem? hd
    rw [scan_dests, List.mem_filter] at hmem
    have hnone : Gen.linkFailure d i = none := by
      cases hlf : Gen.linkFailure d i <;> simp [hlf] at hmem ⊢
    exact ⟨d, hmem.1, h, (linkFailure_none_iff d i).mp hnone⟩


/-- **forwarded_link_meets_policy**: if the inputs are in `Dom` for every candidate's policy, the
    link that receives the add satisfies every exact rule of ITS OWN advertised policy (and no money
    is lost on it). -/
theorem forwarded_link_meets_policy (nodeMode : Bool) (req : Nat) (links : List Cand) (r : Nat)
    (i : Inputs) (s : Nat) (hdom : ∀ l ∈ links, Dom l.p l.c i)
    (h : Gen.handlePacketAdd nodeMode req links r i = .forward s) :
    ∃ l ∈ links, l.scid = s ∧ l.eligible = true ∧ Spec.AllOk l.p l.c i ∧ i.outgoing ≤ i.incoming := by
  obtain ⟨l, hl, hs, he, ha⟩ := forwarded_link_accepts nodeMode req links r i s h
  have hall := (gen_accept_iff_rules l.p l.c i (hdom l hl)).mp ha
  exact ⟨l, hl, hs, he, hall, hall.1.1⟩

/-- **fails_only_if_no_link_accepts**: the switch fails the add only if no candidate link is
    eligible with an accepting `CheckHtlcForward`. -/
theorem fails_only_if_no_link_accepts (nodeMode : Bool) (req : Nat) (links : List Cand) (r : Nat)
    (i : Inputs) (f : SwFailure)
    (h : Gen.handlePacketAdd nodeMode req links r i = .fail f) :
    ∀ l ∈ links, ¬ (l.eligible = true ∧ Gen.checkHtlcForward l.p l.c i = .accept) := by
  intro l hl hacc
  unfold Gen.handlePacketAdd at h
  simp only [] at h
  have hmem : l ∈ (Gen.scanLinks links i).dests := by
    rw [scan_dests, List.mem_filter]
    exact ⟨hl, by rw [(linkFailure_none_iff l i).mpr hacc]; rfl⟩
  have hpos : 0 < (Gen.scanLinks links i).dests.length := List.length_pos_of_mem hmem
  have hlt : r % (Gen.scanLinks links i).dests.length < (Gen.scanLinks links i).dests.length :=
    Nat.mod_lt _ hpos
  rw [List.getElem?_eq_getElem hlt] at h
  simp at h

/-- **scid_failure_is_requested_links**: for a channel-addressed forward that fails, when the
    requested channel is among the candidates (short channel ids pairwise distinct), the failure
    returned is exactly the requested link's own failure. -/
theorem scid_failure_is_requested_links (req : Nat) (links : List Cand) (r : Nat) (i : Inputs)
    (f : SwFailure) (l : Cand) (hl : l ∈ links) (hreq : l.scid = req)
    (hnd : (links.map (·.scid)).Nodup)
    (h : Gen.handlePacketAdd false req links r i = .fail f) :
    Gen.linkFailure l i = some f := by
  have hno := fails_only_if_no_link_accepts false req links r i f h l hl
  have hsome : ∃ g, Gen.linkFailure l i = some g := by
    cases hlf : Gen.linkFailure l i with
    | none => exact absurd ((linkFailure_none_iff l i).mp hlf) hno
    | some g => exact ⟨g, rfl⟩
  obtain ⟨g, hg⟩ := hsome
  have herr : (Gen.scanLinks links i).errs req = some g := by
    unfold Gen.scanLinks; rw [← hreq]; exact scan_foldl_errs i links _ l g hl hnd hg
  unfold Gen.handlePacketAdd at h
  simp only [] at h
  cases hd : (Gen.scanLinks links i).dests[r % (Gen.scanLinks links i).dests.length]? with
  | some d => rw [hd] at h; simp at h
  | none =>
    rw [hd] at h
    simp only [herr, Bool.false_eq_true, if_false, SwOutcome.fail.injEq] at h
    rw [hg, h]

/-- On `Dom`, a failed channel-addressed forward names a rule that the REQUESTED link's policy
    really violates (or that link is not eligible). -/
theorem scid_failure_names_violated_rule (req : Nat) (links : List Cand) (r : Nat) (i : Inputs)
    (f : SwFailure) (l : Cand) (hl : l ∈ links) (hreq : l.scid = req)
    (hnd : (links.map (·.scid)).Nodup) (hdom : Dom l.p l.c i)
    (h : Gen.handlePacketAdd false req links r i = .fail f) :
    (f = .notEligible ∧ l.eligible = false) ∨
      ∃ v, f = .link v ∧ v ≠ .accept ∧ Spec.Violated l.p l.c i v := by
  have hlf := scid_failure_is_requested_links req links r i f l hl hreq hnd h
  cases he : l.eligible with
  | false =>
    unfold Gen.linkFailure at hlf
    simp [he] at hlf; exact Or.inl ⟨hlf.symm, rfl⟩
  | true =>
    right
    by_cases hacc : Gen.checkHtlcForward l.p l.c i = .accept
    · rw [(linkFailure_none_iff l i).mpr ⟨he, hacc⟩] at hlf; cases hlf
    · rw [linkFailure_some_link l i _ he rfl hacc] at hlf
      injection hlf with hlf
      exact ⟨_, hlf.symm, hacc, gen_reject_names_violated_rule l.p l.c i hdom _ rfl hacc⟩

/-- Non-vacuity: two parallel channels, the first one's policy rejects (base fee 1001 > 1000
    offered), the second accepts: in either iteration order and for every draw the add goes to the
    accepting channel 22 — also when channel 11 was the one requested. -/
example : ∀ r < 4,
    Gen.handlePacketAdd false 11
      [{ scid := 11, eligible := true, p := ⟨1000, 0, 1001, 0, 40⟩, c := ⟨3, 2016, 5000000⟩ },
       { scid := 22, eligible := true, p := ⟨1000, 0, 1000, 0, 40⟩, c := ⟨3, 2016, 5000000⟩ }] r
      ⟨2000, 1000, 150, 100, 10, 0, 0⟩ = .forward 22 ∧
    Gen.handlePacketAdd false 11
      [{ scid := 22, eligible := true, p := ⟨1000, 0, 1000, 0, 40⟩, c := ⟨3, 2016, 5000000⟩ },
       { scid := 11, eligible := true, p := ⟨1000, 0, 1001, 0, 40⟩, c := ⟨3, 2016, 5000000⟩ }] r
      ⟨2000, 1000, 150, 100, 10, 0, 0⟩ = .forward 22 := by decide

/-- … and when both reject, the failure is the requested channel's own (fee), not the other's (min). -/
example : Gen.handlePacketAdd false 11
      [{ scid := 22, eligible := true, p := ⟨1001, 0, 1000, 0, 40⟩, c := ⟨3, 2016, 5000000⟩ },
       { scid := 11, eligible := true, p := ⟨1000, 0, 1001, 0, 40⟩, c := ⟨3, 2016, 5000000⟩ }] 7
      ⟨2000, 1000, 150, 100, 10, 0, 0⟩ = .fail (.link .feeInsufficient) := by decide

/-! ## Level 2b: which link's policy is consulted (alias / option-scid lookup, RejectHTLC) -/

/-- `getLinkByMapping` returns a registered link together with ITS OWN short channel id (the key
    `linkErrs` uses), whichever of its ids — own, alias, confirmed scid — the sender used; the
    link is the one `forwardingIndex` holds for the base scid of that id. -/
theorem mapping_resolves (isAlias : Bool) (base : Option Nat) (chanID : Nat) (links : List Cand)
    (t : Cand) (out : Nat) (h : Gen.getLinkByMapping isAlias base chanID links = some (t, out)) :
    t ∈ links ∧ t.scid = out ∧ (base = some out ∨ (isAlias = false ∧ base = none ∧ out = chanID)) ∧
      (isAlias = false → base ≠ none → t.unadvertised = false) := by
  unfold Gen.getLinkByMapping at h
  cases isAlias with
  | true =>
    cases base with
    | none => simp at h
    | some b =>
      simp only [if_true] at h
      cases hf : links.find? (fun l => l.scid = b) with
      | none => simp [hf] at h
      | some l =>
        simp only [hf, Option.some.injEq, Prod.mk.injEq] at h
        obtain ⟨rfl, rfl⟩ := h
        exact ⟨(find?_scid hf).1, (find?_scid hf).2, Or.inl rfl, by simp⟩
  | false =>
    cases base with
    | none =>
      simp only [Bool.false_eq_true, if_false] at h
      cases hf : links.find? (fun l => l.scid = chanID) with
      | none => simp [hf] at h
      | some l =>
        simp only [hf, Option.some.injEq, Prod.mk.injEq] at h
        obtain ⟨rfl, rfl⟩ := h
        exact ⟨(find?_scid hf).1, (find?_scid hf).2, Or.inr ⟨rfl, rfl, rfl⟩, by simp⟩
    | some b =>
      simp only [Bool.false_eq_true, if_false] at h
      cases hf : links.find? (fun l => l.scid = b) with
      | none => simp [hf] at h
      | some l =>
        simp only [hf] at h
        cases hu : l.unadvertised with
        | true => simp [hu] at h
        | false =>
          simp only [hu, Bool.false_eq_true, if_false, Option.some.injEq, Prod.mk.injEq] at h
          obtain ⟨rfl, rfl⟩ := h
          exact ⟨(find?_scid hf).1, (find?_scid hf).2, Or.inl rfl, fun _ _ => hu⟩

/-- **mapped_forward_link_accepts**: from the top of `handlePacketAdd` — `RejectHTLC` off, next
    hop given as node id or as ANY id of a channel (own scid, alias, confirmed scid), any iteration
    order, any draw — the link that receives the add is registered, eligible, ITS OWN
    `CheckHtlcForward` accepted, and it leads to the peer named by the node id / to the same peer
    as the channel the id resolves to. -/
theorem mapped_forward_link_accepts (rj nodeMode : Bool) (peerKey : Nat) (isAlias : Bool)
    (base : Option Nat) (chanID : Nat) (allLinks : List Cand) (r : Nat) (i : Inputs) (s : Nat)
    (h : Gen.handlePacketAddFull rj nodeMode peerKey isAlias base chanID allLinks r i = .forward s) :
    rj = false ∧
    ∃ l ∈ allLinks, l.scid = s ∧ l.eligible = true ∧ Gen.checkHtlcForward l.p l.c i = .accept ∧
      (nodeMode = true → l.peer = peerKey) ∧
      (nodeMode = false → ∃ t out, Gen.getLinkByMapping isAlias base chanID allLinks = some (t, out) ∧
        l.peer = t.peer) := by
  unfold Gen.handlePacketAddFull at h
  cases rj with
  | true => simp at h
  | false =>
    refine ⟨rfl, ?_⟩
    simp only [Bool.false_eq_true, if_false] at h
    cases nodeMode with
    | true =>
      simp only [if_true] at h
      cases hfl : allLinks.filter (fun l => l.peer = peerKey) with
      | nil => simp [hfl] at h
      | cons x xs =>
        simp only [hfl] at h
        obtain ⟨l, hl, hs, he, ha⟩ := forwarded_link_accepts true 0 (x :: xs) r i s h
        rw [← hfl, List.mem_filter] at hl
        exact ⟨l, hl.1, hs, he, ha, fun _ => by simpa using hl.2, fun hh => by simp at hh⟩
    | false =>
      simp only [Bool.false_eq_true, if_false] at h
      cases hm : Gen.getLinkByMapping isAlias base chanID allLinks with
      | none => simp [hm] at h
      | some to =>
        obtain ⟨t, out⟩ := to
        simp only [hm] at h
        obtain ⟨l, hl, hs, he, ha⟩ := forwarded_link_accepts false out _ r i s h
        rw [List.mem_filter] at hl
        exact ⟨l, hl.1, hs, he, ha, fun hh => by simp at hh,
          fun _ => ⟨t, out, rfl, by simpa using hl.2⟩⟩

/-- … hence, on `DomWide` for the registered links, every exact rule of that link's own policy. -/
theorem mapped_forward_link_meets_policy (rj nodeMode : Bool) (peerKey : Nat) (isAlias : Bool)
    (base : Option Nat) (chanID : Nat) (allLinks : List Cand) (r : Nat) (i : Inputs) (s : Nat)
    (hdom : ∀ l ∈ allLinks, DomWide l.p l.c i)
    (h : Gen.handlePacketAddFull rj nodeMode peerKey isAlias base chanID allLinks r i = .forward s) :
    ∃ l ∈ allLinks, l.scid = s ∧ l.eligible = true ∧ Spec.AllOk l.p l.c i := by
  obtain ⟨-, l, hl, hs, he, ha, -⟩ :=
    mapped_forward_link_accepts rj nodeMode peerKey isAlias base chanID allLinks r i s h
  exact ⟨l, hl, hs, he, ((gen_accept_iff_rules_wide l.p l.c i (Or.inr (hdom l hl))).1).mp ha⟩

/-- **mapped_failure_is_resolved_links**: a failed channel-addressed forward returns the failure
    of the link the id RESOLVES to (not of another parallel link), for every id of that channel. -/
theorem mapped_failure_is_resolved_links (isAlias : Bool) (base : Option Nat) (chanID : Nat)
    (allLinks : List Cand) (r : Nat) (i : Inputs) (f : SwFailure) (t : Cand) (out : Nat)
    (hm : Gen.getLinkByMapping isAlias base chanID allLinks = some (t, out))
    (hnd : (allLinks.map (·.scid)).Nodup)
    (h : Gen.handlePacketAddFull false false 0 isAlias base chanID allLinks r i = .fail f) :
    Gen.linkFailure t i = some f := by
  obtain ⟨ht, hts, -, -⟩ := mapping_resolves isAlias base chanID allLinks t out hm
  unfold Gen.handlePacketAddFull at h
  simp only [Bool.false_eq_true, if_false, hm] at h
  have hmem : t ∈ allLinks.filter (fun l => l.peer = t.peer) := by
    rw [List.mem_filter]; exact ⟨ht, by simp⟩
  have hnd' : ((allLinks.filter (fun l => l.peer = t.peer)).map (·.scid)).Nodup :=
    (List.filter_sublist.map _).nodup hnd
  exact scid_failure_is_requested_links out _ r i f t hmem hts hnd' h

/-- **mapped_failure_wire_names_violated_rule**: the failure that goes upstream for a failed
    channel-addressed forward (any id of the channel) is `unknown_next_peer` with the resolved link
    not eligible, or a code naming a rule that the RESOLVED link's policy violates in exact
    arithmetic (`temporary_node_failure` only if that link has no channel_update to send). -/
theorem mapped_failure_wire_names_violated_rule (isAlias : Bool) (base : Option Nat) (chanID : Nat)
    (allLinks : List Cand) (r : Nat) (i : Inputs) (f : SwFailure) (t : Cand) (out : Nat)
    (hm : Gen.getLinkByMapping isAlias base chanID allLinks = some (t, out))
    (hnd : (allLinks.map (·.scid)).Nodup) (hdom : i.incoming < i.outgoing ∨ DomWide t.p t.c i)
    (h : Gen.handlePacketAddFull false false 0 isAlias base chanID allLinks r i = .fail f)
    (upd : Option Upd) :
    ((Gen.finalWire (f.toLinkError i upd)).code = codeUnknownNextPeer ∧ t.eligible = false) ∨
      Spec.CodeViolated t.p t.c i upd.isSome (Gen.finalWire (f.toLinkError i upd)).code := by
  have hlf := mapped_failure_is_resolved_links isAlias base chanID allLinks r i f t out hm hnd h
  rcases linkFailure_cases t i f hlf with ⟨rfl, he⟩ | ⟨-, rfl, hne⟩
  · exact Or.inl ⟨rfl, he⟩
  · right
    have hle := checkHtlcForwardLE_eq t.p t.c i none upd
    cases hv : (Gen.checkHtlcForward t.p t.c i).toLinkError i none upd with
    | none =>
      rw [hv] at hle
      exact absurd ((no_wire_failure_iff_accept t.p t.c i none upd).mp hle) hne
    | some e =>
      rw [hv] at hle
      have := final_wire_names_violated_rule t.p t.c i none upd e hdom hle
      simpa [SwFailure.toLinkError, hv, pickUpd] using this

/-- **channel_disabled_iff_forwards_disabled**: the switch answers an add with `channel_disabled`
    if and only if `cfg.RejectHTLC` is set — no policy failure is ever turned into it. -/
theorem channel_disabled_iff_forwards_disabled (rj nodeMode : Bool) (peerKey : Nat) (isAlias : Bool)
    (base : Option Nat) (chanID : Nat) (allLinks : List Cand) (r : Nat) (i : Inputs) (f : SwFailure)
    (upd : Option Upd)
    (h : Gen.handlePacketAddFull rj nodeMode peerKey isAlias base chanID allLinks r i = .fail f) :
    (Gen.finalWire (f.toLinkError i upd)).code = codeChannelDisabled ↔ rj = true := by
  have key : ∀ (nm : Bool) (req : Nat) (ls : List Cand),
      Gen.handlePacketAdd nm req ls r i = .fail f →
      (Gen.finalWire (f.toLinkError i upd)).code ≠ codeChannelDisabled := by
    intro nm req ls hh
    unfold Gen.handlePacketAdd at hh
    simp only [] at hh
    cases hd : (Gen.scanLinks ls i).dests[r % (Gen.scanLinks ls i).dests.length]? with
    | some d => rw [hd] at hh; simp at hh
    | none =>
      rw [hd] at hh
      have hcases : f = .unknownNextPeer ∨ (Gen.scanLinks ls i).errs req = some f := by
        cases nm with
        | true => simp at hh; exact Or.inl hh.symm
        | false =>
          simp only [Bool.false_eq_true, if_false] at hh
          cases he : (Gen.scanLinks ls i).errs req with
          | none => simp [he] at hh; exact Or.inl hh.symm
          | some g => simp [he] at hh; exact Or.inr (by rw [hh])
      rcases hcases with rfl | herr
      · simp [SwFailure.toLinkError, Gen.finalWire, Gen.wireMessage, codeUnknownNextPeer,
          codeChannelDisabled]
      · unfold Gen.scanLinks at herr
        rcases scan_foldl_errs_cases i ls _ req f herr with h0 | ⟨l, -, -, hlf⟩
        · simp at h0
        · rcases linkFailure_cases l i f hlf with ⟨rfl, -⟩ | ⟨-, rfl, hne⟩
          · simp [SwFailure.toLinkError, Gen.finalWire, Gen.wireMessage, codeUnknownNextPeer,
              codeChannelDisabled]
          · cases hp : upd <;> cases hv : Gen.checkHtlcForward l.p l.c i <;>
              simp [hv] at hne <;>
              simp [SwFailure.toLinkError, Verdict.toLinkError, Verdict.carriesUpdate, Verdict.code,
                Gen.createFailureWithUpdate, Gen.finalWire, Gen.wireMessage, codeChannelDisabled,
                codeTemporaryNodeFailure, codeFeeInsufficient, codeAmountBelowMinimum,
                codeTemporaryChannelFailure, codeExpiryTooSoon, codeExpiryTooFar,
                codeIncorrectCltvExpiry]
  unfold Gen.handlePacketAddFull at h
  cases rj with
  | true =>
    simp only [if_true, SwOutcome.fail.injEq] at h
    subst h
    simp [SwFailure.toLinkError, Gen.finalWire, Gen.wireMessage]
  | false =>
    simp only [Bool.false_eq_true, if_false] at h
    constructor
    · intro hc
      exfalso
      cases nodeMode with
      | true =>
        simp only [if_true] at h
        cases hfl : allLinks.filter (fun l => l.peer = peerKey) with
        | nil =>
          simp only [hfl, SwOutcome.fail.injEq] at h; subst h
          simp [SwFailure.toLinkError, Gen.finalWire, Gen.wireMessage, codeUnknownNextPeer,
            codeChannelDisabled] at hc
        | cons x xs => simp only [hfl] at h; exact key _ _ _ h hc
      | false =>
        simp only [Bool.false_eq_true, if_false] at h
        cases hm : Gen.getLinkByMapping isAlias base chanID allLinks with
        | none =>
          simp only [hm, SwOutcome.fail.injEq] at h; subst h
          simp [SwFailure.toLinkError, Gen.finalWire, Gen.wireMessage, codeUnknownNextPeer,
            codeChannelDisabled] at hc
        | some to => obtain ⟨t, out⟩ := to; simp only [hm] at h; exact key _ _ _ h hc
    · intro hh; cases hh

/-- **local_mapped_link_accepts**: `getLocalLink` hands a locally sourced HTLC only to the link
    registered under the requested id (or under its base scid when the id is the confirmed scid of
    a zero-conf channel), and only if that link is eligible and its own `CheckHtlcTransit` accepted. -/
theorem local_mapped_link_accepts (base : Option Nat) (chanID : Nat) (links : List Cand)
    (amt timeout height s : Nat)
    (h : Gen.getLocalLinkMapped base chanID links amt timeout height = .forward s) :
    ∃ l ∈ links, l.scid = s ∧ (s = chanID ∨ base = some s) ∧ l.eligible = true ∧
      Gen.checkHtlcTransit l.p l.c amt timeout height = .accept := by
  have key : ∀ l : Cand, Gen.getLocalLink (some l) amt timeout height = .forward s →
      l.scid = s ∧ l.eligible = true ∧ Gen.checkHtlcTransit l.p l.c amt timeout height = .accept := by
    intro l hl
    unfold Gen.getLocalLink at hl
    cases he : l.eligible with
    | false => simp [he] at hl
    | true =>
      simp only [he, Bool.true_eq_false, if_false] at hl
      cases hv : Gen.checkHtlcTransit l.p l.c amt timeout height <;> simp [hv] at hl
      exact ⟨hl, rfl, rfl⟩
  unfold Gen.getLocalLinkMapped at h
  cases hf : links.find? (fun l => l.scid = chanID) with
  | some l =>
    simp only [hf] at h
    obtain ⟨h1, h2, h3⟩ := key l h
    exact ⟨l, (find?_scid hf).1, h1, Or.inl (by rw [← h1, (find?_scid hf).2]), h2, h3⟩
  | none =>
    simp only [hf] at h
    cases base with
    | none => simp at h
    | some b =>
      simp only [] at h
      cases hg : links.find? (fun l => l.scid = b) with
      | none => simp [hg, Gen.getLocalLink] at h
      | some l =>
        simp only [hg] at h
        obtain ⟨h1, h2, h3⟩ := key l h
        exact ⟨l, (find?_scid hg).1, h1, Or.inr (by rw [← h1, (find?_scid hg).2]), h2, h3⟩

/-- Non-vacuity: channel 11 (option-scid-alias, alias 16000001) rejects for its fee, the parallel
    channel 22 to the same peer accepts, channel 33 to another peer would accept too: addressed by
    the alias the add goes to 22 (never to 33); when 22 rejects as well (min_htlc) the sender gets
    channel 11's `fee_insufficient`; with `RejectHTLC` `channel_disabled`; addressed by the real
    scid of the UNADVERTISED channel 44 `unknown_next_peer`. -/
example :
    let l11 : Cand := { scid := 11, eligible := true, p := ⟨1000, 0, 1001, 0, 40⟩, c := ⟨3, 2016, 5000000⟩, peer := 1 }
    let l22 : Cand := { scid := 22, eligible := true, p := ⟨1000, 0, 1000, 0, 40⟩, c := ⟨3, 2016, 5000000⟩, peer := 1 }
    let l22' : Cand := { l22 with p := ⟨1001, 0, 1000, 0, 40⟩ }
    let l33 : Cand := { scid := 33, eligible := true, p := ⟨0, 0, 0, 0, 0⟩, c := ⟨3, 2016, 5000000⟩, peer := 2 }
    let l44 : Cand := { l22 with scid := 44, unadvertised := true }
    let i : Inputs := ⟨2000, 1000, 150, 100, 10, 0, 0⟩
    (∀ r < 6, Gen.handlePacketAddFull false false 0 true (some 11) 16000001 [l33, l11, l22] r i = .forward 22) ∧
    Gen.handlePacketAddFull false false 0 true (some 11) 16000001 [l33, l22', l11] 5 i
      = .fail (.link .feeInsufficient) ∧
    Gen.handlePacketAddFull true false 0 true (some 11) 16000001 [l33, l11, l22] 0 i
      = .fail .forwardsDisabled ∧
    Gen.handlePacketAddFull false false 0 false (some 44) 44 [l33, l11, l44] 0 i
      = .fail .unknownNextPeer ∧
    Gen.handlePacketAddFull false false 0 true (some 44) 16000044 [l33, l11, l44] 0 i = .forward 44 := by
  decide

end LndModel.C09
