/-
C09 — property theorems (see DESIGN.md §2 C09).  Helper lemmas live in Lemmas.lean.

`Spec.*` is the decision over exact unbounded integers, `Gen.*` the Go fixed-width
arithmetic of `CheckHtlcForward` / `CheckHtlcTransit` / `ExpectedFee` / `InboundFee.CalcFee`
(tied to the code by the correspondence check on every run).

  accept_sound / accept_complete / reject_names_violated_rule / never_loses_money   (Spec, all inputs)
  gen_refines_spec                                (Gen = Spec on the explicit domain `Dom`)
  gen_accept_iff_rules / gen_reject_names_violated_rule   (the same three facts for the Go arithmetic on `Dom`)
  gen_never_loses_money, gen_accept_sound_nowrap, gen_reject_names_nowrap   (Go arithmetic, ALL inputs, even wrapped)
  planned_dom_* / wrap_*                          (witnesses: outside `Dom` wrap-around changes the verdict)
-/
import LndModel.C09.Lemmas

namespace LndModel.C09

/-! ## The exact decision: accept ⇔ all rules, reject ⇒ named rule violated -/

/-- Locally sourced HTLC: accepted iff every transit rule holds. -/
theorem transit_accept_iff (p : Policy) (c : Cfg) (amt t h : Nat) :
    Spec.checkHtlcTransit p c amt t h = .accept ↔ Spec.TransitOk p c amt t h := by
  unfold Spec.checkHtlcTransit Spec.TransitOk
  by_cases h1 : Spec.MinOk p amt <;> by_cases h2 : Spec.MaxOk p amt <;>
    by_cases h3 : Spec.NotTooSoon c t h <;> by_cases h4 : Spec.NotTooFar c t h <;>
    by_cases h5 : Spec.BwOk c amt <;> simp [h1, h2, h3, h4, h5]

/-- Locally sourced HTLC: every failure verdict names a rule that is violated. -/
theorem transit_reject_names_violated_rule (p : Policy) (c : Cfg) (amt t h : Nat) (v : Verdict)
    (hv : Spec.checkHtlcTransit p c amt t h = v) (hne : v ≠ .accept) :
    Spec.TransitViolated p c amt t h v := by
  subst hv
  unfold Spec.checkHtlcTransit at hne ⊢
  by_cases h1 : Spec.MinOk p amt <;> by_cases h2 : Spec.MaxOk p amt <;>
    by_cases h3 : Spec.NotTooSoon c t h <;> by_cases h4 : Spec.NotTooFar c t h <;>
    by_cases h5 : Spec.BwOk c amt <;> simp [h1, h2, h3, h4, h5, Spec.TransitViolated] at hne ⊢

/-- **accept_sound** and **accept_complete** in one statement: the exact decision accepts iff
    the outgoing amount does not exceed the incoming one, the difference covers
    base + ⌊out·rate/10^6⌋ + inbound fee/discount, min ≤ out, (max = 0 ∨ out ≤ max), out ≤ bandwidth,
    height + rejectDelta < expiry_out ≤ height + maxCltv, timeLockDelta ≤ expiry_in − expiry_out ≤ maxCltv. -/
theorem accept_iff_rules (p : Policy) (c : Cfg) (i : Inputs) :
    Spec.checkHtlcForward p c i = .accept ↔ Spec.AllOk p c i := by
  unfold Spec.checkHtlcForward Spec.AllOk
  rw [← transit_accept_iff]
  by_cases hf : Spec.FeeOk p i
  · simp only [hf, not_true, if_false, true_and]
    cases htr : Spec.checkHtlcTransit p c i.outgoing i.expOut i.height <;>
      by_cases h1 : Spec.DeltaOk p i <;> by_cases h2 : Spec.DeltaMaxOk c i <;> simp [h1, h2]
  · simp [hf]

/-- **accept_sound**: acceptance implies every rule, spelled out. -/
theorem accept_sound (p : Policy) (c : Cfg) (i : Inputs)
    (h : Spec.checkHtlcForward p c i = .accept) :
    i.outgoing ≤ i.incoming ∧
    (i.incoming : Int) - (i.outgoing : Int) ≥
      (Spec.outFee p i.outgoing : Int)
        + Spec.inFee i.inBase i.inRate (i.outgoing + Spec.outFee p i.outgoing) ∧
    p.minHtlc ≤ i.outgoing ∧ (p.maxHtlc = 0 ∨ i.outgoing ≤ p.maxHtlc) ∧
    i.outgoing ≤ c.bandwidth ∧
    i.height + c.rejectDelta < i.expOut ∧ i.expOut ≤ i.height + c.maxCltv ∧
    (p.timeLockDelta : Int) ≤ (i.expIn : Int) - (i.expOut : Int) ∧
    (i.expIn : Int) - (i.expOut : Int) ≤ (c.maxCltv : Int) := by
  obtain ⟨⟨h1, h2⟩, ⟨h3, h4, h5, h6, h7⟩, h8, h9⟩ := (accept_iff_rules p c i).mp h
  unfold Spec.requiredFee at h2
  exact ⟨h1, by omega, h3, h4, h7, h5, h6, h8, h9⟩

/-- **accept_complete**: if every rule holds the HTLC is accepted. -/
theorem accept_complete (p : Policy) (c : Cfg) (i : Inputs) (h : Spec.AllOk p c i) :
    Spec.checkHtlcForward p c i = .accept :=
  (accept_iff_rules p c i).mpr h

/-- **reject_names_violated_rule**: every failure verdict names a rule that is really violated. -/
theorem reject_names_violated_rule (p : Policy) (c : Cfg) (i : Inputs) (v : Verdict)
    (hv : Spec.checkHtlcForward p c i = v) (hne : v ≠ .accept) : Spec.Violated p c i v := by
  subst hv
  unfold Spec.checkHtlcForward at hne ⊢
  by_cases hf : Spec.FeeOk p i
  · simp only [hf, not_true, if_false] at hne ⊢
    have ht := transit_reject_names_violated_rule p c i.outgoing i.expOut i.height _ rfl
    cases htr : Spec.checkHtlcTransit p c i.outgoing i.expOut i.height with
    | accept =>
      simp only [htr] at hne ⊢
      by_cases h1 : Spec.DeltaOk p i <;> by_cases h2 : Spec.DeltaMaxOk c i <;>
        simp [h1, h2, Spec.Violated] at hne ⊢
    | feeInsufficient => rw [htr] at ht; exact (ht (by decide)).elim
    | incorrectCltvExpiry => rw [htr] at ht; exact (ht (by decide)).elim
    | deltaTooFar => rw [htr] at ht; exact (ht (by decide)).elim
    | amountBelowMinimum => rw [htr] at ht; exact ht (by decide)
    | htlcExceedsMax => rw [htr] at ht; exact ht (by decide)
    | expiryTooSoon => rw [htr] at ht; exact ht (by decide)
    | expiryTooFar => rw [htr] at ht; exact ht (by decide)
    | insufficientBandwidth => rw [htr] at ht; exact ht (by decide)
  · simp [hf, Spec.Violated]

/-- **never_loses_money** (exact decision): acceptance implies incoming ≥ outgoing, and the
    margin covers the required fee whenever that fee is positive. -/
theorem never_loses_money (p : Policy) (c : Cfg) (i : Inputs)
    (h : Spec.checkHtlcForward p c i = .accept) :
    i.outgoing ≤ i.incoming ∧
      (i.incoming : Int) - (i.outgoing : Int) ≥ max 0 (Spec.requiredFee p i) := by
  obtain ⟨⟨h1, h2⟩, -⟩ := (accept_iff_rules p c i).mp h
  refine ⟨h1, ?_⟩
  rcases Int.le_total 0 (Spec.requiredFee p i) with h0 | h0
  · rw [Int.max_eq_right h0]; exact h2
  · rw [Int.max_eq_left h0]; omega

/-- The separate guard `incoming < outgoing` is necessary: with a discount the fee inequality
    alone can hold although money would be lost (−100 % inbound rate, out = 1000, in = 0). -/
theorem fee_inequality_alone_insufficient :
    ∃ (p : Policy) (i : Inputs), Spec.requiredFee p i ≤ (i.incoming : Int) - (i.outgoing : Int) ∧
      i.incoming < i.outgoing :=
  ⟨⟨0, 0, 0, 0, 40⟩, ⟨0, 1000, 140, 100, 10, 0, -1000000⟩, by decide⟩

/-! ## The Go arithmetic -/

/-- **gen_never_loses_money**: for ALL inputs (no domain restriction, wrapped or not) the Go
    decision accepts only if incoming ≥ outgoing. -/
theorem gen_never_loses_money (p : Policy) (c : Cfg) (i : Inputs)
    (h : Gen.checkHtlcForward p c i = .accept) : i.outgoing ≤ i.incoming := by
  unfold Gen.checkHtlcForward at h
  by_cases hlt : i.incoming < i.outgoing
  · simp [hlt] at h
  · omega

/-- `ExpectedFee` is exact on the domain (amount ≤ 10^13 msat, rate ≤ 10^6 ppm, base < 2^32). -/
theorem expected_fee_refines (p : Policy) (amt : Nat) (ha : amt ≤ 10000000000000)
    (hr : p.feeRate ≤ 1000000) (hb : p.baseFee < 4294967296) :
    Gen.expectedFee p.baseFee p.feeRate amt = Spec.outFee p amt :=
  expectedFee_exact ha hr hb

/-- `InboundFee.CalcFee` is exact whenever |clamp(rate)|·amt < 2^63. -/
theorem inbound_fee_refines (ib ir : Int) (amt : Nat) (hib : IsI32 ib)
    (hw : (clampRate ir).natAbs * amt < 9223372036854775808) (ha : amt < 9223372036854775808) :
    Gen.calcFee ib ir amt = Spec.inFee ib ir amt :=
  calcFee_exact hib ha hw

/-- **gen_refines_spec**: on `Dom` the Go decision equals the exact decision — no wrap-around
    affects the verdict. -/
theorem gen_refines_spec (p : Policy) (c : Cfg) (i : Inputs) (h : Dom p c i) :
    Gen.checkHtlcForward p c i = Spec.checkHtlcForward p c i := by
  have hfee := gen_feeCond_iff h
  obtain ⟨⟨_, _, _, _, _, _, hh, _, heo, _, hrj, hmc⟩, _⟩ := h
  have htr : Gen.canSendHtlc p c i.outgoing i.expOut i.height
      = Spec.checkHtlcTransit p c i.outgoing i.expOut i.height :=
    gen_canSend_eq ⟨hh, heo, hrj, hmc⟩
  have hd := gen_delta_eq p c i
  unfold Gen.checkHtlcForward Spec.checkHtlcForward
  rw [htr]
  by_cases hf : Spec.FeeOk p i
  · have hn : ¬ (i.incoming < i.outgoing ∨ Gen.actualFee i < Gen.expectedTotal p i) := by
      rw [hfee]; exact fun g => g hf
    simp only [hn, hf, if_false, not_true]
    cases Spec.checkHtlcTransit p c i.outgoing i.expOut i.height <;> first | rfl | exact hd
  · have hn : (i.incoming < i.outgoing ∨ Gen.actualFee i < Gen.expectedTotal p i) := hfee.mpr hf
    simp only [hn, hf, if_true, not_false_eq_true]

/-- `CheckHtlcTransit` equals the exact decision for heights/expiries/deltas < 2^31. -/
theorem gen_transit_refines_spec (p : Policy) (c : Cfg) (amt t h : Nat) (hd : DomTransit c t h) :
    Gen.checkHtlcTransit p c amt t h = Spec.checkHtlcTransit p c amt t h :=
  gen_canSend_eq hd

/-- On `Dom` the Go decision accepts iff all exact rules hold. -/
theorem gen_accept_iff_rules (p : Policy) (c : Cfg) (i : Inputs) (h : Dom p c i) :
    Gen.checkHtlcForward p c i = .accept ↔ Spec.AllOk p c i := by
  rw [gen_refines_spec p c i h]; exact accept_iff_rules p c i

/-- On `Dom` every failure returned by the Go decision names a rule violated in exact integers. -/
theorem gen_reject_names_violated_rule (p : Policy) (c : Cfg) (i : Inputs) (h : Dom p c i)
    (v : Verdict) (hv : Gen.checkHtlcForward p c i = v) (hne : v ≠ .accept) :
    Spec.Violated p c i v := by
  rw [gen_refines_spec p c i h] at hv; exact reject_names_violated_rule p c i v hv hne

/-- The planned domain is enough for HTLCs up to 4.5 BTC … -/
theorem dom_of_small_amount (p : Policy) (c : Cfg) (i : Inputs) (h : DomPlanned p c i)
    (hs : i.outgoing ≤ 450000000000) : Dom p c i := by
  refine ⟨h, ?_⟩
  obtain ⟨_, hout, hb, hr, _, _, _⟩ := h
  unfold InboundNoWrap
  have hc := clampRate_bounds i.inRate
  have hm : i.outgoing * p.feeRate ≤ 450000000000 * 1000000 := Nat.mul_le_mul hs hr
  have hx : i.outgoing + Spec.outFee p i.outgoing ≤ 904294967296 := by
    unfold Spec.outFee
    generalize i.outgoing * p.feeRate = m at *
    omega
  have hn : (clampRate i.inRate).natAbs ≤ 10000000 := by omega
  calc (clampRate i.inRate).natAbs * (i.outgoing + Spec.outFee p i.outgoing)
      ≤ 10000000 * 904294967296 := Nat.mul_le_mul hn hx
    _ < 9223372036854775808 := by decide

/-- … and for any amount up to 10^13 msat when the inbound rate is within ±46 %. -/
theorem dom_of_moderate_inbound_rate (p : Policy) (c : Cfg) (i : Inputs) (h : DomPlanned p c i)
    (hr1 : -460000 ≤ i.inRate) (hr2 : i.inRate ≤ 460000) : Dom p c i := by
  refine ⟨h, ?_⟩
  obtain ⟨_, hout, hb, hr, _, _, _⟩ := h
  unfold InboundNoWrap
  have hofle := spec_outFee_le hout hr hb
  have hcl : clampRate i.inRate = i.inRate := clampRate_id (by omega) (by omega)
  have hn : (clampRate i.inRate).natAbs ≤ 460000 := by rw [hcl]; omega
  have hx : i.outgoing + Spec.outFee p i.outgoing ≤ 20004294967296 := by omega
  calc (clampRate i.inRate).natAbs * (i.outgoing + Spec.outFee p i.outgoing)
      ≤ 460000 * 20004294967296 := Nat.mul_le_mul hn hx
    _ < 9223372036854775808 := by decide

/-- Rules whose Go evaluation involves no wrapping arithmetic hold on acceptance for ALL inputs. -/
theorem gen_accept_sound_nowrap (p : Policy) (c : Cfg) (i : Inputs)
    (h : Gen.checkHtlcForward p c i = .accept) :
    i.outgoing ≤ i.incoming ∧ Spec.MinOk p i.outgoing ∧ Spec.MaxOk p i.outgoing ∧
      Spec.BwOk c i.outgoing ∧ Spec.DeltaOk p i ∧ Spec.DeltaMaxOk c i := by
  have hm := gen_never_loses_money p c i h
  unfold Gen.checkHtlcForward at h
  by_cases hfee : i.incoming < i.outgoing ∨ Gen.actualFee i < Gen.expectedTotal p i
  · simp [hfee] at h
  · simp only [hfee, if_false] at h
    have hd := gen_delta_eq p c i
    cases hcs : Gen.canSendHtlc p c i.outgoing i.expOut i.height <;> simp only [hcs] at h <;>
      try (exact absurd h (by decide))
    rw [hd] at h
    have hdelta : Spec.DeltaOk p i ∧ Spec.DeltaMaxOk c i := by
      by_cases h1 : Spec.DeltaOk p i <;> by_cases h2 : Spec.DeltaMaxOk c i <;> simp [h1, h2] at h ⊢
    obtain ⟨a1, a2, a3⟩ := gen_canSend_accept hcs
    exact ⟨hm, a1, a2, a3, hdelta.1, hdelta.2⟩

/-- Failures whose Go evaluation involves no wrapping arithmetic name a violated rule for ALL inputs. -/
theorem gen_reject_names_nowrap (p : Policy) (c : Cfg) (i : Inputs) (v : Verdict)
    (hv : Gen.checkHtlcForward p c i = v)
    (hk : v = .amountBelowMinimum ∨ v = .htlcExceedsMax ∨ v = .insufficientBandwidth ∨
          v = .incorrectCltvExpiry ∨ v = .deltaTooFar) : Spec.Violated p c i v := by
  subst hv
  unfold Gen.checkHtlcForward at hk ⊢
  by_cases hfee : i.incoming < i.outgoing ∨ Gen.actualFee i < Gen.expectedTotal p i
  · simp [hfee] at hk
  · simp only [hfee, if_false] at hk ⊢
    have hd := gen_delta_eq p c i
    rcases @gen_canSend_cases p c i.outgoing i.expOut i.height with h | ⟨h, hr⟩ | ⟨h, hr⟩ | h | h | ⟨h, hr⟩
    · simp only [h] at hk ⊢
      rw [hd] at hk ⊢
      by_cases h1 : Spec.DeltaOk p i <;> by_cases h2 : Spec.DeltaMaxOk c i <;>
        simp [h1, h2, Spec.Violated] at hk ⊢
    · simp only [h]; exact hr
    · simp only [h]; exact hr
    · simp [h] at hk
    · simp [h] at hk
    · simp only [h]; exact hr

/-! ## Witnesses: the domain is sharp -/

/-- The domain planned in DESIGN.md (any `int32` inbound rate, amounts ≤ 10^13 msat) is NOT enough:
    `rate * int64(amt)` in `InboundFee.CalcFee` wraps for amounts ≥ 2^63/10^7 ≈ 9.22 BTC.
    A 9.3 BTC forward with a −1000 % inbound rate (discount) satisfies every exact rule
    but the Go arithmetic rejects it with `FeeInsufficient`. -/
theorem planned_dom_wrap_rejects_valid_forward :
    ∃ (p : Policy) (c : Cfg) (i : Inputs), DomPlanned p c i ∧ Spec.AllOk p c i ∧
      Spec.checkHtlcForward p c i = .accept ∧ Gen.checkHtlcForward p c i = .feeInsufficient :=
  ⟨⟨0, 0, 0, 0, 40⟩, ⟨3, 2016, 989987184000⟩,
   ⟨930000001000, 930000000000, 1140, 1100, 1000, 0, -10000000⟩, by decide⟩

/-- Same wrap with a +1000 % inbound rate: the exact rule demands 9.3·10^12 msat of fee, the Go
    arithmetic accepts 1000 msat (no money is lost, `gen_never_loses_money`, but the advertised
    fee is not collected). -/
theorem planned_dom_wrap_accepts_underpaying_forward :
    ∃ (p : Policy) (c : Cfg) (i : Inputs), DomPlanned p c i ∧ ¬ Spec.FeeOk p i ∧
      Spec.checkHtlcForward p c i = .feeInsufficient ∧ Gen.checkHtlcForward p c i = .accept :=
  ⟨⟨0, 0, 0, 0, 40⟩, ⟨3, 2016, 989987184000⟩,
   ⟨930000001000, 930000000000, 1140, 1100, 1000, 0, 10000000⟩, by decide⟩

/-- Outside the domain: `heightNow + OutgoingCltvRejectDelta` wraps near 2^32 — an outgoing expiry
    far in the past (100 at height 2^32−2) is accepted. -/
theorem wrap_height_changes_verdict :
    ∃ (p : Policy) (c : Cfg) (i : Inputs), Spec.checkHtlcForward p c i = .expiryTooSoon ∧
      Gen.checkHtlcForward p c i = .accept :=
  ⟨⟨0, 0, 1000, 100, 40⟩, ⟨3, 2016, 989987184000⟩,
   ⟨200000, 100000, 140, 100, 4294967294, 0, 0⟩, by decide⟩

/-- Outside the domain: `amt * rate` wraps in uint64 for an absurd rate (2^40 ppm) — the exact
    rule demands ≈ 1.8·10^13 msat of fee, the Go arithmetic accepts 1000 msat. -/
theorem wrap_fee_rate_changes_verdict :
    ∃ (p : Policy) (c : Cfg) (i : Inputs), Spec.checkHtlcForward p c i = .feeInsufficient ∧
      Gen.checkHtlcForward p c i = .accept :=
  ⟨⟨0, 0, 1000, 1099511627776, 40⟩, ⟨3, 2016, 989987184000⟩,
   ⟨16778216, 16777216, 1140, 1100, 1000, 0, 0⟩, by decide⟩

/-! ## Non-vacuity -/

/-- `Dom` is inhabited by an accepted, non-trivial forward (fee exactly at the threshold, with an
    inbound discount), and the Go decision accepts it. -/
example : ∃ (p : Policy) (c : Cfg) (i : Inputs), Dom p c i ∧ Spec.AllOk p c i ∧
    Gen.checkHtlcForward p c i = .accept ∧ Spec.requiredFee p i = 89 :=
  ⟨⟨1000, 990000000, 1000, 100, 40⟩, ⟨3, 2016, 5000000000⟩,
   ⟨1000089, 1000000, 840100, 840050, 840000, -10, -1000⟩, by decide⟩

/-- one msat less is rejected for the fee -/
example : Gen.checkHtlcForward ⟨1000, 990000000, 1000, 100, 40⟩ ⟨3, 2016, 5000000000⟩
    ⟨1000088, 1000000, 840100, 840050, 840000, -10, -1000⟩ = .feeInsufficient := by decide

/-- every failure constructor is reachable inside `Dom` -/
example : ∀ v : Verdict, ∃ (p : Policy) (c : Cfg) (i : Inputs), Dom p c i ∧
    Gen.checkHtlcForward p c i = v := by
  intro v
  cases v
  · exact ⟨⟨1000, 0, 1000, 100, 40⟩, ⟨3, 2016, 5000000⟩, ⟨2000, 1000, 150, 100, 10, 0, 0⟩, by decide⟩
  · exact ⟨⟨1000, 0, 1000, 100, 40⟩, ⟨3, 2016, 5000000⟩, ⟨1999, 1000, 150, 100, 10, 0, 0⟩, by decide⟩
  · exact ⟨⟨1000, 0, 1000, 100, 40⟩, ⟨3, 2016, 5000000⟩, ⟨2000, 999, 150, 100, 10, 0, 0⟩, by decide⟩
  · exact ⟨⟨1000, 999, 1000, 100, 40⟩, ⟨3, 2016, 5000000⟩, ⟨2000, 1000, 150, 100, 10, 0, 0⟩, by decide⟩
  · exact ⟨⟨1000, 0, 1000, 100, 40⟩, ⟨3, 2016, 5000000⟩, ⟨2000, 1000, 150, 13, 10, 0, 0⟩, by decide⟩
  · exact ⟨⟨1000, 0, 1000, 100, 40⟩, ⟨3, 2016, 5000000⟩, ⟨2000, 1000, 3000, 2027, 10, 0, 0⟩, by decide⟩
  · exact ⟨⟨1000, 0, 1000, 100, 40⟩, ⟨3, 2016, 999⟩, ⟨2000, 1000, 150, 100, 10, 0, 0⟩, by decide⟩
  · exact ⟨⟨1000, 0, 1000, 100, 40⟩, ⟨3, 2016, 5000000⟩, ⟨2000, 1000, 139, 100, 10, 0, 0⟩, by decide⟩
  · exact ⟨⟨1000, 0, 1000, 100, 40⟩, ⟨3, 50, 5000000⟩, ⟨2000, 1000, 111, 60, 10, 0, 0⟩, by decide⟩

/-! ## Level 2: the switch forwards only over a link whose own policy accepts -/

/-- **forwarded_link_accepts**: whatever the iteration order of the candidate links and whatever
    the random draw, the link that receives the add is one of the candidates, is eligible, and its
    OWN `CheckHtlcForward` (own policy, cfg, bandwidth) accepted this HTLC. -/
theorem forwarded_link_accepts (nodeMode : Bool) (req : Nat) (links : List Cand) (r : Nat)
    (i : Inputs) (s : Nat)
    (h : Gen.handlePacketAdd nodeMode req links r i = .forward s) :
    ∃ l ∈ links, l.scid = s ∧ l.eligible = true ∧ Gen.checkHtlcForward l.p l.c i = .accept := by
  unfold Gen.handlePacketAdd at h
  simp only [] at h
  cases hd : (Gen.scanLinks links i).dests[r % (Gen.scanLinks links i).dests.length]? with
  | none =>
    rw [hd] at h
    cases nodeMode <;> simp at h
    cases he : (Gen.scanLinks links i).errs req <;> simp [he] at h
  | some d =>
    rw [hd] at h
    simp only [SwOutcome.forward.injEq] at h
    have hmem : d ∈ (Gen.scanLinks links i).dests := List.mem_of_getElem? hd
    rw [scan_dests, List.mem_filter] at hmem
    have hnone : Gen.linkFailure d i = none := by
      cases hlf : Gen.linkFailure d i <;> simp [hlf] at hmem ⊢
    exact ⟨d, hmem.1, h, (linkFailure_none_iff d i).mp hnone⟩


/-- **forwarded_link_meets_policy**: if the inputs are in `Dom` for every candidate's policy, the
    link that receives the add satisfies every exact rule of ITS OWN advertised policy (and no money
    is lost on it). -/
theorem forwarded_link_meets_policy (nodeMode : Bool) (req : Nat) (links : List Cand) (r : Nat)
    (i : Inputs) (s : Nat) (hdom : ∀ l ∈ links, Dom l.p l.c i)
    (h : Gen.handlePacketAdd nodeMode req links r i = .forward s) :
    ∃ l ∈ links, l.scid = s ∧ l.eligible = true ∧ Spec.AllOk l.p l.c i ∧ i.outgoing ≤ i.incoming := by
  obtain ⟨l, hl, hs, he, ha⟩ := forwarded_link_accepts nodeMode req links r i s h
  have hall := (gen_accept_iff_rules l.p l.c i (hdom l hl)).mp ha
  exact ⟨l, hl, hs, he, hall, hall.1.1⟩

/-- **fails_only_if_no_link_accepts**: the switch fails the add only if no candidate link is
    eligible with an accepting `CheckHtlcForward`. -/
theorem fails_only_if_no_link_accepts (nodeMode : Bool) (req : Nat) (links : List Cand) (r : Nat)
    (i : Inputs) (f : SwFailure)
    (h : Gen.handlePacketAdd nodeMode req links r i = .fail f) :
    ∀ l ∈ links, ¬ (l.eligible = true ∧ Gen.checkHtlcForward l.p l.c i = .accept) := by
  intro l hl hacc
  unfold Gen.handlePacketAdd at h
  simp only [] at h
  have hmem : l ∈ (Gen.scanLinks links i).dests := by
    rw [scan_dests, List.mem_filter]
    exact ⟨hl, by rw [(linkFailure_none_iff l i).mpr hacc]; rfl⟩
  have hpos : 0 < (Gen.scanLinks links i).dests.length := List.length_pos_of_mem hmem
  have hlt : r % (Gen.scanLinks links i).dests.length < (Gen.scanLinks links i).dests.length :=
    Nat.mod_lt _ hpos
  rw [List.getElem?_eq_getElem hlt] at h
  simp at h

/-- **scid_failure_is_requested_links**: for a channel-addressed forward that fails, when the
    requested channel is among the candidates (short channel ids pairwise distinct), the failure
    returned is exactly the requested link's own failure. -/
theorem scid_failure_is_requested_links (req : Nat) (links : List Cand) (r : Nat) (i : Inputs)
    (f : SwFailure) (l : Cand) (hl : l ∈ links) (hreq : l.scid = req)
    (hnd : (links.map (·.scid)).Nodup)
    (h : Gen.handlePacketAdd false req links r i = .fail f) :
    Gen.linkFailure l i = some f := by
  have hno := fails_only_if_no_link_accepts false req links r i f h l hl
  have hsome : ∃ g, Gen.linkFailure l i = some g := by
    cases hlf : Gen.linkFailure l i with
    | none => exact absurd ((linkFailure_none_iff l i).mp hlf) hno
    | some g => exact ⟨g, rfl⟩
  obtain ⟨g, hg⟩ := hsome
  have herr : (Gen.scanLinks links i).errs req = some g := by
    unfold Gen.scanLinks; rw [← hreq]; exact scan_foldl_errs i links _ l g hl hnd hg
  unfold Gen.handlePacketAdd at h
  simp only [] at h
  cases hd : (Gen.scanLinks links i).dests[r % (Gen.scanLinks links i).dests.length]? with
  | some d => rw [hd] at h; simp at h
  | none =>
    rw [hd] at h
    simp only [herr, Bool.false_eq_true, if_false, SwOutcome.fail.injEq] at h
    rw [hg, h]

/-- On `Dom`, a failed channel-addressed forward names a rule that the REQUESTED link's policy
    really violates (or that link is not eligible). -/
theorem scid_failure_names_violated_rule (req : Nat) (links : List Cand) (r : Nat) (i : Inputs)
    (f : SwFailure) (l : Cand) (hl : l ∈ links) (hreq : l.scid = req)
    (hnd : (links.map (·.scid)).Nodup) (hdom : Dom l.p l.c i)
    (h : Gen.handlePacketAdd false req links r i = .fail f) :
    (f = .notEligible ∧ l.eligible = false) ∨
      ∃ v, f = .link v ∧ v ≠ .accept ∧ Spec.Violated l.p l.c i v := by
  have hlf := scid_failure_is_requested_links req links r i f l hl hreq hnd h
  cases he : l.eligible with
  | false =>
    unfold Gen.linkFailure at hlf
    simp [he] at hlf; exact Or.inl ⟨hlf.symm, rfl⟩
  | true =>
    right
    by_cases hacc : Gen.checkHtlcForward l.p l.c i = .accept
    · rw [(linkFailure_none_iff l i).mpr ⟨he, hacc⟩] at hlf; cases hlf
    · rw [linkFailure_some_link l i _ he rfl hacc] at hlf
      injection hlf with hlf
      exact ⟨_, hlf.symm, hacc, gen_reject_names_violated_rule l.p l.c i hdom _ rfl hacc⟩

/-- Non-vacuity: two parallel channels, the first one's policy rejects (base fee 1001 > 1000
    offered), the second accepts: in either iteration order and for every draw the add goes to the
    accepting channel 22 — also when channel 11 was the one requested. -/
example : ∀ r < 4,
    Gen.handlePacketAdd false 11
      [⟨11, true, ⟨1000, 0, 1001, 0, 40⟩, ⟨3, 2016, 5000000⟩⟩,
       ⟨22, true, ⟨1000, 0, 1000, 0, 40⟩, ⟨3, 2016, 5000000⟩⟩] r
      ⟨2000, 1000, 150, 100, 10, 0, 0⟩ = .forward 22 ∧
    Gen.handlePacketAdd false 11
      [⟨22, true, ⟨1000, 0, 1000, 0, 40⟩, ⟨3, 2016, 5000000⟩⟩,
       ⟨11, true, ⟨1000, 0, 1001, 0, 40⟩, ⟨3, 2016, 5000000⟩⟩] r
      ⟨2000, 1000, 150, 100, 10, 0, 0⟩ = .forward 22 := by decide

/-- … and when both reject, the failure is the requested channel's own (fee), not the other's (min). -/
example : Gen.handlePacketAdd false 11
      [⟨22, true, ⟨1001, 0, 1000, 0, 40⟩, ⟨3, 2016, 5000000⟩⟩,
       ⟨11, true, ⟨1000, 0, 1001, 0, 40⟩, ⟨3, 2016, 5000000⟩⟩] 7
      ⟨2000, 1000, 150, 100, 10, 0, 0⟩ = .fail (.link .feeInsufficient) := by decide

end LndModel.C09
