/-
C09, round 7 — theorems about the circular-route checks of `handlePacketAdd` (model: Circ.lean).

  circ_forward_link_accepts     with the circular checks in place the link that receives the add is
                                still registered, eligible and accepted by its own CheckHtlcForward
  circular_refusal_iff          the refusal is given exactly when circular routes are disallowed and
                                the requested id names the incoming channel (same id or same base)
  node_hop_never_circular       a node-addressed forward never leaves over the incoming channel
                                when circular routes are disallowed
-/
import LndModel.C09.Props
import LndModel.C09.Circ

namespace LndModel.C09

/-- two ids name the same channel for the switch -/
def SameChannel (baseIndex : Nat → Option Nat) (a b : Nat) : Prop :=
  a = b ∨ ∃ x, baseIndex a = some x ∧ baseIndex b = some x

theorem checkCircular_iff (baseIndex : Nat → Option Nat) (a b : Nat) (allow : Bool) :
    Gen.checkCircularForward baseIndex a b allow = true ↔ (allow = false ∧ SameChannel baseIndex a b) := by
  unfold Gen.checkCircularForward SameChannel
  by_cases hab : a = b
  · subst hab; cases allow <;> simp
  · simp only [hab, if_false, false_or]
    cases ha : baseIndex a with
    | none => simp
    | some x =>
      cases hb : baseIndex b with
      | none => simp
      | some y =>
        by_cases hxy : x = y
        · subst hxy; cases allow <;> simp
        · have hyx : ¬ y = x := fun h => hxy h.symm
          simp [hxy, hyx]

/-- **circular_refusal_iff**: a channel-addressed add is refused as circular exactly when
    forwarding is enabled, circular routes are disallowed and the requested id names the channel
    the add arrived on (identical id, or both ids have the same base scid). -/
theorem circular_refusal_iff (rj : Bool) (peerKey : Nat) (isAlias : Bool)
    (baseIndex : Nat → Option Nat) (allow : Bool) (incoming chanID : Nat) (allLinks : List Cand)
    (r : Nat) (i : Inputs) :
    Gen.handlePacketAddCirc rj false peerKey isAlias baseIndex allow incoming chanID allLinks r i
        = .circular ↔
      (rj = false ∧ allow = false ∧ SameChannel baseIndex incoming chanID) := by
  unfold Gen.handlePacketAddCirc
  cases rj with
  | true => simp
  | false =>
    simp only [Bool.false_eq_true, if_false, true_and]
    cases hc : Gen.checkCircularForward baseIndex incoming chanID allow with
    | true =>
      simp only [if_true, true_iff]
      exact (checkCircular_iff _ _ _ _).mp hc
    | false =>
      simp only [Bool.false_eq_true, if_false]
      constructor
      · intro h; cases h
      · intro h
        have := (checkCircular_iff baseIndex incoming chanID allow).mpr h
        rw [hc] at this; cases this

/-- **circ_forward_link_accepts**: with the circular-route checks in place, for every id, order
    and draw, the link that receives the add is registered, eligible, and its own
    `CheckHtlcForward` accepted; node-addressed: it leads to the named peer and — when circular
    routes are disallowed — is not the channel the add arrived on. -/
theorem circ_forward_link_accepts (rj nodeMode : Bool) (peerKey : Nat) (isAlias : Bool)
    (baseIndex : Nat → Option Nat) (allow : Bool) (incoming chanID : Nat) (allLinks : List Cand)
    (r : Nat) (i : Inputs) (s : Nat)
    (h : Gen.handlePacketAddCirc rj nodeMode peerKey isAlias baseIndex allow incoming chanID
      allLinks r i = .out (.forward s)) :
    rj = false ∧ ∃ l ∈ allLinks, l.scid = s ∧ l.eligible = true ∧
      Gen.checkHtlcForward l.p l.c i = .accept ∧
      (nodeMode = true → l.peer = peerKey ∧
        (allow = false → ¬ SameChannel baseIndex incoming s)) ∧
      (nodeMode = false → allow = false → ¬ SameChannel baseIndex incoming chanID) := by
  unfold Gen.handlePacketAddCirc at h
  cases rj with
  | true => simp at h
  | false =>
    refine ⟨rfl, ?_⟩
    simp only [Bool.false_eq_true, if_false] at h
    cases nodeMode with
    | true =>
      simp only [if_true] at h
      cases hfl : (allLinks.filter (fun l => l.peer = peerKey)).filter
          (fun l => !Gen.checkCircularForward baseIndex incoming l.scid allow) with
      | nil => simp [hfl] at h
      | cons x xs =>
        simp only [hfl, AddOutcome.out.injEq] at h
        obtain ⟨l, hl, hs, he, ha⟩ := forwarded_link_accepts true 0 (x :: xs) r i s h
        rw [← hfl, List.mem_filter, List.mem_filter] at hl
        obtain ⟨⟨hmem, hpeer⟩, hnc⟩ := hl
        refine ⟨l, hmem, hs, he, ha, fun _ => ⟨by simpa using hpeer, ?_⟩, fun hh => by simp at hh⟩
        intro hallow hsame
        have hc := (checkCircular_iff baseIndex incoming l.scid allow).mpr ⟨hallow, by rw [hs]; exact hsame⟩
        simp [hc] at hnc
    | false =>
      simp only [Bool.false_eq_true, if_false] at h
      cases hc : Gen.checkCircularForward baseIndex incoming chanID allow with
      | true => simp [hc] at h
      | false =>
        simp only [hc, Bool.false_eq_true, if_false, AddOutcome.out.injEq] at h
        obtain ⟨-, l, hl, hs, he, ha, -⟩ := mapped_forward_link_accepts _ _ _ _ _ _ _ _ _ _ h
        refine ⟨l, hl, hs, he, ha, fun hh => by simp at hh, fun _ hallow hsame => ?_⟩
        have := (checkCircular_iff baseIndex incoming chanID allow).mpr ⟨hallow, hsame⟩
        rw [hc] at this; cases this

/-- Non-vacuity: channel 11 has alias 16000001 (both with base 11).  An add that arrived on 11 and
    names the alias is refused as circular, allowed when circular routes are; a node-addressed add
    towards the same peer goes over the parallel channel 22 only, for every draw. -/
example :
    let bi : Nat → Option Nat := fun k => if k = 11 ∨ k = 16000001 then some 11 else none
    let l11 : Cand := { scid := 11, eligible := true, p := ⟨0, 0, 0, 0, 0⟩, c := ⟨3, 2016, 5000000⟩, peer := 1 }
    let l22 : Cand := { scid := 22, eligible := true, p := ⟨0, 0, 0, 0, 0⟩, c := ⟨3, 2016, 5000000⟩, peer := 1 }
    let i : Inputs := ⟨2000, 1000, 150, 100, 10, 0, 0⟩
    Gen.handlePacketAddCirc false false 0 true bi false 11 16000001 [l11, l22] 0 i = .circular ∧
    (∃ s, Gen.handlePacketAddCirc false false 0 true bi true 11 16000001 [l11, l22] 0 i = .out (.forward s)) ∧
    (∀ r < 4, Gen.handlePacketAddCirc false true 1 false bi false 11 0 [l11, l22] r i = .out (.forward 22)) ∧
    Gen.handlePacketAddCirc false true 1 false bi false 11 0 [l11] 0 i = .out (.fail .unknownNextPeer) := by
  refine ⟨by decide, ⟨11, by decide⟩, by decide, by decide⟩

end LndModel.C09
