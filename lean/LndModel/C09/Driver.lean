/-
C09 driver: replays a harness trace on the model (correspondence, `MISMATCH`)
and evaluates the property monitor on the implementation's answers (`MONITOR`).

(X) every `fwd`/`tr`/`efee`/`calc` line is recomputed with `Gen.*` (Go fixed-width
    semantics) and compared with the implementation's answer, including the
    failure payload.
(S) the monitor recomputes, with exact unbounded integers and its own code (it does
    not call `Gen.*` nor `Spec.*`), whether each named rule holds on the inputs of
    the line, and checks the property statement on the implementation's answer.  The
    answer judged is the FINAL wire failure (BOLT-4 code after NewLinkError /
    NewDetailedLinkError / WireMessage / EncodeFailure, at switch level decoded from
    the update_fail_htlc mailed to the incoming link): the code must name a rule the
    (policy, cfg, inputs) violate, and an embedded channel_update must be one the
    node's update sources returned for this channel during the evaluation.
-/
import LndModel.Prelude.Lines
import LndModel.C09.Model
import LndModel.C09.Path
import LndModel.C09.Circ

open LndModel LndModel.Lines LndModel.C09

namespace LndModel.C09.Driver

structure St where
  caseId : String := "0"
  lines : Nat := 0
  cases : Nat := 0
  evals : Nat := 0
  nontrivial : Nat := 0
  mismatches : Nat := 0
  monitorFails : Nat := 0
  samples : Nat := 0
  fwd : Nat := 0
  tr : Nat := 0
  nEfee : Nat := 0
  nCalc : Nat := 0
  inDom : Nat := 0
  wrapAffected : Nat := 0      -- lines where Go semantics and exact integers give different verdicts
  inbOverflow : Nat := 0       -- lines inside the planned domain where CalcFee's int64 product wraps
  vAccept : Nat := 0
  vFee : Nat := 0
  vMin : Nat := 0
  vMax : Nat := 0
  vSoon : Nat := 0
  vFar : Nat := 0
  vBw : Nat := 0
  vCltv : Nat := 0
  vOther : Nat := 0
  bFee : Nat := 0              -- lines within ±1 of the fee threshold
  bAmt : Nat := 0              -- out within ±1 of min / max / bandwidth
  bExp : Nat := 0              -- expiry within ±1 of a time-lock threshold
  facts : Nat := 0
  sw : Nat := 0
  swLocal : Nat := 0
  swForwarded : Nat := 0
  swMixed : Nat := 0           -- switch evaluations with both an admissible and a rejecting candidate
  swNotRequested : Nat := 0    -- forwarded over a link other than the requested one
  swNodeMode : Nat := 0
  swViaAlias : Nat := 0        -- channel named by an alias
  swViaConfirmed : Nat := 0    -- channel named by the confirmed scid of a zero-conf channel
  swRejectHTLC : Nat := 0
  updEmbedded : Nat := 0       -- failures carrying a channel_update
  updDisabled : Nat := 0       -- … whose channel_flags have the disabled bit
  updAlias : Nat := 0          -- … taken from FailAliasUpdate
  updForeignScid : Nat := 0    -- … whose short channel id is not the link's
  fetchErr : Nat := 0          -- evaluations where no channel_update can be obtained
  vNodeFail : Nat := 0
  e2e : Nat := 0               -- level 3: payments forwarded (or not) by the middle hop
  e2eSend : Nat := 0           -- level 3: locally sourced payments (SendHTLC)
  e2eForwarded : Nat := 0
  e2eLocal : Nat := 0          -- level 3: refused by the sender's own switch (not an evaluation)
  e2eBoundary : Nat := 0       -- level 3: evaluations within ±1 of a threshold
  aux : Nat := 0               -- evaluations with an aux traffic shaper installed
  auxCustom : Nat := 0
  auxHandled : Nat := 0
  auxError : Nat := 0
  circ : Nat := 0              -- direct calls of Switch.checkCircularForward
  circRefused : Nat := 0
  circSameChannel : Nat := 0
  fau : Nat := 0               -- direct calls of Switch.failAliasUpdate
  fauSome : Nat := 0
  fauRelabelled : Nat := 0
  clauseCounts : List (String × Nat) := []   -- MONITOR lines printed per clause (capped per clause)

def mismatch (s : St) (detail : String) : IO St := do
  if s.mismatches < 200 then
    IO.println s!"MISMATCH case={s.caseId} line={s.lines} {detail}"
  return { s with mismatches := s.mismatches + 1 }

def monitor (s : St) (clause detail : String) : IO St := do
  let n := (s.clauseCounts.lookup clause).getD 0
  if n < 25 then
    IO.println s!"MONITOR case={s.caseId} clause={clause} line={s.lines} {detail}"
  let cc := (clause, n + 1) :: s.clauseCounts.filter (·.1 != clause)
  return { s with monitorFails := s.monitorFails + 1, clauseCounts := cc }

/-- split `a b c => r p` into argument words and result words -/
def splitArrow (ws : List String) : List String × List String :=
  (ws.takeWhile (· ≠ "=>"), (ws.dropWhile (· ≠ "=>")).drop 1)

def ints? (ws : List String) : Option (List Int) := ws.mapM int?

/-! ### exact-integer helpers of the monitor (independent of Model.lean) -/

/-- truncating division (towards zero) from natural-number division -/
def truncDiv (a : Int) (b : Nat) : Int :=
  let q : Int := ((a.natAbs / b : Nat) : Int)
  if a < 0 then -q else q

def absI (a : Int) : Int := if a < 0 then -a else a

def clampM (r : Int) : Int := if r > 10000000 then 10000000 else if r < -10000000 then -10000000 else r

def isI32 (x : Int) : Bool := decide (-2147483648 ≤ x) && decide (x ≤ 2147483647)

def near (a b : Int) : Bool := absI (a - b) ≤ 1

structure Rules where
  feeOk : Bool
  minOk : Bool
  maxOk : Bool
  soonOk : Bool
  farOk : Bool
  bwOk : Bool
  deltaOk : Bool
  dmaxOk : Bool
  domFee : Bool
  domExp : Bool
  inbOverflow : Bool
  req : Int

def countVerdict (s : St) (v : String) : St :=
  match v with
  | "accept" => { s with vAccept := s.vAccept + 1 }
  | "FeeInsufficient" => { s with vFee := s.vFee + 1 }
  | "AmountBelowMinimum" => { s with vMin := s.vMin + 1 }
  | "TemporaryChannelFailure/HtlcExceedsMax" => { s with vMax := s.vMax + 1 }
  | "ExpiryTooSoon" => { s with vSoon := s.vSoon + 1 }
  | "ExpiryTooFar" => { s with vFar := s.vFar + 1 }
  | "TemporaryChannelFailure/InsufficientBalance" => { s with vBw := s.vBw + 1 }
  | "IncorrectCltvExpiry" => { s with vCltv := s.vCltv + 1 }
  | _ => { s with vOther := s.vOther + 1 }

/-- exact rules of one link from the integers on the line -/
def mkRules (min max base rate tld rej maxcltv bw inc out ein eout h ib ir : Int) : Rules :=
  let outFee : Int := base + truncDiv (out * rate) 1000000
  let x : Int := out + outFee
  let inFee : Int := ib + truncDiv (clampM ir * x) 1000000
  let req : Int := inFee + outFee
  let domFee := decide (inc ≤ 10000000000000) && decide (out ≤ 10000000000000) &&
    decide (base < 4294967296) && decide (rate ≤ 1000000) && isI32 ib && isI32 ir
  let domExp := decide (h < 2147483648) && decide (eout < 2147483648) &&
    decide (rej < 2147483648) && decide (maxcltv < 2147483648)
  { feeOk := decide (out ≤ inc) && decide (req ≤ inc - out)
    minOk := decide (min ≤ out)
    maxOk := decide (max = 0) || decide (out ≤ max)
    soonOk := decide (h + rej < eout)
    farOk := decide (eout ≤ h + maxcltv)
    bwOk := decide (out ≤ bw)
    deltaOk := decide (tld ≤ ein - eout)
    dmaxOk := decide (ein - eout ≤ maxcltv)
    domFee := domFee
    domExp := domExp
    inbOverflow := domFee && decide (absI (clampM ir) * x ≥ 9223372036854775808)
    req := req }

/-- first rule of the link that is violated on the inputs (wrap-prone rules only inside their
    realistic domain): `(rule name, known-finding tag)` -/
def firstViolated (isFwd : Bool) (r : Rules) : Option (String × String) :=
  let feeTag := if r.inbOverflow then "+inbound-overflow" else ""
  if isFwd && !r.feeOk && r.domFee then some ("fee", feeTag)
  else if !r.minOk then some ("min-htlc", "")
  else if !r.maxOk then some ("max-htlc", "")
  else if !r.soonOk && r.domExp then some ("expiry-too-soon", "")
  else if !r.farOk && r.domExp then some ("expiry-too-far", "")
  else if !r.bwOk then some ("bandwidth", "")
  else if isFwd && !r.deltaOk then some ("cltv-delta", "")
  else if isFwd && !r.dmaxOk then some ("cltv-delta-max", "")
  else none

/-- every rule holds and the inputs are inside the realistic domain of every rule -/
def surelyForwardable (isFwd : Bool) (r : Rules) : Bool :=
  (r.feeOk || !isFwd) && r.minOk && r.maxOk && r.soonOk && r.farOk && r.bwOk &&
    (r.deltaOk || !isFwd) && (r.dmaxOk || !isFwd) && (r.domFee || !isFwd) && r.domExp

/-- name of a BOLT-4 failure code (lnwire/onion_error.go) -/
def baseOfCode (code : Int) : String :=
  if code == 0 then "accept"
  else if code == 4108 then "FeeInsufficient"
  else if code == 4107 then "AmountBelowMinimum"
  else if code == 4109 then "IncorrectCltvExpiry"
  else if code == 4110 then "ExpiryTooSoon"
  else if code == 21 then "ExpiryTooFar"
  else if code == 4103 then "TemporaryChannelFailure"
  else if code == 8194 then "TemporaryNodeFailure"
  else if code == 16394 then "UnknownNextPeer"
  else if code == 4116 then "ChannelDisabled"
  else s!"code:{code}"

/-- The answer the monitor judges: the name of the code that is on the wire, with the harness'
    failure detail kept only when it belongs to that code. -/
def wireName (impl : String) (code : Int) : String :=
  let base := baseOfCode code
  if impl == "accept" || impl == "panic" then impl
  else if (impl.splitOn "/").head? == some base then impl else base

/-- fingerprint of a channel_update on a line: present, scid, flags, digest -/
structure UpdFp where
  present : Bool
  scid : Int
  flags : Int
  digest : Int
  deriving BEq

def UpdFp.toUpd (u : UpdFp) : Option Upd :=
  if u.present then some ⟨u.scid.toNat, u.flags.toNat, u.digest.toNat⟩ else none

def UpdFp.ofUpd : Option Upd → UpdFp
  | some u => ⟨true, u.scid, u.flags, u.digest⟩
  | none => ⟨false, 0, 0, 0⟩

def UpdFp.str (u : UpdFp) : String :=
  if u.present then s!"(scid {u.scid} flags {u.flags} digest {u.digest})" else "(none)"

def mkFp (xs : List Int) : UpdFp :=
  match xs with
  | [e, a, b, c] => ⟨e != 0, a, b, c⟩
  | _ => ⟨false, 0, 0, 0⟩

/-- candidate links of a switch-level line with their exact rules and update fixture
    (per link: elig unadv scid min max base rate tld rej maxcltv bw f f_scid f_fl f_dg) -/
def mkCands (inc out ein eout h ib ir : Int) (b : List Int) (fuel : Nat) :
    List (Cand × Rules × UpdFp) :=
  match fuel, b with
  | fuel + 1, e :: ua :: sc :: mn :: mx :: ba :: ra :: tl :: rj :: mc :: bw :: f :: fs :: ff :: fd :: tail =>
    let fp : UpdFp := ⟨f != 0, fs, ff, fd⟩
    ({ scid := sc.toNat, eligible := e != 0, p := ⟨mn.toNat, mx.toNat, ba.toNat, ra.toNat, tl.toNat⟩,
       c := ⟨rj.toNat, mc.toNat, bw.toNat⟩, peer := 0, unadvertised := ua != 0, fetched := fp.toUpd },
     mkRules mn mx ba ra tl rj mc bw inc out ein eout h ib ir, fp) :: mkCands inc out ein eout h ib ir tail fuel
  | _, _ => []

/-- codes whose failure message is built by `createFailureWithUpdate` from the channel's update -/
def carriesChannelUpdate (code : Int) : Bool :=
  code == 4103 || code == 4107 || code == 4108 || code == 4109 || code == 4110

/-- The property monitor for one decision. `isFwd = false`: locally sourced HTLC
    (no fee / cltv-delta rules). `updAvail`: a channel_update for the channel could be obtained
    during the evaluation; `fwdDisabled`: forwarding is switched off (cfg.RejectHTLC). -/
def monitorDecision (s : St) (isFwd : Bool) (r : Rules) (impl : String) (desc : String)
    (pre : String := "") (updAvail : Bool := true) (fwdDisabled : Bool := false) : IO St := do
  let feeTag := if r.inbOverflow then "+inbound-overflow" else ""
  let known := ["accept", "FeeInsufficient", "AmountBelowMinimum", "TemporaryChannelFailure/HtlcExceedsMax",
    "ExpiryTooSoon", "ExpiryTooFar", "TemporaryChannelFailure/InsufficientBalance", "IncorrectCltvExpiry",
    "TemporaryChannelFailure", "TemporaryChannelFailure/none", "TemporaryNodeFailure",
    "ChannelDisabled", "ChannelDisabled/ForwardsDisabled", "ChannelDisabled/other"]
  if ¬ known.contains impl then
    return ← monitor s s!"{pre}unexpected-failure" s!"verdict {impl} names no forwarding rule: {desc}"
  let feeOk := r.feeOk || !isFwd
  let deltaOk := r.deltaOk || !isFwd
  let dmaxOk := r.dmaxOk || !isFwd
  let allOk := feeOk && r.minOk && r.maxOk && r.soonOk && r.farOk && r.bwOk && deltaOk && dmaxOk
  let domFee := r.domFee || !isFwd
  if impl == "accept" then
    if fwdDisabled then
      return ← monitor s s!"{pre}forwarded-although-forwards-disabled" s!"accepted with RejectHTLC set: {desc}"
    -- accept_sound: every rule must hold (wrap-prone rules only inside their realistic domain)
    if !feeOk && domFee then
      return ← monitor s s!"accept-sound-fee{feeTag}" s!"accepted although incoming-outgoing < required fee {r.req}: {desc}"
    if !r.minOk then return ← monitor s "accept-sound-min-htlc" s!"accepted below min_htlc: {desc}"
    if !r.maxOk then return ← monitor s "accept-sound-max-htlc" s!"accepted above max_htlc: {desc}"
    if !r.soonOk && r.domExp then
      return ← monitor s "accept-sound-expiry-too-soon" s!"accepted although outgoing expiry <= height+rejectDelta: {desc}"
    if !r.farOk && r.domExp then
      return ← monitor s "accept-sound-expiry-too-far" s!"accepted although outgoing expiry > height+maxCltv: {desc}"
    if !r.bwOk then return ← monitor s "accept-sound-bandwidth" s!"accepted above spendable bandwidth: {desc}"
    if !deltaOk then return ← monitor s "accept-sound-cltv-delta" s!"accepted although expiry gap < time_lock_delta: {desc}"
    if !dmaxOk then return ← monitor s "accept-sound-cltv-delta-max" s!"accepted although expiry gap > maxCltv: {desc}"
    return s
  -- channel_disabled names "forwarding is disabled": none of the link's rules
  if impl.startsWith "ChannelDisabled" then
    if fwdDisabled then return s
    if allOk && domFee && r.domExp then
      return ← monitor s s!"{pre}accept-complete" s!"every rule holds (required fee {r.req}) but rejected with {impl}: {desc}"
    return ← monitor s s!"{pre}reject-names-violated-rule" s!"{impl} (channel_disabled) on the wire, but forwarding is not disabled and no rule of the link is named (required fee {r.req}): {desc}"
  -- temporary_node_failure names no rule: only when no channel_update is available for a rejected htlc
  if impl == "TemporaryNodeFailure" then
    if updAvail then
      return ← monitor s s!"{pre}reject-names-violated-rule" s!"temporary_node_failure although a channel_update was available (required fee {r.req}): {desc}"
    if allOk && domFee && r.domExp then
      return ← monitor s s!"{pre}accept-complete{feeTag}" s!"every rule holds (required fee {r.req}) but rejected with {impl}: {desc}"
    return s
  -- a rejection: the named rule must really be violated
  let (namedOk, inDomain, tag) : Bool × Bool × String := match impl with
    | "FeeInsufficient" => (feeOk, domFee && isFwd, feeTag)
    | "AmountBelowMinimum" => (r.minOk, true, "")
    | "TemporaryChannelFailure/HtlcExceedsMax" => (r.maxOk, true, "")
    | "ExpiryTooSoon" => (r.soonOk, r.domExp, "")
    | "ExpiryTooFar" => (r.farOk && dmaxOk, r.domExp, "")
    | "TemporaryChannelFailure/InsufficientBalance" => (r.bwOk, true, "")
    | "TemporaryChannelFailure" | "TemporaryChannelFailure/none" => (r.maxOk && r.bwOk, true, "")
    | "IncorrectCltvExpiry" => (deltaOk, isFwd, "")
    | _ => (false, false, "")
  if impl == "FeeInsufficient" && !isFwd then
    return ← monitor s "unexpected-failure" s!"fee failure for a locally sourced htlc: {desc}"
  if impl == "IncorrectCltvExpiry" && !isFwd then
    return ← monitor s "unexpected-failure" s!"cltv-delta failure for a locally sourced htlc: {desc}"
  if namedOk && inDomain then
    if allOk && domFee && r.domExp then
      return ← monitor s s!"{pre}accept-complete{tag}" s!"every rule holds (required fee {r.req}) but rejected with {impl}: {desc}"
    return ← monitor s s!"{pre}reject-names-violated-rule{tag}" s!"{impl} but that rule holds (required fee {r.req}): {desc}"
  return s

/-- The channel_update embedded in a policy failure must be one the node's update sources
    returned for this channel during the evaluation (`extraScid`: a short channel id the update
    may legitimately be re-labelled with — the alias the sender used). -/
def monitorEmbedded (s : St) (code : Int) (emb : UpdFp) (sources : List UpdFp) (extraScid : Option Int)
    (desc : String) (pre : String := "") : IO St := do
  if !carriesChannelUpdate code || !emb.present then return s
  let ok := sources.any fun u => u.present && u.flags == emb.flags && u.digest == emb.digest &&
    (u.scid == emb.scid || extraScid == some emb.scid)
  if ok then return s
  monitor s s!"{pre}failure-embeds-foreign-update" s!"the failure carries channel_update {emb.str}, the node's sources returned {sources.filter (·.present) |>.map (·.str)}: {desc}"

def countEmbedded (s : St) (emb alias : UpdFp) (selfScidKnown : Option Int) : St :=
  if !emb.present then s else
  let s := { s with updEmbedded := s.updEmbedded + 1 }
  let s := if (emb.flags % 256) / 2 % 2 == 1 then { s with updDisabled := s.updDisabled + 1 } else s
  let s := if alias.present && alias == emb then { s with updAlias := s.updAlias + 1 } else s
  match selfScidKnown with
  | some k => if emb.scid != k then { s with updForeignScid := s.updForeignScid + 1 } else s
  | none => s

structure Res where
  impl : String
  payload : Int
  code : Int
  emb : UpdFp
  calls : Int

/-- `VERDICT payload code e e_scid e_fl e_dg [calls]` -/
def resOfLine (res : List String) : Res :=
  match res with
  | v :: rest =>
    let xs := rest.map fun w => (int? w).getD (-2)
    { impl := v, payload := xs.getD 0 (-2), code := xs.getD 1 (-2),
      emb := mkFp ((xs.drop 2).take 4), calls := xs.getD 6 (-2) }
  | [] => { impl := "?", payload := -2, code := -2, emb := ⟨false, 0, 0, 0⟩, calls := -2 }

/-- expected `aliasCalls + 10*fetchCalls` of a link-level evaluation -/
def expectedCalls (e : Option LinkError) (v : Verdict) (alias : Option Upd) : Int :=
  match e with
  | none => 0
  | some _ => if v.carriesUpdate then (if alias.isSome then 1 else 11) else 0

/-- compare a model `*LinkError` with the implementation's final wire failure -/
def leDiff (e : Option LinkError) (r : Res) (cmpUpd : Bool := true) : Option String :=
  match e with
  | none => if r.impl == "accept" then none else some s!"model=accept impl={r.impl}"
  | some e =>
    let w := Gen.finalWire e
    let embM := UpdFp.ofUpd w.upd
    if e.wire != r.impl || w.payload != r.payload || (w.code : Int) != r.code ||
        (cmpUpd && !(embM == r.emb)) then
      some s!"model={e.wire} {w.payload} code {w.code} upd {embM.str} impl={r.impl} {r.payload} code {r.code} upd {r.emb.str}"
    else none

def step (s : St) (line : String) : IO St := do
  let s := { s with lines := s.lines + 1 }
  let ws := words line
  match ws with
  | "FACT" :: rest =>
    let chk (s : St) (key : String) (v : Nat) : IO St :=
      if kvNat? rest key == some v then pure s
      else mismatch s s!"fact {key}: model={v} impl={(kv? rest key).getD "?"}"
    -- CalcFee(rate=MaxInt32, amt=10^6) = clamp = maxFeeRate; ExpectedFee(rate 10^6, 12345) = 12345
    let s ← chk s "inboundClampTimes1e6" maxFeeRate.toNat
    let s ← chk s "feeAt1e6ppm" (12345 * feeRateParts / 1000000)
    let s ← chk s "defaultMaxCltv" 2016
    return { s with facts := s.facts + 1 }
  | "CASE" :: id :: _ =>
    let s := { s with caseId := id, cases := s.cases + 1 }
    return s
  | ["END"] => return s
  | "fwd" :: rest =>
    let (args, res) := splitArrow rest
    let some xs := ints? args | mismatch s "fwd: bad integer"
    if xs.length != 23 then return ← mismatch s s!"fwd: expected 23 integers :: {line.take 80}"
    let aliasFp := mkFp ((xs.drop 15).take 4)
    let fetchFp := mkFp ((xs.drop 19).take 4)
    match xs.take 15 with
    | [min, max, base, rate, tld, rej, maxcltv, bw, inc, out, ein, eout, h, ib, ir] =>
      let rr := resOfLine res
      let impl := rr.impl
      let s := countVerdict { s with evals := s.evals + 1, fwd := s.fwd + 1 } impl
      let p : Policy := ⟨min.toNat, max.toNat, base.toNat, rate.toNat, tld.toNat⟩
      let c : Cfg := ⟨rej.toNat, maxcltv.toNat, bw.toNat⟩
      let i : Inputs := ⟨inc.toNat, out.toNat, ein.toNat, eout.toNat, h.toNat, ib, ir⟩
      -- (X) correspondence with the Go-semantics model: verdict, payload, wire code, embedded update,
      --     calls of the two update sources
      let g := Gen.checkHtlcForward p c i
      let le := Gen.checkHtlcForwardLE p c i aliasFp.toUpd fetchFp.toUpd
      let mut s := s
      match leDiff le rr with
      | some d => s ← mismatch s s!"fwd: {d} :: {line}"
      | none =>
        if rr.calls != expectedCalls le g aliasFp.toUpd then
          s ← mismatch s s!"fwd: update sources called {rr.calls}, model {expectedCalls le g aliasFp.toUpd} :: {line}"
      -- (S) monitor with exact integers, on the final wire failure
      let r := mkRules min max base rate tld rej maxcltv bw inc out ein eout h ib ir
      let req := r.req
      let domFee := r.domFee
      let domExp := r.domExp
      let updAvail := aliasFp.present || fetchFp.present
      let implW := wireName impl rr.code
      if impl == "accept" && inc < out then
        s ← monitor s "never-loses-money" s!"accepted incoming={inc} < outgoing={out} :: {line}"
      else
        s ← monitorDecision s true r implW line "" updAvail
      s ← monitorEmbedded s rr.code rr.emb [aliasFp, fetchFp] none line
      -- statistics
      s := countEmbedded s rr.emb aliasFp none
      if !updAvail then s := { s with fetchErr := s.fetchErr + 1 }
      if implW == "TemporaryNodeFailure" then s := { s with vNodeFail := s.vNodeFail + 1 }
      let allOk := r.feeOk && r.minOk && r.maxOk && r.soonOk && r.farOk && r.bwOk && r.deltaOk && r.dmaxOk
      let nViol := [r.feeOk, r.minOk, r.maxOk, r.soonOk, r.farOk, r.bwOk, r.deltaOk, r.dmaxOk].countP (!·)
      let exactAccept := allOk
      if domFee && domExp then s := { s with inDom := s.inDom + 1 }
      if r.inbOverflow then s := { s with inbOverflow := s.inbOverflow + 1 }
      if (g == .accept) != exactAccept then s := { s with wrapAffected := s.wrapAffected + 1 }
      if nViol ≤ 1 then s := { s with nontrivial := s.nontrivial + 1 }
      if near (inc - out) req || near inc out then s := { s with bFee := s.bFee + 1 }
      if near out min || near out max || near out bw then s := { s with bAmt := s.bAmt + 1 }
      if near eout (h + rej) || near eout (h + maxcltv) || near (ein - eout) tld || near (ein - eout) maxcltv then
        s := { s with bExp := s.bExp + 1 }
      if s.samples < 4 && (s.evals % 997 == 1) then
        IO.println s!"SAMPLE {line} | model={g.wire} requiredFee={req}"
        s := { s with samples := s.samples + 1 }
      return s
    | _ => mismatch s s!"fwd: expected 23 integers :: {line.take 80}"
  | "tr" :: rest =>
    let (args, res) := splitArrow rest
    let some xs := ints? args | mismatch s "tr: bad integer"
    if xs.length != 19 then return ← mismatch s s!"tr: expected 19 integers :: {line.take 80}"
    let aliasFp := mkFp ((xs.drop 11).take 4)
    let fetchFp := mkFp ((xs.drop 15).take 4)
    match xs.take 11 with
    | [min, max, base, rate, tld, rej, maxcltv, bw, out, eout, h] =>
      let rr := resOfLine res
      let impl := rr.impl
      let s := countVerdict { s with evals := s.evals + 1, tr := s.tr + 1 } impl
      let p : Policy := ⟨min.toNat, max.toNat, base.toNat, rate.toNat, tld.toNat⟩
      let c : Cfg := ⟨rej.toNat, maxcltv.toNat, bw.toNat⟩
      let g := Gen.checkHtlcTransit p c out.toNat eout.toNat h.toNat
      let i : Inputs := ⟨0, out.toNat, 0, eout.toNat, h.toNat, 0, 0⟩
      let le := Gen.checkHtlcTransitLE p c out.toNat eout.toNat h.toNat aliasFp.toUpd fetchFp.toUpd
      let mut s := s
      match leDiff le rr with
      | some d => s ← mismatch s s!"tr: {d} :: {line}"
      | none =>
        if rr.calls != expectedCalls le g aliasFp.toUpd then
          s ← mismatch s s!"tr: update sources called {rr.calls}, model {expectedCalls le g aliasFp.toUpd} :: {line}"
      let domExp := decide (h < 2147483648) && decide (eout < 2147483648) &&
        decide (rej < 2147483648) && decide (maxcltv < 2147483648)
      let r : Rules := {
        feeOk := true, deltaOk := true, dmaxOk := true, domFee := true, inbOverflow := false, req := 0
        minOk := decide (min ≤ out)
        maxOk := decide (max = 0) || decide (out ≤ max)
        soonOk := decide (h + rej < eout)
        farOk := decide (eout ≤ h + maxcltv)
        bwOk := decide (out ≤ bw)
        domExp := domExp }
      let updAvail := aliasFp.present || fetchFp.present
      let implW := wireName impl rr.code
      s ← monitorDecision s false r implW line "" updAvail
      s ← monitorEmbedded s rr.code rr.emb [aliasFp, fetchFp] none line
      s := countEmbedded s rr.emb aliasFp none
      if !updAvail then s := { s with fetchErr := s.fetchErr + 1 }
      if implW == "TemporaryNodeFailure" then s := { s with vNodeFail := s.vNodeFail + 1 }
      let _ := i
      let nViol := [r.minOk, r.maxOk, r.soonOk, r.farOk, r.bwOk].countP (!·)
      if nViol ≤ 1 then s := { s with nontrivial := s.nontrivial + 1 }
      if domExp then s := { s with inDom := s.inDom + 1 }
      if (g == .accept) != (nViol == 0) then s := { s with wrapAffected := s.wrapAffected + 1 }
      return s
    | _ => mismatch s s!"tr: expected 19 integers :: {line.take 80}"
  | "sw" :: rest | "swl" :: rest =>
    let isLocal := ws.head? == some "swl"
    let (args, res) := splitArrow rest
    let some xs := ints? args | mismatch s "sw: bad integer"
    -- header
    let hdrLen := if isLocal then 8 else 15
    if xs.length < hdrLen then return ← mismatch s s!"sw: short line :: {line.take 80}"
    let hdr := xs.take hdrLen
    let body := xs.drop hdrLen
    let g (k : Nat) : Int := hdr.getD k 0
    -- sw : mode req via rjh h in out ein eout ib ir orig ia bi n
    -- swl: req via h out eout orig bi n
    let (mode, req, via, rjh, h, inc, out, ein, eout, ib, ir, orig, ia, bi, n) :
        Int × Int × Int × Int × Int × Int × Int × Int × Int × Int × Int × Int × Int × Int × Int :=
      if isLocal then (0, g 0, g 1, 0, g 2, 0, g 3, 0, g 4, 0, 0, g 5, 0, g 6, g 7)
      else (g 0, g 1, g 2, g 3, g 4, g 5, g 6, g 7, g 8, g 9, g 10, g 11, g 12, g 13, g 14)
    if body.length != 15 * n.toNat then return ← mismatch s s!"sw: expected {15 * n.toNat} link integers :: {line.take 80}"
    let (chosen, rr) : Int × Res := match res with
      | c :: rest => ((int? c).getD (-3), resOfLine rest)
      | _ => (-3, resOfLine [])
    let impl := rr.impl
    let i : Inputs := ⟨inc.toNat, out.toNat, ein.toNat, eout.toNat, h.toNat, ib, ir⟩
    -- candidate links = all links to the next peer, with their exact rules
    let cr := mkCands inc out ein eout h ib ir body n.toNat
    let cands := cr.map (·.1)
    let base : Option Nat := if bi < 0 then none else some bi.toNat
    let mut s := { s with evals := s.evals + 1 }
    s := if isLocal then { s with swLocal := s.swLocal + 1 } else { s with sw := s.sw + 1 }
    if mode == 1 then s := { s with swNodeMode := s.swNodeMode + 1 }
    if via == 1 then s := { s with swViaAlias := s.swViaAlias + 1 }
    if via == 2 then s := { s with swViaConfirmed := s.swViaConfirmed + 1 }
    if rjh == 1 then s := { s with swRejectHTLC := s.swRejectHTLC + 1 }
    -- (X) model: set of admissible links / expected failure with its final wire form
    let resolved : Option Cand :=
      if isLocal then
        (match cands.find? (fun l => l.scid = orig.toNat) with
         | some l => some l
         | none => base.bind fun b => cands.find? (fun l => l.scid = b))
      else if mode == 1 then none
      else (Gen.getLinkByMapping (ia == 1) base orig.toNat cands).map (·.1)
    let outcome (r : Nat) : SwOutcome :=
      if isLocal then Gen.getLocalLinkMapped base orig.toNat cands out.toNat eout.toNat h.toNat
      else Gen.handlePacketAddFull (rjh == 1) (mode == 1) 0 (ia == 1) base orig.toNat cands r i
    let admissible : List Nat :=
      if isLocal then (match outcome 0 with | .forward k => [k] | .fail _ => [])
      else if rjh == 1 then []
      else if mode == 1 then (Gen.scanLinks cands i).dests.map (·.scid)
      else match resolved with
        | some _ => (Gen.scanLinks cands i).dests.map (·.scid)
        | none => []
    let chosenScid : Option Nat := if chosen < 0 then none else (cands[chosen.toNat]?).map (·.scid)
    if impl == "accept" then
      s := { s with swForwarded := s.swForwarded + 1 }
      match chosenScid with
      | some k =>
        if !admissible.contains k then
          s ← mismatch s s!"sw: impl forwarded over link {chosen} (scid {k}), model admits scids {admissible} :: {line}"
      | none => s ← mismatch s s!"sw: impl forwarded over link {chosen}, model admits scids {admissible} :: {line}"
    else
      match outcome 0 with
      | .fail f =>
        let upd : Option Upd := match resolved with
          | some t => if isLocal then t.fetched else Gen.failureUpdate (ia == 1) base orig.toNat t
          | none => none
        let e := f.toLinkError i upd
        -- the zero-valued update inside FailChannelDisabled{} is not modelled
        match leDiff (some e) rr (cmpUpd := rr.code != 4116) with
        | some d => s ← mismatch s s!"sw: {d} chosen={chosen} :: {line}"
        | none => if chosen != -1 then s ← mismatch s s!"sw: failed but link {chosen} received the add :: {line}"
      | .forward _ => s ← mismatch s s!"sw: impl failed with {impl}, model forwards over one of {admissible} :: {line}"
    -- (S) monitor, exact integers, independent of Gen
    let isFwd := !isLocal
    let implW := wireName impl rr.code
    let reqLink : Option (Cand × Rules × UpdFp) := if req < 0 then none else cr[req.toNat]?
    -- may the sender name the channel this way?  Not by the confirmed scid of an unadvertised
    -- channel that negotiated scid aliases (the id is in baseIndex and is not an alias).
    let mayName := match reqLink with
      | some (c, _, _) => isLocal || ia == 1 || !c.unadvertised || bi < 0
      | none => mode == 1
    let okIdx := (cr.zipIdx.filter (fun ((c, r, _), _) => c.eligible && surelyForwardable isFwd r)).map (·.2)
    let anyReject := cr.any (fun (c, r, _) => !c.eligible || (firstViolated isFwd r).isSome)
    if !okIdx.isEmpty && anyReject then s := { s with swMixed := s.swMixed + 1, nontrivial := s.nontrivial + 1 }
    if impl == "accept" then
      match (if chosen < 0 then none else cr[chosen.toNat]?) with
      | none =>
        s ← monitor s "forwarded-to-no-or-many-links" s!"accepted but the add reached {chosen} :: {line}"
      | some (c, r, _) =>
        if req ≥ 0 && chosen != req then s := { s with swNotRequested := s.swNotRequested + 1 }
        if rjh == 1 then
          s ← monitor s "forwarded-although-forwards-disabled" s!"RejectHTLC is set but the add was handed to link {chosen} :: {line}"
        else if isLocal && chosen != req then
          s ← monitor s "local-forward-over-other-link" s!"locally sourced htlc for link {req} handed to link {chosen} :: {line}"
        else if !c.eligible then
          s ← monitor s "forwarded-over-rejecting-link" s!"add handed to link {chosen}, which is not eligible to forward (links admissible by exact rules: {okIdx}) :: {line}"
        else
          match firstViolated isFwd r with
          | some (rule, tag) =>
            s ← monitor s s!"forwarded-over-rejecting-link{tag}" s!"add handed to link {chosen} whose own policy rejects it (rule {rule}, required fee {r.req}; links admissible by exact rules: {okIdx}) :: {line}"
          | none => pure ()
    else if rjh == 1 then
      if !implW.startsWith "ChannelDisabled" then
        s ← monitor s "switch-reject-names-violated-rule" s!"forwarding is disabled (RejectHTLC) but the failure is {implW} :: {line}"
    else
      if !okIdx.isEmpty && mayName && (isFwd || okIdx.contains req.toNat) then
        s ← monitor s "switch-rejects-forwardable" s!"failed with {implW} although links {okIdx} are eligible and satisfy every rule :: {line}"
      else if mode == 0 && n > 0 then
        match reqLink with
        | none => pure ()
        | some (c, r, fp) =>
          if implW == "UnknownNextPeer/LinkNotEligible" || implW == "TemporaryChannelFailure/LinkNotEligible" then
            if c.eligible then
              s ← monitor s "switch-reject-names-violated-rule" s!"{implW} but the requested link {req} is eligible :: {line}"
          else if implW == "UnknownNextPeer" then
            if mayName then
              s ← monitor s "switch-reject-names-violated-rule" s!"unknown_next_peer although id {orig} names the registered link {req} :: {line}"
          else if c.eligible then
            s ← monitorDecision s isFwd r implW line "switch-" fp.present
            s ← monitorEmbedded s rr.code rr.emb [fp] (some orig) line "switch-"
            s := countEmbedded s rr.emb ⟨false, 0, 0, 0⟩ none
            if implW == "TemporaryNodeFailure" then s := { s with vNodeFail := s.vNodeFail + 1 }
          else
            s ← monitor s "switch-reject-names-violated-rule" s!"{implW} although the requested link {req} is not eligible to forward :: {line}"
    return s
  | "e2e" :: rest =>
    -- level 3: one payment alice -> bob -> carol; the hop under test is bob
    let (args, res) := splitArrow rest
    let some xs := ints? args | mismatch s "e2e: bad integer"
    match xs with
    | [min, max, base, rate, tld, rej, maxcltv, bw, inc, out, ein, eout, h, ib, ir] =>
      let (impl, payload, code) : String × Int × Int := match res with
        | [v, pl, cd] => (v, (int? pl).getD (-2), (int? cd).getD (-2))
        | _ => ("?", -2, -2)
      if impl.startsWith "local:" then return { s with e2eLocal := s.e2eLocal + 1 }
      let mut s := { s with evals := s.evals + 1, e2e := s.e2e + 1 }
      -- (X) the model of the path: packet construction of processRemoteAdds from the add and the
      --     onion payload, then handlePacketAdd over bob's two links (the incoming link carries a
      --     policy that rejects everything and leads to another peer)
      let inLink : SwLink := { cand := { scid := 1, eligible := true, p := ⟨1125899906842624, 1, 1099511627776, 900000, 1500⟩,
                                         c := ⟨1048576, 0, bw.toNat⟩, peer := 1, fetched := some ⟨1, 0, 0⟩ },
                               chanPoint := 1, inBase := ib, inRate := ir }
      let outLink : SwLink := { cand := { scid := 2, eligible := true, p := ⟨min.toNat, max.toNat, base.toNat, rate.toNat, tld.toNat⟩,
                                          c := ⟨rej.toNat, maxcltv.toNat, bw.toNat⟩, peer := 2, fetched := some ⟨2, 0, 0⟩ },
                                chanPoint := 2, inBase := 0, inRate := 0 }
      let add : AddMsg := { amount := inc.toNat, expiry := ein.toNat }
      let fwd : FwdInfo := { nextHop := 2, amountToForward := out.toNat, outgoingCltv := eout.toNat }
      let k := Gen.mkPacket inLink add fwd
      let i := k.inputs h.toNat
      let forwarded := impl == "settled" || impl == "exitfail"
      match Gen.forwardAdd false false none [inLink, outLink] inLink add fwd h.toNat 0 with
      | .forward sc =>
        if !forwarded then
          s ← mismatch s s!"e2e: model forwards over scid {sc}, impl={impl} {payload} code {code} :: {line}"
      | .fail f =>
        let w := Gen.finalWire (f.toLinkError i (some ⟨2, 0, 0⟩))
        if forwarded then
          s ← mismatch s s!"e2e: model fails with {f.wire}, impl forwarded ({impl}) :: {line}"
        else if (w.code : Int) != code || w.payload != payload then
          s ← mismatch s s!"e2e: model={f.wire} {w.payload} code {w.code} impl={impl} {payload} code {code} :: {line}"
      -- (S) the property on what the upstream peer observes, exact integers
      let r := mkRules min max base rate tld rej maxcltv bw inc out ein eout h ib ir
      if forwarded then
        s := { s with e2eForwarded := s.e2eForwarded + 1 }
        if inc < out then
          s ← monitor s "never-loses-money" s!"forwarded incoming={inc} < outgoing={out} :: {line}"
        else
          s ← monitorDecision s true r "accept" line
      else
        let implW := wireName impl code
        -- temporary_channel_failure without its local detail also covers a failed AddHTLC on
        -- the outgoing channel: not judged here (it is on levels 1 and 2)
        if !(implW.startsWith "TemporaryChannelFailure") then
          s ← monitorDecision s true r implW line
      let nViol := [r.feeOk, r.minOk, r.maxOk, r.soonOk, r.farOk, r.bwOk, r.deltaOk, r.dmaxOk].countP (!·)
      if nViol ≤ 1 then s := { s with nontrivial := s.nontrivial + 1 }
      if near (inc - out) r.req || near out min || near out max || near eout (h + rej) ||
          near eout (h + maxcltv) || near (ein - eout) tld || near (ein - eout) maxcltv then
        s := { s with e2eBoundary := s.e2eBoundary + 1 }
      return s
    | _ => mismatch s s!"e2e: expected 15 integers :: {line.take 80}"
  | "snd" :: rest =>
    -- level 3: Switch.SendHTLC of the sender itself (getLocalLink -> CheckHtlcTransit)
    let (args, res) := splitArrow rest
    let some xs := ints? args | mismatch s "snd: bad integer"
    match xs with
    | [min, max, base, rate, tld, rej, maxcltv, bw, out, eout, h] =>
      let (impl, payload, code) : String × Int × Int := match res with
        | [v, pl, cd] => (v, (int? pl).getD (-2), (int? cd).getD (-2))
        | _ => ("?", -2, -2)
      let mut s := { s with evals := s.evals + 1, e2eSend := s.e2eSend + 1 }
      let l : SwLink := { cand := { scid := 1, eligible := true, p := ⟨min.toNat, max.toNat, base.toNat, rate.toNat, tld.toNat⟩,
                                    c := ⟨rej.toNat, maxcltv.toNat, bw.toNat⟩, peer := 1, fetched := some ⟨1, 0, 0⟩ },
                          chanPoint := 1, inBase := 0, inRate := 0 }
      let i : Inputs := ⟨0, out.toNat, 0, eout.toNat, h.toNat, 0, 0⟩
      let sent := impl == "settled" || impl == "exitfail"
      let localName := if impl.startsWith "local:" then (impl.drop 6).toString else impl
      match Gen.sendHTLC none [l] 1 out.toNat eout.toNat h.toNat with
      | .forward _ =>
        if !sent then s ← mismatch s s!"snd: model sends, impl={impl} {payload} code {code} :: {line}"
      | .fail f =>
        let e := f.toLinkError i (some ⟨1, 0, 0⟩)
        let w := Gen.finalWire e
        if sent then s ← mismatch s s!"snd: model fails with {f.wire}, impl sent ({impl}) :: {line}"
        else if !(impl.startsWith "local:") || e.wire != localName || (w.code : Int) != code || w.payload != payload then
          s ← mismatch s s!"snd: model={e.wire} {w.payload} code {w.code} impl={impl} {payload} code {code} :: {line}"
      let domExp := decide (h < 2147483648) && decide (eout < 2147483648) &&
        decide (rej < 2147483648) && decide (maxcltv < 2147483648)
      let r : Rules := {
        feeOk := true, deltaOk := true, dmaxOk := true, domFee := true, inbOverflow := false, req := 0
        minOk := decide (min ≤ out)
        maxOk := decide (max = 0) || decide (out ≤ max)
        soonOk := decide (h + rej < eout)
        farOk := decide (eout ≤ h + maxcltv)
        bwOk := decide (out ≤ bw)
        domExp := domExp }
      if sent then
        s := { s with e2eForwarded := s.e2eForwarded + 1 }
        s ← monitorDecision s false r "accept" line
      else if impl.startsWith "local:" then
        s ← monitorDecision s false r (wireName localName code) line
      let nViol := [r.minOk, r.maxOk, r.soonOk, r.farOk, r.bwOk].countP (!·)
      if nViol ≤ 1 then s := { s with nontrivial := s.nontrivial + 1 }
      if near out min || near out max || near eout (h + rej) || near eout (h + maxcltv) then
        s := { s with e2eBoundary := s.e2eBoundary + 1 }
      return s
    | _ => mismatch s s!"snd: expected 11 integers :: {line.take 80}"
  | "fau" :: rest =>
    -- Switch.failAliasUpdate(scid, incoming) called directly
    let (args, res) := splitArrow rest
    let some xs := ints? args | mismatch s "fau: bad integer"
    let some rs := ints? res | mismatch s "fau: bad result"
    if xs.length != 24 || rs.length != 5 then return ← mismatch s s!"fau: malformed :: {line.take 80}"
    let g (k : Nat) : Int := xs.getD k 0
    let (scid, inc, ia, a2r, bi, nal, al0, sign) := (g 0, g 1, g 2, g 3, g 4, g 5, g 6, g 7)
    let fB := mkFp ((xs.drop 8).take 4)
    let fR := mkFp ((xs.drop 12).take 4)
    let fS := mkFp ((xs.drop 16).take 4)
    let own := mkFp ((xs.drop 20).take 4)
    let asked := rs.getD 0 (-9)
    let out := mkFp (rs.drop 1)
    let mut s := { s with evals := s.evals + 1, fau := s.fau + 1 }
    let optN (x : Int) : Option Nat := if x < 0 then none else some x.toNat
    let v : AliasView := {
      isAlias := fun _ => ia == 1
      aliasToReal := fun k => if k == scid.toNat then optN a2r else none
      baseIndex := fun k => if k == scid.toNat then optN bi else none
      aliases := fun k => if some k == optN bi && nal ≥ 0 then
          some (if nal == 0 then [] else al0.toNat :: List.replicate (nal.toNat - 1) 0) else none
      -- the later assignments win: the key `scid` itself is looked up last in the chain below
      fetch := fun k =>
        if k == scid.toNat then fS.toUpd
        else if some k == optN a2r then fR.toUpd
        else if some k == optN bi then fB.toUpd else none
      signOk := sign == 1 }
    -- (X)
    let m := Gen.failAliasUpdate v scid.toNat (inc == 1)
    let mk := Gen.failAliasFetchKey v scid.toNat
    if !(UpdFp.ofUpd m == out) then
      s ← mismatch s s!"fau: model={(UpdFp.ofUpd m).str} impl={out.str} :: {line}"
    else if (match mk with | some k => (k : Int) | none => -1) != asked then
      s ← mismatch s s!"fau: model asks for key {mk}, impl asked {asked} :: {line}"
    -- (S) an update handed out for a failure is the node's current update of the channel that owns
    --     the id (all fields but the label), and its label never reveals another id than the one
    --     the sender used / an alias of the channel
    if out.present then
      s := { s with fauSome := s.fauSome + 1 }
      if out.scid != fS.scid || !fS.present then s := { s with fauRelabelled := s.fauRelabelled + 1 }
      if !own.present || own.flags != out.flags || own.digest != out.digest then
        s ← monitor s "alias-update-foreign" s!"failAliasUpdate({scid}) returned {out.str}, the channel's current update is {own.str} :: {line}"
      else if ia == 1 && out.scid != scid then
        s ← monitor s "alias-update-label" s!"the sender used alias {scid} but the update is labelled {out.scid} :: {line}"
    if ia == 1 || bi ≥ 0 then s := { s with nontrivial := s.nontrivial + 1 }
    return s
  | "afwd" :: rest | "atr" :: rest =>
    -- CheckHtlcForward / CheckHtlcTransit with cfg.AuxTrafficShaper set
    let isFwd := ws.head? == some "afwd"
    let (args, res) := splitArrow rest
    let some xs0 := ints? args | mismatch s "afwd: bad integer"
    let nInts := if isFwd then 26 else 22
    if xs0.length != nInts then return ← mismatch s s!"afwd: expected {nInts} integers :: {line.take 80}"
    let (cu, hd, abw) := (xs0.getD 0 0, xs0.getD 1 0, xs0.getD 2 0)
    let xs := xs0.drop 3
    -- transit lines carry no incoming amount / expiry / inbound fee
    let ys : List Int := if isFwd then xs.take 15
      else (xs.take 8) ++ [0, xs.getD 8 0, 0, xs.getD 9 0, xs.getD 10 0, 0, 0]
    let fixOff := if isFwd then 15 else 11
    let aliasFp := mkFp ((xs.drop fixOff).take 4)
    let fetchFp := mkFp ((xs.drop (fixOff + 4)).take 4)
    match ys with
    | [min, max, base, rate, tld, rej, maxcltv, bw, inc, out, ein, eout, h, ib, ir] =>
      let rr := resOfLine res
      let seen := ((res.drop 8).head?.bind int?).getD (-2)
      let impl := rr.impl
      let mut s := { s with evals := s.evals + 1, aux := s.aux + 1 }
      let aux : Aux := { isCustom := cu == 1
                         handle := if hd < 0 then none else some (hd == 1)
                         bandwidth := if abw < 0 then none else some abw.toNat }
      if aux.isCustom then s := { s with auxCustom := s.auxCustom + 1 }
      let p : Policy := ⟨min.toNat, max.toNat, base.toNat, rate.toNat, tld.toNat⟩
      let c : Cfg := ⟨rej.toNat, maxcltv.toNat, bw.toNat⟩
      let i : Inputs := ⟨inc.toNat, out.toNat, ein.toNat, eout.toNat, h.toNat, ib, ir⟩
      -- (X)
      let g : AVerdict := if isFwd then Gen.checkHtlcForwardAux (some aux) p c i
        else Gen.checkHtlcTransitAux (some aux) p c out.toNat eout.toNat h.toNat
      let le := g.toLinkError i aliasFp.toUpd fetchFp.toUpd
      match leDiff le rr with
      | some d => s ← mismatch s s!"afwd: {d} :: {line}"
      | none =>
        let expCalls : Int := match g with
          | .v x => expectedCalls le x aliasFp.toUpd
          | .auxError => 0
        if rr.calls != expCalls then
          s ← mismatch s s!"afwd: update sources called {rr.calls}, model {expCalls} :: {line}"
        else if seen != 1 then
          s ← mismatch s s!"afwd: the traffic shaper was not called as modelled (seen={seen}) :: {line}"
      -- (S) exact rules with the bandwidth that applies: the shaper's when it handles the
      --     channel, the link's otherwise; a custom HTLC has no min/max HTLC rule
      let auxErr := hd < 0 || (hd == 1 && abw < 0)
      let bwEff : Int := if hd == 1 && abw ≥ 0 then abw else bw
      if hd == 1 then s := { s with auxHandled := s.auxHandled + 1 }
      if auxErr then s := { s with auxError := s.auxError + 1 }
      let r0 := mkRules min max base rate tld rej maxcltv (if auxErr then out else bwEff) inc out ein eout h ib ir
      let r1 : Rules := if cu == 1 then { r0 with minOk := true, maxOk := true } else r0
      let r : Rules := if isFwd then r1 else
        { r1 with feeOk := true, deltaOk := true, dmaxOk := true, domFee := true, inbOverflow := false }
      let updAvail := aliasFp.present || fetchFp.present
      let implW := wireName impl rr.code
      if impl == "accept" && isFwd && inc < out then
        s ← monitor s "never-loses-money" s!"accepted incoming={inc} < outgoing={out} :: {line}"
      else if auxErr then
        -- the shaper failed, no bandwidth was established: temporary_node_failure is the designed
        -- answer; an acceptance is judged on every rule but the bandwidth; any other rejection must
        -- name a violated rule, the bandwidth rule being read with the link's own bandwidth
        if impl == "accept" then
          s ← monitorDecision s isFwd { r with bwOk := true } implW line "" updAvail
        else if implW != "TemporaryNodeFailure" then
          s ← monitorDecision s isFwd { r with bwOk := decide (out ≤ bw) } implW line "" updAvail
      else
        s ← monitorDecision s isFwd r implW line "" updAvail
      s ← monitorEmbedded s rr.code rr.emb [aliasFp, fetchFp] none line
      let nViol := [r.feeOk, r.minOk, r.maxOk, r.soonOk, r.farOk, r.bwOk, r.deltaOk, r.dmaxOk].countP (!·)
      if nViol ≤ 1 then s := { s with nontrivial := s.nontrivial + 1 }
      return s
    | _ => mismatch s s!"afwd: malformed :: {line.take 80}"
  | "circ" :: rest =>
    let (args, res) := splitArrow rest
    let some xs := ints? args | mismatch s "circ: bad integer"
    match xs, res with
    | [inc, out, al, biIn, biOut], [rs] =>
      let mut s := { s with evals := s.evals + 1, circ := s.circ + 1 }
      let optN (x : Int) : Option Nat := if x < 0 then none else some x.toNat
      let bidx : Nat → Option Nat := fun k =>
        if k == inc.toNat then optN biIn else if k == out.toNat then optN biOut else none
      let m := Gen.checkCircularForward bidx inc.toNat out.toNat (al == 1)
      if rs != (if m then "1" else "0") then
        s ← mismatch s s!"circ: model={m} impl={rs} :: {line}"
      -- (S) a forward may be refused as circular only if circular routes are disallowed and
      --     both ids name the same channel
      let same := inc == out || (biIn ≥ 0 && biIn == biOut)
      if same then s := { s with circSameChannel := s.circSameChannel + 1, nontrivial := s.nontrivial + 1 }
      if rs != "0" then
        s := { s with circRefused := s.circRefused + 1 }
        if al == 1 || !same then
          s ← monitor s "circular-refusal-unjustified" s!"refused as circular although {if al == 1 then "circular routes are allowed" else "the ids name different channels"} :: {line}"
      return s
    | _, _ => mismatch s s!"circ: malformed :: {line.take 80}"
  | "efee" :: rest =>
    let (args, res) := splitArrow rest
    let some xs := ints? args | mismatch s "efee: bad integer"
    match xs, res with
    | [base, rate, amt], [rs] =>
      let s := { s with evals := s.evals + 1, nEfee := s.nEfee + 1 }
      let g := Gen.expectedFee base.toNat rate.toNat amt.toNat
      let mut s := s
      if toString g != rs then
        s ← mismatch s s!"efee: model={g} impl={rs} :: {line}"
      -- monitor: exact inside the realistic domain
      let exact : Int := base + truncDiv (amt * rate) 1000000
      if amt ≤ 10000000000000 && base < 4294967296 && rate ≤ 1000000 then
        s := { s with nontrivial := s.nontrivial + 1, inDom := s.inDom + 1 }
        if toString exact != rs then
          s ← monitor s "expected-fee-exact" s!"ExpectedFee = {rs}, exact base + amt*rate/10^6 = {exact} :: {line}"
      return s
    | _, _ => mismatch s s!"efee: malformed :: {line.take 80}"
  | "calc" :: rest =>
    let (args, res) := splitArrow rest
    let some xs := ints? args | mismatch s "calc: bad integer"
    match xs, res with
    | [ib, ir, amt], [rs] =>
      let s := { s with evals := s.evals + 1, nCalc := s.nCalc + 1 }
      let g := Gen.calcFee ib ir amt.toNat
      let mut s := s
      if toString g != rs then
        s ← mismatch s s!"calc: model={g} impl={rs} :: {line}"
      -- monitor: exact for every amount a forward inside the realistic domain can produce
      -- (out + outFee ≤ 10^13 + 2^32 + 10^13)
      let exact : Int := ib + truncDiv (clampM ir * amt) 1000000
      if amt ≤ 20004294967296 && isI32 ib && isI32 ir then
        let ovf := decide (absI (clampM ir) * amt ≥ 9223372036854775808)
        s := { s with nontrivial := s.nontrivial + 1, inDom := s.inDom + 1 }
        if ovf then s := { s with inbOverflow := s.inbOverflow + 1 }
        if toString exact != rs then
          let tag := if ovf then "+inbound-overflow" else ""
          s ← monitor s s!"inbound-fee-exact{tag}" s!"CalcFee = {rs}, exact base + clamp(rate)*amt/10^6 = {exact} :: {line}"
      return s
    | _, _ => mismatch s s!"calc: malformed :: {line.take 80}"
  | [] => return s
  | _ => mismatch s s!"unparsed line: {line.take 60}"

end LndModel.C09.Driver

open LndModel.C09.Driver in
def main : IO Unit := do
  let s ← LndModel.Lines.foldStdin step {}
  let s ← if s.facts == 0 then mismatch s "no FACT line in trace" else pure s
  IO.println s!"STAT lines={s.lines}"
  IO.println s!"STAT cases={s.cases}"
  IO.println s!"STAT evaluations={s.evals}"
  IO.println s!"STAT nontrivial={s.nontrivial}"
  IO.println s!"STAT fwd={s.fwd}"
  IO.println s!"STAT transit={s.tr}"
  IO.println s!"STAT expected_fee_calls={s.nEfee}"
  IO.println s!"STAT calc_fee_calls={s.nCalc}"
  IO.println s!"STAT switch_forward_evals={s.sw}"
  IO.println s!"STAT switch_local_evals={s.swLocal}"
  IO.println s!"STAT switch_node_addressed={s.swNodeMode}"
  IO.println s!"STAT switch_named_by_alias={s.swViaAlias}"
  IO.println s!"STAT switch_named_by_confirmed_scid={s.swViaConfirmed}"
  IO.println s!"STAT switch_reject_htlc={s.swRejectHTLC}"
  IO.println s!"STAT failures_with_channel_update={s.updEmbedded}"
  IO.println s!"STAT failures_with_disabled_channel_update={s.updDisabled}"
  IO.println s!"STAT failures_with_alias_update={s.updAlias}"
  IO.println s!"STAT evaluations_without_channel_update={s.fetchErr}"
  IO.println s!"STAT v_temporary_node_failure={s.vNodeFail}"
  IO.println s!"STAT switch_forwarded={s.swForwarded}"
  IO.println s!"STAT switch_mixed_candidates={s.swMixed}"
  IO.println s!"STAT switch_forwarded_over_other_than_requested={s.swNotRequested}"
  IO.println s!"STAT e2e_forward_evals={s.e2e}"
  IO.println s!"STAT e2e_send_evals={s.e2eSend}"
  IO.println s!"STAT e2e_forwarded_or_sent={s.e2eForwarded}"
  IO.println s!"STAT e2e_refused_by_sender={s.e2eLocal}"
  IO.println s!"STAT e2e_at_a_threshold={s.e2eBoundary}"
  IO.println s!"STAT aux_shaper_evals={s.aux}"
  IO.println s!"STAT aux_shaper_custom_htlc={s.auxCustom}"
  IO.println s!"STAT aux_shaper_handles_channel={s.auxHandled}"
  IO.println s!"STAT aux_shaper_error={s.auxError}"
  IO.println s!"STAT circular_check_calls={s.circ}"
  IO.println s!"STAT circular_check_same_channel={s.circSameChannel}"
  IO.println s!"STAT circular_check_refused={s.circRefused}"
  IO.println s!"STAT fail_alias_update_calls={s.fau}"
  IO.println s!"STAT fail_alias_update_some={s.fauSome}"
  IO.println s!"STAT fail_alias_update_relabelled={s.fauRelabelled}"
  IO.println s!"STAT in_realistic_domain={s.inDom}"
  IO.println s!"STAT verdict_differs_from_exact_by_wraparound={s.wrapAffected}"
  IO.println s!"STAT inbound_int64_overflow_in_planned_domain={s.inbOverflow}"
  IO.println s!"STAT v_accept={s.vAccept}"
  IO.println s!"STAT v_fee_insufficient={s.vFee}"
  IO.println s!"STAT v_amount_below_minimum={s.vMin}"
  IO.println s!"STAT v_htlc_exceeds_max={s.vMax}"
  IO.println s!"STAT v_expiry_too_soon={s.vSoon}"
  IO.println s!"STAT v_expiry_too_far={s.vFar}"
  IO.println s!"STAT v_insufficient_balance={s.vBw}"
  IO.println s!"STAT v_incorrect_cltv_expiry={s.vCltv}"
  IO.println s!"STAT v_other={s.vOther}"
  IO.println s!"STAT boundary_fee={s.bFee}"
  IO.println s!"STAT boundary_amount={s.bAmt}"
  IO.println s!"STAT boundary_expiry={s.bExp}"
  IO.println s!"STAT mismatches={s.mismatches}"
  IO.println s!"STAT monitor_failures={s.monitorFails}"
  for (cl, n) in s.clauseCounts do
    IO.println s!"STAT monitor_clause[{cl}]={n}"
